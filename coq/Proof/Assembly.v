(* Proof/Assembly.v -- lemmas of C05 (row-class layout, contact address bookkeeping, launch-order
   facts, closed forms of the translated _efc_row).  See Model/Assembly.v for the model. *)
From Coq Require Import ZArith Reals List Bool String Lia Lra ZifyBool Permutation.
From VF Require Import Base.Scalar Base.ScalarR Base.Vec Base.Loop Model.Alloc Proof.Alloc Model.Pipeline Model.Assembly
  Gen.Skel_alloc Gen.constraint_funcs.
Import ListNotations.
Local Open Scope Z_scope.

(* ================= launch order (regenerated host program) ================= *)
Lemma launch_order_ok_true : launch_order_ok = true.
Proof. vm_compute. reflexivity. Qed.

(* ================= generic list facts ================= *)
Lemma NoDup_app_intro {A} (l1 l2 : list A) :
  NoDup l1 -> NoDup l2 -> (forall x, In x l1 -> ~ In x l2) -> NoDup (l1 ++ l2).
Proof.
  induction l1 as [|a l1 IH]; simpl; intros H1 H2 Hd; auto.
  inversion H1; subst. constructor.
  - intros Hin. apply in_app_or in Hin. destruct Hin as [Hin|Hin]; [contradiction|].
    apply (Hd a); auto.
  - apply IH; auto.
Qed.

Lemma zrange_NoDup k : NoDup (zrange k).
Proof.
  unfold zrange. apply FinFun.Injective_map_NoDup; [|apply seq_NoDup].
  intros a b Hab. lia.
Qed.

Lemma find_unique {A} (f : A -> Z) (l : list A) (w : A) :
  NoDup (map f l) -> In w l -> find (fun x => f x =? f w) l = Some w.
Proof.
  induction l as [|a l IH]; simpl; intros Hn Hin; [contradiction|].
  inversion Hn; subst.
  destruct Hin as [->|Hin].
  - rewrite Z.eqb_refl. reflexivity.
  - destruct (f a =? f w) eqn:E.
    + exfalso. apply H1. apply Z.eqb_eq in E. rewrite E. apply in_map. exact Hin.
    + apply IH; auto.
Qed.

(* ================= rows produced by one allocation ================= *)
Definition kept_of (cap : Z) (b : builder) (e k : Z) : list Z :=
  if b_perrow b then filter (fun i => negb (cmpb (b_cmp b) (e + i) (cap + b_off b))) (zrange k) else zrange k.

Lemma kept_facts cap b e k :
  Forall (fun i => 0 <= i < k) (kept_of cap b e k) /\ NoDup (kept_of cap b e k).
Proof.
  unfold kept_of. destruct (b_perrow b).
  - split.
    + apply Forall_forall. intros i Hi. apply filter_In in Hi. destruct Hi as [Hi _]. apply zrange_In in Hi. lia.
    + apply NoDup_filter. apply zrange_NoDup.
  - split.
    + apply Forall_forall. intros i Hi. apply zrange_In in Hi. lia.
    + apply zrange_NoDup.
Qed.

Definition mk_rows (e : Z) (q : req) (c : bool) (kept : list Z) : list wrow :=
  map (fun i => mkW (e + i) (q_type q) (q_id q) c) kept.

Lemma mk_rows_facts e q c kept k :
  Forall (fun i => 0 <= i < k) kept -> NoDup kept ->
  Forall (fun w => e <= w_efcid w < e + k /\ w_type w = q_type q /\ w_id w = q_id q) (mk_rows e q c kept) /\
  NoDup (map w_efcid (mk_rows e q c kept)).
Proof.
  intros Hf Hn. unfold mk_rows. split.
  - apply Forall_map. eapply Forall_impl; [|exact Hf]. simpl. intros; lia.
  - rewrite map_map. simpl. apply FinFun.Injective_map_NoDup; auto. intros a b' Hab. lia.
Qed.

(* the rows of an effect are one of: nothing, or mk_rows over the kept indices *)
Lemma effect_w_shape cap capz sparse b q e r :
  let ef := alloc_effect cap capz sparse b q e r in
  e_rows ef = nrows b q /\
  (e_w ef = [] \/ exists c, e_w ef = mk_rows e q c (kept_of cap b e (nrows b q))).
Proof.
  unfold alloc_effect, kept_of, mk_rows.
  destruct (b_perrow b); simpl negb; simpl andb; cbv iota.
  - destruct (sparse && b_has_nnz b).
    + destruct (cmpb (b_ncmp b) _ _); simpl.
      * split; auto. destruct (b_deferred b); [right; exists false; reflexivity|left; reflexivity].
      * split; auto. right. exists true. reflexivity.
    + simpl. split; auto. right. exists true. reflexivity.
  - destruct (cmpb (b_cmp b) e (cap + b_off b)); simpl.
    { split; auto. }
    destruct (sparse && b_has_nnz b).
    + destruct (cmpb (b_ncmp b) _ _); simpl.
      * split; auto. destruct (b_deferred b); [right; exists false; reflexivity|left; reflexivity].
      * split; auto. right. exists true. reflexivity.
    + simpl. split; auto. right. exists true. reflexivity.
Qed.

Lemma effect_rows cap capz sparse b q e r :
  let ef := alloc_effect cap capz sparse b q e r in
  e_rows ef = nrows b q /\
  Forall (fun w => e <= w_efcid w < e + nrows b q /\ w_type w = q_type q /\ w_id w = q_id q) (e_w ef) /\
  NoDup (map w_efcid (e_w ef)).
Proof.
  cbv zeta. destruct (effect_w_shape cap capz sparse b q e r) as [Hr Hw]. cbv zeta in Hw.
  split; [exact Hr|].
  destruct Hw as [->|[c ->]].
  - split; constructor.
  - destruct (kept_facts cap b e (nrows b q)) as [Hf Hn].
    apply mk_rows_facts; auto.
Qed.

(* ================= growth of the state ================= *)
Definition ext (P : wrow -> Prop) (s s' : st) : Prop :=
  exists new, s_rows s' = s_rows s ++ new /\
    Forall (fun w => s_n s <= w_efcid w < s_n s' /\ P w) new /\
    NoDup (map w_efcid new) /\ s_n s <= s_n s'.

Definition cnt (c : Z) (s s' : st) : Prop :=
  s_ne s' = s_ne s + (if c =? 0 then s_n s' - s_n s else 0) /\
  s_nf s' = s_nf s + (if c =? 1 then s_n s' - s_n s else 0) /\
  s_nl s' = s_nl s + (if c =? 2 then s_n s' - s_n s else 0).

Lemma ext_refl P s : ext P s s.
Proof. exists []. rewrite app_nil_r. repeat split; try constructor; lia. Qed.

Lemma ext_trans P s1 s2 s3 : ext P s1 s2 -> ext P s2 s3 -> ext P s1 s3.
Proof.
  intros (n1 & R1 & F1 & D1 & M1) (n2 & R2 & F2 & D2 & M2).
  exists (n1 ++ n2). rewrite R2, R1, app_assoc. split; [reflexivity|].
  split.
  - apply Forall_app. split.
    + eapply Forall_impl; [|exact F1]. simpl. intros w [? ?]. split; auto. lia.
    + eapply Forall_impl; [|exact F2]. simpl. intros w [? ?]. split; auto. lia.
  - split; [|lia]. rewrite map_app. apply NoDup_app_intro; auto.
    intros x H1 H2. apply in_map_iff in H1. destruct H1 as (w1 & <- & I1).
    apply in_map_iff in H2. destruct H2 as (w2 & E & I2).
    rewrite Forall_forall in F1, F2. specialize (F1 _ I1). specialize (F2 _ I2). lia.
Qed.

Lemma cnt_refl c s : cnt c s s.
Proof. unfold cnt. destruct (c =? 0), (c =? 1), (c =? 2); lia. Qed.

Lemma cnt_trans c s1 s2 s3 : cnt c s1 s2 -> cnt c s2 s3 -> cnt c s1 s3.
Proof. unfold cnt. destruct (c =? 0), (c =? 1), (c =? 2); lia. Qed.

Lemma ext_weaken (P Q : wrow -> Prop) s s' : (forall w, P w -> Q w) -> ext P s s' -> ext Q s s'.
Proof.
  intros H (n & R & F & D & M). exists n. repeat split; auto.
  eapply Forall_impl; [|exact F]. simpl. intros w [? ?]. auto.
Qed.

Section Grow.
Variables (cap capz : Z) (sparse : bool).

Lemma step_ext b q s :
  0 <= nrows b q ->
  ext (fun w => w_type w = q_type q /\ w_id w = q_id q) s
      (apply_effect b q (alloc_effect cap capz sparse b q (s_n s) (s_z s)) s) /\
  cnt (class_of b) s (apply_effect b q (alloc_effect cap capz sparse b q (s_n s) (s_z s)) s).
Proof.
  intros Hk.
  destruct (effect_rows cap capz sparse b q (s_n s) (s_z s)) as (Hr & Hf & Hn). cbv zeta in *.
  set (ef := alloc_effect cap capz sparse b q (s_n s) (s_z s)) in *.
  split.
  - exists (e_w ef). unfold apply_effect; simpl. rewrite Hr. repeat split; auto; try lia.
  - unfold cnt, apply_effect, class_of; simpl. rewrite Hr.
    destruct (b_tcounter b =? 0), (b_tcounter b =? 1), (b_tcounter b =? 2); lia.
Qed.

Lemma skip_ext P c qs s : ext P s (skip_all qs s) /\ cnt c s (skip_all qs s).
Proof.
  split.
  - exists []. unfold skip_all; simpl. rewrite app_nil_r. repeat split; try constructor; lia.
  - unfold cnt, skip_all; simpl. destruct (c =? 0), (c =? 1), (c =? 2); lia.
Qed.

Lemma run_reqs_ext (P : wrow -> Prop) b : forall qs s,
  Forall (fun q => 0 <= nrows b q /\ (forall w, w_type w = q_type q -> w_id w = q_id q -> P w)) qs ->
  ext P s (run_reqs cap capz sparse b qs s) /\ cnt (class_of b) s (run_reqs cap capz sparse b qs s).
Proof.
  induction qs as [|q qs IH]; intros s Hq; simpl.
  - split; [apply ext_refl|apply cnt_refl].
  - inversion Hq; subst. destruct H1 as [Hk HP].
    destruct (step_ext b q s Hk) as [E1 C1].
    set (s1 := apply_effect b q (alloc_effect cap capz sparse b q (s_n s) (s_z s)) s) in *.
    assert (E1' : ext P s s1) by (eapply ext_weaken; [|exact E1]; intros w [? ?]; auto).
    destruct (e_cont _).
    + destruct (IH s1 H2) as [E2 C2]. split; [eapply ext_trans; eauto|eapply cnt_trans; eauto].
    + destruct (skip_ext P (class_of b) qs s1) as [E2 C2].
      split; [eapply ext_trans; eauto|eapply cnt_trans; eauto].
Qed.

Definition task_ok (P : wrow -> Prop) (t : task) : Prop :=
  Forall (fun q => 0 <= nrows (t_b t) q /\ (forall w, w_type w = q_type q -> w_id w = q_id q -> P w)) (t_reqs t).

Lemma run_tasks_ext (P : wrow -> Prop) c : forall ts s,
  Forall (fun t => task_class t = c /\ task_ok P t) ts ->
  ext P s (run_tasks cap capz sparse ts s) /\ cnt c s (run_tasks cap capz sparse ts s).
Proof.
  unfold run_tasks. induction ts as [|t ts IH]; intros s Ht; simpl.
  - split; [apply ext_refl|apply cnt_refl].
  - inversion Ht; subst. destruct H1 as [Hc Hok].
    destruct (run_reqs_ext P (t_b t) (t_reqs t) s Hok) as [E1 C1].
    unfold task_class in Hc. rewrite Hc in C1.
    destruct (IH (run_task cap capz sparse s t) H2) as [E2 C2].
    unfold run_task in *.
    split; [eapply ext_trans; eauto|eapply cnt_trans; eauto].
Qed.

(* class-free version: rows only *)
Lemma run_tasks_ext_any : forall ts s,
  Forall nonneg_task ts -> ext (fun _ => True) s (run_tasks cap capz sparse ts s).
Proof.
  unfold run_tasks. induction ts as [|t ts IH]; intros s Ht; simpl.
  - apply ext_refl.
  - inversion Ht; subst.
    assert (Hok : Forall (fun q => 0 <= nrows (t_b t) q /\ (forall w, w_type w = q_type q -> w_id w = q_id q -> True)) (t_reqs t)).
    { eapply Forall_impl; [|exact H1]. simpl. intros q [? ?]. split; auto. }
    destruct (run_reqs_ext (fun _ => True) (t_b t) (t_reqs t) s Hok) as [E1 _].
    eapply ext_trans; [exact E1|]. apply IH; auto.
Qed.

End Grow.

(* ================= rows_sorted_by_kind ================= *)
Definition stage_schedule (g g' : stages) : Prop :=
  Permutation (st_e g) (st_e g') /\ Permutation (st_f g) (st_f g') /\
  Permutation (st_l g) (st_l g') /\ Permutation (st_c g) (st_c g').

Lemma stages_ok_perm g g' : stage_schedule g g' -> stages_ok g -> stages_ok g'.
Proof.
  intros (P1 & P2 & P3 & P4) (H1 & H2 & H3 & H4). unfold stages_ok.
  repeat split; eapply Permutation_Forall; eauto.
Qed.

Lemma stages_typed_perm g g' : stage_schedule g g' -> stages_typed g -> stages_typed g'.
Proof.
  intros (P1 & P2 & P3 & P4) H. unfold stages_typed, stage_tasks in *.
  eapply Permutation_Forall; [|exact H].
  repeat apply Permutation_app; auto.
Qed.

Lemma stage_forall (g : stages) (c : Z) (l : list task) :
  Forall (fun t => task_class t = c) l -> Forall (fun t => typed_task t /\ nonneg_task t) l ->
  Forall (fun t => task_class t = c /\ task_ok (fun w => kind_of_type (w_type w) = c) t) l.
Proof.
  intros Hc Ht. apply Forall_forall. intros t Hin.
  rewrite Forall_forall in Hc, Ht. specialize (Hc _ Hin). destruct (Ht _ Hin) as [Hty Hnn].
  split; auto. unfold task_ok, typed_task, nonneg_task in *.
  apply Forall_forall. intros q Hq. rewrite Forall_forall in Hty, Hnn.
  specialize (Hty _ Hq). destruct (Hnn _ Hq) as [Hk _]. split; auto.
  intros w Hw _. rewrite Hw, Hty. exact Hc.
Qed.

(* the four stages one after the other *)
Lemma stages_chain cap capz sparse g a r :
  stages_ok g -> stages_typed g ->
  let s := run_stages cap capz sparse g a r in
  exists n1 n2 n3 n4 a1 a2 a3,
    s_rows s = n1 ++ n2 ++ n3 ++ n4 /\
    0 <= a1 <= a2 /\ a2 <= a3 <= s_n s /\
    s_ne s = a1 /\ s_nf s = a2 - a1 /\ s_nl s = a3 - a2 /\
    Forall (fun w => 0 <= w_efcid w < a1 /\ kind_of_type (w_type w) = 0) n1 /\
    Forall (fun w => a1 <= w_efcid w < a2 /\ kind_of_type (w_type w) = 1) n2 /\
    Forall (fun w => a2 <= w_efcid w < a3 /\ kind_of_type (w_type w) = 2) n3 /\
    Forall (fun w => a3 <= w_efcid w < s_n s /\ kind_of_type (w_type w) = 3) n4 /\
    NoDup (map w_efcid (s_rows s)).
Proof.
  intros (H1 & H2 & H3 & H4) Ht. unfold stages_typed, stage_tasks in Ht.
  apply Forall_app in Ht. destruct Ht as [T1 Ht]. apply Forall_app in Ht. destruct Ht as [T2 Ht].
  apply Forall_app in Ht. destruct Ht as [T3 T4].
  cbv zeta. unfold run_stages, stage_tasks, run_tasks. rewrite !fold_left_app.
  fold (run_tasks cap capz sparse (st_e g) (init_st a r)).
  set (s1 := run_tasks cap capz sparse (st_e g) (init_st a r)).
  fold (run_tasks cap capz sparse (st_f g) s1). set (s2 := run_tasks cap capz sparse (st_f g) s1).
  fold (run_tasks cap capz sparse (st_l g) s2). set (s3 := run_tasks cap capz sparse (st_l g) s2).
  fold (run_tasks cap capz sparse (st_c g) s3). set (s4 := run_tasks cap capz sparse (st_c g) s3).
  destruct (run_tasks_ext cap capz sparse _ 0 (st_e g) (init_st a r) (stage_forall g 0 _ H1 T1)) as [E1 C1].
  destruct (run_tasks_ext cap capz sparse _ 1 (st_f g) s1 (stage_forall g 1 _ H2 T2)) as [E2 C2].
  destruct (run_tasks_ext cap capz sparse _ 2 (st_l g) s2 (stage_forall g 2 _ H3 T3)) as [E3 C3].
  destruct (run_tasks_ext cap capz sparse _ 3 (st_c g) s3 (stage_forall g 3 _ H4 T4)) as [E4 C4].
  fold s1 in E1, C1. fold s2 in E2, C2. fold s3 in E3, C3. fold s4 in E4, C4.
  destruct E1 as (n1 & R1 & F1 & D1 & M1). destruct E2 as (n2 & R2 & F2 & D2 & M2).
  destruct E3 as (n3 & R3 & F3 & D3 & M3). destruct E4 as (n4 & R4 & F4 & D4 & M4).
  unfold cnt in *. simpl in *.
  exists n1, n2, n3, n4, (s_n s1), (s_n s2), (s_n s3).
  rewrite R4, R3, R2, R1. simpl. rewrite <- !app_assoc.
  split; [reflexivity|]. split; [lia|]. split; [lia|].
  split; [lia|]. split; [lia|]. split; [lia|].
  split; [eapply Forall_impl; [|exact F1]; simpl; intros; lia|].
  split; [exact F2|]. split; [exact F3|]. split; [exact F4|].
  rewrite !map_app.
  rewrite Forall_forall in F1, F2, F3, F4.
  apply NoDup_app_intro; auto.
  { apply NoDup_app_intro; auto.
    { apply NoDup_app_intro; auto.
      intros x I1 I2. apply in_map_iff in I1, I2. destruct I1 as (w1 & <- & I1). destruct I2 as (w2 & E & I2).
      specialize (F3 _ I1). specialize (F4 _ I2). lia. }
    intros x I1 I2. apply in_app_or in I2. apply in_map_iff in I1. destruct I1 as (w1 & <- & I1).
    specialize (F2 _ I1).
    destruct I2 as [I2|I2]; apply in_map_iff in I2; destruct I2 as (w2 & E & I2);
      [specialize (F3 _ I2)|specialize (F4 _ I2)]; lia. }
  intros x I1 I2. apply in_map_iff in I1. destruct I1 as (w1 & <- & I1). specialize (F1 _ I1).
  apply in_app_or in I2. destruct I2 as [I2|I2].
  { apply in_map_iff in I2; destruct I2 as (w2 & E & I2). specialize (F2 _ I2). lia. }
  apply in_app_or in I2. destruct I2 as [I2|I2]; apply in_map_iff in I2; destruct I2 as (w2 & E & I2);
    [specialize (F3 _ I2)|specialize (F4 _ I2)]; lia.
Qed.

Ltac pc := unfold row_sorted, pos_class;
  repeat match goal with |- context [?a <? ?b] => destruct (Z.ltb_spec a b) end; try lia.

Theorem rows_sorted_by_kind :
  forall cap capz sparse (g g' : stages) adr0 rnz0,
    stages_ok g -> stages_typed g -> stage_schedule g g' ->
    let s := run_stages cap capz sparse g' adr0 rnz0 in
    Forall (row_sorted s) (s_rows s) /\
    Forall (fun w => 0 <= w_efcid w < s_n s) (s_rows s) /\
    NoDup (map w_efcid (s_rows s)).
Proof.
  intros cap capz sparse g g' a r Hok Hty Hsch.
  pose proof (stages_ok_perm g g' Hsch Hok) as Hok'.
  pose proof (stages_typed_perm g g' Hsch Hty) as Hty'.
  destruct (stages_chain cap capz sparse g' a r Hok' Hty')
    as (n1 & n2 & n3 & n4 & a1 & a2 & a3 & R & O1 & O2 & Ne & Nf & Nl & F1 & F2 & F3 & F4 & D).
  cbv zeta in *. set (s := run_stages cap capz sparse g' a r) in *.
  split; [|split; [|exact D]].
  - rewrite R. repeat (apply Forall_app; split).
    + eapply Forall_impl; [|exact F1]. simpl. intros w [Hr Hk]. unfold row_sorted. rewrite Ne, Nf, Nl, Hk. pc.
    + eapply Forall_impl; [|exact F2]. simpl. intros w [Hr Hk]. unfold row_sorted. rewrite Ne, Nf, Nl, Hk. pc.
    + eapply Forall_impl; [|exact F3]. simpl. intros w [Hr Hk]. unfold row_sorted. rewrite Ne, Nf, Nl, Hk. pc.
    + eapply Forall_impl; [|exact F4]. simpl. intros w [Hr Hk]. unfold row_sorted. rewrite Ne, Nf, Nl, Hk. pc.
  - rewrite R. repeat (apply Forall_app; split).
    + eapply Forall_impl; [|exact F1]. simpl. intros; lia.
    + eapply Forall_impl; [|exact F2]. simpl. intros; lia.
    + eapply Forall_impl; [|exact F3]. simpl. intros; lia.
    + eapply Forall_impl; [|exact F4]. simpl. intros; lia.
Qed.

(* ================= counts ================= *)
Lemma tcount_app c a b : tcount c (a ++ b) = tcount c a + tcount c b.
Proof. unfold tcount. rewrite map_app, zsum_app. reflexivity. Qed.
Lemma total_rows_app a b : total_rows (a ++ b) = total_rows a + total_rows b.
Proof. unfold total_rows. rewrite map_app, zsum_app. reflexivity. Qed.

Lemma tcount_class c k (l : list task) :
  Forall (fun t => task_class t = k) l -> tcount c l = if c =? k then total_rows l else 0.
Proof.
  induction 1 as [|t l Ht _ IH]; unfold tcount, total_rows in *; simpl.
  - destruct (c =? k); reflexivity.
  - unfold task_class, class_of in Ht. rewrite IH, Ht.
    destruct (c =? k) eqn:E.
    + apply Z.eqb_eq in E. subst. rewrite Z.eqb_refl. reflexivity.
    + rewrite Z.eqb_sym, E. reflexivity.
Qed.

(* no overflow bit: the counters are the numbers of rows requested per class, every row index
   below nefc is populated and its type class is its position class *)
Theorem counts_and_layout_exact :
  forall cap capz sparse (g g' : stages) adr0 rnz0,
    stages_ok g -> stages_typed g -> stage_schedule g g' ->
    wf_tasks sparse (stage_tasks g') -> 0 <= cap -> 0 <= capz -> meta_ok cap sparse adr0 rnz0 ->
    let s := run_stages cap capz sparse g' adr0 rnz0 in
    overflowed cap capz sparse s = false ->
    s_ne s = total_rows (st_e g) /\ s_nf s = total_rows (st_f g) /\ s_nl s = total_rows (st_l g) /\
    s_n s = total_rows (st_e g) + total_rows (st_f g) + total_rows (st_l g) + total_rows (st_c g) /\
    map w_efcid (s_rows s) = zrange (s_n s) /\
    map (fun w => kind_of_type (w_type w)) (s_rows s) = map (pos_class (s_ne s) (s_nf s) (s_nl s)) (zrange (s_n s)).
Proof.
  intros cap capz sparse g g' a r Hok Hty Hsch Hwf Hc Hcz Hm s Hov.
  destruct (G_exact cap capz sparse (stage_tasks g') a r Hwf Hc Hcz Hm Hov)
    as (_ & _ & Hid & _ & Hn & _ & He & Hf & Hl).
  fold (run_stages cap capz sparse g' a r) in Hid, Hn, He, Hf, Hl. fold s in Hid, Hn, He, Hf, Hl.
  pose proof (stages_ok_perm g g' Hsch Hok) as (O1 & O2 & O3 & O4).
  destruct Hsch as (P1 & P2 & P3 & P4).
  destruct (perm_totals _ _ P1) as (E1 & _). destruct (perm_totals _ _ P2) as (E2 & _).
  destruct (perm_totals _ _ P3) as (E3 & _). destruct (perm_totals _ _ P4) as (E4 & _).
  pose proof Hn as Hn0. unfold stage_tasks in He, Hf, Hl, Hn.
  rewrite !tcount_app in He, Hf, Hl. rewrite !total_rows_app in Hn.
  rewrite (tcount_class 0 0 _ O1), (tcount_class 0 1 _ O2), (tcount_class 0 2 _ O3), (tcount_class 0 3 _ O4) in He.
  rewrite (tcount_class 1 0 _ O1), (tcount_class 1 1 _ O2), (tcount_class 1 2 _ O3), (tcount_class 1 3 _ O4) in Hf.
  rewrite (tcount_class 2 0 _ O1), (tcount_class 2 1 _ O2), (tcount_class 2 2 _ O3), (tcount_class 2 3 _ O4) in Hl.
  simpl in He, Hf, Hl.
  split; [lia|]. split; [lia|]. split; [lia|]. split; [lia|].
  split; [rewrite Hid, Hn0; reflexivity|].
  assert (Hs : Forall (row_sorted s) (s_rows s)).
  { apply (rows_sorted_by_kind cap capz sparse g g' a r); auto. repeat split; auto. }
  rewrite <- Hn0 in Hid. rewrite <- Hid, map_map.
  apply map_ext_Forall. eapply Forall_impl; [|exact Hs]. unfold row_sorted. intros w Hw. symmetry. exact Hw.
Qed.

(* every task issues at most one request (all builders except the looping _equality_flexstrain):
   the counters are the requested numbers of rows for EVERY capacity (they are bumped before the
   guards), so nefc > njmax is visible to forward._next_time *)
Definition single_req (t : task) : Prop := (List.length (t_reqs t) <= 1)%nat.

Lemma run_tasks_n_single cap capz sparse : forall ts s,
  Forall single_req ts -> s_n (run_tasks cap capz sparse ts s) = s_n s + total_rows ts.
Proof.
  unfold run_tasks. induction ts as [|t ts IH]; intros s Hs; simpl.
  - unfold total_rows; simpl. lia.
  - inversion Hs; subst. rewrite IH by auto. unfold total_rows; simpl. unfold run_task, task_nrows.
    unfold single_req in H1. destruct (t_reqs t) as [|q [|q' qs]]; simpl in *; try lia.
    destruct (effect_rows cap capz sparse (t_b t) q (s_n s) (s_z s)) as (Hr & _). cbv zeta in Hr.
    destruct (e_cont _); unfold skip_all, apply_effect; simpl; rewrite Hr; lia.
Qed.

Theorem counts_any_capacity :
  forall cap capz sparse (g g' : stages) adr0 rnz0,
    stages_ok g -> stages_typed g -> stage_schedule g g' -> Forall single_req (stage_tasks g) ->
    let s := run_stages cap capz sparse g' adr0 rnz0 in
    s_ne s = total_rows (st_e g) /\ s_nf s = total_rows (st_f g) /\ s_nl s = total_rows (st_l g) /\
    s_n s = total_rows (st_e g) + total_rows (st_f g) + total_rows (st_l g) + total_rows (st_c g).
Proof.
  intros cap capz sparse g g' a r Hok Hty Hsch Hsing.
  pose proof (stages_ok_perm g g' Hsch Hok) as Hok'.
  pose proof (stages_typed_perm g g' Hsch Hty) as Hty'.
  destruct Hok' as (H1 & H2 & H3 & H4). unfold stages_typed, stage_tasks in Hty'.
  apply Forall_app in Hty'. destruct Hty' as [T1 Ht]. apply Forall_app in Ht. destruct Ht as [T2 Ht].
  apply Forall_app in Ht. destruct Ht as [T3 T4].
  assert (Hsing' : Forall single_req (stage_tasks g')).
  { eapply Permutation_Forall; [|exact Hsing]. destruct Hsch as (P1 & P2 & P3 & P4).
    unfold stage_tasks. repeat apply Permutation_app; auto. }
  unfold stage_tasks in Hsing'.
  apply Forall_app in Hsing'. destruct Hsing' as [S1 Hs]. apply Forall_app in Hs. destruct Hs as [S2 Hs].
  apply Forall_app in Hs. destruct Hs as [S3 S4].
  destruct Hsch as (P1 & P2 & P3 & P4).
  destruct (perm_totals _ _ P1) as (E1 & _). destruct (perm_totals _ _ P2) as (E2 & _).
  destruct (perm_totals _ _ P3) as (E3 & _). destruct (perm_totals _ _ P4) as (E4 & _).
  cbv zeta. unfold run_stages, stage_tasks, run_tasks. rewrite !fold_left_app.
  fold (run_tasks cap capz sparse (st_e g') (init_st a r)).
  set (s1 := run_tasks cap capz sparse (st_e g') (init_st a r)).
  fold (run_tasks cap capz sparse (st_f g') s1). set (s2 := run_tasks cap capz sparse (st_f g') s1).
  fold (run_tasks cap capz sparse (st_l g') s2). set (s3 := run_tasks cap capz sparse (st_l g') s2).
  fold (run_tasks cap capz sparse (st_c g') s3). set (s4 := run_tasks cap capz sparse (st_c g') s3).
  destruct (run_tasks_ext cap capz sparse _ 0 (st_e g') (init_st a r) (stage_forall g' 0 _ H1 T1)) as [_ C1].
  destruct (run_tasks_ext cap capz sparse _ 1 (st_f g') s1 (stage_forall g' 1 _ H2 T2)) as [_ C2].
  destruct (run_tasks_ext cap capz sparse _ 2 (st_l g') s2 (stage_forall g' 2 _ H3 T3)) as [_ C3].
  destruct (run_tasks_ext cap capz sparse _ 3 (st_c g') s3 (stage_forall g' 3 _ H4 T4)) as [_ C4].
  fold s1 in C1. fold s2 in C2. fold s3 in C3. fold s4 in C4.
  pose proof (run_tasks_n_single cap capz sparse (st_e g') (init_st a r) S1) as N1. fold s1 in N1.
  pose proof (run_tasks_n_single cap capz sparse (st_f g') s1 S2) as N2. fold s2 in N2.
  pose proof (run_tasks_n_single cap capz sparse (st_l g') s2 S3) as N3. fold s3 in N3.
  pose proof (run_tasks_n_single cap capz sparse (st_c g') s3 S4) as N4. fold s4 in N4.
  unfold cnt in *. simpl in *. lia.
Qed.

(* ================= contact.efc_address ================= *)
Definition astore_ok (cap : Z) (rows : list wrow) (x : astore) : Prop :=
  (a_val x = -1 \/ 0 <= a_val x) /\
  (0 <= a_val x ->
     a_val x < cap /\ a_val x = a_base x + a_dim x /\ 0 <= a_dim x < a_ndim x /\ 0 <= a_base x /\
     exists w, In w rows /\ w_efcid w = a_val x /\ w_id w = a_con x).

Lemma astore_ok_mono cap rows rows' x :
  (forall w, In w rows -> In w rows') -> astore_ok cap rows x -> astore_ok cap rows' x.
Proof.
  intros Hm [H1 H2]. split; auto. intros Hv. destruct (H2 Hv) as (A & B & C & D & w & I & E & F).
  repeat split; auto; try lia. exists w. auto.
Qed.

Lemma addr_step cap capz sparse b q e r :
  safe_builder b = true -> 0 <= nrows b q -> 0 <= e ->
  Forall (astore_ok cap (e_w (alloc_effect cap capz sparse b q e r))) (addr_of cap b q e).
Proof.
  intros Hs Hk He. unfold addr_of. destruct (b_deferred b) eqn:Hd; [|constructor].
  apply Forall_map. apply Forall_forall. intros i Hi. apply zrange_In in Hi.
  unfold astore_ok; simpl.
  destruct (cmpb (b_cmp b) (if b_perrow b then e + i else e) (cap + b_off b)) eqn:Hc.
  { split; [left; reflexivity|]. intros; lia. }
  split; [right; lia|]. intros _.
  unfold safe_builder in Hs. apply andb_prop in Hs. destruct Hs as [Hs _].
  assert (Hlt : e + i < cap).
  { destruct (b_perrow b) eqn:P.
    - apply andb_prop in Hs. destruct Hs as [_ Hs]. destruct (b_cmp b); unfold cmpb in Hc; lia.
    - apply andb_prop in Hs. destruct Hs as [Hr Hs].
      assert (nrows b q = b_rows b) by (unfold nrows; destruct (b_rows b =? 0) eqn:E; lia).
      destruct (b_cmp b); unfold cmpb in Hc; lia. }
  repeat split; try lia.
  exists (mkW (e + i) (q_type q) (q_id q) (negb (sparse && b_has_nnz b && cmpb (b_ncmp b) (r + nrows b q * q_pernnz q) (capz + b_noff b)))).
  split; [|simpl; auto].
  unfold alloc_effect. rewrite Hd.
  destruct (b_perrow b) eqn:P; simpl negb; simpl andb; cbv iota.
  - assert (Hin : In i (filter (fun i0 => negb (cmpb (b_cmp b) (e + i0) (cap + b_off b))) (zrange (nrows b q)))).
    { apply filter_In. split; [apply zrange_In; lia|]. rewrite Hc. reflexivity. }
    destruct (sparse && b_has_nnz b); simpl.
    + destruct (cmpb (b_ncmp b) _ _); simpl; apply in_map_iff; exists i; auto.
    + apply in_map_iff; exists i; auto.
  - rewrite Hc. simpl.
    assert (Hin : In i (zrange (nrows b q))) by (apply zrange_In; lia).
    destruct (sparse && b_has_nnz b); simpl.
    + destruct (cmpb (b_ncmp b) _ _); simpl; apply in_map_iff; exists i; auto.
    + apply in_map_iff; exists i; auto.
Qed.

Definition safe_task (t : task) : Prop := safe_builder (t_b t) = true /\ nonneg_task t.

Lemma ext_rows_mono P s s' : ext P s s' -> forall w, In w (s_rows s) -> In w (s_rows s').
Proof. intros (n & R & _) w Hw. rewrite R. apply in_or_app. auto. Qed.

Lemma reqs_addr_ok cap capz sparse b : forall qs s,
  safe_builder b = true -> Forall (fun q => 0 <= nrows b q /\ 0 <= q_pernnz q) qs -> 0 <= s_n s ->
  Forall (astore_ok cap (s_rows (run_reqs cap capz sparse b qs s))) (reqs_addr cap capz sparse b qs s).
Proof.
  induction qs as [|q qs IH]; intros s Hs Hq Hn; simpl; [constructor|].
  inversion Hq; subst. destruct H1 as [Hk Hp].
  pose proof (addr_step cap capz sparse b q (s_n s) (s_z s) Hs Hk Hn) as A.
  set (ef := alloc_effect cap capz sparse b q (s_n s) (s_z s)) in *.
  set (s1 := apply_effect b q ef s).
  assert (Hq' : Forall (fun q0 => 0 <= nrows b q0 /\ (forall w, w_type w = q_type q0 -> w_id w = q_id q0 -> True)) qs).
  { eapply Forall_impl; [|exact H2]. simpl. intros ? [? ?]. split; auto. }
  assert (Hr1 : forall w, In w (e_w ef) -> In w (s_rows s1)).
  { intros w Hw. unfold s1, apply_effect; simpl. apply in_or_app. auto. }
  assert (Hn1 : 0 <= s_n s1).
  { destruct (effect_rows cap capz sparse b q (s_n s) (s_z s)) as (Hr & _). cbv zeta in Hr. fold ef in Hr.
    unfold s1, apply_effect; simpl. lia. }
  apply Forall_app. destruct (e_cont ef).
  - destruct (run_reqs_ext cap capz sparse (fun _ => True) b qs s1 Hq') as [E _].
    split.
    + eapply Forall_impl; [|exact A]. intros x Hx. eapply astore_ok_mono; [|exact Hx].
      intros w Hw. eapply ext_rows_mono; [exact E|]. auto.
    + apply IH; auto.
  - split; [|constructor].
    eapply Forall_impl; [|exact A]. intros x Hx. eapply astore_ok_mono; [|exact Hx].
    intros w Hw. unfold skip_all; simpl. apply Hr1. exact Hw.
Qed.

Lemma run_reqs_n_nonneg cap capz sparse b qs s :
  Forall (fun q => 0 <= nrows b q /\ 0 <= q_pernnz q) qs -> 0 <= s_n s ->
  0 <= s_n (run_reqs cap capz sparse b qs s).
Proof.
  intros Hq Hn.
  assert (Hq' : Forall (fun q0 => 0 <= nrows b q0 /\ (forall w, w_type w = q_type q0 -> w_id w = q_id q0 -> True)) qs).
  { eapply Forall_impl; [|exact Hq]. simpl. intros ? [? ?]. split; auto. }
  destruct (run_reqs_ext cap capz sparse (fun _ => True) b qs s Hq') as [(n & _ & _ & _ & M) _]. lia.
Qed.

Lemma tasks_addr_ok cap capz sparse : forall ts s,
  Forall safe_task ts -> 0 <= s_n s ->
  Forall (astore_ok cap (s_rows (run_tasks cap capz sparse ts s))) (tasks_addr cap capz sparse ts s).
Proof.
  induction ts as [|t ts IH]; intros s Hs Hn; simpl; [constructor|].
  inversion Hs; subst. destruct H1 as [Hb Hq].
  apply Forall_app. split.
  - pose proof (reqs_addr_ok cap capz sparse (t_b t) (t_reqs t) s Hb Hq Hn) as A.
    assert (Hnn : Forall nonneg_task ts) by (eapply Forall_impl; [|exact H2]; intros ? [? ?]; auto).
    pose proof (run_tasks_ext_any cap capz sparse ts (run_task cap capz sparse s t) Hnn) as E.
    eapply Forall_impl; [|exact A]. intros x Hx. eapply astore_ok_mono; [|exact Hx].
    intros w Hw. unfold run_tasks at 1. simpl. fold (run_tasks cap capz sparse ts (run_task cap capz sparse s t)).
    eapply ext_rows_mono; [exact E|]. exact Hw.
  - unfold run_tasks at 1. simpl. fold (run_tasks cap capz sparse ts (run_task cap capz sparse s t)).
    apply IH; auto. unfold run_task. apply run_reqs_n_nonneg; auto.
Qed.

(* every store into contact.efc_address is -1 or a row index; a non-negative address is below
   njmax, lies in the block [base, base+ndim) reserved by that contact's atomic_add at offset dim,
   and the row stored at that index carries efc_id = the contact (for EVERY schedule, capacity,
   sparse or dense, whether or not the non-zero guard fired) *)
Theorem efc_address_valid :
  forall cap capz sparse ts adr0 rnz0,
    Forall safe_task ts ->
    let s := run_tasks cap capz sparse ts (init_st adr0 rnz0) in
    let A := tasks_addr cap capz sparse ts (init_st adr0 rnz0) in
    Forall (fun x =>
      (a_val x = -1 \/ 0 <= a_val x) /\
      (0 <= a_val x ->
         a_val x < cap /\ a_base x <= a_val x < a_base x + a_ndim x /\ a_val x = a_base x + a_dim x /\
         exists w, row_at s (a_val x) = Some w /\ w_id w = a_con x)) A.
Proof.
  intros cap capz sparse ts a r Hs s A.
  pose proof (tasks_addr_ok cap capz sparse ts (init_st a r) Hs ltac:(simpl; lia)) as H. fold s in H. fold A in H.
  assert (Hnn : Forall nonneg_task ts) by (eapply Forall_impl; [|exact Hs]; intros ? [? ?]; auto).
  destruct (run_tasks_ext_any cap capz sparse ts (init_st a r) Hnn) as (n & R & _ & D & _).
  fold s in R. simpl in R.
  eapply Forall_impl; [|exact H]. intros x [H1 H2]. split; auto.
  intros Hv. destruct (H2 Hv) as (B1 & B2 & B3 & B4 & w & I & E & F).
  split; [exact B1|]. split; [lia|]. split; [exact B2|].
  exists w. split; [|exact F].
  unfold row_at. rewrite <- E. apply (find_unique w_efcid).
  - rewrite map_rev. apply NoDup_rev. rewrite R. exact D.
  - apply in_rev. rewrite rev_involutive. exact I.
Qed.

(* blocks of different requests never overlap *)
Definition blocks_apart (x y : astore) : Prop :=
  a_base x = a_base y \/ a_base x + a_ndim x <= a_base y \/ a_base y + a_ndim y <= a_base x.
Definition in_span (lo hi : Z) (x : astore) : Prop := lo <= a_base x /\ a_base x + a_ndim x <= hi /\ 0 <= a_ndim x.

Lemma pairwise_app (l1 l2 : list astore) m lo hi :
  lo <= m -> m <= hi ->
  Forall (in_span lo m) l1 -> Forall (in_span m hi) l2 ->
  (forall x y, In x l1 -> In y l1 -> blocks_apart x y) ->
  (forall x y, In x l2 -> In y l2 -> blocks_apart x y) ->
  Forall (in_span lo hi) (l1 ++ l2) /\ (forall x y, In x (l1 ++ l2) -> In y (l1 ++ l2) -> blocks_apart x y).
Proof.
  intros H1 H2 F1 F2 P1 P2. split.
  - apply Forall_app. split; (eapply Forall_impl; [|eassumption]); unfold in_span; intros; lia.
  - rewrite Forall_forall in F1, F2. intros x y Ix Iy. apply in_app_or in Ix, Iy.
    destruct Ix as [Ix|Ix], Iy as [Iy|Iy]; auto.
    + specialize (F1 _ Ix). specialize (F2 _ Iy). unfold in_span, blocks_apart in *. lia.
    + specialize (F2 _ Ix). specialize (F1 _ Iy). unfold in_span, blocks_apart in *. lia.
Qed.

Lemma addr_of_span cap b q e :
  0 <= nrows b q ->
  Forall (in_span e (e + nrows b q)) (addr_of cap b q e) /\
  (forall x y, In x (addr_of cap b q e) -> In y (addr_of cap b q e) -> blocks_apart x y).
Proof.
  intros Hk. unfold addr_of. destruct (b_deferred b).
  - split.
    + apply Forall_map. apply Forall_forall. intros i _. unfold in_span; simpl. lia.
    + intros x y Ix Iy. apply in_map_iff in Ix, Iy. destruct Ix as (i & <- & _). destruct Iy as (j & <- & _).
      left. reflexivity.
  - split; [constructor|]. intros x y [].
Qed.

Lemma reqs_addr_span cap capz sparse b : forall qs s,
  Forall (fun q => 0 <= nrows b q /\ 0 <= q_pernnz q) qs ->
  Forall (in_span (s_n s) (s_n (run_reqs cap capz sparse b qs s))) (reqs_addr cap capz sparse b qs s) /\
  (forall x y, In x (reqs_addr cap capz sparse b qs s) -> In y (reqs_addr cap capz sparse b qs s) -> blocks_apart x y) /\
  s_n s <= s_n (run_reqs cap capz sparse b qs s).
Proof.
  induction qs as [|q qs IH]; intros s Hq; simpl.
  - split; [constructor|]. split; [intros x y []|lia].
  - inversion Hq; subst. destruct H1 as [Hk Hp].
    destruct (addr_of_span cap b q (s_n s) Hk) as [S1 P1].
    destruct (effect_rows cap capz sparse b q (s_n s) (s_z s)) as (Hr & _). cbv zeta in Hr.
    set (ef := alloc_effect cap capz sparse b q (s_n s) (s_z s)) in *.
    set (s1 := apply_effect b q ef s).
    assert (N1 : s_n s1 = s_n s + nrows b q) by (unfold s1, apply_effect; simpl; lia).
    destruct (e_cont ef).
    + destruct (IH s1 H2) as (S2 & P2 & M2). rewrite N1 in S2.
      destruct (pairwise_app _ _ (s_n s + nrows b q) (s_n s) (s_n (run_reqs cap capz sparse b qs s1)) ltac:(lia) ltac:(lia) S1 S2 P1 P2) as [A B].
      split; [exact A|]. split; [exact B|lia].
    + rewrite app_nil_r. change (s_n (skip_all qs s1)) with (s_n s1). rewrite N1. split; [exact S1|]. split; [exact P1|lia].
Qed.

Lemma tasks_addr_span cap capz sparse : forall ts s,
  Forall nonneg_task ts ->
  Forall (in_span (s_n s) (s_n (run_tasks cap capz sparse ts s))) (tasks_addr cap capz sparse ts s) /\
  (forall x y, In x (tasks_addr cap capz sparse ts s) -> In y (tasks_addr cap capz sparse ts s) -> blocks_apart x y) /\
  s_n s <= s_n (run_tasks cap capz sparse ts s).
Proof.
  induction ts as [|t ts IH]; intros s Hq; simpl.
  - split; [constructor|]. split; [intros x y []|unfold run_tasks; simpl; lia].
  - inversion Hq; subst.
    destruct (reqs_addr_span cap capz sparse (t_b t) (t_reqs t) s H1) as (S1 & P1 & M1).
    destruct (IH (run_task cap capz sparse s t) H2) as (S2 & P2 & M2).
    change (run_tasks cap capz sparse (t :: ts) s) with (run_tasks cap capz sparse ts (run_task cap capz sparse s t)).
    unfold run_task in *.
    destruct (pairwise_app _ _ _ _ _ M1 M2 S1 S2 P1 P2) as [A B].
    split; [exact A|]. split; [exact B|lia].
Qed.

Theorem efc_address_blocks_disjoint :
  forall cap capz sparse ts adr0 rnz0,
    Forall nonneg_task ts ->
    let A := tasks_addr cap capz sparse ts (init_st adr0 rnz0) in
    forall x y, In x A -> In y A -> blocks_apart x y.
Proof.
  intros cap capz sparse ts a r Hn A. destruct (tasks_addr_span cap capz sparse ts (init_st a r) Hn) as (_ & P & _).
  exact P.
Qed.

(* the hypotheses are satisfiable, on the regenerated skeleton *)
Definition ex_stages : stages :=
  mkStages [mkT b_equality_connect [mkQ 0 0 0 2 2]; mkT b_equality_joint [mkQ 0 1 0 2 2]]
           [mkT b_friction_dof [mkQ 1 3 0 1 1]]
           [mkT b_limit_slide_hinge [mkQ 3 0 0 1 1]; mkT b_limit_tendon [mkQ 4 0 0 2 2]]
           [mkT b_efc_contact_init [mkQ 6 0 4 3 3]; mkT b_efc_contact_init [mkQ 5 1 1 3 3]].

Example ex_stages_ok : stages_ok ex_stages /\ stages_typed ex_stages /\ Forall single_req (stage_tasks ex_stages)
  /\ Forall safe_task (stage_tasks ex_stages).
Proof.
  split; [|split; [|split]].
  - unfold stages_ok, ex_stages; simpl. repeat split; repeat constructor.
  - unfold stages_typed, ex_stages, stage_tasks; simpl.
    repeat constructor; unfold nrows; simpl; lia.
  - unfold ex_stages, stage_tasks, single_req; simpl. repeat constructor.
  - unfold ex_stages, stage_tasks, safe_task; simpl. repeat constructor; unfold nrows; simpl; lia.
Qed.

(* 10 rows with njmax = 9: the last contact row is lost (address -1), the layout still holds *)
Example ex_layout :
  let s := run_stages 9 100 true ex_stages (repeat 0 9) (repeat 0 9) in
  (s_ne s, s_nf s, s_nl s, s_n s) = (4, 1, 2, 12) /\
  map w_efcid (s_rows s) = [0; 1; 2; 3; 4; 5; 6; 7; 8] /\
  map (fun w => kind_of_type (w_type w)) (s_rows s) = [0; 0; 0; 0; 1; 2; 2; 3; 3] /\
  map a_val (tasks_addr 9 100 true (stage_tasks ex_stages) (init_st (repeat 0 9) (repeat 0 9))) = [7; 8; -1; -1; -1].
Proof. vm_compute. repeat split. Qed.

(* ================= _efc_row over the reals ================= *)
Local Open Scope R_scope.

Lemma smax_R a b : (if Rltb a b then b else a) = Rmax a b.
Proof.
  unfold Rmax. destruct (Rltb a b) eqn:E; destruct (Rle_dec a b); auto.
  - apply Rltb_true in E. lra.
  - apply Rltb_false in E. lra.
Qed.
Lemma smin_R a b : (if Rltb b a then b else a) = Rmin a b.
Proof.
  unfold Rmin. destruct (Rltb b a) eqn:E; destruct (Rle_dec a b); auto.
  - apply Rltb_true in E. lra.
  - apply Rltb_false in E. lra.
Qed.
Lemma ifltb (A : Type) a b (x y : A) : (if Rltb a b then x else y) = if Rlt_dec a b then x else y.
Proof. unfold Rltb. destruct (Rlt_dec a b); reflexivity. Qed.
Lemma ifleb (A : Type) a b (x y : A) : (if Rleb a b then x else y) = if Rle_dec a b then x else y.
Proof. unfold Rleb. destruct (Rle_dec a b); reflexivity. Qed.

Lemma clamp_id x lo hi : lo <= x <= hi -> Rmin (Rmax x lo) hi = x.
Proof. intros. rewrite Rmax_left by lra. rewrite Rmin_left by lra. reflexivity. Qed.

(* the boolean test of the source and the effective solref *)
Lemma mixed_test s0 s1 :
  (if (Rltb 0 s0 && Rleb s1 0) || (Rleb s0 0 && Rltb 0 s1) then (1 / 50, 1) else (s0, s1))
  = (eff_ref0 s0 s1, eff_ref1 s0 s1).
Proof.
  unfold eff_ref0, eff_ref1, Rltb, Rleb.
  destruct (Rlt_dec 0 s0), (Rle_dec s1 0), (Rle_dec s0 0), (Rlt_dec 0 s1); simpl; try reflexivity; lra.
Qed.

(* the exact shape of the translated function, for ALL solref / width (solimp entries inside their clamps) *)
Lemma efc_row_shape flags worldid h efcid pos_aref pos_imp iw s0 s1 dmin dmax width mid p margin vel fl type id :
  MINIMP <= dmin <= MAXIMP -> MINIMP <= dmax <= MAXIMP -> MINIMP <= mid <= MAXIMP -> 1 <= p ->
  @_efc_row_pure R ScalarR flags worldid h efcid pos_aref pos_imp iw [s0; s1] [dmin; dmax; width; mid; p] margin vel fl type id
  = row_doc (k_code flags h s0 s1 dmax) (b_code flags h s0 s1 dmax) (imp_code dmin dmax width mid p pos_imp)
            iw pos_aref margin vel fl type id.
Proof.
  intros Hdmin Hdmax Hmid Hp.
  unfold _efc_row_pure, row_doc, k_code, b_code, imp_code, imp_doc, imp_y_doc, clampR, tc_eff, refsafe_on.
  unfold MINIMP, MAXIMP, MINVAL in *.
  cbv [vget nth Z.to_nat Pos.to_nat Pos.iter_op Nat.add]. sR. cbv [spow ScalarR].
  change (IZR 1 / IZR 50) with (1 / 50). 
  rewrite (mixed_test s0 s1). cbv [fst snd].
  set (r0 := eff_ref0 s0 s1). set (r1 := eff_ref1 s0 s1).
  rewrite !smax_R, !smin_R, !ifltb, !ifleb.
  rewrite (clamp_id dmin) by lra. rewrite (clamp_id dmax) by lra. rewrite (clamp_id mid) by lra.
  rewrite (Rmax_right 1 p) by lra.
  set (x := Rabs pos_imp / Rmax (1 / 1000000000000000) width).
  replace (1 / Rpower mid (p - 1) * Rpower x p) with (Rpower x p / Rpower mid (p - 1)) by (unfold Rdiv; ring).
  replace (1 / Rpower (1 - mid) (p - 1) * Rpower (1 - x) p) with (Rpower (1 - x) p / Rpower (1 - mid) (p - 1)) by (unfold Rdiv; ring).
  destruct (Rle_dec width (1 / 1000000000000000)); reflexivity.
Qed.

Lemma eff_ref_standard s0 s1 : 0 < s0 -> 0 < s1 -> eff_ref0 s0 s1 = s0 /\ eff_ref1 s0 s1 = s1.
Proof. intros. unfold eff_ref0, eff_ref1. destruct (Rlt_dec 0 s0), (Rle_dec s1 0), (Rlt_dec 0 s1); split; try reflexivity; lra. Qed.
Lemma eff_ref_direct s0 s1 : s0 <= 0 -> s1 <= 0 -> eff_ref0 s0 s1 = s0 /\ eff_ref1 s0 s1 = s1.
Proof. intros. unfold eff_ref0, eff_ref1. destruct (Rlt_dec 0 s0), (Rle_dec s1 0), (Rlt_dec 0 s1); split; try reflexivity; lra. Qed.
Lemma eff_ref_mixed s0 s1 : mixed_solref s0 s1 -> eff_ref0 s0 s1 = 1 / 50 /\ eff_ref1 s0 s1 = 1.
Proof. intros [[? ?]|[? ?]]; unfold eff_ref0, eff_ref1; destruct (Rlt_dec 0 s0), (Rle_dec s1 0), (Rlt_dec 0 s1); split; try reflexivity; lra. Qed.

Lemma kb_code_pos flags h s0 s1 dmax r0 r1 :
  eff_ref0 s0 s1 = r0 -> eff_ref1 s0 s1 = r1 -> 0 < r0 -> 0 < r1 ->
  k_code flags h s0 s1 dmax = k_standard dmax (tc_eff flags r0 h) r1 /\
  b_code flags h s0 s1 dmax = b_standard dmax (tc_eff flags r0 h).
Proof.
  intros E0 E1 H0 H1. unfold k_code, b_code, k_standard, b_standard. cbv zeta. rewrite E0, E1.
  destruct (Rle_dec r0 0); [lra|]. destruct (Rle_dec r1 0); [lra|]. split; reflexivity.
Qed.
Lemma kb_code_direct flags h s0 s1 dmax :
  s0 <= 0 -> s1 <= 0 ->
  k_code flags h s0 s1 dmax = k_direct dmax s0 /\ b_code flags h s0 s1 dmax = b_direct dmax s1.
Proof.
  intros H0 H1. destruct (eff_ref_direct s0 s1 H0 H1) as [E0 E1].
  unfold k_code, b_code, k_direct, b_direct. cbv zeta. rewrite E0, E1.
  destruct (Rle_dec s0 0); [|lra]. destruct (Rle_dec s1 0); [|lra]. split; reflexivity.
Qed.

Lemma imp_code_flat dmin dmax width mid p r : width <= MINVAL -> imp_code dmin dmax width mid p r = (dmin + dmax) / 2.
Proof. intros. unfold imp_code. destruct (Rle_dec width MINVAL); [lra|contradiction]. Qed.
Lemma imp_code_sat dmin dmax width mid p r :
  MINVAL < width -> 1 < Rabs r / width -> imp_code dmin dmax width mid p r = dmax.
Proof.
  intros Hw Hx. unfold imp_code. destruct (Rle_dec width MINVAL); [lra|]. cbv zeta.
  rewrite (Rmax_right MINVAL width) by lra. destruct (Rlt_dec 1 (Rabs r / width)); [reflexivity|lra].
Qed.

(* x^p / m^(p-1) <= x for 0 < x <= m, p >= 1 *)
Lemma pow_ratio_le x m p : 0 < x -> x <= m -> 1 <= p -> 0 < Rpower x p / Rpower m (p - 1) <= x.
Proof.
  intros Hx Hm Hp.
  assert (Hm0 : 0 < m) by lra.
  pose proof (exp_pos ((p - 1) * ln m)) as Pm. fold (Rpower m (p - 1)) in Pm.
  pose proof (exp_pos (p * ln x)) as Px. fold (Rpower x p) in Px.
  split; [apply Rdiv_lt_0_compat; auto|].
  replace p with ((p - 1) + 1) at 1 by ring. rewrite Rpower_plus, Rpower_1 by auto.
  assert (Hle : Rpower x (p - 1) <= Rpower m (p - 1)) by (apply Rle_Rpower_l; lra).
  pose proof (exp_pos ((p - 1) * ln x)) as Px1. fold (Rpower x (p - 1)) in Px1.
  apply (Rmult_le_reg_r (Rpower m (p - 1))); auto.
  unfold Rdiv. rewrite Rmult_assoc, Rinv_l by lra. rewrite Rmult_1_r.
  rewrite (Rmult_comm x). apply Rmult_le_compat_r; lra.
Qed.

Lemma imp_y_bounds mid p x : 0 < mid < 1 -> 1 <= p -> 0 < x < 1 -> 0 < imp_y_doc mid p x < 1.
Proof.
  intros Hm Hp Hx. unfold imp_y_doc. destruct (Rlt_dec x mid).
  - destruct (pow_ratio_le x mid p) as [A B]; try lra.
  - destruct (pow_ratio_le (1 - x) (1 - mid) p) as [A B]; try lra.
Qed.

(* transition zone, for EITHER order of dmin and dmax: the documented curve, unclamped *)
Lemma imp_code_mid dmin dmax width mid p r :
  MINVAL < width -> MINIMP <= mid <= MAXIMP -> 1 <= p -> 0 < Rabs r / width < 1 ->
  imp_code dmin dmax width mid p r = imp_doc dmin dmax width mid p r /\
  Rmin dmin dmax <= imp_doc dmin dmax width mid p r <= Rmax dmin dmax.
Proof.
  unfold MINIMP, MAXIMP. intros Hw Hm Hp Hx.
  assert (B : Rmin dmin dmax <= imp_doc dmin dmax width mid p r <= Rmax dmin dmax).
  { unfold imp_doc. destruct (imp_y_bounds mid p (Rabs r / width)) as [A1 A2]; try lra.
    unfold Rmin, Rmax. destruct (Rle_dec dmin dmax); nra. }
  split; [|exact B].
  unfold imp_code. destruct (Rle_dec width MINVAL); [lra|]. cbv zeta.
  rewrite (Rmax_right MINVAL width) by lra.
  destruct (Rlt_dec 1 (Rabs r / width)); [lra|].
  unfold clampR. apply clamp_id. exact B.
Qed.

Theorem efc_row_kbi :
  forall flags worldid h efcid pos_aref pos_imp iw s0 s1 dmin dmax width mid p margin vel fl type id,
    MINIMP <= dmin <= MAXIMP -> MINIMP <= dmax <= MAXIMP -> MINIMP <= mid <= MAXIMP -> 1 <= p ->
    forall imp k b,
      (width <= MINVAL /\ imp = (dmin + dmax) / 2 \/
       MINVAL < width /\ 0 < Rabs pos_imp / width < 1 /\ imp = imp_doc dmin dmax width mid p pos_imp \/
       MINVAL < width /\ 1 < Rabs pos_imp / width /\ imp = dmax) ->
      (0 < s0 /\ 0 < s1 /\ k = k_standard dmax (tc_eff flags s0 h) s1 /\ b = b_standard dmax (tc_eff flags s0 h) \/
       s0 <= 0 /\ s1 <= 0 /\ k = k_direct dmax s0 /\ b = b_direct dmax s1 \/
       mixed_solref s0 s1 /\ k = k_standard dmax (tc_eff flags (1 / 50) h) 1 /\ b = b_standard dmax (tc_eff flags (1 / 50) h)) ->
      @_efc_row_pure R ScalarR flags worldid h efcid pos_aref pos_imp iw [s0; s1] [dmin; dmax; width; mid; p] margin vel fl type id
      = row_doc k b imp iw pos_aref margin vel fl type id /\ Rmin dmin dmax <= imp <= Rmax dmin dmax.
Proof.
  intros flags worldid h efcid pos_aref pos_imp iw s0 s1 dmin dmax width mid p margin vel fl type id
         H1 H2 Hm Hp imp k b Himp Hkb.
  rewrite efc_row_shape by auto.
  assert (Ek : k_code flags h s0 s1 dmax = k /\ b_code flags h s0 s1 dmax = b).
  { destruct Hkb as [(A & B & -> & ->)|[(A & B & -> & ->)|(M & -> & ->)]].
    - destruct (eff_ref_standard s0 s1 A B) as [E0 E1]. apply (kb_code_pos flags h s0 s1 dmax s0 s1); auto.
    - apply kb_code_direct; auto.
    - destruct (eff_ref_mixed s0 s1 M) as [E0 E1]. apply (kb_code_pos flags h s0 s1 dmax (1 / 50) 1); auto; lra. }
  destruct Ek as [-> ->].
  assert (Hb : Rmin dmin dmax <= dmax <= Rmax dmin dmax) by (split; [apply Rmin_r|apply Rmax_r]).
  destruct Himp as [[Hw ->]|[(Hw & Hx & ->)|(Hw & Hx & ->)]].
  - rewrite imp_code_flat by auto. split; [reflexivity|].
    unfold Rmin, Rmax. destruct (Rle_dec dmin dmax); lra.
  - destruct (imp_code_mid dmin dmax width mid p pos_imp Hw Hm Hp Hx) as [-> B]. split; [reflexivity|exact B].
  - rewrite imp_code_sat by auto. split; [reflexivity|exact Hb].
Qed.

Example efc_row_kbi_hyps_satisfiable :
  MINIMP <= 95 / 100 <= MAXIMP /\ MINIMP <= 1 / 2 <= MAXIMP /\ 1 <= 2 /\ MINVAL < 1 / 1000 /\
  0 < Rabs (1 / 2000) / (1 / 1000) < 1 /\ mixed_solref (2 / 100) (-1) /\ 0 <= MINVAL.
Proof. unfold MINIMP, MAXIMP, MINVAL, mixed_solref. rewrite Rabs_pos_eq by lra. repeat split; lra. Qed.

(* ---- DOCUMENTATION: the three deviations of the code BEFORE commit 56e7974, about the old definitions ---- *)
Theorem pre_fix_mixed_solref_not_default :
  exists flags h s0 s1 dmax, mixed_solref s0 s1 /\ MINIMP <= dmax <= MAXIMP /\
    b_code_old flags h s0 s1 dmax <> b_code_old flags h (2 / 100) 1 dmax /\
    b_code flags h s0 s1 dmax = b_code flags h (2 / 100) 1 dmax.
Proof.
  exists 4096%Z, (1 / 1000), (2 / 100), (-1), (1 / 2). unfold mixed_solref, MINIMP, MAXIMP.
  split; [left; lra|]. split; [lra|]. split.
  - unfold b_code_old, tc_eff, refsafe_on. simpl.
    destruct (Rle_dec (-1) 0); [|lra]. destruct (Rle_dec 1 0); [lra|]. lra.
  - unfold b_code. cbv zeta.
    destruct (eff_ref_mixed (2 / 100) (-1)) as [-> ->]; [left; lra|].
    destruct (eff_ref_standard (2 / 100) 1) as [-> ->]; try lra.
    unfold tc_eff, refsafe_on. simpl.
    destruct (Rle_dec 1 0); [lra|]. lra.
Qed.

Theorem pre_fix_zero_width_not_mean :
  exists dmin dmax mid p r, MINIMP <= dmin /\ dmin < dmax /\ dmax <= MAXIMP /\
    imp_code_old dmin dmax (Rmax MINVAL 0) mid p r = dmax /\ dmax <> (dmin + dmax) / 2 /\
    imp_code dmin dmax 0 mid p r = (dmin + dmax) / 2.
Proof.
  exists (1 / 2), (9 / 10), (1 / 2), 2, 1. unfold MINIMP, MAXIMP.
  split; [lra|]. split; [lra|]. split; [lra|]. split; [|split; [lra|]].
  - unfold imp_code_old, MINVAL. cbv zeta. rewrite Rmax_left by lra. rewrite Rabs_R1.
    destruct (Rlt_dec 1 (1 / (1 / 1000000000000000))); [reflexivity|lra].
  - apply imp_code_flat. unfold MINVAL. lra.
Qed.

Theorem pre_fix_dmin_above_dmax_clamped :
  forall dmin dmax width mid p r,
    dmax < dmin -> MINVAL < width -> MINIMP <= mid <= MAXIMP -> 1 <= p -> 0 < Rabs r / width < 1 ->
    imp_code_old dmin dmax width mid p r = dmax /\ dmax < imp_doc dmin dmax width mid p r /\
    imp_code dmin dmax width mid p r = imp_doc dmin dmax width mid p r.
Proof.
  intros dmin dmax width mid p r Hd Hw Hm Hp Hx.
  assert (Hm' : 0 < mid < 1) by (unfold MINIMP, MAXIMP in Hm; lra).
  destruct (imp_y_bounds mid p (Rabs r / width) Hm' Hp Hx) as [Y0 Y1].
  assert (B : dmax < imp_doc dmin dmax width mid p r) by (unfold imp_doc; nra).
  split; [|split; [exact B|]].
  - unfold imp_code_old. cbv zeta. destruct (Rlt_dec 1 (Rabs r / width)); [lra|].
    unfold clampR. apply Rmin_right. apply Rle_trans with dmin; [lra|apply Rmax_r].
  - apply imp_code_mid; auto.
Qed.

(* ================= the regenerated skeleton satisfies the hypotheses ================= *)
Local Open Scope Z_scope.

Lemma row_builders_safe : forallb safe_builder row_builders = true.
Proof. vm_compute. reflexivity. Qed.

Theorem efc_address_valid_current_tree :
  forall cap capz sparse ts adr0 rnz0,
    Forall (fun t => In (t_b t) row_builders /\ nonneg_task t) ts ->
    let s := run_tasks cap capz sparse ts (init_st adr0 rnz0) in
    let A := tasks_addr cap capz sparse ts (init_st adr0 rnz0) in
    Forall (fun x =>
      (a_val x = -1 \/ 0 <= a_val x) /\
      (0 <= a_val x ->
         a_val x < cap /\ a_base x <= a_val x < a_base x + a_ndim x /\ a_val x = a_base x + a_dim x /\
         exists w, row_at s (a_val x) = Some w /\ w_id w = a_con x)) A.
Proof.
  intros cap capz sparse ts a r H. apply efc_address_valid.
  eapply Forall_impl; [|exact H]. intros t [Hin Hn]. split; auto.
  pose proof row_builders_safe as S. rewrite forallb_forall in S. apply S. exact Hin.
Qed.

Lemma builder_types_ok_all : forallb builder_types_ok row_builders = true.
Proof. vm_compute. reflexivity. Qed.

(* a request whose row type is one of the ConstraintType constants its builder passes to _efc_row
   (Gen/Skel_constraint.v) is typed by the class of the builder *)
Theorem typed_by_skeleton :
  forall b q, In b row_builders -> class_of b <> 3 -> In (q_type q) (types_of (b_name b)) ->
    kind_of_type (q_type q) = class_of b.
Proof.
  intros b q Hin Hc Ht. pose proof builder_types_ok_all as S. rewrite forallb_forall in S.
  specialize (S _ Hin). unfold builder_types_ok in S.
  destruct (class_of b =? 3) eqn:E; [lia|].
  apply andb_prop in S. destruct S as [_ S]. rewrite forallb_forall in S. specialize (S _ Ht). lia.
Qed.

