(* Proof/History.v -- lemmas about Model/History.v at the real-number instance (property C30).

   Contents: list/index helpers; the physical index is a bijection of [0,n); find_index brackets t
   (binary search, no sortedness needed) and equals the linear scan on sorted buffers; the effect of insert on
   the LOGICAL samples (ins_sample) including the in-place shift loop; refinement of insert/read to the
   ordered-sample-list specification (spec_insert/spec_read); (strict) sortedness is preserved by insert and
   holds for every operation sequence from MuJoCo's initial buffer; zero-order hold returns the latest
   sample not after t; linear interpolation stays between the neighbours; a delay of k steps returns the
   control of k steps ago (delay_exact); the explicit all-zero buffer is not the initial buffer; flat layout of encode. *)
From Coq Require Import ZArith List Bool Lia ZifyBool Reals Lra.
From VF Require Import Base.Scalar Base.ScalarR Base.Loop Gen.history Model.History.
Import ListNotations.
Local Open Scope Z_scope.

(* ============================== part 1 ============================== *)

(* ---------- lists ---------- *)
Lemma upd_nat_length {A} (l : list A) k x : length (upd_nat l k x) = length l.
Proof. revert k; induction l; destruct k; simpl; auto. Qed.

Lemma nth_upd_nat {A} (l : list A) k j x d :
  nth j (upd_nat l k x) d = if Nat.eqb j k then (if Nat.ltb k (length l) then x else d) else nth j l d.
Proof.
  revert k j; induction l; intros k j; simpl.
  - destruct j, k; simpl; auto. destruct (Nat.eqb j k); auto.
  - destruct k, j; simpl; auto. rewrite IHl. reflexivity.
Qed.

Lemma zupd_length {A} (l : list A) i x : length (zupd l i x) = length l.
Proof. apply upd_nat_length. Qed.

Lemma znth_zupd {A} (l : list A) i j x d :
  0 <= i < Z.of_nat (length l) -> 0 <= j ->
  znth (zupd l i x) j d = if j =? i then x else znth l j d.
Proof.
  intros Hi Hj. unfold znth, zupd. rewrite nth_upd_nat.
  destruct (Z.eqb_spec j i) as [->|Hne].
  - rewrite Nat.eqb_refl. replace (Nat.ltb _ _) with true; auto. symmetry. apply Nat.ltb_lt. lia.
  - replace (Nat.eqb _ _) with false; auto. symmetry. apply Nat.eqb_neq. lia.
Qed.

Lemma zseq_length n : length (zseq n) = Z.to_nat n.
Proof. unfold zseq. now rewrite map_length, seq_length. Qed.

Lemma znth_map_zseq {A} (f : Z -> A) n k d : 0 <= k < n -> znth (map f (zseq n)) k d = f k.
Proof.
  intros Hk. unfold znth, zseq. rewrite map_map.
  rewrite nth_indep with (d' := f (Z.of_nat 0)) by (rewrite map_length, seq_length; lia).
  rewrite (map_nth (fun x => f (Z.of_nat x)) (seq 0 (Z.to_nat n)) 0%nat).
  rewrite seq_nth by lia. f_equal. lia.
Qed.

Lemma list_eq_znth {A} (a b : list A) d :
  length a = length b ->
  (forall i, 0 <= i < Z.of_nat (length a) -> znth a i d = znth b i d) -> a = b.
Proof.
  intros Hl Hn. apply nth_ext with (d := d) (d' := d); auto.
  intros k Hk. specialize (Hn (Z.of_nat k)). unfold znth in Hn. rewrite Nat2Z.id in Hn. apply Hn. lia.
Qed.

Lemma nth_skipn' {A} (l : list A) k j d : nth j (skipn k l) d = nth (k + j) l d.
Proof. revert l; induction k; intros l; simpl; auto. destruct l; simpl; auto. destruct j; auto. Qed.

Lemma znth_insdrop {A} (L : list A) i x k d :
  0 < i <= Z.of_nat (length L) -> 0 <= k < Z.of_nat (length L) ->
  znth (tl (firstn (Z.to_nat i) L ++ x :: skipn (Z.to_nat i) L)) k d =
    if k + 1 <? i then znth L (k + 1) d else if k + 1 =? i then x else znth L k d.
Proof.
  intros Hi Hk. unfold znth.
  assert (Hf : length (firstn (Z.to_nat i) L) = Z.to_nat i) by (rewrite firstn_length; lia).
  replace (nth (Z.to_nat k) (tl (firstn (Z.to_nat i) L ++ x :: skipn (Z.to_nat i) L)) d)
    with (nth (Datatypes.S (Z.to_nat k)) (firstn (Z.to_nat i) L ++ x :: skipn (Z.to_nat i) L) d).
  2:{ destruct (firstn (Z.to_nat i) L ++ x :: skipn (Z.to_nat i) L) eqn:E; simpl; auto.
      destruct (firstn (Z.to_nat i) L); discriminate. }
  destruct (Z.ltb_spec (k + 1) i).
  - rewrite app_nth1 by lia.
    rewrite <- (firstn_skipn (Z.to_nat i) L) at 2.
    rewrite app_nth1 by lia. f_equal. lia.
  - rewrite app_nth2 by lia. rewrite Hf.
    destruct (Z.eqb_spec (k + 1) i).
    + replace (Datatypes.S (Z.to_nat k) - Z.to_nat i)%nat with 0%nat by lia. reflexivity.
    + replace (Datatypes.S (Z.to_nat k) - Z.to_nat i)%nat with (Datatypes.S (Z.to_nat k - Z.to_nat i))%nat by lia.
      simpl. rewrite nth_skipn'. f_equal. lia.
Qed.

Lemma insdrop_length {A} (L : list A) i x :
  0 <= i <= Z.of_nat (length L) ->
  length (tl (firstn (Z.to_nat i) L ++ x :: skipn (Z.to_nat i) L)) = length L.
Proof.
  intros Hi.
  assert (length (firstn (Z.to_nat i) L ++ x :: skipn (Z.to_nat i) L) = Datatypes.S (length L)).
  { rewrite app_length. simpl. rewrite firstn_length, skipn_length. lia. }
  destruct (firstn (Z.to_nat i) L ++ x :: skipn (Z.to_nat i) L); simpl in *; lia.
Qed.

(* ---------- physical index ---------- *)
Lemma phys_mod c n l : 0 < n -> 0 <= c + 1 + l -> phys c n l = (c + 1 + l) mod n.
Proof. intros. unfold phys, _history_physical_index. apply Z.rem_mod_nonneg; lia. Qed.

Lemma phys_range c n l : 0 < n -> 0 <= c -> 0 <= l + 1 -> 0 <= phys c n l < n.
Proof. intros. rewrite phys_mod by lia. apply Z.mod_pos_bound. lia. Qed.

Lemma phys_inj c n l l' : 0 < n -> 0 <= c -> 0 <= l < n -> 0 <= l' < n -> phys c n l = phys c n l' -> l = l'.
Proof.
  intros Hn Hc Hl Hl' E. rewrite !phys_mod in E by lia.
  assert (D : (l - l') mod n = 0).
  { replace (l - l') with ((c + 1 + l) - (c + 1 + l')) by lia.
    rewrite Zminus_mod, E, Z.sub_diag. apply Z.mod_0_l. lia. }
  apply Z.mod_divide in D; [|lia]. destruct D as [q Hq].
  assert (q = 0) by nia. lia.
Qed.

Lemma phys_surj c n p : 0 < n -> 0 <= c -> 0 <= p < n -> exists l, 0 <= l < n /\ phys c n l = p.
Proof.
  intros Hn Hc Hp. exists ((p - c - 1) mod n). split. { apply Z.mod_pos_bound; lia. }
  rewrite phys_mod. 2: lia. 2:{ pose proof (Z.mod_pos_bound (p - c - 1) n Hn). lia. }
  rewrite Zplus_mod_idemp_r. replace (c + 1 + (p - c - 1)) with p by lia. apply Z.mod_small; lia.
Qed.

(* ============================== part 2 ============================== *)

Notation bufR := (buf R).

Definition wf (n : Z) (b : bufR) : Prop :=
  1 <= n /\ 0 <= cursor b < n /\ length (times b) = Z.to_nat n /\ length (rows b) = Z.to_nat n.

Definition sorted (n : Z) (b : bufR) : Prop :=
  forall i j, 0 <= i -> i <= j -> j < n -> (ltime n b i <= ltime n b j)%R.
Definition ssorted (n : Z) (b : bufR) : Prop :=
  forall i j, 0 <= i -> i < j -> j < n -> (ltime n b i < ltime n b j)%R.

Lemma ssorted_sorted n b : ssorted n b -> sorted n b.
Proof. intros Hs i j Hi Hij Hj. destruct (Z.eq_dec i j) as [->|]. lra. apply Rlt_le, Hs; lia. Qed.

Lemma phys_eqb c n l l0 : 0 < n -> 0 <= c -> 0 <= l < n -> 0 <= l0 < n ->
  (phys c n l =? phys c n l0) = (l =? l0).
Proof.
  intros. destruct (Z.eqb_spec l l0) as [->|Hne]. apply Z.eqb_refl.
  apply Z.eqb_neq. intro E. apply Hne. eapply phys_inj; eauto.
Qed.

(* ---- effect of the setters on logical samples ---- *)
Lemma lsample_set_row n (b : bufR) l0 v l : wf n b -> 0 <= l0 < n -> 0 <= l < n ->
  lsample n (set_row b (phys (cursor b) n l0) v) l =
    if l =? l0 then (ltime n b l, v) else lsample n b l.
Proof.
  intros (Hn & Hc & Ht & Hr) Hl0 Hl. unfold lsample, lrow, ltime, set_row; simpl.
  rewrite znth_zupd.
  - rewrite phys_eqb by lia. destruct (l =? l0); reflexivity.
  - pose proof (phys_range (cursor b) n l0). lia.
  - pose proof (phys_range (cursor b) n l). lia.
Qed.

Lemma lsample_set_time n (b : bufR) l0 t l : wf n b -> 0 <= l0 < n -> 0 <= l < n ->
  lsample n (set_time b (phys (cursor b) n l0) t) l =
    if l =? l0 then (t, lrow n b l) else lsample n b l.
Proof.
  intros (Hn & Hc & Ht & Hr) Hl0 Hl. unfold lsample, lrow, ltime, set_time; simpl.
  rewrite znth_zupd.
  - rewrite phys_eqb by lia. destruct (l =? l0); reflexivity.
  - pose proof (phys_range (cursor b) n l0). lia.
  - pose proof (phys_range (cursor b) n l). lia.
Qed.

Lemma wf_set_row n (b : bufR) p v : wf n b -> wf n (set_row b p v).
Proof. intros (Hn & Hc & Ht & Hr). repeat split; simpl; try lia. now rewrite zupd_length. Qed.
Lemma wf_set_time n (b : bufR) p t : wf n b -> wf n (set_time b p t).
Proof. intros (Hn & Hc & Ht & Hr). repeat split; simpl; try lia. now rewrite zupd_length. Qed.

Lemma lsample_set_slot n (b : bufR) l0 t v l : wf n b -> 0 <= l0 < n -> 0 <= l < n ->
  lsample n (set_row (set_time b (phys (cursor b) n l0) t) (phys (cursor b) n l0) v) l =
    if l =? l0 then (t, v) else lsample n b l.
Proof.
  intros Hw Hl0 Hl.
  pose proof (lsample_set_row n (set_time b (phys (cursor b) n l0) t) l0 v l (wf_set_time _ _ _ _ Hw) Hl0 Hl) as E.
  simpl in E. rewrite E. clear E.
  pose proof (lsample_set_time n b l0 t l Hw Hl0 Hl) as E2.
  destruct (Z.eqb_spec l l0) as [->|].
  - unfold lsample in E2. injection E2 as E3. now rewrite E3.
  - exact E2.
Qed.

(* ---- find_index ---- *)
Lemma bsearch_spec (tm : Z -> R) (t : R) : forall fuel lo hi,
  0 <= lo < hi -> hi - lo <= Z.of_nat fuel -> (tm lo < t)%R -> (t <= tm hi)%R ->
  lo < bsearch fuel tm t lo hi <= hi /\
  (tm (bsearch fuel tm t lo hi - 1)%Z < t)%R /\ (t <= tm (bsearch fuel tm t lo hi))%R.
Proof.
  induction fuel as [|f IH]; intros lo hi Hlh Hf Hlo Hhi. lia.
  simpl. destruct (hi - lo >? 1) eqn:E.
  - assert (Hm : Z.shiftr (lo + hi) 1 = (lo + hi) / 2) by (rewrite Z.shiftr_div_pow2 by lia; reflexivity).
    rewrite Hm. set (mid := (lo + hi) / 2).
    assert (Hmid : lo < mid < hi).
    { unfold mid. pose proof (Z.div_mod (lo + hi) 2). pose proof (Z.mod_pos_bound (lo + hi) 2). lia. }
    destruct (Rltb (tm mid) t) eqn:Em.
    + apply Rltb_true in Em. destruct (IH mid hi) as (A & B & C); try lia; auto.
      repeat split; auto; lia.
    + apply Rltb_false in Em. destruct (IH lo mid) as (A & B & C); try lia; auto.
      repeat split; auto; lia.
  - assert (hi = lo + 1) by lia. subst hi. replace (lo + 1 - 1) with lo by lia. repeat split; auto; lia.
Qed.

Lemma find_index_spec n (b : bufR) (t : R) : 1 <= n ->
  0 <= find_index n b t <= n /\
  (0 < find_index n b t -> (ltime n b (find_index n b t - 1)%Z < t)%R) /\
  (find_index n b t < n -> (t <= ltime n b (find_index n b t))%R).
Proof.
  intros Hn. unfold find_index. cbn [sleb sgtb sltb ScalarR].
  destruct (Rleb t (ltime n b 0)) eqn:E0.
  { apply Rleb_true in E0. split; [lia|]. split; intros; [lia|assumption]. }
  apply Rleb_false in E0.
  destruct (Rltb (ltime n b (n - 1)) t) eqn:E1.
  { apply Rltb_true in E1. split; [lia|]. split; intros; [assumption|lia]. }
  apply Rltb_false in E1.
  destruct (Z.eq_dec n 1) as [->|Hn1].
  { simpl in E1. lra. }
  destruct (bsearch_spec (ltime n b) t (Z.to_nat n) 0 (n - 1)) as (A & B & C); try lia; auto.
  split; [lia|]. split; intros; assumption.
Qed.

(* ---- the shift loop ---- *)
Lemma for_nat_snoc {A} (f : Z -> A -> A) : forall k i acc,
  for_nat (Datatypes.S k) i acc f = f (i + Z.of_nat k) (for_nat k i acc f).
Proof.
  induction k; intros i acc. simpl. now rewrite Z.add_0_r.
  change (for_nat (Datatypes.S (Datatypes.S k)) i acc f) with (for_nat (Datatypes.S k) (i + 1) (f i acc) f).
  rewrite IHk. simpl for_nat at 2. f_equal. lia.
Qed.

Lemma shift_left_spec n (b : bufR) : wf n b -> forall k : nat, Z.of_nat k <= n - 1 ->
  let b' := shift_left n b (Z.of_nat k) in
  cursor b' = cursor b /\ user b' = user b /\ wf n b' /\
  forall l, 0 <= l < n ->
    lsample n b' l = if l <? Z.of_nat k then lsample n b (l + 1) else lsample n b l.
Proof.
  intros Hw. induction k as [|k IH]; intros Hk.
  - simpl. unfold shift_left, for_range. simpl.
    split; [reflexivity|]. split; [reflexivity|]. split; [exact Hw|].
    intros l Hl. destruct (Z.ltb_spec l 0); [lia|reflexivity].
  - destruct IH as (Hc & Hu & Hw' & Hs). lia.
    unfold shift_left, for_range in *. rewrite Z.sub_0_r, Nat2Z.id in *.
    rewrite for_nat_snoc. rewrite Z.add_0_l.
    set (bk := for_nat k 0 b _) in *.
    cbv beta zeta.
    assert (Hr : 0 <= Z.of_nat k < n) by lia.
    split; [simpl; auto|]. split; [simpl; auto|]. split; [apply wf_set_row, wf_set_time, Hw'|].
    + intros l Hl.
      rewrite lsample_set_slot by (auto; lia).
      pose proof (Hs (Z.of_nat k + 1) ltac:(lia)) as Hsrc.
      replace (Z.of_nat k + 1 <? Z.of_nat k) with false in Hsrc by lia.
      destruct (Z.eqb_spec l (Z.of_nat k)) as [->|Hne].
      * replace (Z.of_nat k <? Z.of_nat (Datatypes.S k)) with true by lia.
        rewrite <- Hsrc. reflexivity.
      * rewrite Hs by lia.
        destruct (Z.ltb_spec l (Z.of_nat k)), (Z.ltb_spec l (Z.of_nat (Datatypes.S k))); auto; lia.
Qed.

(* ============================== part 3 ============================== *)

Definition ins_sample (n : Z) (b : bufR) (t : R) (v : list R) (l : Z) : sample R :=
  let i := find_index n b t in
  if (i <? n) && near t (ltime n b i) then (if l =? i then (ltime n b l, v) else lsample n b l)
  else if i =? 0 then (if l =? 0 then (t, v) else lsample n b l)
  else (if l + 1 <? i then lsample n b (l + 1) else if l + 1 =? i then (t, v) else lsample n b l).

Lemma phys_succ c n l : 0 < n -> 0 <= c -> 0 <= l -> phys (phys c n 0) n l = phys c n (l + 1).
Proof.
  intros. pose proof (phys_range c n 0). rewrite (phys_mod (phys c n 0)) by lia.
  rewrite !(phys_mod c) by lia. rewrite Z.add_0_r.
  rewrite <- Z.add_assoc, Zplus_mod_idemp_l. f_equal. lia.
Qed.

Lemma phys_wrap c n : 0 < n -> 0 <= c -> phys c n n = phys c n 0.
Proof.
  intros. rewrite !phys_mod by lia. replace (c + 1 + n) with (c + 1 + 0 + 1 * n) by lia.
  apply Z_mod_plus_full.
Qed.

Lemma insert_lsample n (b : bufR) t v : wf n b ->
  wf n (insert n b t v) /\ user (insert n b t v) = user b /\
  forall l, 0 <= l < n -> lsample n (insert n b t v) l = ins_sample n b t v l.
Proof.
  intros Hw. pose proof Hw as (Hn & Hc & Ht & Hr).
  pose proof (find_index_spec n b t Hn) as (Hi & _ & _).
  unfold insert, ins_sample. set (i := find_index n b t) in *.
  destruct ((i <? n) && near t (ltime n b i)) eqn:Ex.
  { split; [apply wf_set_row; auto|]. split; [reflexivity|].
    intros l Hl. apply lsample_set_row; auto. lia. }
  destruct (Z.eqb_spec i 0) as [E0|N0].
  { split; [apply wf_set_row, wf_set_time; auto|]. split; [reflexivity|].
    intros l Hl. apply lsample_set_slot; auto. lia. }
  destruct (Z.eqb_spec i n) as [En|Nn].
  { assert (Hc' : Z.rem (cursor b + 1) n = phys (cursor b) n 0).
    { unfold phys, _history_physical_index. f_equal. lia. }
    rewrite Hc'. pose proof (phys_range (cursor b) n 0 ltac:(lia) ltac:(lia) ltac:(lia)) as Hp.
    split. { repeat split; simpl; try lia; now rewrite zupd_length. }
    split; [reflexivity|].
    intros l Hl. unfold lsample, ltime, lrow. simpl.
    rewrite phys_succ by lia.
    pose proof (phys_range (cursor b) n (l + 1) ltac:(lia) ltac:(lia) ltac:(lia)).
    rewrite !znth_zupd by lia.
    destruct (Z.ltb_spec (l + 1) i).
    - rewrite <- (Z.add_0_r 0) at 2 4. simpl (0 + 0).
      rewrite phys_eqb by lia. replace (l + 1 =? 0) with false by lia. reflexivity.
    - assert (l + 1 = n) by lia. replace (l + 1 =? i) with true by lia.
      replace (l + 1) with n by lia. rewrite phys_wrap by lia. rewrite Z.eqb_refl. reflexivity. }
  assert (Hk : Z.of_nat (Z.to_nat (i - 1)) <= n - 1) by lia.
  pose proof (shift_left_spec n b Hw (Z.to_nat (i - 1)) Hk) as (Sc & Su & Sw & Ss).
  rewrite Z2Nat.id in * by lia.
  set (b' := shift_left n b (i - 1)) in *.
  rewrite <- Sc.
  split; [apply wf_set_row, wf_set_time; auto|]. split; [simpl; auto|].
  intros l Hl. rewrite lsample_set_slot by (auto; lia).
  destruct (Z.eqb_spec l (i - 1)).
  - replace (l + 1 <? i) with false by lia. replace (l + 1 =? i) with true by lia. reflexivity.
  - rewrite Ss by lia. replace (l + 1 =? i) with false by lia.
    destruct (Z.ltb_spec l (i - 1)), (Z.ltb_spec (l + 1) i); auto; lia.
Qed.

(* ---- the abstract list ---- *)
Lemma abs_length n (b : bufR) : length (abs n b) = Z.to_nat n.
Proof. unfold abs. now rewrite map_length, zseq_length. Qed.

Lemma znth_abs n (b : bufR) l : 0 <= l < n -> znth (abs n b) l dflt = lsample n b l.
Proof. intros. unfold abs. now apply znth_map_zseq. Qed.

Lemma stime_abs n (b : bufR) l : 0 <= l < n -> stime (abs n b) l = ltime n b l.
Proof. intros. unfold stime. now rewrite znth_abs. Qed.
Lemma srow_abs n (b : bufR) l : 0 <= l < n -> srow (abs n b) l = lrow n b l.
Proof. intros. unfold srow. now rewrite znth_abs. Qed.

Lemma znth_cons {A} (x : A) r j d : 0 < j -> znth (x :: r) j d = znth r (j - 1) d.
Proof.
  intros. unfold znth. replace (Z.to_nat j) with (Datatypes.S (Z.to_nat (j - 1))) by lia. reflexivity.
Qed.

Lemma count_lt_spec (L : list (sample R)) (t : R) :
  0 <= count_lt L t <= Z.of_nat (length L) /\
  (forall j, 0 <= j < count_lt L t -> (stime L j < t)%R) /\
  (count_lt L t < Z.of_nat (length L) -> ~ (stime L (count_lt L t) < t)%R).
Proof.
  induction L as [|x r IH]. { simpl. split; [lia|]. split; intros; lia. }
  destruct IH as (A & B & C).
  assert (Hcons : count_lt (x :: r) t = if Rltb (fst x) t then 1 + count_lt r t else 0) by reflexivity.
  rewrite Hcons. clear Hcons.
  destruct (Rltb (fst x) t) eqn:E.
  - apply Rltb_true in E. split; [simpl length; lia|]. split.
    + intros j Hj. destruct (Z.eq_dec j 0) as [->|]. exact E.
      unfold stime. rewrite znth_cons by lia. apply B. lia.
    + intros Hlt. unfold stime. rewrite znth_cons by lia.
      replace (1 + count_lt r t - 1) with (count_lt r t) by lia. apply C. simpl length in Hlt. lia.
  - apply Rltb_false in E. split; [simpl length; lia|]. split. intros; lia.
    intros _. unfold stime, znth. simpl. lra.
Qed.

Lemma find_index_count n (b : bufR) t : wf n b -> sorted n b ->
  find_index n b t = count_lt (abs n b) t.
Proof.
  intros Hw Hs. pose proof Hw as (Hn & _).
  pose proof (find_index_spec n b t Hn) as (Hi & Hlo & Hhi).
  pose proof (count_lt_spec (abs n b) t) as (Hk & Hb & Hc).
  rewrite abs_length, Z2Nat.id in * by lia.
  set (i := find_index n b t) in *. set (k := count_lt (abs n b) t) in *.
  destruct (Z.lt_trichotomy i k) as [L|[E|G]]; auto; exfalso.
  - specialize (Hb i ltac:(lia)). rewrite stime_abs in Hb by lia. specialize (Hhi ltac:(lia)). lra.
  - specialize (Hc ltac:(lia)). rewrite stime_abs in Hc by lia.
    specialize (Hlo ltac:(lia)). specialize (Hs k (i - 1) ltac:(lia) ltac:(lia) ltac:(lia)).
    apply Hc. lra.
Qed.

Theorem insert_refines n (b : bufR) t v : wf n b -> sorted n b ->
  abs n (insert n b t v) = spec_insert (abs n b) t v.
Proof.
  intros Hw Hs. pose proof Hw as (Hn & _).
  pose proof (insert_lsample n b t v Hw) as (Hw' & _ & HL).
  pose proof (find_index_spec n b t Hn) as (Hi & _ & _).
  assert (Hlen : Z.of_nat (length (abs n b)) = n) by (rewrite abs_length; lia).
  unfold spec_insert. rewrite <- find_index_count by auto. rewrite Hlen.
  set (i := find_index n b t) in *.
  assert (Hcond : (i <? n) && near t (stime (abs n b) i) = (i <? n) && near t (ltime n b i)).
  { destruct (Z.ltb_spec i n); simpl; auto. now rewrite stime_abs by lia. }
  rewrite Hcond.
  apply list_eq_znth with (d := dflt).
  { rewrite abs_length.
    destruct ((i <? n) && near t (ltime n b i)) eqn:Ex; [now rewrite zupd_length, abs_length|].
    destruct (i =? 0); [now rewrite zupd_length, abs_length|].
    rewrite insdrop_length, abs_length; lia. }
  intros l Hl. rewrite abs_length, Z2Nat.id in Hl by lia.
  rewrite znth_abs by lia. rewrite HL by lia. unfold ins_sample. fold i.
  destruct ((i <? n) && near t (ltime n b i)) eqn:Ex.
  { rewrite znth_zupd by lia. rewrite znth_abs by lia.
    destruct (Z.eqb_spec l i) as [->|]; auto. now rewrite stime_abs by lia. }
  destruct (Z.eqb_spec i 0).
  { rewrite znth_zupd by lia. rewrite znth_abs by lia. reflexivity. }
  rewrite znth_insdrop by lia.
  destruct (l + 1 <? i) eqn:E1. { now rewrite znth_abs by lia. }
  destruct (l + 1 =? i); auto. now rewrite znth_abs by lia.
Qed.

(* ============================== part 4 ============================== *)

Lemma eps_pos : (0 < @eps R _)%R.
Proof. unfold eps, slit. cbn [sdiv sofZ ScalarR]. lra. Qed.

Lemma near_true (a b : R) : near a b = true <-> (Rabs (a - b) < eps)%R.
Proof. unfold near. cbn [sltb sabs ssub ScalarR]. apply Rltb_true. Qed.
Lemma near_false (a b : R) : near a b = false <-> (eps <= Rabs (a - b))%R.
Proof. unfold near. cbn [sltb sabs ssub ScalarR]. apply Rltb_false. Qed.

Lemma near_false_lt (a b : R) : near a b = false -> (a <= b)%R -> (a < b)%R.
Proof.
  intros Hn Hle. apply near_false in Hn. pose proof eps_pos.
  destruct (Req_dec a b) as [->|]; [|lra].
  replace (b - b)%R with 0%R in Hn by lra. rewrite Rabs_R0 in Hn. lra.
Qed.

Lemma ltime_insert n (b : bufR) t v l : wf n b -> 0 <= l < n ->
  ltime n (insert n b t v) l = fst (ins_sample n b t v l).
Proof.
  intros Hw Hl. pose proof (insert_lsample n b t v Hw) as (_ & _ & HL).
  rewrite <- HL by auto. reflexivity.
Qed.

Ltac inst Hs x y := try (pose proof (Hs x y ltac:(lia) ltac:(lia) ltac:(lia))).
Ltac inst_all Hs a c i :=
  inst Hs a c; inst Hs (a + 1) (c + 1); inst Hs (a + 1) c; inst Hs (a + 1) (i - 1); inst Hs a (i - 1);
  inst Hs i c; inst Hs i (c + 1); inst Hs 0 c; inst Hs 0 a; inst Hs (i - 1) i; inst Hs (i - 1) c.

Theorem insert_sorted n (b : bufR) t v : wf n b -> sorted n b -> sorted n (insert n b t v).
Proof.
  intros Hw Hs a c Ha Hac Hc. pose proof Hw as (Hn & _).
  rewrite !ltime_insert by (auto; lia).
  pose proof (find_index_spec n b t Hn) as (Hi & Hlo & Hhi).
  unfold ins_sample. set (i := find_index n b t) in *.
  destruct ((i <? n) && near t (ltime n b i)) eqn:Ex.
  { unfold lsample. destruct (a =? i), (c =? i); simpl; apply Hs; lia. }
  destruct (Z.eqb_spec i 0) as [E0|N0].
  { rewrite E0 in *. specialize (Hhi ltac:(lia)). unfold lsample.
    destruct (Z.eqb_spec a 0), (Z.eqb_spec c 0); simpl; inst_all Hs a c i; try lra; lia. }
  specialize (Hlo ltac:(lia)). unfold lsample.
  destruct (Z.ltb_spec (a + 1) i), (Z.ltb_spec (c + 1) i);
    try destruct (Z.eqb_spec (a + 1) i); try destruct (Z.eqb_spec (c + 1) i); simpl;
    try lia; try (destruct (Z.eq_dec i n); [|specialize (Hhi ltac:(lia))]); inst_all Hs a c i; try lra; try lia.
Qed.

Theorem insert_ssorted n (b : bufR) t v : wf n b -> ssorted n b -> ssorted n (insert n b t v).
Proof.
  intros Hw Hs a c Ha Hac Hc. pose proof Hw as (Hn & _).
  pose proof (ssorted_sorted n b Hs) as Hs'.
  rewrite !ltime_insert by (auto; lia).
  pose proof (find_index_spec n b t Hn) as (Hi & Hlo & Hhi).
  unfold ins_sample. set (i := find_index n b t) in *.
  destruct ((i <? n) && near t (ltime n b i)) eqn:Ex.
  { unfold lsample. destruct (a =? i), (c =? i); simpl; apply Hs; lia. }
  assert (Hhi' : i < n -> (t < ltime n b i)%R).
  { intros Hin. replace (i <? n) with true in Ex by lia. simpl in Ex.
    apply near_false_lt; auto. }
  destruct (Z.eqb_spec i 0) as [E0|N0].
  { rewrite E0 in *. specialize (Hhi' ltac:(lia)). unfold lsample.
    destruct (Z.eqb_spec a 0), (Z.eqb_spec c 0); simpl; inst_all Hs a c i; inst_all Hs' a c i; try lra; lia. }
  specialize (Hlo ltac:(lia)). unfold lsample.
  destruct (Z.ltb_spec (a + 1) i), (Z.ltb_spec (c + 1) i);
    try destruct (Z.eqb_spec (a + 1) i); try destruct (Z.eqb_spec (c + 1) i); simpl;
    try lia; try (destruct (Z.eq_dec i n); [|specialize (Hhi' ltac:(lia))]);
    inst_all Hs a c i; inst_all Hs' a c i; try lra; try lia.
Qed.

(* ---- MuJoCo's initial buffer ---- *)
Lemma phys_init n l : 1 <= n -> 0 <= l < n -> phys (n - 1) n l = l.
Proof.
  intros. rewrite phys_mod by lia. replace (n - 1 + 1 + l) with (l + 1 * n) by lia.
  rewrite Z_mod_plus_full. apply Z.mod_small. lia.
Qed.

Lemma mj_init_wf n dim (h u : R) : 1 <= n -> wf n (mj_init n dim h u).
Proof. intros. unfold mj_init. repeat split; simpl; try lia; now rewrite map_length, zseq_length. Qed.

Lemma ltime_mj_init n dim (h u : R) l : 1 <= n -> 0 <= l < n ->
  ltime n (mj_init n dim h u) l = (- (IZR (n - l) * h))%R.
Proof.
  intros. unfold ltime, mj_init. simpl. rewrite phys_init by lia. now rewrite znth_map_zseq by lia.
Qed.

Lemma mj_init_ssorted n dim (h u : R) : 1 <= n -> (0 < h)%R -> ssorted n (mj_init n dim h u).
Proof.
  intros Hn Hh i j Hi Hij Hj. rewrite !ltime_mj_init by lia.
  assert (IZR (n - j) < IZR (n - i))%R by (apply IZR_lt; lia). nra.
Qed.

Lemma zero_buf_wf n dim : 1 <= n -> wf n (@zero_buf R _ n dim).
Proof. intros. unfold zero_buf. repeat split; simpl; try lia; now rewrite map_length, zseq_length. Qed.

Definition insert_all (n : Z) (b : bufR) (ops : list (R * list R)) : bufR :=
  fold_left (fun b o => insert n b (fst o) (snd o)) ops b.

Theorem sorted_invariant n dim (h u : R) ops : 1 <= n -> (0 < h)%R ->
  wf n (insert_all n (mj_init n dim h u) ops) /\ ssorted n (insert_all n (mj_init n dim h u) ops).
Proof.
  intros Hn Hh. unfold insert_all.
  assert (G : forall b, wf n b /\ ssorted n b ->
     wf n (fold_left (fun b o => insert n b (fst o) (snd o)) ops b) /\
     ssorted n (fold_left (fun b o => insert n b (fst o) (snd o)) ops b)).
  { induction ops as [|o r IH]; intros b (Hw & Hs); simpl; auto.
    apply IH. split. apply insert_lsample; auto. apply insert_ssorted; auto. }
  apply G. split. now apply mj_init_wf. now apply mj_init_ssorted.
Qed.

(* ============================== part 5 ============================== *)

(* position of t when it lies strictly inside the buffer's time span *)
Lemma find_index_inside n (b : bufR) t : wf n b ->
  sleb t (sadd (ltime n b 0) eps) = false -> sgeb t (ssub (ltime n b (n - 1)) eps) = false ->
  0 < find_index n b t < n /\ (ltime n b (find_index n b t - 1)%Z < t)%R /\ (t <= ltime n b (find_index n b t))%R.
Proof.
  intros (Hn & _) E1 E2. unfold sgeb in E2. cbn [sleb sadd ssub ScalarR] in E1, E2.
  apply Rleb_false in E1, E2. pose proof eps_pos.
  pose proof (find_index_spec n b t Hn) as (Hi & Hlo & Hhi).
  set (i := find_index n b t) in *.
  assert (i <> 0). { intros E. rewrite E in *. specialize (Hhi ltac:(lia)). lra. }
  assert (i <> n). { intros E. rewrite E in *. specialize (Hlo ltac:(lia)). lra. }
  split; [lia|]. split; [apply Hlo|apply Hhi]; lia.
Qed.

Theorem read_refines n dim (b : bufR) t interp : wf n b -> sorted n b ->
  read n dim b t interp = spec_read dim (abs n b) t interp.
Proof.
  intros Hw Hs. pose proof Hw as (Hn & _).
  assert (Hlen : Z.of_nat (length (abs n b)) = n) by (rewrite abs_length; lia).
  unfold read, spec_read. rewrite Hlen.
  rewrite (stime_abs n b 0), (stime_abs n b (n - 1)), (srow_abs n b 0), (srow_abs n b (n - 1)) by lia.
  destruct (sleb t (sadd (ltime n b 0) eps)) eqn:E1; auto.
  destruct (sgeb t (ssub (ltime n b (n - 1)) eps)) eqn:E2; auto.
  rewrite <- find_index_count by auto.
  pose proof (find_index_inside n b t Hw E1 E2) as (Hi & _ & _).
  set (i := find_index n b t) in *.
  rewrite (stime_abs n b i), (stime_abs n b (i - 1)), (srow_abs n b i), (srow_abs n b (i - 1)) by lia.
  destruct (near t (ltime n b i)); auto.
  destruct (interp =? 0); auto.
  destruct (interp =? 1); auto.
  unfold cubic, spec_cubic. rewrite Hlen.
  rewrite (stime_abs n b i), (stime_abs n b (i - 1)), (srow_abs n b i), (srow_abs n b (i - 1)) by lia.
  destruct (i >? 1) eqn:G1; destruct (i <? n - 1) eqn:G2;
    repeat first [ rewrite (stime_abs n b (i - 2)) by lia | rewrite (srow_abs n b (i - 2)) by lia
                 | rewrite (stime_abs n b (i + 1)) by lia | rewrite (srow_abs n b (i + 1)) by lia ];
    reflexivity.
Qed.

Corollary read_depends_on_abs n dim (b1 b2 : bufR) t interp :
  wf n b1 -> sorted n b1 -> wf n b2 -> sorted n b2 -> abs n b1 = abs n b2 ->
  read n dim b1 t interp = read n dim b2 t interp.
Proof. intros. rewrite !read_refines by auto. congruence. Qed.

(* ---- zero-order hold ---- *)
Theorem read_before_oldest n dim (b : bufR) t interp :
  (t <= ltime n b 0 + eps)%R -> read n dim b t interp = lrow n b 0.
Proof.
  intros Ht. unfold read. cbn [sleb sadd ScalarR]. now rewrite (proj2 (Rleb_true _ _) Ht).
Qed.

Theorem zoh_latest n dim (b : bufR) t : wf n b -> sorted n b -> (ltime n b 0 + eps < t)%R ->
  exists k, 0 <= k < n /\ read n dim b t 0 = lrow n b k /\
            (ltime n b k <= t + eps)%R /\ (forall j, k < j < n -> (t <= ltime n b j)%R).
Proof.
  intros Hw Hs Ht. pose proof Hw as (Hn & _). unfold read.
  destruct (sleb t (sadd (ltime n b 0) eps)) eqn:E1.
  { cbn [sleb sadd ScalarR] in E1. apply Rleb_true in E1. lra. }
  destruct (sgeb t (ssub (ltime n b (n - 1)) eps)) eqn:E2.
  { exists (n - 1). unfold sgeb in E2. cbn [sleb ssub ScalarR] in E2. apply Rleb_true in E2.
    split; [lia|]. split; [reflexivity|]. split; [lra|]. intros; lia. }
  pose proof (find_index_inside n b t Hw E1 E2) as (Hi & Hlo & Hhi).
  set (i := find_index n b t) in *.
  destruct (near t (ltime n b i)) eqn:En.
  { exists i. split; [lia|]. split; [reflexivity|]. apply near_true in En.
    split. { unfold Rabs in En. destruct (Rcase_abs _); lra. }
    intros j Hj. specialize (Hs i j ltac:(lia) ltac:(lia) ltac:(lia)). lra. }
  exists (i - 1). split; [lia|]. split; [reflexivity|]. pose proof eps_pos. split; [lra|].
  intros j Hj. specialize (Hs i j ltac:(lia) ltac:(lia) ltac:(lia)). lra.
Qed.

(* ---- linear interpolation ---- *)
Lemma nth_map_seq {A} (f : nat -> A) k d dflt0 : (d < k)%nat -> nth d (map f (seq 0 k)) dflt0 = f d.
Proof.
  intros. rewrite nth_indep with (d' := f 0%nat) by (rewrite map_length, seq_length; lia).
  rewrite map_nth. now rewrite seq_nth by lia.
Qed.

Lemma comp_lin (alpha : R) rlo rhi dim d : (d < Z.to_nat dim)%nat ->
  comp (lin alpha rlo rhi dim) d = (comp rlo d + alpha * (comp rhi d - comp rlo d))%R.
Proof. intros. unfold lin. unfold comp at 1. now rewrite nth_map_seq by auto. Qed.

Theorem linear_between n dim (b : bufR) t : wf n b -> sorted n b ->
  (ltime n b 0 + eps < t)%R -> (t < ltime n b (n - 1) - eps)%R ->
  exists i, 1 <= i < n /\ (ltime n b (i - 1)%Z < t <= ltime n b i)%R /\
    forall d, (d < Z.to_nat dim)%nat ->
      (Rmin (comp (lrow n b (i - 1)) d) (comp (lrow n b i) d) <= comp (read n dim b t 1) d
        <= Rmax (comp (lrow n b (i - 1)) d) (comp (lrow n b i) d))%R.
Proof.
  intros Hw Hs Ht1 Ht2. unfold read.
  destruct (sleb t (sadd (ltime n b 0) eps)) eqn:E1.
  { cbn [sleb sadd ScalarR] in E1. apply Rleb_true in E1. lra. }
  destruct (sgeb t (ssub (ltime n b (n - 1)) eps)) eqn:E2.
  { unfold sgeb in E2. cbn [sleb ssub ScalarR] in E2. apply Rleb_true in E2. lra. }
  pose proof (find_index_inside n b t Hw E1 E2) as (Hi & Hlo & Hhi).
  set (i := find_index n b t) in *.
  exists i. split; [lia|]. split; [lra|]. intros d Hd.
  destruct (near t (ltime n b i)) eqn:En.
  { split; [apply Rmin_r|apply Rmax_r]. }
  simpl (1 =? 0). simpl (1 =? 1). cbv iota.
  rewrite comp_lin by auto.
  cbn [sadd smul ssub sdiv ScalarR].
  set (vlo := comp (lrow n b (i - 1)) d). set (vhi := comp (lrow n b i) d).
  set (tlo := ltime n b (i - 1)) in *. set (thi := ltime n b i) in *.
  assert (Hdt : (0 < thi - tlo)%R) by lra.
  set (alpha := ((t - tlo) / (thi - tlo))%R).
  assert (Ha : (alpha * (thi - tlo) = t - tlo)%R) by (unfold alpha; field; lra).
  assert (Ha01 : (0 < alpha <= 1)%R) by (split; nra).
  clearbody alpha vlo vhi.
  unfold Rmin, Rmax. destruct (Rle_dec vlo vhi) as [Hv|Hv].
  - assert (0 <= alpha * (vhi - vlo))%R by (apply Rmult_le_pos; lra).
    assert (0 <= (1 - alpha) * (vhi - vlo))%R by (apply Rmult_le_pos; lra).
    split; lra.
  - assert (0 <= alpha * (vlo - vhi))%R by (apply Rmult_le_pos; lra).
    assert (0 <= (1 - alpha) * (vlo - vhi))%R by (apply Rmult_le_pos; lra).
    split; lra.
Qed.

(* ============================== part 6 ============================== *)

(* evaluation of closed model terms over R: comparisons are decided one at a time by lra *)
Ltac rsolve :=
  unfold eps, slit, s0, s1; cbn [sdiv sofZ sadd ssub sabs ScalarR];
  first [ lra | unfold Rabs; repeat destruct (Rcase_abs _); lra ].
Ltac rstep :=
  match goal with
  | |- context [Rleb ?a ?b] =>
      first [ rewrite (proj2 (Rleb_true a b)) by rsolve | rewrite (proj2 (Rleb_false a b)) by rsolve ]
  | |- context [Rltb ?a ?b] =>
      first [ rewrite (proj2 (Rltb_true a b)) by rsolve | rewrite (proj2 (Rltb_false a b)) by rsolve ]
  | |- context [Reqb ?a ?b] =>
      first [ rewrite (proj2 (Reqb_true a b)) by rsolve | rewrite (proj2 (Reqb_false a b)) by rsolve ]
  end.
Ltac rcomp := cbv - [Rplus Rminus Rmult Rdiv Ropp Rinv Rabs Rltb Rleb Reqb IZR].
Ltac scmp := cbn [sleb sltb sgtb sgeb seqb sadd ssub sabs smul sdiv sneg ScalarR]; unfold sgtb, sgeb;
             cbn [sleb sltb sgtb sgeb seqb sadd ssub sabs smul sdiv sneg ScalarR].

Ltac rweval X Y := let H := fresh in assert (H : X = Y) by reflexivity; rewrite !H; clear H.

Definition step1 (n : Z) (u : R) (b : bufR) : bufR := insert_ctrl n 0%R u b.

Definition B0 : bufR := mkBuf 0%R 0 [0%R; 0%R] [[0%R]; [1%R]].
Lemma make_step : step1 2 1%R (zero_buf 2 1) = B0.
Proof.
  unfold step1, insert_ctrl. simpl (2 =? 0). cbv iota. unfold insert.
  assert (Ef : find_index 2 (@zero_buf R _ 2 1) 0%R = 0).
  { unfold find_index. rweval (ltime 2 (@zero_buf R _ 2 1) 0) (0%R). scmp. now rstep. }
  rewrite Ef. rweval (ltime 2 (@zero_buf R _ 2 1) 0) (0%R).
  unfold near. scmp. replace (0 - 0)%R with 0%R by lra. rstep. reflexivity.
Qed.

Lemma make_side : read_ctrl_delayed 2 1 (3/2)%R 1%R 0%R (step1 2 1%R (zero_buf 2 1)) = 1%R.
Proof.
  rewrite make_step. unfold read_ctrl_delayed. simpl (2 =? 0). scmp. rstep. cbv [orb].
  unfold read. rweval (ltime 2 B0 0) (0%R). scmp. rstep. reflexivity.
Qed.

Definition Bm0 : bufR := mkBuf 0%R 1 [(- (2 * 1))%R; (- (1 * 1))%R] [[0%R]; [0%R]].
Definition Bm1 : bufR := mkBuf 0%R 0 [0%R; (- (1 * 1))%R] [[1%R]; [0%R]].
Lemma mj_step : step1 2 1%R (mj_init 2 1 1%R 0%R) = Bm1.
Proof.
  rweval (mj_init 2 1 1%R 0%R) (Bm0).
  unfold step1, insert_ctrl. simpl (2 =? 0). cbv iota. unfold insert.
  assert (Ef : find_index 2 Bm0 0%R = 2).
  { unfold find_index. rweval (ltime 2 Bm0 0) ((- (2 * 1))%R).
    rweval (ltime 2 Bm0 (2 - 1)) ((- (1 * 1))%R). scmp. rstep. now rstep. }
  rewrite Ef. reflexivity.
Qed.

Lemma mj_side : read_ctrl_delayed 2 1 (3/2)%R 1%R 0%R (step1 2 1%R (mj_init 2 1 1%R 0%R)) = (1/2)%R.
Proof.
  rewrite mj_step. unfold read_ctrl_delayed. simpl (2 =? 0). scmp. rstep. cbv [orb].
  assert (Ef : find_index 2 Bm1 (1 - 3 / 2)%R = 1).
  { unfold find_index. rweval (ltime 2 Bm1 0) ((- (1 * 1))%R).
    rweval (ltime 2 Bm1 (2 - 1)) (0%R). scmp. rstep. rstep. reflexivity. }
  unfold read. cbv zeta. rewrite Ef.
  rweval (ltime 2 Bm1 0) ((- (1 * 1))%R).
  rweval (ltime 2 Bm1 (2 - 1)) (0%R).
  rweval (ltime 2 Bm1 (1 - 1)) ((- (1 * 1))%R).
  rweval (ltime 2 Bm1 1) (0%R).
  scmp. rstep. rstep. unfold near. scmp. rstep.
  simpl (1 =? 0). simpl (1 =? 1). cbv iota.
  rweval (lrow 2 Bm1 (1 - 1)) ([0%R]).
  rweval (lrow 2 Bm1 1) ([1%R]).
  unfold lin, comp. simpl. scmp. field.
Qed.

Theorem zero_buffer_not_initial :
  exists (n interp : Z) (h delay u : R),
    read_ctrl_delayed n interp delay h 0%R (step1 n u (zero_buf n 1)) <>
    read_ctrl_delayed n interp delay h 0%R (step1 n u (mj_init n 1 h 0%R)).
Proof.
  exists 2, 1, 1%R, (3/2)%R, 1%R. rewrite make_side, mj_side. lra.
Qed.

Theorem zero_buffer_abs_differs n dim (h u : R) : 1 <= n -> (0 < h)%R ->
  abs n (@zero_buf R _ n dim) <> abs n (mj_init n dim h u) /\ (1 < n -> cursor (@zero_buf R _ n dim) <> cursor (mj_init n dim h u)).
Proof.
  intros Hn Hh. split; [|simpl; lia]. intros E.
  assert (E0 : stime (abs n (@zero_buf R _ n dim)) 0 = stime (abs n (mj_init n dim h u)) 0) by now rewrite E.
  rewrite !stime_abs in E0 by lia. rewrite ltime_mj_init in E0 by lia.
  unfold ltime, zero_buf in E0. simpl in E0.
  pose proof (phys_range 0 n 0 ltac:(lia) ltac:(lia) ltac:(lia)).
  rewrite znth_map_zseq in E0 by lia.
  assert (1 <= IZR (n - 0))%R by (apply IZR_le; lia).
  change (@s0 R ScalarR) with 0%R in E0. nra.
Qed.

(* ============================== part 7 ============================== *)

Section Delay.
Variable n : Z.
Variable h : R.
Variable u : Z -> R.          (* u j = the control set during step j (time j*h) *)
Hypothesis Hn : 1 <= n.
Hypothesis Hh : (eps < h)%R.

Definition val (j : Z) : list R := if j <? 0 then [0%R] else [u j].

(* history after m steps of forward._advance from MuJoCo's initial buffer *)
Fixpoint hist (m : nat) : bufR :=
  match m with
  | O => mj_init n 1 h 0%R
  | Datatypes.S m' => insert_ctrl n (IZR (Z.of_nat m') * h)%R (u (Z.of_nat m')) (hist m')
  end.

Lemma izr_mul_lt a b : (IZR a * h < IZR b * h)%R -> a < b.
Proof.
  pose proof eps_pos. intros Hlt. destruct (Z_lt_le_dec a b); auto.
  apply IZR_le in l. nra.
Qed.
Lemma izr_mul_le a b : (IZR a * h <= IZR b * h)%R -> a <= b.
Proof.
  pose proof eps_pos. intros Hle. destruct (Z_le_gt_dec a b); auto.
  assert (b < a) by lia. apply IZR_lt in H0. nra.
Qed.

Lemma hist_inv (m : nat) :
  wf n (hist m) /\
  forall l, 0 <= l < n ->
    lsample n (hist m) l = ((IZR (Z.of_nat m - n + l) * h)%R, val (Z.of_nat m - n + l)).
Proof.
  pose proof eps_pos as He.
  induction m as [|m (Hw & IH)].
  - split. apply mj_init_wf; auto. intros l Hl. unfold lsample. f_equal.
    + simpl hist. rewrite ltime_mj_init by lia.
      replace (Z.of_nat 0 - n + l) with (- (n - l)) by lia. rewrite opp_IZR. lra.
    + simpl hist. unfold lrow, mj_init. simpl. rewrite phys_init by lia.
      rewrite znth_map_zseq by lia. unfold val. replace (_ <? 0) with true by lia. reflexivity.
  - simpl hist. unfold insert_ctrl. replace (n =? 0) with false by lia.
    set (t := (IZR (Z.of_nat m) * h)%R). set (b := hist m) in *.
    pose proof (insert_lsample n b t [u (Z.of_nat m)] Hw) as (Hw' & _ & HL).
    split; auto. intros l Hl. rewrite HL by auto. unfold ins_sample.
    pose proof (find_index_spec n b t Hn) as (Hi & _ & Hhi).
    assert (Ei : find_index n b t = n).
    { destruct (Z.eq_dec (find_index n b t) n); auto. specialize (Hhi ltac:(lia)).
      set (i := find_index n b t) in *.
      assert (Hl' : ltime n b i = fst (lsample n b i)) by reflexivity.
      rewrite IH in Hl' by lia. simpl in Hl'. rewrite Hl' in Hhi. unfold t in Hhi.
      apply izr_mul_le in Hhi. lia. }
    rewrite Ei. replace (n <? n) with false by lia. simpl andb. cbv iota.
    replace (n =? 0) with false by lia.
    destruct (Z.ltb_spec (l + 1) n).
    + rewrite IH by lia. replace (Z.of_nat (Datatypes.S m) - n + l) with (Z.of_nat m - n + (l + 1)) by lia. reflexivity.
    + replace (l + 1 =? n) with true by lia. unfold t, val.
      replace (Z.of_nat (Datatypes.S m) - n + l) with (Z.of_nat m) by lia.
      replace (Z.of_nat m <? 0) with false by lia. reflexivity.
Qed.

Theorem delay_exact (m : nat) (k interp : Z) : 1 <= k <= n ->
  read n 1 (hist m) (IZR (Z.of_nat m) * h - IZR k * h)%R interp = val (Z.of_nat m - k).
Proof.
  intros Hk. pose proof eps_pos as He. destruct (hist_inv m) as (Hw & IH).
  set (b := hist m) in *. set (M := Z.of_nat m) in *.
  assert (HT : forall l, 0 <= l < n -> ltime n b l = (IZR (M - n + l) * h)%R).
  { intros l Hl. change (ltime n b l) with (fst (lsample n b l)). now rewrite IH. }
  assert (HR : forall l, 0 <= l < n -> lrow n b l = val (M - n + l)).
  { intros l Hl. change (lrow n b l) with (snd (lsample n b l)). now rewrite IH. }
  assert (Et : (IZR M * h - IZR k * h = IZR (M - k) * h)%R) by (rewrite minus_IZR; lra).
  rewrite Et. unfold read.
  destruct (sleb _ (sadd (ltime n b 0) eps)) eqn:E1.
  { cbn [sleb sadd ScalarR] in E1. apply Rleb_true in E1. rewrite HT in E1 by lia.
    rewrite HR by lia. f_equal.
    destruct (Z.eq_dec k n); [lia|exfalso].
    assert (1 <= IZR (M - k) - IZR (M - n + 0))%R.
    { rewrite <- minus_IZR. apply IZR_le. lia. }
    nra. }
  destruct (sgeb _ (ssub (ltime n b (n - 1)) eps)) eqn:E2.
  { unfold sgeb in E2. cbn [sleb ssub ScalarR] in E2. apply Rleb_true in E2. rewrite HT in E2 by lia.
    rewrite HR by lia. f_equal.
    destruct (Z.eq_dec k 1); [lia|exfalso].
    assert (1 <= IZR (M - n + (n - 1)) - IZR (M - k))%R.
    { rewrite <- minus_IZR. apply IZR_le. lia. }
    nra. }
  pose proof (find_index_inside n b _ Hw E1 E2) as (Hi & Hlo & Hhi).
  set (i := find_index n b (IZR (M - k) * h)%R) in *.
  rewrite HT in Hlo, Hhi by lia.
  apply izr_mul_lt in Hlo. apply izr_mul_le in Hhi.
  assert (Ei : M - n + i = M - k) by lia.
  rewrite HT by lia. rewrite Ei.
  replace (near (IZR (M - k) * h)%R (IZR (M - k) * h)%R) with true.
  2:{ symmetry. apply near_true. replace (_ - _)%R with 0%R by lra. rewrite Rabs_R0. exact He. }
  rewrite HR by lia. now rewrite Ei.
Qed.

(* the control force input computed by fwd_actuation at step m for delay = k steps *)
Corollary ctrl_delay_exact (m : nat) (k interp : Z) (ctrl : R) : 1 <= k <= n ->
  read_ctrl_delayed n interp (IZR k * h)%R (IZR (Z.of_nat m) * h)%R ctrl (hist m) =
    if Z.of_nat m - k <? 0 then 0%R else u (Z.of_nat m - k).
Proof.
  intros Hk. pose proof eps_pos as He. unfold read_ctrl_delayed.
  replace (n =? 0) with false by lia.
  assert (Hd : seqb (IZR k * h)%R s0 = false).
  { cbn [seqb ScalarR]. apply Reqb_false. unfold s0. cbn [sofZ ScalarR].
    assert (1 <= IZR k)%R by (apply IZR_le; lia). nra. }
  rewrite Hd. simpl orb. cbv iota. cbn [ssub ScalarR].
  rewrite delay_exact by auto. unfold val. destruct (_ <? 0); reflexivity.
Qed.
End Delay.

(* ============================== part 8: summary statements ============================== *)
Theorem phys_bijection c n : 0 < n -> 0 <= c < n ->
  (forall l, 0 <= l < n -> 0 <= phys c n l < n) /\
  (forall l l', 0 <= l < n -> 0 <= l' < n -> phys c n l = phys c n l' -> l = l') /\
  (forall p, 0 <= p < n -> exists l, 0 <= l < n /\ phys c n l = p).
Proof.
  intros Hn Hc. split; [|split].
  - intros l Hl. apply phys_range; lia.
  - intros l l' Hl Hl'. apply phys_inj; lia.
  - intros p Hp. apply phys_surj; lia.
Qed.

Theorem phys_newest c n : 0 < n -> 0 <= c < n -> phys c n (n - 1) = c.
Proof.
  intros. rewrite phys_mod by lia. replace (c + 1 + (n - 1)) with (c + 1 * n) by lia.
  rewrite Z_mod_plus_full. apply Z.mod_small. lia.
Qed.

(* flat layout: where the code's index expressions land in the record *)
Lemma nth_concat_uniform {A} (rows : list (list A)) (dim p d : nat) (dflt0 : A) :
  Forall (fun r => length r = dim) rows -> (d < dim)%nat -> (p < length rows)%nat ->
  nth (p * dim + d) (concat rows) dflt0 = nth d (nth p rows []) dflt0.
Proof.
  intros HF Hd. revert p. induction HF as [|r rs Hr HF IH]; intros p Hp; simpl in Hp. lia.
  destruct p as [|p]; simpl.
  - rewrite app_nth1 by lia. reflexivity.
  - rewrite app_nth2 by lia. rewrite Hr.
    replace (dim + p * dim + d - dim)%nat with (p * dim + d)%nat by lia. apply IH. lia.
Qed.

Theorem encode_layout n dim (b : bufR) : wf n b -> 0 <= dim ->
  Forall (fun r => length r = Z.to_nat dim) (rows b) ->
  znth (encode b) 0 0%R = user b /\ znth (encode b) 1 0%R = IZR (cursor b) /\
  (forall p, 0 <= p < n -> znth (encode b) (2 + p) 0%R = znth (times b) p 0%R) /\
  (forall p d, 0 <= p < n -> 0 <= d < dim ->
     znth (encode b) (2 + n + p * dim + d) 0%R = comp (znth (rows b) p []) (Z.to_nat d)).
Proof.
  intros (Hn & Hc & Ht & Hr) Hdim HF. unfold encode, znth. split; [reflexivity|]. split; [reflexivity|]. split.
  - intros p Hp. replace (Z.to_nat (2 + p)) with (Datatypes.S (Datatypes.S (Z.to_nat p))) by lia.
    simpl. rewrite app_nth1 by lia. reflexivity.
  - intros p d Hp Hd.
    replace (Z.to_nat (2 + n + p * dim + d))
      with (Datatypes.S (Datatypes.S (length (times b) + (Z.to_nat p * Z.to_nat dim + Z.to_nat d))))%nat by nia.
    simpl. rewrite app_nth2 by lia.
    replace (length (times b) + (Z.to_nat p * Z.to_nat dim + Z.to_nat d) - length (times b))%nat
      with (Z.to_nat p * Z.to_nat dim + Z.to_nat d)%nat by lia.
    rewrite nth_concat_uniform; auto; try lia.
Qed.

(* every reachable buffer keeps rows of dim values *)
Lemma rows_dim_insert n dim (b : bufR) t v : wf n b ->
  Forall (fun r => length r = dim) (rows b) -> length v = dim ->
  Forall (fun r => length r = dim) (rows (insert n b t v)).
Proof.
  intros Hw HF Hv. pose proof Hw as (Hn & Hc & Ht & Hr).
  pose proof (insert_lsample n b t v Hw) as (Hw' & _ & HL).
  destruct Hw' as (_ & Hc' & _ & Hr').
  apply Forall_forall. intros r Hin. apply In_nth with (d := []) in Hin. destruct Hin as (k & Hk & <-).
  destruct (phys_surj (cursor (insert n b t v)) n (Z.of_nat k)) as (l & Hl & Hp); try lia.
  assert (E : nth k (rows (insert n b t v)) [] = snd (lsample n (insert n b t v) l)).
  { unfold lsample, lrow, znth. simpl. rewrite Hp, Nat2Z.id. reflexivity. }
  rewrite E, HL by auto. unfold ins_sample.
  assert (HR : forall j, 0 <= j < n -> length (lrow n b j) = dim).
  { intros j Hj. unfold lrow, znth.
    pose proof (phys_range (cursor b) n j ltac:(lia) ltac:(lia) ltac:(lia)).
    rewrite Forall_forall in HF. apply HF. apply nth_In. lia. }
  pose proof (find_index_spec n b t Hn) as (Hi & _ & _).
  set (i := find_index n b t) in *. unfold lsample.
  destruct ((i <? n) && near t (ltime n b i)).
  { destruct (l =? i); cbn [snd]; auto. }
  destruct (i =? 0).
  { destruct (l =? 0); cbn [snd]; auto. }
  destruct (Z.ltb_spec (l + 1) i). cbn [snd]. apply HR; lia.
  destruct (l + 1 =? i); cbn [snd]; auto.
Qed.

(* ---- hypotheses of the C30 theorems are satisfiable ---- *)
Lemma hyp_example_sorted : wf 3 (mj_init 3 2 (1/100)%R 0%R) /\ sorted 3 (mj_init 3 2 (1/100)%R 0%R).
Proof. split. apply mj_init_wf; lia. apply ssorted_sorted, mj_init_ssorted; [lia|lra]. Qed.

Lemma hyp_example_span :
  (ltime 3 (mj_init 3 2 1%R 0%R) 0 + eps < -3/2)%R /\ (-3/2 < ltime 3 (mj_init 3 2 1%R 0%R) (3 - 1) - eps)%R.
Proof.
  rewrite !ltime_mj_init by lia. simpl (3 - 0). simpl (3 - (3 - 1)).
  unfold eps, slit; cbn [sdiv sofZ ScalarR]. split; lra.
Qed.

Lemma hyp_example_step : (@eps R _ < 1/1000)%R.
Proof. unfold eps, slit; cbn [sdiv sofZ ScalarR]. lra. Qed.

(* ---- T tie: the model's find_index is the translated _history_find_index on the encoded buffer ---- *)
Lemma mid_between lo hi : hi - lo > 1 -> lo < (lo + hi) / 2 < hi.
Proof. intros. pose proof (Z.div_mod (lo + hi) 2). pose proof (Z.mod_pos_bound (lo + hi) 2). lia. Qed.

Lemma shiftr1 x : Z.shiftr x 1 = x / 2.
Proof. rewrite Z.shiftr_div_pow2 by lia. reflexivity. Qed.

Lemma bsearch_fuel_indep (tm : Z -> R) t : forall f1 f2 lo hi,
  hi - lo <= Z.of_nat f1 -> hi - lo <= Z.of_nat f2 -> bsearch f1 tm t lo hi = bsearch f2 tm t lo hi.
Proof.
  induction f1 as [|f1 IH]; intros f2 lo hi H1 H2.
  - destruct f2; simpl; auto. replace (hi - lo >? 1) with false by lia. reflexivity.
  - destruct f2; simpl.
    + replace (hi - lo >? 1) with false by lia. reflexivity.
    + destruct (hi - lo >? 1) eqn:E; auto. rewrite shiftr1.
      pose proof (mid_between lo hi ltac:(lia)).
      destruct (Rltb (tm ((lo + hi) / 2)) t); apply IH; lia.
Qed.

Lemma bsearch_ext (tm1 tm2 : Z -> R) t : forall fuel lo hi,
  (forall m, lo < m < hi -> tm1 m = tm2 m) -> bsearch fuel tm1 t lo hi = bsearch fuel tm2 t lo hi.
Proof.
  induction fuel as [|f IH]; intros lo hi He; simpl; auto.
  destruct (hi - lo >? 1) eqn:E; auto. rewrite shiftr1.
  pose proof (mid_between lo hi ltac:(lia)). rewrite He by lia.
  destruct (Rltb (tm2 ((lo + hi) / 2)) t); apply IH; intros; apply He; lia.
Qed.

Lemma while_is_bsearch (tm : Z -> R) t : forall fuel lo hi,
  snd (while_fuel fuel
         (fun acc : Z * Z => Z.gtb (Z.sub (snd acc) (fst acc)) 1)
         (fun acc : Z * Z =>
            let lo := fst acc in let hi := snd acc in
            let mid := Z.shiftr (Z.add lo hi) 1 in
            let p := if sltb (tm mid) t then (mid, hi) else (lo, mid) in
            (fst p, snd p)) (lo, hi)) = bsearch fuel tm t lo hi.
Proof.
  induction fuel as [|f IH]; intros lo hi; simpl; auto.
  destruct (hi - lo >? 1) eqn:E; auto.
  destruct (Rltb (tm (Z.shiftr (lo + hi) 1)) t); simpl; apply IH.
Qed.

Definition arr_of (b : bufR) (off : Z) : Z -> Z -> R := fun _ j => znth (encode b) (j - off) 0%R.

Lemma arr_time n (b : bufR) off w p : wf n b -> 0 <= p < n -> arr_of b off w (off + 2 + p) = znth (times b) p 0%R.
Proof.
  intros (Hn & Hc & Ht & Hr) Hp. unfold arr_of, encode, znth.
  replace (Z.to_nat (off + 2 + p - off)) with (Datatypes.S (Datatypes.S (Z.to_nat p))) by lia.
  simpl. rewrite app_nth1 by lia. reflexivity.
Qed.

Theorem find_index_translated n (b : bufR) off w t : wf n b -> n <= 100000 ->
  _history_find_index (arr_of b off) w off n (cursor b) t = find_index n b t.
Proof.
  intros Hw Hn. pose proof Hw as (Hn1 & Hc & _).
  assert (HT : forall l, 0 <= l < n ->
    arr_of b off w (off + 2 + _history_physical_index (cursor b) n l) = ltime n b l).
  { intros l Hl. pose proof (phys_range (cursor b) n l ltac:(lia) ltac:(lia) ltac:(lia)) as Hp.
    unfold phys in Hp. rewrite (arr_time n) by auto. reflexivity. }
  unfold _history_find_index, find_index. cbv zeta.
  rewrite (HT 0), (HT (n - 1)) by lia.
  destruct (sleb t (ltime n b 0)); auto.
  destruct (sgtb t (ltime n b (n - 1))); auto.
  etransitivity.
  - apply (while_is_bsearch (fun m => arr_of b off w (off + 2 + _history_physical_index (cursor b) n m)) t).
  - rewrite (bsearch_fuel_indep _ t WHILE_FUEL (Z.to_nat n)); [|unfold WHILE_FUEL; lia|lia].
    apply bsearch_ext. intros m Hm. apply HT. lia.
Qed.

(* ---- make_data / reset_data (after the repair of F5) ---- *)
Lemma make_data_buf_initial n dim (h u : R) : make_data_buf n dim h u = mj_init n dim h u.
Proof. reflexivity. Qed.

Theorem make_data_sorted_invariant n dim (h u : R) ops : 1 <= n -> (0 < h)%R ->
  wf n (insert_all n (make_data_buf n dim h u) ops) /\ ssorted n (insert_all n (make_data_buf n dim h u) ops).
Proof. exact (sorted_invariant n dim h u ops). Qed.
