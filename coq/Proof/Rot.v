(* Proof/Rot.v -- algebra of the translated quaternion / rotation functions of
   math.py over the reals.  Every lemma is about the REGENERATED definitions of
   Gen/math.v, so it is re-checked against what /repo's math.py says now. *)
From Coq Require Import ZArith Reals List Bool Lra Lia Psatz.
From VF Require Import Base.Scalar Base.ScalarR Base.Vec Base.Loop Gen.math.
Import ListNotations.
Local Open Scope R_scope.

Ltac vsimp :=
  cbv [mul_quat quat_to_mat rot_vec_quat axis_angle_to_quat quat_inv quat_mul_axis
       vget vset vconst vadd vsub vscale vscaler vdivs vneg vdot vdot_acc vlen_sq vcross vmap2 map
       mat_vec mat_mat mtranspose mrow mcol mdet3 midentity flat_map seq firstn skipn app
       nth Z.to_nat Pos.to_nat Pos.iter_op Nat.add Nat.mul Nat.eqb
       Z.add Z.mul Pos.add Pos.mul Pos.succ] in *;
  sR.

Definition q4 (a b c d : R) : list R := [a; b; c; d].
Definition nrm2 (q : list R) : R := @vlen_sq R ScalarR q.

Lemma nrm2_q4 a b c d : nrm2 (q4 a b c d) = a*a + b*b + c*c + d*d.
Proof. unfold nrm2, q4. vsimp. ring. Qed.

Lemma nrm2_nonneg a b c d : 0 <= nrm2 (q4 a b c d).
Proof. rewrite nrm2_q4. nra. Qed.

(* --- wp.normalize on a quaternion is total and always returns a unit quaternion *)
Lemma qnormalize_unit a b c d : nrm2 (qnormalize (q4 a b c d)) = 1.
Proof.
  unfold qnormalize.
  set (l := vlen (q4 a b c d)).
  assert (Hl : l = sqrt (a*a+b*b+c*c+d*d)).
  { unfold l, vlen. fold (nrm2 (q4 a b c d)). rewrite nrm2_q4. reflexivity. }
  change (@sltb R ScalarR s0 l) with (Rltb (IZR 0) l).
  destruct (Rltb (IZR 0) l) eqn:E.
  - apply Rltb_true in E.
    unfold q4, nrm2. vsimp. fold l.
    assert (l * l = a*a+b*b+c*c+d*d).
    { rewrite Hl. apply sqrt_sqrt. nra. }
    field_simplify; [| lra]. 
    replace (a ^ 2 + b ^ 2 + c ^ 2 + d ^ 2) with (l * l) by (rewrite H; ring).
    field. lra.
  - unfold nrm2. vsimp. ring.
Qed.

(* shape: every function returning a quaternion returns a 4-list *)
Lemma mul_quat_shape (p q : list R) : exists a b c d, mul_quat p q = q4 a b c d.
Proof. unfold mul_quat. do 4 eexists. reflexivity. Qed.

Lemma mul_quat_norm a b c d e f g h :
  nrm2 (mul_quat (q4 a b c d) (q4 e f g h)) = nrm2 (q4 a b c d) * nrm2 (q4 e f g h).
Proof. unfold nrm2, q4. vsimp. ring. Qed.

(* --- quat_integrate always returns a unit quaternion, for every q, v, dt *)
Lemma quat_integrate_unit (q v : list R) (dt : R) : nrm2 (quat_integrate q v dt) = 1.
Proof.
  unfold quat_integrate.
  destruct (mul_quat_shape (qnormalize q) (axis_angle_to_quat (vnormalize v) (smul dt (vlen v))))
    as (a & b & c & d & E).
  cbv zeta. rewrite E. apply qnormalize_unit.
Qed.

(* and the value it returns is the normalised product  q/|q| * (cos, sin * v/|v|) *)
Lemma axis_angle_norm x y z t :
  nrm2 (axis_angle_to_quat [x; y; z] t) = (cos (t / 2))² + (sin (t / 2))² * (x*x + y*y + z*z).
Proof.
  unfold nrm2. vsimp. unfold Rsqr.
  try replace (t * (1 / 2)) with (t / 2) by field.
  ring.
Qed.

Lemma axis_angle_unit x y z t : x*x + y*y + z*z = 1 -> nrm2 (axis_angle_to_quat [x; y; z] t) = 1.
Proof.
  intros Hu. rewrite axis_angle_norm, Hu, Rmult_1_r, Rplus_comm. apply sin2_cos2.
Qed.

(* --- quat_to_mat of a unit quaternion is a proper rotation *)
Definition mat_eq (a b : list R) : Prop := a = b.
Definition I3 : list R := [1;0;0; 0;1;0; 0;0;1].

Lemma quat_to_mat_orthonormal a b c d :
  nrm2 (q4 a b c d) = 1 ->
  mat_mat 3 3 3 (mtranspose 3 3 (quat_to_mat (q4 a b c d))) (quat_to_mat (q4 a b c d)) = I3.
Proof.
  rewrite nrm2_q4. intros Hn. unfold q4, I3. vsimp.
  assert (K : forall x, x = x * 1) by (intros; ring).
  repeat (f_equal; try nra).
Qed.

Lemma quat_to_mat_det a b c d :
  nrm2 (q4 a b c d) = 1 -> mdet3 (quat_to_mat (q4 a b c d)) = 1.
Proof.
  rewrite nrm2_q4. intros Hn. unfold q4. vsimp.
  replace 1 with ((a*a+b*b+c*c+d*d)^3) by (rewrite Hn; ring). ring.
Qed.

(* polynomial identities that hold for every (also non-unit) quaternion *)
Lemma quat_to_mat_gram a b c d :
  mat_mat 3 3 3 (mtranspose 3 3 (quat_to_mat (q4 a b c d))) (quat_to_mat (q4 a b c d))
  = vscale ((a*a+b*b+c*c+d*d)*(a*a+b*b+c*c+d*d)) I3.
Proof. unfold q4, I3. vsimp. repeat (f_equal; try ring). Qed.

Lemma rot_mat_agree a b c d x y z :
  mat_vec 3 3 (quat_to_mat (q4 a b c d)) [x; y; z] = rot_vec_quat [x; y; z] (q4 a b c d).
Proof. unfold q4. vsimp. repeat (f_equal; try ring). Qed.

Lemma rot_compose a b c d e f g h x y z :
  rot_vec_quat [x;y;z] (mul_quat (q4 a b c d) (q4 e f g h))
  = rot_vec_quat (rot_vec_quat [x;y;z] (q4 e f g h)) (q4 a b c d).
Proof. unfold q4. vsimp. repeat (f_equal; try ring). Qed.

Lemma quat_to_mat_mul a b c d e f g h :
  quat_to_mat (mul_quat (q4 a b c d) (q4 e f g h))
  = mat_mat 3 3 3 (quat_to_mat (q4 a b c d)) (quat_to_mat (q4 e f g h)).
Proof. unfold q4. vsimp. repeat (f_equal; try ring). Qed.

Lemma rot_preserves_norm a b c d x y z :
  nrm2 (q4 a b c d) = 1 ->
  vlen_sq (rot_vec_quat [x;y;z] (q4 a b c d)) = vlen_sq [x;y;z].
Proof.
  rewrite nrm2_q4. intros Hn. unfold q4. vsimp.
  replace (x*x+y*y+z*z) with ((a*a+b*b+c*c+d*d)^2*(x*x+y*y+z*z)) by (rewrite Hn; ring). ring.
Qed.

Lemma quat_inv_is_inverse a b c d :
  mul_quat (q4 a b c d) (quat_inv (q4 a b c d)) = q4 (a*a+b*b+c*c+d*d) 0 0 0.
Proof. unfold q4. vsimp. repeat (f_equal; try ring). Qed.
