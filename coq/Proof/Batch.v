(* Proof/Batch.v -- the batch-indexing discipline implies world non-interference. *)
From Coq Require Import String List Bool Arith Lia Permutation.
From VF Require Import Model.Batch.
Import ListNotations.
Local Open Scope string_scope.

Lemma role_eqb_eq a b : role_eqb a b = true -> a = b.
Proof. destruct a, b; simpl; congruence. Qed.

Section Th.
  Variable V : Type.
  Variable size : string -> nat.
  Variable wild : list V -> nat.
  Variable role_of : string -> role.

  Notation exec := (exec V size wild).
  Notation agree := (agree_for V role_of).

  Definition ops_ok (ops : list (op V)) : bool :=
    forallb (fun o => op_ok V o && op_role_ok V role_of o) ops.

  Lemma upd_same h a i j x : upd V h a i j x a i j = x.
  Proof. unfold upd. rewrite String.eqb_refl, !Nat.eqb_refl. reflexivity. Qed.

  Lemma upd_other h a i j x a' i' j' :
    (a, i, j) <> (a', i', j') -> upd V h a i j x a' i' j' = h a' i' j'.
  Proof.
    intros Hne. unfold upd.
    destruct (String.eqb a a') eqn:Ea; simpl; auto.
    destruct (Nat.eqb i i') eqn:Ei; simpl; auto.
    destruct (Nat.eqb j j') eqn:Ej; simpl; auto.
    apply String.eqb_eq in Ea. apply Nat.eqb_eq in Ei. apply Nat.eqb_eq in Ej.
    subst. congruence.
  Qed.

  (* what a disciplined read of world w looks at is covered by [agree] *)
  Lemma read_covered w a r i seen :
    access_ok (mkA "" a r i ARead) = true -> role_eqb r (role_of a) = true ->
    role_of a = RWorld -> lead_of V size w wild i seen = w.
  Proof.
    intros Hok Hr Hw. apply role_eqb_eq in Hr. subst r. rewrite Hw in Hok.
    unfold access_ok in Hok; simpl in Hok. destruct i; try discriminate. reflexivity.
  Qed.

  (* 1. locality: the result visible to world w depends only on what world w may read *)
  Lemma exec_local w ops : ops_ok ops = true ->
    forall seen h h', agree w h h' -> agree w (exec w ops seen h) (exec w ops seen h').
  Proof.
    induction ops as [|o ops IH]; intros Hok seen h h' Hag; simpl; auto.
    simpl in Hok. apply andb_prop in Hok as [Ho Hrest]. apply andb_prop in Ho as [Ho Hr].
    destruct o as [a r i rest | a r i rest val]; simpl in *.
    - assert (E : h a (lead_of V size w wild i seen) (rest seen) = h' a (lead_of V size w wild i seen) (rest seen)).
      { apply Hag. intros Hw. eapply read_covered; eauto. }
      rewrite E. apply IH; auto.
    - apply IH; auto.
      intros a' i' j' Hc. unfold upd.
      destruct (String.eqb a a' && Nat.eqb (lead_of V size w wild i seen) i' && Nat.eqb (rest seen) j'); auto.
  Qed.

  (* 2. frame: a disciplined task of world w writes only row w of per-world arrays *)
  Lemma exec_frame w ops : ops_ok ops = true ->
    forall seen h a i j, (role_of a <> RWorld \/ i <> w) -> exec w ops seen h a i j = h a i j.
  Proof.
    induction ops as [|o ops IH]; intros Hok seen h a i j Hc; simpl; auto.
    simpl in Hok. apply andb_prop in Hok as [Ho Hrest]. apply andb_prop in Ho as [Ho Hr].
    destruct o as [a0 r i0 rest | a0 r i0 rest val]; simpl in *.
    - apply IH; auto.
    - rewrite IH; auto.
      apply andb_prop in Ho as [Ho Hw]. destruct r; try discriminate.
      apply role_eqb_eq in Hr.
      apply upd_other. intros E. inversion E; subst.
      destruct Hc as [Hc | Hc]; [congruence|].
      apply Hc. unfold access_ok in Ho; simpl in Ho. destruct i0; try discriminate. reflexivity.
  Qed.

  Definition tasks_ok (ts : list (task V)) : bool := forallb (fun t => ops_ok (snd t)) ts.
  Notation launch := (launch V size wild).

  Lemma agree_refl w h : agree w h h.
  Proof. intros a i j _. reflexivity. Qed.

  Lemma agree_trans w h1 h2 h3 : agree w h1 h2 -> agree w h2 h3 -> agree w h1 h3.
  Proof. intros A B a i j H. rewrite (A a i j H). apply B; auto. Qed.

  (* a task of ANOTHER world is invisible to world w *)
  Lemma other_world_invisible w w' ops h : ops_ok ops = true -> w' <> w ->
    agree w (exec w' ops nil h) h.
  Proof.
    intros Hok Hne a i j Hc.
    apply exec_frame; auto.
    destruct (role_of a) eqn:Er; try (left; congruence).
    right. rewrite (Hc eq_refl). auto.
  Qed.

  (* 3. non-interference: what world w sees after a launch over ALL worlds is what it sees
        after a launch of ITS OWN tasks only *)
  Theorem launch_noninterference w ts : tasks_ok ts = true ->
    forall h h', agree w h h' ->
      agree w (launch ts h) (launch (filter (fun t => Nat.eqb (fst t) w) ts) h').
  Proof.
    induction ts as [|t ts IH]; intros Hok h h' Hag; simpl; auto.
    simpl in Hok. apply andb_prop in Hok as [Ht Hts].
    destruct (Nat.eqb (fst t) w) eqn:E.
    - apply Nat.eqb_eq in E. simpl. apply IH; auto. rewrite E. apply exec_local; auto.
    - apply Nat.eqb_neq in E. apply IH; auto.
      eapply agree_trans; [apply other_world_invisible; auto | exact Hag].
  Qed.

  (* 4. any two schedules that keep the order of world w's own tasks agree for world w;
        in particular the other worlds' tasks can be permuted, added or removed freely *)
  Corollary schedule_other_worlds_irrelevant w ts1 ts2 h :
    tasks_ok ts1 = true -> tasks_ok ts2 = true ->
    filter (fun t => Nat.eqb (fst t) w) ts1 = filter (fun t => Nat.eqb (fst t) w) ts2 ->
    agree w (launch ts1 h) (launch ts2 h).
  Proof.
    intros H1 H2 E a i j Hc.
    rewrite (launch_noninterference w ts1 H1 h h (agree_refl w h) a i j Hc).
    rewrite (launch_noninterference w ts2 H2 h h (agree_refl w h) a i j Hc).
    rewrite E. reflexivity.
  Qed.
End Th.

(* 5. the modulo index of a batched field: total, and the three cases the API promises *)
Lemma mod_index_range w n : 0 < n -> Nat.modulo w n < n.
Proof. intros. apply Nat.mod_upper_bound. lia. Qed.
Lemma mod_index_unbatched w : Nat.modulo w 1 = 0.
Proof. apply Nat.mod_1_r. Qed.
Lemma mod_index_full w n : w < n -> Nat.modulo w n = w.
Proof. intros. apply Nat.mod_small. assumption. Qed.
Lemma mod_index_periodic w n k : 0 < n -> Nat.modulo (w + k * n) n = Nat.modulo w n.
Proof. intros. apply Nat.mod_add. lia. Qed.
