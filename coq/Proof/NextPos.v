(* Proof/NextPos.v -- the translated KERNEL forward._next_position (Gen/kforward.v): for a
   free or ball joint the four quaternion slots it writes form a unit quaternion, for every
   input (any old quaternion incl. zero / unnormalised, any velocity, any timestep). *)
From Coq Require Import ZArith Reals List Bool Lra Lia String.
From VF Require Import Base.Scalar Base.ScalarR Base.Vec Base.Loop Base.Kernel Gen.math Gen.kforward Proof.Rot.
Import ListNotations.
Local Open Scope R_scope.

(* last value stored at index [i] of array [a] by a write list *)
Fixpoint stored (ws : list (write R)) (a : string) (i : list Z) : option R :=
  match ws with
  | nil => None
  | w :: r =>
      match stored r a i with
      | Some x => Some x
      | None => if String.eqb (w_arr w) a && zs_eqb (w_idx w) i
                then match w_val w with VS x => Some x | _ => None end else None
      end
  end.

Lemma kf_quat_integrate_eq q v dt : Gen.kforward.quat_integrate q v dt = Gen.math.quat_integrate q v dt.
Proof. reflexivity. Qed.

Lemma quat_integrate_shape (q v : list R) (dt : R) :
  exists a b c d, Gen.math.quat_integrate q v dt = [a; b; c; d].
Proof.
  unfold Gen.math.quat_integrate, Gen.math.mul_quat. cbv zeta. unfold qnormalize.
  match goal with |- context [sltb s0 ?l] => destruct (sltb s0 l) end;
    do 4 eexists; simpl; reflexivity.
Qed.

Section NextPos.
  Variables (w j : Z) (opt_timestep : Z -> R) (jnt_type jnt_qposadr jnt_dofadr : Z -> Z)
            (qpos_in qvel_in : Z -> Z -> R) (scale : R) (qpos_out : Z -> Z -> R)
            (orc : nat -> Z) (nts : Z).

  Definition ws := k__next_position w j opt_timestep jnt_type jnt_qposadr jnt_dofadr qpos_in qvel_in scale qpos_out orc nts.
  Definition adr := jnt_qposadr j.

  Lemma zs_refl l : zs_eqb l l = true.
  Proof. induction l; simpl; auto. rewrite Z.eqb_refl. auto. Qed.

  Ltac zne := let H := fresh in apply Z.eqb_neq; intro H; lia.

  (* FREE joint (type 0): slots adr+3 .. adr+6 *)
  Theorem next_position_free_quat_unit :
    jnt_type j = 0%Z ->
    exists a b c d,
      stored ws "qpos_out" [w; (adr + 3)%Z] = Some a /\ stored ws "qpos_out" [w; (adr + 4)%Z] = Some b /\
      stored ws "qpos_out" [w; (adr + 5)%Z] = Some c /\ stored ws "qpos_out" [w; (adr + 6)%Z] = Some d /\
      nrm2 (q4 a b c d) = 1.
  Proof.
    intros Hj. unfold ws, k__next_position. cbv zeta. rewrite Hj. simpl Z.eqb. cbv iota.
    match goal with |- context [Gen.kforward.quat_integrate ?q ?v ?dt] =>
      destruct (quat_integrate_shape q v dt) as (a & b & c & d & E);
      pose proof (quat_integrate_unit q v dt) as Hu;
      change (Gen.kforward.quat_integrate q v dt) with (Gen.math.quat_integrate q v dt);
      rewrite E in *
    end.
    exists a, b, c, d.
    fold adr.
    repeat split; try exact Hu;
      simpl; rewrite ?Z.eqb_refl; simpl;
      repeat match goal with
             | |- context [Z.eqb ?x ?y] =>
                 first [ replace (Z.eqb x y) with true by (symmetry; apply Z.eqb_eq; lia)
                       | replace (Z.eqb x y) with false by (symmetry; apply Z.eqb_neq; lia) ]; simpl
             end; reflexivity.
  Qed.

  (* BALL joint (type 1): slots adr .. adr+3 *)
  Theorem next_position_ball_quat_unit :
    jnt_type j = 1%Z ->
    exists a b c d,
      stored ws "qpos_out" [w; (adr + 0)%Z] = Some a /\ stored ws "qpos_out" [w; (adr + 1)%Z] = Some b /\
      stored ws "qpos_out" [w; (adr + 2)%Z] = Some c /\ stored ws "qpos_out" [w; (adr + 3)%Z] = Some d /\
      nrm2 (q4 a b c d) = 1.
  Proof.
    intros Hj. unfold ws, k__next_position. cbv zeta. rewrite Hj. simpl Z.eqb. cbv iota.
    match goal with |- context [Gen.kforward.quat_integrate ?q ?v ?dt] =>
      destruct (quat_integrate_shape q v dt) as (a & b & c & d & E);
      pose proof (quat_integrate_unit q v dt) as Hu;
      change (Gen.kforward.quat_integrate q v dt) with (Gen.math.quat_integrate q v dt);
      rewrite E in *
    end.
    exists a, b, c, d.
    fold adr.
    repeat split; try exact Hu;
      simpl; rewrite ?Z.eqb_refl; simpl;
      repeat match goal with
             | |- context [Z.eqb ?x ?y] =>
                 first [ replace (Z.eqb x y) with true by (symmetry; apply Z.eqb_eq; lia)
                       | replace (Z.eqb x y) with false by (symmetry; apply Z.eqb_neq; lia) ]; simpl
             end; reflexivity.
  Qed.
End NextPos.
