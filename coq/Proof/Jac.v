(* Proof/Jac.v -- C22 "Jacobians are consistent with positions and velocities": lemmas.

   Over R (Base/ScalarR.v).  Contents, in order:
     CSR rows            dense_sparse_row_equal, compress_dot, and the translated kernels
                         forward._actuator_velocity / _tendon_velocity (Gen/kforward.v):
                         the value they store is the CSR row dotted with qvel = the dense row it denotes
     merge loop          merge_dense_is_csr_dot (dense branch of the tendon row builders)
     body_isdofancestor  isdofancestor_spec / isdofancestor_marks_path: the io.py loop marks exactly
                         the dofs of the bodies on the path to the root (induction on the parent chain)
     jac_dof             jac_dof_column (what the translated support.jac_dof computes per dof),
                         jac_dof_sum (bilinearity of the cross product over the dof sum)
     cvel                comvel_chain_is_masked_sum (the recursion of smooth._comvel_branch)
     jac_dof_is_velocity_map   the three above combined, with the computed mask
     efc rows            friction_dof / limit_slide_hinge / equality_joint: vel = J . qvel
     wf_treeb_sound      the decidable well-formedness check implies the hypotheses; Module Ex
                         instantiates every hypothesis on a concrete tree
     jac_kernel_writes   the kernel launched by support.jac (Gen/kjac.v) stores jac_dof's columns *)
From Coq Require Import String ZArith Reals List Bool Lra Lia.
From VF Require Import Base.Scalar Base.ScalarR Base.Vec Base.Loop Base.Kernel Model.Jac Gen.kforward Gen.T_support Gen.kjac.
Import ListNotations.
Local Open Scope R_scope.

Ltac sCg := cbn [sadd ssub smul sdiv sneg sofZ sltb sleb seqb slit s0 s1 sneb smin smax sgtb ScalarR].
Ltac sC := cbn [sadd ssub smul sdiv sneg sofZ sltb sleb seqb slit s0 s1 sneb smin smax sgtb ScalarR] in *.

(* ------------------------------------------------------------------ generic *)
Lemma for_nat_ext {A} (f g : Z -> A -> A) n : forall i acc,
  (forall k a, (i <= k < i + Z.of_nat n)%Z -> f k a = g k a) -> for_nat n i acc f = for_nat n i acc g.
Proof.
  induction n; intros i acc E; simpl; auto.
  rewrite E by lia. apply IHn. intros; apply E; lia.
Qed.

Lemma for_nat_snoc {A} (f : Z -> A -> A) n : forall i acc,
  for_nat (S n) i acc f = f (i + Z.of_nat n)%Z (for_nat n i acc f).
Proof.
  induction n; intros i acc.
  - simpl. now rewrite Z.add_0_r.
  - change (for_nat (S (S n)) i acc f) with (for_nat (S n) (i + 1) (f i acc) f).
    rewrite IHn. simpl for_nat at 2. f_equal. lia.
Qed.

Lemma for_nat_seq {A} (f : Z -> A -> A) n : forall i acc,
  for_nat n i acc f = fold_left (fun a k => f (i + Z.of_nat k)%Z a) (seq 0 n) acc.
Proof.
  induction n; intros i acc; auto.
  rewrite for_nat_snoc, IHn, seq_S, fold_left_app. reflexivity.
Qed.

Lemma fold_left_map {A B C} (f : A -> C -> A) (g : B -> C) l : forall a,
  fold_left f (map g l) a = fold_left (fun x b => f x (g b)) l a.
Proof. induction l; simpl; auto. Qed.

Lemma nth_aset_nat_same {A} (l : list A) k x d : (k < length l)%nat -> nth k (aset_nat l k x) d = x.
Proof. revert k; induction l; intros [|k] Hk; simpl in *; try lia; auto. apply IHl; lia. Qed.
Lemma nth_aset_nat_other {A} (l : list A) k j x d : k <> j -> nth j (aset_nat l k x) d = nth j l d.
Proof. revert k j; induction l; intros [|k] [|j] Hk; simpl in *; try lia; auto. Qed.
Lemma length_aset_nat {A} (l : list A) k x : length (aset_nat l k x) = length l.
Proof. revert k; induction l; intros [|k]; simpl; auto. Qed.
Lemma length_aset {A} (l : list A) i x : length (aset l i x) = length l.
Proof. unfold aset. destruct (i <? 0)%Z; auto using length_aset_nat. Qed.

(* ================================================================== CSR rows *)
Lemma entries_dot_acc (es : list (Z * R)) q a :
  fold_left (fun acc e => acc + snd e * q (fst e)) es a = a + entries_dot es q.
Proof.
  unfold entries_dot. sC. revert a. induction es as [|e es IH]; intros a; simpl.
  - lra.
  - rewrite IH. rewrite (IH (0 + _)). lra.
Qed.
Lemma entries_dot_cons e (es : list (Z * R)) q :
  entries_dot (e :: es) q = snd e * q (fst e) + entries_dot es q.
Proof. unfold entries_dot at 1. sC. simpl. rewrite entries_dot_acc. lra. Qed.
Lemma entries_dot_nil (q : Z -> R) : entries_dot [] q = 0.
Proof. reflexivity. Qed.

(* the loop of _actuator_velocity is the sum over the entries of the row *)
Lemma csr_dot_entries adr nnz col (vals q : Z -> R) :
  csr_dot adr nnz col vals q = entries_dot (csr_entries adr nnz col vals) q.
Proof.
  unfold csr_dot, csr_entries, entries_dot, for_range.
  rewrite Z.sub_0_r, for_nat_seq, fold_left_map. simpl. reflexivity.
Qed.

Lemma ddot_aset_nat (row : list R) q : forall k off x, (k < length row)%nat ->
  ddot off (aset_nat row k x) q = ddot off row q + (x - nth k row 0) * q (off + Z.of_nat k)%Z.
Proof.
  induction row as [|a r IH]; intros [|k] off x Hk; simpl in *; try lia; sC.
  - rewrite Z.add_0_r. lra.
  - rewrite IH by lia. replace (off + 1 + Z.of_nat k)%Z with (off + Z.pos (Pos.of_succ_nat k))%Z by lia. lra.
Qed.

Lemma ddot_zero n (q : Z -> R) : forall off, ddot off (repeat 0 n) q = 0.
Proof. induction n; intros; simpl; sC; auto. rewrite IHn. lra. Qed.

Lemma ddot_snoc (row : list R) q x : forall off,
  ddot off (row ++ [x]) q = ddot off row q + x * q (off + Z.of_nat (length row))%Z.
Proof.
  induction row as [|a r IH]; intros off; simpl; sC.
  - rewrite Z.add_0_r. lra.
  - rewrite IH. replace (off + 1 + Z.of_nat (length r))%Z with (off + Z.pos (Pos.of_succ_nat (length r)))%Z by lia. lra.
Qed.

Lemma scatter_add_dot (row : list R) q c v : (0 <= c < Z.of_nat (length row))%Z ->
  dense_dot (scatter_add row (c, v)) q = dense_dot row q + v * q c.
Proof.
  intros Hc. unfold dense_dot, scatter_add, aset. simpl fst; simpl snd.
  replace (c <? 0)%Z with false by (symmetry; apply Z.ltb_ge; lia).
  rewrite ddot_aset_nat by lia. sC. rewrite Z.add_0_l, Z2Nat.id by lia. lra.
Qed.

Lemma scatter_fold_dot q : forall (es : list (Z * R)) (row : list R),
  (forall e, In e es -> (0 <= fst e < Z.of_nat (length row))%Z) ->
  dense_dot (fold_left scatter_add es row) q = dense_dot row q + entries_dot es q.
Proof.
  induction es as [|[c v] es IH]; intros row Hin; simpl.
  - rewrite entries_dot_nil. lra.
  - rewrite IH.
    + rewrite scatter_add_dot, entries_dot_cons. simpl. lra. apply (Hin (c, v)). now left.
    + intros e He. unfold scatter_add. rewrite length_aset. apply Hin. now right.
Qed.

(* THEOREM dense_sparse_row_equal (lists): the dense row denoted by CSR entries with columns in
   [0, nv) is the same linear functional as the entries *)
Theorem scatter_dot nv (es : list (Z * R)) q :
  (forall e, In e es -> (0 <= fst e < Z.of_nat nv)%Z) ->
  dense_dot (scatter nv es) q = entries_dot es q.
Proof.
  intros Hin. unfold scatter. rewrite scatter_fold_dot.
  - unfold dense_dot. change (sofZ 0) with 0. rewrite ddot_zero. lra.
  - intros e He. rewrite repeat_length. auto.
Qed.

Theorem dense_sparse_row_equal nv adr nnz col (vals q : Z -> R) :
  (forall k, (0 <= k < nnz)%Z -> (0 <= col (adr + k)%Z < Z.of_nat nv)%Z) ->
  dense_dot (scatter nv (csr_entries adr nnz col vals)) q = csr_dot adr nnz col vals q.
Proof.
  intros Hc. rewrite csr_dot_entries. apply scatter_dot.
  intros e He. unfold csr_entries in He. apply in_map_iff in He. destruct He as (k & <- & Hk).
  apply in_seq in Hk. simpl. apply Hc. lia.
Qed.

(* converse direction: compressing a dense row to its non-zero entries keeps the functional *)
Lemma compress_dot_off (row : list R) q : forall off,
  entries_dot (filter (fun e => sneb (snd e) (sofZ 0)) (combine (map (fun k => (off + Z.of_nat k)%Z) (seq 0 (length row))) row)) q
  = ddot off row q.
Proof.
  induction row as [|x r IH]; intros off; simpl.
  - reflexivity.
  - rewrite <- seq_shift, map_map.
    rewrite (map_ext (fun k => (off + Z.of_nat (S k))%Z) (fun k => (off + 1 + Z.of_nat k)%Z)) by (intros; lia).
    rewrite Z.add_0_r. specialize (IH (off + 1)%Z).
    unfold sneb at 1. sC. simpl snd at 1.
    destruct (Reqb x 0) eqn:E; simpl.
    + apply Reqb_true in E. subst. sC. rewrite IH. lra.
    + rewrite entries_dot_cons. simpl. sC. rewrite IH. lra.
Qed.
Theorem compress_dot (row : list R) q : entries_dot (compress row) q = dense_dot row q.
Proof.
  unfold compress, zseq, dense_dot. rewrite <- (compress_dot_off row q 0).
  repeat f_equal.
Qed.

(* ================================================================== translated kernels *)
(* last value stored at [idx] of array [a] by a task's write list *)
Fixpoint kstored (ws : list (write R)) (a : string) (i : list Z) : option R :=
  match ws with
  | nil => None
  | w :: r =>
      match kstored r a i with
      | Some x => Some x
      | None => if String.eqb (w_arr w) a && zs_eqb (w_idx w) i
                then match w_val w with VS x => Some x | _ => None end else None
      end
  end.

Lemma zs_eqb_refl l : zs_eqb l l = true.
Proof. induction l; simpl; auto. rewrite Z.eqb_refl. auto. Qed.

(* forward._actuator_velocity (Gen/kforward.v): the task (w, a) stores exactly one value, the
   dot product of CSR row a of actuator_moment with qvel *)
Theorem actuator_velocity_is_csr_dot
  (w a : Z) (qvel_in : Z -> Z -> R) (rownnz rowadr colind : Z -> Z -> Z) (moment out : Z -> Z -> R) (orc : nat -> Z) :
  k__actuator_velocity w a qvel_in rownnz rowadr colind moment out orc
  = [mkW "actuator_velocity_out" [w; a] KSet
         (VS (csr_dot (rowadr w a) (rownnz w a) (colind w) (moment w) (qvel_in w)))].
Proof. reflexivity. Qed.

Theorem actuator_velocity_is_J_qvel
  (w a : Z) (qvel_in : Z -> Z -> R) (rownnz rowadr colind : Z -> Z -> Z) (moment out : Z -> Z -> R) (orc : nat -> Z) (nv : nat) :
  (forall k, (0 <= k < rownnz w a)%Z -> (0 <= colind w (rowadr w a + k)%Z < Z.of_nat nv)%Z) ->
  kstored (k__actuator_velocity w a qvel_in rownnz rowadr colind moment out orc) "actuator_velocity_out" [w; a]
  = Some (dense_dot (scatter nv (csr_entries (rowadr w a) (rownnz w a) (colind w) (moment w))) (qvel_in w)).
Proof.
  intros Hc. rewrite actuator_velocity_is_csr_dot. simpl. rewrite !Z.eqb_refl. simpl.
  now rewrite dense_sparse_row_equal.
Qed.

(* forward._tendon_velocity skips zero entries (`if J != 0`): over R that changes nothing *)
Theorem tendon_velocity_is_csr_dot
  (w t : Z) (rownnz rowadr colind : Z -> Z) (qvel_in ten_J out : Z -> Z -> R) (orc : nat -> Z) :
  k__tendon_velocity w t rownnz rowadr colind qvel_in ten_J out orc
  = [mkW "ten_velocity_out" [w; t] KSet
         (VS (csr_dot (rowadr t) (rownnz t) colind (ten_J w) (qvel_in w)))].
Proof.
  unfold k__tendon_velocity, csr_dot. cbv zeta. simpl app. do 3 f_equal.
  unfold for_range. apply for_nat_ext. intros k acc _.
  unfold sneb. sC. destruct (Reqb (ten_J w (rowadr t + k)%Z) 0) eqn:E; simpl; auto.
  apply Reqb_true in E. rewrite E. lra.
Qed.

Theorem tendon_velocity_is_J_qvel
  (w t : Z) (rownnz rowadr colind : Z -> Z) (qvel_in ten_J out : Z -> Z -> R) (orc : nat -> Z) (nv : nat) :
  (forall k, (0 <= k < rownnz t)%Z -> (0 <= colind (rowadr t + k)%Z < Z.of_nat nv)%Z) ->
  kstored (k__tendon_velocity w t rownnz rowadr colind qvel_in ten_J out orc) "ten_velocity_out" [w; t]
  = Some (dense_dot (scatter nv (csr_entries (rowadr t) (rownnz t) colind (ten_J w))) (qvel_in w)).
Proof.
  intros Hc. rewrite tendon_velocity_is_csr_dot. simpl. rewrite !Z.eqb_refl. simpl.
  now rewrite dense_sparse_row_equal.
Qed.

(* ================================================================== the dense merge loop *)
Section Merge.
  Variables (adr nnz : Z) (col : Z -> Z) (vals q : Z -> R).
  Let step := merge_step adr nnz col vals q.
  Let run (n : nat) := for_nat n 0%Z (0%Z, col adr, @nil R, 0) step.

  (* unconditional: the velocity the loop accumulates is the dot product of the dense row it
     writes with qvel *)
  Lemma merge_inv_dense n :
    let '(_, _, row, jq) := run n in length row = n /\ jq = ddot 0 row q.
  Proof.
    induction n.
    - simpl. split; auto.
    - unfold run in *. rewrite for_nat_snoc, Z.add_0_l.
      destruct (for_nat n 0%Z (0%Z, col adr, [], 0) step) as [[[k c] row] jq].
      destruct IHn as [Hl Hj]. unfold step, merge_step.
      destruct ((k <? nnz)%Z && (Z.of_nat n =? c)%Z); sC;
        (split; [rewrite app_length; simpl; lia | rewrite ddot_snoc, Hl, <- Hj, Z.add_0_l; lra]).
  Qed.

  (* strictly increasing in-range columns (MuJoCo's CSR rows): every entry is consumed and the
     accumulated velocity is the CSR dot product *)
  Hypothesis Hnnz : (0 <= nnz)%Z.
  Variable nvz : Z.
  Hypothesis Hrange : forall k, (0 <= k < nnz)%Z -> (0 <= col (adr + k)%Z < nvz)%Z.
  Hypothesis Hinc : forall k, (0 <= k)%Z -> (k + 1 < nnz)%Z -> (col (adr + k)%Z < col (adr + (k + 1))%Z)%Z.

  Lemma merge_inv_sparse n :
    let '(k, c, _, jq) := run n in
    (0 <= k <= nnz)%Z /\ ((k < nnz)%Z -> c = col (adr + k)%Z /\ (Z.of_nat n <= c)%Z) /\
    jq = csr_dot adr k col vals q.
  Proof.
    induction n.
    - simpl. split; [lia | split]; auto.
      intros Hk. split. now rewrite Z.add_0_r.
      specialize (Hrange 0%Z). rewrite Z.add_0_r in Hrange. lia.
    - unfold run in *. rewrite for_nat_snoc, Z.add_0_l.
      destruct (for_nat n 0%Z (0%Z, col adr, [], 0) step) as [[[k c] row] jq].
      destruct IHn as (Hk & Hc & Hj). unfold step, merge_step.
      destruct (k <? nnz)%Z eqn:Ek; simpl andb.
      + apply Z.ltb_lt in Ek. destruct (Hc Ek) as [Hc1 Hc2].
        destruct (Z.of_nat n =? c)%Z eqn:Ec.
        * apply Z.eqb_eq in Ec. split; [lia | split].
          -- intros Hk1. replace (k + 1 <? nnz)%Z with true by (symmetry; apply Z.ltb_lt; lia).
             split; auto. specialize (Hinc k). lia.
          -- sC. unfold csr_dot, for_range in *. rewrite !Z.sub_0_r in *.
             replace (Z.to_nat (k + 1)) with (S (Z.to_nat k)) by lia.
             rewrite for_nat_snoc, <- Hj. sC. rewrite Z.add_0_l, Z2Nat.id by lia.
             rewrite <- Hc1, <- Ec. reflexivity.
        * apply Z.eqb_neq in Ec. split; [lia | split]; auto. intros _. split; auto. lia.
      + rewrite Z.ltb_ge in Ek. split; [lia | split]; auto. intros. lia.
  Qed.

  Theorem merge_dense_is_csr_dot :
    (0 <= nvz)%Z ->
    let '(row, jq) := merge_dense nvz adr nnz col vals q in
    length row = Z.to_nat nvz /\ jq = dense_dot row q /\ jq = csr_dot adr nnz col vals q.
  Proof.
    intros Hnv. unfold merge_dense, for_range. rewrite Z.sub_0_r. change (@sofZ R ScalarR 0%Z) with 0.
    pose proof (merge_inv_dense (Z.to_nat nvz)) as H1. pose proof (merge_inv_sparse (Z.to_nat nvz)) as H2.
    unfold run, step in *.
    destruct (for_nat (Z.to_nat nvz) 0%Z (0%Z, col adr, [], 0) (merge_step adr nnz col vals q)) as [[[k c] row] jq].
    destruct H1 as [Hl Hd]. destruct H2 as (Hk & Hc & Hj).
    repeat split; auto.
    assert (k = nnz) as ->; auto.
    destruct (Z.eq_dec k nnz); auto.
    assert (k < nnz)%Z as Hlt by lia. destruct (Hc Hlt) as [-> Hge].
    specialize (Hrange k). lia.
  Qed.
End Merge.

Local Open Scope Z_scope.
Lemma geb0_true d : 0 <= d -> (d >=? 0) = true.
Proof. intros. rewrite Z.geb_leb. apply Z.leb_le. lia. Qed.
Lemma geb0_false d : d < 0 -> (d >=? 0) = false.
Proof. intros. rewrite Z.geb_leb. apply Z.leb_gt. lia. Qed.

(* ================================================================== body_isdofancestor *)
Inductive anc_or_self (ps : list Z) : Z -> Z -> Prop :=
| aos_self b : anc_or_self ps b b
| aos_up a b : 0 < b -> anc_or_self ps a (zg ps b) -> anc_or_self ps a b.

Section IsDofAnc.
  Variables (ps dn da dp db : list Z).
  Notation nb := (Z.of_nat (length ps)).
  Notation nvv := (Z.of_nat (length dp)).

  (* the kinematic tree as laid out by MuJoCo's compiler *)
  Record wf_tree : Prop := {
    wf_parent : forall b, 0 < b < nb -> 0 <= zg ps b < b;
    wf_world : zg dn 0 = 0;
    wf_dn : forall b, 0 <= b < nb -> 0 <= zg dn b;
    wf_body : forall d, 0 <= d < nvv -> 0 <= zg db d < nb /\ zg da (zg db d) <= d < zg da (zg db d) + zg dn (zg db d);
    wf_range : forall b d, 0 <= b < nb -> zg da b <= d < zg da b + zg dn b -> 0 <= d < nvv /\ zg db d = b;
    wf_dp_lt : forall d, 0 <= d < nvv -> -1 <= zg dp d < d;
    wf_dp : forall d, 0 <= d < nvv ->
              zg dp d = if zg da (zg db d) <? d then d - 1
                        else last_dof_up ps dn da (length ps) (zg ps (zg db d));
  }.
  Hypothesis W : wf_tree.

  Notation U := (last_dof_up ps dn da).
  Notation C := (dof_chain dp).

  Lemma anc_le a b : 0 <= b < nb -> anc_or_self ps a b -> 0 <= a <= b.
  Proof.
    intros Hb Ha. induction Ha; try lia.
    assert (0 <= zg ps b < b) by (apply W; lia). lia.
  Qed.

  Lemma anc_inv a b : anc_or_self ps a b -> a = b \/ (0 < b /\ anc_or_self ps a (zg ps b)).
  Proof. intros Ha. inversion Ha; subst; auto. Qed.

  (* fuel: more than the index suffices *)
  Lemma U_fuel : forall f1 f2 b, 0 <= b < nb -> b < Z.of_nat f1 -> b < Z.of_nat f2 -> U f1 b = U f2 b.
  Proof.
    induction f1; intros f2 b Hb H1 H2; [lia|]. destruct f2; [lia|]. simpl.
    destruct (0 <? zg dn b); auto. destruct (b <=? 0) eqn:E; auto.
    apply Z.leb_gt in E. assert (0 <= zg ps b < b) by (apply W; lia). apply IHf1; lia.
  Qed.
  Lemma U_S f b : U (S f) b = if 0 <? zg dn b then zg da b + zg dn b - 1 else if b <=? 0 then -1 else U f (zg ps b).
  Proof. reflexivity. Qed.
  Lemma U_eq b : 0 <= b < nb ->
    U (length ps) b = if 0 <? zg dn b then zg da b + zg dn b - 1 else if b <=? 0 then -1 else U (length ps) (zg ps b).
  Proof.
    intros Hb. destruct (length ps) as [|n] eqn:En; [lia|].
    rewrite U_S. destruct (0 <? zg dn b); auto. destruct (b <=? 0) eqn:E; auto.
    apply Z.leb_gt in E. assert (0 <= zg ps b < b) by (apply W; lia).
    apply U_fuel; rewrite ?En in *; lia.
  Qed.

  (* the code's own starting point (climb, then test dofnum) is this spec function *)
  Lemma start_is_U_fuel : forall f b, 0 <= b < nb ->
    (let b' := climb ps dn f b in if zg dn b' =? 0 then -1 else zg da b' + zg dn b' - 1) = U f b.
  Proof.
    induction f; intros b Hb; pose proof (wf_dn W b Hb).
    - simpl. destruct (zg dn b =? 0) eqn:E.
      + apply Z.eqb_eq in E. rewrite E. reflexivity.
      + apply Z.eqb_neq in E. replace (0 <? zg dn b) with true by (symmetry; apply Z.ltb_lt; lia). reflexivity.
    - cbn [climb last_dof_up].
      destruct (b >? 0) eqn:Eb; simpl andb.
      + assert (0 < b) by lia. assert (0 <= zg ps b < b) by (apply W; lia).
        destruct (zg dn b =? 0) eqn:E.
        * apply Z.eqb_eq in E. rewrite E. simpl (0 <? 0). replace (b <=? 0) with false by (symmetry; apply Z.leb_gt; lia).
          apply IHf. lia.
        * apply Z.eqb_neq in E. cbv zeta. replace (zg dn b =? 0) with false by (symmetry; apply Z.eqb_neq; lia).
          replace (0 <? zg dn b) with true by (symmetry; apply Z.ltb_lt; lia). reflexivity.
      + assert (b = 0) by lia. subst b. cbv zeta. rewrite (wf_world W). reflexivity.
  Qed.

  Lemma C_neg f d : d < 0 -> C f d = [].
  Proof. intros. destruct f; simpl; auto. rewrite geb0_false; auto. Qed.
  Lemma C_S f d : C (S f) d = if d >=? 0 then d :: C f (zg dp d) else [].
  Proof. reflexivity. Qed.
  Lemma C_fuel : forall f1 f2 d, -1 <= d < nvv -> d < Z.of_nat f1 -> d < Z.of_nat f2 -> C f1 d = C f2 d.
  Proof.
    induction f1; intros f2 d Hd H1 H2.
    - rewrite !C_neg by lia. auto.
    - destruct (Z_lt_dec d 0). { rewrite !C_neg by lia. auto. }
      destruct f2; [lia|]. rewrite !C_S. destruct (d >=? 0); auto. f_equal.
      assert (-1 <= zg dp d < d) by (apply W; lia). apply IHf1; lia.
  Qed.
  Notation F := (S (length dp)).
  Lemma C_eq d : -1 <= d < nvv -> C F d = if d >=? 0 then d :: C F (zg dp d) else [].
  Proof.
    intros Hd. rewrite C_S. destruct (d >=? 0) eqn:E; auto. f_equal.
    assert (0 <= d) by lia.
    assert (-1 <= zg dp d < d) by (apply W; lia). apply C_fuel; lia.
  Qed.

  Lemma U_range : forall b, 0 <= b < nb -> -1 <= U (length ps) b < nvv.
  Proof.
    intros b. induction b using (well_founded_induction (Z.lt_wf 0)). intros Hb.
    rewrite U_eq by auto. destruct (0 <? zg dn b) eqn:E.
    - apply Z.ltb_lt in E. destruct (wf_range W b (zg da b + zg dn b - 1)) as [? _]; auto; lia.
    - destruct (b <=? 0) eqn:E2. { lia. }
      apply Z.leb_gt in E2. assert (0 <= zg ps b < b) by (apply W; lia). apply H; lia.
  Qed.

  Lemma chain_run b k : 0 < b < nb -> forall j : nat, Z.of_nat j < zg dn b ->
    (In k (C F (zg da b + Z.of_nat j)) <-> (zg da b <= k <= zg da b + Z.of_nat j) \/ In k (C F (U (length ps) (zg ps b)))).
  Proof.
    intros Hb. induction j; intros Hj.
    - destruct (wf_range W b (zg da b + Z.of_nat 0)) as [Hr Hd]; try lia.
      rewrite C_eq by lia. rewrite geb0_true by lia.
      rewrite (wf_dp W) by lia. rewrite Hd.
      replace (zg da b <? zg da b + Z.of_nat 0) with false by (symmetry; apply Z.ltb_ge; lia).
      simpl In. split; intros [?|?]; auto; left; lia.
    - destruct (wf_range W b (zg da b + Z.of_nat (S j))) as [Hr Hd]; try lia.
      rewrite C_eq by lia. rewrite geb0_true by lia.
      rewrite (wf_dp W) by lia. rewrite Hd.
      replace (zg da b <? zg da b + Z.of_nat (S j)) with true by (symmetry; apply Z.ltb_lt; lia).
      replace (zg da b + Z.of_nat (S j) - 1) with (zg da b + Z.of_nat j) by lia.
      simpl In. rewrite IHj by lia. split.
      + intros [?|[?|?]]; auto; left; lia.
      + intros [?|?]; auto. destruct (Z.eq_dec k (zg da b + Z.of_nat (S j))); auto. right; left; lia.
  Qed.

  (* no dof belongs to a body without dofs *)
  Lemma no_dof_of b k : 0 <= k < nvv -> zg dn b = 0 -> zg db k <> b.
  Proof. intros Hk Hn E. destruct (wf_body W k Hk) as [_ Hr]. rewrite E, Hn in Hr. lia. Qed.

  (* the dofs visited from the starting point of body b are exactly the dofs of the bodies on
     the path from b to the root *)
  Lemma chain_spec : forall b, 0 <= b < nb -> forall k,
    In k (C F (U (length ps) b)) <-> 0 <= k < nvv /\ anc_or_self ps (zg db k) b.
  Proof.
    intros b. induction b as [b IH] using (well_founded_induction (Z.lt_wf 0)). intros Hb k.
    rewrite U_eq by auto. destruct (0 <? zg dn b) eqn:E.
    - apply Z.ltb_lt in E.
      assert (0 < b) as Hb0. { destruct (Z.eq_dec b 0); [subst; rewrite (wf_world W) in E; lia | lia]. }
      assert (0 <= zg ps b < b) as Hp by (apply W; lia).
      replace (zg da b + zg dn b - 1) with (zg da b + Z.of_nat (Z.to_nat (zg dn b - 1))) by lia.
      rewrite chain_run by lia. rewrite IH by lia. split.
      + intros [Hr | [Hk Ha]].
        * destruct (wf_range W b k) as [Hk Hd]; try lia. split; auto. rewrite Hd. constructor.
        * split; auto. now apply aos_up.
      + intros [Hk Ha]. apply anc_inv in Ha. destruct Ha as [Ha | [_ Ha]]; auto.
        left. destruct (wf_body W k Hk) as [_ Hr]. rewrite Ha in Hr. lia.
    - apply Z.ltb_ge in E. assert (zg dn b = 0) as Hn by (pose proof (wf_dn W b Hb); lia).
      destruct (b <=? 0) eqn:E2.
      + apply Z.leb_le in E2. assert (b = 0) by lia. subst b. rewrite C_neg by lia. split; [easy|].
        intros [Hk Ha]. apply anc_inv in Ha. destruct Ha as [Ha | [? _]]; [|lia].
        exfalso. eapply no_dof_of; eauto.
      + apply Z.leb_gt in E2. assert (0 <= zg ps b < b) as Hp by (apply W; lia).
        rewrite IH by lia. split; intros [Hk Ha]; split; auto.
        * now apply aos_up.
        * apply anc_inv in Ha. destruct Ha as [Ha | [_ Ha]]; auto. exfalso. eapply no_dof_of; eauto.
  Qed.

  (* the marking loop sets exactly the visited entries *)
  Lemma mark_chain : forall f row d, mark dp f row d = fold_left (fun r k => aset r k 1) (C f d) row.
  Proof. induction f; intros; simpl; auto. destruct (d >=? 0); simpl; auto. Qed.

  Lemma zg_aset_same (row : list Z) k x : 0 <= k < Z.of_nat (length row) -> zg (aset row k x) k = x.
  Proof.
    intros Hk. unfold zg, aset. replace (k <? 0) with false by (symmetry; apply Z.ltb_ge; lia).
    apply nth_aset_nat_same. lia.
  Qed.
  Lemma zg_aset_other (row : list Z) k j x : 0 <= k -> 0 <= j -> k <> j -> zg (aset row k x) j = zg row j.
  Proof.
    intros Hk Hj Hne. unfold zg, aset. replace (k <? 0) with false by (symmetry; apply Z.ltb_ge; lia).
    apply nth_aset_nat_other. lia.
  Qed.

  Lemma fold_aset_spec : forall (l : list Z) (row : list Z) k,
    (forall x, In x l -> 0 <= x < Z.of_nat (length row)) -> 0 <= k ->
    zg (fold_left (fun r x => aset r x 1) l row) k = if existsb (Z.eqb k) l then 1 else zg row k.
  Proof.
    induction l as [|x l IH]; intros row k Hin Hk; simpl; auto.
    rewrite IH; auto.
    - destruct (existsb (Z.eqb k) l); [now rewrite orb_true_r|]. rewrite orb_false_r.
      destruct (Z.eqb_spec k x).
      + subst. apply zg_aset_same. apply Hin. now left.
      + apply zg_aset_other; auto. apply Hin. now left.
    - intros y Hy. rewrite length_aset. apply Hin. now right.
  Qed.

  Lemma zg_repeat0 n k : zg (repeat 0 n) k = 0.
  Proof. unfold zg. generalize (Z.to_nat k). induction n; intros [|j]; simpl; auto. Qed.

  Lemma row_is_fold nv_pad b : 0 <= b < nb ->
    isdofancestor_row ps dn da dp nv_pad b
    = fold_left (fun r x => aset r x 1) (C F (U (length ps) b)) (repeat 0 nv_pad).
  Proof.
    intros Hb. pose proof (start_is_U_fuel (length ps) b Hb) as HS. cbv zeta in HS.
    unfold isdofancestor_row.
    destruct (zg dn (climb ps dn (length ps) b) =? 0).
    - rewrite <- HS. rewrite C_neg by lia. reflexivity.
    - rewrite <- HS. apply mark_chain.
  Qed.

  (* THEOREM isdofancestor_spec *)
  Theorem isdofancestor_spec nv_pad b d :
    (length dp <= nv_pad)%nat -> 0 <= b < nb -> 0 <= d ->
    zg (isdofancestor_row ps dn da dp nv_pad b) d
    = if existsb (Z.eqb d) (C F (U (length ps) b)) then 1 else 0.
  Proof.
    intros Hpad Hb Hd. rewrite row_is_fold by auto. rewrite fold_aset_spec; auto.
    - now rewrite zg_repeat0.
    - intros x Hx. apply chain_spec in Hx; auto. rewrite repeat_length. lia.
  Qed.

  Theorem isdofancestor_marks_path nv_pad b d :
    (length dp <= nv_pad)%nat -> 0 <= b < nb -> 0 <= d < nvv ->
    (zg (isdofancestor_row ps dn da dp nv_pad b) d = 1 <-> anc_or_self ps (zg db d) b) /\
    (zg (isdofancestor_row ps dn da dp nv_pad b) d = 0 <-> ~ anc_or_self ps (zg db d) b).
  Proof.
    intros Hpad Hb Hd. rewrite isdofancestor_spec by (auto; lia).
    destruct (existsb (Z.eqb d) (C F (U (length ps) b))) eqn:E.
    - apply existsb_exists in E. destruct E as (x & Hx & Ex). apply Z.eqb_eq in Ex. subst x.
      apply chain_spec in Hx; auto. destruct Hx as [_ Ha]. split; split; auto; try lia. intros; contradiction.
    - assert (~ anc_or_self ps (zg db d) b) as Hn.
      { intros Ha. assert (In d (C F (U (length ps) b))) as Hi by (apply chain_spec; auto).
        assert (existsb (Z.eqb d) (C F (U (length ps) b)) = true) as E2.
        { apply existsb_exists. exists d. split; auto. apply Z.eqb_refl. }
        congruence. }
      split; split; auto; try lia. intros; contradiction.
  Qed.

  (* entries beyond nv (padding up to nv_pad) and all other entries are 0 *)
  Theorem isdofancestor_padding nv_pad b d :
    (length dp <= nv_pad)%nat -> 0 <= b < nb -> nvv <= d ->
    zg (isdofancestor_row ps dn da dp nv_pad b) d = 0.
  Proof.
    intros Hpad Hb Hd. rewrite isdofancestor_spec by (auto; lia).
    destruct (existsb (Z.eqb d) (C F (U (length ps) b))) eqn:E; auto.
    apply existsb_exists in E. destruct E as (x & Hx & Ex). apply Z.eqb_eq in Ex. subst x.
    apply chain_spec in Hx; auto. lia.
  Qed.
End IsDofAnc.

Local Close Scope Z_scope.

(* ================================================================== finite sums over R *)
Fixpoint zsum (lo : Z) (n : nat) (f : Z -> R) : R :=
  match n with O => 0 | S n' => f lo + zsum (lo + 1) n' f end.

Lemma zsum_ext n : forall lo f g, (forall d, (lo <= d < lo + Z.of_nat n)%Z -> f d = g d) -> zsum lo n f = zsum lo n g.
Proof. induction n; intros; simpl; auto. rewrite H by lia. f_equal. apply IHn. intros; apply H; lia. Qed.
Lemma zsum_app n m : forall lo f, zsum lo (n + m) f = zsum lo n f + zsum (lo + Z.of_nat n) m f.
Proof.
  induction n; intros.
  - simpl. rewrite Z.add_0_r. lra.
  - replace (lo + Z.of_nat (S n))%Z with (lo + 1 + Z.of_nat n)%Z by lia.
    change (zsum lo (S n + m) f) with (f lo + zsum (lo + 1) (n + m) f).
    change (zsum lo (S n) f) with (f lo + zsum (lo + 1) n f). rewrite IHn. lra.
Qed.
Lemma zsum_zero n : forall lo f, (forall d, (lo <= d < lo + Z.of_nat n)%Z -> f d = 0) -> zsum lo n f = 0.
Proof. induction n; intros; simpl; auto. rewrite H by lia. rewrite IHn. lra. intros; apply H; lia. Qed.
Lemma zsum_plus n : forall lo f g, zsum lo n (fun d => f d + g d) = zsum lo n f + zsum lo n g.
Proof. induction n; intros; simpl. lra. rewrite IHn. lra. Qed.
Lemma zsum_lin3 n c1 c2 : forall lo f g h e,
  (forall d, (lo <= d < lo + Z.of_nat n)%Z -> f d = g d + (h d * c1 - e d * c2)) ->
  zsum lo n f = zsum lo n g + (zsum lo n h * c1 - zsum lo n e * c2).
Proof.
  induction n; intros; simpl. lra. rewrite H by lia. rewrite (IHn (lo + 1)%Z f g h e). lra. intros; apply H; lia.
Qed.

(* sum over the indices selected by a predicate that holds exactly on [lo, lo+len) *)
Lemma zsum_indicator (n : nat) (sel : Z -> bool) (x : Z -> R) lo (len : nat) :
  (0 <= lo)%Z -> (lo + Z.of_nat len <= Z.of_nat n)%Z ->
  (forall d, (0 <= d < Z.of_nat n)%Z -> (sel d = true <-> (lo <= d < lo + Z.of_nat len)%Z)) ->
  zsum 0 n (fun d => (if sel d then 1 else 0) * x d) = zsum lo len x.
Proof.
  intros Hlo Hhi Hs.
  replace n with (Z.to_nat lo + (len + (n - Z.to_nat lo - len)))%nat by lia.
  rewrite !zsum_app. rewrite Z.add_0_l, Z2Nat.id by lia.
  rewrite (zsum_zero (Z.to_nat lo)), (zsum_zero (n - Z.to_nat lo - len)).
  - rewrite (zsum_ext len lo _ x). lra.
    intros d Hd. replace (sel d) with true. lra. symmetry. apply Hs; lia.
  - intros d Hd. destruct (sel d) eqn:E; [|lra]. apply Hs in E; lia.
  - intros d Hd. destruct (sel d) eqn:E; [|lra]. apply Hs in E; lia.
Qed.

(* ================================================================== lists of known length *)
Lemma len3 {A} (l : list A) : length l = 3%nat -> exists a b c, l = [a; b; c].
Proof. destruct l as [|a [|b [|c [|]]]]; simpl; try discriminate. eauto. Qed.
Lemma len6 {A} (l : list A) : length l = 6%nat -> exists a b c d e f, l = [a; b; c; d; e; f].
Proof. destruct l as [|a [|b [|c [|d [|e [|f [|]]]]]]]; simpl; try discriminate. intros; do 6 eexists; eauto. Qed.

Ltac vsimp := cbv [vget vadd vsub vcross vmap2 vconst repeat nth Z.to_nat Pos.to_nat Pos.iter_op Nat.add fst snd firstn skipn].

(* ================================================================== jac_dof *)
(* velocity of the point [p] of a body whose com-based spatial velocity is [cv] = (ang, lin at c) *)
Definition point_vel (cv p c : list R) : list R := vadd (skipn 3 cv) (vcross (firstn 3 cv) (vsub p c)).

Section JacDof.
  Variables (parentid rootid dof_bodyid : Z -> Z) (maskf : Z -> Z -> Z).
  Variables (com cdof : Z -> Z -> list R) (p : list R) (b w : Z) (q : Z -> R) (nvn : nat).
  Hypothesis Hcdof : forall d, length (cdof w d) = 6%nat.
  Hypothesis Hp : length p = 3%nat.
  Hypothesis Hcom : length (com w (rootid b)) = 3%nat.

  Notation jd d := (T_support.jac_dof parentid rootid dof_bodyid maskf com cdof p b d w).

  (* what the code computes, per dof *)
  Theorem jac_dof_column d :
    jd d = if (maskf b d =? 0)%Z then ([0; 0; 0], [0; 0; 0])
           else (vadd (skipn 3 (cdof w d)) (vcross (firstn 3 (cdof w d)) (vsub p (com w (rootid b)))),
                 firstn 3 (cdof w d)).
  Proof. reflexivity. Qed.

  Definition ind (d : Z) : R := if (maskf b d =? 0)%Z then 0 else 1.
  (* component k of  sum over the marked dofs of  cdof_d * qvel_d *)
  Definition Vsum (k : Z) : R := zsum 0 nvn (fun d => ind d * vget (cdof w d) k * q d).

  Lemma jacp_term d : exists p0 p1 p2 c0 c1 c2, p = [p0; p1; p2] /\ com w (rootid b) = [c0; c1; c2] /\
    let a k := vget (cdof w d) k in
    vget (fst (jd d)) 0 * q d = ind d * a 3%Z * q d + ((ind d * a 1%Z * q d) * (p2 - c2) - (ind d * a 2%Z * q d) * (p1 - c1)) /\
    vget (fst (jd d)) 1 * q d = ind d * a 4%Z * q d + ((ind d * a 2%Z * q d) * (p0 - c0) - (ind d * a 0%Z * q d) * (p2 - c2)) /\
    vget (fst (jd d)) 2 * q d = ind d * a 5%Z * q d + ((ind d * a 0%Z * q d) * (p1 - c1) - (ind d * a 1%Z * q d) * (p0 - c0)) /\
    vget (snd (jd d)) 0 * q d = ind d * a 0%Z * q d /\
    vget (snd (jd d)) 1 * q d = ind d * a 1%Z * q d /\
    vget (snd (jd d)) 2 * q d = ind d * a 2%Z * q d.
  Proof.
    destruct (len3 _ Hp) as (p0 & p1 & p2 & Ep). destruct (len3 _ Hcom) as (c0 & c1 & c2 & Ec).
    destruct (len6 _ (Hcdof d)) as (a0 & a1 & a2 & a3 & a4 & a5 & Ea).
    exists p0, p1, p2, c0, c1, c2. split; auto. split; auto.
    rewrite jac_dof_column. unfold ind. rewrite Ea, Ep, Ec.
    destruct (maskf b d =? 0)%Z; vsimp; repeat split; sC; ring.
  Qed.

  (* THEOREM: J . qvel is the velocity of the point computed from the summed spatial velocity *)
  Theorem jac_dof_sum (cv : list R) :
    length cv = 6%nat -> (forall k, (0 <= k < 6)%Z -> vget cv k = Vsum k) ->
    (forall k, (0 <= k < 3)%Z ->
       zsum 0 nvn (fun d => vget (fst (jd d)) k * q d) = vget (point_vel cv p (com w (rootid b))) k) /\
    (forall k, (0 <= k < 3)%Z ->
       zsum 0 nvn (fun d => vget (snd (jd d)) k * q d) = vget (firstn 3 cv) k).
  Proof.
    intros Hl Hv.
    destruct (len3 _ Hp) as (p0 & p1 & p2 & Ep). destruct (len3 _ Hcom) as (c0 & c1 & c2 & Ec).
    destruct (len6 _ Hl) as (v0 & v1 & v2 & v3 & v4 & v5 & Ev).
    pose proof (Hv 0%Z ltac:(lia)) as H0. pose proof (Hv 1%Z ltac:(lia)) as H1. pose proof (Hv 2%Z ltac:(lia)) as H2.
    pose proof (Hv 3%Z ltac:(lia)) as H3. pose proof (Hv 4%Z ltac:(lia)) as H4. pose proof (Hv 5%Z ltac:(lia)) as H5.
    rewrite Ev in H0, H1, H2, H3, H4, H5. cbv [vget nth Z.to_nat Pos.to_nat Pos.iter_op Nat.add] in H0, H1, H2, H3, H4, H5.
    assert (forall d, let a k := vget (cdof w d) k in
      vget (fst (jd d)) 0 * q d = ind d * a 3%Z * q d + ((ind d * a 1%Z * q d) * (p2 - c2) - (ind d * a 2%Z * q d) * (p1 - c1)) /\
      vget (fst (jd d)) 1 * q d = ind d * a 4%Z * q d + ((ind d * a 2%Z * q d) * (p0 - c0) - (ind d * a 0%Z * q d) * (p2 - c2)) /\
      vget (fst (jd d)) 2 * q d = ind d * a 5%Z * q d + ((ind d * a 0%Z * q d) * (p1 - c1) - (ind d * a 1%Z * q d) * (p0 - c0)) /\
      vget (snd (jd d)) 0 * q d = ind d * a 0%Z * q d /\
      vget (snd (jd d)) 1 * q d = ind d * a 1%Z * q d /\
      vget (snd (jd d)) 2 * q d = ind d * a 2%Z * q d) as T.
    { intros d. destruct (jacp_term d) as (p0' & p1' & p2' & c0' & c1' & c2' & Ep' & Ec' & T).
      rewrite Ep in Ep'. rewrite Ec in Ec'. inversion Ep'; inversion Ec'; subst. exact T. }
    assert (forall x y z : R, vget (point_vel [v0; v1; v2; x; y; z] [p0; p1; p2] [c0; c1; c2]) 0 = x + (v1 * (p2 - c2) - v2 * (p1 - c1)) /\
                              vget (point_vel [v0; v1; v2; x; y; z] [p0; p1; p2] [c0; c1; c2]) 1 = y + (v2 * (p0 - c0) - v0 * (p2 - c2)) /\
                              vget (point_vel [v0; v1; v2; x; y; z] [p0; p1; p2] [c0; c1; c2]) 2 = z + (v0 * (p1 - c1) - v1 * (p0 - c0))) as PV.
    { intros. unfold point_vel. vsimp. sC. repeat split; ring. }
    split; intros k Hk; assert (k = 0 \/ k = 1 \/ k = 2)%Z as [-> | [-> | ->]] by lia.
    - rewrite (zsum_lin3 nvn (p2 - c2) (p1 - c1) 0%Z _ _ _ _ (fun d _ => proj1 (T d))).
      fold (Vsum 3) (Vsum 1) (Vsum 2). rewrite <- H3, <- H1, <- H2, Ev, Ec, Ep. now rewrite (proj1 (PV v3 v4 v5)).
    - rewrite (zsum_lin3 nvn (p0 - c0) (p2 - c2) 0%Z _ _ _ _ (fun d _ => proj1 (proj2 (T d)))).
      fold (Vsum 4) (Vsum 2) (Vsum 0). rewrite <- H4, <- H2, <- H0, Ev, Ec, Ep. now rewrite (proj1 (proj2 (PV v3 v4 v5))).
    - rewrite (zsum_lin3 nvn (p1 - c1) (p0 - c0) 0%Z _ _ _ _ (fun d _ => proj1 (proj2 (proj2 (T d))))).
      fold (Vsum 5) (Vsum 0) (Vsum 1). rewrite <- H5, <- H0, <- H1, Ev, Ec, Ep. now rewrite (proj2 (proj2 (PV v3 v4 v5))).
    - rewrite (zsum_ext nvn 0%Z _ _ (fun d _ => proj1 (proj2 (proj2 (proj2 (T d)))))). fold (Vsum 0). rewrite <- H0, Ev. reflexivity.
    - rewrite (zsum_ext nvn 0%Z _ _ (fun d _ => proj1 (proj2 (proj2 (proj2 (proj2 (T d))))))). fold (Vsum 1). rewrite <- H1, Ev. reflexivity.
    - rewrite (zsum_ext nvn 0%Z _ _ (fun d _ => proj2 (proj2 (proj2 (proj2 (proj2 (T d))))))). fold (Vsum 2). rewrite <- H2, Ev. reflexivity.
  Qed.
End JacDof.

(* ================================================================== cvel along a chain *)
Lemma nth_vmap2 (f : R -> R -> R) : forall (a b : list R) n, (n < length a)%nat -> (n < length b)%nat ->
  nth n (vmap2 f a b) 0 = f (nth n a 0) (nth n b 0).
Proof. induction a; intros [|] [|]; simpl; intros; try lia; auto. apply IHa; lia. Qed.
Lemma length_vmap2 (f : R -> R -> R) : forall (a b : list R), length (vmap2 f a b) = Nat.min (length a) (length b).
Proof. induction a; intros [|]; simpl; auto. Qed.

Section ComVelProof.
  Variables (ps jntnum jntadr da jnt_type : list Z).
  Variables (cdof : Z -> list R) (q : Z -> R).
  Hypothesis Hcdof : forall d, length (cdof d) = 6%nat.

  Lemma add_dofs_spec : forall n d cv, length cv = 6%nat ->
    length (add_dofs cdof q n d cv) = 6%nat /\
    forall k, (0 <= k < 6)%Z -> vget (add_dofs cdof q n d cv) k = vget cv k + zsum d n (fun x => vget (cdof x) k * q x).
  Proof.
    induction n; intros d cv Hl; simpl.
    - split; auto. intros; lra.
    - assert (length (vadd cv (vscaler (cdof d) (q d))) = 6%nat) as Hl2.
      { unfold vadd, vscaler. rewrite length_vmap2, map_length, Hl, Hcdof. reflexivity. }
      destruct (IHn (d + 1)%Z _ Hl2) as [Hl3 Hv]. split; auto.
      intros k Hk. rewrite Hv by auto.
      unfold vget at 1. unfold vadd, vscaler. rewrite nth_vmap2 by (rewrite ?map_length, ?Hl, ?Hcdof; lia).
      replace (nth (Z.to_nat k) (map (fun x : R => smul x (q d)) (cdof d)) 0) with (smul (nth (Z.to_nat k) (cdof d) 0) (q d)).
      2:{ symmetry. rewrite (nth_indep _ 0 ((fun x : R => smul x (q d)) 0)) by (rewrite map_length, Hcdof; lia).
          rewrite (map_nth (fun x : R => smul x (q d))). reflexivity. }
      unfold vget. sC. lra.
  Qed.

  Lemma add_dofs_app : forall n m d cv,
    add_dofs cdof q (n + m) d cv = add_dofs cdof q m (d + Z.of_nat n)%Z (add_dofs cdof q n d cv).
  Proof.
    induction n; intros; simpl plus.
    - simpl. now rewrite Z.add_0_r.
    - change (add_dofs cdof q (S (n + m)) d cv) with (add_dofs cdof q (n + m) (d + 1) (vadd cv (vscaler (cdof d) (q d)))).
      rewrite IHn. replace (d + 1 + Z.of_nat n)%Z with (d + Z.of_nat (S n))%Z by lia. reflexivity.
  Qed.

  Lemma comvel_joints_run : forall m j0 cv d0,
    for_nat m j0 (cv, d0) (comvel_joint jnt_type cdof q)
    = (add_dofs cdof q (joints_ndof jnt_type m j0) d0 cv, (d0 + Z.of_nat (joints_ndof jnt_type m j0))%Z).
  Proof.
    induction m; intros; simpl.
    - now rewrite Z.add_0_r.
    - rewrite IHm. rewrite add_dofs_app. f_equal. lia.
  Qed.

  (* the joint loop of one body adds cdof*qvel of its dofs dofadr .. dofadr + ndof - 1 *)
  Lemma comvel_body_is_add_dofs b cvp : (0 <= zg jntnum b)%Z ->
    comvel_body jntnum jntadr da jnt_type cdof q b cvp
    = add_dofs cdof q (body_ndof jntnum jntadr jnt_type b) (zg da b) cvp.
  Proof.
    intros Hj. unfold comvel_body, body_ndof. destruct (zg jntnum b =? 0)%Z eqn:E.
    - apply Z.eqb_eq in E. rewrite E. reflexivity.
    - unfold for_range. replace (zg jntadr b + zg jntnum b - zg jntadr b)%Z with (zg jntnum b) by lia.
      rewrite comvel_joints_run. reflexivity.
  Qed.
End ComVelProof.

Local Open Scope Z_scope.
Fixpoint linked (ps : list Z) (p : Z) (chain : list Z) : Prop :=
  match chain with
  | [] => True
  | b :: r => 0 < b < Z.of_nat (length ps) /\ zg ps b = p /\ linked ps b r
  end.
Local Close Scope Z_scope.

Section VelocityMap.
  Variables (ps dn da dp db jntnum jntadr jnt_type : list Z).
  Variables (maskf : Z -> Z -> Z) (cdof : Z -> list R) (q : Z -> R).
  Notation nb := (Z.of_nat (length ps)).
  Notation nvv := (Z.of_nat (length dp)).
  Hypothesis W : wf_tree ps dn da dp db.
  (* the joint loop walks exactly the dofs of the body *)
  Hypothesis Wj : forall b, (0 <= b < nb)%Z ->
    (0 <= zg jntnum b)%Z /\ Z.of_nat (body_ndof jntnum jntadr jnt_type b) = zg dn b.
  Hypothesis Hmask : forall b d, (0 <= b < nb)%Z -> (0 <= d < nvv)%Z ->
    (maskf b d <> 0%Z <-> anc_or_self ps (zg db d) b).
  Hypothesis Hcdof : forall d, length (cdof d) = 6%nat.

  Notation indb := (ind maskf).
  Notation V b k := (Vsum maskf (fun _ : Z => cdof) b 0%Z q (length dp) k).

  Lemma ind_rec b d : (0 < b < nb)%Z -> (0 <= d < nvv)%Z ->
    indb b d = (if (zg db d =? b)%Z then 1 else 0) + indb (zg ps b) d.
  Proof.
    intros Hb Hd. assert (0 <= zg ps b < b)%Z as Hp by (apply W; lia).
    unfold ind. destruct (Z.eqb_spec (maskf b d) 0) as [E|E].
    - assert (~ anc_or_self ps (zg db d) b) as Hn by (intros Ha; apply Hmask in Ha; auto; lia).
      destruct (Z.eqb_spec (zg db d) b) as [E2|E2]. { exfalso. apply Hn. rewrite E2. constructor. }
      destruct (Z.eqb_spec (maskf (zg ps b) d) 0) as [E3|E3]. { lra. }
      exfalso. apply Hn. apply aos_up; [lia|]. apply Hmask; auto; lia.
    - assert (anc_or_self ps (zg db d) b) as Ha by (apply Hmask; auto; lia).
      apply anc_inv in Ha. destruct Ha as [Ha | [_ Ha]].
      + rewrite Ha, Z.eqb_refl. destruct (Z.eqb_spec (maskf (zg ps b) d) 0) as [E3|E3]. { lra. }
        exfalso. apply Hmask in E3; try lia. rewrite Ha in E3. apply (anc_le ps dn da dp db W) in E3; lia.
      + pose proof (anc_le ps dn da dp db W (zg db d) (zg ps b) ltac:(lia) Ha).
        destruct (Z.eqb_spec (zg db d) b) as [E2|E2]; [lia|].
        destruct (Z.eqb_spec (maskf (zg ps b) d) 0) as [E3|E3]; [|lra].
        exfalso. apply Hmask in Ha; try lia.
  Qed.

  Lemma V_world k : V 0%Z k = 0.
  Proof.
    unfold Vsum. apply zsum_zero. intros d Hd. unfold ind.
    destruct (Z.eqb_spec (maskf 0 d) 0) as [E|E]; [lra|].
    exfalso. assert (0 < nb)%Z as Hnb. { destruct (wf_body ps dn da dp db W d); lia. }
    apply Hmask in E; try lia. apply anc_inv in E. destruct E as [E | [? _]]; [|lia].
    apply (no_dof_of ps dn da dp db W 0%Z d ltac:(lia) (wf_world _ _ _ _ _ W) E).
  Qed.

  Lemma V_rec b k : (0 < b < nb)%Z ->
    V b k = V (zg ps b) k + zsum (zg da b) (Z.to_nat (zg dn b)) (fun x => vget (cdof x) k * q x).
  Proof.
    intros Hb. unfold Vsum.
    rewrite (zsum_ext _ _ _ (fun d => (if (zg db d =? b)%Z then 1 else 0) * (vget (cdof d) k * q d)
                                  + indb (zg ps b) d * vget (cdof d) k * q d)).
    2:{ intros d Hd. rewrite ind_rec by lia. lra. }
    rewrite zsum_plus. rewrite Rplus_comm. f_equal.
    pose proof (wf_dn ps dn da dp db W b ltac:(lia)) as Hdn.
    destruct (Z.eq_dec (zg dn b) 0) as [E0|E0].
    - rewrite E0. simpl. apply zsum_zero. intros d Hd.
      destruct (Z.eqb_spec (zg db d) b) as [E|E]; [|lra].
      exfalso. apply (no_dof_of ps dn da dp db W b d ltac:(lia) E0 E).
    - destruct (wf_range ps dn da dp db W b (zg da b)) as [R1 _]; try lia.
      destruct (wf_range ps dn da dp db W b (zg da b + zg dn b - 1)%Z) as [R2 _]; try lia.
      apply zsum_indicator; try lia.
      intros d Hd. rewrite Z.eqb_eq. rewrite Z2Nat.id by lia. split.
      + intros E. destruct (wf_body ps dn da dp db W d Hd) as [_ Hr]. rewrite E in Hr. lia.
      + intros Hr. apply (wf_range ps dn da dp db W b d); lia.
  Qed.

  Notation task := (comvel_task ps jntnum jntadr da jnt_type cdof q).

  Lemma linked_gt : forall chain p, linked ps p chain -> (0 <= p)%Z -> forall x, In x chain -> (p < x)%Z.
  Proof.
    induction chain as [|b r IH]; intros p HL Hp x Hx; simpl in *; [contradiction|].
    destruct HL as (Hb & Hpb & HL). assert (0 <= zg ps b < b)%Z by (apply W; lia).
    destruct Hx as [<-|Hx]; [lia|]. specialize (IH b HL ltac:(lia) x Hx). lia.
  Qed.

  Lemma task_notin : forall chain st x, ~ In x chain -> task st chain x = st x.
  Proof.
    induction chain as [|b r IH]; intros st x Hn; simpl; auto.
    unfold comvel_task in *. simpl. rewrite IH by (intros ?; apply Hn; now right).
    unfold cv_upd. destruct (Z.eqb_spec x b); auto. exfalso. apply Hn. now left.
  Qed.

  (* THEOREM (the cvel recursion of _comvel_branch): along an ancestor chain every body's cvel
     is the sum of cdof*qvel over its ancestor dofs *)
  Theorem comvel_chain_is_masked_sum : forall chain p st,
    linked ps p chain -> (0 <= p < nb)%Z -> length (st p) = 6%nat ->
    (forall k, (0 <= k < 6)%Z -> vget (st p) k = V p k) ->
    forall b, In b chain ->
      length (task st chain b) = 6%nat /\ forall k, (0 <= k < 6)%Z -> vget (task st chain b) k = V b k.
  Proof.
    induction chain as [|b0 r IH]; intros p st HL Hp Hl Hv b Hb; simpl in *; [contradiction|].
    destruct HL as (Hb0 & Hpb & HL).
    set (st1 := cv_upd st b0 (comvel_body jntnum jntadr da jnt_type cdof q b0 (st (zg ps b0)))).
    assert (length (st1 b0) = 6%nat /\ forall k, (0 <= k < 6)%Z -> vget (st1 b0) k = V b0 k) as [Hl1 Hv1].
    { unfold st1, cv_upd. rewrite Z.eqb_refl. destruct (Wj b0 ltac:(lia)) as [Hj Hn].
      rewrite comvel_body_is_add_dofs by auto. rewrite Hpb.
      destruct (add_dofs_spec cdof q Hcdof (body_ndof jntnum jntadr jnt_type b0) (zg da b0) (st p) Hl) as [L1 L2].
      split; auto. intros k Hk. rewrite L2 by auto. rewrite Hv by auto. rewrite (V_rec b0 k) by lia. rewrite Hpb.
      replace (Z.to_nat (zg dn b0)) with (body_ndof jntnum jntadr jnt_type b0) by lia. reflexivity. }
    change (task st (b0 :: r) b) with (task st1 r b).
    destruct Hb as [<-|Hb].
    - rewrite task_notin. split; auto.
      intros Hin. pose proof (linked_gt r b0 HL ltac:(lia) b0 Hin). lia.
    - apply (IH b0 st1 HL ltac:(lia) Hl1 Hv1 b Hb).
  Qed.
End VelocityMap.

(* ================================================================== main theorem, computed mask *)
Section Main.
  Variables (ps dn da dp db jntnum jntadr jnt_type : list Z) (nv_pad : nat).
  Hypothesis W : wf_tree ps dn da dp db.
  Hypothesis Hpad : (length dp <= nv_pad)%nat.

  Definition maskf_of : Z -> Z -> Z := fun b d => zg (isdofancestor_row ps dn da dp nv_pad b) d.

  Lemma maskf_nonzero_iff b d : (0 <= b < Z.of_nat (length ps))%Z -> (0 <= d < Z.of_nat (length dp))%Z ->
    (maskf_of b d <> 0%Z <-> anc_or_self ps (zg db d) b).
  Proof.
    intros Hb Hd. unfold maskf_of.
    destruct (isdofancestor_marks_path ps dn da dp db W nv_pad b d Hpad Hb Hd) as [[A1 A2] [B1 B2]].
    pose proof (isdofancestor_spec ps dn da dp db W nv_pad b d Hpad Hb ltac:(lia)) as S.
    destruct (existsb _ _) in S; split; intros H.
    - apply A1; auto.
    - rewrite S. discriminate.
    - contradiction.
    - apply A2 in H. rewrite S in H. discriminate.
  Qed.

  (* body_isdofancestor[b] is the row computed for b *)
  Lemma body_isdofancestor_row b : (0 <= b < Z.of_nat (length ps))%Z ->
    nth (Z.to_nat b) (body_isdofancestor ps dn da dp nv_pad) [] = isdofancestor_row ps dn da dp nv_pad b.
  Proof.
    intros Hb. unfold body_isdofancestor, zseq. rewrite map_map.
    rewrite (nth_indep _ [] ((fun x => isdofancestor_row ps dn da dp nv_pad (Z.of_nat x)) 0%nat))
      by (rewrite map_length, seq_length; lia).
    rewrite (map_nth (fun x => isdofancestor_row ps dn da dp nv_pad (Z.of_nat x))).
    rewrite seq_nth by lia. simpl. now rewrite Z2Nat.id by lia.
  Qed.

  Variables (rootid : Z -> Z) (com cdof : Z -> Z -> list R) (p : list R) (w : Z) (q : Z -> R).
  Hypothesis Wj : forall b, (0 <= b < Z.of_nat (length ps))%Z ->
    (0 <= zg jntnum b)%Z /\ Z.of_nat (body_ndof jntnum jntadr jnt_type b) = zg dn b.
  Hypothesis Hcdof : forall d, length (cdof w d) = 6%nat.
  Hypothesis Hp : length p = 3%nat.

  (* THEOREM jac_dof_is_velocity_map.  For a body b on an ancestor chain processed by
     _comvel_branch (chain starts at a child of the world), with body_isdofancestor as computed
     by io.py:  sum_d jacp[:, d] * qvel[d]  is the velocity of the point p of body b obtained
     from the body's cvel, and  sum_d jacr[:, d] * qvel[d]  is its angular velocity. *)
  Theorem jac_dof_is_velocity_map (chain : list Z) (b : Z) :
    linked ps 0 chain -> In b chain -> length (com w (rootid b)) = 3%nat ->
    let cvel := comvel_task ps jntnum jntadr da jnt_type (cdof w) q comvel_init chain b in
    let jd d := T_support.jac_dof (zg ps) rootid (zg db) maskf_of com cdof p b d w in
    (forall k, (0 <= k < 3)%Z ->
       zsum 0 (length dp) (fun d => vget (fst (jd d)) k * q d) = vget (point_vel cvel p (com w (rootid b))) k) /\
    (forall k, (0 <= k < 3)%Z ->
       zsum 0 (length dp) (fun d => vget (snd (jd d)) k * q d) = vget (firstn 3 cvel) k).
  Proof.
    intros HL Hb Hcom cvel jd.
    assert (0 < Z.of_nat (length ps))%Z as Hnb.
    { destruct chain as [|b0 r]; [contradiction|]. simpl in HL. lia. }
    destruct (comvel_chain_is_masked_sum ps dn da dp db jntnum jntadr jnt_type maskf_of (cdof w) q
                W Wj maskf_nonzero_iff Hcdof chain 0%Z comvel_init HL ltac:(lia)) with (b := b) as [Hl Hv]; auto.
    { intros k Hk. rewrite (V_world ps dn da dp db maskf_of (cdof w) q W maskf_nonzero_iff).
      assert (k = 0 \/ k = 1 \/ k = 2 \/ k = 3 \/ k = 4 \/ k = 5)%Z as [->|[->|[->|[->|[->| ->]]]]] by lia; reflexivity. }
    apply (jac_dof_sum (zg ps) rootid (zg db) maskf_of com cdof p b w q (length dp) Hcdof Hp Hcom cvel Hl).
    exact Hv.
  Qed.
End Main.

(* ================================================================== +-1 rows of efc.J *)
Section EfcRowsProof.
  Variable (nv : Z) (q : Z -> R).
  Hypothesis Hnv : (0 <= nv)%Z.

  Lemma nth_repeat0 n k : nth k (repeat (0:R) n) 0 = 0.
  Proof. revert k; induction n; intros [|k]; simpl; auto. Qed.
  Lemma zero_row_len : length (@zero_row R _ nv) = Z.to_nat nv.
  Proof. unfold zero_row. apply repeat_length. Qed.
  Lemma dense_dot_zero_row : dense_dot (@zero_row R _ nv) q = 0.
  Proof. unfold dense_dot, zero_row. apply ddot_zero. Qed.
  Lemma dense_dot_aset (row : list R) d x : (0 <= d < Z.of_nat (length row))%Z ->
    dense_dot (aset row d x) q = dense_dot row q + (x - nth (Z.to_nat d) row 0) * q d.
  Proof.
    intros Hd. unfold dense_dot, aset. replace (d <? 0)%Z with false by (symmetry; apply Z.ltb_ge; lia).
    rewrite ddot_aset_nat by lia. rewrite Z.add_0_l, Z2Nat.id by lia. reflexivity.
  Qed.
  Lemma dense_dot_unit d x : (0 <= d < nv)%Z -> dense_dot (aset (@zero_row R _ nv) d x) q = x * q d.
  Proof.
    intros Hd. rewrite dense_dot_aset by (rewrite zero_row_len; lia).
    rewrite dense_dot_zero_row. unfold zero_row. change (sofZ 0) with (0:R). rewrite nth_repeat0. lra.
  Qed.
  Lemma scatter_unit d x : (0 <= d < nv)%Z ->
    scatter (Z.to_nat nv) [(d, x)] = aset (@zero_row R _ nv) d x.
  Proof.
    intros Hd. unfold scatter, scatter_add, zero_row. simpl. change (sofZ 0) with (0:R).
    rewrite nth_repeat0. sC. now rewrite Rplus_0_l.
  Qed.

  (* friction-loss dof rows: J = e_dof, vel = qvel[dof] *)
  Theorem friction_dof_vel_is_Jqvel dofid : (0 <= dofid < nv)%Z ->
    dense_dot (fst (friction_dof_dense nv dofid q)) q = snd (friction_dof_dense nv dofid q) /\
    entries_dot (fst (friction_dof_sparse dofid q)) q = snd (friction_dof_sparse dofid q) /\
    scatter (Z.to_nat nv) (fst (friction_dof_sparse dofid q)) = fst (friction_dof_dense nv dofid q) /\
    snd (friction_dof_sparse dofid q) = snd (friction_dof_dense nv dofid q).
  Proof.
    intros Hd. simpl. repeat split.
    - rewrite dense_dot_unit by auto. sC. lra.
    - rewrite entries_dot_cons, entries_dot_nil. simpl. sC. lra.
    - apply scatter_unit; auto.
  Qed.

  (* joint limit rows: J = +-e_dof, vel = +-qvel[dof] with the same sign *)
  Theorem limit_sh_vel_is_Jqvel dofadr (x lo hi : R) : (0 <= dofadr < nv)%Z ->
    dense_dot (fst (limit_sh_dense nv dofadr x lo hi q)) q = snd (limit_sh_dense nv dofadr x lo hi q) /\
    entries_dot (fst (limit_sh_sparse dofadr x lo hi q)) q = snd (limit_sh_sparse dofadr x lo hi q) /\
    scatter (Z.to_nat nv) (fst (limit_sh_sparse dofadr x lo hi q)) = fst (limit_sh_dense nv dofadr x lo hi q) /\
    snd (limit_sh_sparse dofadr x lo hi q) = snd (limit_sh_dense nv dofadr x lo hi q) /\
    (limit_sh_J x lo hi = 1 \/ limit_sh_J x lo hi = -1).
  Proof.
    intros Hd. unfold limit_sh_dense, limit_sh_sparse. cbv zeta. simpl fst; simpl snd. repeat split.
    - rewrite dense_dot_unit by auto. reflexivity.
    - rewrite entries_dot_cons, entries_dot_nil. simpl. lra.
    - apply scatter_unit; auto.
    - unfold limit_sh_J. sC. destruct (Rltb (x - lo) (hi - x)); [left | right]; lra.
  Qed.

  (* joint equality rows: J = e_dof1 (- deriv * e_dof2), vel = qvel[dof1] (- qvel[dof2] * deriv).
     MuJoCo's compiler rejects joint1 = joint2 ("element is repeated"), hence dofadr1 <> dofadr2;
     without it the dense builder overwrites the 1.0 (see eq_joint_dense_same_dof below). *)
  Theorem eq_joint_vel_is_Jqvel d1 d2 j2 qa2 (data : list R) (qpos qpos0 : Z -> R) :
    (0 <= d1 < nv)%Z -> ((j2 > -1)%Z -> (0 <= d2 < nv)%Z /\ d1 <> d2) ->
    dense_dot (fst (eq_joint_dense nv d1 d2 j2 qa2 data qpos qpos0 q)) q = snd (eq_joint_dense nv d1 d2 j2 qa2 data qpos qpos0 q) /\
    entries_dot (fst (eq_joint_sparse d1 d2 j2 qa2 data qpos qpos0 q)) q = snd (eq_joint_sparse d1 d2 j2 qa2 data qpos qpos0 q) /\
    dense_dot (scatter (Z.to_nat nv) (fst (eq_joint_sparse d1 d2 j2 qa2 data qpos qpos0 q))) q
      = dense_dot (fst (eq_joint_dense nv d1 d2 j2 qa2 data qpos qpos0 q)) q /\
    snd (eq_joint_sparse d1 d2 j2 qa2 data qpos qpos0 q) = snd (eq_joint_dense nv d1 d2 j2 qa2 data qpos qpos0 q).
  Proof.
    intros H1 H2. unfold eq_joint_dense, eq_joint_sparse. cbv zeta.
    destruct (j2 >? -1)%Z eqn:E; simpl fst; simpl snd.
    - destruct H2 as [H2 Hne]; [lia|].
      set (dv := eqj_deriv2 data (ssub (qpos qa2) (qpos0 qa2))).
      assert (dense_dot (aset (aset (@zero_row R _ nv) d1 (slit 1 1)) d2 (sneg dv)) q = ssub (q d1) (smul (q d2) dv)) as HD.
      { rewrite dense_dot_aset by (rewrite length_aset, zero_row_len; lia).
        rewrite dense_dot_unit by auto.
        unfold aset. replace (d1 <? 0)%Z with false by (symmetry; apply Z.ltb_ge; lia).
        rewrite nth_aset_nat_other by lia. unfold zero_row. change (sofZ 0) with (0:R). rewrite nth_repeat0. sCg. lra. }
      assert (entries_dot [(d1, slit 1 1); (d2, sneg dv)] q = ssub (q d1) (smul (q d2) dv)) as HS.
      { rewrite !entries_dot_cons, entries_dot_nil. simpl fst; simpl snd. sCg. lra. }
      repeat split; auto.
      rewrite scatter_dot by (intros e [<-|[<-|[]]]; simpl; lia).
      etransitivity; [exact HS | symmetry; exact HD].
    - repeat split.
      + rewrite dense_dot_unit by auto. sC. lra.
      + rewrite entries_dot_cons, entries_dot_nil. simpl. sC. lra.
      + rewrite scatter_unit by auto. reflexivity.
  Qed.
End EfcRowsProof.

(* the hypothesis dofadr1 <> dofadr2 is needed by the DENSE builder only: with equal dofs it
   stores -deriv over the 1.0 while Jqvel keeps both terms (the sparse row has both entries) *)
Example eq_joint_dense_same_dof :
  let r := eq_joint_dense 1 0 0 0 0 [0; 1; 0; 0; 0] (fun _ => 0) (fun _ => 0) (fun _ => 1) in
  dense_dot (fst r) (fun _ => 1) = -1 /\ snd r = 0.
Proof. unfold eq_joint_dense, eqj_deriv2, dense_dot, zero_row. simpl. sC. vsimp. split; lra. Qed.

(* ================================================================== the decidable checks are sound *)
Local Open Scope Z_scope.
Lemma zseq_In n x : In x (zseq n) <-> 0 <= x < Z.of_nat n.
Proof.
  unfold zseq. rewrite in_map_iff. split.
  - intros (k & <- & Hk). apply in_seq in Hk. lia.
  - intros Hx. exists (Z.to_nat x). split; [lia|]. apply in_seq. lia.
Qed.

Theorem wf_treeb_sound ps dn da dp db : wf_treeb ps dn da dp db = true -> wf_tree ps dn da dp db.
Proof.
  unfold wf_treeb. cbv zeta. rewrite !andb_true_iff, !forallb_forall.
  intros ((((((H1 & H2) & H3) & H4) & H5) & H6) & H7).
  constructor.
  - intros b Hb. specialize (H1 b ltac:(apply zseq_In; lia)).
    apply orb_true_iff in H1. destruct H1 as [H1|H1]; [apply Z.eqb_eq in H1; lia|].
    apply andb_true_iff in H1. destruct H1 as [A B]. apply Z.leb_le in A. apply Z.ltb_lt in B. lia.
  - now apply Z.eqb_eq.
  - intros b Hb. specialize (H3 b ltac:(apply zseq_In; lia)). now apply Z.leb_le.
  - intros d Hd. specialize (H4 d ltac:(apply zseq_In; lia)). cbv zeta in H4.
    rewrite !andb_true_iff in H4. destruct H4 as (((A & B) & C) & D).
    apply Z.leb_le in A, C. apply Z.ltb_lt in B, D. lia.
  - intros b d Hb Hd. specialize (H5 b ltac:(apply zseq_In; lia)). rewrite forallb_forall in H5.
    specialize (H5 (d - zg da b) ltac:(apply zseq_In; lia)). cbv zeta in H5.
    replace (zg da b + (d - zg da b)) with d in H5 by lia.
    rewrite !andb_true_iff in H5. destruct H5 as ((A & B) & C).
    apply Z.leb_le in A. apply Z.ltb_lt in B. apply Z.eqb_eq in C. lia.
  - intros d Hd. specialize (H6 d ltac:(apply zseq_In; lia)).
    apply andb_true_iff in H6. destruct H6 as [A B]. apply Z.leb_le in A. apply Z.ltb_lt in B. lia.
  - intros d Hd. specialize (H7 d ltac:(apply zseq_In; lia)). now apply Z.eqb_eq.
Qed.

Theorem wf_jointsb_sound ps dn jntnum jntadr jnt_type :
  wf_jointsb ps dn jntnum jntadr jnt_type = true ->
  forall b, 0 <= b < Z.of_nat (length ps) ->
    0 <= zg jntnum b /\ Z.of_nat (body_ndof jntnum jntadr jnt_type b) = zg dn b.
Proof.
  unfold wf_jointsb. rewrite forallb_forall. intros H b Hb.
  specialize (H b ltac:(apply zseq_In; lia)). apply andb_true_iff in H. destruct H as [A B].
  apply Z.leb_le in A. apply Z.eqb_eq in B. auto.
Qed.
Local Close Scope Z_scope.

(* ---- the hypotheses are satisfiable: world; body 1 (free joint); body 2, child of 1 (hinge);
   body 3, child of 1, no joint; body 4, child of 3 (ball + slide) ---- *)
Module Ex.
  Local Open Scope Z_scope.
  Definition ps := [0; 0; 1; 1; 3].
  Definition dn := [0; 6; 1; 0; 4].
  Definition da := [-1; 0; 6; -1; 7].
  Definition dp := [-1; 0; 1; 2; 3; 4; 5; 5; 7; 8; 9].
  Definition db := [1; 1; 1; 1; 1; 1; 2; 4; 4; 4; 4].
  Definition jntnum := [0; 1; 1; 0; 2].
  Definition jntadr := [-1; 0; 1; -1; 2].
  Definition jnt_type := [0; 3; 1; 2].
  Lemma wf : wf_tree ps dn da dp db.
  Proof. apply wf_treeb_sound. vm_compute. reflexivity. Qed.
  Lemma wfj : forall b, 0 <= b < Z.of_nat (length ps) ->
    0 <= zg jntnum b /\ Z.of_nat (body_ndof jntnum jntadr jnt_type b) = zg dn b.
  Proof. apply wf_jointsb_sound. vm_compute. reflexivity. Qed.
  Lemma chain : linked ps 0 [1; 3; 4] /\ In 4 [1; 3; 4].
  Proof. simpl. repeat split; auto; lia. Qed.
  (* body 4 is moved by the free joint of body 1 and by its own ball + slide, not by body 2's hinge *)
  Lemma mask4 : isdofancestor_row ps dn da dp 16 4 = [1; 1; 1; 1; 1; 1; 0; 1; 1; 1; 1; 0; 0; 0; 0; 0].
  Proof. vm_compute. reflexivity. Qed.
End Ex.

(* ================================================================== support.jac's kernel *)
Lemma kjac_jac_dof_eq : @Gen.kjac.jac_dof R _ = @T_support.jac_dof R _.
Proof. reflexivity. Qed.

(* the task (w, d) of the kernel launched by support.jac stores column d of jacp / jacr: the two
   vectors jac_dof returns for the world's point and body *)
Theorem jac_kernel_writes (w d : Z) (ps root db : Z -> Z) (mask : Z -> Z -> Z) (com cdof : Z -> Z -> list R)
        (point_in : Z -> list R) (bodyid_in : Z -> Z) (jacp jacr : Z -> Z -> Z -> R) (orc : nat -> Z) :
  let jd := T_support.jac_dof ps root db mask com cdof (point_in w) (bodyid_in w) d w in
  Gen.kjac.k_jac_pr w d ps root db mask com cdof point_in bodyid_in jacp jacr orc
  = [mkW "jacp_out" [w; 0%Z; d] KSet (VS (vget (fst jd) 0)); mkW "jacp_out" [w; 1%Z; d] KSet (VS (vget (fst jd) 1));
     mkW "jacp_out" [w; 2%Z; d] KSet (VS (vget (fst jd) 2)); mkW "jacr_out" [w; 0%Z; d] KSet (VS (vget (snd jd) 0));
     mkW "jacr_out" [w; 1%Z; d] KSet (VS (vget (snd jd) 1)); mkW "jacr_out" [w; 2%Z; d] KSet (VS (vget (snd jd) 2))].
Proof.
  cbv zeta. unfold Gen.kjac.k_jac_pr. rewrite kjac_jac_dof_eq. unfold T_support.jac_dof.
  destruct (mask (bodyid_in w) d =? 0)%Z; reflexivity.
Qed.

(* the helper used by the tiled contact-Jacobian kernels computes the same column *)
Lemma compute_jac_is_jac_dof (ps root db : Z -> Z) (mask : Z -> Z -> Z) (com cdof : Z -> Z -> list R) (p : list R) (b d w : Z) :
  T_support.jac_dof ps root db mask com cdof p b d w
  = (T_support._compute_jacp (cdof w d) (vsub p (com w (root b))) (mask b d),
     T_support._compute_jacr (cdof w d) (mask b d)).
Proof.
  unfold T_support.jac_dof, T_support._compute_jacp, T_support._compute_jacr.
  destruct (mask b d =? 0)%Z; reflexivity.
Qed.
