(* Proof/Sched.v -- schedules of a launch: any Permutation of the task list.
   If the task functions commute pairwise on the state, every schedule gives the same state. *)
From Coq Require Import List Permutation.
Import ListNotations.

Section Sched.
  Variables (St T : Type) (step : St -> T -> St).

  Lemma fold_left_perm_commute (l l' : list T) :
    (forall s a b, In a l -> In b l -> step (step s a) b = step (step s b) a) ->
    Permutation l l' -> forall s, fold_left step l s = fold_left step l' s.
  Proof.
    intros Hc P. induction P as [|x l l' P IH| x y l | l l' l'' P1 IH1 P2 IH2]; intros s; simpl; auto.
    - apply IH. intros; apply Hc; simpl; auto.
    - rewrite (Hc s y x); simpl; auto.
    - rewrite IH1; auto. apply IH2.
      intros s0 a b Ha Hb. apply Hc; eapply Permutation_in; try eassumption; apply Permutation_sym; assumption.
  Qed.

  (* observational variant: commuting up to an equivalence that step respects *)
  Variable R : St -> St -> Prop.
  Hypothesis R_refl : forall s, R s s.
  Hypothesis R_trans : forall a b c, R a b -> R b c -> R a c.
  Hypothesis step_R : forall s s' a, R s s' -> R (step s a) (step s' a).

  Lemma fold_left_R (l : list T) : forall s s', R s s' -> R (fold_left step l s) (fold_left step l s').
  Proof. induction l; simpl; intros; auto. Qed.

  Lemma fold_left_perm_commute_R (l l' : list T) :
    (forall s a b, In a l -> In b l -> R (step (step s a) b) (step (step s b) a)) ->
    Permutation l l' -> forall s, R (fold_left step l s) (fold_left step l' s).
  Proof.
    intros Hc P. induction P as [|x l l' P IH| x y l | l l' l'' P1 IH1 P2 IH2]; intros s; simpl; auto.
    - apply IH. intros; apply Hc; simpl; auto.
    - apply fold_left_R. apply Hc; simpl; auto.
    - eapply R_trans; [apply IH1; auto|]. apply IH2.
      intros s0 a b Ha Hb. apply Hc; eapply Permutation_in; try eassumption; apply Permutation_sym; assumption.
  Qed.
End Sched.
