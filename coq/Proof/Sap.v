(* Proof/Sap.v -- lemmas for C18 about Model/Sap.v (hand-written model of the SAP / NXN
   broadphase integer logic) and about the filter functions regenerated from
   collision_driver.py (Gen/broadphase.v). *)
From Coq Require Import ZArith List Bool Lia ZifyBool Psatz Permutation Reals Lra.
From VF Require Import Base.Scalar Base.ScalarR Base.Vec Base.Loop Gen.math Gen.broadphase Model.PairTable Model.Sap Proof.PairTable.
Import ListNotations.
Local Open Scope Z_scope.

(* ------------------------------------------------------------------ sap_binary_search *)
Lemma shiftr1 a : Z.shiftr a 1 = a / 2.
Proof. rewrite Z.shiftr_div_pow2 by lia. reflexivity. Qed.

Lemma bsearch_inv gt : forall fuel l u, (Z.to_nat (u - l) < fuel)%nat -> l <= u ->
  let r := bsearch fuel gt l u in
  l <= r <= u /\ (r < u -> gt r = true) /\ (l < r -> gt (r - 1) = false).
Proof.
  induction fuel; intros l u Hf Hlu; [lia|]. simpl.
  destruct (l <? u) eqn:E; [|split; [lia|split; intros; lia]].
  rewrite shiftr1. set (mid := (l + u) / 2).
  assert (Hm : l <= mid < u) by (unfold mid; split; [apply Z.div_le_lower_bound|apply Z.div_lt_upper_bound]; lia).
  destruct (gt mid) eqn:G.
  - destruct (IHfuel l mid ltac:(lia) ltac:(lia)) as (A & B & C).
    split; [lia|]. split; [|exact C].
    intros Hr. destruct (Z.eq_dec (bsearch fuel gt l mid) mid) as [->|Hne]; [exact G|apply B; lia].
  - destruct (IHfuel (mid + 1) u ltac:(lia) ltac:(lia)) as (A & B & C).
    split; [lia|]. split; [exact B|].
    intros Hr. destruct (Z.eq_dec (bsearch fuel gt (mid + 1) u) (mid + 1)) as [->|Hne].
    + now replace (mid + 1 - 1) with mid by lia.
    + apply C; lia.
Qed.

(* "first element > value in a sorted array": with a monotone predicate the result is the
   first index of [l,u) where it holds, or u *)
Theorem sap_binary_search_spec gt l u :
  l <= u ->
  (forall x y, l <= x -> x <= y -> y < u -> gt x = true -> gt y = true) ->
  let r := sap_binary_search gt l u in
  l <= r <= u /\ (forall x, r <= x < u -> gt x = true) /\ (forall x, l <= x < r -> gt x = false).
Proof.
  intros Hlu Hmono r. unfold r, sap_binary_search.
  destruct (bsearch_inv gt (S (Z.to_nat (u - l))) l u ltac:(lia) Hlu) as (A & B & C).
  set (b := bsearch (S (Z.to_nat (u - l))) gt l u) in *.
  split; [exact A|]. split.
  - intros x Hx. assert (Hb : gt b = true) by (apply B; lia).
    apply (Hmono b x); first [lia | exact Hb].
  - intros x Hx. destruct (gt x) eqn:G; [|reflexivity].
    assert (Hc : gt (b - 1) = false) by (apply C; lia).
    rewrite <- Hc. symmetry. apply (Hmono x (b - 1)); first [lia | exact G].
Qed.

(* ------------------------------------------------------------------ sap_range *)
Section RangeSpec.
  Variable K : Type.
  Variable gtb : K -> K -> bool.
  Variable kd : K.

  (* the sorted row: once a key exceeds a threshold, all later keys do *)
  Definition keys_sorted (n : Z) (lower : list K) : Prop :=
    forall v p q, 0 <= p -> p <= q -> q < n -> gtb (knth K kd lower p) v = true -> gtb (knth K kd lower q) v = true.

  Theorem sap_range_spec n lower upper sort_index s :
    keys_sorted n lower -> 0 <= s < n ->
    let rg := sap_range1 K gtb kd n lower upper sort_index s in
    let up := knth K kd upper (znth sort_index s) in
    0 <= rg <= n - 1 - s
    (* every later slot whose lower key does not exceed this slot's upper key is inside the range *)
    /\ (forall q, s < q < n -> gtb (knth K kd lower q) up = false -> q <= s + rg)
    (* and all slots strictly inside the range do overlap (only the last one may not) *)
    /\ (forall q, s < q < s + rg -> gtb (knth K kd lower q) up = false).
  Proof.
    intros Hs Hsn rg up. unfold rg, sap_range1. fold up.
    set (gt := fun mid => gtb (knth K kd lower mid) up).
    destruct (sap_binary_search_spec gt (s + 1) n ltac:(lia)) as (A & B & C).
    { intros x y Hx Hxy Hy. unfold gt. apply Hs; lia. }
    set (limit := sap_binary_search gt (s + 1) n) in *.
    split; [lia|]. split.
    - intros q Hq Hg. destruct (Z.lt_ge_cases q limit) as [L|L]; [lia|].
      assert (gt q = true) by (apply B; lia). unfold gt in H. congruence.
    - intros q Hq. apply (C q). lia.
  Qed.
End RangeSpec.

(* ------------------------------------------------------------------ inclusive scan *)
Fixpoint psum (l : list Z) (i : nat) {struct i} : Z :=
  match i with
  | O => 0
  | S i' => match l with [] => 0 | x :: r => x + psum r i' end
  end.

Lemma scan_incl_length l : forall acc, length (scan_incl acc l) = length l.
Proof. induction l; intros; simpl; auto. Qed.

Lemma psum_cons a l i : psum (a :: l) (S i) = a + psum l i.
Proof. reflexivity. Qed.
Lemma psum_0 l : psum l 0 = 0.
Proof. destruct l; reflexivity. Qed.

Lemma scan_incl_nth l : forall acc i, (i < length l)%nat -> nth i (scan_incl acc l) 0 = acc + psum l (S i).
Proof.
  induction l; intros acc i Hi; [simpl in Hi; lia|].
  rewrite psum_cons. simpl scan_incl. destruct i.
  - simpl nth. rewrite psum_0. lia.
  - simpl nth. simpl in Hi. rewrite IHl by lia. lia.
Qed.

Lemma psum_S l : forall i, (i < length l)%nat -> psum l (S i) = psum l i + nth i l 0.
Proof.
  induction l; intros i Hi; [simpl in Hi; lia|].
  rewrite psum_cons. destruct i.
  - rewrite !psum_0. simpl. lia.
  - rewrite psum_cons. simpl in Hi. rewrite (IHl i) by lia. simpl nth. lia.
Qed.

Lemma psum_mono l : (forall i, (i < length l)%nat -> 0 <= nth i l 0) ->
  forall i j, (i <= j)%nat -> (j <= length l)%nat -> psum l i <= psum l j.
Proof.
  intros Hpos i j Hij Hj. induction j.
  - assert (i = O) by lia. subst. lia.
  - destruct (Nat.eq_dec i (S j)) as [->|Hne]; [lia|].
    rewrite psum_S by lia. specialize (Hpos j ltac:(lia)). specialize (IHj ltac:(lia) ltac:(lia)). lia.
Qed.

Lemma cumsum_nth l i : 0 <= i < Z.of_nat (length l) -> znth (cumsum l) i = psum l (S (Z.to_nat i)).
Proof. intros. unfold znth, cumsum. rewrite scan_incl_nth by lia. lia. Qed.

(* ------------------------------------------------------------------ work-package decoding *)
Section Decode.
  Variables n W : Z.
  Variable r : list Z.
  Hypothesis Hn : 0 < n.
  Hypothesis HW : 0 <= W.
  Hypothesis Hlen : Z.of_nat (length r) = W * n.
  (* what sap_range guarantees (sap_range_spec): 0 <= range[w,i] <= n-1-i *)
  Hypothesis Hr : forall w i, 0 <= w < W -> 0 <= i < n -> 0 <= znth r (w * n + i) <= n - 1 - i.

  Let N := W * n.
  Let cs := cumsum r.
  Let total := nworkpackages N cs.
  Definition prefix (g : Z) : Z := psum r (Z.to_nat g).

  Lemma split_index g : 0 <= g < N -> 0 <= g / n < W /\ 0 <= g mod n < n /\ g = (g / n) * n + g mod n.
  Proof.
    intros Hg. pose proof (Z.mod_pos_bound g n Hn). pose proof (Z.div_mod g n ltac:(lia)).
    assert (0 <= g / n) by (apply Z.div_pos; lia).
    assert (g / n < W) by (apply Z.div_lt_upper_bound; lia).
    lia.
  Qed.

  Lemma r_nonneg i : (i < length r)%nat -> 0 <= nth i r 0.
  Proof.
    intros Hi. destruct (split_index (Z.of_nat i) ltac:(unfold N; lia)) as (A & B & C).
    specialize (Hr _ _ A B). unfold znth in Hr. rewrite <- C, Nat2Z.id in Hr. lia.
  Qed.

  Lemma prefix_mono a b : 0 <= a -> a <= b -> b <= N -> prefix a <= prefix b.
  Proof. intros. unfold prefix. apply psum_mono; try lia. apply r_nonneg. Qed.

  Lemma prefix_S g : 0 <= g < N -> prefix (g + 1) = prefix g + znth r g.
  Proof.
    intros. unfold prefix, znth. replace (Z.to_nat (g + 1)) with (S (Z.to_nat g)) by lia.
    apply psum_S. lia.
  Qed.

  Lemma cs_nth g : 0 <= g < N -> znth cs g = prefix (g + 1).
  Proof. intros. unfold cs, prefix. rewrite cumsum_nth by lia. f_equal. lia. Qed.

  Lemma total_eq : total = prefix N.
  Proof.
    unfold total, nworkpackages. destruct (Z.eq_dec N 0) as [E|E].
    - rewrite E. unfold prefix, znth, cs, cumsum. simpl.
      assert (length r = O) by lia. destruct r; [reflexivity|discriminate].
    - rewrite cs_nth by (unfold N in *; nia). f_equal. lia.
  Qed.

  (* the work package k belongs to the unique global slot g with prefix g <= k < prefix (g+1) *)
  Lemma decode_char k : 0 <= k < total ->
    exists g, 0 <= g < N /\ prefix g <= k < prefix (g + 1) /\
      decode n N cs k = (g / n, g mod n, g mod n + (k - prefix g) + 1).
  Proof.
    intros Hk. rewrite total_eq in Hk. unfold decode.
    set (gt := fun mid => znth cs mid >? k).
    assert (HN : 0 <= N) by (unfold N; nia).
    destruct (sap_binary_search_spec gt 0 N HN) as (A & B & C).
    { intros x y Hx Hxy Hy. unfold gt. rewrite !cs_nth by lia.
      pose proof (prefix_mono (x + 1) (y + 1) ltac:(lia) ltac:(lia) ltac:(lia)). lia. }
    set (g := sap_binary_search gt 0 N) in *.
    assert (HgN : g < N).
    { destruct (Z.eq_dec g N) as [E|E]; [|lia]. exfalso.
      assert (0 < N) by (destruct (Z.eq_dec N 0) as [E0|E0]; [rewrite E0 in Hk; unfold prefix in Hk; simpl in Hk; lia|lia]).
      specialize (C (N - 1) ltac:(lia)). unfold gt in C. rewrite cs_nth in C by lia.
      replace (N - 1 + 1) with N in C by lia. lia. }
    assert (Hup : k < prefix (g + 1)).
    { specialize (B g ltac:(lia)). unfold gt in B. rewrite cs_nth in B by lia. lia. }
    assert (Hlo : prefix g <= k).
    { destruct (Z.eq_dec g 0) as [E|E]; [rewrite E; unfold prefix; simpl; lia|].
      specialize (C (g - 1) ltac:(lia)). unfold gt in C. rewrite cs_nth in C by lia.
      replace (g - 1 + 1) with g in C by lia. lia. }
    exists g. split; [lia|]. split; [lia|].
    destruct (split_index g ltac:(lia)) as (S1 & S2 & S3).
    assert (Hoff : 0 <= k - prefix g < znth r g) by (rewrite prefix_S in Hup by lia; lia).
    pose proof (Hr _ _ S1 S2) as Hrg. rewrite <- S3 in Hrg.
    rewrite Z.quot_div_nonneg, Z.rem_mod_nonneg by lia.
    assert (Hj : (if g >? 0 then g + k + 1 - znth cs (g - 1) else g + k + 1) = g + (k - prefix g) + 1).
    { destruct (g >? 0) eqn:E.
      - rewrite cs_nth by lia. replace (g - 1 + 1) with g by lia. lia.
      - assert (g = 0) by lia. subst g. rewrite H. unfold prefix. simpl. lia. }
    rewrite Hj. f_equal.
    rewrite Z.rem_mod_nonneg by lia.
    rewrite S3 at 1.
    replace (g / n * n + g mod n + (k - prefix g) + 1) with ((g mod n + (k - prefix g) + 1) + (g / n) * n) by lia.
    rewrite Z.mod_add by lia. apply Z.mod_small. lia.
  Qed.

  (* C18 sap_decode_bijection *)
  Theorem sap_decode_bijection :
    (* every work package decodes to a pair of sorted slots of ONE world, j within i's range *)
    (forall k, 0 <= k < total ->
       let '(w, i, j) := decode n N cs k in
       0 <= w < W /\ 0 <= i /\ i < j /\ j <= i + znth r (w * n + i) /\ j < n)
    (* and every such triple is produced by exactly one work package *)
    /\ (forall w i j, 0 <= w < W -> 0 <= i < n -> i < j -> j <= i + znth r (w * n + i) ->
          exists k, 0 <= k < total /\ decode n N cs k = (w, i, j)
                    /\ forall k', 0 <= k' < total -> decode n N cs k' = (w, i, j) -> k' = k).
  Proof.
    split.
    - intros k Hk. destruct (decode_char k Hk) as (g & Hg & Hp & ->).
      destruct (split_index g Hg) as (S1 & S2 & S3).
      pose proof (Hr _ _ S1 S2) as Hrg. rewrite <- S3 in Hrg. rewrite <- S3.
      rewrite prefix_S in Hp by lia. lia.
    - intros w i j Hw Hi Hij Hj.
      set (g := w * n + i).
      assert (Hg : 0 <= g < N) by (unfold g, N; nia).
      assert (Hgd : g / n = w /\ g mod n = i).
      { unfold g. rewrite Z.add_comm, Z.div_add, Z.mod_add, Z.div_small, Z.mod_small by lia. lia. }
      destruct Hgd as [Hgd Hgm].
      pose proof (Hr _ _ Hw Hi) as Hrg. fold g in Hrg, Hj.
      set (k := prefix g + (j - i - 1)).
      assert (Hk : 0 <= k < total).
      { rewrite total_eq. unfold k.
        pose proof (prefix_mono 0 g ltac:(lia) ltac:(lia) ltac:(lia)) as P0.
        pose proof (prefix_mono (g + 1) N ltac:(lia) ltac:(lia) ltac:(lia)) as P1.
        rewrite prefix_S in P1 by lia. unfold prefix at 1 in P0. simpl in P0. lia. }
      (* any k' whose decoding has world w and slot i lies in slot g, hence is determined by j *)
      assert (Huniq : forall k', 0 <= k' < total -> forall j', decode n N cs k' = (w, i, j') ->
                k' = prefix g + (j' - i - 1) /\ prefix g <= k' < prefix (g + 1)).
      { intros k' Hk' j' Hd. destruct (decode_char k' Hk') as (g' & Hg' & Hp' & Hd').
        rewrite Hd' in Hd. inversion Hd as [[D1 D2 D3]].
        destruct (split_index g' Hg') as (S1 & S2 & S3).
        assert (g' = g) by (unfold g; lia). subst g'. lia. }
      exists k. split; [exact Hk|]. split.
      + destruct (decode_char k Hk) as (g' & Hg' & Hp' & Hd').
        assert (g' = g).
        { destruct (Z.lt_trichotomy g' g) as [L|[E|L]]; [|exact E|]; exfalso.
          - pose proof (prefix_mono (g' + 1) g ltac:(lia) ltac:(lia) ltac:(lia)). unfold k in Hp'. lia.
          - pose proof (prefix_mono (g + 1) g' ltac:(lia) ltac:(lia) ltac:(lia)).
            rewrite prefix_S in H by lia. unfold k in Hp'. lia. }
        subst g'. rewrite Hd', Hgd, Hgm. f_equal. unfold k. lia.
      + intros k' Hk' Hd. destruct (Huniq k' Hk' j Hd) as [E _]. unfold k. exact E.
  Qed.
End Decode.
(* ------------------------------------------------------------------ stride loop of the sweep kernel *)
Lemma thread_ks_In fuel ns total : 0 < ns -> forall k x,
  In x (thread_ks fuel ns total k) -> k <= x < total /\ (x - k) mod ns = 0.
Proof.
  intros Hns. induction fuel; intros k x Hin; simpl in Hin; [contradiction|].
  destruct (k <? total) eqn:E; [|contradiction].
  destruct Hin as [<-|Hin].
  - split; [lia|]. now rewrite Z.sub_diag, Z.mod_0_l by lia.
  - destruct (IHfuel _ _ Hin) as [A B]. split; [lia|].
    replace (x - k) with ((x - (k + ns)) + 1 * ns) by lia. now rewrite Z.mod_add by lia.
Qed.

Lemma thread_ks_complete ns total : 0 < ns -> forall fuel k x,
  k <= x < total -> (x - k) mod ns = 0 -> (Z.to_nat ((x - k) / ns) < fuel)%nat ->
  In x (thread_ks fuel ns total k).
Proof.
  intros Hns. induction fuel; intros k x Hx Hm Hf; [lia|]. simpl.
  destruct (k <? total) eqn:E; [|lia].
  destruct (Z.eq_dec x k) as [->|Hne]; [now left|right].
  assert (Hd : exists c, x - k = ns * c) by (apply Zmod_divides; [lia|exact Hm]).
  destruct Hd as [c Hc].
  assert (Hc1 : 1 <= c) by nia.
  apply IHfuel.
  - nia.
  - replace (x - (k + ns)) with (ns * (c - 1)) by lia. now rewrite Z.mul_comm, Z.mod_mul by lia.
  - replace (x - (k + ns)) with ((c - 1) * ns) by lia. rewrite Z.div_mul by lia.
    rewrite Hc, (Z.mul_comm ns c), Z.div_mul in Hf by lia. lia.
Qed.

Lemma thread_ks_NoDup fuel ns total : 0 < ns -> forall k, NoDup (thread_ks fuel ns total k).
Proof.
  intros Hns. induction fuel; intros k; simpl; [constructor|].
  destruct (k <? total); [|constructor].
  constructor; [|apply IHfuel].
  intros Hin. apply thread_ks_In in Hin; lia.
Qed.

Lemma NoDup_app_disjoint {A} (a b : list A) :
  NoDup a -> NoDup b -> (forall x, In x a -> In x b -> False) -> NoDup (a ++ b).
Proof.
  induction a; intros Ha Hb Hd; simpl; [exact Hb|].
  inversion Ha; subst. constructor.
  - rewrite in_app_iff. intros [Hx|Hx]; [contradiction|]. eapply Hd; [now left|exact Hx].
  - apply IHa; auto. intros x Hx1 Hx2. eapply Hd; [right; exact Hx1|exact Hx2].
Qed.

Lemma mod_of_thread ns k x : 0 < ns -> 0 <= k < ns -> (x - k) mod ns = 0 -> x mod ns = k.
Proof.
  intros Hns Hk Hm. assert (Hd : exists c, x - k = ns * c) by (apply Zmod_divides; [lia|exact Hm]).
  destruct Hd as [c Hc]. replace x with (k + c * ns) by lia.
  rewrite Z.mod_add by lia. apply Z.mod_small. lia.
Qed.

(* every work package k in [0,total) is visited by exactly one (thread, iteration):
   the list of visited k is a permutation of 0 .. total-1 *)
Theorem work_order_perm ns total : 0 < ns -> 0 <= total ->
  Permutation (work_order ns total) (zseq 0 (Z.to_nat total)).
Proof.
  intros Hns Ht. apply NoDup_Permutation.
  - unfold work_order.
    assert (G : forall cnt t0, 0 <= t0 -> t0 + Z.of_nat cnt <= ns ->
              NoDup (flat_map (fun tid => thread_ks (S (Z.to_nat total)) ns total tid) (zseq t0 cnt))).
    { induction cnt; intros t0 H0 H1; [constructor|].
      rewrite zseq_cons. cbn [flat_map]. apply NoDup_app_disjoint.
      - now apply thread_ks_NoDup.
      - apply IHcnt; lia.
      - intros x H2 H3. apply thread_ks_In in H2; [|lia]. destruct H2 as [_ H2].
        apply in_flat_map in H3. destruct H3 as (t & Ht1 & Ht2).
        apply In_zseq in Ht1. apply thread_ks_In in Ht2; [|lia]. destruct Ht2 as [_ Ht2].
        apply mod_of_thread in H2; try lia. apply mod_of_thread in Ht2; lia. }
    apply G; lia.
  - unfold zseq. apply FinFun.Injective_map_NoDup; [|apply seq_NoDup].
    intros a b H. lia.
  - intros x. rewrite In_zseq. unfold work_order. rewrite in_flat_map. split.
    + intros (t & Ht1 & Ht2). apply In_zseq in Ht1. apply thread_ks_In in Ht2; lia.
    + intros Hx. exists (x mod ns). pose proof (Z.mod_pos_bound x ns Hns). split.
      * apply In_zseq. lia.
      * pose proof (Z.div_mod x ns ltac:(lia)) as Hdm.
        assert (x mod ns <= x) by (apply Z.mod_le; lia).
        apply thread_ks_complete; try lia.
        -- replace (x - x mod ns) with ((x / ns) * ns) by lia. now rewrite Z.mod_mul by lia.
        -- replace (x - x mod ns) with ((x / ns) * ns) by lia. rewrite Z.div_mul by lia.
           assert (x / ns <= x) by (apply Z.div_le_upper_bound; nia). 
           assert (0 <= x / ns) by (apply Z.div_pos; lia). lia.
Qed.

(* ================================================================== real-number part *)
Local Open Scope R_scope.

Definition v3 (a b c : R) : list R := [a; b; c].
Definition dot3 (u v : list R) : R := @vdot R ScalarR u v.
Definition sub3 (u v : list R) : list R := @vsub R ScalarR u v.
(* Euclidean distance of two points *)
Definition dist3 (u v : list R) : R := sqrt (dot3 (sub3 u v) (sub3 u v)).

Ltac gsimp :=
  cbv [_sphere_filter _plane_filter sap_project1 bp_filter MJ_MAXVAL v3 dot3 sub3
       vget vsub vadd vdot vdot_acc vmap2 mget nth Z.to_nat Pos.to_nat Pos.iter_op Nat.add
       Z.add Z.mul Pos.add Pos.mul Pos.succ fst snd] in *;
  sR.

Lemma cauchy_schwarz3 a b c d e f :
  (a * d + b * e + c * f) * (a * d + b * e + c * f) <= (a * a + b * b + c * c) * (d * d + e * e + f * f).
Proof.
  pose proof (Rle_0_sqr (a * e - b * d)) as H1. pose proof (Rle_0_sqr (a * f - c * d)) as H2.
  pose proof (Rle_0_sqr (b * f - c * e)) as H3. unfold Rsqr in *. nra.
Qed.

Lemma sq_le_abs t s : 0 <= s -> t * t <= s * s -> - s <= t <= s.
Proof. intros. split; nra. Qed.

Lemma dot_le_norm a b c d e f A :
  d * d + e * e + f * f = 1 -> 0 <= A -> A * A = a * a + b * b + c * c -> a * d + b * e + c * f <= A.
Proof.
  intros Hu HA HAA. pose proof (cauchy_schwarz3 a b c d e f) as CS. rewrite Hu, Rmult_1_r, <- HAA in CS.
  apply (sq_le_abs _ _ HA CS).
Qed.

Lemma norm3_props a b c : let A := sqrt (a * a + b * b + c * c) in 0 <= A /\ A * A = a * a + b * b + c * c.
Proof. intros A. split; [apply sqrt_pos|]. apply sqrt_sqrt. nra. Qed.

(* Minkowski / triangle inequality in R^3 *)
Lemma norm3_triangle a b c d e f :
  sqrt ((a + d) * (a + d) + (b + e) * (b + e) + (c + f) * (c + f))
  <= sqrt (a * a + b * b + c * c) + sqrt (d * d + e * e + f * f).
Proof.
  destruct (norm3_props a b c) as [HA HAA]. destruct (norm3_props d e f) as [HB HBB].
  destruct (norm3_props (a + d) (b + e) (c + f)) as [HC HCC].
  set (A := sqrt (a * a + b * b + c * c)) in *. set (B := sqrt (d * d + e * e + f * f)) in *.
  set (C := sqrt ((a + d) * (a + d) + (b + e) * (b + e) + (c + f) * (c + f))) in *.
  assert (Hdot : a * d + b * e + c * f <= A * B).
  { pose proof (cauchy_schwarz3 a b c d e f) as CS. rewrite <- HAA, <- HBB in CS.
    assert (0 <= A * B) by nra.
    apply (sq_le_abs (a * d + b * e + c * f) (A * B) H). nra. }
  assert (C * C <= (A + B) * (A + B)) by nra.
  apply (sq_le_abs C (A + B)); nra.
Qed.

Lemma dist3_v3 a b c d e f : dist3 (v3 a b c) (v3 d e f) = sqrt ((a - d) * (a - d) + (b - e) * (b - e) + (c - f) * (c - f)).
Proof. unfold dist3. gsimp. reflexivity. Qed.

Lemma dist3_sym a b c d e f : dist3 (v3 a b c) (v3 d e f) = dist3 (v3 d e f) (v3 a b c).
Proof. rewrite !dist3_v3. f_equal. ring. Qed.

Lemma dist3_triangle a1 a2 a3 b1 b2 b3 c1 c2 c3 :
  dist3 (v3 a1 a2 a3) (v3 c1 c2 c3) <= dist3 (v3 a1 a2 a3) (v3 b1 b2 b3) + dist3 (v3 b1 b2 b3) (v3 c1 c2 c3).
Proof.
  rewrite !dist3_v3.
  pose proof (norm3_triangle (a1 - b1) (a2 - b2) (a3 - b3) (b1 - c1) (b2 - c2) (b3 - c3)) as T.
  replace (a1 - b1 + (b1 - c1)) with (a1 - c1) in T by ring.
  replace (a2 - b2 + (b2 - c2)) with (a2 - c2) in T by ring.
  replace (a3 - b3 + (b3 - c3)) with (a3 - c3) in T by ring.
  exact T.
Qed.

(* ------------------------------------------------------------------ sap_superset *)
(* geometry: if the sphere filter accepts two non-plane geoms (their bounding spheres inflated
   by margin+gap intersect) then their projection intervals on ANY unit axis overlap *)
Theorem sap_intervals_overlap d1 d2 d3 x1 y1 z1 x2 y2 z2 rb1 rb2 m1 m2 g1 g2 :
  d1 * d1 + d2 * d2 + d3 * d3 = 1 -> rb1 <> 0 -> rb2 <> 0 ->
  0 <= rb1 + rb2 + (m1 + g1) + (m2 + g2) ->
  _sphere_filter rb1 rb2 (m1 + g1) (m2 + g2) (v3 x1 y1 z1) (v3 x2 y2 z2) = true ->
  let i1 := sap_project1 (v3 d1 d2 d3) (v3 x1 y1 z1) rb1 m1 g1 in
  let i2 := sap_project1 (v3 d1 d2 d3) (v3 x2 y2 z2) rb2 m2 g2 in
  fst i2 <= snd i1 /\ fst i1 <= snd i2.
Proof.
  intros Hu H1 H2 Hb Hf. gsimp.
  apply Rleb_true in Hf.
  destruct (Reqb rb1 0) eqn:E1; [apply Reqb_true in E1; contradiction|].
  destruct (Reqb rb2 0) eqn:E2; [apply Reqb_true in E2; contradiction|].
  simpl.
  pose proof (cauchy_schwarz3 (x2 - x1) (y2 - y1) (z2 - z1) d1 d2 d3) as CS. rewrite Hu, Rmult_1_r in CS.
  set (t := (x2 - x1) * d1 + (y2 - y1) * d2 + (z2 - z1) * d3) in *.
  set (s := rb1 + rb2 + (m1 + g1) + (m2 + g2)) in *.
  assert (Ht : - s <= t <= s) by (apply sq_le_abs; [exact Hb|nra]).
  unfold t, s in Ht. split; lra.
Qed.

(* planes get radius MJ_MAXVAL: their interval covers every geom whose centre projection is
   within 1e10 of the plane's *)
Theorem sap_plane_interval d1 d2 d3 x1 y1 z1 x2 y2 z2 rb2 m1 m2 g1 g2 :
  0 <= m1 + g1 -> 0 <= rb2 + m2 + g2 ->
  Rabs ((d1 * x1 + d2 * y1 + d3 * z1) - (d1 * x2 + d2 * y2 + d3 * z2)) <= 10000000000 ->
  let i1 := sap_project1 (v3 d1 d2 d3) (v3 x1 y1 z1) 0 m1 g1 in
  let i2 := sap_project1 (v3 d1 d2 d3) (v3 x2 y2 z2) rb2 m2 g2 in
  fst i2 <= snd i1 /\ fst i1 <= snd i2.
Proof.
  intros Hm Hr Hc. gsimp.
  destruct (Reqb 0 0) eqn:E0; [|apply Reqb_false in E0; lra].
  assert (Hc' : - 10000000000 <= d1 * x1 + d2 * y1 + d3 * z1 - (d1 * x2 + d2 * y2 + d3 * z2) <= 10000000000).
  { unfold Rabs in Hc. destruct (Rcase_abs _) in Hc; lra. }
  destruct (Reqb rb2 0) eqn:E2; simpl.
  - apply Reqb_true in E2. subst. split; lra.
  - split; lra.
Qed.

(* combinatorics: in the sorted order, a later slot whose lower key is <= this slot's upper key
   is within this slot's range *)
Definition Rgtb (a b : R) : bool := Rltb b a.

Lemma keys_sorted_R n lower :
  (forall p q, (0 <= p)%Z -> (p <= q)%Z -> (q < n)%Z -> knth R 0 lower p <= knth R 0 lower q) ->
  keys_sorted R Rgtb 0 n lower.
Proof.
  intros Hs v p q H0 H1 H2. unfold Rgtb. rewrite !Rltb_true. intros Hp.
  specialize (Hs p q H0 H1 H2). lra.
Qed.

Theorem sap_range_covers n lower upper sort_index p q :
  (forall a b, (0 <= a)%Z -> (a <= b)%Z -> (b < n)%Z -> knth R 0 lower a <= knth R 0 lower b) ->
  (0 <= p)%Z -> (p < q)%Z -> (q < n)%Z ->
  knth R 0 lower q <= knth R 0 upper (znth sort_index p) ->
  (q <= p + sap_range1 R Rgtb 0%R n lower upper sort_index p)%Z.
Proof.
  intros Hs Hp Hpq Hq Hov.
  destruct (sap_range_spec R Rgtb 0 n lower upper sort_index p (keys_sorted_R n lower Hs) ltac:(lia)) as (_ & B & _).
  apply B; [lia|]. unfold Rgtb. apply Rltb_false. exact Hov.
Qed.

(* C18 sap_superset: sorted slots p < q of one world holding geoms a, b whose inflated bounding
   spheres intersect (the sphere filter accepts them): q is within p's range, so by
   sap_decode_bijection exactly one work package examines the pair *)
Theorem sap_superset n (px py pz rb mg gp : Z -> R) d1 d2 d3 lower upper sort_index p q :
  d1 * d1 + d2 * d2 + d3 * d3 = 1 ->
  (forall a b, (0 <= a)%Z -> (a <= b)%Z -> (b < n)%Z -> knth R 0 lower a <= knth R 0 lower b) ->
  (0 <= p)%Z -> (p < q)%Z -> (q < n)%Z ->
  let a := znth sort_index p in
  let b := znth sort_index q in
  let xpos g := v3 (px g) (py g) (pz g) in
  (* the sort carries keys with geoms; upper is indexed by geom id *)
  knth R 0 lower q = fst (sap_project1 (v3 d1 d2 d3) (xpos b) (rb b) (mg b) (gp b)) ->
  knth R 0 upper a = snd (sap_project1 (v3 d1 d2 d3) (xpos a) (rb a) (mg a) (gp a)) ->
  rb a <> 0 -> rb b <> 0 -> 0 <= rb a + rb b + (mg a + gp a) + (mg b + gp b) ->
  _sphere_filter (rb a) (rb b) (mg a + gp a) (mg b + gp b) (xpos a) (xpos b) = true ->
  (q <= p + sap_range1 R Rgtb 0%R n lower upper sort_index p)%Z.
Proof.
  intros Hu Hs Hp Hpq Hq a b xpos Hlo Hup Ha Hb Hbd Hf.
  apply sap_range_covers; try assumption. fold a. rewrite Hlo, Hup.
  destruct (sap_intervals_overlap d1 d2 d3 (px a) (py a) (pz a) (px b) (py b) (pz b)
              (rb a) (rb b) (mg a) (mg b) (gp a) (gp b) Hu Ha Hb Hbd Hf) as [H1 _].
  exact H1.
Qed.

(* ------------------------------------------------------------------ filters_sound *)
(* sphere filter: geoms contained in their bounding spheres (centre xpos, radius rbound);
   if some point of geom 1 and some point of geom 2 are closer than margin1+margin2 the
   filter accepts *)
Theorem sphere_filter_sound s1 s2 m1 m2 x1 y1 z1 x2 y2 z2 p1 p2 p3 q1 q2 q3 :
  dist3 (v3 p1 p2 p3) (v3 x1 y1 z1) <= s1 ->
  dist3 (v3 q1 q2 q3) (v3 x2 y2 z2) <= s2 ->
  dist3 (v3 p1 p2 p3) (v3 q1 q2 q3) < m1 + m2 ->
  _sphere_filter s1 s2 m1 m2 (v3 x1 y1 z1) (v3 x2 y2 z2) = true.
Proof.
  intros H1 H2 H3.
  pose proof (dist3_triangle x1 y1 z1 p1 p2 p3 x2 y2 z2) as T1.
  pose proof (dist3_triangle p1 p2 p3 q1 q2 q3 x2 y2 z2) as T2.
  rewrite (dist3_sym x1 y1 z1 p1 p2 p3) in T1.
  assert (HD : dist3 (v3 x1 y1 z1) (v3 x2 y2 z2) <= s1 + s2 + m1 + m2) by lra.
  rewrite dist3_v3 in HD.
  destruct (norm3_props (x1 - x2) (y1 - y2) (z1 - z2)) as [HA HAA].
  set (A := sqrt ((x1 - x2) * (x1 - x2) + (y1 - y2) * (y1 - y2) + (z1 - z2) * (z1 - z2))) in *.
  gsimp. apply Rleb_true.
  replace ((x2 - x1) * (x2 - x1) + (y2 - y1) * (y2 - y1) + (z2 - z1) * (z2 - z1)) with (A * A) by (rewrite HAA; ring).
  nra.
Qed.

(* plane filter, geom 1 is the plane (rbound 0) with unit normal = third column of xmat1:
   if some point of geom 2 (inside its bounding sphere) is closer to the plane than
   margin1+margin2 (signed distance, penetration included) the filter accepts *)
Theorem plane_filter_sound_1 s2 m1 m2 x1 y1 z1 x2 y2 z2 p1 p2 p3
        r00 r01 n1 r10 r11 n2 r20 r21 n3 (xmat2 : list R) :
  n1 * n1 + n2 * n2 + n3 * n3 = 1 ->
  dist3 (v3 p1 p2 p3) (v3 x2 y2 z2) <= s2 ->
  (p1 - x1) * n1 + (p2 - y1) * n2 + (p3 - z1) * n3 < m1 + m2 ->
  _plane_filter 0 s2 m1 m2 (v3 x1 y1 z1) (v3 x2 y2 z2) [r00; r01; n1; r10; r11; n2; r20; r21; n3] xmat2 = true.
Proof.
  intros Hu H1 H2. rewrite dist3_sym, dist3_v3 in H1.
  destruct (norm3_props (x2 - p1) (y2 - p2) (z2 - p3)) as [HA HAA].
  set (A := sqrt ((x2 - p1) * (x2 - p1) + (y2 - p2) * (y2 - p2) + (z2 - p3) * (z2 - p3))) in *.
  pose proof (dot_le_norm (x2 - p1) (y2 - p2) (z2 - p3) n1 n2 n3 A Hu HA HAA) as Hd.
  gsimp. destruct (Reqb 0 0) eqn:E0; [|apply Reqb_false in E0; lra].
  apply Rleb_true. nra.
Qed.

Theorem plane_filter_sound_2 s1 m1 m2 x1 y1 z1 x2 y2 z2 p1 p2 p3
        r00 r01 n1 r10 r11 n2 r20 r21 n3 (xmat1 : list R) :
  s1 <> 0 ->
  n1 * n1 + n2 * n2 + n3 * n3 = 1 ->
  dist3 (v3 p1 p2 p3) (v3 x1 y1 z1) <= s1 ->
  (p1 - x2) * n1 + (p2 - y2) * n2 + (p3 - z2) * n3 < m1 + m2 ->
  _plane_filter s1 0 m1 m2 (v3 x1 y1 z1) (v3 x2 y2 z2) xmat1 [r00; r01; n1; r10; r11; n2; r20; r21; n3] = true.
Proof.
  intros Hs Hu H1 H2. rewrite dist3_sym, dist3_v3 in H1.
  destruct (norm3_props (x1 - p1) (y1 - p2) (z1 - p3)) as [HA HAA].
  set (A := sqrt ((x1 - p1) * (x1 - p1) + (y1 - p2) * (y1 - p2) + (z1 - p3) * (z1 - p3))) in *.
  pose proof (dot_le_norm (x1 - p1) (y1 - p2) (z1 - p3) n1 n2 n3 A Hu HA HAA) as Hd.
  gsimp. destruct (Reqb s1 0) eqn:E1; [apply Reqb_true in E1; contradiction|].
  destruct (Reqb 0 0) eqn:E0; [|apply Reqb_false in E0; lra].
  apply Rleb_true. nra.
Qed.

Theorem plane_filter_no_plane s1 s2 m1 m2 xpos1 xpos2 xmat1 xmat2 :
  s1 <> 0 -> s2 <> 0 -> _plane_filter s1 s2 m1 m2 xpos1 xpos2 xmat1 xmat2 = true.
Proof.
  intros H1 H2. unfold _plane_filter. sR.
  destruct (Reqb s1 0) eqn:E1; [apply Reqb_true in E1; contradiction|].
  destruct (Reqb s2 0) eqn:E2; [apply Reqb_true in E2; contradiction|]. reflexivity.
Qed.

(* the dispatcher _broadphase_filter: with the AABB and OBB bits clear (masks 0..3) a pair of
   non-plane geoms closer than (margin1+gap1)+(margin2+gap2) is never rejected ... *)
Theorem filters_sound_spheres_partial mask obb c1 c2 sz1 sz2 rb1 rb2 m1 m2 g1 g2 x1 y1 z1 x2 y2 z2 xmat1 xmat2
        p1 p2 p3 q1 q2 q3 :
  Z.testbit mask 2 = false -> Z.testbit mask 3 = false ->
  rb1 <> 0 -> rb2 <> 0 ->
  dist3 (v3 p1 p2 p3) (v3 x1 y1 z1) <= rb1 ->
  dist3 (v3 q1 q2 q3) (v3 x2 y2 z2) <= rb2 ->
  dist3 (v3 p1 p2 p3) (v3 q1 q2 q3) < (m1 + g1) + (m2 + g2) ->
  bp_filter mask obb c1 c2 sz1 sz2 rb1 rb2 m1 m2 g1 g2 (v3 x1 y1 z1) (v3 x2 y2 z2) xmat1 xmat2 = true.
Proof.
  intros B2 B3 H1 H2 D1 D2 D3. unfold bp_filter. rewrite B2, B3.
  change (@seqb R ScalarR rb1 (sofZ 0)) with (Reqb rb1 0).
  change (@seqb R ScalarR rb2 (sofZ 0)) with (Reqb rb2 0).
  destruct (Reqb rb1 0) eqn:E1; [apply Reqb_true in E1; contradiction|].
  destruct (Reqb rb2 0) eqn:E2; [apply Reqb_true in E2; contradiction|].
  simpl orb. cbv iota.
  change (@sadd R ScalarR m1 g1) with (m1 + g1). change (@sadd R ScalarR m2 g2) with (m2 + g2).
  rewrite (sphere_filter_sound rb1 rb2 (m1 + g1) (m2 + g2) x1 y1 z1 x2 y2 z2 p1 p2 p3 q1 q2 q3 D1 D2 D3).
  destruct (Z.testbit mask 1); reflexivity.
Qed.

(* ... and for EVERY mask a plane / geom pair closer than the margins is never rejected
   (the plane branch ignores the sphere/AABB/OBB bits) *)
Theorem filters_sound_plane mask obb c1 c2 sz1 sz2 rb2 m1 m2 g1 g2 x1 y1 z1 x2 y2 z2 p1 p2 p3
        r00 r01 n1 r10 r11 n2 r20 r21 n3 xmat2 :
  n1 * n1 + n2 * n2 + n3 * n3 = 1 ->
  dist3 (v3 p1 p2 p3) (v3 x2 y2 z2) <= rb2 ->
  (p1 - x1) * n1 + (p2 - y1) * n2 + (p3 - z1) * n3 < (m1 + g1) + (m2 + g2) ->
  bp_filter mask obb c1 c2 sz1 sz2 0 rb2 m1 m2 g1 g2 (v3 x1 y1 z1) (v3 x2 y2 z2)
            [r00; r01; n1; r10; r11; n2; r20; r21; n3] xmat2 = true.
Proof.
  intros Hu D1 D2. unfold bp_filter.
  change (@seqb R ScalarR 0 (sofZ 0)) with (Reqb 0 0).
  destruct (Reqb 0 0) eqn:E0; [|apply Reqb_false in E0; lra].
  simpl orb. cbv iota.
  destruct (Z.testbit mask 0); [|reflexivity].
  change (@sadd R ScalarR m1 g1) with (m1 + g1). change (@sadd R ScalarR m2 g2) with (m2 + g2).
  exact (plane_filter_sound_1 rb2 (m1 + g1) (m2 + g2) x1 y1 z1 x2 y2 z2 p1 p2 p3
           r00 r01 n1 r10 r11 n2 r20 r21 n3 xmat2 Hu D1 D2).
Qed.

(* non-vacuity of the hypotheses *)
Example sphere_sound_example :
  _sphere_filter 1 1 (1/4) (1/4) (v3 0 0 0) (v3 (12/5) 0 0) = true.
Proof.
  apply (sphere_filter_sound 1 1 (1/4) (1/4) 0 0 0 (12/5) 0 0 1 0 0 (7/5) 0 0); rewrite dist3_v3.
  - replace ((1 - 0) * (1 - 0) + (0 - 0) * (0 - 0) + (0 - 0) * (0 - 0)) with (1 * 1) by ring.
    rewrite sqrt_square; lra.
  - replace ((7/5 - 12/5) * (7/5 - 12/5) + (0 - 0) * (0 - 0) + (0 - 0) * (0 - 0)) with (1 * 1) by field.
    rewrite sqrt_square; lra.
  - replace ((1 - 7/5) * (1 - 7/5) + (0 - 0) * (0 - 0) + (0 - 0) * (0 - 0)) with ((2/5) * (2/5)) by field.
    rewrite sqrt_square; lra.
Qed.

(* ================================================================== candidate sets *)
Local Open Scope Z_scope.

Lemma in_somes {A} (l : list (option A)) x : In x (somes l) <-> In (Some x) l.
Proof.
  induction l as [|[a|] l IH]; simpl; [tauto| |].
  - rewrite IH. split; intros [H|H]; auto; [left; congruence|left; congruence].
  - rewrite IH. split; [auto|]. intros [H|H]; [discriminate|auto].
Qed.

(* what the SAP sweep emits: exactly the emit results of the work packages 0 .. total-1 *)
Theorem sap_candidates_spec ngeom nworld nsweep sort_index cs pid0 pid1 gtype flt c :
  0 < nsweep -> 0 <= nworkpackages (nworld * ngeom) cs ->
  (In c (sap_candidates ngeom nworld nsweep sort_index cs pid0 pid1 gtype flt) <->
   exists k, 0 <= k < nworkpackages (nworld * ngeom) cs /\
             sap_emit ngeom sort_index pid0 pid1 gtype flt (decode ngeom (nworld * ngeom) cs k) = Some c).
Proof.
  intros Hns Ht. unfold sap_candidates. rewrite in_somes, in_map_iff.
  pose proof (work_order_perm nsweep _ Hns Ht) as P.
  split.
  - intros (k & Hk & Hin). exists k. split; [|exact Hk].
    apply (Permutation_in _ P) in Hin. apply In_zseq in Hin. lia.
  - intros (k & Hk & He). exists k. split; [exact He|].
    apply (Permutation_in _ (Permutation_sym P)). apply In_zseq. lia.
Qed.

Theorem nxn_candidates_spec nworld gpf pidf0 pidf1 gtype flt c :
  In c (nxn_candidates nworld gpf pidf0 pidf1 gtype flt) <->
  exists w e, 0 <= w < nworld /\ 0 <= e < Z.of_nat (length gpf) /\ nxn_emit gpf pidf0 pidf1 gtype flt w e = Some c.
Proof.
  unfold nxn_candidates. rewrite in_somes, in_flat_map. split.
  - intros (w & Hw & Hin). apply in_map_iff in Hin. destruct Hin as (e & He & Hin).
    apply In_zseq in Hw. apply In_zseq in Hin. exists w, e. repeat split; try lia. exact He.
  - intros (w & e & Hw & He & Hem). exists w. split; [apply In_zseq; lia|].
    apply in_map_iff. exists e. split; [exact Hem|apply In_zseq; lia].
Qed.

Section Equiv.
  Variables n W nsweep : Z.
  Variable sort_index : list (list Z).
  Variable r : list Z.
  Variables pid0 pid1 gtype : list Z.
  Variable gpf : list (Z * Z).
  Variables pidf0 pidf1 : list Z.
  Variable flt : Z -> Z -> Z -> bool.
  Hypothesis Hn : 0 < n.
  Hypothesis HW : 0 <= W.
  Hypothesis Hns : 0 < nsweep.
  Hypothesis Hlen : Z.of_nat (length r) = W * n.
  Hypothesis Hr : forall w i, 0 <= w < W -> 0 <= i < n -> 0 <= znth r (w * n + i) <= n - 1 - i.
  (* post-condition of the sort: every world's row is a permutation of the geom ids *)
  Hypothesis Hperm : forall w, 0 <= w < W -> Permutation (nth (Z.to_nat w) sort_index []) (zseq 0 (Z.to_nat n)).
  (* what put_model guarantees (C19 filtered_spec): the filtered arrays list exactly the pairs the
     SAP kernel does not skip, with the same sensor column *)
  Hypothesis Htab : forall a b, 0 <= a -> a < b < n ->
    (negb ((znth pid0 (upper_tri_index n a b) <? -1) && (znth pid1 (upper_tri_index n a b) <? 0)) = true <->
     exists e, 0 <= e < Z.of_nat (length gpf) /\ nth (Z.to_nat e) gpf (0, 0) = (a, b)) /\
    (forall e, 0 <= e < Z.of_nat (length gpf) -> nth (Z.to_nat e) gpf (0, 0) = (a, b) ->
       znth pidf0 e = znth pid0 (upper_tri_index n a b) /\ znth pidf1 e = znth pid1 (upper_tri_index n a b)).

  Let cs := cumsum r.
  Let N := W * n.

  Lemma row_slot w i : 0 <= w < W -> 0 <= i < n -> 0 <= znth (nth (Z.to_nat w) sort_index []) i < n.
  Proof.
    intros Hw Hi. pose proof (Hperm w Hw) as P.
    assert (L : length (nth (Z.to_nat w) sort_index []) = Z.to_nat n) by (rewrite (Permutation_length P); apply zseq_length).
    assert (Hin : In (znth (nth (Z.to_nat w) sort_index []) i) (nth (Z.to_nat w) sort_index [])) by (apply nth_In; lia).
    apply (Permutation_in _ P) in Hin. apply In_zseq in Hin. lia.
  Qed.

  Lemma row_inj w i j : 0 <= w < W -> 0 <= i < n -> 0 <= j < n -> i <> j ->
    znth (nth (Z.to_nat w) sort_index []) i <> znth (nth (Z.to_nat w) sort_index []) j.
  Proof.
    intros Hw Hi Hj Hne. pose proof (Hperm w Hw) as P.
    assert (L : length (nth (Z.to_nat w) sort_index []) = Z.to_nat n) by (rewrite (Permutation_length P); apply zseq_length).
    assert (ND : NoDup (nth (Z.to_nat w) sort_index [])).
    { apply (Permutation_NoDup (Permutation_sym P)). unfold zseq.
      apply FinFun.Injective_map_NoDup; [intros a b; lia|apply seq_NoDup]. }
    intros E. unfold znth in E. rewrite NoDup_nth in ND. specialize (ND (Z.to_nat i) (Z.to_nat j) ltac:(lia) ltac:(lia) E). lia.
  Qed.

  Lemma total_nonneg : 0 <= nworkpackages N cs.
  Proof.
    unfold N, cs. rewrite (total_eq n W r Hlen Hr).
    pose proof (prefix_mono n W r Hn HW Hlen Hr 0 (W * n) ltac:(lia) ltac:(nia) ltac:(lia)) as P.
    unfold prefix in P at 1. simpl in P. exact P.
  Qed.
  (* what sap_emit computes for two distinct in-range geoms: the id-ordered pair (a, b) = (min, max) *)
  Lemma sap_emit_ordered w i j :
    let row := nth (Z.to_nat w) sort_index [] in
    let a := Z.min (znth row i) (znth row j) in
    let b := Z.max (znth row i) (znth row j) in
    sap_emit n sort_index pid0 pid1 gtype flt (w, i, j) =
      if (znth pid0 (upper_tri_index n a b) <? -1) && (znth pid1 (upper_tri_index n a b) <? 0) then None
      else if flt w a b || (znth pid0 (upper_tri_index n a b) >=? 0) || (znth pid1 (upper_tri_index n a b) >=? 0)
           then Some (w, order_by_type gtype a b)
      else None.
  Proof.
    intros row a b. unfold sap_emit. fold row.
    assert (Ha : (if znth row j <? znth row i then znth row j else znth row i) = a)
      by (unfold a; destruct (znth row j <? znth row i) eqn:E; lia).
    assert (Hb : (if znth row j <? znth row i then znth row i else znth row j) = b)
      by (unfold b; destruct (znth row j <? znth row i) eqn:E; lia).
    rewrite Ha, Hb. reflexivity.
  Qed.

  (* C18 broadphase_equiv, INCLUDING the order in which the pair is stored:
     every SAP candidate is an NXN candidate ... *)
  Theorem sap_subset_nxn w x y :
    In (w, (x, y)) (sap_candidates n W nsweep sort_index cs pid0 pid1 gtype flt) ->
    In (w, (x, y)) (nxn_candidates W gpf pidf0 pidf1 gtype flt).
  Proof.
    intros Hin. apply sap_candidates_spec in Hin; [|exact Hns|apply total_nonneg].
    destruct Hin as (k & Hk & He).
    destruct (sap_decode_bijection n W r Hn HW Hlen Hr) as [Sound _].
    specialize (Sound k Hk). fold cs N in Sound.
    destruct (decode n N cs k) as [[w' i] j] eqn:D. destruct Sound as (Hw & Hi & Hij & Hjr & Hjn).
    unfold N in D. fold cs in He. rewrite D in He. rewrite sap_emit_ordered in He. cbv zeta in He.
    set (row := nth (Z.to_nat w') sort_index []) in *.
    pose proof (row_slot w' i Hw ltac:(lia)) as B1. pose proof (row_slot w' j Hw ltac:(lia)) as B2.
    pose proof (row_inj w' i j Hw ltac:(lia) ltac:(lia) ltac:(lia)) as Bne. fold row in B1, B2, Bne.
    set (a := Z.min (znth row i) (znth row j)) in *. set (b := Z.max (znth row i) (znth row j)) in *.
    destruct ((znth pid0 (upper_tri_index n a b) <? -1) && (znth pid1 (upper_tri_index n a b) <? 0)) eqn:Eskip; [discriminate|].
    destruct (flt w' a b || (znth pid0 (upper_tri_index n a b) >=? 0) || (znth pid1 (upper_tri_index n a b) >=? 0)) eqn:Eacc; [|discriminate].
    inversion He; subst w'. clear He.
    destruct (Htab a b ltac:(unfold a; lia) ltac:(unfold a, b; lia)) as [T1 T2].
    destruct (proj1 T1 ltac:(rewrite Eskip; reflexivity)) as (e & He & Hgp).
    apply nxn_candidates_spec. exists w, e. repeat split; try lia.
    unfold nxn_emit. destruct (T2 e He Hgp) as [T20 T21]. rewrite Hgp, T20, T21, Eacc. congruence.
  Qed.

  (* ... and an NXN candidate whose two sorted slots p < q are within range (q <= p + range[p],
     which sap_superset guarantees whenever the inflated bounding spheres intersect) is a SAP
     candidate, stored identically *)
  Theorem nxn_in_range_subset_sap w x y p q :
    In (w, (x, y)) (nxn_candidates W gpf pidf0 pidf1 gtype flt) ->
    0 <= w < W -> 0 <= p -> p < q -> q <= p + znth r (w * n + p) -> p < n ->
    (forall a b, In (a, b) gpf -> 0 <= a /\ a < b < n) ->
    (let row := nth (Z.to_nat w) sort_index [] in
     (znth row p = x /\ znth row q = y) \/ (znth row p = y /\ znth row q = x)) ->
    In (w, (x, y)) (sap_candidates n W nsweep sort_index cs pid0 pid1 gtype flt).
  Proof.
    intros Hin Hw Hp Hpq Hq Hpn Hgpf Hrow.
    apply nxn_candidates_spec in Hin. destruct Hin as (w' & e & Hw' & He & Hem).
    unfold nxn_emit in Hem. destruct (nth (Z.to_nat e) gpf (0, 0)) as [a b] eqn:Hgp.
    destruct (flt w' a b || (znth pidf0 e >=? 0) || (znth pidf1 e >=? 0)) eqn:Eacc; [|discriminate].
    inversion Hem; subst w'. clear Hem.
    assert (Hab : 0 <= a /\ a < b < n) by (apply Hgpf; rewrite <- Hgp; apply nth_In; lia).
    destruct (Htab a b ltac:(lia) ltac:(lia)) as [T1 T2].
    assert (Hskip : (znth pid0 (upper_tri_index n a b) <? -1) && (znth pid1 (upper_tri_index n a b) <? 0) = false).
    { apply negb_true_iff. apply T1. exists e. split; [lia|exact Hgp]. }
    destruct (sap_decode_bijection n W r Hn HW Hlen Hr) as [_ Compl].
    destruct (Compl w p q Hw ltac:(lia) Hpq Hq) as (k & Hk & Hd & _). fold cs N in Hk, Hd.
    set (row := nth (Z.to_nat w) sort_index []) in *. cbv zeta in Hrow.
    assert (Hxy : (x, y) = order_by_type gtype a b) by congruence.
    assert (Hset : (znth row p = a /\ znth row q = b) \/ (znth row p = b /\ znth row q = a)).
    { unfold order_by_type in Hxy. destruct (znth gtype a >? znth gtype b); inversion Hxy; subst; tauto. }
    assert (Hmin : Z.min (znth row p) (znth row q) = a /\ Z.max (znth row p) (znth row q) = b)
      by (destruct Hset as [[-> ->]|[-> ->]]; lia).
    destruct Hmin as [Hmin Hmax].
    apply sap_candidates_spec; [exact Hns|apply total_nonneg|].
    exists k. split; [exact Hk|]. unfold N in Hd. fold cs. rewrite Hd, sap_emit_ordered. cbv zeta. fold row.
    destruct (T2 e ltac:(lia) Hgp) as [T20 T21]. rewrite Hmin, Hmax, Hskip, <- T20, <- T21, Eacc. congruence.
  Qed.
End Equiv.

(* filters_sound for explicit pairs: a pair with an explicit <pair> id (>= 0) is emitted by both
   kernels whatever the filter mask / filter decision (repair of C18:filter:explicit-pair-margin-ignored):
   NXN for every listed element, SAP for every decoded work package *)
Theorem nxn_explicit_never_rejected gpf pidf0 pidf1 gtype flt w e :
  znth pidf0 e >= 0 ->
  nxn_emit gpf pidf0 pidf1 gtype flt w e =
    Some (w, order_by_type gtype (fst (nth (Z.to_nat e) gpf (0, 0))) (snd (nth (Z.to_nat e) gpf (0, 0)))).
Proof.
  intros H. unfold nxn_emit. destruct (nth (Z.to_nat e) gpf (0, 0)) as [a b]. simpl.
  assert (znth pidf0 e >=? 0 = true) as -> by lia. rewrite orb_true_r. reflexivity.
Qed.

Theorem sap_explicit_never_rejected ngeom sort_index pid0 pid1 gtype flt w i j :
  let row := nth (Z.to_nat w) sort_index [] in
  let a := Z.min (znth row i) (znth row j) in
  let b := Z.max (znth row i) (znth row j) in
  znth pid0 (upper_tri_index ngeom a b) >= 0 ->
  sap_emit ngeom sort_index pid0 pid1 gtype flt (w, i, j) = Some (w, order_by_type gtype a b).
Proof.
  intros row a b H. unfold sap_emit. fold row.
  assert (Ha : (if znth row j <? znth row i then znth row j else znth row i) = a)
    by (unfold a; destruct (znth row j <? znth row i) eqn:E; lia).
  assert (Hb : (if znth row j <? znth row i then znth row i else znth row j) = b)
    by (unfold b; destruct (znth row j <? znth row i) eqn:E; lia).
  rewrite Ha, Hb.
  assert (znth pid0 (upper_tri_index ngeom a b) <? -1 = false) as -> by lia.
  assert (znth pid0 (upper_tri_index ngeom a b) >=? 0 = true) as -> by lia.
  simpl. rewrite orb_true_r. reflexivity.
Qed.

(* ... but the SAP sweep only decodes pairs within `range`, and the projection radius
   (sap_project1) is built from geom_margin+geom_gap: an explicit pair whose pair margin exceeds the
   geoms' margins can lie OUTSIDE the range although it is within the pair's margin.  Three slots,
   the explicit pair sits in slots 0 and 2, range[0] = 1: NXN emits it, the SAP sweep never
   examines it.  (replayed on the real kernels by bin/props/C18.py; recorded finding) *)
Theorem sap_explicit_pair_outside_range_refuted :
  exists sort_index r pid0 pid1 gtype gpf pidf0 pidf1,
    In (0, (0, 2)) (nxn_candidates 1 gpf pidf0 pidf1 gtype (fun _ _ _ => false))
    /\ ~ In (0, (0, 2)) (sap_candidates 3 1 15 sort_index (cumsum r) pid0 pid1 gtype (fun _ _ _ => false)).
Proof.
  exists [[0; 1; 2]], [1; 0; 0], [-1; 0; -1], [-1; -1; -1], [2; 2; 2], [(0, 1); (0, 2); (1, 2)], [-1; 0; -1], [-1; -1; -1].
  split; vm_compute; intuition congruence.
Qed.

(* Regression instance of the repaired finding C18:sap:same-type-pair-emitted-in-sort-order:
   two geoms of the same type, geom 1 sorted before geom 0.  Both broadphases now store the pair
   as (0,1) (before the repair the SAP sweep stored (1,0)).  The same scene is replayed on the
   real kernels by bin/props/C18.py on every run. *)
Theorem sap_pair_order_same :
  sap_candidates 2 1 10 [[1; 0]] (cumsum [1; 0]) [-1] [-1] [2; 2] (fun _ _ _ => true) = [(0, (0, 1))]
  /\ nxn_candidates 1 [(0, 1)] [-1] [-1] [2; 2] (fun _ _ _ => true) = [(0, (0, 1))].
Proof. split; vm_compute; reflexivity. Qed.
