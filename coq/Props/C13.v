(* Props/C13.v -- C13 "reset_data restores a fresh Data".
   Statements only; every proof is `exact <lemma of Proof/Reset.v>`.  All functions named here
   (reset_data, fresh, obs, contacts_of, ...) are the hand-written executable model Model/Reset.v of
   io.py make_data / reset_data; bin/props/C13.py ties it to /repo on every run (ast extraction of
   launch outputs, loop bounds and guards; bit-exact correspondence cases; replay of the wit_* witnesses).

   hyps m d = wf_model m /\ tables_consistent m /\ mj_model m /\ wf_data m d, where d is ANY well-formed
   Data (a superset of the states a history can reach).
   obs d w = (the World record of world w: every field reset_data writes - integration state incl. act and
   history, counters, sleep arrays, qacc, act_dot, sensordata, M, cvel, cdof_dot, efc.J - , the contacts
   reported for w). *)
From Coq Require Import ZArith List Bool.
From VF Require Import Base.Loop Model.Reset Proof.Reset.
Import ListNotations.
Local Open Scope Z_scope.

(* ---- selected worlds: the full statement ------------------------------------------------------- *)
Theorem C13_reset_eq_fresh : forall m d mask d' w,
  hyps m d -> reset_data m mask d = Some d' -> 0 <= w < nworld d -> selected mask w = true ->
  obs d' w = obs (fresh m (nworld d) (naconmax d)) w.
Proof. exact reset_eq_fresh. Qed.
Print Assumptions C13_reset_eq_fresh.

(* the same, world by world, SLEEP flag enabled or not *)
Theorem C13_reset_world_eq_fresh : forall m w x,
  wf_model m -> tables_consistent m -> mj_model m -> wf_world m x -> 0 <= w ->
  post_sleep m (reset_world m w x) = fresh_world m.
Proof. exact reset_world_eq_fresh. Qed.
Print Assumptions C13_reset_world_eq_fresh.

(* every contact of a selected world disappears, under every mask *)
Theorem C13_reset_contacts_selected : forall m mask d w,
  0 <= w < nworld d -> selected mask w = true -> contacts_of (reset_kernels m mask d) w = [].
Proof. exact reset_contacts_selected. Qed.
Print Assumptions C13_reset_contacts_selected.

(* the repaired defects on their former witnesses (explicit values) *)
Theorem C13_reset_act_regression :
  nu wit_act_m < na wit_act_m /\
  w_act (the (world_of wit_act_d 0) wit_act_m) <> zeros (na wit_act_m) /\
  w_act (the (world_of (reset_kernels wit_act_m None wit_act_d) 0) wit_act_m) = zeros (na wit_act_m).
Proof. exact reset_act_regression. Qed.
Print Assumptions C13_reset_act_regression.

Theorem C13_reset_history_regression :
  w_history (the (world_of wit_hist_d 0) wit_hist_m) <> h_history0 wit_hist_m /\
  w_history (the (world_of (reset_kernels wit_hist_m None wit_hist_d) 0) wit_hist_m) = h_history0 wit_hist_m.
Proof. exact reset_history_regression. Qed.
Print Assumptions C13_reset_history_regression.

Theorem C13_reset_body_awake_regression :
  w_body_awake (the (world_of (reset_kernels wit_mchild_m None wit_mchild_d) 0) wit_mchild_m) = [STATIC; AWAKE; AWAKE; AWAKE].
Proof. exact reset_body_awake_regression. Qed.
Print Assumptions C13_reset_body_awake_regression.

(* ---- unselected worlds: the full statement is false on the model that copies the code (F4, open) --- *)
Theorem C13_reset_frame_refuted : ~ reset_frame_stmt.
Proof. exact reset_frame_refuted. Qed.
Print Assumptions C13_reset_frame_refuted.

(* (a) world 0 selected => nacon := 0 and an unselected world loses its contacts;
   (b) world 0 not selected => cleared slots are retagged worldid 0 and world 0 gains contacts.
   Both witnesses are the explicit state wit_con (2 worlds, one contact each). *)
Theorem C13_reset_frame_contacts_refuted :
  (exists m d mask d' w, hyps m d /\ reset_data m mask d = Some d' /\ 0 <= w < nworld d /\
      selected mask w = false /\ selected mask 0 = true /\
      nacon d' = 0 /\ contacts_of d w <> [] /\ contacts_of d' w = []) /\
  (exists m d mask d' w, hyps m d /\ reset_data m mask d = Some d' /\ 0 <= w < nworld d /\
      selected mask w = false /\ w = 0 /\
      (length (contacts_of d' w) > length (contacts_of d w))%nat).
Proof. exact reset_frame_contacts_refuted. Qed.
Print Assumptions C13_reset_frame_contacts_refuted.

(* What does hold for an unselected world.  _partial: fields untouched only when SLEEP is disabled
   (otherwise update_sleep is re-run on every world); contacts kept only when world 0 is not selected and
   w <> 0. *)
Theorem C13_reset_frame_partial : forall m d mask d' w,
  reset_data m mask d = Some d' -> selected mask w = false ->
  world_of d' w = option_map (post_sleep m) (world_of d w) /\
  (sleep_enabled m = false -> world_of d' w = world_of d w) /\
  (selected mask 0 = false -> 0 < w -> contacts_of d' w = contacts_of d w).
Proof. exact reset_frame_partial. Qed.
Print Assumptions C13_reset_frame_partial.

(* world 0 unselected keeps its contacts iff nothing is cleared: no slot below nacon belongs to a
   selected world *)
Theorem C13_reset_frame_contacts_untouched_partial : forall m mask d,
  selected mask 0 = false ->
  (forall c, In c (firstn (Z.to_nat (nacon d)) (contacts d)) -> slot_kept mask c = true) ->
  contacts (reset_kernels m mask d) = contacts d /\ nacon (reset_kernels m mask d) = nacon d.
Proof. exact reset_frame_contacts_untouched. Qed.
Print Assumptions C13_reset_frame_contacts_untouched_partial.

Theorem C13_reset_mask_shape_rejected : forall m l d, lenZ l <> nworld d -> reset_data m (Some l) d = None.
Proof. exact reset_mask_shape_rejected. Qed.
Print Assumptions C13_reset_mask_shape_rejected.

(* the hypotheses are satisfiable (states built on the real code): na > nu; a partial mask with contacts *)
Theorem C13_hyps_satisfiable_act : hyps wit_act_m wit_act_d.
Proof. exact wit_act_hyps. Qed.
Print Assumptions C13_hyps_satisfiable_act.

Theorem C13_hyps_satisfiable :
  hyps wit_con_m wit_con_d /\ sleep_enabled wit_con_m = false /\
  selected (Some [false; true]) 0 = false /\ selected (Some [false; true]) 1 = true /\ contacts_of wit_con_d 1 <> [].
Proof. exact reset_partial_hyps_sat. Qed.
Print Assumptions C13_hyps_satisfiable.
