(* Props/C24.v -- C24 "Constraint forces are physically admissible".
   Statements only; every proof is `exact <lemma of Proof/Solver.v>`.
   `ec` = _eval_constraint and `emid` = _eval_elliptic_middle are the definitions REGENERATED from
   /repo/mujoco_warp/_src/solver.py (Gen/solver.v) at the reals; a row result is [force; state; cost]
   (r_force / r_state / r_cost).  kernel_row_simple / block_row_normal / block_tangents are the
   hand-written copy (Model/SolverHand.v) of how the kernel _update_constraint_efc assembles the
   arguments; it is run against the real kernel on every check.
   State codes: 0 SATISFIED, 1 QUADRATIC, 2 LINEARNEG, 3 LINEARPOS, 4 CONE. *)
From Coq Require Import ZArith Reals List Bool.
From VF Require Import Base.Scalar Base.ScalarR Base.Vec Gen.solver Model.SolverHand Proof.Solver.
Import ListNotations.
Local Open Scope R_scope.

(* limit, frictionless-contact and pyramidal-edge rows (not equality, not friction, not elliptic):
   the force is never negative *)
Theorem C24_limit_contact_force_nonneg :
  forall jaref D fl id id0 j0 D0 mu uf TT, 0 < D ->
    0 <= r_force (ec false false false jaref D fl id id0 j0 D0 mu uf TT).
Proof. exact limit_contact_force_nonneg. Qed.
Print Assumptions C24_limit_contact_force_nonneg.

(* the same through the kernel's row classification: every row at or after ne+nf that is not elliptic *)
Theorem C24_pyramid_edge_nonneg :
  forall ne nf efcid jaref D fl, (0 <= nf)%Z -> (ne + nf <= efcid)%Z -> 0 < D ->
    0 <= r_force (@kernel_row_simple R ScalarR ne nf efcid jaref D fl).
Proof. exact kernel_row_contact_nonneg. Qed.
Print Assumptions C24_pyramid_edge_nonneg.

(* a row reported SATISFIED carries no force and no cost - every kind, every input *)
Theorem C24_satisfied_zero_force :
  forall ie ifr iel jaref D fl id id0 j0 D0 mu uf TT,
    r_state (ec ie ifr iel jaref D fl id id0 j0 D0 mu uf TT) = 0 ->
    r_force (ec ie ifr iel jaref D fl id id0 j0 D0 mu uf TT) = 0 /\
    r_cost (ec ie ifr iel jaref D fl id id0 j0 D0 mu uf TT) = 0.
Proof. exact satisfied_zero_force. Qed.
Print Assumptions C24_satisfied_zero_force.

(* friction-loss rows never exceed their friction loss *)
Theorem C24_frictionloss_bounded :
  forall iel jaref D fl id id0 j0 D0 mu uf TT, 0 < D -> 0 <= fl ->
    Rabs (r_force (ec false true iel jaref D fl id id0 j0 D0 mu uf TT)) <= fl.
Proof. exact frictionloss_bounded. Qed.
Print Assumptions C24_frictionloss_bounded.

Theorem C24_frictionloss_bounded_kernel_row :
  forall ne nf efcid jaref D fl, (ne <= efcid < ne + nf)%Z -> 0 < D -> 0 <= fl ->
    Rabs (r_force (@kernel_row_simple R ScalarR ne nf efcid jaref D fl)) <= fl.
Proof. exact kernel_row_friction_bounded. Qed.
Print Assumptions C24_frictionloss_bounded_kernel_row.

(* equality rows: force = -D*jaref, always QUADRATIC *)
Theorem C24_equality_force :
  forall ifr iel jaref D fl id id0 j0 D0 mu uf TT,
    r_force (ec true ifr iel jaref D fl id id0 j0 D0 mu uf TT) = - D * jaref /\
    r_state (ec true ifr iel jaref D fl id id0 j0 D0 mu uf TT) = 1 /\
    r_cost (ec true ifr iel jaref D fl id id0 j0 D0 mu uf TT) = 1/2 * D * jaref * jaref.
Proof. exact equality_force. Qed.
Print Assumptions C24_equality_force.

(* elliptic rows, zone by zone (N = jaref0*mu, T = Tof TT = sqrt TT or 0 when TT <= 0) *)
Theorem C24_elliptic_top_zero :
  forall jaref D fl id id0 j0 D0 mu uf TT,
    top_zone mu (j0 * mu) (Tof TT) ->
    ec false false true jaref D fl id id0 j0 D0 mu uf TT = [0; 0; 0].
Proof. exact elliptic_top_zero. Qed.
Print Assumptions C24_elliptic_top_zero.

Theorem C24_elliptic_bottom_quadratic :
  forall jaref D fl id id0 j0 D0 mu uf TT,
    ~ top_zone mu (j0 * mu) (Tof TT) -> bottom_zone mu (j0 * mu) (Tof TT) ->
    ec false false true jaref D fl id id0 j0 D0 mu uf TT = [- D * jaref; 1; 1/2 * D * jaref * jaref].
Proof. exact elliptic_bottom_quadratic. Qed.
Print Assumptions C24_elliptic_bottom_quadratic.

(* middle zone, normal row: force = -dm (N - mu T) mu with dm = D0 / (mu^2 (1 + mu^2)), state CONE *)
Theorem C24_elliptic_middle_normal :
  forall jaref D fl id j0 D0 mu uf TT, 0 < mu ->
    ~ top_zone mu (j0 * mu) (Tof TT) -> ~ bottom_zone mu (j0 * mu) (Tof TT) ->
    ec false false true jaref D fl id id j0 D0 mu uf TT
    = [- dm_of D0 mu * (j0 * mu - mu * Tof TT) * mu; 4;
       1/2 * dm_of D0 mu * (j0 * mu - mu * Tof TT) * (j0 * mu - mu * Tof TT)].
Proof. exact elliptic_middle_normal. Qed.
Print Assumptions C24_elliptic_middle_normal.

(* middle zone, tangent row: force = -(f_N / T) * ufrictionj, no cost of its own *)
Theorem C24_elliptic_middle_tangent :
  forall jaref D fl id id0 j0 D0 mu uf TT, 0 < mu -> id <> id0 ->
    ~ top_zone mu (j0 * mu) (Tof TT) -> ~ bottom_zone mu (j0 * mu) (Tof TT) ->
    ec false false true jaref D fl id id0 j0 D0 mu uf TT
    = [- ((- dm_of D0 mu * (j0 * mu - mu * Tof TT) * mu) / Tof TT) * uf; 4; 0].
Proof. exact elliptic_middle_tangent. Qed.
Print Assumptions C24_elliptic_middle_tangent.

(* in the middle zone the tangential length T is positive and N - mu T < 0 (so f_N > 0) *)
Theorem C24_middle_zone_facts :
  forall mu N T, 0 <= T -> ~ top_zone mu N T -> ~ bottom_zone mu N T ->
    0 < T /\ N < mu * T /\ 0 < mu * N + T.
Proof. exact middle_zone_facts. Qed.
Print Assumptions C24_middle_zone_facts.

(* the normal row of an elliptic contact never pulls, in any zone *)
Theorem C24_elliptic_normal_force_nonneg :
  forall fl id j0 D0 mu uf TT, 0 < D0 -> 0 < mu ->
    0 <= r_force (ec false false true j0 D0 fl id id j0 D0 mu uf TT).
Proof. exact elliptic_normal_force_nonneg. Qed.
Print Assumptions C24_elliptic_normal_force_nonneg.

(* the assembled contact: rows = (jaref_k, friction_k, D_k) of the tangent rows, the kernel computes
   TT = sum (jaref_k friction_k)^2 and ufriction_k = jaref_k friction_k^2.  With the row masses that
   constraint.py produces (D_k mu^2 = D_0 friction_k^2) the contact force lies in the friction cone
   in all three zones:  f_N >= 0  and  sum_k (f_k / friction_k)^2 <= f_N^2. *)
Theorem C24_elliptic_in_cone :
  forall adr0 fri0 impr j0 D0 (rows : list (R * R * R)),
    let mu := fri0 * impr in
    let jt := map (fun r => fst (fst r)) rows in
    let fr := map (fun r => snd (fst r)) rows in
    0 < D0 -> 0 < mu ->
    (forall jk fk Dk, In (jk, fk, Dk) rows -> 0 < fk /\ Dk * (mu * mu) = D0 * (fk * fk)) ->
    let fN := r_force (@block_row_normal R ScalarR adr0 j0 D0 mu jt fr) in
    0 <= fN /\ sumsq (scaled_tangents adr0 j0 D0 mu jt fr 0 rows) <= fN * fN.
Proof. exact elliptic_in_cone. Qed.
Print Assumptions C24_elliptic_in_cone.

(* the state code identifies the formula that produced force and cost *)
Theorem C24_state_matches_force :
  forall ie ifr iel jaref D fl id id0 j0 D0 mu uf TT,
    let r := ec ie ifr iel jaref D fl id id0 j0 D0 mu uf TT in
    (r_state r = 0 -> r_force r = 0 /\ r_cost r = 0) /\
    (r_state r = 1 -> r_force r = - D * jaref /\ r_cost r = 1/2 * D * jaref * jaref) /\
    (r_state r = 2 -> ie = false /\ ifr = true /\ r_force r = fl) /\
    (r_state r = 3 -> ie = false /\ ifr = true /\ r_force r = - fl) /\
    (r_state r = 4 -> ie = false /\ ifr = false /\ iel = true /\
       r_force r = nth 0 (emid (j0 * mu) (Tof TT) D0 mu uf (Z.eqb id id0)) 0 /\
       r_cost r = nth 1 (emid (j0 * mu) (Tof TT) D0 mu uf (Z.eqb id id0)) 0).
Proof. exact state_matches_force. Qed.
Print Assumptions C24_state_matches_force.

Theorem C24_state_code_range :
  forall ie ifr iel jaref D fl id id0 j0 D0 mu uf TT,
    let s := r_state (ec ie ifr iel jaref D fl id id0 j0 D0 mu uf TT) in
    s = 0 \/ s = 1 \/ s = 2 \/ s = 3 \/ s = 4.
Proof. exact state_code_range. Qed.
Print Assumptions C24_state_code_range.

(* non-vacuity: each zone is inhabited, and the hypotheses of the assembled theorem are met by a
   concrete condim-3 contact (mu = 1/2, D_0 = 2, tangent rows with friction 1/2 and D = 2) *)
Example C24_zones_inhabited :
  top_zone 1 (2 * 1) (Tof 1) /\
  (~ top_zone 1 ((-2) * 1) (Tof 1) /\ bottom_zone 1 ((-2) * 1) (Tof 1)) /\
  (~ top_zone 1 (0 * 1) (Tof 1) /\ ~ bottom_zone 1 (0 * 1) (Tof 1)).
Proof. exact zones_inhabited. Qed.

Example C24_cone_hypotheses_satisfiable :
  let mu := (1/2) * 1 in
  0 < 2 /\ 0 < mu /\
  (forall jk fk Dk, In (jk, fk, Dk) [(1, 1/2, 2); (-3, 1/2, 2)] -> 0 < fk /\ Dk * (mu * mu) = 2 * (fk * fk)).
Proof. exact cone_hypotheses_satisfiable. Qed.
