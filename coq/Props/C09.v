(* Props/C09.v -- C09 "Worlds in a batch do not influence each other".
   (a) theorem about the operational access model (Model/Batch.v): for ANY kernels whose
       accesses obey the batch-indexing discipline, ANY launch and ANY schedule, what world w
       can observe after the launch equals what it observes when only its own tasks run;
   (b) the regenerated access table of /repo (Gen/Skel_access.v: every array access of every
       kernel reachable from step/forward/step1/step2/inverse) obeys the discipline, up to the
       committed baseline (Model/BatchBaseline.v).
   Flat contact buffers and global atomic counters are outside (a): they are covered by the
   allocation theorems of C16 (Model/Alloc.v) and by the dynamic batch experiment. *)
From Coq Require Import String List Bool Arith.
From VF Require Import Model.Batch Model.BatchBaseline Proof.Batch Gen.Skel_access.
Import ListNotations.

Theorem C09_launch_noninterference :
  forall (V : Type) (size : string -> nat) (wild : list V -> nat) (role_of : string -> role)
         (w : nat) (ts : list (task V)),
    tasks_ok V role_of ts = true ->
    forall h h', agree_for V role_of w h h' ->
      agree_for V role_of w (launch V size wild ts h)
                (launch V size wild (filter (fun t => Nat.eqb (fst t) w) ts) h').
Proof. exact launch_noninterference. Qed.
Print Assumptions C09_launch_noninterference.

Theorem C09_schedule_other_worlds_irrelevant :
  forall (V : Type) (size : string -> nat) (wild : list V -> nat) (role_of : string -> role)
         (w : nat) (ts1 ts2 : list (task V)) (h : heap V),
    tasks_ok V role_of ts1 = true -> tasks_ok V role_of ts2 = true ->
    filter (fun t => Nat.eqb (fst t) w) ts1 = filter (fun t => Nat.eqb (fst t) w) ts2 ->
    agree_for V role_of w (launch V size wild ts1 h) (launch V size wild ts2 h).
Proof. exact schedule_other_worlds_irrelevant. Qed.
Print Assumptions C09_schedule_other_worlds_irrelevant.

(* the current source obeys the discipline (vm_compute over the regenerated table) *)
Theorem C09_discipline_holds_on_current_source : discipline_ok baseline accesses = true.
Proof. vm_compute. reflexivity. Qed.
Print Assumptions C09_discipline_holds_on_current_source.

(* non-vacuity: a disciplined two-world launch exists and satisfies the hypotheses *)
Example C09_tasks_ok_example :
  tasks_ok nat (fun _ => RWorld)
    [ (0, [ORead nat "qpos" RWorld IW (fun _ => 0); OWrite nat "qpos" RWorld IW (fun _ => 1) (fun s => hd 0 s + 1)]);
      (1, [OWrite nat "qpos" RWorld IW (fun _ => 0) (fun _ => 7)]) ] = true.
Proof. reflexivity. Qed.
