(* Props/C20.v -- C20 "Contacts are geometrically valid".
   Statements only; every proof is `exact <lemma of Proof/Contact.v>`.  make_frame, orthogonals,
   closest_segment_point are the definitions REGENERATED from /repo/mujoco_warp/_src/math.py
   (Gen/math.v); plane_sphere, sphere_sphere, sphere_capsule, plane_capsule those regenerated from
   collision_primitive_core.py (Gen/primitive_core.v).  All statements are over the reals; float32
   rounding, the wrappers/kernels that call these functions, and the pairs without a theorem
   (capsule-capsule, cylinder, box, ellipsoid, GJK/EPA) are covered by T-validation / the oracle only.
   Notation of Proof/Contact.v: v3 x y z = [x;y;z], nsq = squared norm, dot3 = dot product,
   mid a b = (a+b)/2, I3 = identity, eps = 1/1000000, clamp01 = wp.clamp(.,0,1),
   seg_point a b s = a + s (b-a), code_t = (p-a).(b-a)/(|b-a|^2+eps), true_t the same without eps,
   true_closest a b p = seg_point a b (clamp01 (true_t a b p)),
   pick_e u1 = y axis if |u1| < 1/2 else z axis, gs u e = wp.normalize(e - u (u.e)). *)
From Coq Require Import ZArith Reals List.
From VF Require Import Base.Scalar Base.ScalarR Base.Vec Gen.math Gen.primitive_core Proof.Contact.
Import ListNotations.
Local Open Scope R_scope.

(* ---- contact frame ------------------------------------------------------ *)
(* a <> 0: first row a/|a|, second row the normalised Gram-Schmidt residual of y (or z when
   |a_y|/|a| >= 1/2), third row = row1 x row2, rows orthonormal, determinant +1 *)
Theorem C20_make_frame_orthonormal :
  forall x y z : R,
    v3 x y z <> v3 0 0 0 ->
    let F := make_frame (v3 x y z) in
    mrow 3 F 0 = vdivs (v3 x y z) (vlen (v3 x y z)) /\
    mrow 3 F 1 = gs (mrow 3 F 0) (pick_e (y / vlen (v3 x y z))) /\
    mrow 3 F 2 = vcross (mrow 3 F 0) (mrow 3 F 1) /\
    mat_mat 3 3 3 F (mtranspose 3 3 F) = I3 /\ mdet3 F = 1.
Proof. exact make_frame_orthonormal. Qed.
Print Assumptions C20_make_frame_orthonormal.

(* the primitives pass a unit normal: the frame's first row is that normal *)
Theorem C20_make_frame_unit :
  forall x y z : R,
    nsq x y z = 1 ->
    let F := make_frame (v3 x y z) in
    mrow 3 F 0 = v3 x y z /\
    mrow 3 F 2 = vcross (mrow 3 F 0) (mrow 3 F 1) /\
    mat_mat 3 3 3 F (mtranspose 3 3 F) = I3 /\ mdet3 F = 1.
Proof. exact make_frame_unit. Qed.
Print Assumptions C20_make_frame_unit.

(* the zero vector gives the zero matrix (wp.normalize(0)=0 and the explicit length==0 branch) *)
Theorem C20_make_frame_zero : make_frame (v3 0 0 0) = [0; 0; 0; 0; 0; 0; 0; 0; 0].
Proof. exact make_frame_zero. Qed.
Print Assumptions C20_make_frame_zero.

(* ---- plane - sphere ------------------------------------------------------ *)
Theorem C20_plane_sphere_contact :
  forall n0 n1 n2 q0 q1 q2 c0 c1 c2 r : R,
    nsq n0 n1 n2 = 1 ->
    let n := v3 n0 n1 n2 in
    let q := v3 q0 q1 q2 in
    let c := v3 c0 c1 c2 in
    let h := vdot (vsub c q) n in
    let s1 := vsub c (vscale h n) in
    let s2 := vsub c (vscale r n) in
    let '(dist, pos) := plane_sphere n q c r in
    dist = h - r /\
    vdot (vsub s1 q) n = 0 /\
    vlen_sq (vsub s2 c) = r * r /\ vsub s2 s1 = vscale dist n /\ pos = mid s1 s2.
Proof. exact plane_sphere_contact. Qed.
Print Assumptions C20_plane_sphere_contact.

(* ---- sphere - sphere ----------------------------------------------------- *)
Theorem C20_sphere_sphere_contact :
  forall x1 y1 z1 r1 x2 y2 z2 r2 : R,
    v3 x1 y1 z1 <> v3 x2 y2 z2 ->
    let p1 := v3 x1 y1 z1 in
    let p2 := v3 x2 y2 z2 in
    let d := vlen (vsub p2 p1) in
    let '(dist, pos, n) := sphere_sphere p1 r1 p2 r2 in
    let s1 := vadd p1 (vscale r1 n) in
    let s2 := vsub p2 (vscale r2 n) in
    0 < d /\
    n = vdivs (vsub p2 p1) d /\
    vlen_sq n = 1 /\
    vdot (vsub p2 p1) n = d /\ dist = d - r1 - r2 /\ vsub s2 s1 = vscale dist n /\ pos = mid s1 s2.
Proof. exact sphere_sphere_contact. Qed.
Print Assumptions C20_sphere_sphere_contact.

(* coincident centres: fixed normal (1,0,0), dist = -(r1+r2), pos shifted along x by (r1-r2)/2 *)
Theorem C20_sphere_sphere_coincident :
  forall x y z r1 r2 : R,
    sphere_sphere (v3 x y z) r1 (v3 x y z) r2 = (- (r1 + r2), v3 (x + (r1 - r2) / 2) y z, v3 1 0 0).
Proof. exact sphere_sphere_coincident. Qed.
Print Assumptions C20_sphere_sphere_coincident.

(* ---- closest_segment_point and its 1e-6 regulariser ---------------------- *)
Theorem C20_closest_segment_point_exact :
  forall a b p : list R, closest_segment_point a b p = seg_point a b (clamp01 (code_t a b p)).
Proof. exact closest_segment_point_exact. Qed.
Print Assumptions C20_closest_segment_point_exact.

Theorem C20_code_t_relation :
  forall a0 a1 a2 b0 b1 b2 p0 p1 p2 : R,
    v3 a0 a1 a2 <> v3 b0 b1 b2 ->
    let a := v3 a0 a1 a2 in
    let b := v3 b0 b1 b2 in
    let p := v3 p0 p1 p2 in
    let D := vlen_sq (vsub b a) in 0 < D /\ code_t a b p = true_t a b p * (D / (D + eps)).
Proof. exact code_t_relation. Qed.
Print Assumptions C20_code_t_relation.

Theorem C20_closest_segment_point_degenerate :
  forall a0 a1 a2 p0 p1 p2 : R,
    closest_segment_point (v3 a0 a1 a2) (v3 a0 a1 a2) (v3 p0 p1 p2) = v3 a0 a1 a2.
Proof. exact closest_segment_point_degenerate. Qed.
Print Assumptions C20_closest_segment_point_degenerate.

(* true_closest really is the nearest point of the segment *)
Theorem C20_true_closest_is_min :
  forall a0 a1 a2 b0 b1 b2 p0 p1 p2 s : R,
    v3 a0 a1 a2 <> v3 b0 b1 b2 ->
    0 <= s <= 1 ->
    let a := v3 a0 a1 a2 in
    let b := v3 b0 b1 b2 in
    let p := v3 p0 p1 p2 in
    vlen_sq (vsub p (true_closest a b p)) <= vlen_sq (vsub p (seg_point a b s)).
Proof. exact true_closest_is_min. Qed.
Print Assumptions C20_true_closest_is_min.

(* error bound  |pt - pt*| <= eps/(|ab|^2+eps) * |pt* - a| *)
Theorem C20_closest_segment_point_error :
  forall a0 a1 a2 b0 b1 b2 p0 p1 p2 : R,
    v3 a0 a1 a2 <> v3 b0 b1 b2 ->
    let a := v3 a0 a1 a2 in
    let b := v3 b0 b1 b2 in
    let p := v3 p0 p1 p2 in
    let D := vlen_sq (vsub b a) in
    vlen (vsub (closest_segment_point a b p) (true_closest a b p)) <=
    eps / (D + eps) * vlen (vsub (true_closest a b p) a).
Proof. exact closest_segment_point_error. Qed.
Print Assumptions C20_closest_segment_point_error.

(* the docstring "Returns the closest point on the a-b line segment" is false (finding F8):
   witness a = (-1mm,0,0), b = (1mm,0,0), p = (1mm,0,1) *)
Theorem C20_closest_segment_point_is_closest_refuted :
  exists a b p : list R, a <> b /\ closest_segment_point a b p <> true_closest a b p.
Proof. exact closest_segment_point_is_closest_refuted. Qed.
Print Assumptions C20_closest_segment_point_is_closest_refuted.

(* ---- sphere - capsule ---------------------------------------------------- *)
Theorem C20_sphere_capsule_contact :
  forall s0 s1 s2 rs c0 c1 c2 x0 x1 x2 rc hl : R,
    let sp := v3 s0 s1 s2 in
    let cp := v3 c0 c1 c2 in
    let ax := v3 x0 x1 x2 in
    let a := vsub cp (vscaler ax hl) in
    let b := vadd cp (vscaler ax hl) in
    let pt := closest_segment_point a b sp in
    let ptx := true_closest a b sp in
    let delta := eps / (vlen_sq (vsub b a) + eps) in
    a <> b ->
    sp <> pt ->
    let '(dist, pos, n) := sphere_capsule sp rs cp ax rc hl in
    let d := vlen (vsub pt sp) in
    let q1 := vadd sp (vscale rs n) in
    let q2 := vsub pt (vscale rc n) in
    n = vdivs (vsub pt sp) d /\
    vlen_sq n = 1 /\
    vdot (vsub pt sp) n = d /\
    0 < d /\
    dist = d - rs - rc /\
    vsub q2 q1 = vscale dist n /\
    pos = mid q1 q2 /\
    pt = seg_point a b (clamp01 (code_t a b sp)) /\
    vlen (vsub pt ptx) <= delta * vlen (vsub ptx a) /\
    Rabs (dist - (vlen (vsub ptx sp) - rs - rc)) <= delta * vlen (vsub ptx a).
Proof. exact sphere_capsule_contact. Qed.
Print Assumptions C20_sphere_capsule_contact.

(* ---- plane - capsule ----------------------------------------------------- *)
Theorem C20_plane_capsule_contacts :
  forall n0 n1 n2 q0 q1 q2 c0 c1 c2 x0 x1 x2 r hl : R,
    let n := v3 n0 n1 n2 in
    let q := v3 q0 q1 q2 in
    let cp := v3 c0 c1 c2 in
    let ax := v3 x0 x1 x2 in
    let '(dist, pos, frame) := plane_capsule n q cp ax r hl in
    length dist = 2%nat /\
    length pos = 6%nat /\
    length frame = 9%nat /\
    (vget dist 0, mrow 3 pos 0) = plane_sphere n q (vadd cp (vscaler ax hl)) r /\
    (vget dist 1, mrow 3 pos 1) = plane_sphere n q (vsub cp (vscaler ax hl)) r /\
    mrow 3 frame 0 = n /\ mrow 3 frame 2 = vcross n (mrow 3 frame 1).
Proof. exact plane_capsule_contacts. Qed.
Print Assumptions C20_plane_capsule_contacts.

(* unconditional since the repair of finding C20:plane_capsule:frame-fallback-not-orthogonal: for every
   capsule axis the frame is a rotation whose first row is the plane normal; the second row is the
   normalised in-plane component w of the axis when |w| >= 1/2 and otherwise the normalised
   Gram-Schmidt residual of the y (or z) axis, as make_frame chooses it *)
Theorem C20_plane_capsule_frame_orthonormal :
  forall (n0 n1 n2 : R) (q c : list R) (x0 x1 x2 r hl : R),
    nsq n0 n1 n2 = 1 ->
    let n := v3 n0 n1 n2 in
    let ax := v3 x0 x1 x2 in
    let w := vsub ax (vscaler n (vdot n ax)) in
    let '(_, _, F) := plane_capsule n q c ax r hl in
    mrow 3 F 0 = n /\
    mrow 3 F 1 = (if Rltb (vlen w) (1 / 2) then gs n (pick_e n1) else vdivs w (vlen w)) /\
    mrow 3 F 2 = vcross n (mrow 3 F 1) /\ mat_mat 3 3 3 F (mtranspose 3 3 F) = I3 /\ mdet3 F = 1.
Proof. exact plane_capsule_frame_orthonormal. Qed.
Print Assumptions C20_plane_capsule_frame_orthonormal.

(* non-vacuity of the hypotheses used above *)
Example C20_ex_unit_normal : nsq 0 (3/5) (4/5) = 1.
Proof. exact ex_unit_normal. Qed.
Example C20_ex_sphere_capsule_hyp :
  let sp := v3 0 0 2 in let cp := v3 0 0 0 in let ax := v3 1 0 0 in
  let a := vsub cp (vscaler ax 1) in let b := vadd cp (vscaler ax 1) in
  a <> b /\ sp <> closest_segment_point a b sp.
Proof. exact ex_sphere_capsule_hyp. Qed.
