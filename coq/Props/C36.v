(* Props/C36.v -- C36 "Results do not depend on what else ran in the process". *)
From Coq Require Import ZArith String List Bool.
From VF Require Import Model.Registry Proof.Registry Gen.Skel_cache.
Import ListNotations.

(* equal cache keys imply same factory and same kernel-relevant arguments, on the domain
   bool / non-negative int / enum / TileSet(size) / list, given injective str and tuple hashes *)
Theorem C36_cache_sound :
  forall (hash_tuple : list Z -> Z) (hash_str : string -> Z),
    (forall a b, hash_tuple a = hash_tuple b -> a = b) ->
    (forall a b, hash_str a = hash_str b -> a = b) ->
    forall f g ks a b,
      args_ok ks a = true -> args_ok ks b = true ->
      cache_key hash_tuple hash_str f a = cache_key hash_tuple hash_str g b ->
      f = g /\ map relevant a = map relevant b.
Proof. exact cache_sound. Qed.
Print Assumptions C36_cache_sound.

(* the regenerated factories: every parameter is of a kind the key is faithful for, a TileSet
   parameter is used through .size only, and factory names are pairwise distinct (the key
   contains hash(func.__name__) but not the module) *)
Theorem C36_factories_ok : factories_ok factories = true.
Proof. vm_compute. reflexivity. Qed.
Print Assumptions C36_factories_ok.

(* the only module-level containers mutated at run time are the kernel registry itself and
   the event-trace stack *)
Theorem C36_no_other_mutable_globals : globals_ok mutated_globals = true.
Proof. vm_compute. reflexivity. Qed.
Print Assumptions C36_no_other_mutable_globals.

(* a process-wide growing dispatch list (the design before the repair) is not history free *)
Theorem C36_dispatch_global_refuted :
  dispatch_global (dispatch_global nil m_prim) m_ccd <> dispatch_global nil m_ccd.
Proof. exact dispatch_global_refuted. Qed.
Print Assumptions C36_dispatch_global_refuted.

Theorem C36_pyhash_collision_outside_domain : pyhash_int (-1) = pyhash_int (-2) /\ (-1 <> -2)%Z.
Proof. exact pyhash_collision. Qed.
Print Assumptions C36_pyhash_collision_outside_domain.

Example C36_args_ok_example : args_ok [PBool; PInt; PEnum] [ABool true; AInt 7; AInt 1] = true.
Proof. reflexivity. Qed.
