(* Props/C07.v -- C07 "Sensors and energy agree with MuJoCo C".
   Statements only; every proof is `exact <lemma of Proof/Sensor.v>`.

   k__sensor_pos / k__sensor_vel / k__limit_* / k__tendon_actuator_force_cutoff are the machine
   translations (Gen/K_sensor.v, regenerated from /repo on every run by bin/gens_sensor.py +
   bin/translate.py) of the kernels of sensor.py; T_sensor.* (Gen/T_sensor.v) the value functions
   and energy kernels.  cutoff_val / write_scalar / write_vector / sensor_*_model are the readable
   hand forms of Model/Sensor.v; the *_kernel_eq_model theorems prove them EQUAL to the
   translation for every input and every scalar instance.  What ties the translation to the
   compiled kernels is the kernel validation of bin/props/C07.py (real traced launches). *)
From Coq Require Import ZArith Reals List Bool String.
From VF Require Import Base.Scalar Base.ScalarR Base.Vec Base.Loop Base.Kernel Gen.K_sensor Model.Sensor Proof.Sensor.
From VF Require Gen.T_sensor.
Import ListNotations.
Local Open Scope Z_scope.

(* ---- the cutoff rule (what _write_scalar / _write_vector store), over the reals ---- *)

(* REAL datatype, cutoff c > 0, any type but GEOMFROMTO: the stored value is x clamped to [-c, c] *)
Theorem C07_cutoff_rule_real :
  forall (stype : Z) (c x : R), (0 < c)%R -> stype <> 41 ->
    let y := cutoff_val stype 0 c x in
    (- c <= y <= c)%R /\ ((- c <= x <= c)%R -> y = x) /\ ((x < - c)%R -> y = (- c)%R) /\ ((c < x)%R -> y = c).
Proof. exact cutoff_rule_real. Qed.
Print Assumptions C07_cutoff_rule_real.

(* POSITIVE datatype: min(x, c) (no lower clamp) *)
Theorem C07_cutoff_rule_positive :
  forall (stype : Z) (c x : R), (0 < c)%R -> stype <> 41 -> cutoff_val stype 1 c x = Rmin x c.
Proof. exact cutoff_rule_positive. Qed.
Print Assumptions C07_cutoff_rule_positive.

(* cutoff <= 0 (0 = "no cutoff"): the value is stored unchanged, whatever the type and datatype *)
Theorem C07_cutoff_zero_noop :
  forall (stype dtype : Z) (c x : R), (c <= 0)%R -> cutoff_val stype dtype c x = x.
Proof. exact cutoff_zero_noop. Qed.
Print Assumptions C07_cutoff_zero_noop.

(* the exemptions the code makes: GEOMFROMTO (type 41), and every datatype other than REAL / POSITIVE
   (AXIS, QUATERNION) *)
Theorem C07_cutoff_fromto_exempt :
  forall (dtype : Z) (c x : R), cutoff_val 41 dtype c x = x.
Proof. exact cutoff_fromto_exempt. Qed.
Print Assumptions C07_cutoff_fromto_exempt.
Theorem C07_cutoff_other_datatype_noop :
  forall (stype dtype : Z) (c x : R), dtype <> 0 -> dtype <> 1 -> cutoff_val stype dtype c x = x.
Proof. exact cutoff_other_datatype_noop. Qed.
Print Assumptions C07_cutoff_other_datatype_noop.

(* ... and this is exactly MuJoCo's engine_sensor.c apply_cutoff (mju_clip / mju_min), for every
   datatype, cutoff, value and every type except CONTACT (42), which MuJoCo also exempts and which
   MJWarp never passes through the writer functions *)
Theorem C07_cutoff_eq_mujoco :
  forall (stype dtype : Z) (c x : R), stype <> 42 -> cutoff_val stype dtype c x = mj_cutoff stype dtype c x.
Proof. exact cutoff_eq_mujoco. Qed.
Print Assumptions C07_cutoff_eq_mujoco.

(* ---- the translated kernels equal the readable models (every scalar instance) ---- *)

Theorem C07_sensor_vel_kernel_eq_model :
  forall (S : Type) (H : Scalar S) w velid body_rootid jnt_dofadr geom_bodyid site_bodyid cam_bodyid sensor_type sensor_datatype sensor_objtype sensor_objid sensor_reftype sensor_refid sensor_adr sensor_cutoff sensor_vel_adr qvel_in xpos_in xmat_in xipos_in ximat_in geom_xpos_in geom_xmat_in site_xpos_in site_xmat_in cam_xpos_in cam_xmat_in subtree_com_in ten_velocity_in actuator_velocity_in cvel_in subtree_linvel_in subtree_angmom_in sensordata_out orc,
    k__sensor_vel w velid body_rootid jnt_dofadr geom_bodyid site_bodyid cam_bodyid sensor_type sensor_datatype sensor_objtype sensor_objid sensor_reftype sensor_refid sensor_adr sensor_cutoff sensor_vel_adr qvel_in xpos_in xmat_in xipos_in ximat_in geom_xpos_in geom_xmat_in site_xpos_in site_xmat_in cam_xpos_in cam_xmat_in subtree_com_in ten_velocity_in actuator_velocity_in cvel_in subtree_linvel_in subtree_angmom_in sensordata_out orc = sensor_vel_model w velid body_rootid jnt_dofadr geom_bodyid site_bodyid cam_bodyid sensor_type sensor_datatype sensor_objtype sensor_objid sensor_reftype sensor_refid sensor_adr sensor_cutoff sensor_vel_adr qvel_in xpos_in xmat_in xipos_in ximat_in geom_xpos_in geom_xmat_in site_xpos_in site_xmat_in cam_xpos_in cam_xmat_in subtree_com_in ten_velocity_in actuator_velocity_in cvel_in subtree_linvel_in subtree_angmom_in.
Proof. exact @sensor_vel_kernel_eq_model. Qed.
Print Assumptions C07_sensor_vel_kernel_eq_model.

(* every position-stage sensor type except the three geom-distance types *)
Theorem C07_sensor_pos_kernel_eq_model :
  forall (S : Type) (H : Scalar S) w posid ngeom opt_magnetic body_geomnum body_geomadr body_iquat body_mass body_subtreemass jnt_qposadr geom_type geom_bodyid geom_quat site_type site_bodyid site_size site_quat cam_bodyid cam_quat cam_fovy cam_resolution cam_sensorsize cam_intrinsic sensor_type sensor_datatype sensor_objtype sensor_objid sensor_reftype sensor_refid sensor_adr sensor_cutoff nxn_pairid sensor_pos_adr rangefinder_sensor_adr time_in energy_in qpos_in xpos_in xquat_in xmat_in xipos_in ximat_in geom_xpos_in geom_xmat_in site_xpos_in site_xmat_in cam_xpos_in cam_xmat_in subtree_com_in ten_length_in actuator_length_in rangefinder_dist_in sensor_collision_in sensordata_out orc sh0 sh1 sh2 sh3 sh4 sh5 sh6 sh7 sh8,
    let t := sensor_type (sensor_pos_adr posid) in
    t <> 39 -> t <> 40 -> t <> 41 ->
    k__sensor_pos w posid ngeom opt_magnetic body_geomnum body_geomadr body_iquat body_mass body_subtreemass jnt_qposadr geom_type geom_bodyid geom_quat site_type site_bodyid site_size site_quat cam_bodyid cam_quat cam_fovy cam_resolution cam_sensorsize cam_intrinsic sensor_type sensor_datatype sensor_objtype sensor_objid sensor_reftype sensor_refid sensor_adr sensor_cutoff nxn_pairid sensor_pos_adr rangefinder_sensor_adr time_in energy_in qpos_in xpos_in xquat_in xmat_in xipos_in ximat_in geom_xpos_in geom_xmat_in site_xpos_in site_xmat_in cam_xpos_in cam_xmat_in subtree_com_in ten_length_in actuator_length_in rangefinder_dist_in sensor_collision_in sensordata_out orc sh0 sh1 sh2 sh3 sh4 sh5 sh6 sh7 sh8 = sensor_pos_model w posid opt_magnetic body_iquat body_mass body_subtreemass jnt_qposadr geom_bodyid geom_quat site_type site_bodyid site_size site_quat cam_bodyid cam_quat cam_fovy cam_resolution cam_sensorsize cam_intrinsic sensor_type sensor_datatype sensor_objtype sensor_objid sensor_reftype sensor_refid sensor_adr sensor_cutoff sensor_pos_adr rangefinder_sensor_adr time_in energy_in qpos_in xpos_in xquat_in xmat_in xipos_in ximat_in geom_xpos_in geom_xmat_in site_xpos_in site_xmat_in cam_xpos_in cam_xmat_in subtree_com_in ten_length_in actuator_length_in rangefinder_dist_in sh0 sh1 sh2 sh3 sh4 sh5 sh6 sh7 sh8.
Proof. exact @sensor_pos_kernel_eq_model. Qed.
Print Assumptions C07_sensor_pos_kernel_eq_model.

(* the limit kernels (repaired in /repo 5c62633): one task writes exactly the selected row -- inside the limit
   block of the world, efc_id = the sensor's object, and LIMIT_JOINT (3) for the joint-limit sensor type /
   LIMIT_TENDON (4) for the tendon-limit sensor type -- through the same cutoff function; and that selection
   is MuJoCo's: a joint-limit sensor reads only mjCNSTR_LIMIT_JOINT rows whose id is its joint, a tendon-limit
   sensor only mjCNSTR_LIMIT_TENDON rows whose id is its tendon (mj_limit_row_matches, Model/Sensor.v) *)
Theorem C07_limit_pos_kernel_spec :
  forall (S : Type) (H : Scalar S) w efcid lid sensor_type sensor_datatype sensor_objid sensor_adr sensor_cutoff sensor_limit_adr ne_in nf_in nl_in efc_type_in efc_id_in efc_pos_in efc_margin_in sensordata_out orc,
    k__limit_pos w efcid lid sensor_type sensor_datatype sensor_objid sensor_adr sensor_cutoff sensor_limit_adr ne_in nf_in nl_in efc_type_in efc_id_in efc_pos_in efc_margin_in sensordata_out orc
    = if limit_row_selected w efcid lid sensor_type sensor_objid sensor_limit_adr ne_in nf_in nl_in efc_type_in efc_id_in 20 23 then limit_write w lid sensor_type sensor_datatype sensor_adr sensor_cutoff sensor_limit_adr (ssub (efc_pos_in w efcid) (efc_margin_in w efcid)) else [].
Proof. exact @limit_pos_kernel_spec. Qed.
Print Assumptions C07_limit_pos_kernel_spec.
Theorem C07_limit_pos_reads_only_matching_row :
  forall (S : Type) (H : Scalar S) w efcid lid sensor_type sensor_datatype sensor_objid sensor_adr sensor_cutoff sensor_limit_adr ne_in nf_in nl_in efc_type_in efc_id_in efc_pos_in efc_margin_in sensordata_out orc,
    k__limit_pos w efcid lid sensor_type sensor_datatype sensor_objid sensor_adr sensor_cutoff sensor_limit_adr ne_in nf_in nl_in efc_type_in efc_id_in efc_pos_in efc_margin_in sensordata_out orc <> [] ->
    let sid := sensor_limit_adr lid in
    mj_limit_row_matches (sensor_type sid) (efc_type_in w efcid) (efc_id_in w efcid) (sensor_objid sid) = true.
Proof. exact @limit_pos_reads_only_matching_row. Qed.
Print Assumptions C07_limit_pos_reads_only_matching_row.
Theorem C07_limit_vel_kernel_spec :
  forall (S : Type) (H : Scalar S) w efcid lid sensor_type sensor_datatype sensor_objid sensor_adr sensor_cutoff sensor_limit_adr ne_in nf_in nl_in efc_type_in efc_id_in efc_vel_in sensordata_out orc,
    k__limit_vel w efcid lid sensor_type sensor_datatype sensor_objid sensor_adr sensor_cutoff sensor_limit_adr ne_in nf_in nl_in efc_type_in efc_id_in efc_vel_in sensordata_out orc
    = if limit_row_selected w efcid lid sensor_type sensor_objid sensor_limit_adr ne_in nf_in nl_in efc_type_in efc_id_in 21 24 then limit_write w lid sensor_type sensor_datatype sensor_adr sensor_cutoff sensor_limit_adr (efc_vel_in w efcid) else [].
Proof. exact @limit_vel_kernel_spec. Qed.
Print Assumptions C07_limit_vel_kernel_spec.
Theorem C07_limit_vel_reads_only_matching_row :
  forall (S : Type) (H : Scalar S) w efcid lid sensor_type sensor_datatype sensor_objid sensor_adr sensor_cutoff sensor_limit_adr ne_in nf_in nl_in efc_type_in efc_id_in efc_vel_in sensordata_out orc,
    k__limit_vel w efcid lid sensor_type sensor_datatype sensor_objid sensor_adr sensor_cutoff sensor_limit_adr ne_in nf_in nl_in efc_type_in efc_id_in efc_vel_in sensordata_out orc <> [] ->
    let sid := sensor_limit_adr lid in
    mj_limit_row_matches (sensor_type sid) (efc_type_in w efcid) (efc_id_in w efcid) (sensor_objid sid) = true.
Proof. exact @limit_vel_reads_only_matching_row. Qed.
Print Assumptions C07_limit_vel_reads_only_matching_row.
Theorem C07_limit_frc_kernel_spec :
  forall (S : Type) (H : Scalar S) w efcid lid sensor_type sensor_datatype sensor_objid sensor_adr sensor_cutoff sensor_limit_adr ne_in nf_in nl_in efc_type_in efc_id_in efc_force_in sensordata_out orc,
    k__limit_frc w efcid lid sensor_type sensor_datatype sensor_objid sensor_adr sensor_cutoff sensor_limit_adr ne_in nf_in nl_in efc_type_in efc_id_in efc_force_in sensordata_out orc
    = if limit_row_selected w efcid lid sensor_type sensor_objid sensor_limit_adr ne_in nf_in nl_in efc_type_in efc_id_in 22 25 then limit_write w lid sensor_type sensor_datatype sensor_adr sensor_cutoff sensor_limit_adr (efc_force_in w efcid) else [].
Proof. exact @limit_frc_kernel_spec. Qed.
Print Assumptions C07_limit_frc_kernel_spec.
Theorem C07_limit_frc_reads_only_matching_row :
  forall (S : Type) (H : Scalar S) w efcid lid sensor_type sensor_datatype sensor_objid sensor_adr sensor_cutoff sensor_limit_adr ne_in nf_in nl_in efc_type_in efc_id_in efc_force_in sensordata_out orc,
    k__limit_frc w efcid lid sensor_type sensor_datatype sensor_objid sensor_adr sensor_cutoff sensor_limit_adr ne_in nf_in nl_in efc_type_in efc_id_in efc_force_in sensordata_out orc <> [] ->
    let sid := sensor_limit_adr lid in
    mj_limit_row_matches (sensor_type sid) (efc_type_in w efcid) (efc_id_in w efcid) (sensor_objid sid) = true.
Proof. exact @limit_frc_reads_only_matching_row. Qed.
Print Assumptions C07_limit_frc_reads_only_matching_row.

(* the former defect (finding C07:LIMITSENSOR:joint-tendon-id-collision, fixed) is excluded *)
Theorem C07_jointlimitpos_ignores_tendon_rows :
  forall (S : Type) (H : Scalar S) w efcid lid sensor_type sensor_datatype sensor_objid sensor_adr sensor_cutoff sensor_limit_adr ne_in nf_in nl_in efc_type_in efc_id_in efc_pos_in efc_margin_in sensordata_out orc,
    sensor_type (sensor_limit_adr lid) = 20 -> efc_type_in w efcid = 4 ->
    k__limit_pos w efcid lid sensor_type sensor_datatype sensor_objid sensor_adr sensor_cutoff sensor_limit_adr ne_in nf_in nl_in efc_type_in efc_id_in efc_pos_in efc_margin_in sensordata_out orc = [].
Proof. exact @jointlimitpos_ignores_tendon_rows. Qed.
Print Assumptions C07_jointlimitpos_ignores_tendon_rows.

Theorem C07_tendon_actuator_force_cutoff_spec :
  forall (S : Type) (H : Scalar S) w k sensor_type sensor_datatype sensor_adr sensor_cutoff sensor_tendonactfrc_adr sensordata_in sensordata_out orc,
    k__tendon_actuator_force_cutoff w k sensor_type sensor_datatype sensor_adr sensor_cutoff sensor_tendonactfrc_adr sensordata_in sensordata_out orc
    = let sid := sensor_tendonactfrc_adr k in
      write_scalar w (sensor_adr sid) (sensor_type sid) (sensor_datatype sid) (sensor_cutoff sid) (sensordata_in w (sensor_adr sid)).
Proof. exact @tendon_actuator_force_cutoff_spec. Qed.
Print Assumptions C07_tendon_actuator_force_cutoff_spec.

(* ---- sensor slots ---- *)

(* every write of one task of the translated kernels lies in [adr, adr + dim(type)) of its own sensor
   (position stage: ALL types, geom distance included) *)
Theorem C07_sensor_pos_writes_in_slot :
  forall (S : Type) (H : Scalar S) w posid ngeom opt_magnetic body_geomnum body_geomadr body_iquat body_mass body_subtreemass jnt_qposadr geom_type geom_bodyid geom_quat site_type site_bodyid site_size site_quat cam_bodyid cam_quat cam_fovy cam_resolution cam_sensorsize cam_intrinsic sensor_type sensor_datatype sensor_objtype sensor_objid sensor_reftype sensor_refid sensor_adr sensor_cutoff nxn_pairid sensor_pos_adr rangefinder_sensor_adr time_in energy_in qpos_in xpos_in xquat_in xmat_in xipos_in ximat_in geom_xpos_in geom_xmat_in site_xpos_in site_xmat_in cam_xpos_in cam_xmat_in subtree_com_in ten_length_in actuator_length_in rangefinder_dist_in sensor_collision_in sensordata_out orc sh0 sh1 sh2 sh3 sh4 sh5 sh6 sh7 sh8 y,
    In y (k__sensor_pos w posid ngeom opt_magnetic body_geomnum body_geomadr body_iquat body_mass body_subtreemass jnt_qposadr geom_type geom_bodyid geom_quat site_type site_bodyid site_size site_quat cam_bodyid cam_quat cam_fovy cam_resolution cam_sensorsize cam_intrinsic sensor_type sensor_datatype sensor_objtype sensor_objid sensor_reftype sensor_refid sensor_adr sensor_cutoff nxn_pairid sensor_pos_adr rangefinder_sensor_adr time_in energy_in qpos_in xpos_in xquat_in xmat_in xipos_in ximat_in geom_xpos_in geom_xmat_in site_xpos_in site_xmat_in cam_xpos_in cam_xmat_in subtree_com_in ten_length_in actuator_length_in rangefinder_dist_in sensor_collision_in sensordata_out orc sh0 sh1 sh2 sh3 sh4 sh5 sh6 sh7 sh8) ->
    let sid := sensor_pos_adr posid in in_slot w (sensor_adr sid) (sensor_dim_of_type (sensor_type sid)) y.
Proof. exact @sensor_pos_writes_in_slot. Qed.
Print Assumptions C07_sensor_pos_writes_in_slot.
Theorem C07_sensor_vel_writes_in_slot :
  forall (S : Type) (H : Scalar S) w velid body_rootid jnt_dofadr geom_bodyid site_bodyid cam_bodyid sensor_type sensor_datatype sensor_objtype sensor_objid sensor_reftype sensor_refid sensor_adr sensor_cutoff sensor_vel_adr qvel_in xpos_in xmat_in xipos_in ximat_in geom_xpos_in geom_xmat_in site_xpos_in site_xmat_in cam_xpos_in cam_xmat_in subtree_com_in ten_velocity_in actuator_velocity_in cvel_in subtree_linvel_in subtree_angmom_in sensordata_out orc y,
    In y (k__sensor_vel w velid body_rootid jnt_dofadr geom_bodyid site_bodyid cam_bodyid sensor_type sensor_datatype sensor_objtype sensor_objid sensor_reftype sensor_refid sensor_adr sensor_cutoff sensor_vel_adr qvel_in xpos_in xmat_in xipos_in ximat_in geom_xpos_in geom_xmat_in site_xpos_in site_xmat_in cam_xpos_in cam_xmat_in subtree_com_in ten_velocity_in actuator_velocity_in cvel_in subtree_linvel_in subtree_angmom_in sensordata_out orc) ->
    let sid := sensor_vel_adr velid in in_slot w (sensor_adr sid) (sensor_dim_of_type (sensor_type sid)) y.
Proof. exact @sensor_vel_writes_in_slot. Qed.
Print Assumptions C07_sensor_vel_writes_in_slot.

(* MuJoCo's layout invariant (adr 0 = 0, dim >= 0, adr (i+1) = adr i + dim i) makes the slots of
   different sensors disjoint: no write location is shared *)
Theorem C07_sensor_slots_disjoint :
  forall (S : Type) n adr dim i j w w' (x y : write S),
    adr_dim_invariant n adr dim -> 0 <= i < n -> 0 <= j < n -> i <> j ->
    in_slot w (adr i) (dim i) x -> in_slot w' (adr j) (dim j) y ->
    (w_arr x, w_idx x) <> (w_arr y, w_idx y).
Proof. exact @sensor_slots_disjoint. Qed.
Print Assumptions C07_sensor_slots_disjoint.
Theorem C07_sensor_tasks_disjoint :
  forall (S : Type) n (sensor_adr sensor_dim sensor_type : Z -> Z) s1 s2 w1 w2 (ws1 ws2 : list (write S)),
    adr_dim_invariant n sensor_adr sensor_dim ->
    (forall s, 0 <= s < n -> sensor_dim s = sensor_dim_of_type (sensor_type s)) ->
    0 <= s1 < n -> 0 <= s2 < n -> s1 <> s2 ->
    (forall y, In y ws1 -> in_slot w1 (sensor_adr s1) (sensor_dim_of_type (sensor_type s1)) y) ->
    (forall y, In y ws2 -> in_slot w2 (sensor_adr s2) (sensor_dim_of_type (sensor_type s2)) y) ->
    forall x y, In x ws1 -> In y ws2 -> (w_arr x, w_idx x) <> (w_arr y, w_idx y).
Proof. exact @sensor_tasks_disjoint. Qed.
Print Assumptions C07_sensor_tasks_disjoint.

(* ---- energy ---- *)

(* kinetic energy as the tile kernel computes it, 1/2 sum_i v_i (M v)_i, is >= 0 for PSD M *)
Theorem C07_kinetic_energy_nonneg :
  forall (M : list (list R)) (v : list R), (forall u, (0 <= quad_form M u)%R) -> (0 <= kinetic v (mat_vec_rows M v))%R.
Proof. exact kinetic_energy_nonneg. Qed.
Print Assumptions C07_kinetic_energy_nonneg.

(* potential energy, translated kernels: _energy_pos_zero then the _energy_pos_gravity tasks of bodies
   1..n leave  - sum_b m_b (g . xipos_b)  in energy[w][0] and do not touch energy[w][1] *)
Theorem C07_potential_energy_gravity :
  forall (opt_gravity : Z -> list R) (body_mass : Z -> Z -> R) (xipos_in : Z -> Z -> list R) (energy_out : Z -> list R)
         (orc : nat -> Z) (gs ms w : Z) (n : nat),
    energy_run w (0%R, 0%R) (T_sensor.k__energy_pos_zero w energy_out orc ++ grav_tasks opt_gravity body_mass xipos_in energy_out orc gs ms w n 0)
    = ((- grav_sum opt_gravity body_mass xipos_in gs ms w n 0)%R, 0%R).
Proof. exact potential_energy_gravity. Qed.
Print Assumptions C07_potential_energy_gravity.

(* spring term: with zero polynomial coefficients poly_potential is the quadratic k x^2 / 2, >= 0 for k >= 0 *)
Theorem C07_poly_potential_quadratic :
  forall k x : R, T_sensor.poly_potential k [0%R; 0%R] x 0 = (/ 2 * k * (x * x))%R.
Proof. exact poly_potential_quadratic. Qed.
Print Assumptions C07_poly_potential_quadratic.

(* poly_potential on the SIGNED displacement: k/2 x^2 + c3 a x^3 + b/4 x^4 (c3 = the literal 0.3333333333333333,
   |c3 - 1/3| <= 1e-16), i.e. the integral of the polynomial spring force k s + a s^2 + b s^3; it is not even in x *)
Theorem C07_poly_potential_closed_form :
  forall k a b x : R,
    T_sensor.poly_potential k [a; b] x 0 = (/ 2 * k * (x * x) + c3 * a * (x * x * x) + / 4 * b * (x * x * x * x))%R.
Proof. exact poly_potential_closed_form. Qed.
Print Assumptions C07_poly_potential_closed_form.
Theorem C07_c3_third : (Rabs (c3 - / 3) <= / 10000000000000000)%R.
Proof. exact c3_third. Qed.
Print Assumptions C07_c3_third.
Theorem C07_poly_potential_sign_sensitive :
  forall k a b x : R,
    (T_sensor.poly_potential k [a; b] x 0 - T_sensor.poly_potential k [a; b] (- x) 0 = 2 * c3 * a * (x * x * x))%R.
Proof. exact poly_potential_sign_sensitive. Qed.
Print Assumptions C07_poly_potential_sign_sensitive.

(* one task of the translated _energy_pos_passive_tendon: nothing without a spring, otherwise the polynomial
   potential of the SIGNED deadband displacement (len - upper above, len - lower < 0 below, 0 inside the
   deadband [lower, upper]) is added to energy[w][0], and 0 to energy[w][1] *)
Theorem C07_energy_tendon_task_spec :
  forall (w t : Z) (stiff : Z -> Z -> R) (spoly lspring : Z -> Z -> list R) (len : Z -> Z -> R)
         (energy_out : Z -> list R) (orc : nat -> Z) (n1 n2 n3 : Z),
    T_sensor.k__energy_pos_passive_tendon w t stiff spoly lspring len energy_out orc n1 n2 n3
    = if no_spring w t stiff spoly n1 n2 then []
      else [mkW "energy_out" [w] KAdd
              (VV [T_sensor.poly_potential (stiff (Z.rem w n1) t) (spoly (Z.rem w n2) t)
                     (deadband_disp (len w t) (vget (lspring (Z.rem w n3) t) 0) (vget (lspring (Z.rem w n3) t) 1)) 0; 0%R])].
Proof. exact energy_tendon_task_spec. Qed.
Print Assumptions C07_energy_tendon_task_spec.
Theorem C07_deadband_above :
  forall len lower upper : R, (upper < len)%R -> deadband_disp len lower upper = (len - upper)%R.
Proof. exact deadband_above. Qed.
Print Assumptions C07_deadband_above.
Theorem C07_deadband_below :
  forall len lower upper : R, (lower <= upper)%R -> (len < lower)%R ->
    deadband_disp len lower upper = (len - lower)%R /\ (deadband_disp len lower upper < 0)%R.
Proof. exact deadband_below. Qed.
Print Assumptions C07_deadband_below.
Theorem C07_deadband_inside :
  forall len lower upper k a b : R, (lower <= len <= upper)%R ->
    deadband_disp len lower upper = 0%R /\ T_sensor.poly_potential k [a; b] (deadband_disp len lower upper) 0 = 0%R.
Proof. exact deadband_inside. Qed.
Print Assumptions C07_deadband_inside.
(* a compressed tendon with a cubic stiffness term: the unsigned distance from the deadband gives another energy *)
Theorem C07_deadband_compressed_differs_from_unsigned :
  forall len lower upper k a b : R, (lower <= upper)%R -> (len < lower)%R -> a <> 0%R ->
    T_sensor.poly_potential k [a; b] (deadband_disp len lower upper) 0
    <> T_sensor.poly_potential k [a; b] (Rabs (deadband_disp len lower upper)) 0.
Proof. exact deadband_compressed_differs_from_unsigned. Qed.
Print Assumptions C07_deadband_compressed_differs_from_unsigned.

(* hinge / slide joint spring of the translated _energy_pos_passive_joint: polynomial potential of q - q_spring *)
Theorem C07_energy_joint_hinge_slide_task_spec :
  forall (w j : Z) (qspring : Z -> Z -> R) (jtype jadr : Z -> Z) (stiff : Z -> Z -> R) (spoly : Z -> Z -> list R)
         (qpos : Z -> Z -> R) (energy_out : Z -> list R) (orc : nat -> Z) (n1 n2 n3 : Z),
    jtype j = 2 \/ jtype j = 3 ->
    T_sensor.k__energy_pos_passive_joint w j qspring jtype jadr stiff spoly qpos energy_out orc n1 n2 n3
    = if Reqb (stiff (Z.rem w n1) j) 0 && Reqb (vget (spoly (Z.rem w n2) j) 0) 0 && Reqb (vget (spoly (Z.rem w n2) j) 1) 0 then []
      else [mkW "energy_out" [w] KAdd
              (VV [T_sensor.poly_potential (stiff (Z.rem w n1) j) (spoly (Z.rem w n2) j)
                     (qpos w (jadr j) - qspring (Z.rem w n3) (jadr j))%R 0; 0%R])].
Proof. exact energy_joint_hinge_slide_task_spec. Qed.
Print Assumptions C07_energy_joint_hinge_slide_task_spec.

(* ---- closed-form sensors ---- *)

Theorem C07_clock_spec : forall (time_in : Z -> R) w, T_sensor._clock time_in w = time_in w.
Proof. exact clock_spec. Qed.
Print Assumptions C07_clock_spec.
Theorem C07_jointpos_spec : forall (adr : Z -> Z) (qpos : Z -> Z -> R) w j, T_sensor._joint_pos adr qpos w j = qpos w (adr j).
Proof. exact jointpos_spec. Qed.
Print Assumptions C07_jointpos_spec.
Theorem C07_jointvel_spec : forall (adr : Z -> Z) (qvel : Z -> Z -> R) w j, T_sensor._joint_vel adr qvel w j = qvel w (adr j).
Proof. exact jointvel_spec. Qed.
Print Assumptions C07_jointvel_spec.

(* gyro = R_site^T omega_body; a rotation preserves its length *)
Theorem C07_gyro_spec :
  forall (site_bodyid : Z -> Z) (site_xmat cvel : Z -> Z -> list R) w o m wx wy wz vx vy vz,
    site_xmat w o = m -> List.length m = 9%nat -> cvel w (site_bodyid o) = [wx; wy; wz; vx; vy; vz] ->
    T_sensor._gyro site_bodyid site_xmat cvel w o = tmul m [wx; wy; wz].
Proof. exact gyro_spec. Qed.
Print Assumptions C07_gyro_spec.
Theorem C07_gyro_norm_preserved :
  forall m x y z, orthonormal m ->
    match tmul m [x; y; z] with [p; q; r] => (p * p + q * q + r * r = x * x + y * y + z * z)%R | _ => False end.
Proof. exact gyro_norm_preserved. Qed.
Print Assumptions C07_gyro_norm_preserved.

(* velocimeter = R_site^T (v - (p - com) x omega) *)
Theorem C07_velocimeter_spec :
  forall (body_rootid site_bodyid : Z -> Z) (site_xpos site_xmat subtree_com cvel : Z -> Z -> list R)
         w o m wx wy wz vx vy vz px py pz cx cy cz,
    site_xmat w o = m -> List.length m = 9%nat -> cvel w (site_bodyid o) = [wx; wy; wz; vx; vy; vz] ->
    site_xpos w o = [px; py; pz] -> subtree_com w (body_rootid (site_bodyid o)) = [cx; cy; cz] ->
    T_sensor._velocimeter body_rootid site_bodyid site_xpos site_xmat subtree_com cvel w o
    = tmul m [(vx - ((py - cy) * wz - (pz - cz) * wy))%R; (vy - ((pz - cz) * wx - (px - cx) * wz))%R; (vz - ((px - cx) * wy - (py - cy) * wx))%R].
Proof. exact velocimeter_spec. Qed.
Print Assumptions C07_velocimeter_spec.

(* framepos: absolute without a reference (refid = -1), R_ref^T (x - x_ref) with one, and that
   transform is inverted by R_ref when R_ref is a rotation *)
Theorem C07_framepos_no_reference :
  forall (xpos_in xmat_in xipos_in ximat_in geom_xpos_in geom_xmat_in site_xpos_in site_xmat_in cam_xpos_in cam_xmat_in : Z -> Z -> list R)
         (w objid objtype refid reftype : Z),
    refid = -1 ->
    K_sensor._frame_pos xpos_in xmat_in xipos_in ximat_in geom_xpos_in geom_xmat_in site_xpos_in site_xmat_in cam_xpos_in cam_xmat_in w objid objtype refid reftype
    = K_sensor._get_pos xpos_in xipos_in geom_xpos_in site_xpos_in cam_xpos_in w objtype objid.
Proof. exact framepos_no_reference. Qed.
Print Assumptions C07_framepos_no_reference.
Theorem C07_framepos_relative :
  forall (xpos_in xmat_in xipos_in ximat_in geom_xpos_in geom_xmat_in site_xpos_in site_xmat_in cam_xpos_in cam_xmat_in : Z -> Z -> list R)
         (w objid objtype refid reftype : Z) m x y z a b c,
    refid <> -1 ->
    K_sensor._get_mat xmat_in ximat_in geom_xmat_in site_xmat_in cam_xmat_in w reftype refid = m -> List.length m = 9%nat ->
    K_sensor._get_pos xpos_in xipos_in geom_xpos_in site_xpos_in cam_xpos_in w objtype objid = [x; y; z] ->
    K_sensor._get_pos xpos_in xipos_in geom_xpos_in site_xpos_in cam_xpos_in w reftype refid = [a; b; c] ->
    K_sensor._frame_pos xpos_in xmat_in xipos_in ximat_in geom_xpos_in geom_xmat_in site_xpos_in site_xmat_in cam_xpos_in cam_xmat_in w objid objtype refid reftype
    = tmul m [(x - a)%R; (y - b)%R; (z - c)%R].
Proof. exact framepos_relative. Qed.
Print Assumptions C07_framepos_relative.
Theorem C07_framepos_relative_inverts :
  forall m x y z, orthonormal m -> rmul m (tmul m [x; y; z]) = [x; y; z].
Proof. exact framepos_relative_inverts. Qed.
Print Assumptions C07_framepos_relative_inverts.
