(* Props/C18.v -- C18 "Broadphase choice does not change contacts".
   Statements only; every proof is `exact <lemma of Proof/Sap.v>`.
   `_sphere_filter`, `_plane_filter` are the definitions REGENERATED from
   /repo/mujoco_warp/_src/collision_driver.py (Gen/broadphase.v), `upper_tri_index` from math.py;
   `sap_binary_search`, `sap_range1`, `cumsum`, `decode`, `work_order`, `sap_candidates`,
   `nxn_candidates`, `bp_filter`, `sap_project1` are Model/Sap.v, the hand-written copy of the
   SAP / NXN kernels, tied to the real kernels by the correspondence runs of bin/props/C18.py. *)
From Coq Require Import ZArith List Bool Reals Permutation.
From VF Require Import Base.Scalar Base.ScalarR Base.Vec Gen.math Gen.broadphase Model.PairTable Model.Sap Proof.Sap.
Import ListNotations.
Local Open Scope Z_scope.

(* sap_binary_search on a monotone predicate ("sorted array") returns the first index where it holds *)
Theorem C18_sap_binary_search_spec :
  forall gt l u, l <= u ->
  (forall x y, l <= x -> x <= y -> y < u -> gt x = true -> gt y = true) ->
  let r := sap_binary_search gt l u in
  l <= r <= u /\ (forall x, r <= x < u -> gt x = true) /\ (forall x, l <= x < r -> gt x = false).
Proof. exact sap_binary_search_spec. Qed.
Print Assumptions C18_sap_binary_search_spec.

(* sap_range incl. the min(n-1, .) clamp: the range stays inside the world's row and contains every
   later slot whose lower key does not exceed this slot's upper key *)
Theorem C18_sap_range_spec :
  forall (K : Type) (gtb : K -> K -> bool) (kd : K) n lower upper sort_index s,
  keys_sorted K gtb kd n lower -> 0 <= s < n ->
  let rg := sap_range1 K gtb kd n lower upper sort_index s in
  let up := knth K kd upper (znth sort_index s) in
  0 <= rg <= n - 1 - s
  /\ (forall q, s < q < n -> gtb (knth K kd lower q) up = false -> q <= s + rg)
  /\ (forall q, s < q < s + rg -> gtb (knth K kd lower q) up = false).
Proof. exact sap_range_spec. Qed.
Print Assumptions C18_sap_range_spec.

(* work packages: k in [0,total) <-> {(w,i,j) | i < j <= i + range[w,i]}, never crossing a world *)
Theorem C18_sap_decode_bijection :
  forall (n W : Z) (r : list Z),
  0 < n -> 0 <= W -> Z.of_nat (length r) = W * n ->
  (forall w i, 0 <= w < W -> 0 <= i < n -> 0 <= znth r (w * n + i) <= n - 1 - i) ->
  (forall k, 0 <= k < nworkpackages (W * n) (cumsum r) ->
     let '(w, i, j) := decode n (W * n) (cumsum r) k in
     0 <= w < W /\ 0 <= i /\ i < j /\ j <= i + znth r (w * n + i) /\ j < n)
  /\ (forall w i j, 0 <= w < W -> 0 <= i < n -> i < j -> j <= i + znth r (w * n + i) ->
        exists k, 0 <= k < nworkpackages (W * n) (cumsum r) /\ decode n (W * n) (cumsum r) k = (w, i, j)
                  /\ forall k', 0 <= k' < nworkpackages (W * n) (cumsum r) ->
                                decode n (W * n) (cumsum r) k' = (w, i, j) -> k' = k).
Proof. exact sap_decode_bijection. Qed.
Print Assumptions C18_sap_decode_bijection.

(* the stride loop (k = tid; k += nsweep) of all threads visits every work package exactly once *)
Theorem C18_work_order_perm :
  forall ns total, 0 < ns -> 0 <= total -> Permutation (work_order ns total) (zseq 0 (Z.to_nat total)).
Proof. exact work_order_perm. Qed.
Print Assumptions C18_work_order_perm.

Local Open Scope R_scope.

(* Cauchy-Schwarz: pairs accepted by the sphere filter (inflated bounding spheres intersect) have
   overlapping projection intervals on every unit axis *)
Theorem C18_sap_intervals_overlap :
  forall d1 d2 d3 x1 y1 z1 x2 y2 z2 rb1 rb2 m1 m2 g1 g2,
  d1 * d1 + d2 * d2 + d3 * d3 = 1 -> rb1 <> 0 -> rb2 <> 0 ->
  0 <= rb1 + rb2 + (m1 + g1) + (m2 + g2) ->
  _sphere_filter rb1 rb2 (m1 + g1) (m2 + g2) (v3 x1 y1 z1) (v3 x2 y2 z2) = true ->
  let i1 := sap_project1 (v3 d1 d2 d3) (v3 x1 y1 z1) rb1 m1 g1 in
  let i2 := sap_project1 (v3 d1 d2 d3) (v3 x2 y2 z2) rb2 m2 g2 in
  fst i2 <= snd i1 /\ fst i1 <= snd i2.
Proof. exact sap_intervals_overlap. Qed.
Print Assumptions C18_sap_intervals_overlap.

Theorem C18_sap_plane_interval :
  forall d1 d2 d3 x1 y1 z1 x2 y2 z2 rb2 m1 m2 g1 g2,
  0 <= m1 + g1 -> 0 <= rb2 + m2 + g2 ->
  Rabs ((d1 * x1 + d2 * y1 + d3 * z1) - (d1 * x2 + d2 * y2 + d3 * z2)) <= 10000000000 ->
  let i1 := sap_project1 (v3 d1 d2 d3) (v3 x1 y1 z1) 0 m1 g1 in
  let i2 := sap_project1 (v3 d1 d2 d3) (v3 x2 y2 z2) rb2 m2 g2 in
  fst i2 <= snd i1 /\ fst i1 <= snd i2.
Proof. exact sap_plane_interval. Qed.
Print Assumptions C18_sap_plane_interval.

(* ... hence they lie within `range` of each other in the sorted order (and by
   C18_sap_decode_bijection exactly one work package examines them) *)
Theorem C18_sap_superset :
  forall n (px py pz rb mg gp : Z -> R) d1 d2 d3 lower upper sort_index p q,
  d1 * d1 + d2 * d2 + d3 * d3 = 1 ->
  (forall a b, (0 <= a)%Z -> (a <= b)%Z -> (b < n)%Z -> knth R 0 lower a <= knth R 0 lower b) ->
  (0 <= p)%Z -> (p < q)%Z -> (q < n)%Z ->
  let a := znth sort_index p in
  let b := znth sort_index q in
  let xpos g := v3 (px g) (py g) (pz g) in
  knth R 0 lower q = fst (sap_project1 (v3 d1 d2 d3) (xpos b) (rb b) (mg b) (gp b)) ->
  knth R 0 upper a = snd (sap_project1 (v3 d1 d2 d3) (xpos a) (rb a) (mg a) (gp a)) ->
  rb a <> 0 -> rb b <> 0 -> 0 <= rb a + rb b + (mg a + gp a) + (mg b + gp b) ->
  _sphere_filter (rb a) (rb b) (mg a + gp a) (mg b + gp b) (xpos a) (xpos b) = true ->
  (q <= p + sap_range1 R Rgtb 0%R n lower upper sort_index p)%Z.
Proof. exact sap_superset. Qed.
Print Assumptions C18_sap_superset.

(* filters_sound: the sphere and plane filters never reject a pair closer than margin+gap
   (geoms contained in their bounding spheres; unit plane normal) *)
Theorem C18_sphere_filter_sound :
  forall s1 s2 m1 m2 x1 y1 z1 x2 y2 z2 p1 p2 p3 q1 q2 q3,
  dist3 (v3 p1 p2 p3) (v3 x1 y1 z1) <= s1 ->
  dist3 (v3 q1 q2 q3) (v3 x2 y2 z2) <= s2 ->
  dist3 (v3 p1 p2 p3) (v3 q1 q2 q3) < m1 + m2 ->
  _sphere_filter s1 s2 m1 m2 (v3 x1 y1 z1) (v3 x2 y2 z2) = true.
Proof. exact sphere_filter_sound. Qed.
Print Assumptions C18_sphere_filter_sound.

Theorem C18_plane_filter_sound_1 :
  forall s2 m1 m2 x1 y1 z1 x2 y2 z2 p1 p2 p3 r00 r01 n1 r10 r11 n2 r20 r21 n3 (xmat2 : list R),
  n1 * n1 + n2 * n2 + n3 * n3 = 1 ->
  dist3 (v3 p1 p2 p3) (v3 x2 y2 z2) <= s2 ->
  (p1 - x1) * n1 + (p2 - y1) * n2 + (p3 - z1) * n3 < m1 + m2 ->
  _plane_filter 0 s2 m1 m2 (v3 x1 y1 z1) (v3 x2 y2 z2) [r00; r01; n1; r10; r11; n2; r20; r21; n3] xmat2 = true.
Proof. exact plane_filter_sound_1. Qed.
Print Assumptions C18_plane_filter_sound_1.

Theorem C18_plane_filter_sound_2 :
  forall s1 m1 m2 x1 y1 z1 x2 y2 z2 p1 p2 p3 r00 r01 n1 r10 r11 n2 r20 r21 n3 (xmat1 : list R),
  s1 <> 0 -> n1 * n1 + n2 * n2 + n3 * n3 = 1 ->
  dist3 (v3 p1 p2 p3) (v3 x1 y1 z1) <= s1 ->
  (p1 - x2) * n1 + (p2 - y2) * n2 + (p3 - z2) * n3 < m1 + m2 ->
  _plane_filter s1 0 m1 m2 (v3 x1 y1 z1) (v3 x2 y2 z2) xmat1 [r00; r01; n1; r10; r11; n2; r20; r21; n3] = true.
Proof. exact plane_filter_sound_2. Qed.
Print Assumptions C18_plane_filter_sound_2.

(* the dispatcher: masks 0..3 on non-plane pairs (AABB / OBB soundness is NOT proved: partial) *)
Theorem C18_filters_sound_spheres_partial :
  forall mask obb c1 c2 sz1 sz2 rb1 rb2 m1 m2 g1 g2 x1 y1 z1 x2 y2 z2 xmat1 xmat2 p1 p2 p3 q1 q2 q3,
  Z.testbit mask 2 = false -> Z.testbit mask 3 = false ->
  rb1 <> 0 -> rb2 <> 0 ->
  dist3 (v3 p1 p2 p3) (v3 x1 y1 z1) <= rb1 ->
  dist3 (v3 q1 q2 q3) (v3 x2 y2 z2) <= rb2 ->
  dist3 (v3 p1 p2 p3) (v3 q1 q2 q3) < (m1 + g1) + (m2 + g2) ->
  bp_filter mask obb c1 c2 sz1 sz2 rb1 rb2 m1 m2 g1 g2 (v3 x1 y1 z1) (v3 x2 y2 z2) xmat1 xmat2 = true.
Proof. exact filters_sound_spheres_partial. Qed.
Print Assumptions C18_filters_sound_spheres_partial.

(* ... and every one of the 16 masks on a plane / geom pair *)
Theorem C18_filters_sound_plane :
  forall mask obb c1 c2 sz1 sz2 rb2 m1 m2 g1 g2 x1 y1 z1 x2 y2 z2 p1 p2 p3 r00 r01 n1 r10 r11 n2 r20 r21 n3 xmat2,
  n1 * n1 + n2 * n2 + n3 * n3 = 1 ->
  dist3 (v3 p1 p2 p3) (v3 x2 y2 z2) <= rb2 ->
  (p1 - x1) * n1 + (p2 - y1) * n2 + (p3 - z1) * n3 < (m1 + g1) + (m2 + g2) ->
  bp_filter mask obb c1 c2 sz1 sz2 0 rb2 m1 m2 g1 g2 (v3 x1 y1 z1) (v3 x2 y2 z2)
            [r00; r01; n1; r10; r11; n2; r20; r21; n3] xmat2 = true.
Proof. exact filters_sound_plane. Qed.
Print Assumptions C18_filters_sound_plane.

Local Open Scope Z_scope.

(* broadphase_equiv, INCLUDING the order in which a pair is stored (the sweep kernel orders the
   pair by geom id since the repair of C18:sap:same-type-pair-emitted-in-sort-order):
   SAP candidates are NXN candidates; NXN candidates whose sorted slots are within range are
   SAP candidates; hence on pairs within range the two candidate sets are equal *)
Theorem C18_sap_subset_nxn :
  forall n W nsweep sort_index r pid0 pid1 gtype gpf pidf0 pidf1 flt,
  0 < n -> 0 <= W -> 0 < nsweep -> Z.of_nat (length r) = W * n ->
  (forall w i, 0 <= w < W -> 0 <= i < n -> 0 <= znth r (w * n + i) <= n - 1 - i) ->
  (forall w, 0 <= w < W -> Permutation (nth (Z.to_nat w) sort_index []) (zseq 0 (Z.to_nat n))) ->
  (forall a b, 0 <= a -> a < b < n ->
    (negb ((znth pid0 (upper_tri_index n a b) <? -1) && (znth pid1 (upper_tri_index n a b) <? 0)) = true <->
     exists e, 0 <= e < Z.of_nat (length gpf) /\ nth (Z.to_nat e) gpf (0, 0) = (a, b)) /\
    (forall e, 0 <= e < Z.of_nat (length gpf) -> nth (Z.to_nat e) gpf (0, 0) = (a, b) ->
       znth pidf0 e = znth pid0 (upper_tri_index n a b) /\ znth pidf1 e = znth pid1 (upper_tri_index n a b))) ->
  forall w x y,
    In (w, (x, y)) (sap_candidates n W nsweep sort_index (cumsum r) pid0 pid1 gtype flt) ->
    In (w, (x, y)) (nxn_candidates W gpf pidf0 pidf1 gtype flt).
Proof. exact sap_subset_nxn. Qed.
Print Assumptions C18_sap_subset_nxn.

Theorem C18_nxn_in_range_subset_sap :
  forall n W nsweep sort_index r pid0 pid1 gtype gpf pidf0 pidf1 flt,
  0 < n -> 0 <= W -> 0 < nsweep -> Z.of_nat (length r) = W * n ->
  (forall w i, 0 <= w < W -> 0 <= i < n -> 0 <= znth r (w * n + i) <= n - 1 - i) ->
  (forall a b, 0 <= a -> a < b < n ->
    (negb ((znth pid0 (upper_tri_index n a b) <? -1) && (znth pid1 (upper_tri_index n a b) <? 0)) = true <->
     exists e, 0 <= e < Z.of_nat (length gpf) /\ nth (Z.to_nat e) gpf (0, 0) = (a, b)) /\
    (forall e, 0 <= e < Z.of_nat (length gpf) -> nth (Z.to_nat e) gpf (0, 0) = (a, b) ->
       znth pidf0 e = znth pid0 (upper_tri_index n a b) /\ znth pidf1 e = znth pid1 (upper_tri_index n a b))) ->
  forall w x y p q,
    In (w, (x, y)) (nxn_candidates W gpf pidf0 pidf1 gtype flt) ->
    0 <= w < W -> 0 <= p -> p < q -> q <= p + znth r (w * n + p) -> p < n ->
    (forall a b, In (a, b) gpf -> 0 <= a /\ a < b < n) ->
    (let row := nth (Z.to_nat w) sort_index [] in
     (znth row p = x /\ znth row q = y) \/ (znth row p = y /\ znth row q = x)) ->
    In (w, (x, y)) (sap_candidates n W nsweep sort_index (cumsum r) pid0 pid1 gtype flt).
Proof. exact nxn_in_range_subset_sap. Qed.
Print Assumptions C18_nxn_in_range_subset_sap.

(* regression instance of the repaired finding: same-type geoms sorted against their ids are
   stored as (0,1) by both broadphases (the SAP sweep used to store (1,0)) *)
Theorem C18_sap_pair_order_same :
  sap_candidates 2 1 10 [[1; 0]] (cumsum [1; 0]) [-1] [-1] [2; 2] (fun _ _ _ => true) = [(0, (0, 1))]
  /\ nxn_candidates 1 [(0, 1)] [-1] [-1] [2; 2] (fun _ _ _ => true) = [(0, (0, 1))].
Proof. exact sap_pair_order_same. Qed.
Print Assumptions C18_sap_pair_order_same.

(* filters_sound for explicit pairs: a pair with an explicit <pair> id is emitted by both kernels
   whatever the filter mask decides (repair of C18:filter:explicit-pair-margin-ignored) *)
Theorem C18_nxn_explicit_never_rejected :
  forall gpf pidf0 pidf1 gtype flt w e,
  znth pidf0 e >= 0 ->
  nxn_emit gpf pidf0 pidf1 gtype flt w e =
    Some (w, order_by_type gtype (fst (nth (Z.to_nat e) gpf (0, 0))) (snd (nth (Z.to_nat e) gpf (0, 0)))).
Proof. exact nxn_explicit_never_rejected. Qed.
Print Assumptions C18_nxn_explicit_never_rejected.

Theorem C18_sap_explicit_never_rejected :
  forall ngeom sort_index pid0 pid1 gtype flt w i j,
  let row := nth (Z.to_nat w) sort_index [] in
  let a := Z.min (znth row i) (znth row j) in
  let b := Z.max (znth row i) (znth row j) in
  znth pid0 (upper_tri_index ngeom a b) >= 0 ->
  sap_emit ngeom sort_index pid0 pid1 gtype flt (w, i, j) = Some (w, order_by_type gtype a b).
Proof. exact sap_explicit_never_rejected. Qed.
Print Assumptions C18_sap_explicit_never_rejected.

(* ... but only for DECODED work packages: the range comes from projection radii built from
   geom_margin+geom_gap, so an explicit pair with a larger pair margin can be outside the range.
   The faithful model emits it under NXN and never examines it under SAP (recorded finding
   C18:sap:explicit-pair-margin-outside-projection-range, replayed on the real kernels) *)
Theorem C18_sap_explicit_pair_outside_range_refuted :
  exists sort_index r pid0 pid1 gtype gpf pidf0 pidf1,
    In (0, (0, 2)) (nxn_candidates 1 gpf pidf0 pidf1 gtype (fun _ _ _ => false))
    /\ ~ In (0, (0, 2)) (sap_candidates 3 1 15 sort_index (cumsum r) pid0 pid1 gtype (fun _ _ _ => false)).
Proof. exact sap_explicit_pair_outside_range_refuted. Qed.
Print Assumptions C18_sap_explicit_pair_outside_range_refuted.

(* non-vacuity of the geometric hypotheses *)
Example C18_sphere_sound_example :
  _sphere_filter 1%R 1%R (1/4)%R (1/4)%R (v3 0 0 0) (v3 (12/5) 0 0) = true.
Proof. exact sphere_sound_example. Qed.
