(* Props/C26.v -- C26 "Forward and inverse dynamics are consistent".
   Statements only; every proof is `exact <lemma of Proof/Inverse.v>`.

   Tie to /repo, regenerated on every run: the kernels of inverse.py and the forward.py kernels
   _qfrc_smooth / _compute_damping_deriv / _euler_damp_qfrc are machine translated (Gen/T_inverse.v,
   Gen/kforward.v) and SHOWN here to compute the per-dof expressions the algebra is about; the host
   functions inverse.inverse / inverse.discrete_acc / forward.euler / forward.implicit are the stage
   programs of Gen/Skel_pipeline.v; the truth tables of their flag tests come from Gen/Skel_flags.v.
   Not proved (oracle of bin/props/C26.py): that support.mul_m, the constraint solver and the linear solves
   compute M qacc, the constraint force and exact solves (C21, C06), and float32 rounding. *)
From Coq Require Import String List Bool ZArith Reals.
From VF Require Import Base.Scalar Base.ScalarR Base.Vec Base.Kernel Base.KernelRd.
From VF Require Import Model.Pipeline Gen.Skel_pipeline Model.PipelineFacts Proof.Pipeline Gen.Skel_flags.
From VF Require Gen.T_inverse Gen.kforward.
From VF Require Import Model.Inverse Proof.Inverse.
Import ListNotations.
Local Open Scope string_scope.
Local Open Scope list_scope.

(* ---- T tie: what the kernels compute -------------------------------------------------------------- *)
Theorem C26_qfrc_inverse_kernel_is :
  forall (S : Type) (Sc : Scalar S) w i (bias passive constraint Ma out : Z -> Z -> S) orc,
    T_inverse.k__qfrc_inverse w i bias passive constraint Ma out orc =
    [mkW "qfrc_inverse_out" [w; i] KSet
         (VS (qfrc_inverse_val (bias w i) (passive w i) (constraint w i) (Ma w i)))].
Proof. exact @qfrc_inverse_kernel_is. Qed.
Print Assumptions C26_qfrc_inverse_kernel_is.

Theorem C26_qfrc_smooth_kernel_is :
  forall (S : Type) (Sc : Scalar S) w i treeid bodyid (applied : Z -> Z -> S) awake
         (bias passive actuator out : Z -> Z -> S) orc,
    kforward.k_qfrc_smooth w i treeid bodyid applied awake bias passive actuator out orc =
    [mkW "qfrc_smooth_out" [w; i] KSet
         (VS (qfrc_smooth_val (bias w i) (passive w i) (actuator w i) (applied w i)))].
Proof. exact @qfrc_smooth_kernel_is. Qed.
Print Assumptions C26_qfrc_smooth_kernel_is.

(* inverse._qfrc_eulerdamp and forward._compute_damping_deriv use the SAME damping coefficient
   _poly_force_deriv(damping, dpoly, qvel, 1); forward._euler_damp_qfrc adds h times it to the last stored
   entry of row i of the cloned inertia matrix (the diagonal slot: C27) *)
Theorem C26_qfrc_eulerdamp_kernel_is :
  forall (S : Type) (Sc : Scalar S) w i (ts : Z -> S) (damping : Z -> Z -> S) (dpoly : Z -> Z -> list S)
         (qvel qacc qfrc : Z -> Z -> S) orc n0 n1 n2,
    T_inverse.k__qfrc_eulerdamp w i ts damping dpoly qvel qacc qfrc orc n0 n1 n2 =
    [mkW "qfrc_out" [w; i] KSet
         (VS (eulerdamp_val (qfrc w i) (ts (Z.rem w n0))
                (damp_deriv_val (damping (Z.rem w n1) i) (dpoly (Z.rem w n2) i) (qvel w i))
                (qacc w i)))].
Proof. exact @qfrc_eulerdamp_kernel_is. Qed.
Print Assumptions C26_qfrc_eulerdamp_kernel_is.

Theorem C26_compute_damping_deriv_kernel_is :
  forall (S : Type) (Sc : Scalar S) w i (damping : Z -> Z -> S) (dpoly : Z -> Z -> list S)
         (qvel out : Z -> Z -> S) orc n1 n2,
    kforward.k__compute_damping_deriv w i damping dpoly qvel out orc n1 n2 =
    [mkW "deriv_out" [w; i] KSet
         (VS (damp_deriv_val (damping (Z.rem w n1) i) (dpoly (Z.rem w n2) i) (qvel w i)))].
Proof. exact @compute_damping_deriv_kernel_is. Qed.
Print Assumptions C26_compute_damping_deriv_kernel_is.

Theorem C26_euler_damp_qfrc_kernel_is :
  forall (S : Type) (Sc : Scalar S) w i (ts : Z -> S) (rownnz rowadr : Z -> Z) (dd Mout : Z -> Z -> S) orc n0,
    kforward.k__euler_damp_qfrc w i ts rownnz rowadr dd Mout orc n0 =
    [mkW "M_integration_out" [w; euler_diag_adr (rowadr i) (rownnz i)] KSet
         (VS (euler_diag_val (Mout w (euler_diag_adr (rowadr i) (rownnz i))) (ts (Z.rem w n0)) (dd w i)))].
Proof. exact @euler_damp_qfrc_kernel_is. Qed.
Print Assumptions C26_euler_damp_qfrc_kernel_is.

(* ---- inverse_of_forward ------------------------------------------------------------------------------ *)
Local Open Scope R_scope.
(* per dof, over the reals: qfrc_inverse = applied + actuator + xfrc + (forward KKT residual) +
   (forward constraint force - inverse constraint force) *)
Theorem C26_inverse_of_forward_identity :
  forall bias passive actuator applied xfrc Ma constraint_f constraint_i : R,
    let smooth := @qfrc_smooth_val R ScalarR bias passive actuator applied + xfrc in
    let residual := Ma - (smooth + constraint_f) in
    @qfrc_inverse_val R ScalarR bias passive constraint_i Ma =
    applied + actuator + xfrc + residual + (constraint_f - constraint_i).
Proof. exact inverse_of_forward_identity. Qed.
Print Assumptions C26_inverse_of_forward_identity.

(* with the same constraint force: qfrc_inverse = applied + actuator + xfrc  IFF  M qacc = qfrc_smooth +
   qfrc_constraint (zero forward residual) *)
Theorem C26_inverse_of_forward :
  forall bias passive actuator applied xfrc Ma constraint : R,
    let smooth := @qfrc_smooth_val R ScalarR bias passive actuator applied + xfrc in
    (@qfrc_inverse_val R ScalarR bias passive constraint Ma = applied + actuator + xfrc) <->
    (Ma = smooth + constraint).
Proof. exact inverse_of_forward. Qed.
Print Assumptions C26_inverse_of_forward.

(* ---- discrete_acc_roundtrip ---------------------------------------------------------------------------- *)
(* integrator (euler with implicit damping, implicitfast):  a' = solveK (M a)
   inverse.discrete_acc:                                     a  = solveM (K a')
   for any operators with solveM a left inverse of M and solveK a right inverse of K *)
Theorem C26_discrete_acc_roundtrip :
  forall (Mmul Kmul solveM solveK : @dvec R -> @dvec R),
    (forall x i, solveM (Mmul x) i = x i) ->
    (forall y i, Kmul (solveK y) i = y i) ->
    (forall x y, (forall i, x i = y i) -> forall i, solveM x i = solveM y i) ->
    forall a i, discrete_acc_map Kmul solveM (integrator_acc Mmul solveK a) i = a i.
Proof. exact discrete_acc_roundtrip_gen. Qed.
Print Assumptions C26_discrete_acc_roundtrip.

(* Euler: K x = M x + h * dd .* x with the kernel's own per-dof expression *)
Theorem C26_discrete_acc_roundtrip_euler :
  forall (Mmul solveM solveK : @dvec R -> @dvec R) (h : R) (dd : @dvec R),
    (forall x i, solveM (Mmul x) i = x i) ->
    (forall y i, Kmul_euler Mmul h dd (solveK y) i = y i) ->
    (forall x y, (forall i, x i = y i) -> forall i, solveM x i = solveM y i) ->
    forall a i,
      discrete_acc_map (Kmul_euler Mmul h dd) solveM (integrator_acc Mmul solveK a) i = a i.
Proof. exact discrete_acc_roundtrip_euler. Qed.
Print Assumptions C26_discrete_acc_roundtrip_euler.

Theorem C26_Kmul_euler_val : forall (Mmul : @dvec R -> @dvec R) h dd x i,
  Kmul_euler Mmul h dd x i = Mmul x i + h * dd i * x i.
Proof. exact Kmul_euler_val. Qed.
Print Assumptions C26_Kmul_euler_val.

(* the hypotheses are satisfiable (diagonal inertia) *)
Theorem C26_roundtrip_hypotheses_satisfiable :
  forall (m dd : @dvec R) (h : R), (forall i, 0 < m i) -> (forall i, 0 <= dd i) -> 0 < h ->
  let Mmul := fun (x : @dvec R) i => m i * x i in
  let solveM := fun (y : @dvec R) i => y i / m i in
  let solveK := fun (y : @dvec R) i => y i / (m i + h * dd i) in
  (forall x i, solveM (Mmul x) i = x i) /\
  (forall y i, Kmul_euler Mmul h dd (solveK y) i = y i) /\
  (forall x y, (forall i, x i = y i) -> forall i, solveM x i = solveM y i).
Proof. exact roundtrip_hypotheses_satisfiable. Qed.
Print Assumptions C26_roundtrip_hypotheses_satisfiable.

(* discrete_acc applied to an acceleration the integrator did NOT modify is off by h dd_i a_i / m_i *)
Theorem C26_discrete_acc_without_integrator_map :
  forall (m dd a : @dvec R) (h : R) i, 0 < m i ->
  let Mmul := fun (x : @dvec R) j => m j * x j in
  let solveM := fun (y : @dvec R) j => y j / m j in
  discrete_acc_map (Kmul_euler Mmul h dd) solveM a i = a i + h * dd i * a i / m i.
Proof. exact discrete_acc_without_integrator_map. Qed.
Print Assumptions C26_discrete_acc_without_integrator_map.
Local Close Scope R_scope.

(* ---- S facts on the regenerated host code -------------------------------------------------------------- *)
Theorem C26_inverse_stages : inverse_stages = inverse_stages_expected.
Proof. exact inverse_stages_ok. Qed.
Print Assumptions C26_inverse_stages.

(* Ma of the kernel is d.qfrc_inverse as left by support.mul_m(m, d, d.qfrc_inverse, d.qacc) *)
Theorem C26_inverse_tail : list_eqb stmt_eqb inverse_tail inverse_tail_expected = true.
Proof. exact inverse_tail_ok. Qed.
Print Assumptions C26_inverse_tail.

Theorem C26_inverse_wellformed :
  inverse_wellformed pv_inv_cont = true /\ inverse_wellformed pv_inv_disc_euler = true.
Proof. exact inverse_wellformed_ok. Qed.
Print Assumptions C26_inverse_wellformed.

(* inverse() writes no integration-state field except d.history (delayed sensors, finding of C37) *)
Theorem C26_inverse_state_frame_except_history :
  forall (V : Type) (I : event -> store V -> store V) (v : string -> bool),
    respects V I ->
    forall pv, In pv [pv_inv_cont; pv_inv_disc_euler] ->
    forall s f, In f state_fields -> f <> "d.history" ->
      run V I v (inverse_events pv) s f = s f.
Proof. exact inverse_state_frame_except_history. Qed.
Print Assumptions C26_inverse_state_frame_except_history.

Theorem C26_inverse_qacc_writers :
  dedup (flat_map (writers "d.qacc") (inverse_events pv_inv_cont)) = nil /\
  mem "copy" (dedup (flat_map (writers "d.qacc") (inverse_events pv_inv_disc_euler))) = true.
Proof. exact inverse_qacc_writers. Qed.
Print Assumptions C26_inverse_qacc_writers.

(* ---- discrete_guard_agree ----------------------------------------------------------------------------- *)
Theorem C26_guards_found :
  euler_guard = "not m.opt.disableflags & (DisableBit.EULERDAMP | DisableBit.DAMPER)" /\
  discrete_guards = ["m.opt.disableflags & DisableBit.EULERDAMP"] /\
  implicit_guard = "~(m.opt.disableflags | ~(DisableBit.ACTUATION | DisableBit.SPRING | DisableBit.DAMPER))".
Proof. exact guards_found. Qed.
Print Assumptions C26_guards_found.

(* euler() modifies the acceleration under exactly the condition under which discrete_acc inverts it,
   whenever DAMPER is not disabled and whenever EULERDAMP is disabled ... *)
Theorem C26_discrete_guard_agree_partial :
  (forall e, euler_modifies e false = discrete_inverts e false /\ euler_modifies e false <> None) /\
  (forall d, euler_modifies true d = discrete_inverts true d /\ euler_modifies true d <> None).
Proof. exact discrete_guard_agree_partial. Qed.
Print Assumptions C26_discrete_guard_agree_partial.

(* ... and NOT in the remaining case: EULERDAMP enabled, DAMPER disabled (design-phase finding F11;
   mujoco.mj_inverse behaves the same way, so MJWarp inherits it: recorded, not repaired) *)
Theorem C26_discrete_guard_agree_refuted :
  exists e d, euler_modifies e d = Some false /\ discrete_inverts e d = Some true.
Proof. exact discrete_guard_agree_refuted. Qed.
Print Assumptions C26_discrete_guard_agree_refuted.
