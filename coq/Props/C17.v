(* Props/C17.v -- C17 "No out-of-bounds access or crash on accepted inputs".
   Index-range theorems of every model that computes an index, re-stated VERBATIM from the Props
   file that owns the mechanism (statement taken with `type of`), plus the transcribed argument
   checks of make_data.  Kernels without a model are covered only by the crash oracle.

     index computed by                         theorem
     ---------------------------------------   ---------------------------------------------
     atomic row / nnz / contact / pair / dof    C17_alloc_in_bounds        (= C16_alloc_in_bounds:
       allocation, for ALL capacities incl. 0     every written index < capacity)
     flood fill stack and labels                C17_flood_fill_in_bounds   (= C28_flood_fill_components:
                                                  ghost flag bad = false: stack stays inside ntree^2,
                                                  fuel suffices, labels in [-1, nisland))
     island maps                                C17_island_dof_maps / _efc_maps (= C28_x: maps are
                                                  permutations of their ranges)
     history ring buffer physical index         C17_history_phys_index     (= C30_phys_index_bijection)
     compaction maps                            C17_compact_maps           (= C38_compact_maps_prefix)
     pair-table row upper_tri_index             C17_upper_tri_index        (= C19_upper_tri_index_bij)
     SAP work-package decoding                  C17_sap_decode             (= C18_sap_decode_bijection)
     SAP range clamp                            C17_sap_range              (= C18_sap_range_spec)
     state vector offsets                       C17_state_layout           (= C15_get_layout)
     inertia block layout offsets               C17_block_layout           (= C21_layout_partition) *)
From Coq Require Import ZArith Bool Lia.
From VF Require Import Model.Config Props.C16 Props.C28 Props.C30 Props.C38 Props.C19 Props.C18 Props.C15 Props.C21.
Local Open Scope Z_scope.

Theorem C17_alloc_in_bounds : ltac:(let t := type of C16_alloc_in_bounds in exact t).
Proof. exact C16_alloc_in_bounds. Qed.
Print Assumptions C17_alloc_in_bounds.
Theorem C17_flood_fill_in_bounds : ltac:(let t := type of C28_flood_fill_components in exact t).
Proof. exact C28_flood_fill_components. Qed.
Print Assumptions C17_flood_fill_in_bounds.
Theorem C17_island_dof_maps : ltac:(let t := type of C28_island_dof_maps_sched in exact t).
Proof. exact C28_island_dof_maps_sched. Qed.
Print Assumptions C17_island_dof_maps.
Theorem C17_island_efc_maps : ltac:(let t := type of C28_island_efc_maps_sched in exact t).
Proof. exact C28_island_efc_maps_sched. Qed.
Print Assumptions C17_island_efc_maps.
Theorem C17_history_phys_index : ltac:(let t := type of C30_phys_index_bijection in exact t).
Proof. exact C30_phys_index_bijection. Qed.
Print Assumptions C17_history_phys_index.
Theorem C17_compact_maps : ltac:(let t := type of C38_compact_maps_prefix in exact t).
Proof. exact C38_compact_maps_prefix. Qed.
Print Assumptions C17_compact_maps.
Theorem C17_upper_tri_index : ltac:(let t := type of C19_upper_tri_index_bij in exact t).
Proof. exact C19_upper_tri_index_bij. Qed.
Print Assumptions C17_upper_tri_index.
Theorem C17_sap_decode : ltac:(let t := type of C18_sap_decode_bijection in exact t).
Proof. exact C18_sap_decode_bijection. Qed.
Print Assumptions C17_sap_decode.
Theorem C17_sap_range : ltac:(let t := type of C18_sap_range_spec in exact t).
Proof. exact C18_sap_range_spec. Qed.
Print Assumptions C17_sap_range.
Theorem C17_state_layout : ltac:(let t := type of C15_get_layout in exact t).
Proof. exact C15_get_layout. Qed.
Print Assumptions C17_state_layout.
Theorem C17_block_layout : ltac:(let t := type of C21_layout_partition in exact t).
Proof. exact C21_layout_partition. Qed.
Print Assumptions C17_block_layout.

(* argument checks: an accepted configuration has non-negative capacities, 0 <= nvmax <= nv, at
   least one world, and 0 <= naccdmax <= naconmax for the RESOLVED flat capacities *)
Theorem C17_config_accepted_spec :
  forall nv c, make_data_accepts nv c = true ->
    0 <= nconmax c /\ 0 <= njmax c /\ (forall x, nvmax c = Some x -> 0 <= x <= nv) /\ 1 <= nworld c /\
    0 <= naccdmax_res c <= naconmax_res c.
Proof.
  intros nv c H. unfold make_data_accepts in H.
  apply andb_prop in H as [H H7]. apply andb_prop in H as [H H6]. apply andb_prop in H as [H H5].
  apply andb_prop in H as [H H4]. apply andb_prop in H as [H H3]. apply andb_prop in H as [H1 H2].
  assert (Hv : forall x, nvmax c = Some x -> 0 <= x <= nv).
  { intros x E. rewrite E in H3. apply andb_prop in H3. lia. }
  repeat split; try lia; apply Hv; assumption.
Qed.
Print Assumptions C17_config_accepted_spec.

Example C17_config_rejects :
  make_data_accepts 3 {| nconmax := -1; njmax := 1; nvmax := None; nworld := 1; naconmax := None; naccdmax := None |} = false
  /\ make_data_accepts 3 {| nconmax := 1; njmax := 1; nvmax := Some 4; nworld := 1; naconmax := None; naccdmax := None |} = false
  /\ make_data_accepts 3 {| nconmax := 1; njmax := 1; nvmax := None; nworld := 0; naconmax := None; naccdmax := None |} = false
  /\ make_data_accepts 3 {| nconmax := 1; njmax := 1; nvmax := None; nworld := 3; naconmax := None; naccdmax := Some 15 |} = false
  /\ make_data_accepts 3 {| nconmax := 0; njmax := 0; nvmax := Some 0; nworld := 1; naconmax := Some 0; naccdmax := Some 0 |} = true.
Proof. repeat split; reflexivity. Qed.
