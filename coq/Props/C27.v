(* Props/C27.v -- C27 "Velocity derivatives are correct".
   Statements only; every proof is `exact <lemma of Proof/Deriv.v>`.

   U.*  = Gen/T_util_misc.v, KF.* = Gen/kforward.v, TD.* = Gen/T_derivative.v, TP.* = Gen/T_passive.v:
   definitions REGENERATED from /repo on every run.  qderiv_vel_model / actuator_force_model
   (Model/Deriv.v) are hand models of derivative._qderiv_actuator_passive_vel and
   forward._actuator_force (the translator rejects both); bin/props/C27.py runs them against the
   real kernels on every check.  is_derive is Coquelicot's derivative over R.

   NOT proved (differential oracle only): RNE passes, fluid kernels, the tendon kernel's row search, float32,
   DC-motor branches of the actuator kernels. *)
From Coq Require Import ZArith Reals List Bool String.
Set Warnings "-ambiguous-paths".
From Coquelicot Require Import Coquelicot.
From VF Require Import Base.Scalar Base.ScalarR Base.Vec Base.Kernel Model.Deriv Proof.Deriv.
Import ListNotations.
Local Open Scope R_scope.

(* `_poly_force` returns the COEFFICIENT c(x) = k + p0*xv + p1*xv^2, xv = |x| if flg_odd = 1 else x *)
Theorem C27_poly_force_is_coefficient :
  forall (k : R) (poly : list R) (x : R) (flg : Z),
    U._poly_force k poly x flg = k + vget poly 0 * xval x flg + vget poly 1 * xval x flg * xval x flg.
Proof. exact poly_force_is_coefficient. Qed.
Print Assumptions C27_poly_force_is_coefficient.

(* the force is x*c(x); `_poly_force_deriv` is its derivative at EVERY x, 0 included (x|x| is C1) *)
Theorem C27_poly_force_deriv_correct :
  forall (k : R) (poly : list R) (x : R) (flg : Z),
    is_derive (fun y => y * U._poly_force k poly y flg) x (U._poly_force_deriv k poly x flg).
Proof. exact poly_force_deriv_correct. Qed.
Print Assumptions C27_poly_force_deriv_correct.

(* poly_potential' = x*c(x) EXCEPT that the source's constant wp.static(1.0/3.0) is the binary64
   0.3333333333333333 and not 1/3: the quadratic coefficient comes back scaled by 3*third_lit
   = 1 - 1e-16.  _partial: exact only for poly[0] = 0 or up to that factor. *)
Theorem C27_poly_potential_deriv_partial :
  forall (k : R) (poly : list R) (x : R) (flg : Z),
    is_derive (fun y => U.poly_potential k poly y flg) x
              (x * U._poly_force k [3 * third_lit * vget poly 0; vget poly 1] x flg).
Proof. exact poly_potential_deriv_partial. Qed.
Print Assumptions C27_poly_potential_deriv_partial.

Theorem C27_third_lit_close : Rabs (3 * third_lit - 1) <= 1 / 10 ^ 16.
Proof. exact third_lit_close. Qed.
Print Assumptions C27_third_lit_close.

(* passive._spring_damper_dof_passive, hinge / slide joint, damper enabled: the value left in
   qfrc_damper_out[w, dof] is damper_force = -v * c(v)  (also when all coefficients are 0) *)
Theorem C27_passive_damper_force_kernel :
  forall (w j flags : Z) (qpos_spring : Z -> Z -> R) (jnt_type jnt_qposadr jnt_dofadr : Z -> Z)
         (jnt_stiffness : Z -> Z -> R) (jnt_stiffnesspoly : Z -> Z -> list R)
         (dof_damping : Z -> Z -> R) (dof_dampingpoly : Z -> Z -> list R)
         (qpos_in qvel_in qfrc_spring_out qfrc_damper_out : Z -> Z -> R) (orc : nat -> Z)
         (sh0 sh1 sh2 sh3 sh4 : Z),
    (jnt_type j = 2%Z \/ jnt_type j = 3%Z) ->
    Z.land flags 64 = 0%Z ->
    let dof := jnt_dofadr j in
    wstored (TP.k__spring_damper_dof_passive w j flags qpos_spring jnt_type jnt_qposadr jnt_dofadr jnt_stiffness
               jnt_stiffnesspoly dof_damping dof_dampingpoly qpos_in qvel_in qfrc_spring_out qfrc_damper_out orc
               sh0 sh1 sh2 sh3 sh4) "qfrc_damper_out" [w; dof]
    = Some (damper_force (dof_damping (Z.rem w sh2) dof) (dof_dampingpoly (Z.rem w sh3) dof) (qvel_in w dof)).
Proof. exact passive_damper_force_kernel. Qed.
Print Assumptions C27_passive_damper_force_kernel.

(* forward._compute_damping_deriv: the single value D it stores is MINUS d(damper force)/dv (sign!) *)
Theorem C27_damping_deriv_kernel :
  forall (w t : Z) (dof_damping : Z -> Z -> R) (dof_dampingpoly : Z -> Z -> list R)
         (qvel_in deriv_out : Z -> Z -> R) (orc : nat -> Z) (sh0 sh1 : Z),
    let damping := dof_damping (Z.rem w sh0) t in
    let dpoly := dof_dampingpoly (Z.rem w sh1) t in
    exists D : R,
      KF.k__compute_damping_deriv w t dof_damping dof_dampingpoly qvel_in deriv_out orc sh0 sh1
        = [mkW "deriv_out" [w; t] KSet (VS D)] /\
      is_derive (damper_force damping dpoly) (qvel_in w t) (- D).
Proof. exact damping_deriv_kernel. Qed.
Print Assumptions C27_damping_deriv_kernel.

(* forward._euler_damp_qfrc: one write, M[adr] + h * damp_deriv at adr = rowadr + rownnz - 1 ... *)
Theorem C27_euler_damp_write :
  forall (w t : Z) (opt_timestep : Z -> R) (M_rownnz M_rowadr : Z -> Z) (damp_deriv Mio : Z -> Z -> R)
         (orc : nat -> Z) (sh : Z),
    KF.k__euler_damp_qfrc w t opt_timestep M_rownnz M_rowadr damp_deriv Mio orc sh
    = [mkW "M_integration_out" [w; (M_rowadr t + M_rownnz t - 1)%Z] KSet
         (VS (Mio w (M_rowadr t + M_rownnz t - 1)%Z + opt_timestep (Z.rem w sh) * damp_deriv w t))].
Proof. exact euler_damp_write. Qed.
Print Assumptions C27_euler_damp_write.

(* ... which under MuJoCo's CSR-lower invariant is THE diagonal entry (t,t), and no other dof's
   task writes it (no race, no double counting).  The invariant is checked on real models by
   bin/props/C27.py. *)
Theorem C27_euler_damp_diagonal :
  forall (nv : Z) (rownnz rowadr colind : Z -> Z),
    csr_lower_inv nv rownnz rowadr colind ->
    forall t, (0 <= t < nv)%Z ->
      let adr := (rowadr t + rownnz t - 1)%Z in
      csr_entry rownnz rowadr colind t t adr /\
      (forall adr', csr_entry rownnz rowadr colind t t adr' -> adr' = adr) /\
      (forall t', (0 <= t' < nv)%Z -> t' <> t -> (rowadr t' + rownnz t' - 1)%Z <> adr).
Proof. exact euler_damp_diagonal. Qed.
Print Assumptions C27_euler_damp_diagonal.

Example C27_csr_lower_inv_satisfiable :
  csr_lower_inv 3 (fun i => i + 1)%Z (fun i => i * (i + 1) / 2)%Z
    (fun a => nth (Z.to_nat a) [0; 0; 1; 0; 1; 2]%Z 0%Z).
Proof. exact csr_lower_inv_example. Qed.

(* derivative._qderiv_actuator_passive (implicit integrators), element (i,j) present in M, damper
   enabled: it stores M - h * (qDeriv_in + [i = j] * d(damper force_i)/dv_i) *)
Theorem C27_qderiv_actuator_passive_write :
  forall (w e : Z) (opt_timestep : Z -> R) (flags : Z) (dof_damping : Z -> Z -> R)
         (dof_dampingpoly : Z -> Z -> list R) (M_elemid : Z -> Z -> Z) (qvel_in M_in : Z -> Z -> R)
         (Mi Mj : Z -> Z) (qDeriv_in qDeriv_out : Z -> Z -> R) (orc : nat -> Z) (sh0 sh1 sh2 : Z),
    let i := Mi e in let j := Mj e in let madr := M_elemid i j in
    let h := opt_timestep (Z.rem w sh2) in
    (0 <= madr)%Z ->
    Z.land flags 64 = 0%Z ->
    exists dfdv : R,
      is_derive (damper_force (dof_damping (Z.rem w sh0) i) (dof_dampingpoly (Z.rem w sh1) i)) (qvel_in w i) dfdv /\
      TD.k__qderiv_actuator_passive w e opt_timestep flags dof_damping dof_dampingpoly M_elemid qvel_in M_in Mi Mj
        qDeriv_in qDeriv_out orc sh0 sh1 sh2
      = [mkW "qDeriv_out" [w; madr] KSet
           (VS (M_in w madr - h * (qDeriv_in w madr + (if Z.eqb i j then dfdv else 0))))].
Proof. exact qderiv_actuator_passive_write. Qed.
Print Assumptions C27_qderiv_actuator_passive_write.

(* passive._spring_damper_tendon_passive, task (world, tendon t, k-th entry of t's Jacobian row), damper
   enabled: it adds  J[t,k] * damper_force(damping_t, dpoly_t, v_t)  into qfrc_damper_out[w, colind]
   (damper_force = -v*c(v), linear + polynomial; 0 when all three coefficients are 0) *)
Theorem C27_passive_tendon_damper_kernel :
  forall (w t k : Z) (rownnz rowadr colind : Z -> Z) (tstiff : Z -> Z -> R) (tspoly : Z -> Z -> list R)
         (tdamp : Z -> Z -> R) (tpoly : Z -> Z -> list R) (tls : Z -> Z -> list R)
         (ten_J_in ten_length_in ten_velocity_in : Z -> Z -> R) (dsbl_spring : bool)
         (qso qdo : Z -> Z -> R) (orc : nat -> Z) (sh0 sh1 sh2 sh3 sh4 : Z),
    (0 <= k < rownnz t)%Z ->
    let adr := (rowadr t + k)%Z in
    wadded (TP.k__spring_damper_tendon_passive w t k rownnz rowadr colind tstiff tspoly tdamp tpoly tls ten_J_in
              ten_length_in ten_velocity_in dsbl_spring false qso qdo orc sh0 sh1 sh2 sh3 sh4)
           "qfrc_damper_out" [w; colind adr]
    = ten_J_in w adr * damper_force (tdamp (Z.rem w sh2) t) (tpoly (Z.rem w sh3) t) (ten_velocity_in w t).
Proof. exact passive_tendon_damper_kernel. Qed.
Print Assumptions C27_passive_tendon_damper_kernel.

(* derivative._qderiv_tendon_damping, element (i,j) present in M: it subtracts
   h * sum over ALL tendons t of JJ(t) * d(damper_force_t)/dv_t from qDeriv_out[w, madr], where JJ(t)
   (the product J[t,i]*J[t,j] found by the kernel's row search) is fixed BEFORE the damping
   coefficients and velocities are chosen: no tendon is skipped because of the values of its
   linear / polynomial coefficients (the early-out only drops terms that are 0).
   Not proved: that the row search returns the Jacobian entries of dofs i and j (oracle). *)
Theorem C27_qderiv_tendon_damping_write :
  forall (w e ntendon : Z) (rownnz rowadr colind : Z -> Z) (M_elemid : Z -> Z -> Z)
         (ten_J_in : Z -> Z -> R) (Mi Mj : Z -> Z),
  exists JJ : Z -> R,
  forall (opt_timestep : Z -> R) (tdamp : Z -> Z -> R) (tpoly : Z -> Z -> list R) (tvel qDeriv_out : Z -> Z -> R)
         (orc : nat -> Z) (sh0 sh1 sh2 : Z),
    let madr := M_elemid (Mi e) (Mj e) in
    let h := opt_timestep (Z.rem w sh2) in
    (0 <= madr)%Z ->
    exists D : Z -> R,
      (forall t, is_derive (damper_force (tdamp (Z.rem w sh0) t) (tpoly (Z.rem w sh1) t)) (tvel w t) (D t)) /\
      TD.k__qderiv_tendon_damping w e ntendon opt_timestep rownnz rowadr colind tdamp tpoly M_elemid ten_J_in tvel Mi Mj
        qDeriv_out orc sh0 sh1 sh2
      = [mkW "qDeriv_out" [w; madr] KSet
           (VS (qDeriv_out w madr - h * sumZ (Z.to_nat ntendon) 0 (fun t => JJ t * D t)))].
Proof. exact qderiv_tendon_damping_write. Qed.
Print Assumptions C27_qderiv_tendon_damping_write.

(* derivative._qderiv_box_fluid, task (world, inertia-box fluid body f, element e) with the element in M and
   dof i an ancestor dof of the body: whenever a medium is present -- density > 0 OR viscosity > 0, i.e.
   density-only and viscosity-only media included -- the task adds  -h * J_i^T B J_j  with B the translated
   _deriv_box_fluid and J the translated _get_jac_column_local ... *)
Theorem C27_qderiv_box_fluid_write :
  forall (w f e : Z) (opt_timestep : Z -> R) (opt_wind : Z -> list R) (opt_density opt_viscosity : Z -> R)
         (integ : Z) (body_parentid body_rootid : Z -> Z) (body_mass : Z -> Z -> R) (body_inertia : Z -> Z -> list R)
         (dof_bodyid body_fluid_box_adr : Z -> Z) (isanc M_elemid : Z -> Z -> Z)
         (xipos ximat subtree_com cdof cvel : Z -> Z -> list R) (Mi Mj : Z -> Z) (qDeriv_out : Z -> Z -> R)
         (orc : nat -> Z) (s0 s1 s2 s3 s4 s5 : Z),
    let body := body_fluid_box_adr f in
    let i := Mi e in let j := Mj e in let madr := M_elemid i j in
    let density := opt_density (Z.rem w s1) in let viscosity := opt_viscosity (Z.rem w s2) in
    let h := opt_timestep (Z.rem w s3) in
    (0 <= madr)%Z -> dof_bodyid i <> 0%Z -> isanc body i <> 0%Z ->
    (0 < density \/ 0 < viscosity) ->
    wadded (box_ws w f e opt_timestep opt_wind opt_density opt_viscosity integ body_parentid body_rootid body_mass
              body_inertia dof_bodyid body_fluid_box_adr isanc M_elemid xipos ximat subtree_com cdof cvel Mi Mj qDeriv_out
              orc s0 s1 s2 s3 s4 s5) "qDeriv_out" [w; madr]
    = - (vdot (box_J w f body_parentid body_rootid dof_bodyid body_fluid_box_adr xipos ximat subtree_com cdof i)
           (mat_vec 6 6 (box_B w f opt_wind opt_density opt_viscosity integ body_rootid body_mass body_inertia
                           body_fluid_box_adr xipos ximat subtree_com cvel s0 s1 s2 s4 s5)
              (box_J w f body_parentid body_rootid dof_bodyid body_fluid_box_adr xipos ximat subtree_com cdof j)) * h).
Proof. exact qderiv_box_fluid_write. Qed.
Print Assumptions C27_qderiv_box_fluid_write.

(* ... and with no medium (density <= 0 and viscosity <= 0) it writes nothing *)
Theorem C27_qderiv_box_fluid_nomedium :
  forall (w f e : Z) (opt_timestep : Z -> R) (opt_wind : Z -> list R) (opt_density opt_viscosity : Z -> R)
         (integ : Z) (body_parentid body_rootid : Z -> Z) (body_mass : Z -> Z -> R) (body_inertia : Z -> Z -> list R)
         (dof_bodyid body_fluid_box_adr : Z -> Z) (isanc M_elemid : Z -> Z -> Z)
         (xipos ximat subtree_com cdof cvel : Z -> Z -> list R) (Mi Mj : Z -> Z) (qDeriv_out : Z -> Z -> R)
         (orc : nat -> Z) (s0 s1 s2 s3 s4 s5 : Z),
    (0 <= M_elemid (Mi e) (Mj e))%Z -> dof_bodyid (Mi e) <> 0%Z -> isanc (body_fluid_box_adr f) (Mi e) <> 0%Z ->
    opt_density (Z.rem w s1) <= 0 -> opt_viscosity (Z.rem w s2) <= 0 ->
    box_ws w f e opt_timestep opt_wind opt_density opt_viscosity integ body_parentid body_rootid body_mass
      body_inertia dof_bodyid body_fluid_box_adr isanc M_elemid xipos ximat subtree_com cdof cvel Mi Mj qDeriv_out
      orc s0 s1 s2 s3 s4 s5 = [].
Proof. exact qderiv_box_fluid_nomedium. Qed.
Print Assumptions C27_qderiv_box_fluid_nomedium.

(* B = _deriv_box_fluid vs the local inertia-box force of passive._fluid_force (hand model box_fluid_local,
   compared with the real kernel on every run).  Diagonal: closed form Bdiag with the source's binary64
   constants; the derivative of force component c in its own velocity component is Bdiag with the exact
   1/3 and 3*PI.  _partial: see Proof/Deriv.v. *)
Theorem C27_box_fluid_deriv_partial :
  forall integ (bm : Z -> Z -> R) (bi : Z -> Z -> list R) w bd a0 a1 a2 a3 a4 a5 rho nu sh0 sh1,
    let mass := bm (Z.rem w sh0) bd in
    let inertia := bi (Z.rem w sh1) bd in
    let bx := box_dims mass inertia in
    let B := TD._deriv_box_fluid integ bm bi w bd [a0; a1; a2; a3; a4; a5] rho nu sh0 sh1 in
    let F := fun l => box_fluid_local mass inertia (firstn 3 l) (skipn 3 l) rho nu in
    0 < mass ->
    (mget 6 B 0 0 = Bdiag third_lit (- lit3pi) (vget bx 0) (vget bx 1) (vget bx 2) a0 rho nu 0 /\
     is_derive (fun x => nth 0 (F [x; a1; a2; a3; a4; a5]) 0) a0 (Bdiag (1/3) (3*PI) (vget bx 0) (vget bx 1) (vget bx 2) a0 rho nu 0)) /\
    (mget 6 B 1 1 = Bdiag third_lit (- lit3pi) (vget bx 0) (vget bx 1) (vget bx 2) a1 rho nu 1 /\
     is_derive (fun x => nth 1 (F [a0; x; a2; a3; a4; a5]) 0) a1 (Bdiag (1/3) (3*PI) (vget bx 0) (vget bx 1) (vget bx 2) a1 rho nu 1)) /\
    (mget 6 B 2 2 = Bdiag third_lit (- lit3pi) (vget bx 0) (vget bx 1) (vget bx 2) a2 rho nu 2 /\
     is_derive (fun x => nth 2 (F [a0; a1; x; a3; a4; a5]) 0) a2 (Bdiag (1/3) (3*PI) (vget bx 0) (vget bx 1) (vget bx 2) a2 rho nu 2)) /\
    (mget 6 B 3 3 = Bdiag third_lit (- lit3pi) (vget bx 0) (vget bx 1) (vget bx 2) a3 rho nu 3 /\
     is_derive (fun x => nth 3 (F [a0; a1; a2; x; a4; a5]) 0) a3 (Bdiag (1/3) (3*PI) (vget bx 0) (vget bx 1) (vget bx 2) a3 rho nu 3)) /\
    (mget 6 B 4 4 = Bdiag third_lit (- lit3pi) (vget bx 0) (vget bx 1) (vget bx 2) a4 rho nu 4 /\
     is_derive (fun x => nth 4 (F [a0; a1; a2; a3; x; a5]) 0) a4 (Bdiag (1/3) (3*PI) (vget bx 0) (vget bx 1) (vget bx 2) a4 rho nu 4)) /\
    (mget 6 B 5 5 = Bdiag third_lit (- lit3pi) (vget bx 0) (vget bx 1) (vget bx 2) a5 rho nu 5 /\
     is_derive (fun x => nth 5 (F [a0; a1; a2; a3; a4; x]) 0) a5 (Bdiag (1/3) (3*PI) (vget bx 0) (vget bx 1) (vget bx 2) a5 rho nu 5)).
Proof. exact box_fluid_deriv_partial. Qed.
Print Assumptions C27_box_fluid_deriv_partial.

(* density-only (or no) medium: the diagonal of B is EXACTLY d(local box force)/d(local velocity) *)
Theorem C27_box_fluid_deriv_density_exact :
  forall integ (bm : Z -> Z -> R) (bi : Z -> Z -> list R) w bd a0 a1 a2 a3 a4 a5 rho nu sh0 sh1,
    let mass := bm (Z.rem w sh0) bd in
    let inertia := bi (Z.rem w sh1) bd in
    let B := TD._deriv_box_fluid integ bm bi w bd [a0; a1; a2; a3; a4; a5] rho nu sh0 sh1 in
    let F := fun l => box_fluid_local mass inertia (firstn 3 l) (skipn 3 l) rho nu in
    0 < mass -> nu <= 0 ->
    is_derive (fun x => nth 0 (F [x; a1; a2; a3; a4; a5]) 0) a0 (mget 6 B 0 0) /\
    is_derive (fun x => nth 1 (F [a0; x; a2; a3; a4; a5]) 0) a1 (mget 6 B 1 1) /\
    is_derive (fun x => nth 2 (F [a0; a1; x; a3; a4; a5]) 0) a2 (mget 6 B 2 2) /\
    is_derive (fun x => nth 3 (F [a0; a1; a2; x; a4; a5]) 0) a3 (mget 6 B 3 3) /\
    is_derive (fun x => nth 4 (F [a0; a1; a2; a3; x; a5]) 0) a4 (mget 6 B 4 4) /\
    is_derive (fun x => nth 5 (F [a0; a1; a2; a3; a4; x]) 0) a5 (mget 6 B 5 5).
Proof. exact box_fluid_deriv_density_exact. Qed.
Print Assumptions C27_box_fluid_deriv_density_exact.

(* B is diagonal for every medium and both implicit integrators *)
Theorem C27_box_B_offdiag :
  forall integ (bm : Z -> Z -> R) (bi : Z -> Z -> list R) w bd a0 a1 a2 a3 a4 a5 rho nu sh0 sh1 (r c : Z),
    (0 <= r < 6)%Z -> (0 <= c < 6)%Z -> r <> c ->
    mget 6 (TD._deriv_box_fluid integ bm bi w bd [a0; a1; a2; a3; a4; a5] rho nu sh0 sh1) r c = 0.
Proof. exact box_B_offdiag. Qed.
Print Assumptions C27_box_B_offdiag.

(* muscle gain: muscle_gain_vel is d muscle_gain / d velocity away from the three breakpoints
   V = -1, 0, fvmax - 1 of the force-velocity curve (V = vel / max(MINVAL, L0*vmax)).
   _partial: the curve is C1 at the breakpoints only when fvmax - 1 >= MINVAL; not proved there. *)
Theorem C27_muscle_gain_vel_correct_partial :
  forall (len v0 : R) (lr : list R) (acc0 : R) (prm : list R),
    mus_V v0 lr prm <> -1 -> mus_V v0 lr prm <> 0 -> mus_V v0 lr prm <> vget prm 8 - 1 ->
    is_derive (fun v => U.muscle_gain len v lr acc0 prm) v0 (U.muscle_gain_vel len v0 lr acc0 prm).
Proof. exact muscle_gain_vel_correct_partial. Qed.
Print Assumptions C27_muscle_gain_vel_correct_partial.

Example C27_muscle_regular_example :
  let prm := [0; 1; 1; 1; 1/2; 3/2; 1; 1; 2] in
  mus_V (1/2) [0; 1] prm = 1/2 /\
  is_derive (fun v => U.muscle_gain (1/2) v [0; 1] 1 prm) (1/2) (U.muscle_gain_vel (1/2) (1/2) [0; 1] 1 prm).
Proof. exact muscle_regular_example. Qed.

(* the actuator kernel after the repairs 62f359e / ccf2e7d: the value _qderiv_actuator_passive_vel stores
   (Kval, evaluated on the velocity and the force the force kernel produced) is d force / d actuator-
   velocity, where F is the force _actuator_force stores as a function of the velocity.  It is taken at
   the control CLAMPED to ctrlrange (both kernels clamp; no hypothesis on ctrl any more) and includes the
   muscle gain's velocity dependence (muscle_regular: away from the FV breakpoints).  Covers
   fixed/affine/muscle/user gain, none/affine/muscle/user bias, every dynamics type except DC motor,
   actearly, force not clamped by forcerange. *)
Theorem C27_actuator_vel_deriv :
  forall (na : Z) (h : R) (dyntype gaintype biastype actadr actnum : Z)
         (dynprm gainprm biasprm : list R) (actlimited : bool) (actrange : list R)
         (actearly forcelimited : bool) (forcerange : list R) (ctrllimited : bool) (ctrlrange : list R)
         (acc0 : R) (lengthrange act_in : list R) (ctrl len : R) (dsbl : Z) (act_dot_in : list R),
    dyntype <> 5%Z -> gaintype <> 3%Z -> biastype <> 3%Z ->
    forall v0 : R,
      (dyntype = 0%Z /\ (negb (na =? 0)%Z && (actadr >=? 0)%Z)%bool = false \/
       dyntype <> 0%Z /\ (negb (na =? 0)%Z && (actadr >=? 0)%Z)%bool = true) ->
      (dyntype <> 0%Z ->
       vget act_dot_in (actadr + actnum - 1) =
       Adot na h dyntype gaintype biastype actadr actnum dynprm gainprm biasprm actlimited actrange actearly
         forcelimited forcerange ctrllimited ctrlrange acc0 lengthrange act_in ctrl len dsbl v0) ->
      muscle_regular gaintype gainprm lengthrange v0 ->
      (forcelimited = false \/
       vget forcerange 0 <
         F na h dyntype gaintype biastype actadr actnum dynprm gainprm biasprm actlimited actrange actearly
           forcelimited forcerange ctrllimited ctrlrange acc0 lengthrange act_in ctrl len dsbl v0 < vget forcerange 1) ->
      is_derive
        (F na h dyntype gaintype biastype actadr actnum dynprm gainprm biasprm actlimited actrange actearly
           forcelimited forcerange ctrllimited ctrlrange acc0 lengthrange act_in ctrl len dsbl) v0
        (Kval h dyntype gaintype biastype actadr actnum dynprm gainprm biasprm actlimited actrange actearly
           forcelimited forcerange ctrllimited ctrlrange acc0 lengthrange act_in ctrl len dsbl act_dot_in v0
           (F na h dyntype gaintype biastype actadr actnum dynprm gainprm biasprm actlimited actrange actearly
              forcelimited forcerange ctrllimited ctrlrange acc0 lengthrange act_in ctrl len dsbl v0)).
Proof. exact actuator_vel_deriv_nodc. Qed.
Print Assumptions C27_actuator_vel_deriv.

(* force clamped by forcerange (strictly outside): locally constant force, the kernel stores 0 *)
Theorem C27_actuator_vel_deriv_forceclamped :
  forall (na : Z) (h : R) (dyntype gaintype biastype actadr actnum : Z)
         (dynprm gainprm biasprm : list R) (actlimited : bool) (actrange : list R)
         (actearly forcelimited : bool) (forcerange : list R) (ctrllimited : bool) (ctrlrange : list R)
         (acc0 : R) (lengthrange act_in : list R) (ctrl len : R) (dsbl : Z) (act_dot_in : list R),
    dyntype <> 5%Z -> gaintype <> 3%Z -> biastype <> 3%Z ->
    forall v0 : R,
      muscle_regular gaintype gainprm lengthrange v0 ->
      forcelimited = true -> vget forcerange 0 <= vget forcerange 1 ->
      (Funclamped na h dyntype gaintype biastype actadr actnum dynprm gainprm biasprm actlimited actrange actearly
         forcerange ctrllimited ctrlrange acc0 lengthrange act_in ctrl len dsbl v0 < vget forcerange 0 \/
       vget forcerange 1 <
       Funclamped na h dyntype gaintype biastype actadr actnum dynprm gainprm biasprm actlimited actrange actearly
         forcerange ctrllimited ctrlrange acc0 lengthrange act_in ctrl len dsbl v0) ->
      is_derive
        (F na h dyntype gaintype biastype actadr actnum dynprm gainprm biasprm actlimited actrange actearly
           forcelimited forcerange ctrllimited ctrlrange acc0 lengthrange act_in ctrl len dsbl) v0 0 /\
      Kval h dyntype gaintype biastype actadr actnum dynprm gainprm biasprm actlimited actrange actearly
        forcelimited forcerange ctrllimited ctrlrange acc0 lengthrange act_in ctrl len dsbl act_dot_in v0
        (F na h dyntype gaintype biastype actadr actnum dynprm gainprm biasprm actlimited actrange actearly
           forcelimited forcerange ctrllimited ctrlrange acc0 lengthrange act_in ctrl len dsbl v0) = 0.
Proof. exact actuator_vel_deriv_forceclamped_nodc. Qed.
Print Assumptions C27_actuator_vel_deriv_forceclamped.

(* regression witness of the repaired defect C27:_qderiv_actuator_passive_vel:ctrl-not-clamped
   (formerly C27_actuator_vel_deriv_clamped_ctrl_refuted): gain = 1 + 2*velocity, ctrlrange [-1,1],
   ctrl = 3.  The kernel now stores 2 * clamp(3) = 2 = d force / d velocity (it stored 6).
   Replayed on the real code by bin/props/C27.py under the same key. *)
Theorem C27_actuator_vel_deriv_clamped_ctrl_witness :
  let Fx := F 0 (1/500) 0 1 0 (-1) 0 [] [1; 0; 2] [] false [] false false [] true [-1; 1] 1 [-1; 1] [] 3 0 0 in
  let K := Kval (1/500) 0 1 0 (-1) 0 [] [1; 0; 2] [] false [] false false [] true [-1; 1] 1 [-1; 1] [] 3 0 0 [] 0 (Fx 0) in
  K = 2 /\ is_derive Fx 0 K.
Proof. exact actuator_vel_deriv_clamped_ctrl_witness. Qed.
Print Assumptions C27_actuator_vel_deriv_clamped_ctrl_witness.

(* deriv_rne_body2jnt_sparse: flg_subtract = false (what implicit() passes) ADDS dt * cdof_i . Dcfrc *)
Theorem C27_rne_body2jnt_adds :
  forall (w e : Z) (dof_bodyid : Z -> Z) (cdof_in : Z -> Z -> list R) (timestep : Z -> R) (Di Dj : Z -> Z)
         (Dcfrc : Z -> Z -> Z -> list R) (flg : bool) (qDeriv_out : Z -> Z -> R) (orc : nat -> Z) (sh : Z),
    TD.k_deriv_rne_body2jnt_sparse w e dof_bodyid cdof_in timestep Di Dj Dcfrc flg qDeriv_out orc sh
    = [mkW "qDeriv_out" [w; e] (if flg then KSub else KAdd)
         (VS (timestep (Z.rem w sh) * vdot (cdof_in w (Di e)) (Dcfrc w (dof_bodyid (Di e)) (Dj e))))].
Proof. exact rne_body2jnt_adds. Qed.
Print Assumptions C27_rne_body2jnt_adds.

(* non-vacuity of C27_actuator_vel_deriv *)
Example C27_actuator_vel_deriv_affine_example :
  let adot := Adot 1 (1/500) 1 1 1 0 1 [] [1; 0; 2] [0; 0; -1] false [] false false [] true [-1; 1] 1 [-1; 1] [1/2] (1/2) 0 0 3 in
  is_derive (F 1 (1/500) 1 1 1 0 1 [] [1; 0; 2] [0; 0; -1] false [] false false [] true [-1; 1] 1 [-1; 1] [1/2] (1/2) 0 0) 3
    (Kval (1/500) 1 1 1 0 1 [] [1; 0; 2] [0; 0; -1] false [] false false [] true [-1; 1] 1 [-1; 1] [1/2] (1/2) 0 0 [adot] 3
       (F 1 (1/500) 1 1 1 0 1 [] [1; 0; 2] [0; 0; -1] false [] false false [] true [-1; 1] 1 [-1; 1] [1/2] (1/2) 0 0 3)).
Proof. exact actuator_vel_deriv_affine_example. Qed.
