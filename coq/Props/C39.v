(* Props/C39.v -- C39 "contact_force reports the contact wrench".
   Statements only; every proof is `exact <lemma of Proof/ContactForce.v>`.
   dp = _decode_pyramid and cf = contact_force_fn are the definitions REGENERATED from
   /repo/mujoco_warp/_src/support.py (Gen/support.v) at the reals; Warp arrays are total functions
   of their (integer) indices.  decode_ref is MuJoCo's mju_decodePyramid written out:
     dim = 1: force[0] = e_0;  else force[0] = sum_{i < 2(dim-1)} e_i,
     force[i+1] = (e_{2i} - e_{2i+1}) * mu_i for i < dim-1, remaining slots 0. *)
From Coq Require Import ZArith Reals List Bool.
From Coq Require Import String.
From VF Require Import Base.Scalar Base.ScalarR Base.Vec Base.Kernel Gen.support Proof.ContactForce.
Import ListNotations.
Local Open Scope R_scope.

Theorem C39_decode_pyramid_condim1 :
  forall njmax p adr mu, dp njmax p adr mu 1 = [p adr; 0; 0; 0; 0; 0].
Proof. exact decode_pyramid_condim1. Qed.
Print Assumptions C39_decode_pyramid_condim1.

(* condim 2..6 (MuJoCo uses 3, 4, 6): mju_decodePyramid applied to the GUARDED reads
   gread njmax p a = (a < njmax ? p[a] : 0) of the 2(condim-1) edge rows at adr, adr+1, ... *)
Theorem C39_decode_pyramid_spec :
  forall njmax p adr mu0 mu1 mu2 mu3 mu4 condim,
    (condim = 2 \/ condim = 3 \/ condim = 4 \/ condim = 5 \/ condim = 6)%Z ->
    dp njmax p adr [mu0; mu1; mu2; mu3; mu4] condim
    = decode_ref (fun i => gread njmax p (i + adr)%Z) [mu0; mu1; mu2; mu3; mu4] condim.
Proof. exact decode_pyramid_spec. Qed.
Print Assumptions C39_decode_pyramid_spec.

(* when all edge rows lie inside the row buffer it IS mju_decodePyramid(efc_force + adr, mu, dim) *)
Theorem C39_decode_pyramid_is_mju :
  forall njmax p adr mu0 mu1 mu2 mu3 mu4 condim,
    (condim = 2 \/ condim = 3 \/ condim = 4 \/ condim = 5 \/ condim = 6)%Z ->
    (adr + 2 * (condim - 1) <= njmax)%Z ->
    dp njmax p adr [mu0; mu1; mu2; mu3; mu4] condim
    = decode_ref (fun i => p (i + adr)%Z) [mu0; mu1; mu2; mu3; mu4] condim.
Proof. exact decode_pyramid_is_mju. Qed.
Print Assumptions C39_decode_pyramid_is_mju.

(* non-negative edge forces (C24) decode to a non-negative normal force *)
Theorem C39_pyramid_normal_nonneg :
  forall n e, (forall i, 0 <= e i) -> 0 <= sum_edges n e.
Proof. exact sum_edges_nonneg. Qed.
Print Assumptions C39_pyramid_normal_nonneg.

(* contact_force_fn.  CF b = contact_force_fn ... to_world_frame:=b ;  cf_valid is the code's guard
   contact_id >= 0 and contact_id <= nacon[0] and efc_address >= 0. *)
Theorem C39_contact_force_invalid :
  forall opt_cone frame fric cdim cadr adh efc_force njmax nacon w cid,
    cf_valid cadr nacon cid = false ->
    CF opt_cone frame fric cdim cadr adh efc_force njmax nacon w cid false = [0; 0; 0; 0; 0; 0].
Proof. exact contact_force_invalid. Qed.
Print Assumptions C39_contact_force_invalid.

(* pyramidal cone: decoded pyramid, normal component minus the contact's adhesion *)
Theorem C39_contact_force_pyramidal :
  forall opt_cone frame fric cdim cadr adh efc_force njmax nacon w cid,
    cf_valid cadr nacon cid = true -> opt_cone = 0%Z ->
    CF opt_cone frame fric cdim cadr adh efc_force njmax nacon w cid false
    = let f := dp njmax (efc_force w) (cadr cid 0%Z) (fric cid) (cdim cid) in
      vset f 0 (vget f 0 - adh cid).
Proof. exact contact_force_pyramidal. Qed.
Print Assumptions C39_contact_force_pyramidal.

(* elliptic cone: copy of the contact's dim rows (each read guarded by address < njmax), normal
   component minus adhesion, remaining slots 0 *)
Theorem C39_contact_force_elliptic :
  forall opt_cone frame fric cdim cadr adh efc_force njmax nacon w cid,
    cf_valid cadr nacon cid = true -> opt_cone <> 0%Z ->
    (cdim cid = 1 \/ cdim cid = 3 \/ cdim cid = 4 \/ cdim cid = 6)%Z ->
    let rd := ell_read cdim cadr efc_force njmax w cid in
    CF opt_cone frame fric cdim cadr adh efc_force njmax nacon w cid false
    = [rd 0%Z - adh cid; rd 1%Z; rd 2%Z; rd 3%Z; rd 4%Z; rd 5%Z].
Proof. exact contact_force_elliptic. Qed.
Print Assumptions C39_contact_force_elliptic.

(* to_world_frame: both halves multiplied (row vector times matrix) by the contact frame, i.e. the
   TRANSPOSED frame applied to force and to torque *)
Theorem C39_contact_force_world_frame :
  forall opt_cone frame fric cdim cadr adh efc_force njmax nacon w cid,
    CF opt_cone frame fric cdim cadr adh efc_force njmax nacon w cid true
    = rot_halves (frame cid) (CF opt_cone frame fric cdim cadr adh efc_force njmax nacon w cid false).
Proof. exact contact_force_world_frame. Qed.
Print Assumptions C39_contact_force_world_frame.

Theorem C39_vec_mat_is_transpose :
  forall a b c m0 m1 m2 m3 m4 m5 m6 m7 m8,
    @vec_mat R ScalarR 3 3 [a; b; c] [m0; m1; m2; m3; m4; m5; m6; m7; m8]
    = @mat_vec R ScalarR 3 3 (@mtranspose R ScalarR 3 3 [m0; m1; m2; m3; m4; m5; m6; m7; m8]) [a; b; c].
Proof. exact vec_mat_is_transpose. Qed.
Print Assumptions C39_vec_mat_is_transpose.

(* the launching kernel (k_contact_force_kernel = the machine-translated task function of
   support.py:contact_force_kernel): request slot tid writes nothing when contact_ids[tid] >= nacon,
   otherwise exactly out[tid] = contact_force_fn(.., worldid, contact_ids[tid], ..) with
   worldid = contact_worldid[contact_ids[tid]] - the world of the REQUESTED CONTACT *)
Theorem C39_contact_force_kernel_task :
  forall tid opt_cone frame fric cdim cadr cworld adh efc_force njmax nacon ids tow out orc,
    @k_contact_force_kernel R ScalarR tid opt_cone frame fric cdim cadr cworld adh efc_force njmax nacon ids tow out orc
    = if (ids tid >=? nacon 0%Z)%Z then nil
      else [mkW "out"%string [tid] KSet
              (VV (cf opt_cone frame fric cdim cadr adh efc_force njmax nacon (cworld (ids tid)) (ids tid) tow))].
Proof. exact contact_force_kernel_task. Qed.
Print Assumptions C39_contact_force_kernel_task.

(* hence the stored wrench depends on the slot only through the requested id: permuted, reversed or
   repeated request lists return the same wrench for the same contact *)
Theorem C39_contact_force_kernel_request_only :
  forall tid tid' opt_cone frame fric cdim cadr cworld adh efc_force njmax nacon ids ids' tow out out' orc orc',
    ids tid = ids' tid' ->
    map (fun w => w_val w) (@k_contact_force_kernel R ScalarR tid opt_cone frame fric cdim cadr cworld adh efc_force njmax nacon ids tow out orc)
    = map (fun w => w_val w) (@k_contact_force_kernel R ScalarR tid' opt_cone frame fric cdim cadr cworld adh efc_force njmax nacon ids' tow out' orc').
Proof. exact contact_force_kernel_request_only. Qed.
Print Assumptions C39_contact_force_kernel_request_only.

(* non-vacuity: a valid contact exists *)
Example C39_valid_exists : cf_valid (fun _ _ => 4%Z) (fun _ => 3%Z) 1 = true.
Proof. reflexivity. Qed.
