(* Props/C32.v -- C32 "Disable and enable flags act exactly as in MuJoCo".
   Statements only; every proof is `exact <lemma of Proof/Flags.v>`.

   Everything concrete below is computed from data REGENERATED from /repo on every run:
     Gen/Skel_flags.v     every syntactic use of a DisableBit / EnableBit (host code, kernels, @wp.func,
                          factories), the enum tables of types.py and of the installed MuJoCo binary, the
                          put_model rejection loop, per-kernel tested bits, truth tables of host tests;
     Gen/Skel_pipeline.v  the host program (`program`), flattened by Model/Pipeline.v.
   `sem/run` is the abstract footprint semantics of Model/Pipeline.v: an arbitrary value type V, an
   arbitrary interpretation I of launches / zero / fill / copy / external calls / loops that respects the
   extracted inputs/outputs lists, and a total valuation of the Python conditions.

   What is NOT proved here (tested by the differential oracle of bin/props/C32.py against MuJoCo C): the
   numerical effect of a flag inside its own stage, i.e. that the gated term is the right one. *)
From Coq Require Import String List Bool ZArith.
From VF Require Import Model.Pipeline Gen.Skel_pipeline Model.PipelineFacts Proof.Pipeline.
From VF Require Import Gen.Skel_flags Model.Flags Proof.Flags.
Import ListNotations.
Local Open Scope string_scope.
Local Open Scope list_scope.

(* ---- the flag tables ------------------------------------------------------------------------- *)
(* every bit of types.DisableBit / types.EnableBit is consumed somewhere (by a function of the simulation
   pipeline or by io.put_model) and has the value of the MuJoCo member of the same name; every member of
   the MuJoCo binary's mjtDisableBit / mjtEnableBit that MJWarp does not list is rejected by put_model's
   unsupported-bits loop (rejection itself is replayed on the real put_model by the check) *)
Theorem C32_flag_table_complete :
  (forall f, In f all_flags -> used f = true) /\
  (forall f, In f (map fst mujoco_bits) -> In f all_flags \/ rejected f = true) /\
  (forall f z, In (f, z) mjw_bits -> lookup f mujoco_bits = Some z) /\
  untested_flags = nil.
Proof. exact flag_table_complete. Qed.
Print Assumptions C32_flag_table_complete.

Theorem C32_flag_table_lists :
  put_model_only_flags = ["DisableBit.FILTERPARENT"] /\
  unlisted_mujoco_bits = ["DisableBit.MIDPHASE"; "DisableBit.AUTORESET"; "EnableBit.OVERRIDE";
                          "EnableBit.FWDINV"; "EnableBit.DIAGEXACT"].
Proof. exact flag_table_lists. Qed.
Print Assumptions C32_flag_table_lists.

(* no test in /repo is constant in a bit it mentions, except the committed one
   (derivative.deriv_smooth_vel: `~(flags & (ACTUATION | DAMPER))` is never 0, its else branch is dead) *)
Theorem C32_constant_tests_known_only :
  forallb (fun q => pair_mem q constant_tests_known) constant_tests = true.
Proof. exact constant_tests_known_only. Qed.
Print Assumptions C32_constant_tests_known_only.

(* "sleeping is enabled" is ONE predicate: every direct test of EnableBit.SLEEP outside put_model's rejections
   also tests the ISLAND bit in the same expression, except in the functions of the committed list
   sleep_only_harmless (the two broadphase launchers and reset_data; Model/Flags.v records why testing SLEEP
   alone is harmless there); the functions that choose the sleep path, allocate for it or consume its arrays
   (solver.solve, make_data, put_data, the forward.py functions) all test SLEEP-and-not-ISLAND and never SLEEP alone; and the
   set of SLEEP-only sites of the regenerated source is exactly that committed list.
   History: before /repo 783455b solver.solve tested SLEEP alone and mjw.step crashed with SLEEP enabled and
   ISLAND disabled (C32:solver.solve:sleep-enabled-island-disabled-crash; regression case in bin/props/C32.py). *)
Theorem C32_sleep_guard_consistent :
  (forall q, In q sleep_guard_sites -> In "DisableBit.ISLAND" (snd q) \/ In (fst q) sleep_only_harmless) /\
  (forall f, In f sleep_must_test_island -> In f sleep_sites_with_island /\ ~ In f sleep_sites_without_island) /\
  (forall f, In f sleep_sites_without_island <-> In f sleep_only_harmless).
Proof. exact sleep_guard_consistent. Qed.
Print Assumptions C32_sleep_guard_consistent.

(* which bits each host guard mentions is a committed table (dropping a bit from any guard breaks it) *)
Theorem C32_guard_bits_committed :
  (forall q, In q guard_bits -> gb_mem q guard_bits_expected = true) /\
  (forall q, In q guard_bits_expected -> gb_mem q guard_bits = true).
Proof. exact guard_bits_committed. Qed.
Print Assumptions C32_guard_bits_committed.

(* forward.implicit's implicitfast guard mentions exactly ACTUATION, DAMPER, SPRING, is false only when all
   three are disabled, and mentions every bit the host tests of derivative.deriv_smooth_vel mention;
   forward.euler's guard mentions exactly DAMPER, EULERDAMP and is true only when neither is disabled *)
Theorem C32_integrator_guards : implicit_guard_ok = true /\ euler_guard_ok = true.
Proof. exact integrator_guards_ok. Qed.
Print Assumptions C32_integrator_guards.

(* ---- general facts about the analysis ----------------------------------------------------------- *)
(* taint is sound: two runs under valuations that agree on every condition outside cs, from stores that
   agree outside T, agree afterwards outside [taint cs l T] *)
Theorem C32_taint_sound :
  forall (V : Type) (I : event -> store V -> store V) (v1 v2 cs : string -> bool),
    respects V I -> (forall c, cs c = false -> v1 c = v2 c) ->
    forall l T s s', agree_out V T s s' ->
    forall f, ~ In f (taint cs l T) -> run V I v1 l s f = run V I v2 l s' f.
Proof. exact taint_sound. Qed.
Print Assumptions C32_taint_sound.

(* replacing the EIf nodes a partial valuation decides by the chosen branch does not change the meaning
   under any total valuation consistent with it *)
Theorem C32_resolve_sound :
  forall (V : Type) (I : event -> store V -> store V) (v : string -> bool) (pv : pval),
    consistent v pv -> forall l s, run V I v (resolve pv l) s = run V I v l s.
Proof. exact resolve_sound. Qed.
Print Assumptions C32_resolve_sound.

(* ---- the regenerated step() ----------------------------------------------------------------------- *)
(* the configuration is closed and the extractor's condition table covers every condition of the flattened
   step() that spells a flag bit or a local name derived from one *)
Theorem C32_flags_wellformed : flags_wellformed = true.
Proof. exact flags_wellformed_true. Qed.
Print Assumptions C32_flags_wellformed.

(* the S-fact in its literal form, for each of the 15 flags the step reads (step_flags): flattening step()
   with the bit's conditions decided for "bit set" / "bit clear" gives exactly the flattening with those
   conditions undecided in which each decided EIf node is replaced by the chosen branch: the two event
   sequences are identical outside the EIf nodes guarded by the bit, and only conditions of the bit's own
   table are decided differently *)
Theorem C32_flag_events_differ_only_in_guarded_regions : forall flag, In flag step_flags ->
  ev_on flag = resolve (pv_bit flag true) L_of /\
  ev_off flag = resolve (pv_bit flag false) L_of /\
  (forall c b, In (c, b) (decisions_outside_loops flag true ++ decisions_outside_loops flag false) ->
     cs_of flag c = true).
Proof. exact flag_events_differ_only_in_guarded_regions. Qed.
Print Assumptions C32_flag_events_differ_only_in_guarded_regions.

(* non-interference, "_partial": the statement is about the abstract footprint semantics (kernels
   uninterpreted, field granularity, flag words refined to the bits each kernel tests), sleep disabled, no
   callbacks, no history buffers, RK4 and the flags of flags_outside_theorem excluded; it does not say
   that the gated contribution itself equals MuJoCo's. *)
Theorem C32_flag_noninterference_partial : forall flag, In flag step_flags ->
  forall (V : Type) (I : event -> store V -> store V) (v1 v2 : string -> bool),
    respects V I ->
    consistent v1 (pv_bit flag true) -> consistent v2 (pv_bit flag false) ->
    (forall c, cs_of flag c = false -> v1 c = v2 c) ->
    forall s s', agree_out V (T0 flag L_of) s s' ->
    forall f, ~ In f (tainted flag) ->
      run V I v1 (ev_on flag) s f = run V I v2 (ev_off flag) s' f.
Proof. exact flag_noninterference. Qed.
Print Assumptions C32_flag_noninterference_partial.

(* each flag leaves the committed list of watched fields outside its own stage and downstream alone *)
Theorem C32_flag_gates_only_own_stage_partial : forall flag, In flag step_flags ->
  forall (V : Type) (I : event -> store V -> store V) (v1 v2 : string -> bool),
    respects V I ->
    consistent v1 (pv_bit flag true) -> consistent v2 (pv_bit flag false) ->
    (forall c, cs_of flag c = false -> v1 c = v2 c) ->
    forall s s', agree_out V (T0 flag L_of) s s' ->
    forall f, In f (unaffected flag) ->
      run V I v1 (ev_on flag) s f = run V I v2 (ev_off flag) s' f.
Proof. exact flag_gates_only_own_stage. Qed.
Print Assumptions C32_flag_gates_only_own_stage_partial.

(* the hypotheses on the valuations are satisfiable for every flag of the list *)
Theorem C32_flag_valuations_exist : forall flag, In flag step_flags ->
  exists v1 v2, consistent v1 (pv_bit flag true) /\ consistent v2 (pv_bit flag false) /\
                (forall c, cs_of flag c = false -> v1 c = v2 c).
Proof. exact flag_valuations_exist. Qed.
Print Assumptions C32_flag_valuations_exist.
