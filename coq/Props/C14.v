(* Props/C14.v -- C14 "reset_data_keyframe semantics".
   Statements only; every proof is `exact <lemma of Proof/Reset.v>`.  reset_data_keyframe is the
   hand-written model (Model/Reset.v) of io.py:reset_data_keyframe: wrapper checks, kernel
   valid_key_mask, reset_data with that mask, kernel reset_keyframe_data.  key_world m k is the
   specification: a fresh world carrying key k's time, qpos, qvel, act, ctrl, mocap_pos, mocap_quat.
   The open C13 finding (contacts under a partial mask) is inherited through reset_data and reported under
   C13 only. *)
From Coq Require Import ZArith List Bool.
From VF Require Import Base.Loop Model.Reset Proof.Reset.
Import ListNotations.
Local Open Scope Z_scope.

(* valid index, THE FULL STATEMENT: the world is exactly a fresh world carrying key k's time, qpos, qvel,
   act (all na entries), ctrl, mocap_pos, mocap_quat - every modelled field, history included *)
Theorem C14_keyframe_valid : forall m ks d d' w,
  hyps m d -> wf_keys m -> reset_data_keyframe m (KArr ks) d = Some d' -> 0 <= w < nworld d ->
  valid_key m (nthZ ks w 0) = true ->
  world_of d' w = Some (key_world m (nthZ ks w 0)).
Proof. exact keyframe_valid. Qed.
Print Assumptions C14_keyframe_valid.

(* invalid index (< 0 or >= nkey): the world is not written (SLEEP disabled; with SLEEP enabled
   sleep.update_sleep is re-run on every world) *)
Theorem C14_keyframe_invalid_untouched : forall m ks d d' w,
  reset_data_keyframe m (KArr ks) d = Some d' -> 0 <= w < nworld d ->
  valid_key m (nthZ ks w 0) = false ->
  world_of d' w = option_map (post_sleep m) (world_of d w) /\
  (sleep_enabled m = false -> world_of d' w = world_of d w).
Proof. exact keyframe_invalid_untouched. Qed.
Print Assumptions C14_keyframe_invalid_untouched.

(* the contact buffer after a keyframe reset is the one after reset_data with the validity mask
   (so C13's contact theorems and findings apply verbatim) *)
Theorem C14_keyframe_contacts : forall m ks d d',
  reset_data_keyframe m (KArr ks) d = Some d' ->
  contacts d' = contacts (reset_kernels m (Some (map (valid_key m) ks)) d) /\
  nacon d' = nacon (reset_kernels m (Some (map (valid_key m) ks)) d).
Proof. exact keyframe_contacts. Qed.
Print Assumptions C14_keyframe_contacts.

Theorem C14_scalar_key_rejected : forall m k d, k < 0 \/ nkey m <= k -> reset_data_keyframe m (KInt k) d = None.
Proof. exact scalar_key_rejected. Qed.
Print Assumptions C14_scalar_key_rejected.

Theorem C14_scalar_key_broadcast : forall m k d, 0 <= k < nkey m ->
  reset_data_keyframe m (KInt k) d = reset_data_keyframe m (KArr (repeat k (length (worlds d)))) d.
Proof. exact scalar_key_broadcast. Qed.
Print Assumptions C14_scalar_key_broadcast.

Theorem C14_key_shape_rejected : forall m ks d, lenZ ks <> nworld d -> reset_data_keyframe m (KArr ks) d = None.
Proof. exact key_shape_rejected. Qed.
Print Assumptions C14_key_shape_rejected.

(* hypotheses satisfiable: 2 keyframes, key array [5; 1] (world 0 invalid, world 1 valid) *)
Theorem C14_hyps_satisfiable :
  hyps wit_key_m wit_key_d /\ wf_keys wit_key_m /\
  reset_data_keyframe wit_key_m (KArr [5; 1]) wit_key_d <> None /\ 0 <= 1 < nworld wit_key_d /\
  valid_key wit_key_m (nthZ [5; 1] 1 0) = true /\ valid_key wit_key_m (nthZ [5; 1] 0 0) = false.
Proof. exact keyframe_valid_hyps_sat. Qed.
Print Assumptions C14_hyps_satisfiable.
