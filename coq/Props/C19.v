(* Props/C19.v -- C19 "Contact pair filtering follows MuJoCo's rules".
   Statements only; every proof is `exact <lemma of Proof/PairTable.v>`.
   `upper_tri_index` is the definition REGENERATED from /repo/mujoco_warp/_src/math.py
   (Gen/math.v, the function the broadphase kernels call); `pair_table`, `triu`,
   `filtered`, `host_upper_tri_index` are Model/PairTable.v, the Gallina copy of the
   host code of io.py:put_model, tied to the real put_model by the correspondence
   check of bin/props/C19.py on every run. *)
From Coq Require Import ZArith List Bool.
From VF Require Import Gen.math Model.PairTable Proof.PairTable.
Import ListNotations.
Local Open Scope Z_scope.

(* the device lookup hits the host-built row: upper_tri_index is the rank of (i,j) in
   np.triu_indices(n, k=1) order, equals the host function (truncating vs floor division
   agree because i*(2n-i-3) is even), and is a bijection onto [0, n(n-1)/2) *)
Theorem C19_upper_tri_index_bij :
  forall n, 0 <= n ->
  (forall i j, 0 <= i -> i < j < n ->
     0 <= upper_tri_index n i j < Z.of_nat (length (triu n))
     /\ nth_error (triu n) (Z.to_nat (upper_tri_index n i j)) = Some (i, j)
     /\ upper_tri_index n i j = host_upper_tri_index n i j)
  /\ (forall k, 0 <= k < Z.of_nat (length (triu n)) ->
        exists i j, 0 <= i /\ i < j < n /\ upper_tri_index n i j = k)
  /\ (forall i j i' j', 0 <= i -> i < j < n -> 0 <= i' -> i' < j' < n ->
        upper_tri_index n i j = upper_tri_index n i' j' -> i = i' /\ j = j')
  /\ 2 * Z.of_nat (length (triu n)) = n * (n - 1).
Proof. exact upper_tri_index_bij. Qed.
Print Assumptions C19_upper_tri_index_bij.

Theorem C19_upper_tri_index_exact :
  forall n i, Z.quot (i * (2 * n - i - 3)) 2 = (i * (2 * n - i - 3)) / 2.
Proof. exact uti_quot_div. Qed.
Print Assumptions C19_upper_tri_index_exact.

(* the property's sentence, over the model's inputs: what a kernel reads for geoms i < j is
   >= 0 iff (i,j) is an explicit pair (then it is that pair's id: pair parameters are used);
   -1 iff not explicit and contype/conaffinity pass, weld bodies differ, not parent-child
   (unless filterparent is disabled), not excluded; -2 otherwise *)
Theorem C19_pair_rule :
  forall m i j, wf_pairs m -> 0 <= i -> i < j < ngeom m ->
    let v := lookup m i j in
    (v >= 0 <-> explicit_pair m i j)
    /\ (v >= 0 -> (nth_error (pairs m) (Z.to_nat v) = Some (i, j) \/ nth_error (pairs m) (Z.to_nat v) = Some (j, i))
                  /\ v < Z.of_nat (length (pairs m))
                  /\ forall k, v < k -> nth_error (pairs m) (Z.to_nat k) <> Some (i, j)
                                     /\ nth_error (pairs m) (Z.to_nat k) <> Some (j, i))
    /\ (v = -1 <-> ~ explicit_pair m i j /\ dynamic_rule m i j)
    /\ (v = -2 <-> ~ explicit_pair m i j /\ ~ dynamic_rule m i j)
    /\ (v >= 0 \/ v = -1 \/ v = -2).
Proof. exact pair_rule. Qed.
Print Assumptions C19_pair_rule.

(* nxn_geom_pair and nxn_pairid are aligned row by row (the NXN kernel indexes both with
   the same element id) *)
Theorem C19_tables_aligned :
  forall m k, wf_pairs m -> 0 <= ngeom m -> (k < length (triu (ngeom m)))%nat ->
    exists i j, nth_error (triu (ngeom m)) k = Some (i, j) /\ 0 <= i /\ i < j < ngeom m
                /\ nth k (pair_table m) 0 = lookup m i j.
Proof. exact tables_aligned. Qed.
Print Assumptions C19_tables_aligned.

(* the *_filtered arrays walked by the NXN kernel hold exactly the pairs with id > -2,
   i.e. the same pairs the SAP kernel keeps (`pairid[0] < -1` is skipped) *)
Theorem C19_filtered_spec :
  forall m i j v, wf_pairs m -> 0 <= ngeom m ->
    (In ((i, j), v) (filtered m) <-> 0 <= i /\ i < j < ngeom m /\ v = lookup m i j /\ v > -2).
Proof. exact filtered_spec. Qed.
Print Assumptions C19_filtered_spec.

(* with MuJoCo's non-decreasing geom_bodyid the signature computed for i < j is the canonical
   one, so "excluded" means: the two bodies are listed in an <exclude> element *)
Theorem C19_exclude_signature_canonical :
  forall m (exb : list (Z * Z)) i j,
    exclude_signature m = map (fun p => Z.shiftl (fst p) 16 + snd p) exb ->
    (forall a b, In (a, b) exb -> 0 <= a <= b /\ b < 65536) ->
    bodyid_sorted m -> 0 <= i -> i < j < ngeom m -> 0 <= bodyid m i -> bodyid m j < 65536 ->
    bodyid m i <= bodyid m j /\ (excluded m i j <-> In (bodyid m i, bodyid m j) exb).
Proof. exact exclude_signature_canonical. Qed.
Print Assumptions C19_exclude_signature_canonical.

(* outside wf_pairs: a <pair> naming one geom twice (accepted by MuJoCo) makes the faithful
   model give a pair id to two geoms of the same body that are not an explicit pair *)
Theorem C19_pair_rule_selfpair_refuted :
  exists m i j, 0 <= i /\ i < j < ngeom m /\ lookup m i j >= 0 /\ ~ explicit_pair m i j /\ same_weld m i j.
Proof. exact pair_rule_selfpair_refuted. Qed.
Print Assumptions C19_pair_rule_selfpair_refuted.

(* non-vacuity: a concrete model satisfies the hypotheses and shows all three outcomes *)
Example C19_hyps_satisfiable :
  wf_pairs ex_model /\ bodyid_sorted ex_model
  /\ lookup ex_model 1 4 = 0 /\ lookup ex_model 0 1 = -1 /\ lookup ex_model 1 2 = -2.
Proof. exact (conj ex_wf (conj ex_sorted ex_outcomes)). Qed.
