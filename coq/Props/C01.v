(* Props/C01.v -- C01 "Kinematics agree with MuJoCo C".
   Statements only; every proof is `exact <lemma of Proof/Kin.v or Proof/Rot.v>`.
   Model/Kin.v: [branches], [levels] = Gallina copies of put_model's host code;
   [kin_step]/[kin_task] = loop body / one task of smooth.py _kinematics_branch (reads the
   STORED pose of the parent); [fk_spec] = mj_kinematics as a fold over bodies in index order
   (xmat*pos composition, world parent copied, mju_normalize4 = [qnormalize_mj]); [com_pos] = the level-by-level
   launches of _subtree_com_acc; [com_spec]/[subtree_sum] = the recursive subtree sum.
   mul_quat, rot_vec_quat, quat_to_mat, normalize_quat are REGENERATED from math.py (Gen/math.v). *)
From Coq Require Import ZArith Reals List Permutation.
From VF Require Import Base.Scalar Base.ScalarR Base.Vec Gen.math Proof.Rot Model.Kin Proof.Kin.
Import ListNotations.

(* put_model's branches: every non-world body lies on some branch; each branch never contains the
   world, stays inside the tree and lists every body after its parent (root-to-leaf order) *)
Theorem C01_branches_cover :
  forall ps : list nat, wf_par ps ->
    (forall b, 0 < b < length ps -> exists br, In br (branches ps) /\ In b br) /\
    (forall br, In br (branches ps) -> closed ps [0] br).
Proof. exact branches_cover_proof. Qed.
Print Assumptions C01_branches_cover.

(* _kinematics_branch: for every well-formed tree (any joint mix), EVERY qpos and mocap pose (unnormalised
   and zero quaternions included), EVERY order of the branch tasks and ANY previously
   stored poses of the non-world bodies, the launch leaves exactly mj_kinematics' xpos, xquat,
   xanchor, xaxis in every body (so duplicate writers write equal values) *)
Theorem C01_fk_branch_eq_spec :
  forall (st : state R) (t : list (body R)), wf_tree st t ->
  forall (sched : list (list nat)) (init : list (bout R)),
    length init = length t -> nth 0 init dout = world_out ->
    Permutation (branches (parents t)) sched ->
    launch (kin_task t st) sched init = fk_spec t st.
Proof. exact fk_branch_eq_spec_proof. Qed.
Print Assumptions C01_fk_branch_eq_spec.

(* the same when the tasks run concurrently: every interleaving of their body steps *)
Theorem C01_fk_interleaved_eq_spec :
  forall (st : state R) (t : list (body R)), wf_tree st t ->
  forall (steps : list nat) (init : list (bout R)),
    length init = length t -> nth 0 init dout = world_out ->
    interleave (branches (parents t)) steps ->
    fold_left (kin_step t st) steps init = fk_spec t st.
Proof. exact fk_interleaved_eq_spec_proof. Qed.
Print Assumptions C01_fk_interleaved_eq_spec.

(* the key step: recomputing a body from the already-correct stored pose of its parent gives the
   specification's pose of that body (hence re-writing it is idempotent) *)
Theorem C01_body_step_eq_spec :
  forall (st : state R) (b : body R) (i : nat) (pp : bout R),
    wf_body st b i -> unitq (oxquat pp) -> (bparent b = 0 -> pp = world_out) ->
    body_step st b pp = spec_body st b pp /\ unitq (oxquat (spec_body st b pp)).
Proof. exact body_step_eq_spec. Qed.
Print Assumptions C01_body_step_eq_spec.

(* generic leaf-to-root accumulation (shared with C02): values of a commutative semigroup pushed from
   every body into its parent, each body once, children before their parent, in ANY such order *)
Theorem C01_tree_accumulate :
  forall (V : Type) (add : V -> V -> V) (dflt : V) (P : V -> Prop),
    (forall a b, P a -> P b -> P (add a b)) ->
    (forall a b, P a -> P b -> add a b = add b a) ->
    (forall a b c, P a -> P b -> P c -> add (add a b) c = add a (add b c)) ->
  forall ps : list nat, wf_par ps ->
  forall val : list V, length val = length ps -> Forall P val ->
  forall pushes : list nat,
    NoDup pushes -> (forall x, In x pushes -> x < length ps) ->
    (forall c, 0 < c < length ps -> In c pushes) -> ordered ps [] pushes ->
    fold_left (acc_push add dflt ps) pushes val
    = map (subtree_sum add dflt (length ps) ps val) (seq 0 (length ps)).
Proof. intro V. exact (@tree_accumulate V). Qed.
Print Assumptions C01_tree_accumulate.

(* com_pos: one launch per body_tree level, deepest first, any order inside a level, equals the
   recursive mass-weighted subtree sum divided by the subtree mass *)
Theorem C01_subtree_com_levels :
  forall (t : list (body R)) (outs : list (bout R)) (sched : list (list nat)),
    wf_par (parents t) -> length outs = length t ->
    Forall len3 (com_init t outs) ->
    Forall2 (@Permutation nat) (levels (parents t)) sched ->
    com_pos t sched outs = com_spec t outs.
Proof. exact subtree_com_levels_proof. Qed.
Print Assumptions C01_subtree_com_levels.

(* geoms, sites, inertial frames: xpos + rot_vec_quat(pos, xquat) and quat_to_mat(xquat * quat) are
   MuJoCo's xpos + xmat * pos and xmat * mat(quat) (holds for every quaternion) *)
Theorem C01_local_to_global_spec :
  forall (o : bout R) (x y z a b c d e f g h : R),
    oxquat o = [a; b; c; d] ->
    local_to_global [x; y; z] [e; f; g; h] o =
    (vadd (oxpos o) (mat_vec 3 3 (xmat_of o) [x; y; z]),
     mat_mat 3 3 3 (xmat_of o) (quat_to_mat [e; f; g; h])).
Proof. exact local_to_global_spec. Qed.
Print Assumptions C01_local_to_global_spec.

Theorem C01_rot_compose :
  forall a b c d e f g h x y z : R,
    rot_vec_quat [x; y; z] (mul_quat (q4 a b c d) (q4 e f g h))
    = rot_vec_quat (rot_vec_quat [x; y; z] (q4 e f g h)) (q4 a b c d).
Proof. exact rot_compose. Qed.
Print Assumptions C01_rot_compose.

Theorem C01_rot_mat_agree :
  forall a b c d x y z : R,
    mat_vec 3 3 (quat_to_mat (q4 a b c d)) [x; y; z] = rot_vec_quat [x; y; z] (q4 a b c d).
Proof. exact rot_mat_agree. Qed.
Print Assumptions C01_rot_mat_agree.

(* the repaired kernel's normalisation is mju_normalize4 (as written in the specification) for EVERY
   quaternion, zero included: this is why no norm hypothesis appears above *)
Theorem C01_normalize_quat_is_mju_normalize4 :
  forall q : list R, normalize_quat q = qnormalize_mj q.
Proof. exact nq_agree. Qed.
Print Assumptions C01_normalize_quat_is_mju_normalize4.

(* regression of the repaired finding C01:zero-quaternion-normalize: one free body whose qpos quaternion
   is zero; model and specification agree, the body frame is the identity and a geom at x = 1/2 in the
   body frame ends at (1/2,0,1) (wp.normalize used to give the half turn (0,0,0,1) and (-1/2,0,1)) *)
Theorem C01_fk_zero_quat_agrees :
  let m := nth 1 (fk_branch zq_tree zq_state zq_init) dout in
  let s := nth 1 (fk_spec zq_tree zq_state) dout in
  m = s /\ oxquat m = [1; 0; 0; 0]%R /\
  fst (local_to_global [1/2; 0; 0]%R [1; 0; 0; 0]%R m) = [1/2; 0; 1]%R.
Proof. exact fk_zero_quat_agrees_proof. Qed.
Print Assumptions C01_fk_zero_quat_agrees.

(* non-vacuity: a tree with a hinge+slide body, a ball-jointed child whose quaternion is ZERO and a mocap
   body with an unnormalised mocap quaternion is well-formed *)
Example C01_wf_tree_exists : wf_tree ex_state ex_tree /\ wf_par (parents ex_tree).
Proof. exact (conj wf_tree_example wf_par_example). Qed.
