(* Props/C28.v -- C28 "Constraint islands are the connected components".
   Statements only; every proof is `exact <lemma of Proof/Island.v>`.  All functions named here
   are the hand-written executable transcription of /repo/mujoco_warp/_src/island.py in
   Model/Island.v (tied to the real kernels by the correspondence cases of bin/props/C28.py),
   or the specification vocabulary at the end of that file (inr, edge, conn, touched, cntf,
   dof_isl, row_isl, row_cat).  A launch is a fold over an arbitrary task order. *)
From Coq Require Import ZArith List Bool Permutation.
From VF Require Import Model.Island Proof.Island.
Import ListNotations.
Local Open Scope Z_scope.

(* ---- (a) the tree-tree adjacency built by _tree_edges ---- *)

(* tree_tree is symmetric, for every task order and every input *)
Theorem C28_adj_symmetric :
  forall (m : EModel) (d : EData) (n : Z) (sched : list Z) (a b : Z),
    inr n a -> inr n b ->
    get2 (tree_edges m d n sched) a b = get2 (tree_edges m d n sched) b a.
Proof. exact adj_symmetric. Qed.
Print Assumptions C28_adj_symmetric.

(* its edges are exactly the cells marked by some launched row (atomic_max marks are idempotent) *)
Theorem C28_adj_is_union_of_row_marks :
  forall (m : EModel) (d : EData) (n : Z) (sched : list Z) (a b : Z),
    inr n a -> inr n b ->
    (edge (tree_edges m d n sched) a b <-> exists e, In e sched /\ In (a, b) (row_marks m d e)).
Proof. exact tree_edges_edge_iff. Qed.
Print Assumptions C28_adj_is_union_of_row_marks.

(* the whole matrix does not depend on the order in which the tasks of the launch run *)
Theorem C28_adj_order_independent :
  forall (m : EModel) (d : EData) (n : Z) (s1 s2 : list Z),
    Permutation s1 s2 -> tree_edges m d n s1 = tree_edges m d n s2.
Proof. exact tree_edges_order_independent. Qed.
Print Assumptions C28_adj_order_independent.

(* ---- (b) _flood_fill ---- *)

(* For every symmetric adjacency on n >= 1 trees and every content of the wp.empty stack:
   labels lie in [-1, nisland); a tree has label -1 iff no edge touches it; two trees have the
   same non-negative label iff they are joined by a path of edges; island c has a smallest
   tree r_c which also precedes every tree of every later island (islands are numbered
   0..nisland-1 in increasing order of their smallest tree); and the ghost flag stays false:
   no stack write ever falls outside the ntree*ntree scratch array and the fuel
   ntree*ntree + ntree is enough for every `while nstack > 0` loop. *)
Theorem C28_flood_fill_components :
  forall (n : Z) (adj : list (list Z)),
    0 < n -> sym_adj n adj ->
    forall stk0 : list Z, length stk0 = Z.to_nat (n * n) ->
      length (ff_labels n adj stk0) = Z.to_nat n /\
      0 <= ff_nisland n adj stk0 /\
      (forall a, inr n a -> -1 <= getZ (ff_labels n adj stk0) a < ff_nisland n adj stk0) /\
      (forall a, inr n a -> (getZ (ff_labels n adj stk0) a = -1 <-> ~ touched n adj a)) /\
      (forall a b, inr n a -> inr n b ->
         (0 <= getZ (ff_labels n adj stk0) a /\
          getZ (ff_labels n adj stk0) a = getZ (ff_labels n adj stk0) b
          <-> touched n adj a /\ conn n adj a b)) /\
      (forall c, 0 <= c < ff_nisland n adj stk0 ->
         exists r, inr n r /\ getZ (ff_labels n adj stk0) r = c /\
                   forall v, inr n v -> c <= getZ (ff_labels n adj stk0) v -> r <= v) /\
      ff_bad n adj stk0 = false.
Proof. exact flood_fill_components_sec. Qed.
Print Assumptions C28_flood_fill_components.

(* the DFS stack never holds more than 1 + (number of directed off-diagonal edges of tree_tree)
   entries: with any scratch array at least that long no write leaves it.  ntree*ntree is such a
   length (nnz_off <= ntree*(ntree-1)); ntree is not (ex_K5_depth: K5 reaches depth 7). *)
Theorem C28_flood_fill_stack_depth_le_edges :
  forall (n : Z) (adj : list (list Z)) (stk0 : list Z),
    0 < n -> sym_adj n adj ->
    1 + nnz_off n adj <= Z.of_nat (length stk0) -> ff_bad n adj stk0 = false.
Proof. exact flood_fill_stack_depth_le_edges. Qed.
Print Assumptions C28_flood_fill_stack_depth_le_edges.

Theorem C28_K5_overruns_a_stack_of_ntree :
  nnz_off 5 ex_K5 = 20 /\ ff_bad 5 ex_K5 (zfill 5 0) = true /\
  ff_bad 5 ex_K5 (zfill 6 0) = true /\ ff_bad 5 ex_K5 (zfill 7 0) = false.
Proof. exact ex_K5_depth. Qed.
Print Assumptions C28_K5_overruns_a_stack_of_ntree.

(* island() = _tree_edges then _flood_fill: all trees marked by one constraint row end in the
   same island, whatever the order of the edge tasks *)
Theorem C28_row_trees_same_island :
  forall (m : EModel) (d : EData) (n : Z) (sched stk0 : list Z) (e a b : Z),
    0 < n -> length stk0 = Z.to_nat (n * n) ->
    In e sched -> In (a, b) (row_marks m d e) -> inr n a -> inr n b ->
    0 <= getZ (fst (island m d n sched stk0)) a /\
    getZ (fst (island m d n sched stk0)) a = getZ (fst (island m d n sched stk0)) b.
Proof. exact row_trees_same_island. Qed.
Print Assumptions C28_row_trees_same_island.

(* the tree _compute_efc_tree picks for an active row has an island (efc.island >= 0) *)
Theorem C28_efc_tree_in_island :
  forall (m : EModel) (d : EData) (n : Z) (sched stk0 : list Z) (e : Z),
    0 < n -> length stk0 = Z.to_nat (n * n) ->
    (forall a b, In (a, b) (row_marks m d e) -> inr n a /\ inr n b) ->
    In e sched -> efc_active d e = true -> 0 <= efc_tree_of m d e ->
    0 <= getZ (fst (island m d n sched stk0)) (efc_tree_of m d e).
Proof. exact efc_tree_in_island. Qed.
Print Assumptions C28_efc_tree_in_island.

(* ---- (c) compute_island_mapping, for EVERY order of the tasks of every launch ---- *)

(* dof side: s_cd / s_md are the task orders of _island_count_dofs / _island_map_dofs.
   dof_island is the island of the dof's tree; island_nv / island_idofadr / nidof are the
   per-island counts and their prefix sums; map_dof2idof and map_idof2dof are mutually inverse
   permutations of [0,nv); island dofs land in their island's contiguous range (tagged in
   dof_islandid), unconstrained dofs in [nidof,nv); island_dofadr is the island's smallest dof. *)
Theorem C28_island_dof_maps_sched :
  forall (nv ntree k : Z) (dof_tree tree_island : list Z),
    0 <= nv -> 0 <= k <= ntree ->
    length dof_tree = Z.to_nat nv ->
    (forall d, 0 <= d < nv -> 0 <= getZ dof_tree d < ntree) ->
    length tree_island = Z.to_nat ntree ->
    (forall t, 0 <= t < ntree -> -1 <= getZ tree_island t < k) ->
    forall (njmax nefc : Z) (efc_tree etype s_cd s_cc s_md s_mc : list Z),
      Permutation s_cd (zrange nv) -> Permutation s_md (zrange nv) ->
      let r := island_mapping nv ntree njmax nefc k dof_tree tree_island efc_tree etype s_cd s_cc s_md s_mc in
      let isl := dof_isl dof_tree tree_island in
      let dofs := zrange nv in
      (forall d, 0 <= d < nv -> getZ (o_dof_island r) d = isl d) /\
      (forall c, 0 <= c < k ->
         getZ (o_island_nv r) c = cntf (fun d => isl d =? c) dofs /\
         getZ (o_island_idofadr r) c = cntf (fun d => (0 <=? isl d) && (isl d <? c)) dofs) /\
      o_nidof r = cntf (fun d => 0 <=? isl d) dofs /\
      (forall d, 0 <= d < nv ->
         0 <= getZ (o_map_dof2idof r) d < nv /\
         getZ (o_map_idof2dof r) (getZ (o_map_dof2idof r) d) = d) /\
      (forall i, 0 <= i < nv ->
         0 <= getZ (o_map_idof2dof r) i < nv /\
         getZ (o_map_dof2idof r) (getZ (o_map_idof2dof r) i) = i) /\
      (forall d, 0 <= d < nv -> 0 <= isl d ->
         getZ (o_island_idofadr r) (isl d) <= getZ (o_map_dof2idof r) d
           < getZ (o_island_idofadr r) (isl d) + getZ (o_island_nv r) (isl d) /\
         getZ (o_dof_islandid r) (getZ (o_map_dof2idof r) d) = isl d) /\
      (forall d, 0 <= d < nv -> isl d < 0 -> o_nidof r <= getZ (o_map_dof2idof r) d < nv) /\
      (forall i, o_nidof r <= i < nv -> getZ (o_dof_islandid r) i = -1) /\
      (forall c, 0 <= c < k -> 0 < getZ (o_island_nv r) c ->
         0 <= getZ (o_island_dofadr r) c < nv /\ isl (getZ (o_island_dofadr r) c) = c /\
         forall d, 0 <= d < nv -> isl d = c -> getZ (o_island_dofadr r) c <= d).
Proof. exact island_dof_maps_sec. Qed.
Print Assumptions C28_island_dof_maps_sched.

(* constraint side: s_cc / s_mc are the task orders of _island_count_constraints /
   _island_map_constraints.  efc.island is the island of the row's tree (-1 for inactive rows
   and rows without a tree); island_nefc/ne/nf/iefcadr are the counts and prefix sums;
   every row of an island gets a slot inside the island's range, equalities first, then
   friction rows, then the rest; map_efc2iefc and map_iefc2efc are mutually inverse between the
   rows that have an island and [0,total); efc_islandid tags the slots and is -1 beyond. *)
Theorem C28_island_efc_maps_sched :
  forall (njmax nefc ntree k : Z) (efc_tree tree_island etype : list Z),
    0 <= njmax -> 0 <= k <= ntree ->
    length efc_tree = Z.to_nat njmax ->
    (forall e, 0 <= e < Z.min njmax nefc -> getZ efc_tree e < ntree) ->
    length tree_island = Z.to_nat ntree ->
    (forall t, 0 <= t < ntree -> -1 <= getZ tree_island t < k) ->
    forall (nv : Z) (dof_tree s_cd s_cc s_md s_mc : list Z),
      Permutation s_cc (zrange njmax) -> Permutation s_mc (zrange njmax) ->
      let r := island_mapping nv ntree njmax nefc k dof_tree tree_island efc_tree etype s_cd s_cc s_md s_mc in
      let eisl := row_isl njmax nefc efc_tree tree_island in
      let ecat := row_cat etype in
      let rows := zrange njmax in
      let total := cntf (fun e => 0 <=? eisl e) rows in
      (forall e, 0 <= e < njmax -> getZ (o_efc_island r) e = eisl e) /\
      (forall c, 0 <= c < k ->
         getZ (o_island_nefc r) c = cntf (fun e => eisl e =? c) rows /\
         getZ (o_island_ne r) c = cntf (fun e => (eisl e =? c) && (ecat e =? 0)) rows /\
         getZ (o_island_nf r) c = cntf (fun e => (eisl e =? c) && (ecat e =? 1)) rows /\
         getZ (o_island_iefcadr r) c = cntf (fun e => (0 <=? eisl e) && (eisl e <? c)) rows) /\
      (forall e, 0 <= e < njmax -> 0 <= eisl e ->
         getZ (o_island_iefcadr r) (eisl e) +
           (if ecat e =? 0 then 0 else if ecat e =? 1 then getZ (o_island_ne r) (eisl e)
            else getZ (o_island_ne r) (eisl e) + getZ (o_island_nf r) (eisl e))
         <= getZ (o_map_efc2iefc r) e <
         getZ (o_island_iefcadr r) (eisl e) +
           (if ecat e =? 0 then getZ (o_island_ne r) (eisl e)
            else if ecat e =? 1 then getZ (o_island_ne r) (eisl e) + getZ (o_island_nf r) (eisl e)
            else getZ (o_island_nefc r) (eisl e)) /\
         getZ (o_map_iefc2efc r) (getZ (o_map_efc2iefc r) e) = e /\
         getZ (o_efc_islandid r) (getZ (o_map_efc2iefc r) e) = eisl e) /\
      (forall i, 0 <= i < total ->
         0 <= getZ (o_map_iefc2efc r) i < njmax /\ 0 <= eisl (getZ (o_map_iefc2efc r) i) /\
         getZ (o_map_efc2iefc r) (getZ (o_map_iefc2efc r) i) = i) /\
      (forall i, total <= i < njmax -> getZ (o_efc_islandid r) i = -1).
Proof. exact island_efc_maps_sec. Qed.
Print Assumptions C28_island_efc_maps_sched.

(* ---- finite check (a computation, not the theorem) and satisfiability of the hypotheses ---- *)

(* flood_fill agrees with the independent reference labelling ref_labels (and never raises the
   ghost flag) on all 2 + 8 + 64 + 1024 symmetric graphs, self edges included, on 1..4 trees *)
Theorem C28_flood_fill_all_graphs_upto_4_finite_check : forallb check_n [1; 2; 3; 4] = true.
Proof. exact flood_fill_all_graphs_upto_4. Qed.
Print Assumptions C28_flood_fill_all_graphs_upto_4_finite_check.

(* the hypotheses of C28_flood_fill_components hold for a concrete 4-tree graph (trees 0 and 2
   joined, tree 1 with a self edge, tree 3 untouched); its labels are [0;1;0;-1], nisland 2 *)
Example C28_hypotheses_satisfiable :
  0 < 4 /\ sym_adj 4 ex_adj /\ length (zfill 16 9) = Z.to_nat (4 * 4) /\
  ff_labels 4 ex_adj (zfill 16 9) = [0; 1; 0; -1] /\ ff_nisland 4 ex_adj (zfill 16 9) = 2.
Proof. exact ex_hypotheses. Qed.
