(* Props/C21.v -- C21 "Inertia factorization solves the inertia system".
   Statements only; every proof is `exact <lemma of Proof/Blocks.v>`.  All functions named here are the
   hand-written executable model Model/Blocks.v of io.m_block_layout, of the put_model block that derives
   M_tiles / qLD_updates and of the smooth.py factor / solve kernels; bin/props/C21.py runs that model
   against the real functions on every check (exact for the layout, 2e-4 for the float kernels). *)
From Coq Require Import ZArith Reals List.
From VF Require Import Base.Scalar Base.ScalarR Base.Vec Base.Loop Model.Blocks Proof.Blocks.
Import ListNotations.

(* ---- layout (any thresholds smax/dmax; m_block_layout = layout_run 6 64) ------------------------------
   Hypothesis: the non-empty kinematic trees are contiguous dof ranges tiling [0,nv) (MuJoCo invariant,
   checked on every generated model; satisfiable: Proof.Blocks.ex_forest_tiles).  Then: every dof lies in
   exactly one block; dof_adr has length nv; every block has exactly one kind (compact / scalar factor /
   tile factor / sparse) and all its dofs carry that block's sentinel or packed offset (offsets >= 0, so the
   three cases are distinguishable); the packed regions [off, off+size^2) tile [0,total) (pairwise disjoint,
   inside [0,total)); scalar_tiles[size] / gather_tiles[size] list exactly the compact+scalar / tile blocks of
   that size, each once; has_sparse iff some block is sparse. *)
Theorem C21_layout_partition : forall (smax dmax : Z) (m : lmodel),
  blocks_tile 0 (m_blocks m) (l_nv m) ->
  let lay := layout_run smax dmax m in
  let tab := table smax dmax m 0 (m_blocks m) in
  (forall d, (0 <= d < l_nv m)%Z ->
     exists b, In b (m_blocks m) /\ (fst b <= d < fst b + snd b)%Z /\
               forall b', In b' (m_blocks m) -> (fst b' <= d < fst b' + snd b')%Z -> b' = b)
  /\ Z.of_nat (length (lay_dof_adr lay)) = l_nv m
  /\ (forall s n, In (s, n) (m_blocks m) -> exists o, In (s, n, block_kind smax dmax m s n, o) tab)
  /\ (forall s n k o, In (s, n, k, o) tab ->
        In (s, n) (m_blocks m) /\ k = block_kind smax dmax m s n /\ (0 <= o)%Z /\
        forall d, (s <= d < s + n)%Z -> zget (lay_dof_adr lay) d = adr_value k o)
  /\ blocks_tile 0 (regions tab) (lay_total lay)
  /\ (forall size s, In s (dict_get (lay_scalar_tiles lay) size) <->
                     exists k o, In (s, size, k, o) tab /\ is_scalar_kind k = true)
  /\ (forall size s, In s (dict_get (lay_gather_tiles lay) size) <->
                     exists k o, In (s, size, k, o) tab /\ is_tile_kind k = true)
  /\ (forall size, NoDup (dict_get (lay_scalar_tiles lay) size) /\ NoDup (dict_get (lay_gather_tiles lay) size))
  /\ (lay_has_sparse lay = true <-> exists s n o, In (s, n, KSparse, o) tab).
Proof. exact layout_partition. Qed.
Print Assumptions C21_layout_partition.

(* what a tiling gives: containment, cover, disjointness (used for blocks and for packed regions) *)
Theorem C21_tiling_disjoint : forall p l q, blocks_tile p l q ->
  forall s1 n1 s2 n2 d, In (s1, n1) l -> In (s2, n2) l ->
    (s1 <= d < s1 + n1)%Z -> (s2 <= d < s2 + n2)%Z -> (s1, n1) = (s2, n2).
Proof. exact blocks_tile_disjoint. Qed.
Print Assumptions C21_tiling_disjoint.
Theorem C21_tiling_inside : forall p l q, blocks_tile p l q ->
  forall s n, In (s, n) l -> (p <= s /\ 0 < n /\ s + n <= q)%Z.
Proof. exact blocks_tile_in. Qed.
Print Assumptions C21_tiling_inside.

(* the entry-count tests `nnz == size` / `nnz == size*(size+1)//2` are exact: for a block whose CSR rows are
   contiguous and hold between 1 and (local index + 1) entries, compact <-> every row is diagonal,
   triangular <-> every row is full (the block is a serial chain) *)
Theorem C21_detect_exact : forall (m : lmodel) (start size : Z),
  (0 < size)%Z ->
  (forall i, (0 <= i < size - 1)%Z ->
     zget (l_M_rowadr m) (start + i + 1) = (zget (l_M_rowadr m) (start + i) + zget (l_M_rownnz m) (start + i))%Z) ->
  (forall i, (0 <= i < size)%Z -> (1 <= zget (l_M_rownnz m) (start + i) <= i + 1)%Z) ->
  (is_compact m start size = true <-> forall i, (0 <= i < size)%Z -> zget (l_M_rownnz m) (start + i) = 1%Z) /\
  (is_triangular m start size = true <-> forall i, (0 <= i < size)%Z -> zget (l_M_rownnz m) (start + i) = (i + 1)%Z).
Proof. exact detect_exact. Qed.
Print Assumptions C21_detect_exact.

Local Open Scope R_scope.

(* ---- dense blocks --------------------------------------------------------------------------------------
   _small_cholesky_solve (also the model of the tile solve), ANY block size: the stored factor is read as an
   upper triangular U (U[k][i] at factor_adr + k*size + i, k <= i; non-zero diagonal).  The returned x
   satisfies U^T (U x) = y on the block, i.e. (L L^T) x = y for L = U^T, and no entry outside the block is
   written. *)
Theorem C21_back_subst_correct : forall (size fadr start : Z) (L y : list R),
  (0 <= size)%Z -> (0 <= start)%Z ->
  (forall i, (0 <= i < size)%Z -> Uf size fadr L i i <> 0) ->
  forall x0 : list R, (start + size <= Z.of_nat (length x0))%Z ->
  let x := @small_solve R ScalarR size fadr start L y x0 in
  length x = length x0 /\
  (forall j, (0 <= j)%Z -> ~ (start <= j < start + size)%Z -> @vget R ScalarR x j = @vget R ScalarR x0 j) /\
  (forall i, (0 <= i < size)%Z ->
     zsum 0 (i + 1) (fun k => Uf size fadr L k i * zsum k size (fun j => Uf size fadr L k j * @vget R ScalarR x (start + j)%Z))
     = @vget R ScalarR y (start + i)%Z).
Proof. exact small_solve_correct. Qed.
Print Assumptions C21_back_subst_correct.

(* compact (factor-less) blocks: D = 1/diag(M), x = D*y solves the diagonal system *)
Theorem C21_compact_correct : forall (size matrix_adr start : Z) (M D0 y x0 : list R),
  (0 <= size)%Z -> (0 <= start)%Z ->
  (start + size <= Z.of_nat (length D0))%Z -> (start + size <= Z.of_nat (length x0))%Z ->
  (forall i, (0 <= i < size)%Z -> @vget R ScalarR M (matrix_adr + i)%Z <> 0) ->
  let Dg := @compact_factor R ScalarR size matrix_adr start M D0 in
  let x := @compact_solve R ScalarR size start Dg y x0 in
  length x = length x0 /\
  (forall i, (0 <= i < size)%Z ->
     @vget R ScalarR M (matrix_adr + i)%Z * @vget R ScalarR x (start + i)%Z = @vget R ScalarR y (start + i)%Z) /\
  (forall j, (0 <= j)%Z -> ~ (start <= j < start + size)%Z -> @vget R ScalarR x j = @vget R ScalarR x0 j).
Proof. exact compact_correct. Qed.
Print Assumptions C21_compact_correct.

(* _small_cholesky_factorize_block: U^T U = M (entries i <= j, triangular packing) with positive diagonal,
   for n = 3 and positive leading principal minors (= SPD).  PARTIAL: n <= 3 only (n = 1, 2 below); the
   general-n factorisation is covered by the correspondence + oracle, not by a proof. *)
Theorem C21_chol_factor_correct_small_partial : forall m00 m10 m11 m20 m21 m22 (L0 : list R),
  length L0 = 9%nat ->
  0 < m00 -> 0 < det2 m00 m10 m11 -> 0 < det3 m00 m10 m11 m20 m21 m22 ->
  let M := [m00; m10; m11; m20; m21; m22] in
  let U := @small_factor R ScalarR 3 0 0 M L0 in
  (forall i j, (0 <= i <= j)%Z -> (j < 3)%Z -> utu 3 U i j = mtri M i j) /\
  (forall k, (0 <= k < 3)%Z -> 0 < @vget R ScalarR U (k * 3 + k)%Z).
Proof. exact chol_factor_correct_3. Qed.
Print Assumptions C21_chol_factor_correct_small_partial.
Theorem C21_chol_factor_correct_n2_partial : forall m00 m10 m11 (L0 : list R),
  length L0 = 4%nat -> 0 < m00 -> 0 < det2 m00 m10 m11 ->
  let M := [m00; m10; m11] in
  let U := @small_factor R ScalarR 2 0 0 M L0 in
  (forall i j, (0 <= i <= j)%Z -> (j < 2)%Z -> utu 2 U i j = mtri M i j) /\
  (forall k, (0 <= k < 2)%Z -> 0 < @vget R ScalarR U (k * 2 + k)%Z).
Proof. exact chol_factor_correct_2. Qed.
Print Assumptions C21_chol_factor_correct_n2_partial.
Theorem C21_chol_factor_correct_n1_partial : forall m00 (L0 : list R),
  length L0 = 1%nat -> 0 < m00 ->
  let M := [m00] in
  let U := @small_factor R ScalarR 1 0 0 M L0 in
  utu 1 U 0 0 = mtri M 0 0 /\ 0 < @vget R ScalarR U 0.
Proof. exact chol_factor_correct_1. Qed.
Print Assumptions C21_chol_factor_correct_n1_partial.

(* end to end, dense 3x3 block: factor then solve returns x with M x = y *)
Theorem C21_chol3_factor_solve_partial : forall m00 m10 m11 m20 m21 m22 (L0 y x0 : list R),
  length L0 = 9%nat -> length x0 = 3%nat ->
  0 < m00 -> 0 < det2 m00 m10 m11 -> 0 < det3 m00 m10 m11 m20 m21 m22 ->
  let M := [m00; m10; m11; m20; m21; m22] in
  let U := @small_factor R ScalarR 3 0 0 M L0 in
  let x := @small_solve R ScalarR 3 0 0 U y x0 in
  m00 * @vget R ScalarR x 0 + m10 * @vget R ScalarR x 1 + m20 * @vget R ScalarR x 2 = @vget R ScalarR y 0 /\
  m10 * @vget R ScalarR x 0 + m11 * @vget R ScalarR x 1 + m21 * @vget R ScalarR x 2 = @vget R ScalarR y 1 /\
  m20 * @vget R ScalarR x 0 + m21 * @vget R ScalarR x 1 + m22 * @vget R ScalarR x 2 = @vget R ScalarR y 2.
Proof. exact chol3_factor_solve. Qed.
Print Assumptions C21_chol3_factor_solve_partial.

(* ---- sparse L^T D L ------------------------------------------------------------------------------------
   _solve_LD_sparse_fused (CPU launch) on a serial chain (dof_parentid[i] = i-1) with the update lists that
   the put_model copy generates (qLD_updates, qLD_all_updates, qLD_level_offsets), all dofs sparse:
   for every stored unit-lower factor Ls and reciprocal diagonal Dg (non-zero), the result x satisfies
   L^T diag(1/Dg) L x = y, i.e. x = (L^T D L)^-1 y: the solve inverts the stored factorisation.
   PARTIAL: serial chains only, 1 <= n <= 70 (the generated update lists are checked against their closed
   form by computation up to n = 70, which includes n = 65, the smallest chain the real thresholds send to
   this path; C21_ldl_chain_solve_any_n below is for every n with the closed-form lists); the factorisation
   identity L^T D L = M is proved for n = 3 only (C21_ldl_factor_correct_n3_partial). *)
Theorem C21_ldl_tree_solve_correct_partial : forall n (Ls Dg y x0 : list R),
  (1 <= n <= 70)%Z -> Z.of_nat (length x0) = n -> (forall k, (0 <= k < n)%Z -> @vget R ScalarR Dg k <> 0) ->
  let adr := repeat Q_LD_BLOCK_SPARSE (Z.to_nat n) in
  let lv := qLD_updates (chain_model n) adr in
  let x := @solve_LD_sparse R ScalarR n (Z.of_nat (length lv)) adr Ls Dg
             (qLD_all_updates lv) (qLD_level_offsets lv) y x0 in
  let Lx := fun k => @vget R ScalarR x k + zsum 0 k (fun j => Lt Ls k j * @vget R ScalarR x j) in
  length x = length x0 /\
  forall i, (0 <= i < n)%Z ->
    Lx i / @vget R ScalarR Dg i + zsum (i + 1) n (fun k => Lt Ls k i * (Lx k / @vget R ScalarR Dg k)) = @vget R ScalarR y i.
Proof. exact ldl_tree_solve_correct_partial. Qed.
Print Assumptions C21_ldl_tree_solve_correct_partial.

Theorem C21_ldl_chain_solve_any_n_partial : forall n (Ls Dg y x0 : list R),
  (1 <= n)%Z -> Z.of_nat (length x0) = n -> (forall k, (0 <= k < n)%Z -> @vget R ScalarR Dg k <> 0) ->
  let lv := chain_levels n in
  let x := @solve_LD_sparse R ScalarR n (Z.of_nat (length lv)) (repeat Q_LD_BLOCK_SPARSE (Z.to_nat n)) Ls Dg
             (qLD_all_updates lv) (qLD_level_offsets lv) y x0 in
  let Lx := fun k => @vget R ScalarR x k + zsum 0 k (fun j => Lt Ls k j * @vget R ScalarR x j) in
  length x = length x0 /\
  forall i, (0 <= i < n)%Z ->
    Lx i / @vget R ScalarR Dg i + zsum (i + 1) n (fun k => Lt Ls k i * (Lx k / @vget R ScalarR Dg k)) = @vget R ScalarR y i.
Proof. exact ldl_chain_solve_correct. Qed.
Print Assumptions C21_ldl_chain_solve_any_n_partial.

(* _factor_i_sparse on the 3-dof chain: L^T diag(d) L = M and qLDiagInv = 1/d *)
Theorem C21_ldl_factor_correct_n3_partial : forall m00 m10 m11 m20 m21 m22 (D0 : list R),
  length D0 = 3%nat ->
  m22 <> 0 -> m11 - m21 * (m21 / m22) <> 0 ->
  let M := [m00; m10; m11; m20; m21; m22] in
  let '(Dg, L) := @factor_i_sparse R ScalarR 3 (l_M_rowadr (chain_model 3)) (l_M_rownnz (chain_model 3))
                    (chain_levels 3) M D0 in
  (forall i j, (0 <= i <= j)%Z -> (j < 3)%Z -> ltdl 3 L i j = mtri M i j) /\
  (forall k, (0 <= k < 3)%Z -> @vget R ScalarR Dg k = 1 / @vget R ScalarR L (chain_adr k k)).
Proof. exact ldl_factor_correct_3. Qed.
Print Assumptions C21_ldl_factor_correct_n3_partial.

(* end to end on the 3-dof chain with the generated update lists: factor then solve gives M x = y *)
Theorem C21_ldl_chain3_factor_solve_partial : forall m00 m10 m11 m20 m21 m22 y0 y1 y2 (D0 x0 : list R),
  length D0 = 3%nat -> length x0 = 3%nat ->
  m22 <> 0 -> det2 m11 m21 m22 <> 0 -> det3 m00 m10 m11 m20 m21 m22 <> 0 ->
  let M := [m00; m10; m11; m20; m21; m22] in
  let lv := qLD_updates (chain_model 3) (repeat Q_LD_BLOCK_SPARSE 3) in
  let '(Dg, L) := @factor_i_sparse R ScalarR 3 (l_M_rowadr (chain_model 3)) (l_M_rownnz (chain_model 3)) lv M D0 in
  let x := @solve_LD_sparse R ScalarR 3 (Z.of_nat (length lv)) (repeat Q_LD_BLOCK_SPARSE 3) L Dg
             (qLD_all_updates lv) (qLD_level_offsets lv) [y0; y1; y2] x0 in
  m00 * @vget R ScalarR x 0 + m10 * @vget R ScalarR x 1 + m20 * @vget R ScalarR x 2 = y0 /\
  m10 * @vget R ScalarR x 0 + m11 * @vget R ScalarR x 1 + m21 * @vget R ScalarR x 2 = y1 /\
  m20 * @vget R ScalarR x 0 + m21 * @vget R ScalarR x 1 + m22 * @vget R ScalarR x 2 = y2.
Proof. exact ldl_chain3_factor_solve. Qed.
Print Assumptions C21_ldl_chain3_factor_solve_partial.
