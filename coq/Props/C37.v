(* Props/C37.v -- C37 "Pipeline stages compose consistently".
   Statements only; every proof is `exact <lemma of Proof/Pipeline.v>`.
   `program` is REGENERATED from /repo's host Python on every run (Gen/Skel_pipeline.v);
   the event lists below are `flatten program ...` of it under the partial valuations of
   Model/PipelineFacts.v:  sleep disabled, no user callbacks installed, integrator decided
   (pv_euler / pv_implicit; RK4 is excluded: step2 integrates RK4 models with Euler).
   `sem/run` is the abstract semantics of Model/Pipeline.v over an arbitrary value type V,
   an arbitrary interpretation I of launches / zero / fill / copy / external calls / loops
   that respects the extracted footprints, and an arbitrary total valuation v of the
   Python conditions left undecided. *)
From Coq Require Import String List Bool.
From VF Require Import Model.Pipeline Gen.Skel_pipeline Model.PipelineFacts Proof.Pipeline.
Import ListNotations.
Local Open Scope string_scope.
Local Open Scope list_scope.

(* ---- general facts about the stage language -------------------------------------------- *)
(* every event, structural ones included: fields outside its write set are unchanged, and
   on stores that agree on its read set agreement is preserved field by field *)
Theorem C37_sem_footprint :
  forall (V : Type) (I : event -> store V -> store V) (v : string -> bool), respects V I ->
  forall e,
    (forall s f, ~ In f (ev_writes e) -> sem V I v e s f = s f) /\
    (forall s s', (forall g, In g (ev_reads e) -> s g = s' g) ->
        forall f, s f = s' f -> sem V I v e s f = sem V I v e s' f).
Proof. exact sem_footprint. Qed.
Print Assumptions C37_sem_footprint.

Theorem C37_run_ext :
  forall (V : Type) (I : event -> store V -> store V) (v : string -> bool), respects V I ->
  forall l s s', store_eq V s s' -> store_eq V (run V I v l s) (run V I v l s').
Proof. exact run_ext. Qed.
Print Assumptions C37_run_ext.

Theorem C37_commute :
  forall (V : Type) (I : event -> store V -> store V) (v : string -> bool), respects V I ->
  forall a b s, independent a b = true ->
    store_eq V (sem V I v b (sem V I v a s)) (sem V I v a (sem V I v b s)).
Proof. exact commute. Qed.
Print Assumptions C37_commute.

Theorem C37_float_left_sound :
  forall (V : Type) (I : event -> store V -> store V) (v : string -> bool), respects V I ->
  forall name evs s, store_eq V (run V I v (float_left name evs) s) (run V I v evs s).
Proof. exact float_left_sound. Qed.
Print Assumptions C37_float_left_sound.

Theorem C37_events_eqb_eq : forall a b, events_eqb a b = true <-> a = b.
Proof. exact events_eqb_eq. Qed.
Print Assumptions C37_events_eqb_eq.

(* the normaliser (drop EAssign, split the fused factor+solve group, float factor_m left
   over independent events) preserves the meaning of every event list *)
Theorem C37_norm_sound :
  forall (V : Type) (I : event -> store V -> store V) (v : string -> bool), respects V I ->
  forall pv, fused_eq_split V I v pv ->
  forall l s, store_eq V (run V I v (norm pv l) s) (run V I v l s).
Proof. exact norm_sound. Qed.
Print Assumptions C37_norm_sound.

(* ---- step1 ; step2 = step --------------------------------------------------------------- *)
(* Hypotheses: the interpretation respects the footprints extracted from the wp.launch
   inputs/outputs lists, and the fused factor_solve_i group equals factor_m followed by
   solve_m (numerical fact about the kernels, checked dynamically by bin/props/C37.py).
   That EAssign events do not change the store is a consequence of `respects` (their write
   set is empty), so it is not a separate hypothesis. *)
Theorem C37_step_split_euler :
  forall (V : Type) (I : event -> store V -> store V) (v : string -> bool),
    respects V I -> fused_eq_split V I v pv_euler ->
    forall s, store_eq V (run V I v (step1_events pv_euler ++ step2_events pv_euler) s)
                         (run V I v (step_events pv_euler) s).
Proof. exact step_split_euler. Qed.
Print Assumptions C37_step_split_euler.

Theorem C37_step_split_implicit :
  forall (V : Type) (I : event -> store V -> store V) (v : string -> bool),
    respects V I -> fused_eq_split V I v pv_implicit ->
    forall s, store_eq V (run V I v (step1_events pv_implicit ++ step2_events pv_implicit) s)
                         (run V I v (step_events pv_implicit) s).
Proof. exact step_split_implicit. Qed.
Print Assumptions C37_step_split_implicit.

(* the flattened lists are complete (no out-of-fuel marker), no undecided condition
   mentions sleep or a callback, the fused group occurs exactly once in step and is split
   by the normaliser, and the events the factorisation is moved across mention neither
   d.qLD / d.qLDiagInv under any slice or local alias nor write d.M (aliasing guard: field
   names are text) *)
Theorem C37_split_wellformed :
  split_wellformed pv_euler = true /\ split_wellformed pv_implicit = true.
Proof. exact (conj split_wellformed_euler split_wellformed_implicit). Qed.
Print Assumptions C37_split_wellformed.

(* ---- forward() and the integration state ------------------------------------------------ *)
Theorem C37_forward_wellformed :
  forward_wellformed pv_common = true /\ forward_wellformed pv_common_nohist = true.
Proof. exact (conj forward_wellformed_common forward_wellformed_nohist). Qed.
Print Assumptions C37_forward_wellformed.

(* models without delay/interval history buffers: no stage of forward() writes an
   integration-state field; semantically every such field is unchanged *)
Theorem C37_forward_state_frame_nohist :
  forall (V : Type) (I : event -> store V -> store V) (v : string -> bool),
    respects V I ->
    forall s f, In f state_fields ->
      run V I v (forward_events pv_common_nohist) s f = s f.
Proof. exact forward_state_frame_nohist. Qed.
Print Assumptions C37_forward_state_frame_nohist.

(* all models: every integration-state field except d.history is unchanged *)
Theorem C37_forward_state_frame_except_history :
  forall (V : Type) (I : event -> store V -> store V) (v : string -> bool),
    respects V I ->
    forall s f, In f state_fields -> f <> "d.history" ->
      run V I v (forward_events pv_common) s f = s f.
Proof. exact forward_state_frame_except_history. Qed.
Print Assumptions C37_forward_state_frame_except_history.

(* the full statement "forward() writes no integration-state field" is REFUTED on the
   faithful model: d.history (State.HISTORY) is an output of exactly one kernel launched
   by forward(), history._insert_sensor_history_stage (sensor.sensor_pos/vel/acc ->
   history.apply_sensor_delay).  Replayed on the real code by bin/props/C37.py
   (finding C37:forward:writes-history). *)
Theorem C37_forward_state_frame_refuted :
  exists f, In f state_fields /\ In f (flat_map ev_writes (forward_events pv_common)) /\
            dedup (flat_map (writers f) (forward_events pv_common))
            = ["history._insert_sensor_history_stage"].
Proof. exact forward_state_frame_refuted. Qed.
Print Assumptions C37_forward_state_frame_refuted.

(* ---- producer-before-consumer ordering ---------------------------------------------------- *)
(* For step1, step2 and forward (and every nested list of their flattened trees): the only
   Data fields written AFTER an earlier event of the same list has purely read them are the
   committed lists war_step1 / war_step2 / war_forward.  So for every other field F and every
   reader of F, ALL writers of F in the list precede the reader; in particular every launch
   writing d.M (crb's _M and _tendon_armature) precedes factor_m, i.e. the d.qLD that step1
   leaves for step2's solve_m factorises the finished d.M. *)
Theorem C37_writers_precede_readers :
  (war_unexplained war_step1 (step1_events pv_euler),
   war_unexplained war_step1 (step1_events pv_implicit),
   war_unexplained war_step2 (step2_events pv_euler),
   war_unexplained war_step2 (step2_events pv_implicit),
   war_unexplained war_forward (forward_events pv_common)) = (nil, nil, nil, nil, nil).
Proof. exact writers_precede_readers_all. Qed.
Print Assumptions C37_writers_precede_readers.

Theorem C37_M_complete_before_factor :
  mem "d.M" (war (step1_events pv_euler)) = false /\
  mem "d.M" (war (step1_events pv_implicit)) = false.
Proof. exact M_complete_before_factor. Qed.
Print Assumptions C37_M_complete_before_factor.
