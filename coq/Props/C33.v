(* Props/C33.v -- C33 "set_const recomputes derived model fields correctly".
   Statements only; every proof is `exact <lemma of Proof/SetConst.v>`.
   The k__* functions are the kernels of /repo/mujoco_warp/_src/set_const.py as REGENERATED
   into Gen/T_set_const.v on every run (the write list of ONE task, Base/Kernel.v); `program`
   behind sc_events is the host stage sequence regenerated into Gen/Skel_pipeline.v.
   Proved here: the algebra/indexing of set_const's own kernels and the save/restore
   structure of the host code.  NOT proved (differential oracle against mujoco.mj_setConst
   only, bin/props/C33.py): the position stages set_const calls (kinematics, com_pos, camlight,
   tendon, crb, factor_m, transmission), solve_m (hence that the "A diagonals" are the
   diagonal of J inv(M) J'), the Jacobian rows of _compute_body_jac_row, float32 rounding. *)
From Coq Require Import ZArith Reals List Bool String Permutation.
From VF Require Import Base.Scalar Base.ScalarR Base.Vec Base.Loop Base.Kernel.
From VF Require Import Gen.T_set_const Gen.Skel_pipeline Model.Dyn Proof.Dyn Model.Pipeline Model.SetConst Proof.SetConst.
Import ListNotations.
Local Open Scope Z_scope.

(* --- 1. set_const_fixed: body_subtreemass ---------------------------------------------------- *)

(* _init_subtreemass followed by one _accumulate_subtreemass launch per tree level (deepest
   first), run with Base/Kernel.v's launch semantics over a heap, Ns = body_subtreemass.shape[0]
   worlds interleaved, EVERY order of the tasks inside every launch (s_init, s_levels are
   arbitrary permutations of the launch grids): row w, body b of m.body_subtreemass ends up
   holding the recursive subtree sum of row (w rem Nm) of body_mass. *)
Theorem C33_subtreemass_levels :
  forall (fuel : nat) (mass : Z -> Z -> R) (parent : list Z), wf_forest parent ->
  forall (Nm : Z) (Ns : nat) (s_init : list (Z * Z)) (s_levels : list (list (Z * Z))) (h0 : heapR),
    Permutation s_init (grid Ns (List.length parent)) ->
    Forall2 (fun s lv => Permutation s (grid Ns (List.length lv))) s_levels (rev (body_tree parent)) ->
    forall w b, 0 <= w < Z.of_nat Ns -> 0 <= b < Z.of_nat (List.length parent) ->
      hget (set_const_fixed_sched fuel mass parent Nm (Z.of_nat Ns) s_init s_levels h0) (SUBTREEMASS, [w; b])
      = Some (VS (subtree_sum Rplus 0%R SkipBody0 parent (map (mass (Z.rem w Nm)) (zseq (List.length parent))) b)).
Proof. exact subtreemass_levels_thm. Qed.
Print Assumptions C33_subtreemass_levels.

(* ... and that value is the plain sum of the masses of the bodies of the subtree of b *)
Theorem C33_subtree_sum_is_mass_of_subtree :
  forall (parent : list Z) (init : list R) (b : Z),
    subtree_sum Rplus 0%R SkipBody0 parent init b
    = Rsum (map (aget 0%R init) (subtree_nodes SkipBody0 parent b)).
Proof. exact subtree_sum_is_Rsum. Qed.
Print Assumptions C33_subtree_sum_is_mass_of_subtree.

Example C33_subtreemass_hypotheses_satisfiable :
  wf_forest ex_parent /\
  Forall2 (fun s lv => Permutation s (grid 2 (List.length lv)))
          (map (fun lv => rev (grid 2 (List.length lv))) (rev (body_tree ex_parent))) (rev (body_tree ex_parent)) /\
  Permutation (rev (grid 2 (List.length ex_parent))) (grid 2 (List.length ex_parent)).
Proof. exact subtreemass_scheds_exist. Qed.

(* --- 2. closed forms of the derived-field kernels (one task) --------------------------------- *)
Local Open Scope R_scope.

(* qpos := qpos0 (or qpos_spring): Data row = tid0, Model row = tid0 rem qpos0.shape[0] *)
Theorem C33_copy_qpos0_to_qpos :
  forall (w i : Z) (qpos0 qout : Z -> Z -> R) orc (N : Z),
    k__copy_qpos0_to_qpos w i qpos0 qout orc N = [mkW "qpos_out" [w; i] KSet (VS (qpos0 (Z.rem w N) i))].
Proof. exact (@copy_qpos0_to_qpos_spec R). Qed.
Print Assumptions C33_copy_qpos0_to_qpos.

Theorem C33_copy_tendon_length0 :
  forall (w t : Z) (len out : Z -> Z -> R) orc (N : Z),
    k__copy_tendon_length0 w t len out orc N = [mkW "tendon_length0_out" [Z.rem w N; t] KSet (VS (len w t))].
Proof. exact (@copy_tendon_length0_spec R). Qed.
Print Assumptions C33_copy_tendon_length0.

Theorem C33_resolve_tendon_lengthspring :
  forall (w t : Z) (len : Z -> Z -> R) (ls : Z -> Z -> list R) orc (N : Z),
    k__resolve_tendon_lengthspring w t len ls orc N
    = if seqb (vget (ls (Z.rem w N) t) 0) (sneg (sofZ 1)) && seqb (vget (ls (Z.rem w N) t) 1) (sneg (sofZ 1))
      then [mkW "tendon_lengthspring_out" [Z.rem w N; t] KSet (VV [len w t; len w t])] else [].
Proof. exact (@resolve_tendon_lengthspring_spec R _). Qed.
Print Assumptions C33_resolve_tendon_lengthspring.

(* stat.meaninertia = mean of the diagonal of the CSR mass matrix; 1 when nv = 0 *)
Theorem C33_meaninertia :
  forall (w nv : Z) (rownnz rowadr : Z -> Z) (M : Z -> Z -> R) (out : Z -> R) orc (N : Z),
    k__compute_meaninertia w nv rownnz rowadr M out orc N
    = [mkW "meaninertia_out" [Z.rem w N] KSet
         (VS (if Z.eqb nv 0 then 1
              else Rsum (map (fun i => M w (rowadr i + rownnz i - 1)%Z) (zseq (Z.to_nat nv))) / IZR nv))].
Proof. exact compute_meaninertia_spec. Qed.
Print Assumptions C33_meaninertia.

(* dof_invweight0: dofs of a body compiled as body_simple == 2 (axis-aligned sliders only) get
   1/max(MINVAL, body_mass) as in mj_setConst (no armature); otherwise FREE -> mean of the 3
   translational / 3 rotational diagonal entries, BALL -> mean of its 3, HINGE/SLIDE -> the entry
   itself.  THIRD is the literal the source writes (wp.static(1.0 / 3.0) = 0.3333333333333333,
   not the real 1/3). *)
Theorem C33_dof_invweight0_final :
  forall (w dofid : Z) (body_simple : Z -> Z) (mass : Z -> Z -> R) (dof_bodyid dof_jntid jnt_type jnt_dofadr : Z -> Z)
         (A out : Z -> Z -> R) orc (No Na Nm : Z),
  let j := dof_jntid dofid in
  let adr := jnt_dofadr j in
  let a := Z.rem w Na in
  k__finalize_dof_invweight0 w dofid body_simple mass dof_bodyid dof_jntid jnt_type jnt_dofadr A out orc No Na Nm
  = [mkW "dof_invweight0_out" [Z.rem w No; dofid] KSet
       (VS (if Z.eqb (body_simple (dof_bodyid dofid)) 2
            then 1 / Rmax MINVAL (mass (Z.rem w Nm) (dof_bodyid dofid))
            else if Z.eqb (jnt_type j) JNT_FREE
            then (if Z.ltb dofid (adr + 3)
                  then THIRD * (A a (adr + 0)%Z + A a (adr + 1)%Z + A a (adr + 2)%Z)
                  else THIRD * (A a (adr + 3)%Z + A a (adr + 4)%Z + A a (adr + 5)%Z))
            else if Z.eqb (jnt_type j) JNT_BALL
            then THIRD * (A a (adr + 0)%Z + A a (adr + 1)%Z + A a (adr + 2)%Z)
            else A a dofid))].
Proof. exact finalize_dof_invweight0_spec. Qed.
Print Assumptions C33_dof_invweight0_final.

(* body_invweight0: (0,0) for the world and static bodies; (1/max(MINVAL, body_mass), 0) for
   body_simple == 2 bodies; else exactly the two means -- a vanishing component stays what it
   is (no fallback), as mujoco.mj_setConst does *)
Theorem C33_body_invweight0_final :
  forall (w b : Z) (body_weldid body_simple : Z -> Z) (mass : Z -> Z -> R) (A : Z -> Z -> Z -> R)
         (out : Z -> Z -> list R) orc (No Na Nm : Z),
  let a := Z.rem w Na in
  k__finalize_body_invweight0 w b body_weldid body_simple mass A out orc No Na Nm
  = [mkW "body_invweight0_out" [Z.rem w No; b] KSet
       (VV (if Z.eqb b 0 || Z.eqb (body_weldid b) 0 then [0; 0]
            else if Z.eqb (body_simple b) 2 then [1 / Rmax MINVAL (mass (Z.rem w Nm) b); 0]
            else [THIRD * (A a b 0%Z + A a b 1%Z + A a b 2%Z); THIRD * (A a b 3%Z + A a b 4%Z + A a b 5%Z)]))].
Proof. exact finalize_body_invweight0_spec. Qed.
Print Assumptions C33_body_invweight0_final.

(* closed form for a moving slider-only body of mass m >= MINVAL: (1/m, 0) whatever the
   accumulated diagonals (armature included) are (regression of
   C33:invweight0:body_simple-2-slider-bodies) *)
Theorem C33_body_invweight0_simple2 :
  forall (w b : Z) (body_weldid body_simple : Z -> Z) (mass : Z -> Z -> R) (A : Z -> Z -> Z -> R)
         (out : Z -> Z -> list R) orc (No Na Nm : Z),
    b <> 0%Z -> body_weldid b <> 0%Z -> body_simple b = 2%Z -> MINVAL <= mass (Z.rem w Nm) b ->
    k__finalize_body_invweight0 w b body_weldid body_simple mass A out orc No Na Nm
    = [mkW "body_invweight0_out" [Z.rem w No; b] KSet (VV [1 / mass (Z.rem w Nm) b; 0])].
Proof. exact body_invweight0_simple2. Qed.
Print Assumptions C33_body_invweight0_simple2.

(* non-negativity of the finalised weights.  _partial: assumes the accumulated diagonals
   A = diag(J inv(M) J') are non-negative, which needs M positive definite and the
   correctness of solve_m (not modelled; compared with MuJoCo by the oracle) *)
Theorem C33_dof_invweight0_nonneg_partial :
  forall (w dofid : Z) (body_simple : Z -> Z) (mass : Z -> Z -> R) (dof_bodyid dof_jntid jnt_type jnt_dofadr : Z -> Z)
         (A out : Z -> Z -> R) orc (No Na Nm : Z),
    (forall i j, 0 <= A i j) ->
    Forall vs_nonneg (k__finalize_dof_invweight0 w dofid body_simple mass dof_bodyid dof_jntid jnt_type jnt_dofadr A out orc No Na Nm).
Proof. exact finalize_dof_invweight0_nonneg. Qed.
Print Assumptions C33_dof_invweight0_nonneg_partial.
Theorem C33_body_invweight0_nonneg_partial :
  forall (w b : Z) (body_weldid body_simple : Z -> Z) (mass : Z -> Z -> R) (A : Z -> Z -> Z -> R)
         (out : Z -> Z -> list R) orc (No Na Nm : Z),
    (forall i j k, 0 <= A i j k) ->
    Forall vs_nonneg (k__finalize_body_invweight0 w b body_weldid body_simple mass A out orc No Na Nm).
Proof. exact finalize_body_invweight0_nonneg. Qed.
Print Assumptions C33_body_invweight0_nonneg_partial.

(* body_A_diag[b, row] = J_row . (inv(M) J_row') and tendon_invweight0[t] = J_t . (inv(M) J_t')
   as dot products with the solve_m result (dense row / CSR row) *)
Theorem C33_body_A_diag_entry :
  forall (w nv bodyid row : Z) (J res : Z -> Z -> R) (out : Z -> Z -> Z -> R) orc (N : Z),
    k__compute_body_A_diag_entry w nv bodyid row J res out orc N
    = [mkW "body_A_diag_out" [Z.rem w N; bodyid; row] KSet
         (VS (Rsum (map (fun i => J w i * res w i) (zseq (Z.to_nat nv)))))].
Proof. exact compute_body_A_diag_entry_spec. Qed.
Print Assumptions C33_body_A_diag_entry.
Theorem C33_tendon_invweight0_dot :
  forall (w : Z) (rownnz rowadr colind : Z -> Z) (t : Z) (J res out : Z -> Z -> R) orc (N : Z),
    k__compute_tendon_dot_product w rownnz rowadr colind t J res out orc N
    = [mkW "tendon_invweight0_out" [Z.rem w N; t] KSet
         (VS (Rsum (map (fun i => J w (rowadr t + i)%Z * res w (colind (rowadr t + i)%Z)) (zseq (Z.to_nat (rownnz t))))))].
Proof. exact compute_tendon_dot_product_spec. Qed.
Print Assumptions C33_tendon_invweight0_dot.

(* actuator_acc0 = Euclidean norm of inv(M) moment; non-negative *)
Theorem C33_actuator_acc0_norm :
  forall (w a nv : Z) (res out : Z -> Z -> R) orc,
    k__compute_actuator_acc0 w a nv res out orc
    = [mkW "actuator_acc0_out" [w; a] KSet
         (VS (sqrt (Rsum (map (fun i => res w i * res w i) (zseq (Z.to_nat nv))))))].
Proof. exact compute_actuator_acc0_spec. Qed.
Print Assumptions C33_actuator_acc0_norm.
Theorem C33_actuator_acc0_nonneg :
  forall (w a nv : Z) (res out : Z -> Z -> R) orc,
    Forall vs_nonneg (k__compute_actuator_acc0 w a nv res out orc).
Proof. exact actuator_acc0_nonneg. Qed.
Print Assumptions C33_actuator_acc0_nonneg.

(* camera / light reference poses: differences of the global poses at qpos0 (evaluated in
   fixed mode by set_const_0); each output is written at row  tid0 rem ITS OWN leading size *)
Theorem C33_cam_pos0 :
  forall (w c : Z) (bodyid targetid : Z -> Z) (cxpos cxmat xpos scom p0 pc0 m0 : Z -> Z -> list R) orc (N1 N2 N3 : Z),
    k__compute_cam_pos0 w c bodyid targetid cxpos cxmat xpos scom p0 pc0 m0 orc N1 N2 N3
    = [mkW "cam_pos0_out" [Z.rem w N1; c] KSet (VV (vsub (cxpos w c) (xpos w (bodyid c))));
       mkW "cam_poscom0_out" [Z.rem w N2; c] KSet
           (VV (vsub (cxpos w c) (scom w (if Z.geb (targetid c) 0 then targetid c else bodyid c))));
       mkW "cam_mat0_out" [Z.rem w N3; c] KSet (VV (cxmat w c))].
Proof. exact (@compute_cam_pos0_spec R _). Qed.
Print Assumptions C33_cam_pos0.
Theorem C33_light_pos0 :
  forall (w c : Z) (bodyid targetid : Z -> Z) (lxpos lxdir xpos scom p0 pc0 d0 : Z -> Z -> list R) orc (N1 N2 N3 : Z),
    k__compute_light_pos0 w c bodyid targetid lxpos lxdir xpos scom p0 pc0 d0 orc N1 N2 N3
    = [mkW "light_pos0_out" [Z.rem w N1; c] KSet (VV (vsub (lxpos w c) (xpos w (bodyid c))));
       mkW "light_poscom0_out" [Z.rem w N2; c] KSet
           (VV (vsub (lxpos w c) (scom w (if Z.geb (targetid c) 0 then targetid c else bodyid c))));
       mkW "light_dir0_out" [Z.rem w N3; c] KSet (VV (lxdir w c))].
Proof. exact (@compute_light_pos0_spec R _). Qed.
Print Assumptions C33_light_pos0.

(* eq_data of a CONNECT between two bodies: data[0:3] is kept, data[3:6] is recomputed so that
   both anchors map to the same world point at the pose the kinematics were evaluated at
   (qpos0), provided the second body's frame matrix is orthonormal *)
Theorem C33_eq_data0_connect_satisfied :
  forall w e (eq_type eq_obj1id eq_obj2id eq_objtype : Z -> Z)
      (xpos xquat xmat eq_data : Z -> Z -> list R) orc N
      d0 d1 d2 d3 d4 d5 d6 d7 d8 d9 d10 p0 p1 p2 q0 q1 q2 a0 a1 a2 a3 a4 a5 a6 a7 a8 b0 b1 b2 b3 b4 b5 b6 b7 b8,
  eq_type e = 0%Z -> eq_objtype e = 1%Z ->
  eq_data (Z.rem w N) e = [d0; d1; d2; d3; d4; d5; d6; d7; d8; d9; d10] ->
  xpos w (eq_obj1id e) = [p0; p1; p2] -> xmat w (eq_obj1id e) = [a0; a1; a2; a3; a4; a5; a6; a7; a8] ->
  xpos w (eq_obj2id e) = [q0; q1; q2] -> xmat w (eq_obj2id e) = [b0; b1; b2; b3; b4; b5; b6; b7; b8] ->
  orth3 (xmat w (eq_obj2id e)) ->
  exists c3 c4 c5,
    k__compute_eq_data0 w e eq_type eq_obj1id eq_obj2id eq_objtype xpos xquat xmat eq_data orc N
    = [mkW "eq_data_out" [Z.rem w N; e] KSet (VV [d0; d1; d2; c3; c4; c5; d6; d7; d8; d9; d10])] /\
    vadd [q0; q1; q2] (mat_vec 3 3 [b0; b1; b2; b3; b4; b5; b6; b7; b8] [c3; c4; c5])
    = vadd [p0; p1; p2] (mat_vec 3 3 [a0; a1; a2; a3; a4; a5; a6; a7; a8] [d0; d1; d2]).
Proof. exact compute_eq_data0_connect_satisfied. Qed.
Print Assumptions C33_eq_data0_connect_satisfied.

(* dampratio resolution: either nothing is written, or the actuator has affine bias and a
   positive biasprm[2] (a damping ratio) and exactly biasprm[2] is replaced by a value <= 0 *)
Theorem C33_resolve_dampratio :
  forall (w a : Z) (biastype : Z -> Z) (gainprm : Z -> Z -> list R) (rn ra ci : Z -> Z -> Z)
         (mom M0 : Z -> Z -> R) (nv : Z) (biasprm : Z -> Z -> list R) orc (Ng Nb : Z),
  let bp := biasprm (Z.rem w Nb) a in
  k__resolve_dampratio w a biastype gainprm rn ra ci mom M0 nv biasprm orc Ng Nb = []
  \/ (biastype a = 1%Z /\ 0 < vget bp 2 /\
      exists x, x <= 0 /\
        k__resolve_dampratio w a biastype gainprm rn ra ci mom M0 nv biasprm orc Ng Nb
        = [mkW "actuator_biasprm" [Z.rem w Nb; a] KSet (VV (vset bp 2 x))]).
Proof. exact resolve_dampratio_writes. Qed.
Print Assumptions C33_resolve_dampratio.

(* --- 3. batched-output indexing: leading index of EVERY write of a task ----------------------- *)
Local Open Scope Z_scope.
(* For each of the 22 kernels: the leading index of every array write of task tid0 is
   - tid0 rem <leading size of THAT output> for the kernels whose outputs are batched Model
     fields (rows_of per output for _compute_cam_pos0 / _compute_light_pos0, whose three outputs
     may have different leading sizes), and
   - tid0 itself for the kernels writing per-world Data / scratch arrays and for
     _compute_actuator_acc0 / _set_length_range, which the host launches over exactly the rows
     of their output (dim0 = out.shape[0], S-check of bin/props/C33.py; C33_tid_row_in_bounds). *)
Theorem C33_batched_rows_all :
  (forall (tid0 : Z) (tid1 : Z) (body_mass_in : (Z -> Z -> R)) (body_subtreemass_out : (Z -> Z -> R)) (atomic_old : (nat -> Z)) (body_mass_in__shape0 : Z) (body_subtreemass_out__shape0 : Z),
     rows_are (Z.rem tid0 body_subtreemass_out__shape0) (k__init_subtreemass tid0 tid1 body_mass_in body_subtreemass_out atomic_old body_mass_in__shape0 body_subtreemass_out__shape0)) /\
  (forall (tid0 : Z) (tid1 : Z) (body_parentid : (Z -> Z)) (body_subtreemass_io : (Z -> Z -> R)) (body_tree_ : (Z -> Z)) (atomic_old : (nat -> Z)) (body_subtreemass_io__shape0 : Z),
     rows_are (Z.rem tid0 body_subtreemass_io__shape0) (k__accumulate_subtreemass tid0 tid1 body_parentid body_subtreemass_io body_tree_ atomic_old body_subtreemass_io__shape0)) /\
  (forall (tid0 : Z) (tid1 : Z) (qpos0 : (Z -> Z -> R)) (qpos_out : (Z -> Z -> R)) (atomic_old : (nat -> Z)) (qpos0__shape0 : Z),
     rows_are tid0 (k__copy_qpos0_to_qpos tid0 tid1 qpos0 qpos_out atomic_old qpos0__shape0)) /\
  (forall (tid0 : Z) (tid1 : Z) (ten_length_in : (Z -> Z -> R)) (tendon_length0_out : (Z -> Z -> R)) (atomic_old : (nat -> Z)) (tendon_length0_out__shape0 : Z),
     rows_are (Z.rem tid0 tendon_length0_out__shape0) (k__copy_tendon_length0 tid0 tid1 ten_length_in tendon_length0_out atomic_old tendon_length0_out__shape0)) /\
  (forall (tid0 : Z) (tid1 : Z) (eq_type : (Z -> Z)) (eq_obj1id : (Z -> Z)) (eq_obj2id : (Z -> Z)) (eq_objtype : (Z -> Z)) (xpos_in : (Z -> Z -> (list R))) (xquat_in : (Z -> Z -> (list R))) (xmat_in : (Z -> Z -> (list R))) (eq_data_out : (Z -> Z -> (list R))) (atomic_old : (nat -> Z)) (eq_data_out__shape0 : Z),
     rows_are (Z.rem tid0 eq_data_out__shape0) (k__compute_eq_data0 tid0 tid1 eq_type eq_obj1id eq_obj2id eq_objtype xpos_in xquat_in xmat_in eq_data_out atomic_old eq_data_out__shape0)) /\
  (forall (tid0 : Z) (tid1 : Z) (ten_length_in : (Z -> Z -> R)) (tendon_lengthspring_out : (Z -> Z -> (list R))) (atomic_old : (nat -> Z)) (tendon_lengthspring_out__shape0 : Z),
     rows_are (Z.rem tid0 tendon_lengthspring_out__shape0) (k__resolve_tendon_lengthspring tid0 tid1 ten_length_in tendon_lengthspring_out atomic_old tendon_lengthspring_out__shape0)) /\
  (forall (tid0 : Z) (nv : Z) (M_rownnz_in : (Z -> Z)) (M_rowadr_in : (Z -> Z)) (M_in : (Z -> Z -> R)) (meaninertia_out : (Z -> R)) (atomic_old : (nat -> Z)) (meaninertia_out__shape0 : Z),
     rows_are (Z.rem tid0 meaninertia_out__shape0) (k__compute_meaninertia tid0 nv M_rownnz_in M_rowadr_in M_in meaninertia_out atomic_old meaninertia_out__shape0)) /\
  (forall (tid0 : Z) (dofid_target : Z) (unit_vec_out : (Z -> Z -> R)) (atomic_old : (nat -> Z)) (unit_vec_out__shape1 : Z),
     rows_are tid0 (k__set_unit_vector tid0 dofid_target unit_vec_out atomic_old unit_vec_out__shape1)) /\
  (forall (tid0 : Z) (dofid : Z) (result_vec_in : (Z -> Z -> R)) (dof_A_diag_out : (Z -> Z -> R)) (atomic_old : (nat -> Z)) (dof_A_diag_out__shape0 : Z),
     rows_are (Z.rem tid0 dof_A_diag_out__shape0) (k__extract_dof_A_diag tid0 dofid result_vec_in dof_A_diag_out atomic_old dof_A_diag_out__shape0)) /\
  (forall (tid0 : Z) (tid1 : Z) (body_simple : (Z -> Z)) (body_mass : (Z -> Z -> R)) (dof_bodyid : (Z -> Z)) (dof_jntid : (Z -> Z)) (jnt_type : (Z -> Z)) (jnt_dofadr : (Z -> Z)) (dof_A_diag_in : (Z -> Z -> R)) (dof_invweight0_out : (Z -> Z -> R)) (atomic_old : (nat -> Z)) (dof_invweight0_out__shape0 : Z) (dof_A_diag_in__shape0 : Z) (body_mass__shape0 : Z),
     rows_are (Z.rem tid0 dof_invweight0_out__shape0) (k__finalize_dof_invweight0 tid0 tid1 body_simple body_mass dof_bodyid dof_jntid jnt_type jnt_dofadr dof_A_diag_in dof_invweight0_out atomic_old dof_invweight0_out__shape0 dof_A_diag_in__shape0 body_mass__shape0)) /\
  (forall (tid0 : Z) (nv : Z) (bodyid_target : Z) (row_idx : Z) (body_parentid : (Z -> Z)) (body_rootid : (Z -> Z)) (body_dofadr : (Z -> Z)) (body_dofnum : (Z -> Z)) (dof_parentid : (Z -> Z)) (subtree_com_in : (Z -> Z -> (list R))) (xipos_in : (Z -> Z -> (list R))) (cdof_in : (Z -> Z -> (list R))) (body_jac_row_out : (Z -> Z -> R)) (atomic_old : (nat -> Z)),
     rows_are tid0 (k__compute_body_jac_row tid0 nv bodyid_target row_idx body_parentid body_rootid body_dofadr body_dofnum dof_parentid subtree_com_in xipos_in cdof_in body_jac_row_out atomic_old)) /\
  (forall (tid0 : Z) (nv : Z) (bodyid_target : Z) (row_idx : Z) (body_jac_row_in : (Z -> Z -> R)) (result_vec_in : (Z -> Z -> R)) (body_A_diag_out : (Z -> Z -> Z -> R)) (atomic_old : (nat -> Z)) (body_A_diag_out__shape0 : Z),
     rows_are (Z.rem tid0 body_A_diag_out__shape0) (k__compute_body_A_diag_entry tid0 nv bodyid_target row_idx body_jac_row_in result_vec_in body_A_diag_out atomic_old body_A_diag_out__shape0)) /\
  (forall (tid0 : Z) (tid1 : Z) (body_weldid : (Z -> Z)) (body_simple : (Z -> Z)) (body_mass : (Z -> Z -> R)) (body_A_diag_in : (Z -> Z -> Z -> R)) (body_invweight0_out : (Z -> Z -> (list R))) (atomic_old : (nat -> Z)) (body_invweight0_out__shape0 : Z) (body_A_diag_in__shape0 : Z) (body_mass__shape0 : Z),
     rows_are (Z.rem tid0 body_invweight0_out__shape0) (k__finalize_body_invweight0 tid0 tid1 body_weldid body_simple body_mass body_A_diag_in body_invweight0_out atomic_old body_invweight0_out__shape0 body_A_diag_in__shape0 body_mass__shape0)) /\
  (forall (tid0 : Z) (tenid_target : Z) (ten_J_rownnz : (Z -> Z)) (ten_J_rowadr : (Z -> Z)) (ten_J_colind : (Z -> Z)) (ten_J_in : (Z -> Z -> R)) (ten_J_vec_out : (Z -> Z -> R)) (atomic_old : (nat -> Z)) (ten_J_in__shape2 : Z),
     rows_are tid0 (k__copy_tendon_jacobian tid0 tenid_target ten_J_rownnz ten_J_rowadr ten_J_colind ten_J_in ten_J_vec_out atomic_old ten_J_in__shape2)) /\
  (forall (tid0 : Z) (ten_J_rownnz : (Z -> Z)) (ten_J_rowadr : (Z -> Z)) (ten_J_colind : (Z -> Z)) (tenid_target : Z) (ten_J_in : (Z -> Z -> R)) (result_vec_in : (Z -> Z -> R)) (tendon_invweight0_out : (Z -> Z -> R)) (atomic_old : (nat -> Z)) (tendon_invweight0_out__shape0 : Z),
     rows_are (Z.rem tid0 tendon_invweight0_out__shape0) (k__compute_tendon_dot_product tid0 ten_J_rownnz ten_J_rowadr ten_J_colind tenid_target ten_J_in result_vec_in tendon_invweight0_out atomic_old tendon_invweight0_out__shape0)) /\
  (forall (tid0 : Z) (tid1 : Z) (cam_bodyid : (Z -> Z)) (cam_targetbodyid : (Z -> Z)) (cam_xpos_in : (Z -> Z -> (list R))) (cam_xmat_in : (Z -> Z -> (list R))) (xpos_in : (Z -> Z -> (list R))) (subtree_com_in : (Z -> Z -> (list R))) (cam_pos0_out : (Z -> Z -> (list R))) (cam_poscom0_out : (Z -> Z -> (list R))) (cam_mat0_out : (Z -> Z -> (list R))) (atomic_old : (nat -> Z)) (cam_pos0_out__shape0 : Z) (cam_poscom0_out__shape0 : Z) (cam_mat0_out__shape0 : Z),
     rows_of "cam_pos0_out" (Z.rem tid0 cam_pos0_out__shape0) (k__compute_cam_pos0 tid0 tid1 cam_bodyid cam_targetbodyid cam_xpos_in cam_xmat_in xpos_in subtree_com_in cam_pos0_out cam_poscom0_out cam_mat0_out atomic_old cam_pos0_out__shape0 cam_poscom0_out__shape0 cam_mat0_out__shape0) /\
    rows_of "cam_poscom0_out" (Z.rem tid0 cam_poscom0_out__shape0) (k__compute_cam_pos0 tid0 tid1 cam_bodyid cam_targetbodyid cam_xpos_in cam_xmat_in xpos_in subtree_com_in cam_pos0_out cam_poscom0_out cam_mat0_out atomic_old cam_pos0_out__shape0 cam_poscom0_out__shape0 cam_mat0_out__shape0) /\
    rows_of "cam_mat0_out" (Z.rem tid0 cam_mat0_out__shape0) (k__compute_cam_pos0 tid0 tid1 cam_bodyid cam_targetbodyid cam_xpos_in cam_xmat_in xpos_in subtree_com_in cam_pos0_out cam_poscom0_out cam_mat0_out atomic_old cam_pos0_out__shape0 cam_poscom0_out__shape0 cam_mat0_out__shape0)) /\
  (forall (tid0 : Z) (tid1 : Z) (light_bodyid : (Z -> Z)) (light_targetbodyid : (Z -> Z)) (light_xpos_in : (Z -> Z -> (list R))) (light_xdir_in : (Z -> Z -> (list R))) (xpos_in : (Z -> Z -> (list R))) (subtree_com_in : (Z -> Z -> (list R))) (light_pos0_out : (Z -> Z -> (list R))) (light_poscom0_out : (Z -> Z -> (list R))) (light_dir0_out : (Z -> Z -> (list R))) (atomic_old : (nat -> Z)) (light_pos0_out__shape0 : Z) (light_poscom0_out__shape0 : Z) (light_dir0_out__shape0 : Z),
     rows_of "light_pos0_out" (Z.rem tid0 light_pos0_out__shape0) (k__compute_light_pos0 tid0 tid1 light_bodyid light_targetbodyid light_xpos_in light_xdir_in xpos_in subtree_com_in light_pos0_out light_poscom0_out light_dir0_out atomic_old light_pos0_out__shape0 light_poscom0_out__shape0 light_dir0_out__shape0) /\
    rows_of "light_poscom0_out" (Z.rem tid0 light_poscom0_out__shape0) (k__compute_light_pos0 tid0 tid1 light_bodyid light_targetbodyid light_xpos_in light_xdir_in xpos_in subtree_com_in light_pos0_out light_poscom0_out light_dir0_out atomic_old light_pos0_out__shape0 light_poscom0_out__shape0 light_dir0_out__shape0) /\
    rows_of "light_dir0_out" (Z.rem tid0 light_dir0_out__shape0) (k__compute_light_pos0 tid0 tid1 light_bodyid light_targetbodyid light_xpos_in light_xdir_in xpos_in subtree_com_in light_pos0_out light_poscom0_out light_dir0_out atomic_old light_pos0_out__shape0 light_poscom0_out__shape0 light_dir0_out__shape0)) /\
  (forall (tid0 : Z) (actid_target : Z) (moment_rownnz_in : (Z -> Z -> Z)) (moment_rowadr_in : (Z -> Z -> Z)) (moment_colind_in : (Z -> Z -> Z)) (actuator_moment_in : (Z -> Z -> R)) (act_moment_vec_out : (Z -> Z -> R)) (atomic_old : (nat -> Z)) (act_moment_vec_out__shape1 : Z),
     rows_are tid0 (k__copy_actuator_moment tid0 actid_target moment_rownnz_in moment_rowadr_in moment_colind_in actuator_moment_in act_moment_vec_out atomic_old act_moment_vec_out__shape1)) /\
  (forall (tid0 : Z) (actid_target : Z) (nv : Z) (result_vec_in : (Z -> Z -> R)) (actuator_acc0_out : (Z -> Z -> R)) (atomic_old : (nat -> Z)),
     rows_are tid0 (k__compute_actuator_acc0 tid0 actid_target nv result_vec_in actuator_acc0_out atomic_old)) /\
  (forall (tid0 : Z) (tid1 : Z) (dof_bodyid : (Z -> Z)) (dof_armature : (Z -> Z -> R)) (cdof_in : (Z -> Z -> (list R))) (crb_in : (Z -> Z -> (list R))) (dof_M0_out : (Z -> Z -> R)) (atomic_old : (nat -> Z)) (dof_armature__shape0 : Z),
     rows_are tid0 (k__compute_dof_M0 tid0 tid1 dof_bodyid dof_armature cdof_in crb_in dof_M0_out atomic_old dof_armature__shape0)) /\
  (forall (tid0 : Z) (tid1 : Z) (actuator_biastype : (Z -> Z)) (actuator_gainprm : (Z -> Z -> (list R))) (moment_rownnz_in : (Z -> Z -> Z)) (moment_rowadr_in : (Z -> Z -> Z)) (moment_colind_in : (Z -> Z -> Z)) (actuator_moment_in : (Z -> Z -> R)) (dof_M0_in : (Z -> Z -> R)) (nv : Z) (actuator_biasprm : (Z -> Z -> (list R))) (atomic_old : (nat -> Z)) (actuator_gainprm__shape0 : Z) (actuator_biasprm__shape0 : Z),
     rows_are (Z.rem tid0 actuator_biasprm__shape0) (k__resolve_dampratio tid0 tid1 actuator_biastype actuator_gainprm moment_rownnz_in moment_rowadr_in moment_colind_in actuator_moment_in dof_M0_in nv actuator_biasprm atomic_old actuator_gainprm__shape0 actuator_biasprm__shape0)) /\
  (forall (tid0 : Z) (tid1 : Z) (actuator_trntype : (Z -> Z)) (actuator_trnid : (Z -> (list Z))) (actuator_gear : (Z -> Z -> (list R))) (jnt_limited : (Z -> Z)) (jnt_range : (Z -> Z -> (list R))) (tendon_limited : (Z -> Z)) (tendon_range : (Z -> Z -> (list R))) (ntendon : Z) (actuator_lengthrange_out : (Z -> Z -> (list R))) (atomic_old : (nat -> Z)) (actuator_gear__shape0 : Z) (jnt_range__shape0 : Z) (tendon_range__shape0 : Z),
     rows_are tid0 (k__set_length_range tid0 tid1 actuator_trntype actuator_trnid actuator_gear jnt_limited jnt_range tendon_limited tendon_range ntendon actuator_lengthrange_out atomic_old actuator_gear__shape0 jnt_range__shape0 tendon_range__shape0)).
Proof. exact rows_all. Qed.
Print Assumptions C33_batched_rows_all.

(* launch-site consequences *)
Theorem C33_mod_row_in_bounds :
  forall tid0 N : Z, 0 <= tid0 -> 0 < N -> row_in_bounds (Z.rem tid0 N) N = true.
Proof. exact mod_row_in_bounds. Qed.
Print Assumptions C33_mod_row_in_bounds.
Theorem C33_tid_row_in_bounds :
  forall tid0 dim0 N : Z, 0 <= tid0 < dim0 -> dim0 <= N -> row_in_bounds tid0 N = true.
Proof. exact tid_row_in_bounds. Qed.
Print Assumptions C33_tid_row_in_bounds.

(* cameras / lights with partially batched outputs (regression of
   C33:_compute_cam_pos0:mixed-batch-rows): whatever the three leading sizes are, every write
   of a task lands inside the array it goes to *)
Theorem C33_cam_pos0_rows_in_bounds :
  forall tid0 c bodyid targetid (cxpos cxmat xpos scom p0 pc0 m0 : Z -> Z -> list R) orc N1 N2 N3,
    0 <= tid0 -> 0 < N1 -> 0 < N2 -> 0 < N3 ->
    Forall (fun w => row_in_bounds (nth 0 (w_idx w) (-1))
                       (if String.eqb (w_arr w) "cam_pos0_out" then N1
                        else if String.eqb (w_arr w) "cam_poscom0_out" then N2 else N3) = true)
           (k__compute_cam_pos0 tid0 c bodyid targetid cxpos cxmat xpos scom p0 pc0 m0 orc N1 N2 N3).
Proof. exact compute_cam_pos0_rows_in_bounds. Qed.
Print Assumptions C33_cam_pos0_rows_in_bounds.
Theorem C33_light_pos0_rows_in_bounds :
  forall tid0 c bodyid targetid (lxpos lxdir xpos scom p0 pc0 d0 : Z -> Z -> list R) orc N1 N2 N3,
    0 <= tid0 -> 0 < N1 -> 0 < N2 -> 0 < N3 ->
    Forall (fun w => row_in_bounds (nth 0 (w_idx w) (-1))
                       (if String.eqb (w_arr w) "light_pos0_out" then N1
                        else if String.eqb (w_arr w) "light_poscom0_out" then N2 else N3) = true)
           (k__compute_light_pos0 tid0 c bodyid targetid lxpos lxdir xpos scom p0 pc0 d0 orc N1 N2 N3).
Proof. exact compute_light_pos0_rows_in_bounds. Qed.
Print Assumptions C33_light_pos0_rows_in_bounds.

(* --- 4. restore-state frame -------------------------------------------------------------------- *)
Local Open Scope string_scope.

(* soundness of the abstract interpreter: for ANY interpretation I of the primitive events that
   leaves alone the fields an event may not write (lw: a launch's outputs plus the in-place
   inputs listed in the table, a loop's body writes, the name an assignment binds), with
   wp.clone / wp.copy as copies and every outcome v of the host conditions, a field reported
   as restored holds its initial value after the run *)
Theorem C33_restored_sound :
  forall (tab : inplace_tab) (V : Type) (I : event -> store V -> store V) (v : string -> bool),
    frame_ok tab V I ->
  forall (s0 : store V) (evs : list event) (fields : list string),
    restored tab evs fields = true ->
    forall f, In f fields -> crun V I v evs s0 f = s0 f.
Proof. exact restored_sound. Qed.
Print Assumptions C33_restored_sound.

(* set_const(m, d) as extracted from /repo (sc_events = flatten program ... "set_const.set_const"):
   all 13 integration-state fields -- d.qpos included, which is overwritten by qpos0 and by
   qpos_spring in between and copied back from the clones -- are restored, with restore=True,
   with restore=False, and for each sub-function called on its own *)
Theorem C33_set_const_restores_state :
  forall (V : Type) (I : event -> store V -> store V) (v : string -> bool), frame_ok sc_inplace V I ->
  forall s f, In f sc_state_fields ->
    crun V I v sc_events s f = s f /\
    crun V I v sc_events_norestore s f = s f /\
    crun V I v sc0_events s f = s f /\
    crun V I v scspring_events s f = s f /\
    crun V I v scfixed_events s f = s f.
Proof. exact set_const_all_restore_state_thm. Qed.
Print Assumptions C33_set_const_restores_state.

Example C33_frame_ok_satisfiable : frame_ok sc_inplace nat (fun _ s => s).
Proof. exact frame_ok_exists. Qed.
(* the analysis is not vacuous: drop the copy-back events and d.qpos is no longer restored *)
Example C33_restore_needs_copy_back :
  restored sc_inplace (filter (fun e => negb (is_copy e)) sc_events) ["d.qpos"] = false.
Proof. exact restore_needs_copy_back. Qed.

(* structure of the extracted host code (all by vm_compute on Gen/Skel_pipeline.v):
   (a) the flattening ran to completion (no fuel exhaustion / missing callee);
   (b) restore=True = restore=False followed by the nine position stages (kinematics ..
       transmission): the derived Data fields are recomputed from the RESTORED d.qpos;
   (c) those stages write none of the state fields;
   (d) every Data field dirtied while d.qpos held qpos0 / qpos_spring is written again by them;
   (e) no host alias `x = d.<state field>`: names denote distinct buffers, as frame_ok assumes *)
Theorem C33_restore_structure :
  evs_ok sc_events && evs_ok sc_events_norestore && evs_ok sc0_events && evs_ok scspring_events
    && evs_ok scfixed_events && evs_ok restore_events = true /\
  sc_events = (sc_events_norestore ++ restore_events)%list /\
  forallb (fun f => negb (mem f (lws sc_inplace restore_events))) sc_state_fields = true /\
  dirty_not_recomputed sc_inplace = [] /\
  no_alias_of ("qpos_saved" :: sc_state_fields) sc_events = true.
Proof. exact sc_restore_structure. Qed.
Print Assumptions C33_restore_structure.
