(* Props/C38.v -- C38 "Compacted active-DOF solve is equivalent".
   Statements only; every proof is `exact <lemma of Proof/Compact.v>`.
   Model/Compact.v transcribes island._reset_compact_maps/_compact_dofs (update_active_dofs) and the
   gather/scatter kernels of solver.py; `_rescale` is the definition REGENERATED from solver.py
   (Gen/solver_term.v).  What is NOT proved here: that the Newton iteration run on the padded problem
   converges to its minimiser (the theorems say where that minimiser is), float32 rounding. *)
From Coq Require Import ZArith List Reals.
From VF Require Import Base.Scalar Base.ScalarR Model.Compact Proof.Compact Gen.solver_term.
Import ListNotations.

Section Z.
Local Open Scope Z_scope.

(* ---- compaction maps, no overflow: mutually inverse on the dofs of awake trees, order preserving,
        compacted ids fill [0, nact), -1 elsewhere ---- *)
Theorem C38_compact_maps_inverse :
  forall (ntree nv nvmax nvp ovf : Z) (adr num aw : list Z),
  0 <= nvmax <= nvp -> wf_trees ntree nv adr num ->
  let r := compact_dofs ntree adr num aw nvmax nv nvp ovf in
  let nact := Z.of_nat (length (awake_dofs ntree adr num aw)) in
  nact <= nvmax ->
  (forall d, awake_dof ntree adr num aw d ->
     0 <= cget (dof_cdof r) d < nact /\ cget (cdof_dof r) (cget (dof_cdof r) d) = d) /\
  (forall c, 0 <= c < nact ->
     awake_dof ntree adr num aw (cget (cdof_dof r) c) /\ cget (dof_cdof r) (cget (cdof_dof r) c) = c) /\
  (forall d, 0 <= d < nv -> ~ awake_dof ntree adr num aw d -> cget (dof_cdof r) d = -1) /\
  (forall c, nact <= c < nvp -> cget (cdof_dof r) c = -1) /\
  (forall d1 d2, awake_dof ntree adr num aw d1 -> awake_dof ntree adr num aw d2 -> d1 < d2 ->
     cget (dof_cdof r) d1 < cget (dof_cdof r) d2) /\
  ncdof r = nact.
Proof. exact compact_maps_inverse. Qed.
Print Assumptions C38_compact_maps_inverse.

(* ---- any capacity (overflow included): the maps pair the FIRST min(nact, nvmax) visited dofs ---- *)
Theorem C38_compact_maps_prefix :
  forall (ntree nv nvmax nvp ovf : Z) (adr num aw : list Z),
  0 <= nvmax <= nvp -> wf_trees ntree nv adr num ->
  let r := compact_dofs ntree adr num aw nvmax nv nvp ovf in
  let vs := awake_dofs ntree adr num aw in
  (forall k, (k < length vs)%nat -> Z.of_nat k < nvmax ->
     cget (cdof_dof r) (Z.of_nat k) = nth k vs 0 /\ cget (dof_cdof r) (nth k vs 0) = Z.of_nat k) /\
  (forall d, 0 <= d < nv -> (forall k, (k < length vs)%nat -> Z.of_nat k < nvmax -> nth k vs 0 <> d) ->
     cget (dof_cdof r) d = -1) /\
  (forall c, Z.min (Z.of_nat (length vs)) nvmax <= c < nvp -> cget (cdof_dof r) c = -1).
Proof. exact compact_maps_prefix. Qed.
Print Assumptions C38_compact_maps_prefix.

(* the visited dofs are exactly the dofs of the awake trees *)
Theorem C38_awake_dof_visited :
  forall (ntree : Z) (adr num aw : list Z) d,
  awake_dof ntree adr num aw d <-> In d (awake_dofs ntree adr num aw).
Proof. exact awake_dof_In. Qed.
Print Assumptions C38_awake_dof_visited.

(* ---- NVMAX overflow bit (entered clear) iff more active dofs than capacity; ncdof is clamped ---- *)
Theorem C38_nvmax_bit_iff :
  forall (ntree nv nvmax nvp ovf : Z) (adr num aw : list Z),
  0 <= nvmax <= nvp -> wf_trees ntree nv adr num -> Z.testbit ovf NVMAX_BIT = false ->
  (Z.testbit (overflow (compact_dofs ntree adr num aw nvmax nv nvp ovf)) NVMAX_BIT = true
   <-> Z.of_nat (length (awake_dofs ntree adr num aw)) > nvmax).
Proof. exact nvmax_bit_iff. Qed.
Print Assumptions C38_nvmax_bit_iff.

Theorem C38_overflow_word :
  forall (ntree nv nvmax nvp ovf : Z) (adr num aw : list Z),
  0 <= nvmax <= nvp -> wf_trees ntree nv adr num ->
  overflow (compact_dofs ntree adr num aw nvmax nv nvp ovf)
  = if Z.of_nat (length (awake_dofs ntree adr num aw)) >? nvmax then Z.lor ovf NVMAX else ovf.
Proof. exact overflow_word. Qed.
Print Assumptions C38_overflow_word.

Theorem C38_ncdof_is_min :
  forall (ntree nv nvmax nvp ovf : Z) (adr num aw : list Z),
  0 <= nvmax <= nvp -> wf_trees ntree nv adr num ->
  ncdof (compact_dofs ntree adr num aw nvmax nv nvp ovf) = Z.min (Z.of_nat (length (awake_dofs ntree adr num aw))) nvmax.
Proof. exact ncdof_is_min. Qed.
Print Assumptions C38_ncdof_is_min.

(* ---- the maps persist on Data: update_active_dofs first resets them over max(nv, nvmax_pad) tasks,
        which clears EVERY entry (dof_cdof is nv wide, nv may exceed nvmax_pad), so the result does not
        depend on the previous call and a tree that went to sleep loses its compacted ids ---- *)
Theorem C38_reset_maps_full :
  forall nv nvp dc0 cd0, 0 <= nv -> 0 <= nvp -> length dc0 = Z.to_nat nv -> length cd0 = Z.to_nat nvp ->
  reset_maps (reset_dim nv nvp) nv nvp dc0 cd0 = (repeat (-1) (Z.to_nat nv), repeat (-1) (Z.to_nat nvp)).
Proof. exact reset_maps_full. Qed.
Print Assumptions C38_reset_maps_full.

Theorem C38_update_active_dofs_stateless :
  forall ntree adr num aw nvmax nv nvp ovf dc0 cd0, 0 <= nv -> 0 <= nvp ->
  length dc0 = Z.to_nat nv -> length cd0 = Z.to_nat nvp ->
  update_active_dofs (reset_dim nv nvp) ntree adr num aw nvmax nv nvp ovf dc0 cd0
  = compact_dofs ntree adr num aw nvmax nv nvp ovf.
Proof. exact update_active_dofs_stateless. Qed.
Print Assumptions C38_update_active_dofs_stateless.

Theorem C38_sleeping_dofs_unmapped :
  forall ntree adr num aw nvmax nv nvp ovf dc0 cd0,
  0 <= nvmax <= nvp -> 0 <= nv -> wf_trees ntree nv adr num ->
  length dc0 = Z.to_nat nv -> length cd0 = Z.to_nat nvp ->
  Z.of_nat (length (awake_dofs ntree adr num aw)) <= nvmax ->
  forall d, 0 <= d < nv -> ~ awake_dof ntree adr num aw d ->
  cget (dof_cdof (update_active_dofs (reset_dim nv nvp) ntree adr num aw nvmax nv nvp ovf dc0 cd0)) d = -1.
Proof. exact sleeping_dofs_unmapped. Qed.
Print Assumptions C38_sleeping_dofs_unmapped.

(* regression witness: a reset launched over nvmax_pad tasks only (nv = 20 > 16) keeps a stale entry *)
Example C38_reset_over_nvmax_pad_only_keeps_stale_entry :
  cget (dof_cdof (update_active_dofs 16 2 [0; 14] [14; 6] [0; 0] 12 20 16 0 (repeat 5 20) (repeat 7 16))) 18 = 5
  /\ cget (dof_cdof (update_active_dofs (reset_dim 20 16) 2 [0; 14] [14; 6] [0; 0] 12 20 16 0 (repeat 5 20) (repeat 7 16))) 18 = -1.
Proof. exact reset_over_nvmax_pad_only_keeps_stale_entry. Qed.

(* ---- every tree awake, trees tile [0, nv), nv <= nvmax: both maps are the identity ---- *)
Theorem C38_all_active_identity :
  forall ntree nv nvmax nvp ovf adr num aw,
  0 <= nvmax <= nvp -> wf_trees ntree nv adr num -> tile_trees ntree nv adr num ->
  (forall t, 0 <= t < ntree -> cget aw t = 1) -> nv <= nvmax ->
  let r := compact_dofs ntree adr num aw nvmax nv nvp ovf in
  ncdof r = Z.max nv 0 /\ overflow r = ovf /\
  (forall d, 0 <= d < nv -> cget (dof_cdof r) d = d /\ cget (cdof_dof r) d = d) /\
  (forall c, nv <= c < nvp -> 0 <= c -> cget (cdof_dof r) c = -1).
Proof. exact all_active_identity. Qed.
Print Assumptions C38_all_active_identity.

(* ---- what _compact_gather builds: identity / zero on the padding [ncdof, nvmax_pad) ---- *)
Theorem C38_compact_inertia_padding :
  forall (T : Type) (zero one : T) (ntree nv nvmax nvp ovf : Z) (adr num aw : list Z),
  0 <= nvmax <= nvp -> wf_trees ntree nv adr num ->
  forall (rownnz rowadr colind : list Z) (M : list T),
  (forall t k, 0 <= t < nv -> 0 <= k < cget rownnz t -> 0 <= cget colind (cget rowadr t + k) < nv) ->
  let r := compact_dofs ntree adr num aw nvmax nv nvp ovf in
  forall i j, 0 <= i < nvp -> 0 <= j < nvp -> (ncdof r <= i \/ ncdof r <= j) ->
  mget zero (compact_inertia zero one nv nvp (ncdof r) rownnz rowadr colind M (dof_cdof r)) i j
  = if i =? j then one else zero.
Proof. exact (@compact_inertia_padding). Qed.
Print Assumptions C38_compact_inertia_padding.

Theorem C38_compact_J_dense_padding :
  forall (T : Type) (zero : T) (ntree nv nvmax nvp ovf : Z) (adr num aw : list Z),
  0 <= nvmax <= nvp -> wf_trees ntree nv adr num ->
  forall (njmax nefc : Z) (J : list (list T)) (e j : Z),
  let r := compact_dofs ntree adr num aw nvmax nv nvp ovf in
  0 <= e -> 0 <= j -> ncdof r <= j ->
  mget zero (gather_J_dense zero njmax nefc nv nvp (dof_cdof r) J) e j = zero.
Proof. exact (@compact_J_dense_padding). Qed.
Print Assumptions C38_compact_J_dense_padding.

Theorem C38_compact_J_sparse_padding :
  forall (T : Type) (zero : T) (ntree nv nvmax nvp ovf : Z) (adr num aw : list Z),
  0 <= nvmax <= nvp -> wf_trees ntree nv adr num ->
  forall (njmax nefc : Z) (rownnz rowadr colind : list Z) (J : list T),
  (forall e k, 0 <= e < njmax -> 0 <= k < cget rownnz e -> 0 <= cget colind (cget rowadr e + k) < nv) ->
  let r := compact_dofs ntree adr num aw nvmax nv nvp ovf in
  forall e j, 0 <= e -> 0 <= j -> ncdof r <= j ->
  mget zero (gather_J_sparse zero njmax nefc nvp (dof_cdof r) rownnz rowadr colind J) e j = zero.
Proof. exact (@compact_J_sparse_padding). Qed.
Print Assumptions C38_compact_J_sparse_padding.

Theorem C38_compact_vec_padding :
  forall (T : Type) (zero : T) (ntree nv nvmax nvp ovf : Z) (adr num aw : list Z),
  0 <= nvmax <= nvp -> wf_trees ntree nv adr num ->
  let r := compact_dofs ntree adr num aw nvmax nv nvp ovf in
  forall (v : list T) (c : Z), ncdof r <= c < nvp -> 0 <= c ->
  cgetd zero (gather_vec zero nvp (cdof_dof r) v) c = zero.
Proof. exact (@compact_vec_padding). Qed.
Print Assumptions C38_compact_vec_padding.

(* ---- frozen dofs: the scatter writes exactly zero on every dof of a tree that is not awake ---- *)
Theorem C38_frozen_zero :
  forall (T : Type) (zero : T) (ntree nv nvmax nvp ovf : Z) (adr num aw : list Z),
  0 <= nvmax <= nvp -> wf_trees ntree nv adr num ->
  forall (x : list T) (d : Z), 0 <= d < nv -> ~ awake_dof ntree adr num aw d ->
  cgetd zero (scatter_vec zero nv (dof_cdof (compact_dofs ntree adr num aw nvmax nv nvp ovf)) x) d = zero.
Proof. exact (@frozen_zero). Qed.
Print Assumptions C38_frozen_zero.

(* ... and gives an awake dof the compacted entry that was gathered from it *)
Theorem C38_scatter_gather_roundtrip :
  forall (T : Type) (zero : T) (ntree nv nvmax nvp ovf : Z) (adr num aw : list Z),
  0 <= nvmax <= nvp -> wf_trees ntree nv adr num ->
  let r := compact_dofs ntree adr num aw nvmax nv nvp ovf in
  forall (v : list T) (d : Z),
  Z.of_nat (length (awake_dofs ntree adr num aw)) <= nvmax -> awake_dof ntree adr num aw d ->
  cgetd zero (scatter_vec zero nv (dof_cdof r) (gather_vec zero nvp (cdof_dof r) v)) d = cgetd zero v d.
Proof. exact (@scatter_gather_roundtrip). Qed.
Print Assumptions C38_scatter_gather_roundtrip.

Theorem C38_nvmax_pad_spec :
  forall nvmax : Z, 0 <= nvmax ->
  nvmax < nvmax_pad nvmax /\ nvmax_pad nvmax <= Z.max nvmax 1 + 16 /\ (nvmax_pad nvmax) mod 16 = 0.
Proof. exact nvmax_pad_spec. Qed.
Print Assumptions C38_nvmax_pad_spec.
End Z.

Local Open Scope R_scope.

(* ---- the padded problem separates: for a matrix that is the identity on the padding, a linear term
        and constraint rows that vanish there, and ANY row cost S (no convexity needed):
        cost_padded(x) = cost_active(x restricted to [0,n)) + 1/2 |padding of x|^2 ---- *)
Theorem C38_padded_problem_separable :
  forall (n p : nat) (M : nat -> nat -> R) (b : nat -> R) (J : list (nat -> R)) (S : list R -> R),
  (forall i j, (i < n + p)%nat -> (j < n + p)%nat -> (n <= i \/ n <= j)%nat -> M i j = if Nat.eqb i j then 1 else 0) ->
  (forall i, (n <= i < n + p)%nat -> b i = 0) ->
  (forall row, In row J -> forall j, (n <= j < n + p)%nat -> row j = 0) ->
  forall x, costN M b J S (n + p) x = costN M b J S n x + / 2 * rsum (fun k => x (n + k)%nat * x (n + k)%nat) p.
Proof. exact padded_problem_separable. Qed.
Print Assumptions C38_padded_problem_separable.

(* so zeroing the padding never increases the cost and every minimiser has zero padding ... *)
Theorem C38_padded_minimiser_has_zero_padding :
  forall (n p : nat) (M : nat -> nat -> R) (b : nat -> R) (J : list (nat -> R)) (S : list R -> R),
  (forall i j, (i < n + p)%nat -> (j < n + p)%nat -> (n <= i \/ n <= j)%nat -> M i j = if Nat.eqb i j then 1 else 0) ->
  (forall i, (n <= i < n + p)%nat -> b i = 0) ->
  (forall row, In row J -> forall j, (n <= j < n + p)%nat -> row j = 0) ->
  forall x, costN M b J S (n + p) (pad0 n x) <= costN M b J S (n + p) x /\
            (costN M b J S (n + p) (pad0 n x) = costN M b J S (n + p) x -> forall k, (k < p)%nat -> x (n + k)%nat = 0).
Proof. exact padded_minimiser_has_zero_padding. Qed.
Print Assumptions C38_padded_minimiser_has_zero_padding.

(* ... and (argmin of the active cost, 0) minimises the padded cost *)
Theorem C38_padded_argmin :
  forall (n p : nat) (M : nat -> nat -> R) (b : nat -> R) (J : list (nat -> R)) (S : list R -> R),
  (forall i j, (i < n + p)%nat -> (j < n + p)%nat -> (n <= i \/ n <= j)%nat -> M i j = if Nat.eqb i j then 1 else 0) ->
  (forall i, (n <= i < n + p)%nat -> b i = 0) ->
  (forall row, In row J -> forall j, (n <= j < n + p)%nat -> row j = 0) ->
  forall a, (forall y, costN M b J S n a <= costN M b J S n y) ->
  forall x, costN M b J S (n + p) (pad0 n a) <= costN M b J S (n + p) x.
Proof. exact padded_argmin. Qed.
Print Assumptions C38_padded_argmin.

(* the same, for the arrays the MODEL of _compact_gather produces (dense J path) from any tree tables,
   awake mask, sparse inertia and Jacobian: the hypotheses of the separability theorem are met *)
Theorem C38_compact_gather_separable :
  forall (ntree nv nvmax nvp ovf : Z) (adr num aw rownnz rowadr colind : list Z) (Mv : list R)
         (njmax nefc : Z) (Jd : list (list R)) (qfrc : list R) (S : list R -> R) (x : nat -> R),
  (0 <= nvmax <= nvp)%Z -> wf_trees ntree nv adr num ->
  (forall t k, (0 <= t < nv)%Z -> (0 <= k < cget rownnz t)%Z -> (0 <= cget colind (cget rowadr t + k) < nv)%Z) ->
  let r := compact_dofs ntree adr num aw nvmax nv nvp ovf in
  let n := Z.to_nat (ncdof r) in
  let p := (Z.to_nat nvp - n)%nat in
  let cM := compact_inertia 0 1 nv nvp (ncdof r) rownnz rowadr colind Mv (dof_cdof r) in
  let cb := gather_vec 0 nvp (cdof_dof r) qfrc in
  let cJ := gather_J_dense 0 njmax nefc nv nvp (dof_cdof r) Jd in
  let Mf := fun i j => mget 0 cM (Z.of_nat i) (Z.of_nat j) in
  let bf := fun i => cgetd 0 cb (Z.of_nat i) in
  let Jf := map (fun e => fun j => mget 0 cJ e (Z.of_nat j)) (zseq njmax) in
  costN Mf bf Jf S (n + p) x = costN Mf bf Jf S n x + / 2 * rsum (fun k => x (n + k)%nat * x (n + k)%nat) p.
Proof. exact compact_gather_separable. Qed.
Print Assumptions C38_compact_gather_separable.

(* ---- tolerances (solve_compact rescales the CURRENT m.opt.tolerance per world, ls_tolerance untouched):
        with nv := nvmax_pad and tolerance := compact_tolerance tol nv nvmax_pad = tol * (nv / nvmax_pad)
        the termination tests of the compact solve are those of the full solve
        (over R; _rescale regenerated from solver.py) ---- *)
Theorem C38_compact_tolerance_equiv :
  forall (nv nvp : Z) (mi value tol : R), (0 < nv)%Z -> (0 < nvp)%Z -> 0 < mi ->
  (sltb (_rescale nvp mi value) (compact_tolerance tol nv nvp) = true <-> sltb (_rescale nv mi value) tol = true).
Proof. exact compact_tolerance_equiv. Qed.
Print Assumptions C38_compact_tolerance_equiv.

(* ... and so is the linesearch gradient tolerance max(tol * ls_tol * snorm * meaninertia * nv, 1e-6) *)
Theorem C38_compact_ls_gtol_equiv :
  forall (nv nvp : Z) (mi tol lstol snorm : R), (0 < nvp)%Z ->
  ls_gtol nvp mi (compact_tolerance tol nv nvp) lstol snorm = ls_gtol nv mi tol lstol snorm.
Proof. exact compact_ls_gtol_equiv. Qed.
Print Assumptions C38_compact_ls_gtol_equiv.

(* regression witness (the repaired defect): rescaling ls_tolerance as well would break that equality *)
Theorem C38_ls_tolerance_must_not_be_rescaled :
  exists (nv nvp : Z) (mi tol lstol snorm : R),
  (0 < nv)%Z /\ nvp = nvmax_pad nv /\ 0 < mi /\
  ls_gtol nvp mi (compact_tolerance tol nv nvp) (compact_tolerance lstol nv nvp) snorm <> ls_gtol nv mi tol lstol snorm.
Proof. exact ls_tolerance_must_not_be_rescaled. Qed.
Print Assumptions C38_ls_tolerance_must_not_be_rescaled.

(* ---- a world without constraint rows over a sparse full model: with the flag _solve passes
        (m.is_sparse or _sparse_compact(ctx)) the compacted qfrc_constraint workspace (wp.empty) is
        overwritten with zeros whatever it held; with the shadow model's own flag it would survive ---- *)
Theorem C38_nefc0_workspace_overwritten :
  forall (T : Type) (zero : T) warmstart (ws sm garbage : list T) i d, (i < length garbage)%nat ->
  nth i (snd (solve_init_dof zero warmstart (init_dof_sparse_flag false true) 0 ws sm garbage)) d = zero.
Proof. exact (@nefc0_workspace_overwritten). Qed.
Print Assumptions C38_nefc0_workspace_overwritten.

Theorem C38_nefc0_dense_flag_keeps_workspace :
  forall (T : Type) (zero : T) warmstart (ws sm garbage : list T),
  snd (solve_init_dof zero warmstart false 0 ws sm garbage) = garbage.
Proof. exact (@nefc0_dense_flag_keeps_workspace). Qed.
Print Assumptions C38_nefc0_dense_flag_keeps_workspace.

(* non-vacuity: the tree tables of a 4-tree model satisfy wf_trees / tile_trees; maps with tree 1 asleep *)
Example C38_example :
  obs_compact (compact_dofs 4 [0;2;8;14]%Z [2;6;6;1]%Z [1;0;1;1]%Z 9 15 16 0)
  = ([9; 0] ++ [0;1;-1;-1;-1;-1;-1;-1;2;3;4;5;6;7;8] ++ [0;1;8;9;10;11;12;13;14;-1;-1;-1;-1;-1;-1;-1])%Z
  /\ wf_trees 4 15 [0;2;8;14]%Z [2;6;6;1]%Z /\ tile_trees 4 15 [0;2;8;14]%Z [2;6;6;1]%Z.
Proof. exact compact_example. Qed.
