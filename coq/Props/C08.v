(* Props/C08.v -- C08 "Time integration agrees with MuJoCo C".
   Statements only; every proof is `exact <lemma of Proof/Integrate.v>`.
   The model (Model/Integrate.v) is a transcription of forward.py's _next_position,
   _next_velocity, _next_activation (non-DCMOTOR), _advance, euler, rungekutta4 over an ABSTRACT
   forward(); quat_integrate is the definition REGENERATED from math.py (Gen/math.v); the stage
   order is tied to forward.py by the facts at the end (regenerated skeleton Gen/Skel_pipeline.v);
   the kernels are tied to the model by the correspondence check of bin/props/C08.py.
   NOT proved here: agreement of forward() itself, of the implicit linear solves (C27/C06) and
   float32 rounding - those are covered by the differential oracle against mujoco.mj_step. *)
From Coq Require Import ZArith Reals List.
From Coq Require String.
Import Coq.Strings.String.StringSyntax.
From VF Require Import Base.Scalar Base.ScalarR Base.Vec Base.Kernel Gen.math Proof.Rot Model.Integrate
  Model.Pipeline Model.IntegrateFacts Proof.Integrate.
From VF Require Gen.kforward Gen.support_act.
Import ListNotations.
Local Open Scope R_scope.

(* _advance(m, d, qacc) - used by euler (with or without implicit damping), implicit, implicitfast
   with their respective qacc: qvel' = qvel + h qacc; qpos' = integrate(qpos, qvel') with the NEW
   velocity (semi-implicit); act' = next_act; time' = time + h; warmstart' = d.qacc *)
Theorem C08_advance_update :
  forall (m : model R) (d : data R) (qa : list R),
    let h := timestep m in
    let d' := advance m d qa None in
    qvel d' = vmap2 (fun v a => v + h * a) (qvel d) qa /\
    qpos d' = next_position_inplace h 1 (joints m) (qpos d) (qvel d') /\
    act d' = next_activation_inplace h (acts m) (act d) (act_dot d) 1 true /\
    time d' = time d + h /\
    warmstart d' = qacc d.
Proof. exact advance_update. Qed.
Print Assumptions C08_advance_update.

Theorem C08_euler_update :
  forall (m : model R) (d : data R),
    let h := timestep m in
    let d' := euler_step m d in
    qvel d' = vmap2 (fun v a => v + h * a) (qvel d) (qacc d) /\
    qpos d' = next_position_inplace h 1 (joints m) (qpos d) (qvel d') /\
    act d' = next_activation_inplace h (acts m) (act d) (act_dot d) 1 true /\
    time d' = time d + h /\
    warmstart d' = qacc d.
Proof. exact euler_update. Qed.
Print Assumptions C08_euler_update.

(* _next_position on a well-formed qpos layout (slots in range, pairwise disjoint), for EVERY old
   qpos (unnormalised or zero quaternions), velocity, scale and timestep: free/ball quaternion slots
   of the result are unit; free positions and hinge/slide slots move by h v scale *)
Theorem C08_next_position_unit :
  forall (h scale : R) (joints : list joint) (qin v out : list R),
    layout_ok (length out) joints ->
    let r := next_position h scale joints qin v out in
    forall j, In j joints ->
      let a := qposadr j in let d := dofadr j in
      (jtype j = 0%Z ->
         nrm2 [vget r (a + 3); vget r (a + 4); vget r (a + 5); vget r (a + 6)] = 1 /\
         vget r a = vget qin a + h * (vget v d * scale) /\
         vget r (a + 1) = vget qin (a + 1) + h * (vget v (d + 1) * scale) /\
         vget r (a + 2) = vget qin (a + 2) + h * (vget v (d + 2) * scale)) /\
      (jtype j = 1%Z -> nrm2 [vget r a; vget r (a + 1); vget r (a + 2); vget r (a + 3)] = 1) /\
      (jtype j <> 0%Z -> jtype j <> 1%Z -> vget r a = vget qin a + h * vget v d * scale).
Proof. exact next_position_unit. Qed.
Print Assumptions C08_next_position_unit.

(* _advance launches _next_position with d.qpos as input AND output; on a well-formed layout this
   is the same function as the launch on a separate copy (so the theorem above applies to it) *)
Theorem C08_next_position_inplace :
  forall (h scale : R) (joints : list joint) (q v : list R),
    layout_ok (length q) joints ->
    next_position_inplace h scale joints q v = next_position h scale joints q v q.
Proof. exact next_position_inplace_unit. Qed.
Print Assumptions C08_next_position_inplace.

(* rungekutta4 (preceded by step()'s forward) on a hinge/slide model with plain actuators equals
   the classical RK4 method x + h/6 (k1 + 2 k2 + 2 k3 + k4), k_i = f(t0 + c_i h, x + a_i h k_(i-1)),
   c = (0, 1/2, 1/2, 1), for the time-dependent field (qvel, qacc, act_dot) given by forward():
   stage i is evaluated at time t0 + c_i h (kernel _rk_stage_time); time advances by h *)
Theorem C08_rk4_is_classical :
  forall (m : model R) fwd (n na : nat) (d : data R),
    hinge_slide_layout n (joints m) -> plain_acts na (acts m) -> fwd_shape fwd ->
    length (qpos d) = n -> length (qvel d) = n -> length (act d) = na ->
    let d' := step_rk4 m fwd d in
    (qpos d', qvel d', act d') = classical_rk4 fwd (timestep m) (time d) (qpos d, qvel d, act d)
    /\ time d' = time d + timestep m.
Proof. exact rk4_is_classical. Qed.
Print Assumptions C08_rk4_is_classical.

(* worked time-dependent instance (formerly the refutation witness of finding
   C08:rk4:stage-time-not-advanced, repaired in /repo): qacc = time, h = 1, from rest gives the
   exact v = 1/2; a method evaluating all stages at t0 would give 0.  The real code is exercised
   on a delayed control by the directed regression case of bin/props/C08.py. *)
Theorem C08_rk4_time_dependent_example :
  qvel (step_rk4 ex_model ex_fwd ex_data) = [1 / 2].
Proof. exact rk4_time_dependent_example. Qed.
Print Assumptions C08_rk4_time_dependent_example.

(* non-vacuity of the hypotheses *)
Example C08_layout_ok_example :
  layout_ok 12 [ {| jtype := 0; qposadr := 0; dofadr := 0 |}; {| jtype := 1; qposadr := 7; dofadr := 6 |};
                 {| jtype := 3; qposadr := 11; dofadr := 9 |} ].
Proof. exact layout_ok_example. Qed.
Example C08_rk4_hypotheses_example :
  hinge_slide_layout 2 [ {| jtype := 3; qposadr := 0; dofadr := 0 |}; {| jtype := 2; qposadr := 1; dofadr := 1 |} ]
  /\ plain_acts 1 [ {| dyntype := 2%Z; actadr := 0%Z; actnum := 1%Z; dynprm0 := 1; rlo := 0; rhi := 0; actlimited := false |} ]
  /\ fwd_shape (fun q v a t => (v, a)).
Proof. exact rk4_hypotheses_example. Qed.

Local Open Scope string_scope.

(* ---- T tie: the model's kernels ARE the machine translations of forward.py / support.py --------- *)
Theorem C08_next_position_is_kernel :
  forall (w jid : Z) (h scale : R) (jnt_type jnt_qposadr jnt_dofadr : Z -> Z)
         (qpos qvel : list R) (qpos_out : Z -> Z -> R) (orc : nat -> Z) (ts : Z -> R) (nts : Z),
    ts (Z.rem w nts) = h ->
    Gen.kforward.k__next_position w jid ts jnt_type jnt_qposadr jnt_dofadr
        (fun _ i => vget qpos i) (fun _ i => vget qvel i) scale qpos_out orc nts
    = map (fun p => mkW "qpos_out" [w; fst p] KSet (VS (snd p)))
          (npos_writes h scale qvel qpos
             {| jtype := jnt_type jid; qposadr := jnt_qposadr jid; dofadr := jnt_dofadr jid |}).
Proof. exact npos_writes_is_kernel. Qed.
Print Assumptions C08_next_position_is_kernel.

Theorem C08_next_velocity_is_kernel :
  forall (w i : Z) (h scale : R) (qvel qacc : list R) (out : Z -> Z -> R) (orc : nat -> Z) (ts : Z -> R) (nts : Z),
    ts (Z.rem w nts) = h ->
    (0 <= i < Z.of_nat (length qvel))%Z -> (0 <= i < Z.of_nat (length qacc))%Z ->
    Gen.kforward.k__next_velocity w i ts (fun _ k => vget qvel k) (fun _ k => vget qacc k) scale out orc nts
    = [mkW "qvel_out" [w; i] KSet (VS (vget (next_velocity h qvel qacc scale) i))].
Proof. exact next_velocity_is_kernel. Qed.
Print Assumptions C08_next_velocity_is_kernel.

Theorem C08_next_act_is_translated :
  forall (h : R) (dyn : Z) (prm : list R) (lo hi a ad s : R) (c : bool),
    Gen.support_act.next_act h dyn prm [lo; hi] a ad s c = next_act h dyn (vget prm 0) lo hi a ad s c.
Proof. exact next_act_is_translated. Qed.
Print Assumptions C08_next_act_is_translated.


(* ---- euler(): implicit polynomial joint damping ------------------------------------------------- *)
(* the kernel _compute_damping_deriv (machine translation) stores the model's damping_deriv, i.e.
   _poly_force_deriv with flg_odd = 1 (|v|) ... *)
Theorem C08_compute_damping_deriv_is_kernel :
  forall (w i : Z) (damp : Z -> Z -> R) (dpoly : Z -> Z -> list R) (qvel out : Z -> Z -> R)
         (orc : nat -> Z) (n1 n2 : Z) (p0 p1 : R),
    dpoly (Z.rem w n2) i = [p0; p1] ->
    Gen.kforward.k__compute_damping_deriv w i damp dpoly qvel out orc n1 n2
    = [mkW "deriv_out" [w; i] KSet (VS (damping_deriv (damp (Z.rem w n1) i) p0 p1 (qvel w i)))].
Proof. exact compute_damping_deriv_is_kernel. Qed.
Print Assumptions C08_compute_damping_deriv_is_kernel.

(* ... and _euler_damp_qfrc adds timestep * deriv to entry rowadr + rownnz - 1 (the diagonal) of the cloned M *)
Theorem C08_euler_damp_qfrc_is_kernel :
  forall (w t : Z) (ts : Z -> R) (h : R) (rownnz rowadr : Z -> Z) (deriv M : Z -> Z -> R) (orc : nat -> Z) (nts : Z),
    ts (Z.rem w nts) = h ->
    let adr := (rowadr t + rownnz t - 1)%Z in
    Gen.kforward.k__euler_damp_qfrc w t ts rownnz rowadr deriv M orc nts
    = [mkW "M_integration_out" [w; adr] KSet (VS (M w adr + h * deriv w t))].
Proof. exact euler_damp_qfrc_is_kernel. Qed.
Print Assumptions C08_euler_damp_qfrc_is_kernel.

(* the damper derivative for every velocity, negative included: d + 2 p0 |v| + 3 p1 v^2; it is even in v
   and is the slope of the damper force v (d + p0 |v| + p1 v^2) on either side of 0 *)
Theorem C08_damping_deriv_formula :
  forall d p0 p1 v : R, damping_deriv d p0 p1 v = d + 2 * p0 * Rabs v + 3 * p1 * (v * v).
Proof. exact damping_deriv_formula. Qed.
Print Assumptions C08_damping_deriv_formula.
Theorem C08_damping_deriv_even :
  forall d p0 p1 v : R, damping_deriv d p0 p1 (- v) = damping_deriv d p0 p1 v.
Proof. exact damping_deriv_even. Qed.
Print Assumptions C08_damping_deriv_even.
Theorem C08_damping_deriv_is_slope_neg :
  forall d p0 p1 v : R, v < 0 ->
    derivable_pt_lim (fun x => x * (d + p0 * (- x) + p1 * (x * x))) v (damping_deriv d p0 p1 v).
Proof. exact damping_deriv_is_slope_neg. Qed.
Print Assumptions C08_damping_deriv_is_slope_neg.
Theorem C08_damping_deriv_is_slope_pos :
  forall d p0 p1 v : R, 0 < v ->
    derivable_pt_lim (fun x => x * (d + p0 * x + p1 * (x * x))) v (damping_deriv d p0 p1 v).
Proof. exact damping_deriv_is_slope_pos. Qed.
Print Assumptions C08_damping_deriv_is_slope_pos.

(* ---- S tie: forward.py's host code has the stage order the model copies ---------------------- *)
Local Open Scope string_scope.

Theorem C08_advance_order :
  flat_of false no_val "forward._advance" ["m"; "d"; "qacc"] = advance_events "qacc"
  /\ advance_params = advance_params_expected.
Proof. exact advance_order_fact. Qed.
Print Assumptions C08_advance_order.

Theorem C08_euler_order : flat_of true no_val "forward.euler" ["m"; "d"] = euler_events.
Proof. exact euler_order_fact. Qed.
Print Assumptions C08_euler_order.

Theorem C08_implicit_order : flat_of true no_val "forward.implicit" ["m"; "d"] = implicit_events.
Proof. exact implicit_order_fact. Qed.
Print Assumptions C08_implicit_order.

Theorem C08_rk4_order : flat_of true no_val "forward.rungekutta4" ["m"; "d"] = rk4_events.
Proof. exact rk4_order_fact. Qed.
Print Assumptions C08_rk4_order.

Theorem C08_step_order : flat_of true no_val "forward.step" ["m"; "d"] = step_events.
Proof. exact step_order_fact. Qed.
Print Assumptions C08_step_order.

Theorem C08_rk4_forward_count :
  count_in "forward.forward" step_rk4_flat = 4%nat /\ evs_ok step_rk4_flat = true /\
  count_in "forward._advance" (flat_of true val_rk4 "forward.step" ["m"; "d"]) = 0%nat /\
  count_in "forward._advance" (flat_of true no_val "forward.rungekutta4" ["m"; "d"]) = 1%nat.
Proof. exact rk4_forward_count_fact. Qed.
Print Assumptions C08_rk4_forward_count.
