(* Props/C23.v -- C23 "Rotations stay valid".
   Statements only; every proof is `exact <lemma of Proof/Rot.v>`.  The functions
   named here (qnormalize excepted, which is Base/Vec.v's copy of wp.normalize) are
   the definitions REGENERATED from /repo/mujoco_warp/_src/math.py in Gen/math.v. *)
From Coq Require Import ZArith Reals List.
From VF Require Import Base.Scalar Base.ScalarR Base.Vec Gen.math Proof.Rot.
Import ListNotations.
Local Open Scope R_scope.

(* wp.normalize on a quaternion returns a unit quaternion for EVERY input, zero included *)
Theorem C23_normalize_quat_unit :
  forall a b c d : R, nrm2 (qnormalize (q4 a b c d)) = 1.
Proof. exact qnormalize_unit. Qed.
Print Assumptions C23_normalize_quat_unit.

(* the quaternion written back by _next_position has unit norm for every old
   quaternion q (unnormalised, zero), every angular velocity v (zero, huge) and dt *)
Theorem C23_quat_integrate_unit :
  forall (q v : list R) (dt : R), nrm2 (quat_integrate q v dt) = 1.
Proof. exact quat_integrate_unit. Qed.
Print Assumptions C23_quat_integrate_unit.

(* quaternion product is norm-multiplicative: products of unit quaternions stay unit
   (body frames xquat are such products along the kinematic chain) *)
Theorem C23_mul_quat_norm :
  forall a b c d e f g h : R,
    nrm2 (mul_quat (q4 a b c d) (q4 e f g h)) = nrm2 (q4 a b c d) * nrm2 (q4 e f g h).
Proof. exact mul_quat_norm. Qed.
Print Assumptions C23_mul_quat_norm.

Theorem C23_axis_angle_unit :
  forall x y z t : R, x*x + y*y + z*z = 1 -> nrm2 (axis_angle_to_quat [x; y; z] t) = 1.
Proof. exact axis_angle_unit. Qed.
Print Assumptions C23_axis_angle_unit.

(* reported orientation matrices: quat_to_mat of a unit quaternion is a proper rotation *)
Theorem C23_quat_to_mat_orthonormal :
  forall a b c d : R, nrm2 (q4 a b c d) = 1 ->
    mat_mat 3 3 3 (mtranspose 3 3 (quat_to_mat (q4 a b c d))) (quat_to_mat (q4 a b c d)) = I3.
Proof. exact quat_to_mat_orthonormal. Qed.
Print Assumptions C23_quat_to_mat_orthonormal.

Theorem C23_quat_to_mat_det :
  forall a b c d : R, nrm2 (q4 a b c d) = 1 -> mdet3 (quat_to_mat (q4 a b c d)) = 1.
Proof. exact quat_to_mat_det. Qed.
Print Assumptions C23_quat_to_mat_det.

(* non-vacuity: the hypotheses are met by a concrete non-trivial quaternion *)
Example C23_unit_exists : nrm2 (q4 (3/5) 0 (4/5) 0) = 1.
Proof. rewrite nrm2_q4. field. Qed.
