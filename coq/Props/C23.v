(* Props/C23.v -- C23 "Rotations stay valid".
   Statements only; every proof is `exact <lemma of Proof/Rot.v>`.  The functions
   named here (qnormalize excepted, which is Base/Vec.v's copy of wp.normalize) are
   the definitions REGENERATED from /repo/mujoco_warp/_src/math.py in Gen/math.v. *)
From Coq Require Import ZArith Reals List.
From Coq Require Import String.
From VF Require Import Base.Scalar Base.ScalarR Base.Vec Base.Kernel Gen.math Gen.kforward Proof.Rot Proof.NextPos.
Import ListNotations.
Local Open Scope R_scope.

(* wp.normalize on a quaternion returns a unit quaternion for EVERY input, zero included *)
Theorem C23_normalize_quat_unit :
  forall a b c d : R, nrm2 (qnormalize (q4 a b c d)) = 1.
Proof. exact qnormalize_unit. Qed.
Print Assumptions C23_normalize_quat_unit.

(* the quaternion written back by _next_position has unit norm for every old
   quaternion q (unnormalised, zero), every angular velocity v (zero, huge) and dt *)
Theorem C23_quat_integrate_unit :
  forall (q v : list R) (dt : R), nrm2 (quat_integrate q v dt) = 1.
Proof. exact quat_integrate_unit. Qed.
Print Assumptions C23_quat_integrate_unit.

(* quaternion product is norm-multiplicative: products of unit quaternions stay unit
   (body frames xquat are such products along the kinematic chain) *)
Theorem C23_mul_quat_norm :
  forall a b c d e f g h : R,
    nrm2 (mul_quat (q4 a b c d) (q4 e f g h)) = nrm2 (q4 a b c d) * nrm2 (q4 e f g h).
Proof. exact mul_quat_norm. Qed.
Print Assumptions C23_mul_quat_norm.

Theorem C23_axis_angle_unit :
  forall x y z t : R, x*x + y*y + z*z = 1 -> nrm2 (axis_angle_to_quat [x; y; z] t) = 1.
Proof. exact axis_angle_unit. Qed.
Print Assumptions C23_axis_angle_unit.

(* reported orientation matrices: quat_to_mat of a unit quaternion is a proper rotation *)
Theorem C23_quat_to_mat_orthonormal :
  forall a b c d : R, nrm2 (q4 a b c d) = 1 ->
    mat_mat 3 3 3 (mtranspose 3 3 (quat_to_mat (q4 a b c d))) (quat_to_mat (q4 a b c d)) = I3.
Proof. exact quat_to_mat_orthonormal. Qed.
Print Assumptions C23_quat_to_mat_orthonormal.

Theorem C23_quat_to_mat_det :
  forall a b c d : R, nrm2 (q4 a b c d) = 1 -> mdet3 (quat_to_mat (q4 a b c d)) = 1.
Proof. exact quat_to_mat_det. Qed.
Print Assumptions C23_quat_to_mat_det.

(* KERNEL level: the task function translated from forward._next_position (Gen/kforward.v).
   For a free joint (type 0) the values it stores into qpos slots adr+3..adr+6 of its world
   form a unit quaternion - for every model array, state, velocity scale and timestep;
   likewise slots adr..adr+3 for a ball joint (type 1). *)
Theorem C23_next_position_free_quat_unit :
  forall (w j : Z) (opt_timestep : Z -> R) (jnt_type jnt_qposadr jnt_dofadr : Z -> Z)
         (qpos_in qvel_in : Z -> Z -> R) (scale : R) (qpos_out : Z -> Z -> R) (orc : nat -> Z) (nts : Z),
    jnt_type j = 0%Z ->
    let ws := k__next_position w j opt_timestep jnt_type jnt_qposadr jnt_dofadr qpos_in qvel_in scale qpos_out orc nts in
    let adr := jnt_qposadr j in
    exists a b c d,
      stored ws "qpos_out" [w; (adr + 3)%Z] = Some a /\ stored ws "qpos_out" [w; (adr + 4)%Z] = Some b /\
      stored ws "qpos_out" [w; (adr + 5)%Z] = Some c /\ stored ws "qpos_out" [w; (adr + 6)%Z] = Some d /\
      nrm2 (q4 a b c d) = 1.
Proof. exact next_position_free_quat_unit. Qed.
Print Assumptions C23_next_position_free_quat_unit.

Theorem C23_next_position_ball_quat_unit :
  forall (w j : Z) (opt_timestep : Z -> R) (jnt_type jnt_qposadr jnt_dofadr : Z -> Z)
         (qpos_in qvel_in : Z -> Z -> R) (scale : R) (qpos_out : Z -> Z -> R) (orc : nat -> Z) (nts : Z),
    jnt_type j = 1%Z ->
    let ws := k__next_position w j opt_timestep jnt_type jnt_qposadr jnt_dofadr qpos_in qvel_in scale qpos_out orc nts in
    let adr := jnt_qposadr j in
    exists a b c d,
      stored ws "qpos_out" [w; (adr + 0)%Z] = Some a /\ stored ws "qpos_out" [w; (adr + 1)%Z] = Some b /\
      stored ws "qpos_out" [w; (adr + 2)%Z] = Some c /\ stored ws "qpos_out" [w; (adr + 3)%Z] = Some d /\
      nrm2 (q4 a b c d) = 1.
Proof. exact next_position_ball_quat_unit. Qed.
Print Assumptions C23_next_position_ball_quat_unit.

(* non-vacuity: the hypotheses are met by a concrete non-trivial quaternion *)
Example C23_unit_exists : nrm2 (q4 (3/5) 0 (4/5) 0) = 1.
Proof. rewrite nrm2_q4. field. Qed.
