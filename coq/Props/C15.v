(* Props/C15.v -- C15 "State get/set is MuJoCo-compatible and lossless".
   Statements only; every proof is `exact <lemma of Proof/StateCodec.v>`.
   get_row / set_row / get_state / set_state are the hand-written executable model of
   support.py's _get_state / _set_state kernels and their Python wrappers
   (Model/StateCodec.v); bin/props/C15.py ties the model to the real functions on every
   run.  V is an arbitrary value type, b2v = float(bool), v2b = bool(float). *)
From Coq Require Import ZArith List Bool.
From VF Require Import Base.Loop Model.StateCodec Proof.StateCodec.
Import ListNotations.
Local Open Scope Z_scope.

(* get_layout: for every signature (any integer that reaches the kernel), any component
   sizes and any state row that is wide enough, the kernel writes exactly the selected
   components in ascending bit order, state_size values in total, and leaves the rest of
   the row as it was *)
Theorem C15_get_layout :
  forall (V : Type) (b2v : bool -> V) (dflt : V) (sz : Sizes) (sig : Z) (d : Data V) (row : list V),
    wf sz d -> (state_size sz sig <= length row)%nat ->
    get_row V b2v dflt sz sig d row = sel_get V b2v sig d bits ++ skipn (state_size sz sig) row
    /\ length (sel_get V b2v sig d bits) = state_size sz sig.
Proof. exact get_layout. Qed.
Print Assumptions C15_get_layout.

(* the slice of the output that belongs to a selected component is that component *)
Theorem C15_get_decode :
  forall (V : Type) (b2v : bool -> V) (dflt : V) (sz : Sizes) (sig : Z) (d : Data V) (row : list V) (t : Z),
    wf sz d -> (state_size sz sig <= length row)%nat -> In t bits -> Z.testbit sig t = true ->
    slice_of V t sz sig (get_row V b2v dflt sz sig d row) bits = comp_get V b2v t d.
Proof. exact get_decode. Qed.
Print Assumptions C15_get_decode.

(* set_get: hypothesis forced by the code: the eq_active slice must consist of values
   that survive bool() then float() (0.0 and 1.0) *)
Theorem C15_set_get :
  forall (V : Type) (b2v : bool -> V) (v2b : V -> bool) (dflt : V)
         (sz : Sizes) (sig : Z) (v : list V) (d : Data V) (out : list V),
    wf sz d -> length v = state_size sz sig -> length out = length v ->
    boolean_on_eq_active V b2v v2b sz sig v ->
    get_row V b2v dflt sz sig (set_row V v2b dflt sz sig v d) out = v.
Proof. exact set_get. Qed.
Print Assumptions C15_set_get.

(* get_set *)
Theorem C15_get_set :
  forall (V : Type) (b2v : bool -> V) (v2b : V -> bool) (dflt : V),
    (forall b, v2b (b2v b) = b) ->
    forall (sz : Sizes) (sig : Z) (d : Data V) (row : list V),
      wf sz d -> (state_size sz sig <= length row)%nat ->
      set_row V v2b dflt sz sig (get_row V b2v dflt sz sig d row) d = d.
Proof. exact get_set. Qed.
Print Assumptions C15_get_set.

(* set_frame: the array behind a clear bit is not modified (the record has no other fields) *)
Theorem C15_set_frame :
  forall (V : Type) (v2b : V -> bool) (dflt : V) (sz : Sizes) (sig : Z) (row : list V) (d : Data V) (i : Z),
    wf sz d -> (state_size sz sig <= length row)%nat -> In i bits -> Z.testbit sig i = false ->
    field_eq V i (set_row V v2b dflt sz sig row d) d.
Proof. exact set_frame. Qed.
Print Assumptions C15_set_frame.

(* per world: an active world gets the one-world result, an inactive one keeps its row *)
Theorem C15_get_state_world :
  forall (V : Type) (b2v : bool -> V) (dflt : V) sz sig active ds state st' (w : nat) d row,
    get_state V b2v dflt sz sig active ds state = Some st' ->
    nth_error ds w = Some d -> nth_error state w = Some row ->
    nth_error st' w =
      Some (if world_active active (Z.of_nat w) then get_row V b2v dflt sz sig d row else row).
Proof. exact get_state_world. Qed.
Print Assumptions C15_get_state_world.

Theorem C15_set_state_world :
  forall (V : Type) (v2b : V -> bool) (dflt : V) sz sig active ds state ds' (w : nat) d row,
    set_state V v2b dflt sz sig active state ds = Some ds' ->
    nth_error ds w = Some d -> nth_error state w = Some row ->
    nth_error ds' w =
      Some (if world_active active (Z.of_nat w) then set_row V v2b dflt sz sig row d else d).
Proof. exact set_state_world. Qed.
Print Assumptions C15_set_state_world.

(* mask_frame, not written *)
Theorem C15_mask_frame_get :
  forall (V : Type) (b2v : bool -> V) (dflt : V) sz sig active ds state st' (w : nat),
    get_state V b2v dflt sz sig active ds state = Some st' ->
    world_active active (Z.of_nat w) = false ->
    length st' = length state /\ nth_error st' w = nth_error state w.
Proof. exact mask_frame_get. Qed.
Print Assumptions C15_mask_frame_get.

Theorem C15_mask_frame_set :
  forall (V : Type) (v2b : V -> bool) (dflt : V) sz sig active ds state ds' (w : nat),
    set_state V v2b dflt sz sig active state ds = Some ds' ->
    world_active active (Z.of_nat w) = false ->
    length ds' = length ds /\ nth_error ds' w = nth_error ds w.
Proof. exact mask_frame_set. Qed.
Print Assumptions C15_mask_frame_set.

(* mask_frame, not read: changing the Data (get) or the state rows (set) of inactive worlds
   changes nothing *)
Theorem C15_mask_noread_get :
  forall (V : Type) (b2v : bool -> V) (dflt : V) sz sig active ds1 ds2 state,
    (forall w : nat, world_active active (Z.of_nat w) = true -> nth_error ds1 w = nth_error ds2 w) ->
    get_state V b2v dflt sz sig active ds1 state = get_state V b2v dflt sz sig active ds2 state.
Proof. exact mask_noread_get. Qed.
Print Assumptions C15_mask_noread_get.

Theorem C15_mask_noread_set :
  forall (V : Type) (v2b : V -> bool) (dflt : V) sz sig active ds st1 st2,
    (forall w : nat, world_active active (Z.of_nat w) = true -> nth_error st1 w = nth_error st2 w) ->
    set_state V v2b dflt sz sig active st1 ds = set_state V v2b dflt sz sig active st2 ds.
Proof. exact mask_noread_set. Qed.
Print Assumptions C15_mask_noread_set.

(* the round trip through the two public functions, all worlds, any mask *)
Theorem C15_api_set_get :
  forall (V : Type) (b2v : bool -> V) (v2b : V -> bool) (dflt : V) sz sig active ds state out ds',
    0 <= sig < 2 ^ NSTATE -> Forall (wf sz) ds ->
    length state = length ds -> length out = length ds ->
    (forall (w : nat) v, nth_error state w = Some v ->
       length v = state_size sz sig /\ boolean_on_eq_active V b2v v2b sz sig v) ->
    (forall (w : nat) o, nth_error out w = Some o -> length o = state_size sz sig) ->
    set_state V v2b dflt sz sig active state ds = Some ds' ->
    exists st', get_state V b2v dflt sz sig active ds' out = Some st' /\ length st' = length out /\
      forall w : nat, (w < length ds)%nat ->
        nth_error st' w =
          if world_active active (Z.of_nat w) then nth_error state w else nth_error out w.
Proof. exact api_set_get. Qed.
Print Assumptions C15_api_set_get.

(* sig_range: every signature outside [0, 2^NSTATE) raises (None) in both functions.
   (Before the fix of finding C15:sig_range:negative-signature-accepted the wrapper tested
   only the upper bound and this theorem was refuted by the witness -1; bin/props/C15.py
   keeps probing negative signatures on the real code as a regression case.) *)
Theorem C15_sig_range :
  forall (V : Type) (b2v : bool -> V) (v2b : V -> bool) (dflt : V) sz sig active ds state,
    sig < 0 \/ 2 ^ NSTATE <= sig ->
    get_state V b2v dflt sz sig active ds state = None /\
    set_state V v2b dflt sz sig active state ds = None.
Proof. exact sig_range. Qed.
Print Assumptions C15_sig_range.

(* ... and every signature inside the range is accepted and launches the kernels *)
Theorem C15_sig_accepted :
  forall (V : Type) (b2v : bool -> V) (v2b : V -> bool) (dflt : V) sz sig active ds state,
    0 <= sig < 2 ^ NSTATE ->
    get_state V b2v dflt sz sig active ds state
      = Some (get_worlds V b2v dflt sz sig active 0 ds state) /\
    set_state V v2b dflt sz sig active state ds
      = Some (set_worlds V v2b dflt sz sig active 0 state ds).
Proof. exact sig_accepted. Qed.
Print Assumptions C15_sig_accepted.

(* finite companion: the kernel-level model, run on the concrete model sz0/d0/d1 with float32
   bit patterns, agrees with a plain layout table, the size function, the field-wise merge
   after set(get) and the set/get round trip for every one of the 2^14 valid signatures *)
Theorem C15_sweep_all_signatures :
  forall sig, 0 <= sig < 2 ^ NSTATE -> sweep_ok sig = true.
Proof. exact sweep_all. Qed.
Print Assumptions C15_sweep_all_signatures.

(* non-vacuity: the hypotheses are satisfiable *)
Example C15_wf_exists : wf sz0 d0.
Proof. exact wf_d0. Qed.
Example C15_bool_roundtrip_Z : forall b, z2b (b2z b) = b.
Proof. exact z2b_b2z. Qed.
Example C15_boolean_values_Z : forall x, boolean Z b2z z2b x <-> x = 0 \/ x = 1065353216.
Proof. exact boolean_Z. Qed.
Example C15_set_get_hypotheses :
  length (expect0 16383) = state_size sz0 16383 /\
  boolean_on_eq_active Z b2z z2b sz0 16383 (expect0 16383) /\
  slice_of Z 9 sz0 16383 (expect0 16383) bits = [1065353216; 0].
Proof. exact set_get_hyp. Qed.
