(* Props/C40.v -- C40 "Flex deformables agree with MuJoCo C": the proved part.
   Statements only; every proof is `exact <lemma of Proof/Flex.v>`.  The kernels named here
   (k__flex_nodes, k__flex_vertices, k__flex_edges inside wsn / wsv / wse) are the task functions
   REGENERATED from /repo/mujoco_warp/_src/smooth.py into Gen/T_flex.v on every run
   (bin/gens_flex.py) and validated against traced launches of the real kernels (bin/props/C40.py).

   Common hypotheses "f0 is the first flex that owns the index": the search loop at the top of each
   kernel; without an owner the real kernel reads an uninitialised register (no claim).
   Arrays of vec3 / spatial_vector are given by their components (px py pz, cx cy cz, a0..l2).

   NOT proved (tested against MuJoCo by the oracle of bin/props/C40.py only): velocity = d/dt length
   for vertices attached to ARTICULATED bodies, element elasticity and bending forces, the
   flexedge / flexstrain constraint rows, flex collision geometry.  Flex contacts and flex
   constraint rows are allocated by the shared counters of Model/Alloc.v (property C16). *)
From Coq Require Import ZArith Reals List Bool String.
From VF Require Import Base.Scalar Base.ScalarR Base.Vec Base.Loop Base.Kernel Gen.T_flex Model.Flex Proof.Flex.
Import ListNotations.
Local Open Scope Z_scope.
Local Open Scope string_scope.

(* --- vertex / node positions --------------------------------------------------------------- *)

(* non-interpolated flex: the kernel writes exactly one value, xmat_body * vert_local + xpos_body,
   or the body position itself when the flex is centred *)
Theorem C40_flex_vertex_position :
  forall (w v nflex : Z) (flex_interp : Z -> Z) (flex_cellnum : Z -> list Z)
         (flex_nodeadr flex_vertadr flex_vertnum flex_vertbodyid : Z -> Z)
         (flex_vert flex_vert0 : Z -> list R) (flex_centered : Z -> bool)
         (xpos_in xmat_in flexnode_xpos_in flexvert_xpos_out : Z -> Z -> list R) (orc : nat -> Z) (f0 : Z),
    0 <= f0 < nflex -> owns flex_vertadr flex_vertnum v f0 = true ->
    (forall i, 0 <= i < f0 -> owns flex_vertadr flex_vertnum v i = false) ->
    flex_interp f0 = 0 ->
    k__flex_vertices w v nflex flex_interp flex_cellnum flex_nodeadr flex_vertadr flex_vertnum flex_vertbodyid
      flex_vert flex_vert0 flex_centered xpos_in xmat_in flexnode_xpos_in flexvert_xpos_out orc =
    [mkW "flexvert_xpos_out" [w; v] KSet
       (VV (if flex_centered f0 then xpos_in w (flex_vertbodyid v)
            else vadd (mat_vec 3 3 (xmat_in w (flex_vertbodyid v)) (flex_vert v)) (xpos_in w (flex_vertbodyid v))))].
Proof. exact flex_vertex_position. Qed.
Print Assumptions C40_flex_vertex_position.

(* the frame transform componentwise *)
Theorem C40_frame_transform_components :
  forall r0 r1 r2 r3 r4 r5 r6 r7 r8 l0 l1 l2 p0 p1 p2 : R,
    vadd (mat_vec 3 3 [r0;r1;r2;r3;r4;r5;r6;r7;r8] [l0;l1;l2]) [p0;p1;p2] =
    [ (r0*l0 + r1*l1 + r2*l2 + p0)%R; (r3*l0 + r4*l1 + r5*l2 + p1)%R; (r6*l0 + r7*l1 + r8*l2 + p2)%R ].
Proof. exact mat_vec_trans. Qed.
Print Assumptions C40_frame_transform_components.

(* interpolated (trilinear) flex: weighted sum of the 8 nodes of the containing cell ... *)
Theorem C40_flex_vertex_interp :
  forall (w v nflex : Z) (flex_interp : Z -> Z) (flex_cellnum : Z -> list Z)
         (flex_nodeadr flex_vertadr flex_vertnum flex_vertbodyid : Z -> Z)
         (flex_vert flex_vert0 : Z -> list R) (flex_centered : Z -> bool)
         (xpos_in xmat_in flexnode_xpos_in flexvert_xpos_out : Z -> Z -> list R) (orc : nat -> Z) (f0 : Z),
    0 <= f0 < nflex -> owns flex_vertadr flex_vertnum v f0 = true ->
    (forall i, 0 <= i < f0 -> owns flex_vertadr flex_vertnum v i = false) ->
    flex_interp f0 <> 0 ->
    k__flex_vertices w v nflex flex_interp flex_cellnum flex_nodeadr flex_vertadr flex_vertnum flex_vertbodyid
      flex_vert flex_vert0 flex_centered xpos_in xmat_in flexnode_xpos_in flexvert_xpos_out orc =
    [mkW "flexvert_xpos_out" [w; v] KSet (VV (interp_value w v flex_cellnum flex_nodeadr flex_vert0 flexnode_xpos_in f0))].
Proof. exact flex_vertex_interp. Qed.
Print Assumptions C40_flex_vertex_interp.

(* ... whose weights are a partition of unity, non-negative for local coordinates in [0,1]
   (the kernel clamps them: sclamp01) *)
Theorem C40_trilinear_partition_of_unity :
  forall x y z : R,
    (eval_basis_trilinear [x; y; z] 0 + eval_basis_trilinear [x; y; z] 1 + eval_basis_trilinear [x; y; z] 2
     + eval_basis_trilinear [x; y; z] 3 + eval_basis_trilinear [x; y; z] 4 + eval_basis_trilinear [x; y; z] 5
     + eval_basis_trilinear [x; y; z] 6 + eval_basis_trilinear [x; y; z] 7 = 1)%R.
Proof. exact trilinear_partition_of_unity. Qed.
Print Assumptions C40_trilinear_partition_of_unity.

Theorem C40_trilinear_weight_nonneg :
  forall (x y z : R) (k : Z), (0 <= x <= 1)%R -> (0 <= y <= 1)%R -> (0 <= z <= 1)%R ->
    (0 <= eval_basis_trilinear [x; y; z] k)%R.
Proof. exact trilinear_weight_nonneg. Qed.
Print Assumptions C40_trilinear_weight_nonneg.

Theorem C40_local_coordinate_clamped : forall x : R, (0 <= sclamp x 0%R 1%R <= 1)%R.
Proof. exact sclamp01. Qed.
Print Assumptions C40_local_coordinate_clamped.

(* nodes: body frame transform; centred flex or an exactly-zero local position give the body position *)
Theorem C40_flex_node_position :
  forall (w n nflex : Z) (flex_nodeadr flex_nodenum flex_nodebodyid : Z -> Z) (flex_node : Z -> list R)
         (flex_centered : Z -> bool) (xpos_in xmat_in flexnode_xpos_out : Z -> Z -> list R) (orc : nat -> Z) (f0 : Z),
    0 <= f0 < nflex -> owns flex_nodeadr flex_nodenum n f0 = true ->
    (forall i, 0 <= i < f0 -> owns flex_nodeadr flex_nodenum n i = false) ->
    forall lx ly lz : R, flex_node n = [lx; ly; lz] ->
    k__flex_nodes w n nflex flex_nodeadr flex_nodenum flex_nodebodyid flex_node flex_centered xpos_in xmat_in flexnode_xpos_out orc =
    [mkW "flexnode_xpos_out" [w; n] KSet
       (VV (if flex_centered f0 || (Reqb lx 0 && Reqb ly 0 && Reqb lz 0) then xpos_in w (flex_nodebodyid n)
            else vadd (mat_vec 3 3 (xmat_in w (flex_nodebodyid n)) (flex_node n)) (xpos_in w (flex_nodebodyid n))))].
Proof. exact flex_node_position. Qed.
Print Assumptions C40_flex_node_position.

(* --- edges ------------------------------------------------------------------------------------ *)

(* length = |x_b - x_a| = sqrt(dx^2 + dy^2 + dz^2) in every branch of the kernel *)
Theorem C40_flex_edge_length :
  forall (w e nflex : Z) (body_rootid body_dofnum body_dofadr flex_vertadr flex_edgeadr flex_edgenum flex_vertbodyid : Z -> Z)
         (flex_edge : Z -> list Z) (flexedge_J_rowadr flexedge_J_colind : Z -> Z)
         (qvel_in cx cy cz a0 a1 a2 l0 l1 l2 px py pz flexedge_J_out flexedge_length_out flexedge_velocity_out : Z -> Z -> R)
         (orc : nat -> Z) (f0 : Z),
    0 <= f0 < nflex -> owns flex_edgeadr flex_edgenum e f0 = true ->
    (forall i, 0 <= i < f0 -> owns flex_edgeadr flex_edgenum e i = false) ->
    0 <= body_dofnum (b1 e flex_vertadr flex_vertbodyid flex_edge f0) ->
    stored (wse w e nflex body_rootid body_dofnum body_dofadr flex_vertadr flex_edgeadr flex_edgenum flex_vertbodyid flex_edge
              flexedge_J_rowadr flexedge_J_colind qvel_in cx cy cz a0 a1 a2 l0 l1 l2 px py pz
              flexedge_J_out flexedge_length_out flexedge_velocity_out orc)
           "flexedge_length_out" [w; e]
    = Some (sqrt (dx w e flex_vertadr flex_edge px f0 * dx w e flex_vertadr flex_edge px f0
                  + dy w e flex_vertadr flex_edge py f0 * dy w e flex_vertadr flex_edge py f0
                  + dz w e flex_vertadr flex_edge pz f0 * dz w e flex_vertadr flex_edge pz f0)).
Proof. exact flex_edge_length. Qed.
Print Assumptions C40_flex_edge_length.

(* wse IS the translated kernel applied to component-wise arrays *)
Theorem C40_wse_is_translated_kernel :
  forall (w e nflex : Z) (body_rootid body_dofnum body_dofadr flex_vertadr flex_edgeadr flex_edgenum flex_vertbodyid : Z -> Z)
         (flex_edge : Z -> list Z) (flexedge_J_rowadr flexedge_J_colind : Z -> Z)
         (qvel_in cx cy cz a0 a1 a2 l0 l1 l2 px py pz flexedge_J_out flexedge_length_out flexedge_velocity_out : Z -> Z -> R)
         (orc : nat -> Z),
    wse w e nflex body_rootid body_dofnum body_dofadr flex_vertadr flex_edgeadr flex_edgenum flex_vertbodyid flex_edge
        flexedge_J_rowadr flexedge_J_colind qvel_in cx cy cz a0 a1 a2 l0 l1 l2 px py pz
        flexedge_J_out flexedge_length_out flexedge_velocity_out orc =
    k__flex_edges w e nflex body_rootid body_dofnum body_dofadr flex_vertadr flex_edgeadr flex_edgenum flex_vertbodyid flex_edge
        flexedge_J_rowadr flexedge_J_colind qvel_in
        (fun w i => [cx w i; cy w i; cz w i]) (fun w i => [a0 w i; a1 w i; a2 w i; l0 w i; l1 w i; l2 w i])
        (fun w i => [px w i; py w i; pz w i]) flexedge_J_out flexedge_length_out flexedge_velocity_out orc.
Proof. exact wse_is_kernel. Qed.
Print Assumptions C40_wse_is_translated_kernel.

(* the complete write list of one task (vertex bodies >= 0): length, velocity, then the J slots
   rowadr + k (k < dofnum b1) and rowadr + dofnum b1 + k (k < dofnum b2) *)
Theorem C40_flex_edge_writes :
  forall (w e nflex : Z) (body_rootid body_dofnum body_dofadr flex_vertadr flex_edgeadr flex_edgenum flex_vertbodyid : Z -> Z)
         (flex_edge : Z -> list Z) (flexedge_J_rowadr flexedge_J_colind : Z -> Z)
         (qvel_in cx cy cz a0 a1 a2 l0 l1 l2 px py pz flexedge_J_out flexedge_length_out flexedge_velocity_out : Z -> Z -> R)
         (orc : nat -> Z) (f0 : Z),
    0 <= f0 < nflex -> owns flex_edgeadr flex_edgenum e f0 = true ->
    (forall i, 0 <= i < f0 -> owns flex_edgeadr flex_edgenum e i = false) ->
    0 <= b1 e flex_vertadr flex_vertbodyid flex_edge f0 -> 0 <= b2 e flex_vertadr flex_vertbodyid flex_edge f0 ->
    0 <= body_dofnum (b1 e flex_vertadr flex_vertbodyid flex_edge f0) ->
    wse w e nflex body_rootid body_dofnum body_dofadr flex_vertadr flex_edgeadr flex_edgenum flex_vertbodyid flex_edge
        flexedge_J_rowadr flexedge_J_colind qvel_in cx cy cz a0 a1 a2 l0 l1 l2 px py pz
        flexedge_J_out flexedge_length_out flexedge_velocity_out orc =
    ([ mkW "flexedge_length_out" [w; e] KSet
         (VS (if Reqb (len w e flex_vertadr flex_edge px py pz f0) 0 then 0%R else len w e flex_vertadr flex_edge px py pz f0));
       mkW "flexedge_velocity_out" [w; e] KSet
         (VS (velocity w e body_rootid body_dofnum body_dofadr flex_vertadr flex_vertbodyid flex_edge qvel_in
                cx cy cz a0 a1 a2 l0 l1 l2 px py pz f0)) ]
     ++ map (fun k => mkW "flexedge_J_out" [w; rowadr e flexedge_J_rowadr + 0 + k] KSet
                        (VS (J1 w e body_rootid body_dofadr flex_vertadr flex_vertbodyid flex_edge cx cy cz a0 a1 a2 l0 l1 l2 px py pz f0 k)))
            (zseq 0 (n1 e body_dofnum flex_vertadr flex_vertbodyid flex_edge f0))
     ++ map (fun k => mkW "flexedge_J_out"
                        [w; rowadr e flexedge_J_rowadr + (0 + body_dofnum (b1 e flex_vertadr flex_vertbodyid flex_edge f0)) + k] KSet
                        (VS (J2 w e body_rootid body_dofadr flex_vertadr flex_vertbodyid flex_edge cx cy cz a0 a1 a2 l0 l1 l2 px py pz f0 k)))
            (zseq 0 (n2 e body_dofnum flex_vertadr flex_vertbodyid flex_edge f0)))%list.
Proof. exact flex_edge_writes. Qed.
Print Assumptions C40_flex_edge_writes.

(* interpolated flex (vertex body id -1): length, and velocity 0; no J slot is written *)
Theorem C40_flex_edge_writes_interp :
  forall (w e nflex : Z) (body_rootid body_dofnum body_dofadr flex_vertadr flex_edgeadr flex_edgenum flex_vertbodyid : Z -> Z)
         (flex_edge : Z -> list Z) (flexedge_J_rowadr flexedge_J_colind : Z -> Z)
         (qvel_in cx cy cz a0 a1 a2 l0 l1 l2 px py pz flexedge_J_out flexedge_length_out flexedge_velocity_out : Z -> Z -> R)
         (orc : nat -> Z) (f0 : Z),
    0 <= f0 < nflex -> owns flex_edgeadr flex_edgenum e f0 = true ->
    (forall i, 0 <= i < f0 -> owns flex_edgeadr flex_edgenum e i = false) ->
    (b1 e flex_vertadr flex_vertbodyid flex_edge f0 < 0 \/ b2 e flex_vertadr flex_vertbodyid flex_edge f0 < 0) ->
    wse w e nflex body_rootid body_dofnum body_dofadr flex_vertadr flex_edgeadr flex_edgenum flex_vertbodyid flex_edge
        flexedge_J_rowadr flexedge_J_colind qvel_in cx cy cz a0 a1 a2 l0 l1 l2 px py pz
        flexedge_J_out flexedge_length_out flexedge_velocity_out orc =
    [ mkW "flexedge_length_out" [w; e] KSet (VS (len w e flex_vertadr flex_edge px py pz f0));
      mkW "flexedge_velocity_out" [w; e] KSet (VS 0%R) ].
Proof. exact flex_edge_writes_interp. Qed.
Print Assumptions C40_flex_edge_writes_interp.

(* the J slots written do not depend on the model's rownnz / colind: exactly dofnum b1 + dofnum b2 slots *)
Theorem C40_flex_edge_J_footprint :
  forall (w e nflex : Z) (body_rootid body_dofnum body_dofadr flex_vertadr flex_edgeadr flex_edgenum flex_vertbodyid : Z -> Z)
         (flex_edge : Z -> list Z) (flexedge_J_rowadr flexedge_J_colind : Z -> Z)
         (qvel_in cx cy cz a0 a1 a2 l0 l1 l2 px py pz flexedge_J_out flexedge_length_out flexedge_velocity_out : Z -> Z -> R)
         (orc : nat -> Z) (f0 : Z),
    0 <= f0 < nflex -> owns flex_edgeadr flex_edgenum e f0 = true ->
    (forall i, 0 <= i < f0 -> owns flex_edgeadr flex_edgenum e i = false) ->
    0 <= b1 e flex_vertadr flex_vertbodyid flex_edge f0 -> 0 <= b2 e flex_vertadr flex_vertbodyid flex_edge f0 ->
    0 <= body_dofnum (b1 e flex_vertadr flex_vertbodyid flex_edge f0) ->
    0 <= body_dofnum (b2 e flex_vertadr flex_vertbodyid flex_edge f0) ->
    forall x, In x (wse w e nflex body_rootid body_dofnum body_dofadr flex_vertadr flex_edgeadr flex_edgenum flex_vertbodyid flex_edge
                        flexedge_J_rowadr flexedge_J_colind qvel_in cx cy cz a0 a1 a2 l0 l1 l2 px py pz
                        flexedge_J_out flexedge_length_out flexedge_velocity_out orc) ->
      w_arr x = "flexedge_J_out" ->
      exists s, 0 <= s < body_dofnum (b1 e flex_vertadr flex_vertbodyid flex_edge f0) + body_dofnum (b2 e flex_vertadr flex_vertbodyid flex_edge f0)
                /\ w_idx x = [w; rowadr e flexedge_J_rowadr + s].
Proof. exact flex_edge_J_footprint. Qed.
Print Assumptions C40_flex_edge_J_footprint.

(* velocity = J . qvel : the velocity written equals the stored row (J1 slots then J2 slots) applied to
   qvel with the kernel's implied columns [dofs of b1] ++ [dofs of b2] ... *)
Theorem C40_sparse_row_is_velocity :
  forall (w e : Z) (body_rootid body_dofnum body_dofadr flex_vertadr flex_vertbodyid : Z -> Z) (flex_edge : Z -> list Z)
         (qvel_in cx cy cz a0 a1 a2 l0 l1 l2 px py pz : Z -> Z -> R) (f0 : Z),
    sparse_dot (krow w e body_rootid body_dofnum body_dofadr flex_vertadr flex_vertbodyid flex_edge cx cy cz a0 a1 a2 l0 l1 l2 px py pz f0)
               (qvel_in w)
    = velocity w e body_rootid body_dofnum body_dofadr flex_vertadr flex_vertbodyid flex_edge qvel_in cx cy cz a0 a1 a2 l0 l1 l2 px py pz f0.
Proof. exact sparse_row_is_velocity. Qed.
Print Assumptions C40_sparse_row_is_velocity.

(* ... and the dense row obtained by scattering it is the same linear functional *)
Theorem C40_dense_sparse_row_equal :
  forall (nv : nat) (row : list (Z * R)) (q : Z -> R),
    Forall (fun cv => 0 <= fst cv < Z.of_nat nv) row ->
    dense_dot nv 0 (dense_of row) q = sparse_dot row q.
Proof. exact dense_sparse_row_equal. Qed.
Print Assumptions C40_dense_sparse_row_equal.

Theorem C40_dense_row_is_velocity :
  forall (w e : Z) (body_rootid body_dofnum body_dofadr flex_vertadr flex_vertbodyid : Z -> Z) (flex_edge : Z -> list Z)
         (qvel_in cx cy cz a0 a1 a2 l0 l1 l2 px py pz : Z -> Z -> R) (f0 : Z) (nv : nat),
    Forall (fun cv => 0 <= fst cv < Z.of_nat nv)
           (krow w e body_rootid body_dofnum body_dofadr flex_vertadr flex_vertbodyid flex_edge cx cy cz a0 a1 a2 l0 l1 l2 px py pz f0) ->
    dense_dot nv 0 (dense_of (krow w e body_rootid body_dofnum body_dofadr flex_vertadr flex_vertbodyid flex_edge cx cy cz a0 a1 a2 l0 l1 l2 px py pz f0))
              (qvel_in w)
    = velocity w e body_rootid body_dofnum body_dofadr flex_vertadr flex_vertbodyid flex_edge qvel_in cx cy cz a0 a1 a2 l0 l1 l2 px py pz f0.
Proof. exact dense_row_is_velocity. Qed.
Print Assumptions C40_dense_row_is_velocity.

(* PARTIAL: the row read with the MODEL's column indices (as constraint._equality_flex reads it) is the
   velocity only under the layout hypothesis colind(rowadr + s) = kcol s.  Missing: the hypothesis is not
   implied by put_model; it fails for vertex bodies with movable ancestors, see the next theorem. *)
Theorem C40_row_with_model_colind_partial :
  forall (w e : Z) (body_rootid body_dofnum body_dofadr flex_vertadr flex_vertbodyid : Z -> Z) (flex_edge : Z -> list Z)
         (flexedge_J_rowadr flexedge_J_colind : Z -> Z) (qvel_in cx cy cz a0 a1 a2 l0 l1 l2 px py pz : Z -> Z -> R) (f0 : Z),
    0 <= body_dofnum (b1 e flex_vertadr flex_vertbodyid flex_edge f0) ->
    0 <= body_dofnum (b2 e flex_vertadr flex_vertbodyid flex_edge f0) ->
    (forall s, 0 <= s < body_dofnum (b1 e flex_vertadr flex_vertbodyid flex_edge f0) + body_dofnum (b2 e flex_vertadr flex_vertbodyid flex_edge f0) ->
       flexedge_J_colind (rowadr e flexedge_J_rowadr + s) = kcol e body_dofnum body_dofadr flex_vertadr flex_vertbodyid flex_edge f0 s) ->
    sparse_dot (mrow w e body_rootid body_dofnum body_dofadr flex_vertadr flex_vertbodyid flex_edge flexedge_J_rowadr flexedge_J_colind
                     cx cy cz a0 a1 a2 l0 l1 l2 px py pz f0) (qvel_in w)
    = velocity w e body_rootid body_dofnum body_dofadr flex_vertadr flex_vertbodyid flex_edge qvel_in cx cy cz a0 a1 a2 l0 l1 l2 px py pz f0.
Proof. exact row_with_model_colind_partial. Qed.
Print Assumptions C40_row_with_model_colind_partial.

(* REFUTED without the layout hypothesis: two vertex bodies (one x-slide each, dofs 1 and 2) under a parent
   with an x-slide (dof 0), MuJoCo's row columns [0;1;2], only the parent moving (qvel = (1,0,0)):
   the kernel writes velocity 0 (correct: the edge is carried rigidly) but the stored row read with the
   model's columns gives J.qvel = -1.  Replayed on the real code by bin/props/C40.py (moving-parent family). *)
Theorem C40_row_with_model_colind_refuted :
  stored Witness.ws "flexedge_velocity_out" [0; 0] = Some 0%R /\
  (Witness.readJ 0 * Witness.qv 0 0 + Witness.readJ 1 * Witness.qv 0 1 + Witness.readJ 2 * Witness.qv 0 2 = -1)%R.
Proof. exact row_with_model_colind_refuted. Qed.
Print Assumptions C40_row_with_model_colind_refuted.

(* free vertices (three world-axis slide joints per vertex body): velocity = (x . xdot)/|x| ... *)
Theorem C40_free_edge_velocity :
  forall (w e : Z) (body_rootid body_dofnum body_dofadr flex_vertadr flex_vertbodyid : Z -> Z) (flex_edge : Z -> list Z)
         (qvel_in cx cy cz a0 a1 a2 l0 l1 l2 px py pz : Z -> Z -> R) (f0 : Z),
    free_body w body_dofnum body_dofadr a0 a1 a2 l0 l1 l2 (b1 e flex_vertadr flex_vertbodyid flex_edge f0) ->
    free_body w body_dofnum body_dofadr a0 a1 a2 l0 l1 l2 (b2 e flex_vertadr flex_vertbodyid flex_edge f0) ->
    (0 < len w e flex_vertadr flex_edge px py pz f0)%R ->
    velocity w e body_rootid body_dofnum body_dofadr flex_vertadr flex_vertbodyid flex_edge qvel_in cx cy cz a0 a1 a2 l0 l1 l2 px py pz f0 =
    ((dx w e flex_vertadr flex_edge px f0 * (v2 w e body_dofadr flex_vertadr flex_vertbodyid flex_edge qvel_in f0 0 - v1 w e body_dofadr flex_vertadr flex_vertbodyid flex_edge qvel_in f0 0)
      + dy w e flex_vertadr flex_edge py f0 * (v2 w e body_dofadr flex_vertadr flex_vertbodyid flex_edge qvel_in f0 1 - v1 w e body_dofadr flex_vertadr flex_vertbodyid flex_edge qvel_in f0 1)
      + dz w e flex_vertadr flex_edge pz f0 * (v2 w e body_dofadr flex_vertadr flex_vertbodyid flex_edge qvel_in f0 2 - v1 w e body_dofadr flex_vertadr flex_vertbodyid flex_edge qvel_in f0 2))
     / len w e flex_vertadr flex_edge px py pz f0)%R.
Proof. exact free_edge_velocity. Qed.
Print Assumptions C40_free_edge_velocity.

(* ... which is the time derivative of the length along x(t) = x + t xdot (real derivative) *)
Theorem C40_norm_derivative :
  forall x y z vx vy vz : R, (0 < sqrt (x*x + y*y + z*z))%R ->
    derivable_pt_lim (fun t => sqrt ((x + t*vx)*(x + t*vx) + (y + t*vy)*(y + t*vy) + (z + t*vz)*(z + t*vz)))%R 0%R
                     ((x*vx + y*vy + z*vz) / sqrt (x*x + y*y + z*z))%R.
Proof. exact norm_derivative. Qed.
Print Assumptions C40_norm_derivative.

(* PARTIAL (free vertices only; for vertices on articulated bodies d/dt length = J.qvel needs the
   kinematics model and is only tested): the written velocity is d/dt of the written length *)
Theorem C40_edge_velocity_is_length_rate_partial :
  forall (w e : Z) (body_rootid body_dofnum body_dofadr flex_vertadr flex_vertbodyid : Z -> Z) (flex_edge : Z -> list Z)
         (qvel_in cx cy cz a0 a1 a2 l0 l1 l2 px py pz : Z -> Z -> R) (f0 : Z),
    free_body w body_dofnum body_dofadr a0 a1 a2 l0 l1 l2 (b1 e flex_vertadr flex_vertbodyid flex_edge f0) ->
    free_body w body_dofnum body_dofadr a0 a1 a2 l0 l1 l2 (b2 e flex_vertadr flex_vertbodyid flex_edge f0) ->
    (0 < len w e flex_vertadr flex_edge px py pz f0)%R ->
    let ddx := (v2 w e body_dofadr flex_vertadr flex_vertbodyid flex_edge qvel_in f0 0 - v1 w e body_dofadr flex_vertadr flex_vertbodyid flex_edge qvel_in f0 0)%R in
    let ddy := (v2 w e body_dofadr flex_vertadr flex_vertbodyid flex_edge qvel_in f0 1 - v1 w e body_dofadr flex_vertadr flex_vertbodyid flex_edge qvel_in f0 1)%R in
    let ddz := (v2 w e body_dofadr flex_vertadr flex_vertbodyid flex_edge qvel_in f0 2 - v1 w e body_dofadr flex_vertadr flex_vertbodyid flex_edge qvel_in f0 2)%R in
    derivable_pt_lim
      (fun t => sqrt ((dx w e flex_vertadr flex_edge px f0 + t * ddx) * (dx w e flex_vertadr flex_edge px f0 + t * ddx)
                      + (dy w e flex_vertadr flex_edge py f0 + t * ddy) * (dy w e flex_vertadr flex_edge py f0 + t * ddy)
                      + (dz w e flex_vertadr flex_edge pz f0 + t * ddz) * (dz w e flex_vertadr flex_edge pz f0 + t * ddz)))%R 0%R
      (velocity w e body_rootid body_dofnum body_dofadr flex_vertadr flex_vertbodyid flex_edge qvel_in cx cy cz a0 a1 a2 l0 l1 l2 px py pz f0).
Proof. exact free_edge_velocity_is_length_rate. Qed.
Print Assumptions C40_edge_velocity_is_length_rate_partial.

(* hypotheses are satisfiable *)
Theorem C40_search_hypothesis_sat :
  let adr := fun i => 5 * i in let num := fun _ : Z => 5 in
  0 <= 1 < 3 /\ owns adr num 7 1 = true /\ (forall i, 0 <= i < 1 -> owns adr num 7 i = false).
Proof. exact search_hypothesis_sat. Qed.
Print Assumptions C40_search_hypothesis_sat.

(* --- flex-vs-plane broadphase (collision_flex.py, translated into Gen/T_flex.v) ------------------- *)

(* _flex_broadphase_bounds: the box it writes contains every vertex of the flex with
   radius + margin + gap to spare on every side *)
Theorem C40_flex_aabb_contains_vertices :
  forall (w f : Z) (flex_margin flex_gap : Z -> R) (flex_vertadr flex_vertnum : Z -> Z) (flex_radius : Z -> R)
         (px py pz : Z -> Z -> R) (omin omax : Z -> Z -> list R) (orc : nat -> Z),
    0 < flex_vertnum f ->
    let infl := (flex_radius f + (flex_margin f + flex_gap f))%R in
    exists m0 m1 m2 M0 M1 M2 : R,
      k__flex_broadphase_bounds w f flex_margin flex_gap flex_vertadr flex_vertnum flex_radius
        (fun w i => [px w i; py w i; pz w i]) omin omax orc =
      [ mkW "flex_aabb_min_out" [w; f] KSet (VV [m0; m1; m2]); mkW "flex_aabb_max_out" [w; f] KSet (VV [M0; M1; M2]) ] /\
      forall i, 0 <= i < flex_vertnum f ->
        (m0 + infl <= px w (flex_vertadr f + i)%Z <= M0 - infl)%R /\ (m1 + infl <= py w (flex_vertadr f + i)%Z <= M1 - infl)%R /\
        (m2 + infl <= pz w (flex_vertadr f + i)%Z <= M2 - infl)%R.
Proof. exact flex_aabb_contains_vertices. Qed.
Print Assumptions C40_flex_aabb_contains_vertices.

(* the geometric core: a point of the box shrunk by b lies at least
   dist_center - sum_i |h_i n_i| + b  above the plane (unit normal) *)
Theorem C40_box_plane_bound :
  forall m0 m1 m2 M0 M1 M2 v0 v1 v2 p0 p1 p2 n0 n1 n2 b : R,
    (n0*n0 + n1*n1 + n2*n2 = 1)%R -> (0 <= b)%R ->
    (m0 + b <= v0 <= M0 - b)%R -> (m1 + b <= v1 <= M1 - b)%R -> (m2 + b <= v2 <= M2 - b)%R ->
    (((1/2 * (m0 + M0) - p0) * n0 + (1/2 * (m1 + M1) - p1) * n1 + (1/2 * (m2 + M2) - p2) * n2)
     - (Rabs (1/2 * (M0 - m0) * n0) + Rabs (1/2 * (M1 - m1) * n1) + Rabs (1/2 * (M2 - m2) * n2)) + b
     <= (v0 - p0) * n0 + (v1 - p1) * n1 + (v2 - p2) * n2)%R.
Proof. exact box_plane_bound. Qed.
Print Assumptions C40_box_plane_bound.

(* _flex_broadphase_plane: for a plane geom with unit normal and a box as guaranteed above (b >= radius),
   the task of pair (vertex, plane) writes NOTHING exactly when the vertex sphere is not within margin of
   the plane: the stage-1 box cull never discards a vertex that stage 2 would keep *)
Theorem C40_plane_cull_conservative :
  forall (w pairid : Z) (geom_type : Z -> Z) (geom_margin : Z -> Z -> R) (flex_margin flex_radius : Z -> R)
         (pairs : Z -> list Z) (flex_vertflexid : Z -> Z) (geom_xpos_in geom_xmat_in flexvert_xpos_in : Z -> Z -> list R)
         (naconmax : Z) (aabb_min aabb_max : Z -> Z -> list R) (ncollision overflow : Z -> Z) (cpair : Z -> list Z)
         (cworld : Z -> Z) (orc : nat -> Z) (gm_shape0 : Z)
         (r0 r1 r2 r3 r4 r5 r6 r7 r8 p0 p1 p2 v0 v1 v2 m0 m1 m2 M0 M1 M2 b : R),
    let vertid := zget (pairs pairid) 0 in let geomid := zget (pairs pairid) 1 in let flexid := flex_vertflexid vertid in
    geom_type geomid = 0 ->
    geom_xmat_in w geomid = [r0; r1; r2; r3; r4; r5; r6; r7; r8] -> (r2*r2 + r5*r5 + r8*r8 = 1)%R ->
    geom_xpos_in w geomid = [p0; p1; p2] -> flexvert_xpos_in w vertid = [v0; v1; v2] ->
    aabb_min w flexid = [m0; m1; m2] -> aabb_max w flexid = [M0; M1; M2] ->
    (flex_radius flexid <= b /\ 0 <= b)%R ->
    ((m0 + b <= v0 <= M0 - b) /\ (m1 + b <= v1 <= M1 - b) /\ (m2 + b <= v2 <= M2 - b))%R ->
    (k__flex_broadphase_plane w pairid geom_type geom_margin flex_margin flex_radius pairs flex_vertflexid
       geom_xpos_in geom_xmat_in flexvert_xpos_in naconmax aabb_min aabb_max ncollision overflow cpair cworld orc gm_shape0 = []
     <-> (geom_margin (Z.rem w gm_shape0) geomid + flex_margin flexid
          <= ((v0 - p0) * r2 + (v1 - p1) * r5 + (v2 - p2) * r8) - flex_radius flexid)%R).
Proof. exact plane_cull_conservative. Qed.
Print Assumptions C40_plane_cull_conservative.
