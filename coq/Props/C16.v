(* Props/C16.v -- C16 "Capacity overflow is never silent".
   Statements only; every proof is `exact <lemma of Proof/Alloc.v>` (or `exact eq_refl` for a
   closed boolean computed on the skeleton REGENERATED from /repo in Gen/Skel_alloc.v).

   The model (Model/Alloc.v): a step = four counter-based allocators (constraint rows with the
   sparse non-zero budget, broadphase pairs, contacts, compacted dofs) run over task lists, plus
   the overflow word of forward._next_time.  [run_builders fx zskip c sparse adr0 rnz0 ov0 rq]:
   zskip = "collision() returns when naconmax == 0", c = capacities, adr0/rnz0 = stale content of
   efc_J_rowadr/efc_J_rownnz, ov0 = previous (sticky) overflow word, rq = requests in the order in
   which the schedule executes them (a schedule = any permutation, [is_schedule]).
   [fx : nnzfix] = which repairs of the njmax_nnz class make_constraint contains (metadata zeroed
   first / NJMAX_NNZ ORed directly when the nnz counter overflows / rownnz of out-of-range rows
   cleared); [nofix] is the original code, the regenerated value is Gen/Skel_alloc.nnz_fix.

   The positive theorems are about ANY builder lists that are well-formed; the verdicts
   `wf_builders sparse row_builders` for the regenerated skeleton are computed at run time by
   bin/props/C16.py (today false for _equality_connect/_equality_weld -- F1 -- and, in sparse
   mode, for every row builder -- F2); the refutations below are about explicit builder values,
   so this file keeps compiling when /repo is repaired. *)
From Coq Require Import ZArith List Bool String Permutation.
From VF Require Import Model.Alloc Proof.Alloc Gen.Skel_alloc.
Import ListNotations.
Local Open Scope Z_scope.

(* ---- positive theorems (any well-formed skeleton) ---- *)

(* a dropped request (row block, non-zero block, contact, pair, dof; also loop iterations never
   reached) always sets an overflow bit, for all capacities, stale metadata, schedules, requests *)
Theorem C16_never_silent :
  forall (fx : nnzfix) (rbs sbs : list builder) (sparse zskip : bool),
    fx_ok fx = true -> wf_builders_fx fx sparse rbs = true -> wf_builders false sbs = true ->
    forall c adr0 rnz0 ov0 rq,
      collision_runs zskip c -> requests_use_fx rbs sbs rq -> meta_ok (njmax c) sparse adr0 rnz0 ->
      dropped (run_builders fx zskip c sparse adr0 rnz0 ov0 rq) = true ->
      overflow_any (run_builders fx zskip c sparse adr0 rnz0 ov0 rq) = true.
Proof. exact never_silent_fx. Qed.
Print Assumptions C16_never_silent.

Theorem C16_overflow_word_nonzero :
  forall fx zskip c sparse adr0 rnz0 ov0 rq,
    overflow_any (run_builders fx zskip c sparse adr0 rnz0 ov0 rq) = true ->
    x_word (run_builders fx zskip c sparse adr0 rnz0 ov0 rq) <> 0.
Proof. exact overflow_word_nonzero_fx. Qed.
Print Assumptions C16_overflow_word_nonzero.

(* no overflow bit: nothing was dropped, the rows are exactly the requested ones, and rows and
   counters equal those of any other run (ample capacities, other schedule) without overflow bit *)
Theorem C16_no_overflow_same_as_ample :
  forall (fx : nnzfix) (rbs sbs : list builder) (sparse zskip : bool),
    fx_ok fx = true -> wf_builders_fx fx sparse rbs = true -> wf_builders false sbs = true ->
    forall c c' adr0 rnz0 adr0' rnz0' ov0 ov0' rq rq',
      collision_runs zskip c -> collision_runs zskip c' ->
      requests_use_fx rbs sbs rq -> is_schedule rq rq' -> caps_nonneg c -> caps_nonneg c' ->
      meta_ok (njmax c) sparse adr0 rnz0 -> meta_ok (njmax c') sparse adr0' rnz0' ->
      overflow_any (run_builders fx zskip c sparse adr0 rnz0 ov0 rq) = false ->
      overflow_any (run_builders fx zskip c' sparse adr0' rnz0' ov0' rq') = false ->
      dropped (run_builders fx zskip c sparse adr0 rnz0 ov0 rq) = false /\
      map content (s_rows (x_efc (run_builders fx zskip c sparse adr0 rnz0 ov0 rq))) = expected_rows (r_efc rq) /\
      same_result (run_builders fx zskip c sparse adr0 rnz0 ov0 rq) (run_builders fx zskip c' sparse adr0' rnz0' ov0' rq').
Proof. exact no_overflow_same_as_ample_fx. Qed.
Print Assumptions C16_no_overflow_same_as_ample.

(* one allocator, no overflow bit: row i holds the i-th requested row, all rows complete, the
   counters are the sums of the requests *)
Theorem C16_no_overflow_exact :
  forall fx cap capz sparse, fx_ok fx = true -> forall ts adr0 rnz0,
    wf_tasks_fx fx sparse ts -> 0 <= cap -> 0 <= capz -> meta_ok cap sparse adr0 rnz0 ->
    overflowed_fx fx cap capz sparse (efc_run fx cap capz sparse ts adr0 rnz0) = false ->
    let s := efc_run fx cap capz sparse ts adr0 rnz0 in
    dropped_any s = false /\
    map content (s_rows s) = expected_rows ts /\
    map w_efcid (s_rows s) = zrange (total_rows ts) /\
    forallb w_complete (s_rows s) = true /\
    s_n s = total_rows ts /\ s_z s = znz sparse (total_nnz ts) /\
    s_ne s = tcount 0 ts /\ s_nf s = tcount 1 ts /\ s_nl s = tcount 2 ts.
Proof. exact GX_exact. Qed.
Print Assumptions C16_no_overflow_exact.

(* the overflow bits are a function of the totals only:  no bit  <->  everything fits *)
Theorem C16_overflow_iff_does_not_fit :
  forall fx cap capz sparse, fx_ok fx = true -> forall ts adr0 rnz0,
    wf_tasks_fx fx sparse ts -> 0 <= cap -> 0 <= capz -> meta_ok cap sparse adr0 rnz0 ->
    overflowed_fx fx cap capz sparse (efc_run fx cap capz sparse ts adr0 rnz0) = false <->
    fits cap capz sparse ts.
Proof. exact GX_iff. Qed.
Print Assumptions C16_overflow_iff_does_not_fit.

(* the schedule changes neither whether a run overflows nor, when it does not, the multiset of
   rows, the counters and the overflow word (serves C11) *)
Theorem C16_alloc_sched :
  forall (fx : nnzfix) (rbs sbs : list builder) (sparse zskip : bool),
    fx_ok fx = true -> wf_builders_fx fx sparse rbs = true -> wf_builders false sbs = true ->
    forall c adr0 rnz0 adr0' rnz0' ov0 rq rq',
      collision_runs zskip c -> requests_use_fx rbs sbs rq -> is_schedule rq rq' -> caps_nonneg c ->
      meta_ok (njmax c) sparse adr0 rnz0 -> meta_ok (njmax c) sparse adr0' rnz0' ->
      overflow_any (run_builders fx zskip c sparse adr0 rnz0 ov0 rq) = false ->
      overflow_any (run_builders fx zskip c sparse adr0' rnz0' ov0 rq') = false /\
      x_word (run_builders fx zskip c sparse adr0' rnz0' ov0 rq') = x_word (run_builders fx zskip c sparse adr0 rnz0 ov0 rq) /\
      same_result (run_builders fx zskip c sparse adr0 rnz0 ov0 rq) (run_builders fx zskip c sparse adr0' rnz0' ov0 rq').
Proof. exact alloc_sched_fx. Qed.
Print Assumptions C16_alloc_sched.

(* every row index, metadata index, non-zero range and slot index written is below its capacity,
   for ALL capacities (0 and negative included); needs only guards at least as strict as "does
   not fit" (serves C17) *)
Theorem C16_alloc_in_bounds :
  forall fx bs zskip c sparse adr0 rnz0 ov0 rq,
    safe_builders bs = true -> requests_use bs bs rq ->
    let r := run_builders fx zskip c sparse adr0 rnz0 ov0 rq in
    bounds_ok (njmax c) (njmax_nnz c) (x_efc r) /\
    bounds_ok (naconmax c) 0 (x_bp r) /\ bounds_ok (naconmax c) 0 (x_np r) /\ bounds_ok (nvmax c) 0 (x_dof r).
Proof. exact alloc_in_bounds_fx. Qed.
Print Assumptions C16_alloc_in_bounds.

(* ---- the regenerated skeleton ---- *)

(* the guards of EVERY extracted builder are at least as strict as "does not fit":
   C16_alloc_in_bounds applies to the current tree *)
Theorem C16_current_builders_safe : safe_builders (row_builders ++ slot_builders) = true.
Proof. exact eq_refl. Qed.
Print Assumptions C16_current_builders_safe.

(* write_contact, _add_geom_pair, _compact_dofs have exact guards *)
Theorem C16_current_slot_builders_wf : wf_builders false slot_builders = true.
Proof. exact eq_refl. Qed.
Print Assumptions C16_current_slot_builders_wf.

(* dense Jacobian: every row builder other than the two of F1 has an exact guard *)
Theorem C16_current_dense_row_builders_wf_except_connect_weld :
  wf_builders false
    (filter (fun b => negb (String.eqb (b_name b) "_equality_connect" || String.eqb (b_name b) "_equality_weld"))
            row_builders) = true.
Proof. exact eq_refl. Qed.
Print Assumptions C16_current_dense_row_builders_wf_except_connect_weld.

(* dense Jacobian: every row builder of the current tree has an exact guard (F1 repaired) *)
Theorem C16_current_dense_row_builders_wf : wf_builders_fx nnz_fix false row_builders = true.
Proof. exact eq_refl. Qed.
Print Assumptions C16_current_dense_row_builders_wf.

(* sparse Jacobian: with the repairs found in make_constraint (nnz_fix) every row builder is
   well-formed -- the njmax_nnz class (F2) is repaired in the current tree *)
Theorem C16_current_sparse_row_builders_wf : wf_builders_fx nnz_fix true row_builders = true.
Proof. exact eq_refl. Qed.
Print Assumptions C16_current_sparse_row_builders_wf.

(* the repairs (zeroing, NJMAX_NNZ flag, clamp) are launched under `if m.is_sparse:` and no other
   condition of make_constraint (not inside a disable-flag block), and forward._advance launches
   _next_time unconditionally: the model's overflow word is computed on every step *)
Theorem C16_current_nnz_fix_runs_whenever_sparse : nnz_fix_sparse_only = true.
Proof. exact eq_refl. Qed.
Print Assumptions C16_current_nnz_fix_runs_whenever_sparse.
Theorem C16_current_next_time_unconditional : next_time_unconditional = true.
Proof. exact eq_refl. Qed.
Print Assumptions C16_current_next_time_unconditional.

(* the probes of forward._next_time / _compact_dofs are the ones the model copies *)
Theorem C16_current_probes_match_model : probes_eqb overflow_probes expected_probes = true.
Proof. exact eq_refl. Qed.
Print Assumptions C16_current_probes_match_model.

(* never-silent for the current tree, conditional on the verdicts that are computed at run time *)
Theorem C16_current_fix_ok : fx_ok nnz_fix = true.
Proof. exact eq_refl. Qed.
Print Assumptions C16_current_fix_ok.

Theorem C16_never_silent_current_tree :
  forall sparse,
    wf_builders_fx nnz_fix sparse row_builders = true -> wf_builders false slot_builders = true ->
    forall c adr0 rnz0 ov0 rq,
      collision_runs collision_zero_cap_skip c ->
      requests_use_fx row_builders slot_builders rq -> meta_ok (njmax c) sparse adr0 rnz0 ->
      dropped (run_builders nnz_fix collision_zero_cap_skip c sparse adr0 rnz0 ov0 rq) = true ->
      overflow_any (run_builders nnz_fix collision_zero_cap_skip c sparse adr0 rnz0 ov0 rq) = true.
Proof. exact (fun sparse => never_silent_fx nnz_fix row_builders slot_builders sparse collision_zero_cap_skip C16_current_fix_ok). Qed.
Print Assumptions C16_never_silent_current_tree.

(* never-silent for the current tree, unconditionally (dense and sparse), whenever the collision
   pipeline is launched; the remaining exception is [C16_never_silent_refuted_nacon0] *)
Theorem C16_never_silent_current_tree_holds :
  forall sparse c adr0 rnz0 ov0 rq,
    collision_runs collision_zero_cap_skip c ->
    requests_use_fx row_builders slot_builders rq -> meta_ok (njmax c) sparse adr0 rnz0 ->
    dropped (run_builders nnz_fix collision_zero_cap_skip c sparse adr0 rnz0 ov0 rq) = true ->
    overflow_any (run_builders nnz_fix collision_zero_cap_skip c sparse adr0 rnz0 ov0 rq) = true.
Proof.
  exact (fun sparse =>
    never_silent_fx nnz_fix row_builders slot_builders sparse collision_zero_cap_skip C16_current_fix_ok
      (match sparse as s return wf_builders_fx nnz_fix s row_builders = true with
       | true => C16_current_sparse_row_builders_wf | false => C16_current_dense_row_builders_wf end)
      C16_current_slot_builders_wf).
Qed.
Print Assumptions C16_never_silent_current_tree_holds.

(* ---- refutations: explicit OLD builder values and the unrepaired scheme [nofix]; kept as
   documentation of F1 / F2 (both repaired in the tree) and of the open naconmax = 0 finding;
   the inputs are regression cases of bin/props/C16.py ---- *)

(* F1  `if efcid >= njmax - 3: return`: one connect, njmax = 3 -> dropped, nefc = njmax, word 0 *)
Theorem C16_never_silent_refuted_fit :
  exists b c rq, safe_builder b = true /\ wf_fit b = false /\ requests_use [b] [] rq /\
    silent (run_builders nofix false c false [] [] 0 rq) /\
    s_n (x_efc (run_builders nofix false c false [] [] 0 rq)) = njmax c.
Proof. exact never_silent_refuted_fit. Qed.
Print Assumptions C16_never_silent_refuted_fit.

Theorem C16_never_silent_refuted_fit_weld :
  exists c rq, requests_use [weld_like] [] rq /\ silent (run_builders nofix false c false [] [] 0 rq).
Proof. exact never_silent_refuted_fit_weld. Qed.

(* any safe block guard that is not exactly "old + rows > cap" drops silently for some capacity *)
Theorem C16_exact_fit_necessary :
  forall b, b_perrow b = false -> safe_builder b = true -> wf_fit b = false ->
    exists cap, 0 <= cap /\
      let s := run_tasks cap 0 false [mkT b [mkQ 0 0 0 0 0]] (init_st [] []) in
      dropped_any s = true /\ ov_nefc cap s = false /\ s_n s <= cap.
Proof. exact exact_fit_necessary. Qed.
Print Assumptions C16_exact_fit_necessary.

(* F2  rowadr stored after the nnz guard: two rows of 2 non-zeros, njmax_nnz = 3 -> word 0 *)
Theorem C16_never_silent_refuted_nnz :
  exists b c rq, safe_builder b = true /\ wf_fit b = true /\ wf_nnz b = false /\ requests_use [b] [] rq /\
    silent (run_builders nofix false c true [0;0;0] [0;0;0] 0 rq) /\
    s_zdrop (x_efc (run_builders nofix false c true [0;0;0] [0;0;0] 0 rq)) <> [].
Proof. exact never_silent_refuted_nnz. Qed.
Print Assumptions C16_never_silent_refuted_nnz.

Theorem C16_never_silent_refuted_nnz_contact :
  exists c rq adr0, requests_use [contact_like] [] rq /\ List.length adr0 = 64%nat /\
    silent (run_builders nofix false c true adr0 adr0 0 rq).
Proof. exact never_silent_refuted_nnz_contact. Qed.

(* storing before the guard is not enough when the stored rownnz is the actual count (tendon) *)
Theorem C16_never_silent_refuted_nnz_inexact :
  exists c rq, requests_use [inexact_like] [] rq /\ silent (run_builders nofix false c true [0;0] [0;0] 0 rq).
Proof. exact never_silent_refuted_nnz_inexact. Qed.

(* collision() returns before any allocation when naconmax = 0: needed contacts vanish, word 0 *)
Theorem C16_never_silent_refuted_nacon0 :
  exists c rq, requests_use [] [slot_like] rq /\ wf_builders false [slot_like] = true /\
    silent (run_builders nofix true c false [] [] 0 rq).
Proof. exact never_silent_refuted_nacon0. Qed.
Print Assumptions C16_never_silent_refuted_nacon0.

(* ---- the hypotheses are satisfiable ---- *)
Example C16_wf_satisfiable :
  wf_builders true [connect_fixed; contact_fixed] = true /\ wf_builders false [slot_like] = true.
Proof. exact wf_satisfiable. Qed.

(* the repaired make_constraint (zero the metadata, flag the counter, clear out-of-range rows)
   needs only exact guards: the F2 witness is flagged, the exact fit is not *)
Example C16_repaired_flags_F2 :
  let rq := mkReqs [mkT joint_like [mkQ 0 0 0 2 2]; mkT joint_like [mkQ 0 1 0 2 2]] [] [] [] in
  wf_builders_fx allfix true [joint_like; contact_like; inexact_like] = true /\
  x_word (run_builders allfix false (mkCaps 3 3 0 0) true [5;5;5] [7;7;7] 0 rq) = 2 /\
  s_rnz (x_efc (run_builders allfix false (mkCaps 3 3 0 0) true [5;5;5] [7;7;7] 0 rq)) = [2; 2; 0] /\
  x_word (run_builders allfix false (mkCaps 3 4 0 0) true [5;5;5] [7;7;7] 0 rq) = 0.
Proof. exact repaired_flags_F2. Qed.

Example C16_repaired_flags_contact_inexact :
  let rq1 := mkReqs [mkT contact_like [mkQ 6 0 4 6 6]; mkT contact_like [mkQ 6 1 4 6 6]; mkT contact_like [mkQ 6 2 4 6 6]] [] [] [] in
  let rq2 := mkReqs [mkT inexact_like [mkQ 0 0 0 2 2]; mkT inexact_like [mkQ 0 1 0 2 1]] [] [] [] in
  x_word (run_builders allfix false (mkCaps 64 71 0 0) true (repeat 0 64) (repeat 0 64) 0 rq1) = 2 /\
  x_word (run_builders allfix false (mkCaps 64 72 0 0) true (repeat 0 64) (repeat 0 64) 0 rq1) = 0 /\
  x_word (run_builders allfix false (mkCaps 2 3 0 0) true [0;0] [0;0] 0 rq2) = 2 /\
  x_word (run_builders allfix false (mkCaps 2 4 0 0) true [0;0] [0;0] 0 rq2) = 0.
Proof. exact repaired_flags_contact_inexact. Qed.
