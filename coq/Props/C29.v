(* Props/C29.v -- C29 "Sleeping follows MuJoCo's sleep semantics" and the sleep part of C11
   (schedule independence of waking).  Statements only; every proof is `exact <lemma of
   Proof/Sleep.v>`.  All functions are the hand-written model Model/Sleep.v of
   /repo/mujoco_warp/_src/sleep.py; bin/props/C29.py evaluates that model inside Coq against the
   real kernels on generated inputs on every run.

   Vocabulary (Proof/Sleep.v):
     cycles_wf ta cs   the non-negative entries of tree_asleep `ta` are exactly the members of the
                       pairwise disjoint lists `cs`, and ta maps every member to its cyclic successor
     WF ta             exists cs, cycles_wf ta cs
     same_cycle cs t u t and u are members of the same list of cs
     snapshot_of a aw  aw is tree_awake as update_sleep computes it from a (1 iff a[t] < 0)
     snapshot_ok aw a  aw has entries 0/1 and never calls a currently sleeping tree awake
     a launch          a fold of the task function over a task list; a schedule = a Permutation of it *)
From Coq Require Import ZArith List Bool Permutation.
From VF Require Import Model.Sleep Proof.Sleep.
Import ListNotations.
Local Open Scope Z_scope.

(* ---------------- cycle structure is an invariant ---------------- *)
(* reachable: from an all-awake state by any sequence of wake / wake_collision / wake_tendon /
   wake_equality / sleep launches, each with an ARBITRARY task list (so every schedule) and arbitrary
   island / model arrays, where wake_collision is given a tree_awake that does not call a sleeping tree
   awake (update_sleep runs before it) *)
Theorem C29_cycles_wf_invariant : forall ta, sleep_reachable ta -> WF ta.
Proof. exact cycles_wf_invariant. Qed.
Print Assumptions C29_cycles_wf_invariant.

(* what WF means pointwise: next-pointers of sleeping trees stay among sleeping trees and are injective,
   i.e. tree_asleep restricted to the sleeping trees is a permutation of them *)
Theorem C29_cycles_closed : forall ta cs t, cycles_wf ta cs -> 0 <= t < zlen ta -> 0 <= getZ ta t ->
  0 <= getZ ta t < zlen ta /\ 0 <= getZ ta (getZ ta t).
Proof. exact WF_next_asleep. Qed.
Print Assumptions C29_cycles_closed.

Theorem C29_cycles_injective : forall ta cs s t, cycles_wf ta cs ->
  0 <= s < zlen ta -> 0 <= t < zlen ta -> 0 <= getZ ta s -> getZ ta s = getZ ta t -> s = t.
Proof. exact WF_injective. Qed.
Print Assumptions C29_cycles_injective.

(* countdowns of awake trees stay in [K_AWAKE, -1] on reachable states *)
Theorem C29_countdown_range_invariant : forall ta, sleep_reachable ta ->
  forall u, 0 <= u < zlen ta -> getZ ta u < 0 -> K_AWAKE <= getZ ta u.
Proof. exact countdown_range_invariant. Qed.
Print Assumptions C29_countdown_range_invariant.

(* ---------------- _wake_tree ---------------- *)
Theorem C29_wake_tree_wakes_cycle : forall ta cs t w u,
  cycles_wf ta cs -> same_cycle cs t u -> getZ (wake_tree ta t w) u = w.
Proof. exact wake_tree_wakes_cycle. Qed.
Print Assumptions C29_wake_tree_wakes_cycle.

Theorem C29_wake_tree_other_untouched : forall ta cs t w u,
  cycles_wf ta cs -> In t (concat cs) -> 0 <= u -> ~ same_cycle cs t u ->
  getZ (wake_tree ta t w) u = getZ ta u.
Proof. exact wake_tree_other_untouched. Qed.
Print Assumptions C29_wake_tree_other_untouched.

(* for any tree id (out of range, awake, asleep) and any negative wake value the cycle structure survives *)
Theorem C29_wake_tree_preserves_cycles : forall ta cs t w, cycles_wf ta cs -> w < 0 ->
  exists cs', cycles_wf (wake_tree ta t w) cs' /\ incl cs' cs.
Proof. exact wake_tree_wf. Qed.
Print Assumptions C29_wake_tree_preserves_cycles.

(* ---------------- sleep() ---------------- *)
(* sleep() keeps every existing cycle (for ANY island assignment: islands that contain a sleeping tree are
   vetoed by _check_island_can_sleep) and the cycles it creates are exactly tree sets of islands (in
   ascending tree order) or self-cycles of unconstrained trees *)
Theorem C29_sleep_step_cycles : forall can nisland ti ta cs,
  cycles_wf ta cs ->
  exists newc, cycles_wf (sleep_step can nisland ti ta) (cs ++ newc) /\
    forall c, In c newc ->
      (exists i, 0 <= i < nisland /\ c = island_trees ti i (zlen ta) /\ c <> []) \/
      (exists t, c = [t] /\ 0 <= t < zlen ta /\ ~ (0 <= getZ ti t < nisland)).
Proof. exact sleep_step_cycles. Qed.
Print Assumptions C29_sleep_step_cycles.

(* a tree falls asleep only if every tree of its island can sleep now (below tolerance, no applied
   force, policy allows) with countdown -1 or -2 (= -1 after this sweep); an unconstrained tree only if
   that holds for itself *)
Theorem C29_sleep_needs_all : forall can nisland ti ta t,
  0 <= t < zlen ta -> getZ ta t < 0 -> 0 <= getZ (sleep_step can nisland ti ta) t ->
  (0 <= getZ ti t < nisland /\
   forall u, 0 <= u < zlen ta -> getZ ti u = getZ ti t ->
     getB can u = true /\ (getZ ta u = -1 \/ getZ ta u = -2)) \/
  (~ (0 <= getZ ti t < nisland) /\ getB can t = true /\ (getZ ta t = -1 \/ getZ ta t = -2)).
Proof. exact sleep_needs_all. Qed.
Print Assumptions C29_sleep_needs_all.

(* every tree that falls asleep in sleep() has qvel = qacc = 0 written by that call *)
Theorem C29_sleep_zeroes_asleep : forall can nisland ti ta t,
  0 <= t < zlen ta -> getZ ta t < 0 -> 0 <= getZ (sleep_step can nisland ti ta) t ->
  In t (build_cycles_zeroed nisland ti (sleep_ics can nisland ti ta) (sleep_step can nisland ti ta)).
Proof. exact sleep_zeroes_asleep. Qed.
Print Assumptions C29_sleep_zeroes_asleep.

(* documentation of the repaired defect (fixed: C29:sleep:cycle-relinked-while-asleep): with the OLD veto
   `as_val < -1` (sleep_step_old, Proof/Sleep.v) an island containing a sleeping tree was re-linked:
   tree_asleep [1,0] with island {0} became [0,0], not a permutation; the current sleep_step leaves it alone.
   The check keeps the two-box friction-loss scene as a regression case under the same key. *)
Theorem C29_sleep_step_old_veto_refuted :
  exists can nisland ti ta, WF ta /\ ~ WF (sleep_step_old can nisland ti ta) /\ sleep_step can nisland ti ta = ta.
Proof. exact sleep_step_old_veto_refuted. Qed.
Print Assumptions C29_sleep_step_old_veto_refuted.

(* _sweep_awake_trees: same result for every task order *)
Theorem C29_sweep_sched : forall can tasks a, Permutation tasks (zrange (zlen a)) ->
  sweep_launch can tasks a = sweep_launch can (zrange (zlen a)) a.
Proof. exact sweep_sched. Qed.
Print Assumptions C29_sweep_sched.

(* ---------------- C11: schedules of the wake kernels ---------------- *)
(* REFUTED: the tree_asleep written by wake_collision depends on the order of the contact list
   (F7: 4 trees, tree_asleep [-3,-7,3,2], contacts (0,2),(1,3) -> [-3,-7,-3,-7]; swapped -> [-3,-7,-7,-7]).
   Replayed on the real kernel: key C29:wake:order-dependent-countdown *)
Theorem C29_wake_sched_refuted :
  exists bt gb aw cons cons' ta,
    WF ta /\ snapshot_of ta aw /\ Permutation cons cons' /\
    wake_collision_launch bt gb aw cons ta <> wake_collision_launch bt gb aw cons' ta.
Proof. exact wake_sched_refuted. Qed.
Print Assumptions C29_wake_sched_refuted.

(* what does hold for EVERY order of the contact list: the two results have the same length and at
   every tree either both are awake (negative; the countdowns may differ) or the entries are equal
   (in particular: same set of awake trees, same cycle pointers) *)
Theorem C29_wake_collision_awake_set_sched : forall a0 cs bt gb aw cons cons',
  cycles_wf a0 cs -> snapshot_of a0 aw -> Permutation cons cons' ->
  let r := wake_collision_launch bt gb aw cons a0 in
  let r' := wake_collision_launch bt gb aw cons' a0 in
  zlen r = zlen r' /\
  forall u, 0 <= u < zlen r -> (getZ r u < 0 /\ getZ r' u < 0) \/ getZ r u = getZ r' u.
Proof. exact wake_collision_awake_set_sched. Qed.
Print Assumptions C29_wake_collision_awake_set_sched.

(* complete description of wake_collision for every order (tree level; wake_collision_launch is this
   launch on the geoms' trees, lemma wake_collision_launch_trees): trees awake before keep their
   countdown; a sleeping tree is woken iff its cycle contains a tree that touches an awake tree;
   other sleeping trees keep their pointer; a woken tree's countdown is the countdown of SOME tree that
   was awake before *)
Theorem C29_wake_collision_spec : forall a0 cs aw ps, cycles_wf a0 cs -> snapshot_of a0 aw ->
  let r := wake_collision_trees_launch aw ps a0 in
  let target x := In x (flat_map (coll_targets aw) ps) in
  zlen r = zlen a0 /\
  (forall u, 0 <= u < zlen a0 -> getZ a0 u < 0 -> getZ r u = getZ a0 u) /\
  (forall u, 0 <= u < zlen a0 -> 0 <= getZ a0 u ->
     (getZ r u = getZ a0 u /\ ~ (exists t, target t /\ same_cycle cs t u)) \/
     (getZ r u < 0 /\ (exists t, 0 <= t < zlen a0 /\ getZ a0 t < 0 /\ getZ r u = getZ a0 t) /\
      (exists t, target t /\ same_cycle cs t u))).
Proof.
  intros a0 cs aw ps W S. destruct (wake_collision_trees_spec a0 cs aw ps W S) as [A B C].
  exact (conj A (conj B C)).
Qed.
Print Assumptions C29_wake_collision_spec.

(* sleep.wake (user perturbation): identical result for every task order *)
Theorem C29_wake_sched : forall a0 cs aw can0 tasks tasks',
  cycles_wf a0 cs -> (forall t, In t tasks -> 0 <= t < zlen a0) -> Permutation tasks tasks' ->
  wake_launch aw can0 tasks a0 = wake_launch aw can0 tasks' a0.
Proof. exact wake_sched. Qed.
Print Assumptions C29_wake_sched.

(* wake_tendon / wake_equality: same awake set for every order; identical result when no countdown is
   below K_AWAKE (true on reachable states: C29_countdown_range_invariant) *)
Theorem C29_wake_tendon_awake_set_sched : forall a0 cs M aw active tasks tasks',
  cycles_wf a0 cs -> snapshot_of a0 aw -> Permutation tasks tasks' ->
  same_awake_set (wake_tendon_launch M aw active tasks a0) (wake_tendon_launch M aw active tasks' a0).
Proof. exact wake_tendon_awake_set_sched. Qed.
Print Assumptions C29_wake_tendon_awake_set_sched.

Theorem C29_wake_tendon_sched : forall a0 cs M aw active tasks tasks',
  cycles_wf a0 cs -> snapshot_of a0 aw ->
  (forall u, 0 <= u < zlen a0 -> getZ a0 u < 0 -> K_AWAKE <= getZ a0 u) -> Permutation tasks tasks' ->
  wake_tendon_launch M aw active tasks a0 = wake_tendon_launch M aw active tasks' a0.
Proof. exact wake_tendon_sched. Qed.
Print Assumptions C29_wake_tendon_sched.

Theorem C29_wake_equality_awake_set_sched : forall a0 cs M E act aw tasks tasks',
  cycles_wf a0 cs -> snapshot_of a0 aw -> Permutation tasks tasks' ->
  same_awake_set (wake_equality_launch M E act aw tasks a0) (wake_equality_launch M E act aw tasks' a0).
Proof. exact wake_equality_awake_set_sched. Qed.
Print Assumptions C29_wake_equality_awake_set_sched.

Theorem C29_wake_equality_sched : forall a0 cs M E act aw tasks tasks',
  cycles_wf a0 cs -> snapshot_of a0 aw ->
  (forall u, 0 <= u < zlen a0 -> getZ a0 u < 0 -> K_AWAKE <= getZ a0 u) -> Permutation tasks tasks' ->
  wake_equality_launch M E act aw tasks a0 = wake_equality_launch M E act aw tasks' a0.
Proof. exact wake_equality_sched. Qed.
Print Assumptions C29_wake_equality_sched.

(* ---------------- C11: update_sleep ---------------- *)
(* tree_awake and ntree_awake: identical for every order *)
Theorem C29_update_sleep_trees_sched : forall ta n tasks c aw, Permutation tasks (zrange n) -> zlen aw = n ->
  update_trees_launch ta tasks (c, aw) = update_trees_launch ta (zrange n) (c, aw).
Proof. exact update_sleep_trees_sched. Qed.
Print Assumptions C29_update_sleep_trees_sched.

(* body_awake_ind / dof_awake_ind (slots handed out by atomic_add): for every order the first
   nbody_awake / nv_awake entries are a permutation of the awake (or static) bodies / awake dofs *)
Theorem C29_update_sleep_bodies_sched : forall br bm bt aw flg nbody tasks ba ind,
  Permutation tasks (zrange nbody) -> zlen ind = nbody -> 0 <= nbody ->
  let r := update_bodies_launch br bm bt aw flg tasks (0, ba, ind) in
  let awake := filter (fun b => negb (body_state br bm bt aw flg b =? S_ASLEEP)) (zrange nbody) in
  fst (fst r) = zlen awake /\ Permutation (firstn (Z.to_nat (fst (fst r))) (snd r)) awake.
Proof. exact update_sleep_bodies_sched. Qed.
Print Assumptions C29_update_sleep_bodies_sched.

Theorem C29_update_sleep_dofs_sched : forall bt db ba nv tasks ind,
  Permutation tasks (zrange nv) -> zlen ind = nv -> 0 <= nv ->
  let r := update_dofs_launch bt db ba tasks (0, ind) in
  let awake := filter (fun d => (getZ bt (getZ db d) >=? 0) && (getZ ba (getZ db d) =? S_AWAKE)) (zrange nv) in
  fst r = zlen awake /\ Permutation (firstn (Z.to_nat (fst r)) (snd r)) awake.
Proof. exact update_sleep_dofs_sched. Qed.
Print Assumptions C29_update_sleep_dofs_sched.

(* ---------------- non-vacuity ---------------- *)
(* the hypotheses cycles_wf / snapshot_of are met by the F7 state (two awake trees, one 2-cycle) *)
Example C29_hypotheses_satisfiable : cycles_wf [-3; -7; 3; 2] [[2; 3]] /\ snapshot_of [-3; -7; 3; 2] [1; 1; 0; 0].
Proof. exact (conj f7_wf f7_snapshot). Qed.

(* a reachable state with a sleeping island: sleep() on [-2,-1,-3] with island {0,1} ready *)
Example C29_reachable_nontrivial : sleep_reachable [1; 0; -11].
Proof. exact sleep_reachable_nontrivial. Qed.
