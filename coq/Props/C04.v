(* Props/C04.v -- C04 "Collision detection agrees with MuJoCo C": the per-pair PARAMETER logic
   and the contact writer.  Statements only; every proof is `exact <lemma of Proof/ContactParams.v>`.

   contact_margin_gap, contact_material_params, contact_params and write_contact_decision are the
   definitions REGENERATED from /repo/mujoco_warp/_src/collision_core.py in Gen/collision_core.v
   (write_contact_decision = the side-effect-free prefix of write_contact).  Model arrays are total
   functions of their indices; `x.shape[0]` of a batched array is the trailing parameter x__shape0 (n.. here);
   Z.rem is Warp's `%`.  mj_contact_param (Model/ContactParams.v) is the reference rule of MuJoCo's
   mj_contactParam.  Scalars are real numbers: float32 rounding is covered by T-validation against the
   compiled Warp functions and by the oracle against mujoco.mj_collision (bin/props/C04.py), not here.

   Not here (other properties): pair table / broadphase (C19, C18), allocation under concurrency (C16),
   contact geometry (C20). *)
From Coq Require Import String ZArith Reals List Bool.
From VF Require Import Base.Scalar Base.ScalarR Base.Vec Base.Loop Gen.collision_core Model.ContactParams Proof.ContactParams.
Import ListNotations.
Local Open Scope R_scope.

(* ---- explicit <pair>: the pair's parameters verbatim (friction floored at mjMINMU) ---- *)
Theorem C04_pair_params_verbatim :
  forall (gc gp : Z -> Z) (gsm : Z -> Z -> R) (gsr gsi gf : Z -> Z -> list R) (ga : Z -> Z -> R)
         (pd : Z -> Z) (psr psrf psi : Z -> Z -> list R) (pa : Z -> Z -> R) (pf : Z -> Z -> list R)
         (geoms : list Z) (pairid w npf npsr npsrf npsi npa nsm nf nsr nsi na : Z),
    (pairid > -1)%Z ->
    contact_material_params gc gp gsm gsr gsi gf ga pd psr psrf psi pa pf geoms pairid w
      npf npsr npsrf npsi npa nsm nf nsr nsi na
    = (pd pairid, floor5 (pf (Z.rem w npf) pairid), psr (Z.rem w npsr) pairid,
       psrf (Z.rem w npsrf) pairid, psi (Z.rem w npsi) pairid, pa (Z.rem w npa) pairid).
Proof. exact material_pair_verbatim. Qed.
Print Assumptions C04_pair_params_verbatim.

Theorem C04_pair_margin_gap_verbatim :
  forall (gm gg pm pg : Z -> Z -> R) geoms pairid w n1 n2 n3 n4,
    (pairid > -1)%Z ->
    contact_margin_gap gm gg pm pg geoms pairid w n1 n2 n3 n4
    = (pm (Z.rem w n1) pairid, pg (Z.rem w n2) pairid).
Proof. exact margin_gap_pair. Qed.
Print Assumptions C04_pair_margin_gap_verbatim.

(* ---- no explicit pair: margin and gap are the SUMS of the two geoms' (mujoco 3.13 behaviour) ---- *)
Theorem C04_geom_margin_gap_sum :
  forall (gm gg pm pg : Z -> Z -> R) geoms pairid w n1 n2 n3 n4,
    (pairid <= -1)%Z ->
    contact_margin_gap gm gg pm pg geoms pairid w n1 n2 n3 n4
    = (gm (Z.rem w n3) (zget geoms 0) + gm (Z.rem w n3) (zget geoms 1),
       gg (Z.rem w n4) (zget geoms 0) + gg (Z.rem w n4) (zget geoms 1)).
Proof. exact margin_gap_geoms. Qed.
Print Assumptions C04_geom_margin_gap_sum.

(* ---- mix_rule: priority / solmix / max-friction / condim / solref rule = mj_contactParam, for EVERY input
        (until commit c20ef50 this needed "priorities equal or both solref positive"; the refuted case is
        kept below as the regression witness C04_priority_direct_solref_witness) ---- *)
Theorem C04_mix_rule :
  forall (gc gp : Z -> Z) (gsm : Z -> Z -> R) (gsr gsi gf : Z -> Z -> list R) (ga : Z -> Z -> R)
         (pd : Z -> Z) (psr psrf psi : Z -> Z -> list R) (pa : Z -> Z -> R) (pf : Z -> Z -> list R)
         (geoms : list Z) (pairid w npf npsr npsrf npsi npa nsm nf nsr nsi na : Z),
    let A := geom_of gc gp gsm gsr gsi gf ga w nsm nf nsr nsi na (zget geoms 0) in
    let B := geom_of gc gp gsm gsr gsi gf ga w nsm nf nsr nsi na (zget geoms 1) in
    (pairid <= -1)%Z ->
    length (g_solref A) = 2%nat -> length (g_solref B) = 2%nat ->
    length (g_solimp A) = 5%nat -> length (g_solimp B) = 5%nat ->
    length (g_friction A) = 3%nat -> length (g_friction B) = 3%nat ->
    contact_material_params gc gp gsm gsr gsi gf ga pd psr psrf psi pa pf geoms pairid w
      npf npsr npsrf npsi npa nsm nf nsr nsi na
    = mj_contact_param A B.
Proof. exact material_mix_rule. Qed.
Print Assumptions C04_mix_rule.

(* the solmix weight, corner cases included (both < mjMINVAL: 1/2; one < mjMINVAL: 0 or 1) *)
Theorem C04_solmix_weight :
  forall m1 m2 : R, mjw_mix m1 m2 = mj_mix m1 m2.
Proof. exact mjw_mix_rule. Qed.
Print Assumptions C04_solmix_weight.

(* ---- different priorities: every parameter, solref in either format included, is the higher-priority geom's ---- *)
Theorem C04_priority_second_geom :
  forall (gc gp : Z -> Z) (gsm : Z -> Z -> R) (gsr gsi gf : Z -> Z -> list R) (ga : Z -> Z -> R)
         (pd : Z -> Z) (psr psrf psi : Z -> Z -> list R) (pa : Z -> Z -> R) (pf : Z -> Z -> list R)
         (geoms : list Z) (pairid w npf npsr npsrf npsi npa nsm nf nsr nsi na : Z),
    let A := geom_of gc gp gsm gsr gsi gf ga w nsm nf nsr nsi na (zget geoms 0) in
    let B := geom_of gc gp gsm gsr gsi gf ga w nsm nf nsr nsi na (zget geoms 1) in
    (pairid <= -1)%Z ->
    length (g_solref A) = 2%nat -> length (g_solref B) = 2%nat ->
    length (g_solimp A) = 5%nat -> length (g_solimp B) = 5%nat ->
    length (g_friction A) = 3%nat -> length (g_friction B) = 3%nat ->
    (g_priority B > g_priority A)%Z ->
    contact_material_params gc gp gsm gsr gsi gf ga pd psr psrf psi pa pf geoms pairid w
      npf npsr npsrf npsi npa nsm nf nsr nsi na
    = (g_condim B, unpack_friction (g_friction B), g_solref B, [0; 0], g_solimp B, g_adhesion B).
Proof. exact material_priority_second. Qed.
Print Assumptions C04_priority_second_geom.

Theorem C04_priority_first_geom :
  forall (gc gp : Z -> Z) (gsm : Z -> Z -> R) (gsr gsi gf : Z -> Z -> list R) (ga : Z -> Z -> R)
         (pd : Z -> Z) (psr psrf psi : Z -> Z -> list R) (pa : Z -> Z -> R) (pf : Z -> Z -> list R)
         (geoms : list Z) (pairid w npf npsr npsrf npsi npa nsm nf nsr nsi na : Z),
    let A := geom_of gc gp gsm gsr gsi gf ga w nsm nf nsr nsi na (zget geoms 0) in
    let B := geom_of gc gp gsm gsr gsi gf ga w nsm nf nsr nsi na (zget geoms 1) in
    (pairid <= -1)%Z ->
    length (g_solref A) = 2%nat -> length (g_solref B) = 2%nat ->
    length (g_solimp A) = 5%nat -> length (g_solimp B) = 5%nat ->
    length (g_friction A) = 3%nat -> length (g_friction B) = 3%nat ->
    (g_priority A > g_priority B)%Z ->
    contact_material_params gc gp gsm gsr gsi gf ga pd psr psrf psi pa pf geoms pairid w
      npf npsr npsrf npsi npa nsm nf nsr nsi na
    = (g_condim A, unpack_friction (g_friction A), g_solref A, [0; 0], g_solimp A, g_adhesion A).
Proof. exact material_priority_first. Qed.
Print Assumptions C04_priority_first_geom.

(* ---- regression witness of the repaired finding C04:contact_material_params:priority-direct-solref:
        geom 1 has the higher priority and solref (0.02, 1), geom 0 the direct-format solref (-100, -10): the
        contact gets (0.02, 1) (the code used to return the element-wise minimum (-100, -10)).
        bin/props/C04.py replays it on the real kernel and on mujoco.mj_collision ---- *)
Theorem C04_priority_direct_solref_witness :
  let '(_, _, solref, _, _, _) :=
    contact_material_params (fun _ => 3%Z) (fun g => g) (fun _ _ => 1) wit_solref wit_solimp wit_friction (fun _ _ => 0)
      (fun _ => 0%Z) wit_nil wit_nil wit_nil (fun _ _ => 0) wit_nil [0%Z; 1%Z] (-1) 0 1 1 1 1 1 1 1 1 1 1 in
  solref = [2/100; 1].
Proof. exact priority_direct_solref_witness. Qed.
Print Assumptions C04_priority_direct_solref_witness.

(* ---- friction floor on every path ---- *)
Theorem C04_friction_floor :
  forall (gc gp : Z -> Z) (gsm : Z -> Z -> R) (gsr gsi gf : Z -> Z -> list R) (ga : Z -> Z -> R)
         (pd : Z -> Z) (psr psrf psi : Z -> Z -> list R) (pa : Z -> Z -> R) (pf : Z -> Z -> list R)
         (geoms : list Z) (pairid w npf npsr npsrf npsi npa nsm nf nsr nsi na : Z),
    let '(_, fr, _, _, _, _) := contact_material_params gc gp gsm gsr gsi gf ga pd psr psrf psi pa pf
                                  geoms pairid w npf npsr npsrf npsi npa nsm nf nsr nsi na in
    length fr = 5%nat /\ Forall (fun x => MU <= x) fr.
Proof. exact material_friction_floor. Qed.
Print Assumptions C04_friction_floor.

(* ---- write_contact ---- *)
(* skipped (pair filtered out or not within margin+gap, and no collision sensor): nothing happens *)
Theorem C04_write_contact_skipped :
  forall (naconmax nefc nacon id_ : Z) (dist : R) (pos frame : list R) (margin gap : R) (condim : Z)
         (friction solref solreffriction solimp : list R) (adhesion : R) (geoms pairid : list Z) (worldid : Z),
    skipped dist margin gap pairid ->
    write_contact_model naconmax nefc nacon id_ dist pos frame margin gap condim friction solref
      solreffriction solimp adhesion geoms pairid worldid = (0%Z, nacon, None).
Proof. exact write_contact_skipped. Qed.
Print Assumptions C04_write_contact_skipped.

(* otherwise, with room in the buffer, slot `nacon` receives exactly: dist/pos/frame/geoms (order kept)/
   parameters verbatim, includemargin = margin (NOT margin - gap), dim = 1 for an adhesive contact beyond
   the margin else condim, type bits CONSTRAINT (pair not filtered and dist < margin + gap) and SENSOR *)
Theorem C04_write_contact_stored :
  forall (naconmax nefc nacon id_ : Z) (dist : R) (pos frame : list R) (margin gap : R) (condim : Z)
         (friction solref solreffriction solimp : list R) (adhesion : R) (geoms pairid : list Z) (worldid : Z),
    ~ skipped dist margin gap pairid -> (nacon < naconmax)%Z ->
    write_contact_model naconmax nefc nacon id_ dist pos frame margin gap condim friction solref
      solreffriction solimp adhesion geoms pairid worldid
    = ((if activeb dist margin gap adhesion then 1 else 0)%Z, (nacon + 1)%Z,
       Some (nacon, mkContact dist pos frame geoms worldid margin (stored_dim dist margin condim adhesion)
                      friction solref solreffriction solimp adhesion (stored_type dist margin gap pairid) id_
                      (repeat (-1)%Z (Z.to_nat nefc)))).
Proof. exact write_contact_stored. Qed.
Print Assumptions C04_write_contact_stored.

Theorem C04_write_contact_overflow :
  forall (naconmax nefc nacon id_ : Z) (dist : R) (pos frame : list R) (margin gap : R) (condim : Z)
         (friction solref solreffriction solimp : list R) (adhesion : R) (geoms pairid : list Z) (worldid : Z),
    ~ skipped dist margin gap pairid -> (naconmax <= nacon)%Z ->
    write_contact_model naconmax nefc nacon id_ dist pos frame margin gap condim friction solref
      solreffriction solimp adhesion geoms pairid worldid = (0%Z, (nacon + 1)%Z, None).
Proof. exact write_contact_overflow. Qed.
Print Assumptions C04_write_contact_overflow.

(* write_contact_active: return value 1  <->  stored and (dist < margin or (adhesion <> 0 and dist < margin + gap)) *)
Theorem C04_write_contact_active :
  forall (naconmax nefc nacon id_ : Z) (dist : R) (pos frame : list R) (margin gap : R) (condim : Z)
         (friction solref solreffriction solimp : list R) (adhesion : R) (geoms pairid : list Z) (worldid : Z),
    fst (fst (write_contact_model naconmax nefc nacon id_ dist pos frame margin gap condim friction solref
                solreffriction solimp adhesion geoms pairid worldid)) = 1%Z
    <-> (~ skipped dist margin gap pairid /\ (nacon < naconmax)%Z /\ active dist margin gap adhesion).
Proof. exact write_contact_active. Qed.
Print Assumptions C04_write_contact_active.

(* the decision prefix regenerated from write_contact, in closed form *)
Theorem C04_write_contact_decision :
  forall (dist margin gap : R) (condim : Z) (adhesion : R) (pairid : list Z),
    write_contact_decision dist margin gap condim adhesion pairid
    = if skippedb dist margin gap pairid then (0, 0, 0, 0)%Z
      else (1%Z, if activeb dist margin gap adhesion then 1%Z else 0%Z,
            stored_dim dist margin condim adhesion, stored_type dist margin gap pairid).
Proof. exact decision_eq. Qed.
Print Assumptions C04_write_contact_decision.

(* the stores of the real write_contact (regenerated table) are the ones the model encodes *)
Theorem C04_write_contact_stores :
  write_contact_writes = @expected_writes /\
  write_contact_counter = "wp.atomic_add(nacon_out, 0, 1)"%string /\
  write_contact_guard = "cid < naconmax_in"%string /\
  write_contact_ret_stored = "int(active)"%string /\ write_contact_ret_overflow = "0"%string.
Proof. exact (conj writes_table writes_shape). Qed.
Print Assumptions C04_write_contact_stores.

(* contact_params is the composition of the two functions above on the pair read at `cid` *)
Theorem C04_contact_params_compose :
  forall gc gp gsm gsr gsi gf gm gg ga pd psr psrf psi pm pg pa pf (cp cpid : Z -> list Z) cid w
         n1 n2 n3 n4 npf npsr npsrf npsi npa nsm nf nsr nsi na,
    @contact_params R ScalarR gc gp gsm gsr gsi gf gm gg ga pd psr psrf psi pm pg pa pf cp cpid cid w
      n1 n2 n3 n4 npf npsr npsrf npsi npa nsm nf nsr nsi na
    = let geoms := cp cid in
      let pairid := zget (cpid cid) 0 in
      let '(margin, gap) := contact_margin_gap gm gg pm pg geoms pairid w n1 n2 n3 n4 in
      let '(condim, friction, solref, solreffriction, solimp, adhesion) :=
        contact_material_params gc gp gsm gsr gsi gf ga pd psr psrf psi pa pf geoms pairid w
          npf npsr npsrf npsi npa nsm nf nsr nsi na in
      (geoms, margin, gap, condim, friction, solref, solreffriction, solimp, adhesion).
Proof. exact contact_params_compose. Qed.
Print Assumptions C04_contact_params_compose.

(* ---- non-vacuity ---- *)
(* hypotheses of C04_mix_rule / C04_priority_*_geom (shapes, different priorities) are satisfiable *)
Example C04_mix_rule_hyp_sat :
  let gsr := fun (_ _ : Z) => [2/100; 1] in
  let A := geom_of (fun _ => 3%Z) (fun g => g) (fun _ _ => 1) gsr wit_solimp wit_friction (fun _ _ => 0) 0 1 1 1 1 1 0%Z in
  let B := geom_of (fun _ => 3%Z) (fun g => g) (fun _ _ => 1) gsr wit_solimp wit_friction (fun _ _ => 0) 0 1 1 1 1 1 1%Z in
  length (g_solref A) = 2%nat /\ length (g_solimp B) = 5%nat /\ length (g_friction A) = 3%nat /\
  g_priority A <> g_priority B /\ 0 < vget (g_solref A) 0 /\ 0 < vget (g_solref B) 0.
Proof. exact mix_rule_hyp_sat. Qed.

(* an in-gap, non-adhesive contact is stored but inactive; an in-gap adhesive one is active with dim 1 *)
Example C04_in_gap_examples :
  let P := [(-1)%Z; (-1)%Z] in
  ~ skipped (12/100) (1/10) (5/100) P /\ ~ active (12/100) (1/10) (5/100) 0 /\
  active (12/100) (1/10) (5/100) (1/2) /\ stored_dim (12/100) (1/10) 4 (1/2) = 1%Z /\
  stored_dim (5/100) (1/10) 4 (1/2) = 4%Z /\ skipped (27/100) (1/10) (5/100) P.
Proof. exact in_gap_examples. Qed.
