(* Props/C03.v -- C03 "Actuation agrees with MuJoCo C": statements only; every proof is
   `exact <lemma of Proof/Act.v>`.

   `next_act` is the definition REGENERATED from /repo/mujoco_warp/_src/support.py (Gen/support_act.v).
   `act_force`, `act_dot_out`, `ctrl_used`, `ctrl_act_of`, `next_activation`, `ten_total`, `ten_clamp`,
   `qfrc_limit` are the hand model Model/Act.v of forward.py's `_actuator_force` (non-DC-motor paths),
   `_next_activation`, `_tendon_actuator_force(+_clamp)`, `_qfrc_actuator_gravcomp_limits`; the model is
   run at binary64 against the real kernels on every ./check (bin/props/C03.py).  Agreement with the
   MuJoCo C binary itself is TESTED (differential oracle), not proved. *)
From Coq Require Import ZArith Reals List Bool.
From VF Require Import Base.Scalar Base.ScalarR Base.Vec Gen.support_act Gen.util_misc Model.Act Proof.Act.
Import ListNotations.
Local Open Scope R_scope.

(* control clamping: with ctrllimited and CLAMPCTRL not disabled (dsbl = disableflags & CLAMPCTRL = 0)
   and a well-formed range, the control c the kernel uses lies in ctrlrange, equals ctrl inside the
   range and the nearer bound outside, and force / act_dot depend on ctrl only through c *)
Theorem C03_ctrl_clamped :
  forall (na : Z) (h : R) (dsbl : Z) (p : @ActPrm R) (ctrl act len vel : R),
    p_ctrllimited p = true -> dsbl = 0%Z ->
    vget (p_ctrlrange p) 0 <= vget (p_ctrlrange p) 1 ->
    let c := ctrl_used (p_ctrllimited p) dsbl (p_ctrlrange p) ctrl in
    vget (p_ctrlrange p) 0 <= c <= vget (p_ctrlrange p) 1
    /\ (vget (p_ctrlrange p) 0 <= ctrl <= vget (p_ctrlrange p) 1 -> c = ctrl)
    /\ (ctrl <= vget (p_ctrlrange p) 0 -> c = vget (p_ctrlrange p) 0)
    /\ (vget (p_ctrlrange p) 1 <= ctrl -> c = vget (p_ctrlrange p) 1)
    /\ act_force na h dsbl p ctrl act len vel = force_after_clamp na h p c act len vel
    /\ act_dot_out dsbl p ctrl act = act_dot_of (p_dyntype p) (p_dynprm p) c act.
Proof. exact ctrl_clamped. Qed.
Print Assumptions C03_ctrl_clamped.

(* ... and without the limit (or with the clamp disabled) the raw control is used *)
Theorem C03_ctrl_not_clamped :
  forall (na : Z) (h : R) (dsbl : Z) (p : @ActPrm R) (ctrl act len vel : R),
    p_ctrllimited p = false \/ dsbl <> 0%Z ->
    act_force na h dsbl p ctrl act len vel = force_after_clamp na h p ctrl act len vel
    /\ act_dot_out dsbl p ctrl act = act_dot_of (p_dyntype p) (p_dynprm p) ctrl act.
Proof. exact ctrl_not_clamped. Qed.
Print Assumptions C03_ctrl_not_clamped.

(* forcelimited: the actuator force lies in forcerange for every dyntype/gaintype/biastype the
   model covers (`modelled p`; the DC-motor bias adds cogging and friction AFTER the clamp in
   the code, deliberately, and is not modelled), every control, activation, length and velocity *)
Theorem C03_force_in_range :
  forall (na : Z) (h : R) (dsbl : Z) (p : @ActPrm R) (ctrl act len vel : R),
    p_forcelimited p = true ->
    vget (p_forcerange p) 0 <= vget (p_forcerange p) 1 ->
    vget (p_forcerange p) 0 <= act_force na h dsbl p ctrl act len vel <= vget (p_forcerange p) 1.
Proof. exact force_in_range. Qed.
Print Assumptions C03_force_in_range.

Theorem C03_force_unlimited :
  forall (na : Z) (h : R) (dsbl : Z) (p : @ActPrm R) (ctrl act len vel : R),
    p_forcelimited p = false ->
    act_force na h dsbl p ctrl act len vel =
    gain_of p len vel * ctrl_act_of na h p (ctrl_used (p_ctrllimited p) dsbl (p_ctrlrange p) ctrl) act
    + bias_of p len vel.
Proof. exact force_unlimited. Qed.
Print Assumptions C03_force_unlimited.

(* tendon force limit: after _tendon_actuator_force + _tendon_actuator_force_clamp the SUM of the
   forces of the actuators on a limited tendon is clamp(T, lo, hi), T the sum before, hence inside
   tendon_actfrcrange.  Hypotheses: lo <= hi, and T <> 0 whenever T is outside the range - the code
   divides by T there (see Example tendon_zero_total_nan in Proof/Act.v: +-inf forces, NaN total) *)
Theorem C03_tendon_limit_total :
  forall (limited : Z -> bool) (range : Z -> list R) (trn : list (Z * Z)) (force : list R) (tid : Z),
    limited tid = true ->
    let lo := vget (range tid) 0 in
    let hi := vget (range tid) 1 in
    let T := ten_total trn force tid in
    lo <= hi ->
    (T < lo \/ hi < T -> T <> 0) ->
    ten_total trn (ten_clamp limited range trn force) tid = Rclamp T lo hi
    /\ lo <= ten_total trn (ten_clamp limited range trn force) tid <= hi.
Proof. exact tendon_limit_total. Qed.
Print Assumptions C03_tendon_limit_total.

Theorem C03_tendon_clamp_other :
  forall (limited : Z -> bool) (range : Z -> list R) (tot : Z -> R) (ty id : Z) (f : R),
    ty <> TRN_TENDON \/ limited id = false -> ten_clamp_one limited range tot (ty, id) f = f.
Proof. exact ten_clamp_other. Qed.
Print Assumptions C03_tendon_clamp_other.

(* joint actuator-force limit: qfrc_actuator[dof] written by _qfrc_actuator_gravcomp_limits lies in
   jnt_actfrcrange, with or without actuator-level gravity compensation; unchanged when inside *)
Theorem C03_jnt_limit :
  forall (ge : bool) (agc : Z) (range : list R) (gc q : R),
    vget range 0 <= vget range 1 ->
    vget range 0 <= qfrc_limit ge agc true range gc q <= vget range 1.
Proof. exact jnt_limit. Qed.
Print Assumptions C03_jnt_limit.

Theorem C03_jnt_limit_id :
  forall (ge : bool) (agc : Z) (range : list R) (gc q : R),
    let q' := if ge && negb (agc =? 0)%Z then q + gc else q in
    vget range 0 <= q' <= vget range 1 -> qfrc_limit ge agc true range gc q = q'.
Proof. exact jnt_limit_id. Qed.
Print Assumptions C03_jnt_limit_id.

(* ---- next_act (machine-translated from support.py) ---- *)
(* integrator / filter / muscle / none: explicit Euler *)
Theorem C03_next_act_euler :
  forall (h : R) (dyn : Z) (prm rng : list R) (a ad sc : R),
    dyn <> 3%Z -> dyn <> 7%Z -> next_act h dyn prm rng a ad sc false = a + sc * ad * h.
Proof. exact next_act_euler. Qed.
Print Assumptions C03_next_act_euler.

(* filterexact: what the code computes, tau = max(MINVAL, dynprm[0]) *)
Theorem C03_next_act_filterexact :
  forall (h : R) (prm rng : list R) (a ad sc : R),
    next_act h 3 prm rng a ad sc false = a + sc * ad * tau_of prm * (1 - exp (- h / tau_of prm)).
Proof. exact next_act_filterexact. Qed.
Print Assumptions C03_next_act_filterexact.

(* dyntype user: not integrated by next_act (the act_dyn callback owns the state) ... *)
Theorem C03_next_act_user :
  forall (h : R) (prm rng : list R) (a ad sc : R), next_act h 7 prm rng a ad sc false = a.
Proof. exact next_act_user. Qed.
Print Assumptions C03_next_act_user.

(* ... but clamped to actrange when actlimited, as mj_nextActivation does (since /repo 0fa25c6; the
   earlier code returned before the clamp: regression probe C03:next_act:dyntype-user-skips-actlimited-clamp) *)
Theorem C03_next_act_user_clamped :
  forall (h : R) (prm rng : list R) (a ad sc : R),
    next_act h 7 prm rng a ad sc true = Rclamp a (vget rng 0) (vget rng 1).
Proof. exact next_act_user_clamped. Qed.
Print Assumptions C03_next_act_user_clamped.

(* actlimited, EVERY dyntype: the stored activation is the clamp of the unclamped update, hence in actrange *)
Theorem C03_next_act_clamp :
  forall (h : R) (dyn : Z) (prm rng : list R) (a ad sc : R),
    next_act h dyn prm rng a ad sc true = Rclamp (next_act h dyn prm rng a ad sc false) (vget rng 0) (vget rng 1).
Proof. exact next_act_clamp. Qed.
Print Assumptions C03_next_act_clamp.

Theorem C03_next_act_limited :
  forall (h : R) (dyn : Z) (prm rng : list R) (a ad sc : R),
    vget rng 0 <= vget rng 1 ->
    vget rng 0 <= next_act h dyn prm rng a ad sc true <= vget rng 1.
Proof. exact next_act_limited. Qed.
Print Assumptions C03_next_act_limited.

(* filterexact end to end: with act_dot as _actuator_force computes it, one step gives the closed
   form  c + (a - c) e^{-h/tau} ... *)
Theorem C03_filterexact_step :
  forall (h : R) (prm rng : list R) (c a : R),
    next_act h 3 prm rng a (act_dot_of 3 prm c a) 1 false = c + (a - c) * exp (- h / tau_of prm).
Proof. exact filterexact_step. Qed.
Print Assumptions C03_filterexact_step.

(* ... which is the value at t = h of THE solution of  y' = (c - y)/tau, y(0) = a  (control held) *)
Theorem C03_filterexact_is_ode_solution :
  forall (c a tau : R), tau <> 0 ->
    filter_sol c a tau 0 = a
    /\ (forall t, derivable_pt_lim (filter_sol c a tau) t ((c - filter_sol c a tau t) / tau))
    /\ (forall y : R -> R, (forall t, derivable_pt_lim y t ((c - y t) / tau)) -> y 0 = a ->
                            forall t, y t = filter_sol c a tau t).
Proof. exact filterexact_is_ode_solution. Qed.
Print Assumptions C03_filterexact_is_ode_solution.

Theorem C03_tau_positive : forall prm : list R, 0 < tau_of prm.
Proof. exact tau_pos. Qed.
Print Assumptions C03_tau_positive.

(* filter (Euler) end to end *)
Theorem C03_filter_step :
  forall (h : R) (prm rng : list R) (c a : R),
    next_act h 2 prm rng a (act_dot_of 2 prm c a) 1 false = a + (c - a) / tau_of prm * h.
Proof. exact filter_step. Qed.
Print Assumptions C03_filter_step.

(* actearly: the activation that multiplies the gain is exactly what _next_activation (as called by
   _advance: act_dot_scale = 1, limit = True) will store for the same act and the act_dot written *)
Theorem C03_actearly_consistent :
  forall (na : Z) (h : R) (p : @ActPrm R) (c act : R),
    has_act na p = true -> p_actearly p = true ->
    ctrl_act_of na h p c act
    = next_activation h p act (act_dot_of (p_dyntype p) (p_dynprm p) c act) 1 true.
Proof. exact actearly_consistent. Qed.
Print Assumptions C03_actearly_consistent.

Theorem C03_actlate :
  forall (na : Z) (h : R) (p : @ActPrm R) (c act : R),
    has_act na p = true -> p_actearly p = false -> ctrl_act_of na h p c act = act.
Proof. exact actlate. Qed.
Print Assumptions C03_actlate.

Theorem C03_stateless :
  forall (na : Z) (h : R) (p : @ActPrm R) (c act : R),
    has_act na p = false -> ctrl_act_of na h p c act = c.
Proof. exact stateless. Qed.
Print Assumptions C03_stateless.

(* with a range the MuJoCo compiler accepts for a tendon (lo <= 0 <= hi) no division hypothesis is left *)
Theorem C03_tendon_limit_total_valid :
  forall (limited : Z -> bool) (range : Z -> list R) (trn : list (Z * Z)) (force : list R) (tid : Z),
    limited tid = true ->
    vget (range tid) 0 <= 0 <= vget (range tid) 1 ->
    vget (range tid) 0 <= ten_total trn (ten_clamp limited range trn force) tid <= vget (range tid) 1.
Proof. exact tendon_limit_total_valid. Qed.
Print Assumptions C03_tendon_limit_total_valid.

(* REFUTED on the faithful model: the FINAL actuator_force (after the tendon stage) need not lie in
   forcerange, because the forcerange clamp runs before the tendon scaling (MuJoCo clamps last).
   Witness replayed on the real code by bin/props/C03.py (ORDER_XML): /repo 1, MuJoCo 2. *)
Theorem C03_final_force_in_forcerange_refuted :
  exists (p : @ActPrm R) (ctrl : R) (tlo thi : R),
    p_forcelimited p = true /\ vget (p_forcerange p) 0 <= vget (p_forcerange p) 1 /\ tlo <= 0 <= thi /\ modelled p = true /\
    let f := act_force 0 (1/500) 0 p ctrl 0 0 0 in
    let final := nth 0 (ten_clamp (fun _ => true) (fun _ => [tlo; thi]) [(TRN_TENDON, 0%Z)] [f]) 0 in
    f = 3 /\ final = 1 /\ ~ (vget (p_forcerange p) 0 <= final <= vget (p_forcerange p) 1).
Proof. exact final_force_in_forcerange_refuted. Qed.
Print Assumptions C03_final_force_in_forcerange_refuted.
