(* Props/C31.v -- C31 "Host/device conversion is faithful".
   Statements only; every proof is `exact <lemma of Proof/IoCopy.v>`.

   Model (Model/IoCopy.v, transcribed from /repo/mujoco_warp/_src/io.py):
     get_data_into:  filter_world = `ncon_filter[:nacon] = worldid[:nacon] == world_id`;
                     efc_idx_fixed / adr_fixed = the efc re-indexing and the emitted contact.efc_address AS /repo COMPUTES THEM since
                     commit 0698005 (arange(ne+nf+nl) ++ concat_c [a in efc_address[c,:ndim], a >= 0], [:nefc]; address -1 for a
                     contact without rows); C31_current_variant_fixed ties this choice to the regenerated skeleton;
                     get_rows = `d.efc.X[world_id, efc_idx]` with numpy's negative-index wrap and the shape check of
                     `result.efc_X[:] = ..`;
                     efc_idx_old / adr_old = the EXPLICIT OLD definition (before the repair: negative entries kept), kept as
                     documentation of defect F10 (C31_efc_idx_perm, C31_efc_idx_refuted, C31_put_get_roundtrip_partial/_refuted).
     put_data:       put_contacts (tile over nworld, worldid, pad to naconmax, efc_address rows), put_row.
     put_model:      the three table-driven feature checks (array_rejects / scalar_rejects / flags_rejects).
   Skeleton (Gen/Skel_io.v, REGENERATED from io.py / types.py / the installed mujoco module on every run):
     enum_pairs, reject_rows, reject_sites, exempt, model_fields, data_fields, get_reads.
   Which variant /repo contains is reported by the extractor (Skel_io.efc_idx_variant, stated below) and tied by the correspondence
   run of bin/props/C31.py (model evaluated by vm_compute against the real get_data_into / put_data). *)
From Coq Require Import ZArith String List Bool Permutation.
From VF Require Import Model.IoCopy Proof.IoCopy Gen.Skel_io.
Import ListNotations.
Local Open Scope Z_scope.

(* ---- get_data_into: world filter ---- *)
(* the contacts returned for world w are exactly the buffer slots below nacon that are tagged w, order preserved *)
Theorem C31_contact_world_filter :
  forall nacon_dev naconmax w buf, 0 <= nacon_dev -> 0 <= naconmax ->
  let out := filter_world nacon_dev naconmax w buf in
  (forall c, In c out <-> exists i, Z.of_nat i < Z.min nacon_dev naconmax /\ nth_error buf i = Some c /\ c_world c = w)
  /\ subseq out buf
  /\ out = filter (fun c => c_world c =? w) (firstn (Z.to_nat (Z.min nacon_dev naconmax)) buf).
Proof. exact contact_world_filter. Qed.
Print Assumptions C31_contact_world_filter.

(* ---- get_data_into: the OLD efc re-indexing (explicit old definition, documentation of F10) ---- *)
(* if every listed contact owns all its rows (addresses >= 0, 1 <= ndim <= row width) and the blocks are exactly the contact rows
   [efl, nefc) without repetition, efc_idx is a permutation of [0,nefc), keeps the equality/friction/limit rows in place, and output
   row (emitted address of contact i) + j is device row efc_address[i][j]: MuJoCo's order, addresses = block starts *)
Theorem C31_efc_idx_perm :
  forall pyr efl nefc cs, 0 <= efl -> Forall (rows_ok pyr) cs ->
  (forall a, In a (concat (map (block_old pyr) cs)) -> efl <= a < nefc) ->
  NoDup (concat (map (block_old pyr) cs)) ->
  efl + zlen (concat (map (block_old pyr) cs)) = nefc ->
  Permutation (efc_idx_old pyr efl nefc cs) (zrange nefc)
  /\ (forall k, 0 <= k < efl -> nth_error (efc_idx_old pyr efl nefc cs) (Z.to_nat k) = Some k)
  /\ (forall i c, nth_error cs i = Some c -> forall j x, nth_error (block_old pyr c) j = Some x ->
        nth_error (efc_idx_old pyr efl nefc cs) (Z.to_nat (nth i (adr_old pyr efl cs) 0) + j) = Some x).
Proof. exact efc_idx_perm. Qed.
Print Assumptions C31_efc_idx_perm.

(* F10: with a row-less contact (in-gap, or rows lost to overflow: addresses -1) listed before an active one, on a state that
   satisfies the hypotheses of the repaired theorem, what /repo computes is not a permutation, every returned row is a copy of the
   LAST row of the njmax-sized buffer and the emitted addresses are [0;4] (MuJoCo: rows 10..13, addresses [-1;0], which is what
   the repaired re-indexing returns) *)
Theorem C31_efc_idx_refuted :
  exists pyr efl nefc cs (dev : list Z),
    (forall a, In a (concat (map (block_fixed pyr) cs)) -> efl <= a < nefc)
    /\ NoDup (concat (map (block_fixed pyr) cs))
    /\ efl + zlen (concat (map (block_fixed pyr) cs)) = nefc
    /\ ~ Permutation (efc_idx_old pyr efl nefc cs) (zrange nefc)
    /\ get_rows nefc (efc_idx_old pyr efl nefc cs) dev = Some [0; 0; 0; 0]
    /\ adr_old pyr efl cs = [0; 4]
    /\ get_rows nefc (efc_idx_fixed pyr efl nefc cs) dev = Some [10; 11; 12; 13]
    /\ adr_fixed pyr efl cs = [-1; 0].
Proof. exact efc_idx_refuted. Qed.
Print Assumptions C31_efc_idx_refuted.

(* ---- get_data_into: the efc re-indexing of the CURRENT code ---- *)
(* no hypothesis on row-less or partially allocated contacts: whenever the non-negative addresses are exactly [efl, nefc) without
   repetition (what _efc_contact_init produces, overflow included), efc_idx is a permutation of [0,nefc) in MuJoCo's order, a contact
   without rows gets address -1 and every other contact the start of its block *)
Theorem C31_efc_idx_fixed_perm :
  forall pyr efl nefc cs, 0 <= efl ->
  (forall a, In a (concat (map (block_fixed pyr) cs)) -> efl <= a < nefc) ->
  NoDup (concat (map (block_fixed pyr) cs)) ->
  efl + zlen (concat (map (block_fixed pyr) cs)) = nefc ->
  Permutation (efc_idx_fixed pyr efl nefc cs) (zrange nefc)
  /\ (forall k, 0 <= k < efl -> nth_error (efc_idx_fixed pyr efl nefc cs) (Z.to_nat k) = Some k)
  /\ (forall i c, nth_error cs i = Some c ->
        (block_fixed pyr c = [] -> nth i (adr_fixed pyr efl cs) 0 = -1) /\
        (forall j x, nth_error (block_fixed pyr c) j = Some x ->
           nth_error (efc_idx_fixed pyr efl nefc cs) (Z.to_nat (nth i (adr_fixed pyr efl cs) 0) + j) = Some x)).
Proof. exact efc_idx_fixed_perm. Qed.
Print Assumptions C31_efc_idx_fixed_perm.

(* ---- put_data then get_data_into ---- *)
(* contacts: every world gets back exactly the MuJoCo contacts (dim, tag = all other per-contact fields, address row), in order *)
Theorem C31_put_get_contacts :
  forall pyr width nworld naconmax hs w, (w < nworld)%nat -> (nworld * length hs <= naconmax)%nat ->
  filter_world (Z.of_nat (nworld * length hs)) (Z.of_nat naconmax) (Z.of_nat w) (put_contacts pyr width nworld naconmax hs)
  = map (put_contact pyr width w) hs.
Proof. exact put_get_contacts. Qed.
Print Assumptions C31_put_get_contacts.

(* current code: for MuJoCo-layout data (contact i owns rows [adr_i, adr_i+ndim_i) after the previous active contact, adr = -1
   without rows) every world returns the contacts, their efc_address and every efc row array unchanged *)
Theorem C31_put_get_roundtrip_fixed :
  forall (zero : Z) pyr width nworld naconmax njmax ne nf nl hs (rows : list Z) w,
  (w < nworld)%nat -> (nworld * length hs <= naconmax)%nat -> 0 <= ne + nf + nl ->
  mj_layout pyr (ne + nf + nl) hs -> Forall (h_ok pyr width) hs ->
  zlen rows = ne + nf + nl + mj_nrows pyr hs -> (length rows <= njmax)%nat ->
  let v := view_fixed pyr (Z.of_nat naconmax) (Z.of_nat njmax) (Z.of_nat (nworld * length hs)) (zlen rows) ne nf nl (Z.of_nat w)
                      (put_contacts pyr width nworld naconmax hs) in
  v_contacts v = map (put_contact pyr width w) hs
  /\ map c_dim (v_contacts v) = map h_dim hs /\ map c_tag (v_contacts v) = map h_tag hs
  /\ v_adr v = map h_adr hs
  /\ v_nefc v = zlen rows
  /\ get_rows (v_nefc v) (v_idx v) (put_row zero njmax rows) = Some rows.
Proof. exact (@put_get_roundtrip_fixed Z). Qed.
Print Assumptions C31_put_get_roundtrip_fixed.

(* the old definition: the same, but only when no contact is row-less (partial: the hypothesis `h_adr h <> -1` is what F10 broke) *)
Theorem C31_put_get_roundtrip_partial :
  forall (zero : Z) pyr width nworld naconmax njmax ne nf nl hs (rows : list Z) w,
  (w < nworld)%nat -> (nworld * length hs <= naconmax)%nat -> 0 <= ne + nf + nl ->
  mj_layout pyr (ne + nf + nl) hs -> Forall (h_ok pyr width) hs ->
  Forall (fun h => h_adr h <> -1) hs ->
  zlen rows = ne + nf + nl + mj_nrows pyr hs -> (length rows <= njmax)%nat ->
  let v := view_old pyr (Z.of_nat naconmax) (Z.of_nat njmax) (Z.of_nat (nworld * length hs)) (zlen rows) ne nf nl (Z.of_nat w)
                    (put_contacts pyr width nworld naconmax hs) in
  v_contacts v = map (put_contact pyr width w) hs
  /\ v_adr v = map h_adr hs
  /\ get_rows (v_nefc v) (v_idx v) (put_row zero njmax rows) = Some rows.
Proof. exact (@put_get_roundtrip_old_partial Z). Qed.
Print Assumptions C31_put_get_roundtrip_partial.

Theorem C31_put_get_roundtrip_refuted :
  exists pyr width nworld naconmax njmax ne nf nl hs (rows : list Z) w,
    (w < nworld)%nat /\ (nworld * length hs <= naconmax)%nat /\ 0 <= ne + nf + nl
    /\ mj_layout pyr (ne + nf + nl) hs /\ Forall (h_ok pyr width) hs
    /\ zlen rows = ne + nf + nl + mj_nrows pyr hs /\ (length rows <= njmax)%nat
    /\ let v := view_old pyr (Z.of_nat naconmax) (Z.of_nat njmax) (Z.of_nat (nworld * length hs)) (zlen rows) ne nf nl (Z.of_nat w)
                         (put_contacts pyr width nworld naconmax hs) in
       v_adr v = [0; 4] /\ map h_adr hs = [-1; 0]
       /\ get_rows (v_nefc v) (v_idx v) (put_row 0 njmax rows) = Some [0; 0; 0; 0] /\ rows = [10; 11; 12; 13].
Proof. exact put_get_roundtrip_old_refuted. Qed.
Print Assumptions C31_put_get_roundtrip_refuted.

(* plain per-world copies, fields as abstract values: for every field of the regenerated list `roundtrip_fields` (result.f[:] =
   d.f[world_id] in get_data_into, d.f = tile(mjd.f) in put_data) put_data; get_data_into returns the MjData value for every world,
   whatever the other buffers hold *)
Theorem C31_put_get_roundtrip_fields :
  forall V junk (d : host V) w old f, In f roundtrip_fields ->
  get_fields V (plain_reads get_reads) (put_fields V (filled_from_host data_fields) junk d) w old f = d f.
Proof. exact put_get_roundtrip_fields. Qed.
Print Assumptions C31_put_get_roundtrip_fields.

Theorem C31_roundtrip_fields_cover_state :
  forallb (fun f => existsb (String.eqb f) roundtrip_fields)
    ["qpos"; "qvel"; "act"; "ctrl"; "qacc_warmstart"; "qfrc_applied"; "xfrc_applied"; "mocap_pos"; "mocap_quat"; "time"; "eq_active";
     "qacc"; "xpos"; "xquat"; "sensordata"; "qfrc_constraint"; "actuator_force"]%string = true
  /\ (60 <= length roundtrip_fields)%nat.
Proof. exact roundtrip_fields_cover_state. Qed.
Print Assumptions C31_roundtrip_fields_cover_state.

(* every device field get_data_into reads is filled by put_data from the MjData (none left zero / uninitialised) *)
Theorem C31_get_reads_filled :
  forall f, In f (all_reads get_reads) ->
    exists k, kind_of data_fields f = Some k /\ (k = FHost \/ k = FExplicit \/ k = FConst).
Proof. exact get_reads_filled. Qed.
Print Assumptions C31_get_reads_filled.

Theorem C31_unfilled_reads_empty : unfilled_reads data_fields get_reads = [].
Proof. exact unfilled_reads_empty. Qed.
Print Assumptions C31_unfilled_reads_empty.

(* the re-indexing block of the current get_data_into is the repaired one: the *_fixed theorems are about the current code *)
Theorem C31_current_variant_fixed : efc_idx_variant = "fixed"%string.
Proof. exact current_variant_fixed. Qed.
Print Assumptions C31_current_variant_fixed.

(* ---- put_model ---- *)
(* feature rejection: every value of every mujoco enum that types.py mirrors is defined by MJWarp, or rejected by a put_model table
   row over the MjModel field that carries it, or listed in Skel_io.exempt with a reason *)
Theorem C31_feature_rejection_coverage :
  forall p, In p enum_pairs -> forall n v, In (n, v) (ep_mj_vals p) -> covered_prop reject_rows exempt p n v.
Proof. exact feature_rejection_coverage. Qed.
Print Assumptions C31_feature_rejection_coverage.

Theorem C31_exempt_only_unchecked_or_sentinel :
  forall e n why, In (e, n, why) exempt -> is_sentinel n = true \/ (forall r, In r reject_rows -> rr_mj r <> e).
Proof. exact exempt_only_unchecked_or_sentinel. Qed.
Print Assumptions C31_exempt_only_unchecked_or_sentinel.

Theorem C31_reject_rows_cover_named_fields :
  forallb (fun f => existsb (String.eqb f) row_fields)
    ["actuator_trntype"; "actuator_dyntype"; "actuator_gaintype"; "actuator_biastype"; "eq_type"; "geom_type"; "sensor_type";
     "wrap_type"; "opt.integrator"; "opt.cone"; "opt.solver"; "opt.disableflags"; "opt.enableflags"]%string = true.
Proof. exact reject_rows_cover_named_fields. Qed.
Print Assumptions C31_reject_rows_cover_named_fields.

(* enums without a table row (joint types, camera/light modes, projections, ...) are defined completely by MJWarp *)
Theorem C31_unchecked_enums_complete :
  forall p, In p enum_pairs -> In (ep_mj p) ["mjtJoint"; "mjtCamLight"; "mjtProjection"; "mjtSleepState"; "mjtConstraintState"; "mjtConstraint"]%string ->
  forall n v, In (n, v) (ep_mj_vals p) -> In v (map snd (ep_mjw_vals p)).
Proof. exact unchecked_enums_complete. Qed.
Print Assumptions C31_unchecked_enums_complete.

(* the three checks mean what their names say *)
Theorem C31_array_rejects_spec : forall sup fld, array_rejects sup fld = true <-> exists v, In v fld /\ ~ In v sup.
Proof. exact array_rejects_spec. Qed.
Print Assumptions C31_array_rejects_spec.

Theorem C31_scalar_rejects_spec : forall sup v, scalar_rejects sup v = true <-> ~ In v sup.
Proof. exact scalar_rejects_spec. Qed.
Print Assumptions C31_scalar_rejects_spec.

Theorem C31_flags_rejects_spec : forall sup v, flags_rejects sup v = true <-> Z.land v (Z.lnot (flags_mask sup)) <> 0.
Proof. exact flags_rejects_spec. Qed.
Print Assumptions C31_flags_rejects_spec.

(* every types.Model field is the same-named MjModel field or assigned by put_model (none is left None) *)
Theorem C31_model_fields_no_absent :
  forallb (fun m => match mf_kind m with MAbsent => false | _ => true end) model_fields = true.
Proof. exact model_fields_no_absent. Qed.
Print Assumptions C31_model_fields_no_absent.
