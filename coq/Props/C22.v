(* Props/C22.v -- C22 "Jacobians are consistent with positions and velocities".
   Statements only; every proof is `exact <lemma of Proof/Jac.v>`.
   k__actuator_velocity / k__tendon_velocity (Gen/kforward.v), jac_dof (Gen/T_support.v) and
   k_jac_pr (Gen/kjac.v) are REGENERATED from /repo on every run; csr_dot, merge_dense,
   isdofancestor_row, comvel_task and the efc row builders are the hand models of Model/Jac.v
   (tied to /repo by the correspondence checks of bin/props/C22.py). *)
From Coq Require Import String ZArith Reals List.
From VF Require Import Base.Scalar Base.ScalarR Base.Vec Base.Loop Base.Kernel Model.Jac Gen.kforward Gen.T_support Gen.kjac Proof.Jac.
Import ListNotations.
Local Open Scope R_scope.

(* ---- dense_sparse_row_equal: a CSR row (rowadr, rownnz, colind, values) with columns in [0, nv)
   is the same linear functional as the dense row it denotes (duplicated columns accumulate) *)
Theorem C22_dense_sparse_row_equal :
  forall (nv : nat) (rowadr rownnz : Z) (colind : Z -> Z) (vals qvel : Z -> R),
    (forall k, (0 <= k < rownnz)%Z -> (0 <= colind (rowadr + k)%Z < Z.of_nat nv)%Z) ->
    dense_dot (scatter nv (csr_entries rowadr rownnz colind vals)) qvel = csr_dot rowadr rownnz colind vals qvel.
Proof. exact dense_sparse_row_equal. Qed.
Print Assumptions C22_dense_sparse_row_equal.

(* the same for an arbitrary entry list, and the converse (dense -> its non-zero entries) *)
Theorem C22_scatter_dot :
  forall (nv : nat) (es : list (Z * R)) (qvel : Z -> R),
    (forall e, In e es -> (0 <= fst e < Z.of_nat nv)%Z) -> dense_dot (scatter nv es) qvel = entries_dot es qvel.
Proof. exact scatter_dot. Qed.
Print Assumptions C22_scatter_dot.

Theorem C22_compress_dot :
  forall (row : list R) (qvel : Z -> R), entries_dot (compress row) qvel = dense_dot row qvel.
Proof. exact compress_dot. Qed.
Print Assumptions C22_compress_dot.

(* ---- translated kernels: the single value task (w, a) stores is the CSR row dotted with qvel,
   i.e. (dense row of actuator_moment / ten_J) . qvel *)
Theorem C22_actuator_velocity_is_csr_dot :
  forall (w a : Z) (qvel_in : Z -> Z -> R) (rownnz rowadr colind : Z -> Z -> Z) (moment out : Z -> Z -> R) (orc : nat -> Z),
    k__actuator_velocity w a qvel_in rownnz rowadr colind moment out orc
    = [mkW "actuator_velocity_out" [w; a] KSet
           (VS (csr_dot (rowadr w a) (rownnz w a) (colind w) (moment w) (qvel_in w)))].
Proof. exact actuator_velocity_is_csr_dot. Qed.
Print Assumptions C22_actuator_velocity_is_csr_dot.

Theorem C22_actuator_velocity_is_J_qvel :
  forall (w a : Z) (qvel_in : Z -> Z -> R) (rownnz rowadr colind : Z -> Z -> Z) (moment out : Z -> Z -> R) (orc : nat -> Z) (nv : nat),
    (forall k, (0 <= k < rownnz w a)%Z -> (0 <= colind w (rowadr w a + k)%Z < Z.of_nat nv)%Z) ->
    kstored (k__actuator_velocity w a qvel_in rownnz rowadr colind moment out orc) "actuator_velocity_out" [w; a]
    = Some (dense_dot (scatter nv (csr_entries (rowadr w a) (rownnz w a) (colind w) (moment w))) (qvel_in w)).
Proof. exact actuator_velocity_is_J_qvel. Qed.
Print Assumptions C22_actuator_velocity_is_J_qvel.

(* _tendon_velocity skips zero entries; over R the stored value is still the full row product *)
Theorem C22_tendon_velocity_is_csr_dot :
  forall (w t : Z) (rownnz rowadr colind : Z -> Z) (qvel_in ten_J out : Z -> Z -> R) (orc : nat -> Z),
    k__tendon_velocity w t rownnz rowadr colind qvel_in ten_J out orc
    = [mkW "ten_velocity_out" [w; t] KSet (VS (csr_dot (rowadr t) (rownnz t) colind (ten_J w) (qvel_in w)))].
Proof. exact tendon_velocity_is_csr_dot. Qed.
Print Assumptions C22_tendon_velocity_is_csr_dot.

Theorem C22_tendon_velocity_is_J_qvel :
  forall (w t : Z) (rownnz rowadr colind : Z -> Z) (qvel_in ten_J out : Z -> Z -> R) (orc : nat -> Z) (nv : nat),
    (forall k, (0 <= k < rownnz t)%Z -> (0 <= colind (rowadr t + k)%Z < Z.of_nat nv)%Z) ->
    kstored (k__tendon_velocity w t rownnz rowadr colind qvel_in ten_J out orc) "ten_velocity_out" [w; t]
    = Some (dense_dot (scatter nv (csr_entries (rowadr t) (rownnz t) colind (ten_J w))) (qvel_in w)).
Proof. exact tendon_velocity_is_J_qvel. Qed.
Print Assumptions C22_tendon_velocity_is_J_qvel.

(* ---- the dense branch of the tendon row builders (merge loop over the columns): the velocity it
   accumulates is (the dense row it writes) . qvel, and, for strictly increasing in-range columns,
   the CSR row product -- so the dense and the sparse builder agree on J . qvel *)
Theorem C22_merge_dense_is_csr_dot :
  forall (adr nnz : Z) (col : Z -> Z) (vals q : Z -> R),
    (0 <= nnz)%Z -> forall nv : Z,
    (forall k, (0 <= k < nnz)%Z -> (0 <= col (adr + k)%Z < nv)%Z) ->
    (forall k, (0 <= k)%Z -> (k + 1 < nnz)%Z -> (col (adr + k)%Z < col (adr + (k + 1))%Z)%Z) ->
    (0 <= nv)%Z ->
    let '(row, jq) := merge_dense nv adr nnz col vals q in
    length row = Z.to_nat nv /\ jq = dense_dot row q /\ jq = csr_dot adr nnz col vals q.
Proof. exact merge_dense_is_csr_dot. Qed.
Print Assumptions C22_merge_dense_is_csr_dot.

(* ---- isdofancestor_spec: on a well-formed tree the io.py loop marks dof d in row b iff the body
   of d lies on the path from b to the root; the padding columns stay 0 *)
Theorem C22_isdofancestor_spec :
  forall (ps dn da dp db : list Z), wf_tree ps dn da dp db ->
  forall (nv_pad : nat) (b d : Z),
    (length dp <= nv_pad)%nat -> (0 <= b < Z.of_nat (length ps))%Z -> (0 <= d < Z.of_nat (length dp))%Z ->
    (zg (isdofancestor_row ps dn da dp nv_pad b) d = 1%Z <-> anc_or_self ps (zg db d) b) /\
    (zg (isdofancestor_row ps dn da dp nv_pad b) d = 0%Z <-> ~ anc_or_self ps (zg db d) b).
Proof. exact isdofancestor_marks_path. Qed.
Print Assumptions C22_isdofancestor_spec.

Theorem C22_isdofancestor_padding :
  forall (ps dn da dp db : list Z), wf_tree ps dn da dp db ->
  forall (nv_pad : nat) (b d : Z),
    (length dp <= nv_pad)%nat -> (0 <= b < Z.of_nat (length ps))%Z -> (Z.of_nat (length dp) <= d)%Z ->
    zg (isdofancestor_row ps dn da dp nv_pad b) d = 0%Z.
Proof. exact isdofancestor_padding. Qed.
Print Assumptions C22_isdofancestor_padding.

Theorem C22_body_isdofancestor_row :
  forall (ps dn da dp : list Z) (nv_pad : nat), (length dp <= nv_pad)%nat ->
  forall b : Z, (0 <= b < Z.of_nat (length ps))%Z ->
    nth (Z.to_nat b) (body_isdofancestor ps dn da dp nv_pad) [] = isdofancestor_row ps dn da dp nv_pad b.
Proof. exact body_isdofancestor_row. Qed.
Print Assumptions C22_body_isdofancestor_row.

(* the decidable check run on every generated MjModel implies the hypothesis *)
Theorem C22_wf_treeb_sound :
  forall ps dn da dp db, wf_treeb ps dn da dp db = true -> wf_tree ps dn da dp db.
Proof. exact wf_treeb_sound. Qed.
Print Assumptions C22_wf_treeb_sound.

(* ---- jac_dof: what the translated function computes for one dof ... *)
Theorem C22_jac_dof_column :
  forall (parentid rootid dof_bodyid : Z -> Z) (maskf : Z -> Z -> Z) (com cdof : Z -> Z -> list R) (p : list R) (b w d : Z),
    T_support.jac_dof parentid rootid dof_bodyid maskf com cdof p b d w
    = if (maskf b d =? 0)%Z then ([0; 0; 0], [0; 0; 0])
      else (vadd (skipn 3 (cdof w d)) (vcross (firstn 3 (cdof w d)) (vsub p (com w (rootid b)))),
            firstn 3 (cdof w d)).
Proof. exact jac_dof_column. Qed.
Print Assumptions C22_jac_dof_column.

(* ... and jac_dof_is_velocity_map: for a body b on an ancestor chain processed by _comvel_branch,
   with the mask computed by io.py,  sum_d jacp[:, d] qvel[d] = lin(cvel_b) + ang(cvel_b) x (p - com_root)
   and  sum_d jacr[:, d] qvel[d] = ang(cvel_b) *)
Theorem C22_jac_dof_is_velocity_map :
  forall (ps dn da dp db jntnum jntadr jnt_type : list Z) (nv_pad : nat),
    wf_tree ps dn da dp db -> (length dp <= nv_pad)%nat ->
  forall (rootid : Z -> Z) (com cdof : Z -> Z -> list R) (p : list R) (w : Z) (q : Z -> R),
    (forall b, (0 <= b < Z.of_nat (length ps))%Z ->
       (0 <= zg jntnum b)%Z /\ Z.of_nat (body_ndof jntnum jntadr jnt_type b) = zg dn b) ->
    (forall d, length (cdof w d) = 6%nat) -> length p = 3%nat ->
  forall (chain : list Z) (b : Z),
    linked ps 0 chain -> In b chain -> length (com w (rootid b)) = 3%nat ->
    let cvel := comvel_task ps jntnum jntadr da jnt_type (cdof w) q comvel_init chain b in
    let jd d := T_support.jac_dof (zg ps) rootid (zg db) (maskf_of ps dn da dp nv_pad) com cdof p b d w in
    (forall k, (0 <= k < 3)%Z ->
       zsum 0 (length dp) (fun d => vget (fst (jd d)) k * q d) = vget (point_vel cvel p (com w (rootid b))) k) /\
    (forall k, (0 <= k < 3)%Z ->
       zsum 0 (length dp) (fun d => vget (snd (jd d)) k * q d) = vget (firstn 3 cvel) k).
Proof. exact jac_dof_is_velocity_map. Qed.
Print Assumptions C22_jac_dof_is_velocity_map.

(* the kernel launched by support.jac stores jac_dof's two vectors as column d of jacp / jacr *)
Theorem C22_jac_kernel_writes :
  forall (w d : Z) (ps root db : Z -> Z) (mask : Z -> Z -> Z) (com cdof : Z -> Z -> list R)
         (point_in : Z -> list R) (bodyid_in : Z -> Z) (jacp jacr : Z -> Z -> Z -> R) (orc : nat -> Z),
    let jd := T_support.jac_dof ps root db mask com cdof (point_in w) (bodyid_in w) d w in
    Gen.kjac.k_jac_pr w d ps root db mask com cdof point_in bodyid_in jacp jacr orc
    = [mkW "jacp_out" [w; 0%Z; d] KSet (VS (vget (fst jd) 0)); mkW "jacp_out" [w; 1%Z; d] KSet (VS (vget (fst jd) 1));
       mkW "jacp_out" [w; 2%Z; d] KSet (VS (vget (fst jd) 2)); mkW "jacr_out" [w; 0%Z; d] KSet (VS (vget (snd jd) 0));
       mkW "jacr_out" [w; 1%Z; d] KSet (VS (vget (snd jd) 1)); mkW "jacr_out" [w; 2%Z; d] KSet (VS (vget (snd jd) 2))].
Proof. exact jac_kernel_writes. Qed.
Print Assumptions C22_jac_kernel_writes.

(* ---- efc_vel_is_Jqvel for the +-1 rows (dense and sparse builders, and both denote one row) *)
Theorem C22_efc_vel_is_Jqvel_friction_dof :
  forall (nv : Z) (q : Z -> R) dofid, (0 <= dofid < nv)%Z ->
    dense_dot (fst (friction_dof_dense nv dofid q)) q = snd (friction_dof_dense nv dofid q) /\
    entries_dot (fst (friction_dof_sparse dofid q)) q = snd (friction_dof_sparse dofid q) /\
    scatter (Z.to_nat nv) (fst (friction_dof_sparse dofid q)) = fst (friction_dof_dense nv dofid q) /\
    snd (friction_dof_sparse dofid q) = snd (friction_dof_dense nv dofid q).
Proof. exact friction_dof_vel_is_Jqvel. Qed.
Print Assumptions C22_efc_vel_is_Jqvel_friction_dof.

Theorem C22_efc_vel_is_Jqvel_limit_slide_hinge :
  forall (nv : Z) (q : Z -> R) dofadr (x lo hi : R), (0 <= dofadr < nv)%Z ->
    dense_dot (fst (limit_sh_dense nv dofadr x lo hi q)) q = snd (limit_sh_dense nv dofadr x lo hi q) /\
    entries_dot (fst (limit_sh_sparse dofadr x lo hi q)) q = snd (limit_sh_sparse dofadr x lo hi q) /\
    scatter (Z.to_nat nv) (fst (limit_sh_sparse dofadr x lo hi q)) = fst (limit_sh_dense nv dofadr x lo hi q) /\
    snd (limit_sh_sparse dofadr x lo hi q) = snd (limit_sh_dense nv dofadr x lo hi q) /\
    (limit_sh_J x lo hi = 1 \/ limit_sh_J x lo hi = -1).
Proof. exact limit_sh_vel_is_Jqvel. Qed.
Print Assumptions C22_efc_vel_is_Jqvel_limit_slide_hinge.

(* joint equality: needs dofadr1 <> dofadr2 for a two-joint constraint (MuJoCo's compiler rejects a
   repeated joint); C22_eq_joint_dense_same_dof shows the dense builder needs it *)
Theorem C22_efc_vel_is_Jqvel_equality_joint :
  forall (nv : Z) (q : Z -> R) d1 d2 j2 qa2 (data : list R) (qpos qpos0 : Z -> R),
    (0 <= d1 < nv)%Z -> ((j2 > -1)%Z -> (0 <= d2 < nv)%Z /\ d1 <> d2) ->
    dense_dot (fst (eq_joint_dense nv d1 d2 j2 qa2 data qpos qpos0 q)) q = snd (eq_joint_dense nv d1 d2 j2 qa2 data qpos qpos0 q) /\
    entries_dot (fst (eq_joint_sparse d1 d2 j2 qa2 data qpos qpos0 q)) q = snd (eq_joint_sparse d1 d2 j2 qa2 data qpos qpos0 q) /\
    dense_dot (scatter (Z.to_nat nv) (fst (eq_joint_sparse d1 d2 j2 qa2 data qpos qpos0 q))) q
      = dense_dot (fst (eq_joint_dense nv d1 d2 j2 qa2 data qpos qpos0 q)) q /\
    snd (eq_joint_sparse d1 d2 j2 qa2 data qpos qpos0 q) = snd (eq_joint_dense nv d1 d2 j2 qa2 data qpos qpos0 q).
Proof. exact eq_joint_vel_is_Jqvel. Qed.
Print Assumptions C22_efc_vel_is_Jqvel_equality_joint.

Example C22_eq_joint_dense_same_dof :
  let r := eq_joint_dense 1 0 0 0 0 [0; 1; 0; 0; 0] (fun _ => 0) (fun _ => 0) (fun _ => 1) in
  dense_dot (fst r) (fun _ => 1) = -1 /\ snd r = 0.
Proof. exact eq_joint_dense_same_dof. Qed.

(* ---- non-vacuity: a concrete tree (free joint; hinge child; jointless child with a ball+slide
   grandchild) satisfies wf_tree, the joint/dof count hypothesis and `linked` *)
Example C22_hypotheses_satisfiable :
  wf_tree Ex.ps Ex.dn Ex.da Ex.dp Ex.db /\
  (forall b, (0 <= b < Z.of_nat (length Ex.ps))%Z ->
     (0 <= zg Ex.jntnum b)%Z /\ Z.of_nat (body_ndof Ex.jntnum Ex.jntadr Ex.jnt_type b) = zg Ex.dn b) /\
  linked Ex.ps 0 [1; 3; 4]%Z /\ In 4%Z [1; 3; 4]%Z /\
  isdofancestor_row Ex.ps Ex.dn Ex.da Ex.dp 16 4 = [1; 1; 1; 1; 1; 1; 0; 1; 1; 1; 1; 0; 0; 0; 0; 0]%Z.
Proof. exact (conj Ex.wf (conj Ex.wfj (conj (proj1 Ex.chain) (conj (proj2 Ex.chain) Ex.mask4)))). Qed.
