(* Props/C30.v -- C30 "Delayed controls and sensors read the right past sample".
   Statements only; every proof is `exact <lemma of Proof/History.v>`.
   The functions are those of Model/History.v (hand transcription of history.py, tied to the compiled
   Warp functions by the correspondence check on every run) at the real-number instance; [phys] is the
   function `_history_physical_index` REGENERATED from history.py in Gen/history.v.
   Not proved here: float32 rounding, and that forward.py / sensor.py / io.py call these functions with
   the right arguments (lock-step oracle against MuJoCo in bin/props/C30.py). *)
From Coq Require Import ZArith Reals List.
From VF Require Import Base.Scalar Base.ScalarR Gen.history Model.History Proof.History.
Import ListNotations.
Local Open Scope Z_scope.

(* T tie: the model's physical index IS the translated source function *)
Theorem C30_phys_is_translated : forall c n l, phys c n l = _history_physical_index c n l.
Proof. exact (fun c n l => eq_refl). Qed.
Print Assumptions C30_phys_is_translated.

(* T tie: the model's find_index (circular binary search) IS the function `_history_find_index` regenerated
   from history.py, run on the flat array that encodes the buffer at any offset / world (n <= the while fuel) *)
Theorem C30_find_index_is_translated : forall n (b : buf R) off w t, wf n b -> n <= 100000 ->
  _history_find_index (arr_of b off) w off n (cursor b) t = find_index n b t.
Proof. exact find_index_translated. Qed.
Print Assumptions C30_find_index_is_translated.

(* logical -> physical index is a bijection of [0,n) *)
Theorem C30_phys_index_bijection : forall c n, 0 < n -> 0 <= c < n ->
  (forall l, 0 <= l < n -> 0 <= phys c n l < n) /\
  (forall l l', 0 <= l < n -> 0 <= l' < n -> phys c n l = phys c n l' -> l = l') /\
  (forall p, 0 <= p < n -> exists l, 0 <= l < n /\ phys c n l = p).
Proof. exact phys_bijection. Qed.
Print Assumptions C30_phys_index_bijection.

(* the newest logical sample sits at the cursor *)
Theorem C30_phys_newest_is_cursor : forall c n, 0 < n -> 0 <= c < n -> phys c n (n - 1) = c.
Proof. exact phys_newest. Qed.
Print Assumptions C30_phys_newest_is_cursor.

(* find_index (circular binary search) returns i with times[i-1] < t <= times[i]; 0 / n at the ends.
   Holds for ANY buffer contents with n >= 1 (sortedness is not needed for the bracket). *)
Theorem C30_find_index_spec : forall n (b : buf R) (t : R), 1 <= n ->
  0 <= find_index n b t <= n /\
  (0 < find_index n b t -> (ltime n b (find_index n b t - 1)%Z < t)%R) /\
  (find_index n b t < n -> (t <= ltime n b (find_index n b t))%R).
Proof. exact find_index_spec. Qed.
Print Assumptions C30_find_index_spec.

(* on a time-sorted buffer the binary search equals the linear scan of the ordered sample list *)
Theorem C30_find_index_is_linear_scan : forall n (b : buf R) t, wf n b -> sorted n b ->
  find_index n b t = count_lt (abs n b) t.
Proof. exact find_index_count. Qed.
Print Assumptions C30_find_index_is_linear_scan.

(* sorted_invariant: starting from MuJoCo's initial buffer (cursor n-1, times -n*h .. -h) ANY sequence of
   inserts (increasing, repeated, out of order, older than everything) leaves a well-formed buffer whose
   logical times are strictly increasing *)
Theorem C30_sorted_invariant : forall n dim (h u : R) (ops : list (R * list R)), 1 <= n -> (0 < h)%R ->
  wf n (insert_all n (mj_init n dim h u) ops) /\ ssorted n (insert_all n (mj_init n dim h u) ops).
Proof. exact sorted_invariant. Qed.
Print Assumptions C30_sorted_invariant.

(* one insert keeps well-formedness, the user slot and (non-strict) time order from ANY sorted buffer,
   the explicit all-zero buffer included *)
Theorem C30_insert_preserves_sorted : forall n (b : buf R) t v, wf n b -> sorted n b ->
  wf n (insert n b t v) /\ user (insert n b t v) = user b /\ sorted n (insert n b t v).
Proof.
  exact (fun n b t v Hw Hs =>
    conj (proj1 (insert_lsample n b t v Hw))
      (conj (proj1 (proj2 (insert_lsample n b t v Hw))) (insert_sorted n b t v Hw Hs))).
Qed.
Print Assumptions C30_insert_preserves_sorted.

(* refines_sorted_list: on the ordered list of samples, insert is: overwrite on a time match, replace the
   oldest by an even older sample, otherwise insert in order and drop the oldest (spec_insert) *)
Theorem C30_refines_sorted_list : forall n (b : buf R) t v, wf n b -> sorted n b ->
  abs n (insert n b t v) = spec_insert (abs n b) t v.
Proof. exact insert_refines. Qed.
Print Assumptions C30_refines_sorted_list.

(* read is a function of the ordered sample list only (not of cursor / physical placement) *)
Theorem C30_read_refines : forall n dim (b : buf R) t interp, wf n b -> sorted n b ->
  read n dim b t interp = spec_read dim (abs n b) t interp.
Proof. exact read_refines. Qed.
Print Assumptions C30_read_refines.

Theorem C30_read_depends_only_on_abs : forall n dim (b1 b2 : buf R) t interp,
  wf n b1 -> sorted n b1 -> wf n b2 -> sorted n b2 -> abs n b1 = abs n b2 ->
  read n dim b1 t interp = read n dim b2 t interp.
Proof. exact read_depends_on_abs. Qed.
Print Assumptions C30_read_depends_only_on_abs.

(* zero-order hold: for t after the oldest sample the value returned is that of a stored sample k whose
   time is not after t (up to the 1e-6 match tolerance) and every later sample is at or after t;
   at or before the oldest sample every mode returns the oldest value *)
Theorem C30_zoh_returns_latest_not_after : forall n dim (b : buf R) t, wf n b -> sorted n b ->
  (ltime n b 0 + eps < t)%R ->
  exists k, 0 <= k < n /\ read n dim b t 0 = lrow n b k /\
            (ltime n b k <= t + eps)%R /\ (forall j, k < j < n -> (t <= ltime n b j)%R).
Proof. exact zoh_latest. Qed.
Print Assumptions C30_zoh_returns_latest_not_after.

Theorem C30_read_before_oldest : forall n dim (b : buf R) t interp,
  (t <= ltime n b 0 + eps)%R -> read n dim b t interp = lrow n b 0.
Proof. exact read_before_oldest. Qed.
Print Assumptions C30_read_before_oldest.

(* interp_bounds: strictly inside the time span a linear read lies, component by component, between
   the values of the two samples that bracket t *)
Theorem C30_interp_bounds : forall n dim (b : buf R) t, wf n b -> sorted n b ->
  (ltime n b 0 + eps < t)%R -> (t < ltime n b (n - 1) - eps)%R ->
  exists i, 1 <= i < n /\ (ltime n b (i - 1)%Z < t <= ltime n b i)%R /\
    forall d, (d < Z.to_nat dim)%nat ->
      (Rmin (comp (lrow n b (i - 1)) d) (comp (lrow n b i) d) <= comp (read n dim b t 1) d
        <= Rmax (comp (lrow n b (i - 1)) d) (comp (lrow n b i) d))%R.
Proof. exact linear_between. Qed.
Print Assumptions C30_interp_bounds.

(* the right past sample: from MuJoCo's initial buffer, with the control u j inserted at time j*h by every
   step j < m, the control that fwd_actuation uses at step m for a delay of k steps (1 <= k <= nsample) is
   u (m-k), and 0 while m < k -- for every interpolation mode and through buffer wrap-around.
   [hist n h u m] is the buffer after m steps.  (Delays that are not a multiple of h and vector sensors are
   covered by C30_read_refines / C30_interp_bounds and by the oracle only.) *)
Theorem C30_delay_exact_partial : forall n (h : R) (u : Z -> R), 1 <= n -> (eps < h)%R ->
  forall (m : nat) (k interp : Z) (ctrl : R), 1 <= k <= n ->
  read_ctrl_delayed n interp (IZR k * h)%R (IZR (Z.of_nat m) * h)%R ctrl (hist n h u m) =
    if Z.of_nat m - k <? 0 then 0%R else u (Z.of_nat m - k).
Proof. exact ctrl_delay_exact. Qed.
Print Assumptions C30_delay_exact_partial.

(* make_data / reset_data (repaired, F5): the buffer they install is MuJoCo's initial buffer, so the
   invariant and C30_delay_exact_partial ([hist] starts from mj_init) hold from make_data and after reset_data *)
Theorem C30_make_data_buf_initial : forall n dim (h u : R), make_data_buf n dim h u = mj_init n dim h u.
Proof. exact make_data_buf_initial. Qed.
Print Assumptions C30_make_data_buf_initial.

Theorem C30_make_data_sorted_invariant : forall n dim (h u : R) (ops : list (R * list R)), 1 <= n -> (0 < h)%R ->
  wf n (insert_all n (make_data_buf n dim h u) ops) /\ ssorted n (insert_all n (make_data_buf n dim h u) ops).
Proof. exact make_data_sorted_invariant. Qed.
Print Assumptions C30_make_data_sorted_invariant.

(* zero_buffer_not_initial: the explicit all-zero buffer value (what make_data created before the repair) is
   not an acceptable initial buffer: after the same first step (ctrl u inserted at time 0) the delayed control
   used at the second step differs (n = 2, linear, h = 1, delay = 1.5 h, u = 1: 1 instead of 1/2).
   Kept as a lemma about that value only; the directed lock-step replays in bin/props/C30.py are the regression. *)
Theorem C30_zero_buffer_not_initial :
  exists (n interp : Z) (h delay u : R),
    read_ctrl_delayed n interp delay h 0%R (step1 n u (zero_buf n 1)) <>
    read_ctrl_delayed n interp delay h 0%R (step1 n u (mj_init n 1 h 0%R)).
Proof. exact zero_buffer_not_initial. Qed.
Print Assumptions C30_zero_buffer_not_initial.

Theorem C30_zero_buffer_abs_differs : forall n dim (h u : R), 1 <= n -> (0 < h)%R ->
  abs n (@zero_buf R _ n dim) <> abs n (mj_init n dim h u) /\
  (1 < n -> cursor (@zero_buf R _ n dim) <> cursor (mj_init n dim h u)).
Proof. exact zero_buffer_abs_differs. Qed.
Print Assumptions C30_zero_buffer_abs_differs.

(* the flat layout written to Data.history: user, cursor, n times, n*dim values (physical order) *)
Theorem C30_encode_layout : forall n dim (b : buf R), wf n b -> 0 <= dim ->
  Forall (fun r => length r = Z.to_nat dim) (rows b) ->
  znth (encode b) 0 0%R = user b /\ znth (encode b) 1 0%R = IZR (cursor b) /\
  (forall p, 0 <= p < n -> znth (encode b) (2 + p) 0%R = znth (times b) p 0%R) /\
  (forall p d, 0 <= p < n -> 0 <= d < dim ->
     znth (encode b) (2 + n + p * dim + d) 0%R = comp (znth (rows b) p []) (Z.to_nat d)).
Proof. exact encode_layout. Qed.
Print Assumptions C30_encode_layout.

(* non-vacuity: well-formed strictly sorted buffers exist (MuJoCo's initial buffer, any n >= 1, h > 0),
   the interpolation hypotheses are met inside its span, and the step hypothesis eps < h holds for 1 ms *)
Example C30_wf_sorted_exists : wf 3 (mj_init 3 2 (1/100)%R 0%R) /\ sorted 3 (mj_init 3 2 (1/100)%R 0%R).
Proof. exact hyp_example_sorted. Qed.
Example C30_inside_span_exists :
  (ltime 3 (mj_init 3 2 1%R 0%R) 0 + eps < -3/2)%R /\ (-3/2 < ltime 3 (mj_init 3 2 1%R 0%R) (3 - 1) - eps)%R.
Proof. exact hyp_example_span. Qed.
Example C30_step_exists : (@eps R _ < 1/1000)%R.
Proof. exact hyp_example_step. Qed.
