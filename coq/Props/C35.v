(* Props/C35.v -- C35 "Rendered depth and segmentation match ray casting".
   Statements only; every proof is `exact <lemma of Proof/Ray.v>`.
   compute_ray and k__build_rays are the definitions REGENERATED from
   /repo/mujoco_warp/_src/render_util.py (Gen/T_render_util.v); render_pixel is the hand model of
   render.py's per-pixel code (_render_megakernel + cast_ray) of Model/Ray.v, tied to the real render
   kernel by the per-pixel correspondence run of bin/props/C35.py.  Over R.  Orthographic pixel origins as repaired in /repo 2e971a4.  Not covered: shading,
   textures, flex, splats, mesh/hfield geoms (Warp mesh query builtin). *)
From Coq Require Import ZArith Reals List Bool String.
From VF Require Import Base.Scalar Base.ScalarR Base.Vec Base.Loop Base.Kernel Model.Ray Gen.T_bvh Gen.T_render_util Proof.Ray.
Import ListNotations.
Local Open Scope R_scope.

(* pixel_ray, perspective camera given by fovy (sensorsize[1] = 0): the direction is the UNIT vector
   through the centre (u,v) = ((px+1/2)/W, (py+1/2)/H) of pixel (px,py) on the image plane:
   proportional to (tan(fovy/2) aspect (2u-1), tan(fovy/2) (1-2v), -1), pointing along -z;
   it is the normalised near-plane point of the symmetric frustum.  DEG is the decimal literal
   0.017453292519943295 the code multiplies fovy by. *)
Theorem C35_pixel_ray_fovy : forall (proj : Z) (fovy sw : R) (intr : list R) (W Hh px py : Z) (znear : R),
  proj <> 1%Z -> (0 < W)%Z -> (0 < Hh)%Z -> 0 < znear ->
  let d := compute_ray proj fovy [sw; 0] intr W Hh px py znear in
  let th := tan (1 / 2 * (fovy * DEG)) in
  let aspect := IZR W / IZR Hh in
  dot3 d d = 1 /\ nth 2 d 0 < 0 /\
  nth 0 d 0 = (th * aspect * (2 * pu W px - 1)) * (- nth 2 d 0) /\
  nth 1 d 0 = (th * (1 - 2 * pv Hh py)) * (- nth 2 d 0) /\
  d = @vnormalize R ScalarR (plane_point (- (znear * th * aspect)) (znear * th * aspect) (znear * th) (- (znear * th)) znear W Hh px py).
Proof. exact pixel_ray_fovy. Qed.
Print Assumptions C35_pixel_ray_fovy.

(* pixel_ray, perspective camera given by intrinsics (sensorsize[1] <> 0; focal fx fy, principal point
   cx cy; the sensor is first cropped to the image aspect ratio: eff_sensor): unit direction
   proportional to ((sw'(u-1/2)+cx)/fx, (sh'(1/2-v)-cy)/fy, -1) *)
Theorem C35_pixel_ray_intrinsic : forall (proj : Z) (fovy sw sh fx fy cx cy : R) (W Hh px py : Z) (znear : R),
  proj <> 1%Z -> (0 < W)%Z -> (0 < Hh)%Z -> 0 < znear -> sh <> 0 -> fx <> 0 -> fy <> 0 ->
  let d := compute_ray proj fovy [sw; sh] [fx; fy; cx; cy] W Hh px py znear in
  let sw' := fst (eff_sensor W Hh sw sh) in let sh' := snd (eff_sensor W Hh sw sh) in
  dot3 d d = 1 /\ nth 2 d 0 < 0 /\
  nth 0 d 0 = ((sw' * (pu W px - 1 / 2) + cx) / fx) * (- nth 2 d 0) /\
  nth 1 d 0 = ((sh' * (1 / 2 - pv Hh py) - cy) / fy) * (- nth 2 d 0).
Proof. exact pixel_ray_intrinsic. Qed.
Print Assumptions C35_pixel_ray_intrinsic.

(* orthographic camera: compute_ray returns the optical axis for every pixel ... *)
Theorem C35_pixel_ray_orthographic : forall (fovy : R) (sens intr : list R) (W Hh px py : Z) (znear : R),
  compute_ray 1 fovy sens intr W Hh px py znear = [0; 0; -1].
Proof. exact pixel_ray_orthographic. Qed.
Print Assumptions C35_pixel_ray_orthographic.

(* ... and the render kernel (after /repo 2e971a4; render_ray_cam = hand model of its origin offset, tied by
   the per-pixel correspondence) starts the ray of pixel (px,py), local index px + py W, at the pixel
   centre of the image window of height fovy: origin (hw (2u-1), hh (1-2v), 0) with hh = fovy/2,
   hw = hh W/H; the ray is parallel to the optical axis and passes through that pixel's centre of the
   window at every depth znear.  (Replaces C35_pixel_ray_orthographic_refuted / C35_orthographic_image_constant,
   which described the kernel before the repair.) *)
Theorem C35_pixel_ray_orthographic_origin :
  forall (fovy : R) (sens intr : list R) (W Hh px py : Z) (znear : R),
  (0 < W)%Z -> (0 < Hh)%Z -> (0 <= px < W)%Z -> (0 <= py)%Z ->
  let hh := fovy / 2 in let hw := hh * IZR W / IZR Hh in
  let r := render_ray_cam 1 fovy W Hh (px + py * W) (compute_ray 1 fovy sens intr W Hh px py znear) in
  snd r = [0; 0; -1] /\
  fst r = [hw * (2 * pu W px - 1); hh * (1 - 2 * pv Hh py); 0] /\
  on_ray r (plane_point (- hw) hw hh (- hh) znear W Hh px py).
Proof. exact pixel_ray_orthographic_origin. Qed.
Print Assumptions C35_pixel_ray_orthographic_origin.

(* distinct pixels of an orthographic camera get distinct parallel rays *)
Theorem C35_orthographic_rays_distinct :
  forall (fovy : R) (sens intr : list R) (W Hh px py px' py' : Z) (znear : R),
  (0 < W)%Z -> (0 < Hh)%Z -> (0 <= px < W)%Z -> (0 <= py)%Z -> (0 <= px' < W)%Z -> (0 <= py')%Z -> fovy <> 0 ->
  (px, py) <> (px', py') ->
  let r := render_ray_cam 1 fovy W Hh (px + py * W) (compute_ray 1 fovy sens intr W Hh px py znear) in
  let r' := render_ray_cam 1 fovy W Hh (px' + py' * W) (compute_ray 1 fovy sens intr W Hh px' py' znear) in
  snd r = snd r' /\ fst r <> fst r'.
Proof. exact ortho_rays_distinct. Qed.
Print Assumptions C35_orthographic_rays_distinct.

(* world-frame origin = camera pose applied to the camera-frame origin; perspective rays start at cam_xpos *)
Theorem C35_render_origin_world :
  forall (proj : Z) (fovy : R) (W Hh local : Z) (cx cy cz m00 m01 m02 m10 m11 m12 m20 m21 m22 : R),
  let cam_xmat := m9 m00 m01 m02 m10 m11 m12 m20 m21 m22 in
  render_origin proj fovy W Hh local [cx; cy; cz] cam_xmat
  = @vadd R ScalarR [cx; cy; cz] (@mat_vec R ScalarR 3 3 cam_xmat (render_origin_cam proj fovy W Hh local)).
Proof. exact render_origin_world. Qed.
Print Assumptions C35_render_origin_world.

Theorem C35_render_origin_perspective :
  forall (proj : Z) (fovy : R) (W Hh local : Z) (cam_xpos cam_xmat : list R),
  proj <> 1%Z -> render_origin proj fovy W Hh local cam_xpos cam_xmat = cam_xpos.
Proof. exact render_origin_perspective. Qed.
Print Assumptions C35_render_origin_perspective.

(* _build_rays stores compute_ray of pixel (xid,yid) at ray[offset + xid + yid W]; the render kernel
   recovers (px,py) from the local index with C remainder / quotient *)
Theorem C35_build_rays_write :
  forall (xid yid offset W Hh proj : Z) (fovy : R) (sens intr : list R) (znear : R) (ray_out : Z -> list R) (orc : nat -> Z),
  k__build_rays xid yid offset W Hh proj fovy sens intr znear ray_out orc
  = [mkW "ray_out"%string [(offset + xid + yid * W)%Z] KSet (VV (compute_ray proj fovy sens intr W Hh xid yid znear))].
Proof. exact build_rays_write. Qed.
Print Assumptions C35_build_rays_write.

Theorem C35_pixel_index : forall (W px py : Z), (0 <= px < W)%Z -> (0 <= py)%Z ->
  Z.rem (px + py * W) W = px /\ Z.quot (px + py * W) W = py.
Proof. exact build_rays_index. Qed.
Print Assumptions C35_pixel_index.

(* depth / segmentation = nearest_fold instance.  For the ray dir_world = cam_xmat dir_local from the
   origin of the pixel (cam_xpos, plus the pixel offset for an orthographic camera), candidates cand g = (distance, normal) of geom g after the optional back-face cull, and ANY
   visiting order of the scene-BVH geoms (ids >= 0): either no candidate is eligible (0 <= d < 1e10) and
   the pixel gets depth 0 and segmentation (-1,-1), or the pixel gets segmentation (g, mjOBJ_GEOM = 5) of
   an eligible geom of minimal distance and depth = that distance times -dir_local_z (planar depth). *)
Theorem C35_render_pixel_nearest :
  forall (cull : bool) (proj : Z) (fovy : R) (W Hh local : Z) (cam_xpos cam_xmat dir_local : list R)
         (gd : list R -> list R -> Z -> R * list R) (order : list Z),
  (forall g, In g order -> (0 <= g)%Z) ->
  let dir_world := @mat_vec R ScalarR 3 3 cam_xmat dir_local in
  let origin := render_origin proj fovy W Hh local cam_xpos cam_xmat in
  let cand := fun g => cull_hit cull dir_world (gd origin dir_world g) in
  let '(depth, seg) := render_pixel cull proj fovy W Hh local cam_xpos cam_xmat dir_local gd order in
  ((forall g, In g order -> ~ elig cand g) /\ depth = 0 /\ seg = ((-1)%Z, (-1)%Z))
  \/
  (exists g, In g order /\ elig cand g /\ seg = (g, 5%Z) /\
             depth = dof cand g * - nth 2 dir_local 0 /\
             forall g', In g' order -> elig cand g' -> dof cand g <= dof cand g').
Proof. exact render_pixel_spec. Qed.
Print Assumptions C35_render_pixel_nearest.

(* the cull rule: with culling off candidates are unchanged; with culling on a hit whose normal points
   along the ray (dir.n > 0: the ray leaves the geom) is dropped *)
Theorem C35_cull_off : forall (dir : list R) (dn : R * list R), @cull_hit R ScalarR false dir dn = dn.
Proof. exact cull_hit_off. Qed.
Print Assumptions C35_cull_off.

Theorem C35_cull_on : forall (dir : list R) (d : R) (n : list R),
  @cull_hit R ScalarR true dir (d, n) = if Rleb 0 d && Rltb 0 (dot3 dir n) then (-1, n) else (d, n).
Proof. exact cull_hit_on. Qed.
Print Assumptions C35_cull_on.

(* scene-BVH leaf layout written by build_scene_bvh / refit_scene_bvh (geom_leaf = hand model of
   _compute_bvh_bounds' index, whose stride argument is read from the source by the check; flex_leaf = index of
   the TRANSLATED _compute_flex_bvh_bounds): with the stride ngeom + nflexgeom, in EVERY world the leaf of enabled
   geom k is read back as enabled_geom_ids[k] by the ray kernels, flex leaves are skipped, and no two
   (world, primitive) pairs share a leaf *)
Theorem C35_refit_leaf_layout : forall (n f w : Z) (en : Z -> Z),
  (forall k, (0 <= k < n)%Z -> bvh_geom_of n f w en (geom_leaf (n + f) w k) = Some (en k)) /\
  (forall j, (0 <= j)%Z -> bvh_geom_of n f w en (flex_leaf (n + f) n w j) = None) /\
  (forall w' k k', (0 <= k < n + f)%Z -> (0 <= k' < n + f)%Z ->
     geom_leaf (n + f) w k = geom_leaf (n + f) w' k' -> w = w' /\ k = k').
Proof. exact refit_leaf_layout. Qed.
Print Assumptions C35_refit_leaf_layout.

Theorem C35_flex_bounds_write_index :
  forall (w j : Z) (flex_vertadr flex_vertnum : Z -> Z) (flex_edge : Z -> list Z) (flex_radius : Z -> R)
         (flexvert_xpos : Z -> Z -> list R) (flex_geom_flexid flex_geom_edgeid : Z -> Z) (bvh_ngeom total : Z)
         (lower_out upper_out : Z -> list R) (group_out : Z -> Z) (orc : nat -> Z),
  Forall (fun wr => w_idx wr = [flex_leaf total bvh_ngeom w j])
         (k__compute_flex_bvh_bounds w j flex_vertadr flex_vertnum flex_edge flex_radius flexvert_xpos flex_geom_flexid
                                     flex_geom_edgeid bvh_ngeom total lower_out upper_out group_out orc).
Proof. exact flex_bounds_write_index. Qed.
Print Assumptions C35_flex_bounds_write_index.

(* a stride that leaves out the flex primitives puts (world 1, geom 0) on world 0's first flex leaf *)
Theorem C35_stride_without_flex_refuted : forall (n f : Z) (en : Z -> Z), (0 <= n)%Z -> (1 <= f)%Z ->
  geom_leaf n 1 0 <> geom_leaf (n + f) 1 0 /\ bvh_geom_of n f 0 en (geom_leaf n 1 0) = None.
Proof. exact stride_without_flex_refuted. Qed.
Print Assumptions C35_stride_without_flex_refuted.

(* the hypotheses of the pixel theorems are satisfiable *)
Example C35_pixel_hypotheses_satisfiable : (0%Z <> 1%Z) /\ (0 < 8)%Z /\ (0 < 6)%Z /\ 0 < 1 / 100 /\ (0 <= 3 < 8)%Z.
Proof. exact pixel_hyps_sat. Qed.
