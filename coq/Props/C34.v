(* Props/C34.v -- C34 "Ray casting returns the nearest eligible hit".
   Statements only; every proof is `exact <lemma of Proof/Ray.v>`.
   _ray_quad, ray_sphere, ray_plane, _ray_eliminate, _ray_geom_mesh are the definitions
   REGENERATED from /repo/mujoco_warp/_src/ray.py (Gen/T_ray.v); ray_kernel, ray_loop_tiled,
   ray_bvh_kernel, bvh_trav are the hand models of kernels _ray / _ray_bvh (Model/Ray.v), tied to
   the real kernels by the correspondence run of bin/props/C34.py.  Over R (no float32 rounding). *)
From Coq Require Import ZArith Reals List Bool.
From VF Require Import Base.Scalar Base.ScalarR Base.Vec Base.Loop Model.Ray Gen.T_ray Proof.Ray.
Import ListNotations.
Local Open Scope R_scope.

(* nearest_fold.  Kernel _ray (MJ_MAXVAL-initialised running minimum, strict `<` update, block of one
   lane = the CPU schedule), for lists of geoms of ANY length n and any per-geom result gd
   (gd g = (distance or negative, normal)).  A geom is eligible when 0 <= distance < MJ_MAXVAL = 1e10.
   Either no geom is eligible and the kernel writes (-1, -1, 0), or it writes the distance, id and
   normal of an eligible geom whose distance is minimal; ties go to the LOWEST geom id. *)
Theorem C34_nearest_fold : forall (gd : Z -> R * list R) (n : Z),
  let '(dist, geom, normal) := ray_kernel gd n in
  ((forall g, (0 <= g < n)%Z -> ~ elig gd g) /\ dist = -1 /\ geom = (-1)%Z /\ normal = zero3R)
  \/
  ((0 <= geom < n)%Z /\ elig gd geom /\ dist = dof gd geom /\ normal = snd (gd geom) /\
   (forall g, (0 <= g < n)%Z -> elig gd g -> dist <= dof gd g) /\
   (forall g, (0 <= g < n)%Z -> elig gd g -> dof gd g = dist -> (geom <= g)%Z)).
Proof. exact nearest_fold. Qed.
Print Assumptions C34_nearest_fold.

(* the loop's result does not depend on the block size wp.block_dim() (tile_argmin = first lane
   attaining the minimum): B lanes per iteration give the accumulator of the one-lane loop *)
Theorem C34_block_size_independent : forall (gd : Z -> R * list R) (n : Z) (B : nat),
  (0 < B)%nat -> (0 <= n)%Z -> ray_loop_tiled gd n B = ray_loop gd n.
Proof. exact ray_loop_tiled_eq. Qed.
Print Assumptions C34_block_size_independent.

(* kernel _ray_bvh / render.cast_ray (update iff dist >= 0 and dist < min_dist): for ANY visiting
   order the same minimum is returned; the geom is one attaining it *)
Theorem C34_nearest_fold_bvh_order : forall (gd : Z -> R * list R) (order : list Z),
  let '(dist, geom, normal) := ray_bvh_kernel gd order in
  ((forall g, In g order -> ~ elig gd g) /\ dist = -1 /\ geom = (-1)%Z /\ normal = zero3R)
  \/
  (In geom order /\ elig gd geom /\ dist = dof gd geom /\ normal = snd (gd geom) /\
   (forall g, In g order -> elig gd g -> dist <= dof gd g)).
Proof. exact nearest_fold_bvh. Qed.
Print Assumptions C34_nearest_fold_bvh_order.

Theorem C34_order_independent_dist : forall (gd : Z -> R * list R) (n : Z) (order : list Z),
  (forall g, In g order <-> (0 <= g < n)%Z) ->
  fst (fst (ray_bvh_kernel gd order)) = fst (fst (ray_kernel gd n)).
Proof. exact order_independent_dist. Qed.
Print Assumptions C34_order_independent_dist.

(* _ray's MJ_MAXVAL rule returns the same triple as mj_ray's rule (x = -1; sol >= 0 and
   (x < 0 or sol < x)) as long as no hit distance reaches the sentinel 1e10 *)
Theorem C34_same_as_mj_ray_rule : forall (gd : Z -> R * list R) (n : Z),
  (forall g, (0 <= g < n)%Z -> dof gd g < MAXV) -> ray_kernel gd n = neg_loop gd n.
Proof. exact ray_kernel_eq_mj_rule. Qed.
Print Assumptions C34_same_as_mj_ray_rule.

(* eliminate_rule, on the translated _ray_eliminate: a geom is skipped iff its body is the excluded
   body, or it is invisible (no material and rgba alpha 0, or material with alpha 0), or static geoms
   are disabled and its body is welded to the world, or a group mask is given (not all -1) and the
   slot of its group (clamped to 0..5) is 0 *)
Theorem C34_eliminate_rule :
  forall (body_weldid geom_bodyid geom_matid geom_group : Z -> Z) (geom_rgba mat_rgba : Z -> list R)
         (g : Z) (gg : list R) (flg_static : bool) (bodyexclude : Z),
  _ray_eliminate body_weldid geom_bodyid geom_matid geom_group geom_rgba mat_rgba g gg flg_static bodyexclude = true
  <->
  (   geom_bodyid g = bodyexclude
   \/ ((geom_matid g < 0)%Z /\ alpha (geom_rgba g) = 0)
   \/ ((geom_matid g >= 0)%Z /\ alpha (mat_rgba (geom_matid g)) = 0)
   \/ (flg_static = false /\ body_weldid (geom_bodyid g) = 0%Z)
   \/ (~ no_group_mask gg /\ nth (Z.to_nat (group_slot (geom_group g))) gg 0 = 0)).
Proof. exact eliminate_rule. Qed.
Print Assumptions C34_eliminate_rule.

(* the kernel with the translated per-geom function _ray_geom_mesh as candidate: what _ray writes for
   one ray is the nearest hit among the geoms that are not eliminated (eliminated geoms yield -1) *)
Theorem C34_ray_returns_nearest_eligible :
  forall (nmeshface : Z) (body_weldid geom_type geom_bodyid : Z -> Z) (geom_dataid geom_matid : Z -> Z -> Z)
         (geom_group : Z -> Z) (geom_size geom_rgba : Z -> Z -> list R)
         (mesh_vertadr mesh_faceadr : Z -> Z) (mesh_vert : Z -> list R) (mesh_face : Z -> list Z)
         (hfield_size : Z -> list R) (hfield_nrow hfield_ncol hfield_adr : Z -> Z) (hfield_data : Z -> R)
         (mat_rgba geom_xpos geom_xmat : Z -> Z -> list R)
         (worldid : Z) (pnt vec : list R) (geomgroup : list R) (flg_static : bool) (bodyexclude : Z)
         (sh_matid sh_rgba sh_mat sh_dataid sh_size sh_faceadr : Z) (ngeom : Z),
  let cand := cand nmeshface body_weldid geom_type geom_bodyid geom_dataid geom_matid geom_group geom_size geom_rgba
                   mesh_vertadr mesh_faceadr mesh_vert mesh_face hfield_size hfield_nrow hfield_ncol hfield_adr hfield_data
                   mat_rgba geom_xpos geom_xmat worldid pnt vec geomgroup flg_static bodyexclude
                   sh_matid sh_rgba sh_mat sh_dataid sh_size sh_faceadr in
  let eliminated := eliminated body_weldid geom_bodyid geom_matid geom_group geom_rgba mat_rgba worldid geomgroup
                               flg_static bodyexclude sh_matid sh_rgba sh_mat in
  let '(dist, geom, normal) := ray_kernel cand ngeom in
  ((forall g, (0 <= g < ngeom)%Z -> eliminated g = true \/ ~ (0 <= dof cand g < MAXV)) /\
     dist = -1 /\ geom = (-1)%Z /\ normal = [0; 0; 0])
  \/
  ((0 <= geom < ngeom)%Z /\ eliminated geom = false /\ 0 <= dist < MAXV /\ (dist, normal) = cand geom /\
   (forall g, (0 <= g < ngeom)%Z -> eliminated g = false -> 0 <= dof cand g < MAXV -> dist <= dof cand g) /\
   (forall g, (0 <= g < ngeom)%Z -> eliminated g = false -> dof cand g = dist -> (geom <= g)%Z)).
Proof. intros. exact (ray_returns_nearest_eligible _ _ _ _ _ _ _ _ _ _ _ _ _ _ _ _ _ _ _ _ _ _ _ _ _ _ _ _ _ _ _ _ _ _). Qed.
Print Assumptions C34_ray_returns_nearest_eligible.

(* _ray_quad returns the smallest non-negative root of a x^2 + 2 b x + c (a >= 0; a = 0 forces b = 0,
   as for a = |vec|^2, b = vec.dif) unless the discriminant is below MJ_MINVAL = 1e-15 *)
Theorem C34_ray_quad : forall a b c : R, 0 <= a -> (a = 0 -> b = 0) ->
  let x := fst (_ray_quad a b c) in
  (x = -1 /\ (b * b - a * c < EPS \/ forall t, 0 <= t -> quad a b c t <> 0))
  \/ (0 <= x /\ EPS <= b * b - a * c /\ quad a b c x = 0 /\ forall t, 0 <= t -> quad a b c t = 0 -> x <= t).
Proof. exact ray_quad_spec. Qed.
Print Assumptions C34_ray_quad.

(* the root pair _ray_quad stores (ray_capsule examines BOTH roots of each end-cap sphere): (-1,-1) below the
   1e-15 discriminant, else the two roots x0 <= x1 of the quadratic, and every root is one of them *)
Theorem C34_ray_quad_roots : forall a b c : R, 0 <= a -> (a = 0 -> b = 0) ->
  (b * b - a * c < EPS /\ snd (_ray_quad a b c) = [-1; -1])
  \/ (EPS <= b * b - a * c /\ 0 < a /\ exists x0 x1, snd (_ray_quad a b c) = [x0; x1] /\ x0 <= x1 /\
      quad a b c x0 = 0 /\ quad a b c x1 = 0 /\ forall t, quad a b c t = 0 -> t = x0 \/ t = x1).
Proof. exact ray_quad_roots. Qed.
Print Assumptions C34_ray_quad_roots.

(* ray_sphere: the returned x >= 0 satisfies |pnt + x vec - pos|^2 = dist_sqr, is the smallest such
   non-negative parameter, and the normal is the outward unit normal (hit - pos)/radius; -1 is
   returned only if the discriminant is below 1e-15 (grazing/miss) or there is no root x >= 0.
   No hypothesis on vec (vec = 0 gives -1). *)
Theorem C34_ray_sphere : forall cx cy cz r2 px py pz vx vy vz : R,
  let c := v3 cx cy cz in let p := v3 px py pz in let v := v3 vx vy vz in
  let x := fst (ray_sphere c r2 p v) in let nrm := snd (ray_sphere c r2 p v) in
  let disc := dot3 v (@vsub R ScalarR p c) * dot3 v (@vsub R ScalarR p c)
              - dot3 v v * (sqdist p c - r2) in
  (x = -1 /\ nrm = v3 0 0 0 /\ (disc < EPS \/ forall t, 0 <= t -> sqdist (ray_at p v t) c <> r2))
  \/ (0 <= x /\ EPS <= disc /\ sqdist (ray_at p v x) c = r2 /\
      (forall t, 0 <= t -> sqdist (ray_at p v t) c = r2 -> x <= t) /\
      nrm = @vnormalize R ScalarR (@vsub R ScalarR (ray_at p v x) c) /\
      (0 < r2 -> dot3 nrm nrm = 1 /\ nrm = @vdivs R ScalarR (@vsub R ScalarR (ray_at p v x) c) (sqrt r2))).
Proof. exact ray_sphere_spec. Qed.
Print Assumptions C34_ray_sphere.

(* ray_plane (n, ax, ay = third, first, second column of the geom's matrix; no orthonormality needed):
   a hit is a parameter t >= 0 of a ray facing the front side (n.vec <= -1e-15) whose point lies on the
   plane and inside the rendered rectangle (a side with size <= 0 is unlimited).  The function returns
   the unique hit together with the normal n, or (-1, 0) when there is none. *)
Theorem C34_ray_plane : forall cx cy cz m00 m01 m02 m10 m11 m12 m20 m21 m22 s0_ s1_ s2_ px py pz vx vy vz : R,
  let c := v3 cx cy cz in let p := v3 px py pz in let v := v3 vx vy vz in
  let M := m9 m00 m01 m02 m10 m11 m12 m20 m21 m22 in
  let ax := col M 0 in let ay := col M 1 in let n := col M 2 in
  let r := ray_plane c M (v3 s0_ s1_ s2_) p v in
  let Hit t := 0 <= t /\ dot3 n v <= - EPS /\ dot3 n (@vsub R ScalarR (ray_at p v t) c) = 0 /\
               within s0_ (dot3 ax (@vsub R ScalarR (ray_at p v t) c)) /\
               within s1_ (dot3 ay (@vsub R ScalarR (ray_at p v t) c)) in
  (fst r = -1 /\ snd r = v3 0 0 0 /\ forall t, ~ Hit t)
  \/ (Hit (fst r) /\ snd r = n /\ forall t, Hit t -> t = fst r).
Proof. exact ray_plane_spec. Qed.
Print Assumptions C34_ray_plane.

(* ray_ellipsoid, PARTIAL: stated in the geom's local frame (lp, lv) = _ray_map pos mat pnt vec, i.e.
   lp + t lv = mat^T (pnt + t vec - pos), which is the world-frame statement when mat is a rotation; the
   returned normal is not characterised.  For non-zero semi-axes the returned x >= 0 lies on the
   ellipsoid and is the smallest such non-negative parameter; -1 is returned for a surface point only if
   the quadratic's discriminant is below 1e-15 (tangent ray). *)
Theorem C34_ray_ellipsoid_partial :
  forall cx cy cz m00 m01 m02 m10 m11 m12 m20 m21 m22 sx sy sz px py pz vx vy vz : R,
  sx <> 0 -> sy <> 0 -> sz <> 0 ->
  let c := v3 cx cy cz in let p := v3 px py pz in let v := v3 vx vy vz in
  let M := m9 m00 m01 m02 m10 m11 m12 m20 m21 m22 in
  let lp := fst (_ray_map c M p v) in let lv := snd (_ray_map c M p v) in
  let x := fst (ray_ellipsoid c M (v3 sx sy sz) p v) in
  (x = -1 /\ forall t, 0 <= t -> ell sx sy sz (ray_at lp lv t) = 1 ->
                       exists a b cc, a * t * t + 2 * b * t + cc = 0 /\ b * b - a * cc < EPS)
  \/ (0 <= x /\ ell sx sy sz (ray_at lp lv x) = 1 /\
      forall t, 0 <= t -> ell sx sy sz (ray_at lp lv t) = 1 -> x <= t).
Proof. exact ray_ellipsoid_partial. Qed.
Print Assumptions C34_ray_ellipsoid_partial.

(* ray_geom is a pure dispatch on the geom type (ray_capsule, ray_cylinder, ray_box are covered by
   T-validation and the mj_ray oracle only: no closed-form theorem) *)
Theorem C34_ray_geom_dispatch : forall pos mat size pnt vec : list R,
  ray_geom pos mat size pnt vec 0 = ray_plane pos mat size pnt vec /\
  ray_geom pos mat size pnt vec 2 = ray_sphere pos (nth 0 size 0 * nth 0 size 0) pnt vec /\
  ray_geom pos mat size pnt vec 3 = ray_capsule pos mat size pnt vec /\
  ray_geom pos mat size pnt vec 4 = ray_ellipsoid pos mat size pnt vec /\
  ray_geom pos mat size pnt vec 5 = ray_cylinder pos mat size pnt vec /\
  ray_geom pos mat size pnt vec 6 = (fst (fst (ray_box pos mat size pnt vec)), snd (ray_box pos mat size pnt vec)) /\
  (forall t : Z, t <> 0%Z -> t <> 2%Z -> t <> 3%Z -> t <> 4%Z -> t <> 5%Z -> t <> 6%Z ->
     ray_geom pos mat size pnt vec t = (-1, [0; 0; 0])).
Proof. exact ray_geom_dispatch. Qed.
Print Assumptions C34_ray_geom_dispatch.

(* _ray_bvh's map from yielded BVH primitive indices to geoms (after /repo ae9ede3): the kernel over the
   primitives equals the order-model over the geoms they denote, and the block of world w -- ngeom geoms
   followed by nflexgeom flex primitives, at stride ngeom + nflexgeom -- denotes exactly the enabled geoms
   for EVERY world and any number of flex primitives (flex primitives are skipped) *)
Theorem C34_ray_bvh_prims : forall (gd : Z -> R * list R) (n f w : Z) (en : Z -> Z) (prims : list Z),
  ray_bvh_kernel_prims gd n f w en prims = ray_bvh_kernel gd (prim_geoms n f w en prims).
Proof. exact ray_bvh_kernel_prims_eq. Qed.
Print Assumptions C34_ray_bvh_prims.

Theorem C34_bvh_world_block_flex_stride : forall (n f w : Z) (en : Z -> Z), (0 <= n)%Z -> (0 <= f)%Z ->
  prim_geoms n f w en (map (fun k => (w * (n + f) + k)%Z) (zrange (n + f))) = map en (zrange n).
Proof. exact world_block_geoms. Qed.
Print Assumptions C34_bvh_world_block_flex_stride.

(* the triangle-test basis of ray_mesh / ray_hfield: _orthogonal_basis of a unit vector is an orthonormal
   pair orthogonal to it (no exceptional direction), and -- what the code does since /repo 8617230 -- the
   basis of the NORMALISED direction is orthogonal to the direction for every non-zero vec of any length *)
Theorem C34_orthogonal_basis_unit : forall x y z : R, x * x + y * y + z * z = 1 ->
  let b0 := fst (_orthogonal_basis [x; y; z]) in let b1 := snd (_orthogonal_basis [x; y; z]) in
  dot3 b0 [x; y; z] = 0 /\ dot3 b1 [x; y; z] = 0 /\ dot3 b0 b1 = 0 /\ dot3 b0 b0 = 1 /\ dot3 b1 b1 = 1.
Proof. exact orthogonal_basis_unit. Qed.
Print Assumptions C34_orthogonal_basis_unit.

Theorem C34_orthogonal_basis_normalized : forall x y z : R, 0 < x * x + y * y + z * z ->
  let b0 := fst (_orthogonal_basis (@vnormalize R ScalarR [x; y; z])) in
  let b1 := snd (_orthogonal_basis (@vnormalize R ScalarR [x; y; z])) in
  dot3 b0 [x; y; z] = 0 /\ dot3 b1 [x; y; z] = 0 /\ dot3 b0 b1 = 0 /\ dot3 b0 b0 = 1 /\ dot3 b1 b1 = 1.
Proof. exact orthogonal_basis_normalized. Qed.
Print Assumptions C34_orthogonal_basis_normalized.

(* the hfield mesh of the BVH path: merging a rectangle of cells that all pass fits_plane (planar, corner on the
   start plane, SAME slopes; hand model with exact arithmetic of the host function bvh._optimize_hfield_mesh,
   tied by the mesh-exactness obligation of the check) is exact -- every grid node of the rectangle lies on the
   quad's plane -- and the slope test cannot be dropped (flat cell + ramp cell witness) *)
Theorem C34_hfield_merge_exact : forall (z : Z -> Z -> R) (r c h w : Z) (sx sy : R),
  (1 <= h)%Z -> (1 <= w)%Z ->
  (forall rr cc, (r <= rr < r + h)%Z -> (c <= cc < c + w)%Z -> cell_fits z r c sx sy rr cc) ->
  forall rr cc, (r <= rr <= r + h)%Z -> (c <= cc <= c + w)%Z -> z rr cc = hf_plane z r c sx sy rr cc.
Proof. exact hfield_merge_exact. Qed.
Print Assumptions C34_hfield_merge_exact.

Theorem C34_hfield_merge_needs_slope_test :
  exists (z : Z -> Z -> R),
    let sx := z 0%Z 1%Z - z 0%Z 0%Z in let sy := z 1%Z 0%Z - z 0%Z 0%Z in
    cell_fits z 0 0 sx sy 0 0 /\
    (z 0%Z 1%Z + z 1%Z 2%Z = z 0%Z 2%Z + z 1%Z 1%Z /\ z 0%Z 1%Z = hf_plane z 0 0 sx sy 0 1) /\
    z 0%Z 2%Z <> hf_plane z 0 0 sx sy 0 2.
Proof. exact hfield_merge_needs_slope_test. Qed.
Print Assumptions C34_hfield_merge_needs_slope_test.

(* bvh_equals_brute_partial.  Abstract BVH (binary tree, one geom per leaf, a box per node; `entry`
   = distance at which the ray enters a box, None = missed).  If the traversal skips a subtree only
   when its box is missed or entered no nearer than the current best (prune_sound), and every box is
   entered no later than any hit of a geom below it (covers: boxes contain their leaves + monotone
   entry distance), then for either child order the traversal returns the same distance as the
   brute-force kernel, a geom attaining it, and the identical triple when the minimiser is unique.
   PARTIAL: Warp's bvh_query_ray/bvh_query_next are C++ builtins outside /repo and are not translated;
   multi-primitive leaves, the group (world) filter and the max_t argument of the mesh query are not
   modelled; whether the real boxes cover the real geoms is tested (BVH vs brute-force oracle), not proved. *)
Theorem C34_bvh_equals_brute_partial :
  forall (Box : Type) (entry : Box -> option R) (prune swap : Box -> R -> bool) (gd : Z -> R * list R),
  (forall b best, prune b best = true -> match entry b with None => True | Some e => best <= e end) ->
  forall (t : bvh Box) (n : Z),
  covers Box entry gd t -> (forall g, In g (bvh_leaves t) <-> (0 <= g < n)%Z) ->
  let r1 := ray_result (bvh_trav prune swap gd t racc0) in
  let r2 := ray_kernel gd n in
  fst (fst r1) = fst (fst r2) /\
  (snd (fst r1) = (-1)%Z <-> snd (fst r2) = (-1)%Z) /\
  (snd (fst r1) <> (-1)%Z ->
     (0 <= snd (fst r1) < n)%Z /\ elig gd (snd (fst r1)) /\
     dof gd (snd (fst r1)) = fst (fst r1) /\ snd r1 = snd (gd (snd (fst r1)))) /\
  ((forall g g', (0 <= g < n)%Z -> (0 <= g' < n)%Z -> elig gd g -> dof gd g = dof gd g' -> g = g') -> r1 = r2).
Proof. exact bvh_equals_brute. Qed.
Print Assumptions C34_bvh_equals_brute_partial.

(* the hypotheses of the BVH theorem are satisfiable, and the traversal really prunes there *)
Theorem C34_bvh_hypotheses_satisfiable :
  let entry := fun b : R => Some b in
  let prune := fun (b best : R) => Rleb best b in
  let gd : gdT := fun g => if Z.eqb g 0 then (2, [0; 0; 1]) else (1, [0; 0; 1]) in
  let t := BNode (1 / 2) (BLeaf (3 / 2) 0%Z) (BLeaf (1 / 2) 1%Z) in
  (forall b best, prune b best = true -> match entry b with None => True | Some e => best <= e end) /\
  covers R entry gd t /\ (forall g, In g (bvh_leaves t) <-> (0 <= g < 2)%Z) /\
  ray_result (bvh_trav prune (fun _ _ => false) gd t racc0) = (1, 1%Z, [0; 0; 1]).
Proof. exact bvh_hyps_sat. Qed.
Print Assumptions C34_bvh_hypotheses_satisfiable.
