(* Props/C06.v -- C06 "Constrained acceleration is the convex-cost optimum" (certificate part).
   Statements only; every proof is `exact <lemma of Proof/Solver.v>`.
   row_cost / row_force are the cost and force components of the REGENERATED _eval_constraint
   (Gen/solver.v, from /repo/mujoco_warp/_src/solver.py) for a non-elliptic row, as functions of the
   row's jaref = J_r a - aref_r:   row_cost ie ifr D fl x = r_cost (ec ie ifr false x D fl 0 ...).
   Elliptic contacts couple the rows of one contact: they are handled as blocks (C06_elliptic_block_convex,
   C06_kkt_certificate_system).  What is NOT proved here: that the Newton / CG iteration reaches the stationary point (checked a
   posteriori per input by the oracle: KKT residual and comparison with MuJoCo); float32. *)
From Coq Require Import ZArith Reals List Bool.
From VF Require Import Base.Scalar Base.ScalarR Base.Vec Gen.solver Model.SolverHand Proof.Solver.
Import ListNotations.
Local Open Scope R_scope.

(* force = - d cost / d jaref at EVERY jaref - inside each zone and at the zone boundaries
   (jaref = 0 for limit/contact rows, jaref = -+ frictionloss/D for friction rows) - for equality
   (ie = true), friction-loss (ifr = true) and limit / frictionless / pyramidal rows *)
Theorem C06_force_is_minus_cost_derivative :
  forall ie ifr D fl x, 0 < D -> 0 <= fl ->
    derivable_pt_lim (row_cost ie ifr D fl) x (- row_force ie ifr D fl x).
Proof. exact force_is_minus_cost_derivative. Qed.
Print Assumptions C06_force_is_minus_cost_derivative.

(* the one inequality behind it:  0 <= c(x+h) - c(x) + f(x) h <= D h^2 / 2 *)
Theorem C06_row_quadratic_bounds :
  forall ie ifr D fl x h, 0 < D -> 0 <= fl ->
    0 <= row_cost ie ifr D fl (x + h) - row_cost ie ifr D fl x + row_force ie ifr D fl x * h
      <= 1/2 * D * h * h.
Proof. exact row_quadratic_bounds. Qed.
Print Assumptions C06_row_quadratic_bounds.

(* C1: the force is continuous (D-Lipschitz) across the zone boundaries *)
Theorem C06_cost_C1 :
  forall ie ifr D fl x y, 0 < D -> 0 <= fl ->
    Rabs (row_force ie ifr D fl y - row_force ie ifr D fl x) <= D * Rabs (y - x).
Proof. exact cost_C1. Qed.
Print Assumptions C06_cost_C1.

(* convexity of each row cost: first-order form (the tangent lies below) and Jensen form *)
Theorem C06_cost_convex_rowwise :
  forall ie ifr D fl x y, 0 < D -> 0 <= fl ->
    row_cost ie ifr D fl x - row_force ie ifr D fl x * (y - x) <= row_cost ie ifr D fl y.
Proof. exact cost_convex_rowwise. Qed.
Print Assumptions C06_cost_convex_rowwise.

Theorem C06_row_cost_convex :
  forall ie ifr D fl x y t, 0 < D -> 0 <= fl -> 0 <= t <= 1 ->
    row_cost ie ifr D fl (t * x + (1 - t) * y)
      <= t * row_cost ie ifr D fl x + (1 - t) * row_cost ie ifr D fl y.
Proof. exact row_cost_convex. Qed.
Print Assumptions C06_row_cost_convex.

(* KKT certificate, abstract finite-dimensional form.  Vectors are functions of an index < n,
   dot n / mv n the n-term dot and matrix-vector products, JTf m J f = J' f accumulated row by row,
   gauss = 1/2 (a-a0)' M (a-a0) + sum_r s_r (J_r . a - aref_r).  If M is symmetric positive
   semidefinite, every row cost s_r is convex with derivative -f_r, and a is stationary
   (M (a - a0) = J' f(a)), then a minimises the Gauss cost over ALL accelerations b.  Hence a small
   residual || M qacc - qfrc_smooth - J' efc_force || is a sound optimality test. *)
Theorem C06_kkt_certificate :
  forall (n m : nat) (M J : nat -> nat -> R) (aref a0 : nat -> R) (s f : nat -> R -> R) (a : nat -> R),
    (forall x y, dot n x (mv n M y) = dot n y (mv n M x)) ->
    (forall x, 0 <= dot n x (mv n M x)) ->
    (forall r, (r < m)%nat -> forall x y, s r x - f r x * (y - x) <= s r y) ->
    (forall i, (i < n)%nat ->
       mv n M (vsubf a a0) i = JTf m J (fun r => f r (dot n (J r) a - aref r)) i) ->
    forall b, gauss n m M J aref s a0 a <= gauss n m M J aref s a0 b.
Proof. exact kkt_certificate. Qed.
Print Assumptions C06_kkt_certificate.

(* the same for a constraint cost S of the whole jaref vector (not a sum of per-row functions) with
   force field F: first-order convexity  S y - sum_r F_r(y) (y'_r - y_r) <= S y'  suffices *)
Theorem C06_kkt_certificate_general :
  forall (n m : nat) (M J : nat -> nat -> R) (aref a0 : nat -> R)
         (S : (nat -> R) -> R) (F : (nat -> R) -> nat -> R) (a : nat -> R),
    (forall x y, dot n x (mv n M y) = dot n y (mv n M x)) ->
    (forall x, 0 <= dot n x (mv n M x)) ->
    (forall y y', S y - sumn m (fun r => F y r * (y' r - y r)) <= S y') ->
    (forall i, (i < n)%nat ->
       mv n M (vsubf a a0) i = JTf m J (F (fun r => dot n (J r) a - aref r)) i) ->
    forall b, gaussS n m M J aref S a0 a <= gaussS n m M J aref S a0 b.
Proof. exact kkt_certificate_general. Qed.
Print Assumptions C06_kkt_certificate_general.

(* ... instantiated with the translated _eval_constraint for systems made of equality, friction-loss,
   limit and frictionless / pyramidal contact rows (row kinds given by the flags the kernel passes) *)
Theorem C06_kkt_certificate_rows :
  forall (n m : nat) (M J : nat -> nat -> R) (aref a0 : nat -> R)
         (ie ifr : nat -> bool) (D fl : nat -> R) (a : nat -> R),
    (forall x y, dot n x (mv n M y) = dot n y (mv n M x)) ->
    (forall x, 0 <= dot n x (mv n M x)) ->
    (forall r, (r < m)%nat -> 0 < D r /\ 0 <= fl r) ->
    (forall i, (i < n)%nat ->
       mv n M (vsubf a a0) i
       = JTf m J (fun r => row_force (ie r) (ifr r) (D r) (fl r) (dot n (J r) a - aref r)) i) ->
    forall b,
      gauss n m M J aref (fun r => row_cost (ie r) (ifr r) (D r) (fl r)) a0 a
      <= gauss n m M J aref (fun r => row_cost (ie r) (ifr r) (D r) (fl r)) a0 b.
Proof. exact kkt_certificate_rows. Qed.
Print Assumptions C06_kkt_certificate_rows.

(* the cost of one elliptic contact (all its rows, evaluated by the translated _eval_constraint with
   the kernel's argument assembly of Model/SolverHand.v) is convex as a function of the contact's
   jaref vector, its row forces being minus the gradient - across all three zones.  x = (j0, rows),
   y = (j0', rows with the tangent jarefs replaced by jy); row masses as constraint.py builds them. *)
Theorem C06_elliptic_block_convex :
  forall adr0 D0 mu, 0 < D0 -> 0 < mu ->
  forall j0 j0' rows jy,
    rows_ok D0 mu rows -> length jy = length rows ->
    let jt := map (fun r => fst (fst r)) rows in
    let fr := map (fun r => snd (fst r)) rows in
    block_cost adr0 j0 D0 mu rows
      - r_force (@block_row_normal R ScalarR adr0 j0 D0 mu jt fr) * (j0' - j0)
      - tang_lin adr0 j0 D0 mu jt fr 0 rows jy
    <= block_cost adr0 j0' D0 mu (rows_with rows jy).
Proof. exact elliptic_block_convex. Qed.
Print Assumptions C06_elliptic_block_convex.

(* KKT certificate for any system whose constraint rows are simple rows (TRow r ...) and elliptic
   contacts (TBlock p D0 mu [(friction_k, D_k)...]: normal row p, tangent rows p+1, p+2, ...), all
   evaluated by the translated _eval_constraint: sys_cost is the total constraint cost, sys_force the
   per-row force; stationarity  M (a - a0) = J' force(a)  implies that a minimises the Gauss cost. *)
Theorem C06_kkt_certificate_system :
  forall (n m : nat) (M J : nat -> nat -> R) (aref a0 : nat -> R) (ts : list term) (a : nat -> R),
    (forall x y, dot n x (mv n M y) = dot n y (mv n M x)) ->
    (forall x, 0 <= dot n x (mv n M x)) ->
    (forall t, In t ts -> term_ok m t) ->
    (forall i, (i < n)%nat ->
       mv n M (vsubf a a0) i = JTf m J (sys_force ts (fun r => dot n (J r) a - aref r)) i) ->
    forall b, gaussS n m M J aref (sys_cost ts) a0 a <= gaussS n m M J aref (sys_cost ts) a0 b.
Proof. exact kkt_certificate_system. Qed.
Print Assumptions C06_kkt_certificate_system.

(* elliptic contacts, branch by branch.  Top zone: cost 0, forces 0.  Bottom zone: every row is the
   quadratic formula (covered by C06_force_is_minus_cost_derivative with ie = true's formula, see
   C24_elliptic_bottom_quadratic).  Middle zone: the contact's cost cmid = 1/2 dm (N - mu T)^2 is
   stored on the normal row (cost component of _eval_elliptic_middle); the forces of the normal row
   and of each tangent row are minus its partial derivatives: *)
Theorem C06_elliptic_cost_deriv_normal :
  forall D0 mu j0 TT, mu <> 0 ->
    derivable_pt_lim (fun x => cmid D0 mu x TT) j0 (- fmid_normal D0 mu j0 TT).
Proof. exact elliptic_cost_deriv_normal. Qed.
Print Assumptions C06_elliptic_cost_deriv_normal.

(* tangent row with friction coefficient fk and jaref x: TT = R + (x fk)^2 (R = the other tangent
   rows' share), ufrictionj = (x fk) fk as the kernel computes them *)
Theorem C06_elliptic_cost_deriv_tangent :
  forall D0 mu j0 R fk x, mu <> 0 -> 0 < R + (x * fk) * (x * fk) ->
    derivable_pt_lim (fun x => cmid D0 mu j0 (R + (x * fk) * (x * fk))) x
      (- fmid_tangent D0 mu j0 (R + (x * fk) * (x * fk)) ((x * fk) * fk)).
Proof. exact elliptic_cost_deriv_tangent. Qed.
Print Assumptions C06_elliptic_cost_deriv_tangent.

(* gluing (C1) at the two zone boundaries: cost and every force of the middle formula agree with
   the top zone (all zero) on N = mu T, and with the bottom zone (quadratic rows, using the row-mass
   relation D_k mu^2 = D_0 fk^2 of constraint.py) on mu N + T = 0 *)
Theorem C06_elliptic_C1_top :
  forall D0 mu j0 TT uf, mu <> 0 -> sqrt TT <> 0 -> j0 * mu = mu * sqrt TT ->
    cmid D0 mu j0 TT = 0 /\ fmid_normal D0 mu j0 TT = 0 /\ fmid_tangent D0 mu j0 TT uf = 0.
Proof. exact elliptic_C1_top. Qed.
Print Assumptions C06_elliptic_C1_top.

Theorem C06_elliptic_C1_bottom :
  forall D0 mu j0 TT jk fk Dk, 0 < mu -> 0 < TT ->
    mu * (j0 * mu) + sqrt TT = 0 -> Dk * (mu * mu) = D0 * (fk * fk) ->
    cmid D0 mu j0 TT = 1/2 * D0 * j0 * j0 + 1/2 * (D0 / (mu * mu)) * TT /\
    fmid_normal D0 mu j0 TT = - D0 * j0 /\
    fmid_tangent D0 mu j0 TT ((jk * fk) * fk) = - Dk * jk.
Proof. exact elliptic_C1_bottom. Qed.
Print Assumptions C06_elliptic_C1_bottom.

(* the Hessian weight the Newton update uses per row (_state_check) is the second derivative of the
   row cost: D on QUADRATIC rows, 0 elsewhere *)
Theorem C06_state_check_spec :
  forall D s, @_state_check R ScalarR D s = if Z.eqb s 1 then D else 0.
Proof. exact state_check_spec. Qed.
Print Assumptions C06_state_check_spec.

(* the friction-loss cost the line search evaluates is the cost _eval_constraint reports *)
Theorem C06_frictionloss_cost_agrees :
  forall D fl x, 0 < D -> 0 <= fl ->
    @_eval_frictionloss_cost R ScalarR x fl (fl / D) D = row_cost false true D fl x.
Proof. exact frictionloss_cost_agrees. Qed.
Print Assumptions C06_frictionloss_cost_agrees.

(* non-vacuity of the KKT hypotheses: a 1-dof, 1-row system (M = 2, J = 1, limit row with D = 3,
   a0 = -1, aref = 0) whose stationary point a = -2/5 satisfies every hypothesis *)
Example C06_kkt_hypotheses_satisfiable :
  let M := fun _ _ : nat => 2 in let J := fun _ _ : nat => 1 in
  let a0 := fun _ : nat => -1 in let aref := fun _ : nat => 0 in let a := fun _ : nat => -2/5 in
  (forall x y, dot 1 x (mv 1 M y) = dot 1 y (mv 1 M x)) /\
  (forall x, 0 <= dot 1 x (mv 1 M x)) /\
  (forall i, (i < 1)%nat ->
     mv 1 M (vsubf a a0) i = JTf 1 J (fun r => row_force false false 3 0 (dot 1 (J r) a - aref r)) i).
Proof. exact kkt_example. Qed.

(* ... and of the system theorem's well-formedness: a limit row and a condim-3 elliptic contact *)
Example C06_system_hypotheses_satisfiable :
  let ts := [TRow 0 false false 3 0; TBlock 1 2 (1/2) [(1/2, 2); (1/2, 2)]] in
  forall t, In t ts -> term_ok 4 t.
Proof. exact system_example. Qed.
