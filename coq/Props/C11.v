(* Props/C11.v -- C11 "Results are independent of parallel thread order".
   A schedule of a launch = any Permutation of its task list (tasks are atomic; sub-task
   interleavings are covered only where stated: C01_fk_interleaved).  The cross-task dependencies
   of the step pipeline fall into the classes below; each class is discharged by a theorem proved
   in the Props file of the property that owns the mechanism and re-stated here VERBATIM (the
   statement is taken from that theorem with `type of`, so the two can never drift apart):

     mechanism                                   theorem
     ------------------------------------------  ---------------------------------------------
     generic: pairwise commuting tasks           C11_commuting_tasks_any_schedule
     atomic counters: contacts, constraint rows,  C11_alloc_sched            (= C16_alloc_sched)
       nnz slots, broadphase pairs, compaction
     many writers of one body (branch kinematics) C11_fk_branch / C11_fk_interleaved (= C01_x)
     level-parallel tree accumulation             C11_tree_accumulate_sched  (= C02_x)
       (_subtree_com_acc, _crb_accumulate, _cfrc_backward, subtree mass)
     constraint-graph edges (atomic_max marks)    C11_island_adj_order_independent (= C28_x)
     island slot allocation                        C11_island_dof_maps_sched / _efc_maps_sched
     sleep: sweep, update lists, wake, wake by     C11_sleep_x (= C29_x)
       tendon / equality
     waking by contact: countdown values ARE       C11_wake_collision_refuted (= C29_wake_sched_refuted)
       order dependent (recorded finding);          C11_wake_collision_awake_set (= C29_..._awake_set_sched)
       the awake SET is not
     worlds: other worlds' tasks are invisible     C11_other_worlds_irrelevant (= C09_x)

   Kernels whose tasks write disjoint cells and read nothing another task writes need no theorem
   beyond the generic one; that this is the case for the translated kernels is TESTED on traced
   real launches by re-running them in reverse and random orders inside Coq (bin/props/C11.py). *)
From Coq Require Import List Permutation.
From Coq Require Import ZArith.
From VF Require Import Base.Scalar Proof.Sched Props.C16 Props.C01 Props.C02 Props.C28 Props.C29 Props.C09 Proof.WakeTree.
Local Open Scope Z_scope.

(* waking by contact, on the MACHINE-TRANSLATED procedure sleep._wake_tree (Gen/T_sleep.v p__wake_tree, called
   by the wake kernels): for a tree that is awake or asleep in a one-tree cycle, two wakes in either order leave
   the same array - the stored countdown is the minimum - and no other cell changes.  (For multi-tree cycles the
   countdown is order dependent: C11_wake_collision_refuted below.) *)
Theorem C11_wake_tree_merges_by_min :
  forall (S : Type) (Sc : Scalar S) ntree w t v1 v2 orc1 orc2 f,
    wakeable ntree w t f -> v1 < 0 -> v2 < 0 ->
    forall w' t',
      wake (S := S) ntree w t v2 orc2 (wake (S := S) ntree w t v1 orc1 f) w' t'
      = upd f w t (if f w t <? 0 then Z.min (f w t) (Z.min v1 v2) else Z.min v1 v2) w' t'.
Proof. intros S Sc. exact (@wake_twice S Sc). Qed.
Print Assumptions C11_wake_tree_merges_by_min.

Theorem C11_wake_tree_two_wakes_commute :
  forall (S : Type) (Sc : Scalar S) ntree w t v1 v2 o1 o2 o3 o4 f,
    wakeable ntree w t f -> v1 < 0 -> v2 < 0 ->
    forall w' t',
      wake (S := S) ntree w t v2 o2 (wake (S := S) ntree w t v1 o1 f) w' t'
      = wake (S := S) ntree w t v1 o4 (wake (S := S) ntree w t v2 o3 f) w' t'.
Proof. intros S Sc. exact (@wake_commute S Sc). Qed.
Print Assumptions C11_wake_tree_two_wakes_commute.

Theorem C11_wake_tree_touches_own_cell_only :
  forall (S : Type) (Sc : Scalar S) ntree w t v orc f,
    wakeable ntree w t f -> forall w' t', (w', t') <> (w, t) -> wake (S := S) ntree w t v orc f w' t' = f w' t'.
Proof. intros S Sc. exact (@wake_other_untouched S Sc). Qed.
Print Assumptions C11_wake_tree_touches_own_cell_only.

Example C11_wake_tree_hypotheses_satisfiable :
  let f := fun (_ t : Z) => if t =? 1 then 1 else (-5) in wakeable 3 0 1 f /\ -11 < 0 /\ -3 < 0.
Proof. exact wake_example. Qed.

Theorem C11_commuting_tasks_any_schedule :
  forall (St T : Type) (step : St -> T -> St) (l l' : list T),
    (forall s a b, In a l -> In b l -> step (step s a) b = step (step s b) a) ->
    Permutation l l' -> forall s, fold_left step l s = fold_left step l' s.
Proof. exact fold_left_perm_commute. Qed.
Print Assumptions C11_commuting_tasks_any_schedule.

Theorem C11_alloc_sched : ltac:(let t := type of C16_alloc_sched in exact t).
Proof. exact C16_alloc_sched. Qed.
Print Assumptions C11_alloc_sched.

Theorem C11_fk_branch : ltac:(let t := type of C01_fk_branch_eq_spec in exact t).
Proof. exact C01_fk_branch_eq_spec. Qed.
Print Assumptions C11_fk_branch.

Theorem C11_fk_interleaved : ltac:(let t := type of C01_fk_interleaved_eq_spec in exact t).
Proof. exact C01_fk_interleaved_eq_spec. Qed.
Print Assumptions C11_fk_interleaved.

Theorem C11_tree_accumulate_sched : ltac:(let t := type of C02_tree_accumulate_sched in exact t).
Proof. exact C02_tree_accumulate_sched. Qed.
Print Assumptions C11_tree_accumulate_sched.

Theorem C11_island_adj_order_independent : ltac:(let t := type of C28_adj_order_independent in exact t).
Proof. exact C28_adj_order_independent. Qed.
Print Assumptions C11_island_adj_order_independent.

Theorem C11_island_dof_maps_sched : ltac:(let t := type of C28_island_dof_maps_sched in exact t).
Proof. exact C28_island_dof_maps_sched. Qed.
Print Assumptions C11_island_dof_maps_sched.

Theorem C11_island_efc_maps_sched : ltac:(let t := type of C28_island_efc_maps_sched in exact t).
Proof. exact C28_island_efc_maps_sched. Qed.
Print Assumptions C11_island_efc_maps_sched.

Theorem C11_sleep_sweep_sched : ltac:(let t := type of C29_sweep_sched in exact t).
Proof. exact C29_sweep_sched. Qed.
Print Assumptions C11_sleep_sweep_sched.

Theorem C11_sleep_wake_sched : ltac:(let t := type of C29_wake_sched in exact t).
Proof. exact C29_wake_sched. Qed.
Print Assumptions C11_sleep_wake_sched.

Theorem C11_sleep_wake_tendon_sched : ltac:(let t := type of C29_wake_tendon_sched in exact t).
Proof. exact C29_wake_tendon_sched. Qed.
Print Assumptions C11_sleep_wake_tendon_sched.

Theorem C11_sleep_wake_equality_sched : ltac:(let t := type of C29_wake_equality_sched in exact t).
Proof. exact C29_wake_equality_sched. Qed.
Print Assumptions C11_sleep_wake_equality_sched.

Theorem C11_sleep_update_trees_sched : ltac:(let t := type of C29_update_sleep_trees_sched in exact t).
Proof. exact C29_update_sleep_trees_sched. Qed.
Print Assumptions C11_sleep_update_trees_sched.

Theorem C11_sleep_update_bodies_sched : ltac:(let t := type of C29_update_sleep_bodies_sched in exact t).
Proof. exact C29_update_sleep_bodies_sched. Qed.
Print Assumptions C11_sleep_update_bodies_sched.

Theorem C11_sleep_update_dofs_sched : ltac:(let t := type of C29_update_sleep_dofs_sched in exact t).
Proof. exact C29_update_sleep_dofs_sched. Qed.
Print Assumptions C11_sleep_update_dofs_sched.

(* waking by contact: the full statement is refuted on the faithful model ... *)
Theorem C11_wake_collision_refuted : ltac:(let t := type of C29_wake_sched_refuted in exact t).
Proof. exact C29_wake_sched_refuted. Qed.
Print Assumptions C11_wake_collision_refuted.

(* ... the weaker statement that does hold for every schedule *)
Theorem C11_wake_collision_awake_set : ltac:(let t := type of C29_wake_collision_awake_set_sched in exact t).
Proof. exact C29_wake_collision_awake_set_sched. Qed.
Print Assumptions C11_wake_collision_awake_set.

Theorem C11_other_worlds_irrelevant : ltac:(let t := type of C09_schedule_other_worlds_irrelevant in exact t).
Proof. exact C09_schedule_other_worlds_irrelevant. Qed.
Print Assumptions C11_other_worlds_irrelevant.
