(* Props/C02.v -- C02 "Smooth dynamics agree with MuJoCo C".
   Statements only; every proof is `exact <lemma of Proof/Dyn.v>`.
   inert_vec / motion_cross / motion_cross_force are the definitions REGENERATED from
   /repo/mujoco_warp/_src/math.py (Gen/math.v), _poly_force from util_misc.py
   (Gen/passive_util.v); the accumulation / _qfrc_smooth models are Model/Dyn.v, tied to
   the real kernels by the correspondence run of bin/props/C02.py.
   What is NOT proved here (oracle against MuJoCo C only): cinert/cdof/cvel, the RNE forward
   pass, spring/gravcomp/fluid/tendon/flex passive forces, factorisation and solve,
   float32 rounding. *)
From Coq Require Import ZArith Reals List Bool Permutation.
From VF Require Import Base.Scalar Base.ScalarR Base.Vec Gen.math Gen.passive_util Model.Dyn Proof.Dyn.
Import ListNotations.

(* --- 1. leaf-to-root accumulation (_subtree_com_acc, _crb_accumulate, _cfrc_backward) ---- *)

(* Launched level by level (deepest level first, m.body_tree as built by put_model), with
   EVERY execution order of the tasks inside each level, the value left at each body is the
   recursive subtree sum  sub(b) = init(b) + sum_{children c} sub(c).  V with its addition is
   any commutative semigroup (floats are not: the theorem is about exact arithmetic).
   g = SkipBody0: `if bodyid != 0` (com, cfrc); g = SkipParent0: `if pid == 0: return` (crb:
   the world body keeps its own value). *)
Theorem C02_tree_accumulate_sched :
  forall (V : Type) (vplus : V -> V -> V) (vdef : V),
    (forall a b c, vplus (vplus a b) c = vplus a (vplus b c)) ->
    (forall a b, vplus a b = vplus b a) ->
  forall (g : acc_guard) (parent : list Z), wf_forest parent ->
  forall (init : list V), length init = length parent ->
  forall scheds : list (list Z),
    Forall2 (@Permutation Z) scheds (rev (body_tree parent)) ->
  forall b, (0 <= b < Z.of_nat (length parent))%Z ->
    aget vdef (tree_accumulate_sched vplus vdef g parent scheds init) b
    = subtree_sum vplus vdef g parent init b.
Proof. exact @tree_accumulate_sched_correct. Qed.
Print Assumptions C02_tree_accumulate_sched.

(* more generally: any single sequence of tasks that visits every body once and every
   body after all of its contributing children *)
Theorem C02_tree_accumulate_topo :
  forall (V : Type) (vplus : V -> V -> V) (vdef : V),
    (forall a b c, vplus (vplus a b) c = vplus a (vplus b c)) ->
    (forall a b, vplus a b = vplus b a) ->
  forall (g : acc_guard) (parent : list Z), wf_forest parent ->
  forall (init : list V), length init = length parent ->
  forall T : list Z,
    Permutation T (zseq (length parent)) -> topo_ok g parent T ->
  forall b, (0 <= b < Z.of_nat (length parent))%Z ->
    aget vdef (fold_left (acc_task vplus vdef g parent) T init) b
    = subtree_sum vplus vdef g parent init b.
Proof. exact @tree_accumulate_topo. Qed.
Print Assumptions C02_tree_accumulate_topo.

(* MJWarp's level-parallel schedule gives what MuJoCo C's sequential backward loop
   `for i = nbody-1 .. 1: x[parent[i]] += x[i]` gives, at every body *)
Theorem C02_levels_eq_mujoco_serial :
  forall (V : Type) (vplus : V -> V -> V) (vdef : V),
    (forall a b c, vplus (vplus a b) c = vplus a (vplus b c)) ->
    (forall a b, vplus a b = vplus b a) ->
  forall (g : acc_guard) (parent : list Z), wf_forest parent ->
  forall (init : list V), length init = length parent ->
  forall scheds : list (list Z),
    Forall2 (@Permutation Z) scheds (rev (body_tree parent)) ->
  forall b, (0 <= b < Z.of_nat (length parent))%Z ->
    aget vdef (tree_accumulate_sched vplus vdef g parent scheds init) b
    = aget vdef (serial_accumulate vplus vdef g parent init) b.
Proof. exact @tree_accumulate_eq_serial. Qed.
Print Assumptions C02_levels_eq_mujoco_serial.

(* the recursive sum is the sum over the list of bodies of the subtree (preorder) *)
Theorem C02_subtree_sum_flat :
  forall (V : Type) (vplus : V -> V -> V) (vdef : V),
    (forall a b c, vplus (vplus a b) c = vplus a (vplus b c)) ->
  forall (g : acc_guard) (parent : list Z) (init : list V) (b : Z),
    subtree_sum vplus vdef g parent init b
    = fold_left vplus (map (aget vdef init) (tl (subtree_nodes g parent b))) (aget vdef init b).
Proof. exact @subtree_sum_flat. Qed.
Print Assumptions C02_subtree_sum_flat.

(* hypotheses are satisfiable: a concrete forest and a schedule that is not the CPU order *)
Example C02_wf_forest_exists : wf_forest ex_parent.
Proof. exact ex_wf. Qed.
Example C02_schedule_exists : Forall2 (@Permutation Z) ex_scheds (rev (body_tree ex_parent)).
Proof. exact ex_scheds_ok. Qed.

Local Open Scope R_scope.

(* --- 2. spatial algebra of math.py over R -------------------------------------------------- *)

(* the 10-vector inertia acts symmetrically, for EVERY 10-vector (no physical validity
   needed): M assembled from cdof_j . crb . cdof_i is symmetric *)
Theorem C02_inert_sym :
  forall I v w : list R, length I = 10%nat -> length v = 6%nat -> length w = 6%nat ->
    vdot v (inert_vec I w) = vdot w (inert_vec I v).
Proof. exact inert_sym. Qed.
Print Assumptions C02_inert_sym.

Theorem C02_motion_cross_antisym :
  forall u v : list R, length u = 6%nat -> length v = 6%nat ->
    motion_cross u v = vneg (motion_cross v u).
Proof. exact motion_cross_antisym. Qed.
Print Assumptions C02_motion_cross_antisym.

(* the identity RNE relies on: the force cross product is minus the transpose of the
   motion cross product *)
Theorem C02_motion_cross_force_dual :
  forall v f u : list R, length v = 6%nat -> length f = 6%nat -> length u = 6%nat ->
    vdot (motion_cross_force v f) u = - vdot f (motion_cross v u).
Proof. exact motion_cross_force_dual. Qed.
Print Assumptions C02_motion_cross_force_dual.

(* the velocity-product term of _cfrc, cvel x* (cinert cvel), does no work *)
Theorem C02_gyroscopic_no_work :
  forall I v : list R, length I = 10%nat -> length v = 6%nat ->
    vdot (motion_cross_force v (inert_vec I v)) v = 0.
Proof. exact gyroscopic_no_work. Qed.
Print Assumptions C02_gyroscopic_no_work.

(* --- 3. M from the accumulated composite inertia ------------------------------------------- *)

(* After crb's accumulation (any in-level order), the quantity the _M kernel adds to
   M[i, j] (b = dof_bodyid[i], u = cdof_i, v = cdof_j) is the sum over the bodies k of the
   subtree of b of v . cinert[k] u, i.e. the (i, j) entry of  sum_k J_k^T I_k J_k  restricted
   to the bodies that both dofs move.
   _partial: the identification of "bodies below dof i" with the Jacobian columns, the
   ancestor walk / CSR addressing of _M, dof_armature and tendon armature are not modelled
   (they are compared with mj_fullM by the oracle). *)
Theorem C02_crb_is_JtIJ_partial :
  forall (parent : list Z) (cinert : list (list R)) (scheds : list (list Z)) (b : Z) (u v : list R),
    wf_forest parent -> length cinert = length parent ->
    (forall I, In I cinert -> length I = 10%nat) ->
    Forall2 (@Permutation Z) scheds (rev (body_tree parent)) ->
    (0 <= b < Z.of_nat (length parent))%Z -> length u = 6%nat -> length v = 6%nat ->
    M_entry (aget [] (tree_accumulate_sched ladd [] SkipParent0 parent scheds cinert) b) u v
    = Rsum (map (fun k => M_entry (aget [] cinert k) u v) (subtree_nodes SkipParent0 parent b)).
Proof. exact crb_M_entry_subtree. Qed.
Print Assumptions C02_crb_is_JtIJ_partial.

(* --- 4. _qfrc_smooth ----------------------------------------------------------------------- *)

Theorem C02_qfrc_smooth_def :
  forall (enable_sleep : bool) (body_treeid dof_bodyid tree_awake : list Z)
         (applied bias passive actuator : list R) (dofid : Z),
    enable_sleep && tree_sleeping body_treeid dof_bodyid tree_awake dofid = false ->
    qfrc_smooth_task enable_sleep body_treeid dof_bodyid tree_awake applied bias passive actuator dofid
    = aget 0 passive dofid - aget 0 bias dofid + aget 0 actuator dofid + aget 0 applied dofid.
Proof. exact qfrc_smooth_awake. Qed.
Print Assumptions C02_qfrc_smooth_def.

Theorem C02_qfrc_smooth_sleeping_zero :
  forall (body_treeid dof_bodyid tree_awake : list Z)
         (applied bias passive actuator : list R) (dofid : Z),
    (0 <= aget 0%Z body_treeid (aget 0%Z dof_bodyid dofid))%Z ->
    aget 0%Z tree_awake (aget 0%Z body_treeid (aget 0%Z dof_bodyid dofid)) = 0%Z ->
    qfrc_smooth_task true body_treeid dof_bodyid tree_awake applied bias passive actuator dofid = 0.
Proof. exact qfrc_smooth_sleeping. Qed.
Print Assumptions C02_qfrc_smooth_sleeping_zero.

(* --- 5. polynomial damping (util_misc._poly_force with flg_odd = 1) is dissipative --------- *)
Theorem C02_poly_damper_dissipative :
  forall l p0 p1 v : R, 0 <= l -> 0 <= p0 -> 0 <= p1 ->
    v * (- v * _poly_force l [p0; p1] v 1) <= 0.
Proof. exact poly_damper_dissipative. Qed.
Print Assumptions C02_poly_damper_dissipative.
