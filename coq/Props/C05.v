(* Props/C05.v -- C05 "Constraint assembly agrees with MuJoCo C".
   Statements only; every proof is `exact <lemma of Proof/Assembly.v>`.

   Model (Model/Assembly.v on top of Model/Alloc.v, shared with C16): make_constraint =
   `_zero_constraint_counts` + four groups of row-builder launches (equality, friction loss, limit,
   contact; a launch completes before the next one starts) allocating rows with atomic counters;
   [run_stages cap capz sparse g adr0 rnz0] runs them for capacities njmax = cap, njmax_nnz = capz.
   A schedule = any permutation of the tasks inside each group ([stage_schedule]).  The builders'
   guards, typed counters and the launch order are REGENERATED from /repo on every run
   (Gen/Skel_alloc.v, Gen/Skel_pipeline.v, Gen/Skel_constraint.v); `_efc_row` is machine-translated
   (Gen/constraint_funcs.v, through the purification described in bin/gens_constraint.py).

   What is NOT proved here (tested only, bin/props/C05.py): the Jacobian / position arithmetic of
   each builder and float32 rounding -- the agreement of the assembled rows with MuJoCo C is the
   differential oracle of the check; the theorems cover the row layout, the counters, the contact
   address bookkeeping and the impedance / reference arithmetic of `_efc_row` over the reals. *)
From Coq Require Import ZArith Reals List Bool String Permutation.
From VF Require Import Base.Scalar Base.ScalarR Model.Alloc Proof.Alloc Model.Assembly Proof.Assembly
  Gen.Skel_alloc Gen.constraint_funcs.
Import ListNotations.
Local Open Scope Z_scope.

(* ---- the regenerated host program --------------------------------------------------------- *)
(* make_constraint (Gen/Skel_pipeline.v): no loop / nested call launches; the first launch zeroes
   ne, nf, nl, nefc, efc_nnz; the classes of the allocating launches are non-decreasing in program
   order (equality builders, then friction, then limit, then contact); a launch has d.nefc / d.ne /
   d.nf / d.nl among its outputs iff it is an extracted row builder, and then exactly the typed
   counter of its class; every extracted row builder is launched exactly once; only the contact
   init kernels have contact.efc_address as output; the ConstraintType constants each builder
   passes to _efc_row (Gen/Skel_constraint.v) belong to its class *)
Theorem C05_launch_order : launch_order_ok = true.
Proof. exact launch_order_ok_true. Qed.
Print Assumptions C05_launch_order.

(* ---- rows_sorted_by_kind ------------------------------------------------------------------- *)
(* for EVERY schedule inside each group, every capacity (overflow included), dense or sparse: the
   type class of every written row equals the class the solver assigns to its position
   ([0,ne) equality, [ne,ne+nf) friction, [ne+nf,ne+nf+nl) limit, then contact), row indices are
   within [0, nefc) and no index is written twice *)
Theorem C05_rows_sorted_by_kind :
  forall cap capz sparse (g g' : stages) adr0 rnz0,
    stages_ok g -> stages_typed g -> stage_schedule g g' ->
    let s := run_stages cap capz sparse g' adr0 rnz0 in
    Forall (row_sorted s) (s_rows s) /\
    Forall (fun w => 0 <= w_efcid w < s_n s) (s_rows s) /\
    NoDup (map w_efcid (s_rows s)).
Proof. exact rows_sorted_by_kind. Qed.
Print Assumptions C05_rows_sorted_by_kind.

(* the typing hypothesis [stages_typed] is what the source does: a row type taken from the
   constants the builder passes to _efc_row has the class of the builder's typed counter *)
Theorem C05_typed_by_skeleton :
  forall b q, In b row_builders -> class_of b <> 3 -> In (q_type q) (types_of (b_name b)) ->
    kind_of_type (q_type q) = class_of b.
Proof. exact typed_by_skeleton. Qed.
Print Assumptions C05_typed_by_skeleton.

(* ---- counts ------------------------------------------------------------------------------------ *)
(* no overflow bit: ne / nf / nl / nefc are the numbers of rows requested per class, rows
   0..nefc-1 are all populated, in order, and row i has the class of position i *)
Theorem C05_counts_and_layout_exact :
  forall cap capz sparse (g g' : stages) adr0 rnz0,
    stages_ok g -> stages_typed g -> stage_schedule g g' ->
    wf_tasks sparse (stage_tasks g') -> 0 <= cap -> 0 <= capz -> meta_ok cap sparse adr0 rnz0 ->
    let s := run_stages cap capz sparse g' adr0 rnz0 in
    overflowed cap capz sparse s = false ->
    s_ne s = total_rows (st_e g) /\ s_nf s = total_rows (st_f g) /\ s_nl s = total_rows (st_l g) /\
    s_n s = total_rows (st_e g) + total_rows (st_f g) + total_rows (st_l g) + total_rows (st_c g) /\
    map w_efcid (s_rows s) = zrange (s_n s) /\
    map (fun w => kind_of_type (w_type w)) (s_rows s) = map (pos_class (s_ne s) (s_nf s) (s_nl s)) (zrange (s_n s)).
Proof. exact counts_and_layout_exact. Qed.
Print Assumptions C05_counts_and_layout_exact.

(* one request per task (every builder except the looping _equality_flexstrain): the counters are
   the requested sums for EVERY capacity and schedule (they are bumped before the guards) *)
Theorem C05_counts_any_capacity :
  forall cap capz sparse (g g' : stages) adr0 rnz0,
    stages_ok g -> stages_typed g -> stage_schedule g g' -> Forall single_req (stage_tasks g) ->
    let s := run_stages cap capz sparse g' adr0 rnz0 in
    s_ne s = total_rows (st_e g) /\ s_nf s = total_rows (st_f g) /\ s_nl s = total_rows (st_l g) /\
    s_n s = total_rows (st_e g) + total_rows (st_f g) + total_rows (st_l g) + total_rows (st_c g).
Proof. exact counts_any_capacity. Qed.
Print Assumptions C05_counts_any_capacity.

(* ---- efc_address_valid ---------------------------------------------------------------------- *)
(* every store into contact.efc_address ([tasks_addr], copied from _efc_contact_init) is -1 or a
   row index; a non-negative address is < njmax, lies in the block [base, base+ndim) that the
   contact's atomic_add reserved, at offset dim, and the row at that index has efc_id = the contact;
   for every schedule and capacity, whether or not the non-zero guard fired *)
Theorem C05_efc_address_valid :
  forall cap capz sparse ts adr0 rnz0,
    Forall (fun t => In (t_b t) row_builders /\ nonneg_task t) ts ->
    let s := run_tasks cap capz sparse ts (init_st adr0 rnz0) in
    let A := tasks_addr cap capz sparse ts (init_st adr0 rnz0) in
    Forall (fun x =>
      (a_val x = -1 \/ 0 <= a_val x) /\
      (0 <= a_val x ->
         a_val x < cap /\ a_base x <= a_val x < a_base x + a_ndim x /\ a_val x = a_base x + a_dim x /\
         exists w, row_at s (a_val x) = Some w /\ w_id w = a_con x)) A.
Proof. exact efc_address_valid_current_tree. Qed.
Print Assumptions C05_efc_address_valid.

(* blocks of different contacts never overlap *)
Theorem C05_efc_address_blocks_disjoint :
  forall cap capz sparse ts adr0 rnz0,
    Forall nonneg_task ts ->
    let A := tasks_addr cap capz sparse ts (init_st adr0 rnz0) in
    forall x y, In x A -> In y A -> blocks_apart x y.
Proof. exact efc_address_blocks_disjoint. Qed.
Print Assumptions C05_efc_address_blocks_disjoint.

(* the hypotheses are satisfiable on the regenerated skeleton; with njmax one short of the need the
   layout still holds and the lost contact rows get address -1 *)
Example C05_hypotheses_satisfiable :
  stages_ok ex_stages /\ stages_typed ex_stages /\ Forall single_req (stage_tasks ex_stages)
  /\ Forall safe_task (stage_tasks ex_stages).
Proof. exact ex_stages_ok. Qed.

(* ---- efc_row_kbi ------------------------------------------------------------------------------- *)
(* the translated `_efc_row` (current code, commit 56e7974 included) over the reals.  For solimp entries
   dmin, dmax, mid inside [mjMINIMP, mjMAXIMP] (in EITHER order of dmin and dmax), power >= 1, ANY width
   and ANY solref, with x = |pos_imp| / width:
     impedance  d = (dmin + dmax)/2                                     width <= mjMINVAL  (flat function)
                d = dmin + y(x) (dmax - dmin),  y(x) = x^p / mid^(p-1)  (x < mid),
                                                 1 - (1-x)^p / (1-mid)^(p-1)  (x >= mid),    0 < x < 1
                d = dmax                                                                       x > 1
     D = 1 / max(invweight (1 - d) / d, mjMINVAL),   aref = - b vel - k d pos_aref,
     standard solref (both positive):   k = 1/(dmax^2 tc'^2 dampratio^2), b = 2/(dmax tc'),
        tc' = max(timeconst, 2 timestep) unless the REFSAFE disable bit is set
     direct solref (both non-positive): k = -solref0 / dmax^2, b = -solref1 / dmax
     mixed solref (one positive, one not): the standard formulas of the DEFAULT (0.02, 1), as MuJoCo C
   and pos = pos_aref + margin; margin, vel, frictionloss, type, id are stored unchanged; d lies between
   dmin and dmax.  The points x = 0 and x = 1 are excluded: Coq's Rpower 0 p is 1, not 0 (the float
   model and the T-validation cover them). *)
Theorem C05_efc_row_kbi :
  forall flags worldid h efcid pos_aref pos_imp iw s0 s1 dmin dmax width mid p margin vel fl type id,
    (MINIMP <= dmin <= MAXIMP -> MINIMP <= dmax <= MAXIMP -> MINIMP <= mid <= MAXIMP -> 1 <= p ->
    forall imp k b,
      (width <= MINVAL /\ imp = (dmin + dmax) / 2 \/
       MINVAL < width /\ 0 < Rabs pos_imp / width < 1 /\ imp = imp_doc dmin dmax width mid p pos_imp \/
       MINVAL < width /\ 1 < Rabs pos_imp / width /\ imp = dmax) ->
      (0 < s0 /\ 0 < s1 /\ k = k_standard dmax (tc_eff flags s0 h) s1 /\ b = b_standard dmax (tc_eff flags s0 h) \/
       s0 <= 0 /\ s1 <= 0 /\ k = k_direct dmax s0 /\ b = b_direct dmax s1 \/
       mixed_solref s0 s1 /\ k = k_standard dmax (tc_eff flags (1 / 50) h) 1 /\ b = b_standard dmax (tc_eff flags (1 / 50) h)) ->
      @_efc_row_pure R ScalarR flags worldid h efcid pos_aref pos_imp iw [s0; s1] [dmin; dmax; width; mid; p] margin vel fl type id
      = row_doc k b imp iw pos_aref margin vel fl type id /\ Rmin dmin dmax <= imp <= Rmax dmin dmax)%R.
Proof. exact efc_row_kbi. Qed.
Print Assumptions C05_efc_row_kbi.

(* the exact function computed for ANY solref / width (solimp entries inside their clamps) *)
Theorem C05_efc_row_shape :
  forall flags worldid h efcid pos_aref pos_imp iw s0 s1 dmin dmax width mid p margin vel fl type id,
    (MINIMP <= dmin <= MAXIMP -> MINIMP <= dmax <= MAXIMP -> MINIMP <= mid <= MAXIMP -> 1 <= p ->
    @_efc_row_pure R ScalarR flags worldid h efcid pos_aref pos_imp iw [s0; s1] [dmin; dmax; width; mid; p] margin vel fl type id
    = row_doc (k_code flags h s0 s1 dmax) (b_code flags h s0 s1 dmax) (imp_code dmin dmax width mid p pos_imp)
              iw pos_aref margin vel fl type id)%R.
Proof. exact efc_row_shape. Qed.
Print Assumptions C05_efc_row_shape.

Example C05_efc_row_kbi_hyps_satisfiable :
  (MINIMP <= 95 / 100 <= MAXIMP /\ MINIMP <= 1 / 2 <= MAXIMP /\ 1 <= 2 /\ MINVAL < 1 / 1000 /\
   0 < Rabs (1 / 2000) / (1 / 1000) < 1 /\ mixed_solref (2 / 100) (-1) /\ 0 <= MINVAL)%R.
Proof. exact efc_row_kbi_hyps_satisfiable. Qed.

(* ---- documentation: the three deviations from MuJoCo C of `_efc_row` BEFORE commit 56e7974 --------- *)
(* stated about the OLD piecewise definitions ([k_code_old], [b_code_old], [imp_code_old] of
   Model/Assembly.v, no longer tied to the source), each together with what the current definitions
   (tied to the source by C05_efc_row_shape) give on the same input.  The former witnesses are
   regression cases of bin/props/C05.py, reported under their original keys if they fail again. *)
Theorem C05_pre_fix_mixed_solref_not_default :
  exists flags h s0 s1 dmax, (mixed_solref s0 s1 /\ MINIMP <= dmax <= MAXIMP /\
    b_code_old flags h s0 s1 dmax <> b_code_old flags h (2 / 100) 1 dmax /\
    b_code flags h s0 s1 dmax = b_code flags h (2 / 100) 1 dmax)%R.
Proof. exact pre_fix_mixed_solref_not_default. Qed.
Print Assumptions C05_pre_fix_mixed_solref_not_default.

Theorem C05_pre_fix_zero_width_not_mean :
  exists dmin dmax mid p r, (MINIMP <= dmin /\ dmin < dmax /\ dmax <= MAXIMP /\
    imp_code_old dmin dmax (Rmax MINVAL 0) mid p r = dmax /\ dmax <> (dmin + dmax) / 2 /\
    imp_code dmin dmax 0 mid p r = (dmin + dmax) / 2)%R.
Proof. exact pre_fix_zero_width_not_mean. Qed.
Print Assumptions C05_pre_fix_zero_width_not_mean.

Theorem C05_pre_fix_dmin_above_dmax_clamped :
  forall dmin dmax width mid p r,
    (dmax < dmin -> MINVAL < width -> MINIMP <= mid <= MAXIMP -> 1 <= p -> 0 < Rabs r / width < 1 ->
    imp_code_old dmin dmax width mid p r = dmax /\ dmax < imp_doc dmin dmax width mid p r /\
    imp_code dmin dmax width mid p r = imp_doc dmin dmax width mid p r)%R.
Proof. exact pre_fix_dmin_above_dmax_clamped. Qed.
Print Assumptions C05_pre_fix_dmin_above_dmax_clamped.
