(* Props/C12.v -- C12 "Next step depends only on the integration state".
   Statements only; every proof is `exact <lemma of Proof/Pipeline.v>`.
   `program` is REGENERATED from /repo's host Python on every run (Gen/Skel_pipeline.v).
   What is proved: soundness of the def-before-use analysis `live_in` over the abstract
   semantics, and that on today's tree the Data fields step() reads before fully writing
   them are the integration state plus the committed baseline `assumed_region_defined`
   (Model/PipelineFacts.v).  The analysis is at FIELD granularity: that the baseline arrays
   carry nothing from one step to the next (counter-delimited regions, per-element
   recomputation) is NOT proved; it is validated on the real code by bin/props/C12.py
   (garbage / NaN poisoning of every non-state array).  Hence the `_partial` names. *)
From Coq Require Import String List Bool.
From VF Require Import Model.Pipeline Gen.Skel_pipeline Model.PipelineFacts Proof.Pipeline.
Import ListNotations.
Local Open Scope string_scope.
Local Open Scope list_scope.

(* two stores that agree on the fields read before being fully defined end up agreeing
   on every field on which they agreed initially (all live-in fields in particular,
   whatever is written to them) and on every field some event fully defines *)
Theorem C12_live_in_sound :
  forall (V : Type) (I : event -> store V -> store V) (v : string -> bool), respects V I ->
  forall full, full_ok V I v full ->
  forall evs s s',
    (forall f, In f (live_in full evs nil) -> s f = s' f) ->
    forall f, s f = s' f \/ In f (flat_map full evs) ->
      run V I v evs s f = run V I v evs s' f.
Proof. exact live_in_sound. Qed.
Print Assumptions C12_live_in_sound.

(* Zero/Fill/Copy destinations are full definitions: by `respects` alone for Zero and
   Fill, by `copy_ok` (a copy's destination does not depend on its old contents) for Copy *)
Theorem C12_full_nsc_ok :
  forall (V : Type) (I : event -> store V -> store V) (v : string -> bool), respects V I ->
  copy_ok V I -> full_ok V I v full_nsc.
Proof. exact full_nsc_ok. Qed.
Print Assumptions C12_full_nsc_ok.

(* the flattened step() is complete, sleep disabled / no callbacks leaves no undecided
   condition about them, and no external callee receives the whole Data struct *)
Theorem C12_step_wellformed :
  step_wellformed pv_euler && step_wellformed pv_implicit && step_wellformed pv_rk4 = true.
Proof. exact step_wellformed_all. Qed.
Print Assumptions C12_step_wellformed.

(* on today's tree: every Data field step() reads before fully writing it is an
   integration-state field or is in the committed baseline (Euler, implicit, RK4) *)
Theorem C12_step_live_in_partial :
  unexplained_of (step_events pv_euler) = nil /\
  unexplained_of (step_events pv_implicit) = nil /\
  unexplained_of (step_events pv_rk4) = nil.
Proof. exact (conj unexplained_nil_euler (conj unexplained_nil_implicit unexplained_nil_rk4)). Qed.
Print Assumptions C12_step_live_in_partial.

(* every Data field written by step() is live-in or fully defined, so the conclusion of
   C12_live_in_sound covers all of them *)
Theorem C12_written_fields_covered_partial :
  (uncovered_writes pv_euler, uncovered_writes pv_implicit, uncovered_writes pv_rk4) = (nil, nil, nil).
Proof. exact uncovered_nil_all. Qed.
Print Assumptions C12_written_fields_covered_partial.

(* semantic reading: the next integration state is a function of the current integration
   state, the baseline fields and the names outside Data (Model fields, literals, locals) *)
Theorem C12_next_state_function_of_state_partial :
  forall pv, In pv [pv_euler; pv_implicit; pv_rk4] ->
  forall (V : Type) (I : event -> store V -> store V) (v : string -> bool),
    respects V I -> copy_ok V I ->
    forall s s',
      (forall f, In f state_fields -> s f = s' f) ->
      (forall f, In f assumed_region_defined -> s f = s' f) ->
      (forall f, String.prefix "d." f = false -> s f = s' f) ->
      forall f, In f state_fields ->
        run V I v (step_events pv) s f = run V I v (step_events pv) s' f.
Proof. exact next_state_function_of_state_partial. Qed.
Print Assumptions C12_next_state_function_of_state_partial.

(* same for every field the stores agreed on initially or that the step fully defines *)
Theorem C12_step_depends_on_partial :
  forall pv, unexplained_of (step_events pv) = nil ->
  forall (V : Type) (I : event -> store V -> store V) (v : string -> bool),
    respects V I -> copy_ok V I ->
    forall s s',
      (forall f, In f state_fields -> s f = s' f) ->
      (forall f, In f assumed_region_defined -> s f = s' f) ->
      (forall f, String.prefix "d." f = false -> s f = s' f) ->
      forall f, s f = s' f \/ In f (flat_map full_nsc (step_events pv)) ->
        run V I v (step_events pv) s f = run V I v (step_events pv) s' f.
Proof. exact step_depends_on. Qed.
Print Assumptions C12_step_depends_on_partial.
