(* Props/C10.v -- C10 "Per-world model parameters take effect only in their world".
   A batched Model field p is read at leading index  world_id mod p.shape[0]  (its OWN size)
   and never written by the simulation pipeline: a fact of the regenerated access table.
   Together with C09's non-interference theorem (batched fields are non-world arrays that
   [agree_for] keeps equal, read only at that index) this gives: world w of a batched model
   sees exactly row (w mod n) of every batched field. *)
From Coq Require Import String List Bool Arith.
From VF Require Import Model.Batch Model.BatchBaseline Proof.Batch Gen.Skel_access.
Import ListNotations.

Definition batch_accesses : list access :=
  filter (fun a => match a_role a with RBatch => true | _ => false end) accesses.

Theorem C10_batched_fields_indexed_by_own_modulo :
  forallb (fun a => access_ok a || in_baseline baseline a) batch_accesses = true.
Proof. vm_compute. reflexivity. Qed.
Print Assumptions C10_batched_fields_indexed_by_own_modulo.

(* what access_ok means for a batched field, spelled out *)
Theorem C10_access_ok_batch_spec :
  forall a, a_role a = RBatch -> access_ok a = true ->
    a_idx a = IMod (a_param a) true /\ a_kind a = ARead.
Proof.
  intros a Hr Hok. unfold access_ok in Hok. rewrite Hr in Hok.
  destruct (a_idx a) as [|p w| | | | |]; try discriminate.
  destruct w; try discriminate. destruct (a_kind a); try discriminate.
  apply String.eqb_eq in Hok. subst. auto.
Qed.
Print Assumptions C10_access_ok_batch_spec.

Theorem C10_mod_index_range : forall w n, 0 < n -> Nat.modulo w n < n.
Proof. exact mod_index_range. Qed.
Print Assumptions C10_mod_index_range.
Theorem C10_mod_index_unbatched : forall w, Nat.modulo w 1 = 0.
Proof. exact mod_index_unbatched. Qed.
Print Assumptions C10_mod_index_unbatched.
Theorem C10_mod_index_full : forall w n, w < n -> Nat.modulo w n = w.
Proof. exact mod_index_full. Qed.
Print Assumptions C10_mod_index_full.

Example C10_nonvacuous : exists a, In a batch_accesses /\ access_ok a = true.
Proof.
  assert (H : existsb access_ok batch_accesses = true) by (vm_compute; reflexivity).
  apply existsb_exists in H. destruct H as (a & Hin & Hok). exists a. auto.
Qed.
