(* Props/C25.v -- C25 "Solver termination is correctly reported and transparent".
   Statements only; every proof is `exact <lemma of Proof/Term.v>`.  The model (Model/Term.v)
   transcribes _solve_init_efc, _solve_done / _solve_cg_finalize and the two loop forms of
   solver._solve; the per-world, per-round boolean "tolerance test met" is an ARBITRARY oracle
   tol : round -> world -> bool.  [solve cg gc L fuel tol ws0]: cg = CG kernel, gc =
   m.opt.graph_conditional, L = m.opt.iterations, fuel bounds the capture_while loop,
   ws0 = (solver_niter, ctx.done, d.overflow) of every world on entry. *)
From Coq Require Import ZArith List Bool.
From VF Require Import Model.Term Proof.Term.
Import ListNotations.
Local Open Scope Z_scope.

(* the iteration count never exceeds the limit (limit 0 included; any fuel) *)
Theorem C25_niter_le_limit :
  forall cg gc L fuel tol ws0, 0 <= L -> forall j d, (j < length ws0)%nat ->
    0 <= niter (nth j (worlds (solve cg gc L fuel tol ws0)) d) <= L.
Proof. exact niter_le_limit. Qed.
Print Assumptions C25_niter_le_limit.

(* for a solve entered with the ITERATIONS bit clear and iterations >= 1: the bit is set exactly
   when the world never met the tolerance test within the limit ... *)
Theorem C25_iter_bit_iff :
  forall cg gc L fuel tol ws0, (Z.to_nat L <= fuel)%nat -> 1 <= L -> forall j d, (j < length ws0)%nat ->
    Z.testbit (ovf (nth j ws0 d)) ITER_BIT = false ->
    (Z.testbit (ovf (nth j (worlds (solve cg gc L fuel tol ws0)) d)) ITER_BIT = true
     <-> (forall r, Z.of_nat r < L -> tol r j = false)).
Proof. exact iter_bit_iff. Qed.
Print Assumptions C25_iter_bit_iff.

(* ... equivalently: it stopped because of the limit and its last test failed *)
Theorem C25_iter_bit_iff_stop :
  forall cg gc L fuel tol ws0, (Z.to_nat L <= fuel)%nat -> 1 <= L -> forall j d, (j < length ws0)%nat ->
    Z.testbit (ovf (nth j ws0 d)) ITER_BIT = false ->
    (Z.testbit (ovf (nth j (worlds (solve cg gc L fuel tol ws0)) d)) ITER_BIT = true
     <-> (niter (nth j (worlds (solve cg gc L fuel tol ws0)) d) = L /\ tol (Z.to_nat (L - 1)) j = false)).
Proof. exact iter_bit_iff_stop. Qed.
Print Assumptions C25_iter_bit_iff_stop.

(* every other bit of the sticky overflow word is left alone *)
Theorem C25_other_bits_kept :
  forall cg gc L fuel tol ws0, (Z.to_nat L <= fuel)%nat -> 1 <= L -> forall j d i, (j < length ws0)%nat ->
    i <> ITER_BIT ->
    Z.testbit (ovf (nth j (worlds (solve cg gc L fuel tol ws0)) d)) i = Z.testbit (ovf (nth j ws0 d)) i.
Proof. exact other_bits_kept. Qed.
Print Assumptions C25_other_bits_kept.

(* loop invariant: nsolving = number of worlds whose done flag is clear *)
Theorem C25_nsolving_counts_not_done :
  forall cg gc L fuel tol ws0,
    nsolving (solve cg gc L fuel tol ws0) = count_nd (worlds (solve cg gc L fuel tol ws0)).
Proof. exact nsolving_counts_not_done. Qed.
Print Assumptions C25_nsolving_counts_not_done.

(* both loop forms end with nsolving = 0; capture_while stops after at most L rounds (fuel L suffices) *)
Theorem C25_loop_terminates :
  forall cg gc L fuel tol ws0, (Z.to_nat L <= fuel)%nat -> 1 <= L ->
    nsolving (solve cg gc L fuel tol ws0) = 0 /\
    (rounds (solve cg gc L fuel tol ws0) <= Z.to_nat L)%nat /\
    (gc = false -> rounds (solve cg gc L fuel tol ws0) = Z.to_nat L).
Proof. exact loop_terminates. Qed.
Print Assumptions C25_loop_terminates.

Theorem C25_all_done :
  forall cg gc L fuel tol ws0, (Z.to_nat L <= fuel)%nat -> 1 <= L -> forall j d, (j < length ws0)%nat ->
    done (nth j (worlds (solve cg gc L fuel tol ws0)) d) = true.
Proof. exact all_done. Qed.
Print Assumptions C25_all_done.

(* a done world's (niter, done, overflow) never change again, whatever the other worlds do:
   the kernel is the identity on it (and adds 0 to nsolving), under the fixed loop and under capture_while *)
Theorem C25_done_task_identity :
  forall cg L b s, done s = true -> task_of cg L b s = (s, 0).
Proof. exact done_task_identity. Qed.
Print Assumptions C25_done_task_identity.

Theorem C25_done_is_absorbing_for :
  forall cg L tol n k st j d, (j < length (fst st))%nat -> done (nth j (fst st) d) = true ->
    nth j (worlds (for_loop cg L tol n k st)) d = nth j (fst st) d.
Proof. exact done_is_absorbing_for. Qed.
Print Assumptions C25_done_is_absorbing_for.

Theorem C25_done_is_absorbing_while :
  forall cg L tol fuel k st j d, (j < length (fst st))%nat -> done (nth j (fst st) d) = true ->
    nth j (worlds (while_loop cg L tol fuel k st)) d = nth j (fst st) d.
Proof. exact done_is_absorbing_while. Qed.
Print Assumptions C25_done_is_absorbing_while.

(* the same for the protected solver state X of the world (qacc, Ma, efc force, qfrc_constraint,
   grad, ...), GIVEN the source-level fact checked by bin/props/C25.py that every kernel of
   _solver_iteration stores into it only under `not ctx.done[worldid]` (= is [guarded k]):
   any number of further iterations, any kernels, any oracle values leave a done world untouched *)
Theorem C25_done_world_frozen :
  forall (X : Type) cg L (rs : list (list (X -> X) * bool)) (st : X * wstate),
    done (snd st) = true -> full_rounds cg L rs st = st.
Proof. exact (@done_world_frozen). Qed.
Print Assumptions C25_done_world_frozen.

(* batch independence: a world's final state is its own L-round run with its own oracle column ... *)
Theorem C25_solve_world :
  forall cg gc L fuel tol ws0, (Z.to_nat L <= fuel)%nat -> 0 <= L -> forall j d, (j < length ws0)%nat ->
    nth j (worlds (solve cg gc L fuel tol ws0)) d
    = wrun cg L (fun r => tol r j) (Z.to_nat L) 0 (init_world (nth j ws0 d)).
Proof. exact solve_world. Qed.
Print Assumptions C25_solve_world.

(* ... so it is the same in any other batch, at any position, with any neighbours, loop form and fuel *)
Theorem C25_batch_independent :
  forall cg gc gc' L fuel fuel' tol tol' ws0 ws0' j j' d,
    0 <= L -> (Z.to_nat L <= fuel)%nat -> (Z.to_nat L <= fuel')%nat ->
    (j < length ws0)%nat -> (j' < length ws0')%nat ->
    ovf (nth j ws0 d) = ovf (nth j' ws0' d) ->
    (forall r, Z.of_nat r < L -> tol r j = tol' r j') ->
    nth j (worlds (solve cg gc L fuel tol ws0)) d = nth j' (worlds (solve cg gc' L fuel' tol' ws0')) d.
Proof. exact batch_independent. Qed.
Print Assumptions C25_batch_independent.

Theorem C25_graph_conditional_transparent :
  forall cg L fuel tol ws0, 0 <= L -> (Z.to_nat L <= fuel)%nat ->
    worlds (solve cg true L fuel tol ws0) = worlds (solve cg false L fuel tol ws0).
Proof. exact graph_conditional_transparent. Qed.
Print Assumptions C25_graph_conditional_transparent.

(* the CG kernel's termination part is the Newton kernel's *)
Theorem C25_cg_finalize_eq : forall L b s, cg_finalize_task L b s = solve_done_task L b s.
Proof. exact cg_finalize_eq. Qed.
Print Assumptions C25_cg_finalize_eq.

(* iterations = 0 (documented corner): no round, niter = 0, done stays false, nsolving = nworld,
   overflow untouched -- so no ITERATIONS bit although no tolerance test was ever met *)
Theorem C25_iterations_zero :
  forall cg gc fuel tol ws0,
    solve cg gc 0 fuel tol ws0 = (map init_world ws0, Z.of_nat (length (map init_world ws0)), 0%nat).
Proof. exact iterations_zero. Qed.
Print Assumptions C25_iterations_zero.

Theorem C25_iter_bit_iff_at_zero_refuted :
  exists cg gc fuel tol ws0 j d,
    (j < length ws0)%nat /\ Z.testbit (ovf (nth j ws0 d)) ITER_BIT = false /\
    ~ (Z.testbit (ovf (nth j (worlds (solve cg gc 0 fuel tol ws0)) d)) ITER_BIT = true
       <-> (forall r, Z.of_nat r < 0 -> tol r j = false)).
Proof. exact iter_bit_iff_at_zero_refuted. Qed.
Print Assumptions C25_iter_bit_iff_at_zero_refuted.

(* non-vacuity: a mixed batch (converges at round 2 / round 1 / never within L = 3), both loop forms *)
Example C25_mixed_batch :
  let tol := tol_of_table [[false; true; false]; [true; false; false]; [false; false; false]] in
  obs (solve false true 3 10 tol [mkWS 7 true 1; mkWS 0 false 0; mkWS 0 false 4])
  = [2; 0; 1; 1;   1; 0; 1; 0;   3; 1; 1; 516;   0; 3] /\
  obs (solve false false 3 10 tol [mkWS 7 true 1; mkWS 0 false 0; mkWS 0 false 4])
  = [2; 0; 1; 1;   1; 0; 1; 0;   3; 1; 1; 516;   0; 3].
Proof. exact mixed_batch. Qed.
