"""S generator: process-global state skeleton -> Gen/Skel_cache.v (C36)."""

from __future__ import annotations

import os

import vlib

_cache = {}


class CacheSkel:
  def __init__(self, factories, pairs, detail):
    self.factories, self.pairs, self.detail = factories, pairs, detail
    self.errors = {}


def gen_cache():
  if "c" in _cache:
    return _cache["c"]
  import extract_cache as EC

  f, pairs, detail, _ = EC.extract(vlib.REPO)
  vlib.write_if_changed(os.path.join(vlib.COQ, "Gen", "Skel_cache.v"), EC.emit_coq(f, pairs))
  r = CacheSkel(f, pairs, detail)
  _cache["c"] = r
  return r


GENS = {"Skel_cache": gen_cache}
