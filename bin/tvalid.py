"""T-validation: run the compiled Warp function and its translated Gallina term
(binary64 instance, vm_compute) on the same float32 inputs and compare.

Also used as the *search* stage of T-tied properties: a disagreement here means the
translator no longer reflects the function (reported), not a property violation."""

from __future__ import annotations

import importlib
import os
import sys

import numpy as np

import vlib

WRAP_DIR = os.path.join(vlib.BUILD, "wrap")


def _wp_type_expr(t):
  k = t[0]
  if k == "S":
    return "float"
  if k == "Z":
    return "int"
  if k == "B":
    return "wp.bool"
  if k == "Q":
    return "wp.quat"
  if k == "V":
    n = t[1]
    return {2: "wp.vec2", 3: "wp.vec3", 4: "wp.vec4", 6: "wp.spatial_vector"}.get(n, f"wp.types.vector(length={n}, dtype=float)")
  if k == "M":
    if (t[1], t[2]) == (3, 3):
      return "wp.mat33"
    return f"wp.types.matrix(shape=({t[1]},{t[2]}), dtype=float)"
  raise NotImplementedError(str(t))


def _flat_len(t):
  k = t[0]
  if k in ("S", "Z", "B"):
    return 1
  if k == "Q":
    return 4
  if k == "V":
    return t[1]
  if k == "M":
    return t[1] * t[2]
  if k == "T":
    return sum(_flat_len(x) for x in t[1])
  raise NotImplementedError(str(t))


def _np_shape(t, n):
  k = t[0]
  if k == "S":
    return (n,), np.float32
  if k == "Z":
    return (n,), np.int32
  if k == "B":
    return (n,), np.bool_
  if k == "Q":
    return (n, 4), np.float32
  if k == "V":
    return (n, t[1]), np.float32
  if k == "M":
    return (n, t[1], t[2]), np.float32
  raise NotImplementedError(str(t))


def default_gen(rng, t, n):
  k = t[0]
  if k == "S":
    x = rng.standard_normal(n) * 10.0 ** rng.uniform(-2, 1.5, n)
    sel = rng.random(n)
    x = np.where(sel < 0.05, 0.0, x)
    x = np.where((sel >= 0.05) & (sel < 0.1), np.round(x), x)
    return x.astype(np.float32)
  if k == "Z":
    return rng.integers(-2, 9, n).astype(np.int32)
  if k == "B":
    return rng.random(n) < 0.5
  if k in ("V", "Q", "M"):
    shape, _ = _np_shape(t, n)
    x = rng.standard_normal(shape) * (10.0 ** rng.uniform(-1.5, 1.0, n)).reshape((n,) + (1,) * (len(shape) - 1))
    sel = rng.random(n)
    flat = x.reshape(n, -1)
    flat[sel < 0.04] = 0.0
    m = (sel >= 0.04) & (sel < 0.1)
    if m.any():
      idx = rng.integers(0, flat.shape[1], n)
      z = np.zeros_like(flat)
      z[np.arange(n), idx] = flat[np.arange(n), idx]
      flat[m] = z[m]
    if k == "Q":
      u = (sel >= 0.1) & (sel < 0.3)
      nr = np.linalg.norm(flat, axis=1, keepdims=True)
      nr[nr == 0] = 1
      flat[u] = (flat / nr)[u]
    return flat.reshape(shape).astype(np.float32)
  raise NotImplementedError(str(t))


class TValid:
  def __init__(self, tag, translator, gen_import):
    """tag: name of the generated wrapper module; gen_import: Coq module path e.g. 'Gen.math'."""
    self.tag, self.tr, self.gen_import = tag, translator, gen_import
    self.sigs = translator.signatures()
    self.items = []  # (coqname, gen, tol)

  def add(self, coqname, gen=None, tol=1e-4):
    if coqname not in self.sigs:
      raise KeyError(coqname)
    sig = self.sigs[coqname]
    for _, t in sig["args"]:
      if t[0] == "A":
        raise NotImplementedError(f"{coqname}: array argument")
    self.items.append((coqname, gen, tol))

  # -- wrapper kernels --------------------------------------------------------
  def _wrapper_source(self):
    mods = {}
    lines = ["import warp as wp", ""]
    body = []
    for coqname, _, _ in self.items:
      sig = self.sigs[coqname]
      pymod, pyname = sig["py"].rsplit(".", 1)
      alias = mods.setdefault(pymod, f"M{len(mods)}")
      rets = sig["ret"][1] if sig["ret"][0] == "T" else [sig["ret"]]
      params = [f"a{i}: wp.array(dtype={_wp_type_expr(t)})" for i, (_, t) in enumerate(sig["args"])]
      for j, rt in enumerate(rets):
        ot = "int" if rt[0] in ("B", "Z") else _wp_type_expr(rt)
        params.append(f"o{j}: wp.array(dtype={ot})")
      call = f"{alias}.{pyname}(" + ", ".join(f"a{i}[i]" for i in range(len(sig["args"]))) + ")"
      body.append("@wp.kernel")
      body.append(f"def k_{coqname}({', '.join(params)}):")
      body.append("  i = wp.tid()")
      if len(rets) == 1:
        body.append(f"  r0 = {call}")
      else:
        body.append("  " + ", ".join(f"r{j}" for j in range(len(rets))) + f" = {call}")
      for j, rt in enumerate(rets):
        if rt[0] == "B":
          body.append(f"  o{j}[i] = wp.where(r{j}, 1, 0)")
        else:
          body.append(f"  o{j}[i] = r{j}")
      body.append("")
    for m, a in mods.items():
      lines.append(f"import {m} as {a}")
    return "\n".join(lines + [""] + body)

  def _load_wrappers(self):
    os.makedirs(WRAP_DIR, exist_ok=True)
    path = os.path.join(WRAP_DIR, f"vw_{self.tag}.py")
    vlib.write_if_changed(path, self._wrapper_source())
    if WRAP_DIR not in sys.path:
      sys.path.insert(0, WRAP_DIR)
    return importlib.import_module(f"vw_{self.tag}")

  # -- run ----------------------------------------------------------------------
  def run(self, res: vlib.Result, n_per_fn=200, label="T-validation"):
    import warp as wp

    rng = np.random.default_rng(vlib.seed() + 12345)
    W = self._load_wrappers()
    case_lines = []
    meta = []  # (coqname, index, inputs)
    for coqname, gen, tol in self.items:
      sig = self.sigs[coqname]
      argt = [t for _, t in sig["args"]]
      rets = sig["ret"][1] if sig["ret"][0] == "T" else [sig["ret"]]
      n = n_per_fn
      if gen is not None:
        ins = gen(rng, n)
      else:
        ins = [default_gen(rng, t, n) for t in argt]
      ins = [np.ascontiguousarray(a, dtype=_np_shape(t, n)[1]) for a, t in zip(ins, argt)]
      n = len(ins[0]) if ins else n
      wins = []
      for a, t in zip(ins, argt):
        dt = {"S": wp.float32, "Z": wp.int32, "B": wp.bool}.get(t[0])
        if dt is None:
          dt = eval(_wp_type_expr(t), {"wp": wp})
        wins.append(wp.array(a, dtype=dt))
      wouts = []
      for rt in rets:
        dt = wp.int32 if rt[0] in ("B", "Z") else {"S": wp.float32}.get(rt[0]) or eval(_wp_type_expr(rt), {"wp": wp})
        wouts.append(wp.zeros(n, dtype=dt))
      wp.launch(getattr(W, f"k_{coqname}"), dim=n, inputs=wins, outputs=wouts)
      wp.synchronize()
      outs = [o.numpy() for o in wouts]
      for c in range(n):
        args = []
        for a, t in zip(ins, argt):
          v = a[c]
          if t[0] == "S":
            args.append(vlib.fhex(v))
          elif t[0] == "Z":
            args.append(f"({int(v)})%Z")
          elif t[0] == "B":
            args.append("true" if bool(v) else "false")
          else:
            args.append(vlib.flist(np.asarray(v, dtype=np.float64).reshape(-1)))
        exp = []
        for o, rt in zip(outs, rets):
          exp.extend(np.asarray(o[c], dtype=np.float64).reshape(-1).tolist())
        # flatten model return
        call = f"({coqname} " + " ".join(args) + ")"
        if len(rets) == 1:
          flat = self._flat("r", rets[0])
          term = f"(let r := {call} in {flat})"
        else:
          pat = ", ".join(f"r{j}" for j in range(len(rets)))
          flat = " ++ ".join(self._flat(f"r{j}", rt) for j, rt in enumerate(rets))
          term = f"(let '({pat}) := {call} in {flat})"
        case_lines.append(f"tv3 {vlib.fhex(tol)} (fun Sc => {term}) {vlib.flist(exp)}")
        meta.append((coqname, c, [np.asarray(a[c]).tolist() for a in ins], exp))
    verdicts = run_cases(self.tag, [self.gen_import], case_lines)
    ndis = nbad = 0
    per = {}
    bad = []
    for (coqname, c, inp, exp), v in zip(meta, verdicts):
      st = per.setdefault(coqname, [0, 0, 0])
      st[v] += 1
      if v == 1:
        ndis += 1
      if v == 2:
        nbad += 1
        if len(bad) < 20:
          bad.append({"function": coqname, "inputs": inp, "impl_output": exp})
      if v == 0:
        res.nontrivial(("tv", coqname, c))
    res.count(len(meta))
    res.extra.setdefault("t_validation", {})[self.tag] = {k: {"agree": v[0], "discarded": v[1], "disagree": v[2]} for k, v in per.items()}
    if meta:
      res.sample({"kind": label, "function": meta[0][0], "inputs": meta[0][2], "impl_output": meta[0][3]})
    return bad, per

  @staticmethod
  def _flat(v, t):
    k = t[0]
    if k == "S":
      return f"[{v}]"
    if k == "Z":
      return f"[f_ofZ {v}]"
    if k == "B":
      return f"[fb {v}]"
    return v


def run_cases(tag, imports, case_lines, chunk=400, extra_defs=""):
  """Write Corr/cases_<tag>_k.v files with `verdict` terms (nat), compile in parallel, return verdict list."""
  import concurrent.futures as cf

  d = os.path.join(vlib.COQ, "Corr")
  os.makedirs(d, exist_ok=True)
  files = []
  for k in range(0, len(case_lines), chunk):
    part = case_lines[k : k + chunk]
    defs = extra_defs if isinstance(extra_defs, str) else "\n".join(extra_defs[k : k + chunk])
    name = f"Corr/cases_{tag}_{k // chunk}.v"
    txt = (
      "From Coq Require Import ZArith List Bool PrimFloat.\n"
      "From VF Require Import Base.Scalar Base.ScalarF Base.Vec Base.Loop Base.CorrF.\n"
      + "".join(f"From VF Require Import {i}.\n" for i in imports)
      + "Import ListNotations.\nLocal Open Scope float_scope.\n"
      + defs
      + "\nDefinition verdicts : list nat := [\n  "
      + ";\n  ".join(part)
      + "\n].\nEval vm_compute in verdicts.\n"
    )
    with open(os.path.join(vlib.COQ, name), "w") as fh:
      fh.write(txt)
    files.append((name, len(part)))

  def one(item):
    name, cnt = item
    ok, out = vlib.coqc(name, timeout=900)
    if not ok and "inconsistent assumptions" in out:
      # a shared .vo was rebuilt by a concurrent check: rebuild our imports under the lock, retry once
      with vlib.Lock():
        targets = [i.replace(".", "/") + ".vo" for i in imports if not i.startswith("Coq")]
        vlib.coq_make(targets)
        ok, out = vlib.coqc(name, timeout=900)
    if not ok:
      raise RuntimeError(f"case file {name} failed to compile:\n{out[-3000:]}")
    lst = vlib.parse_nat_list(out, "=")
    if lst is None or len(lst) != cnt:
      raise RuntimeError(f"case file {name}: cannot parse verdicts ({None if lst is None else len(lst)} of {cnt})\n{out[-500:]}")
    return lst

  with cf.ThreadPoolExecutor(max_workers=12) as ex:
    parts = list(ex.map(one, files))
  for name, _ in files:
    for ext in (".v", ".vo", ".vok", ".vos", ".glob"):
      try:
        os.remove(os.path.join(vlib.COQ, name[:-2] + ext))
      except FileNotFoundError:
        pass
  return [v for p in parts for v in p]
