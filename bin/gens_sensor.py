"""T generator "K_sensor": the sensor kernels that call the void helpers `_write_scalar` /
`_write_vector` (the cutoff handling) -> coq/Gen/K_sensor.v.

bin/translate.py (coordinator-owned) rejects a call used as a statement and generic (`Any`)
parameters, so `_sensor_pos`, `_sensor_vel`, `_sensor_acc`, `_limit_pos/_vel/_frc` and
`_tendon_actuator_force_cutoff` do not translate as they stand.  This generator performs a
SOURCE-TO-SOURCE step on the text of /repo's sensor.py (re-read on every run) and hands the result
to the unchanged translator:

  1. every statement `_write_scalar(...)` / `_write_vector(...)` is replaced by the body of that
     function (parameters substituted by the call's arguments, callee locals renamed, the early
     `return`s turned into if/else nesting);
  2. `wp.identity(3, dtype=...)` (keyword argument, rejected by the translator) is rewritten to the
     literal 3x3 identity in `_get_mat`, `_frame_linvel`, `_frame_angvel`; `_frame_pos` and
     `_frame_axis` are re-emitted so that they bind to the rewritten `_get_mat`;
  3. the row alias `out = sensordata_out[worldid]` is substituted away (the translator would thread
     it through every branch as a second result, which makes the Coq terms needlessly large);
  4. the conditionally defined locals `contact_forcetorque` (`_sensor_acc`) and `axis`
     (`_sensor_pos`) get a zero initialiser at the top of the kernel (every use is dominated by
     an assignment, so the value is never observed).

The step is NOT trusted on its own: bin/props/C07.py replays traced REAL launches of the original
kernels (bin/ktrace.py) against the translation of the rewritten text inside Coq (bin/kvalid.py)
on every run, so a wrong rewrite shows up as a kernel-validation disagreement.  The rewritten
source is kept in build/wrap/vw_ksensor_src.py for inspection."""

from __future__ import annotations

import ast
import copy
import importlib
import inspect
import os
import sys
import textwrap

import vlib

_cache = {}

WRITERS = ("_write_scalar", "_write_vector")
KERNELS = ["_sensor_pos", "_sensor_vel", "_sensor_acc", "_limit_pos", "_limit_vel", "_limit_frc", "_tendon_actuator_force_cutoff"]
PATCHED_FUNCS = ["_get_mat", "_frame_pos", "_frame_axis", "_frame_linvel", "_frame_angvel"]
MODNAME = "vw_ksensor_src"
# locals that the source defines only on some paths (every use is dominated by an assignment):
INIT = {
  "_sensor_acc": ["contact_forcetorque = wp.spatial_vector(0.0, 0.0, 0.0, 0.0, 0.0, 0.0)"],
  "_sensor_pos": ["axis = int(0)"],
}


def _fdef(pyf):
  return ast.parse(textwrap.dedent(inspect.getsource(pyf))).body[0]


def _strip_doc(body):
  return [s for s in body if not (isinstance(s, ast.Expr) and isinstance(getattr(s, "value", None), ast.Constant))]


def _has_return(stmts):
  return any(isinstance(n, ast.Return) for s in stmts for n in ast.walk(s))


def _elim_returns(stmts):
  """Equivalent statement list without `return` (void function body; no return inside loops)."""
  out = []
  for i, s in enumerate(stmts):
    if isinstance(s, ast.Return):
      if s.value is not None:
        raise ValueError("valued return in a writer")
      return out
    if isinstance(s, ast.If) and _has_return([s]):
      rest = stmts[i + 1 :]
      body = _elim_returns(list(s.body) + copy.deepcopy(rest))
      orelse = _elim_returns(list(s.orelse) + copy.deepcopy(rest))
      out.append(ast.If(test=s.test, body=body or [ast.Pass()], orelse=orelse))
      return out
    if isinstance(s, (ast.For, ast.While)) and _has_return([s]):
      raise ValueError("return inside a loop of a writer")
    out.append(s)
  return out


class _Subst(ast.NodeTransformer):
  def __init__(self, mapping):
    self.mapping = mapping

  def visit_Name(self, n):
    if n.id in self.mapping:
      r = copy.deepcopy(self.mapping[n.id])
      if isinstance(r, ast.Name):
        r.ctx = n.ctx
      return r
    return n


class _Inliner(ast.NodeTransformer):
  """Replace `<writer>(args)` expression statements by the writer's body."""

  def __init__(self, writers):
    self.writers = writers  # name -> FunctionDef
    self.k = 0
    self.count = 0

  def _inline(self, call):
    name = call.func.id
    fd = self.writers[name]
    params = [a.arg for a in fd.args.args]
    if len(params) != len(call.args) or call.keywords:
      raise ValueError(f"call of {name}: arity / keywords")
    self.k += 1
    suf = f"__w{self.k}"
    pre = []
    mapping = {}
    for p, a, an in zip(params, call.args, fd.args.args):
      ann = ast.unparse(an.annotation) if an.annotation is not None else ""
      if isinstance(a, (ast.Name, ast.Constant)) or ann.startswith("wp.array"):
        mapping[p] = a
      else:
        v = p + suf
        pre.append(ast.Assign(targets=[ast.Name(id=v, ctx=ast.Store())], value=a, lineno=call.lineno))
        mapping[p] = ast.Name(id=v, ctx=ast.Load())
    body = _strip_doc(copy.deepcopy(fd.body))
    local = set()
    for s in body:
      for n in ast.walk(s):
        if isinstance(n, ast.Name) and isinstance(n.ctx, ast.Store):
          local.add(n.id)
    for l in local:
      if l in mapping:
        raise ValueError(f"{name} assigns its parameter {l}")
      mapping[l] = ast.Name(id=l + suf, ctx=ast.Load())
    body = _elim_returns(body)
    sub = _Subst(mapping)
    body = [sub.visit(s) for s in body]
    self.count += 1
    return pre + body

  def _block(self, stmts):
    out = []
    for s in stmts:
      if isinstance(s, ast.Expr) and isinstance(s.value, ast.Call) and isinstance(s.value.func, ast.Name) and s.value.func.id in self.writers:
        out.extend(self._inline(s.value))
      else:
        out.append(self.generic_visit(s))
    return out

  def generic_visit(self, node):
    for f in ("body", "orelse"):
      v = getattr(node, f, None)
      if isinstance(v, list) and v and isinstance(v[0], ast.stmt):
        setattr(node, f, self._block(v))
    return node


def _unalias(fd, body):
  """`out = arr[worldid]` (row view of an array parameter, never reassigned) is substituted away:
  the translator would otherwise thread the alias through every branch as a second result."""
  arrays = {a.arg for a in fd.args.args if a.annotation is not None and ast.unparse(a.annotation).startswith("wp.array")}
  stores = {}
  for s in body:
    for n in ast.walk(s):
      if isinstance(n, ast.Name) and isinstance(n.ctx, ast.Store):
        stores[n.id] = stores.get(n.id, 0) + 1
  out, mapping = [], {}
  for s in body:
    if (isinstance(s, ast.Assign) and len(s.targets) == 1 and isinstance(s.targets[0], ast.Name) and isinstance(s.value, ast.Subscript)
        and isinstance(s.value.value, ast.Name) and s.value.value.id in arrays and stores.get(s.targets[0].id) == 1
        and isinstance(s.value.slice, ast.Name) and stores.get(s.value.slice.id, 0) <= 1 and s.targets[0].id == "out"):  # fmt: skip
      mapping[s.targets[0].id] = s.value
      continue
    out.append(_Subst(mapping).visit(s) if mapping else s)
  return out


class _Identity(ast.NodeTransformer):
  def visit_Call(self, n):
    self.generic_visit(n)
    if ast.unparse(n.func) == "wp.identity" and n.keywords:
      return ast.parse("wp.mat33(1.0, 0.0, 0.0, 0.0, 1.0, 0.0, 0.0, 0.0, 1.0)").body[0].value
    return n


def build_source(SM):
  writers = {w: _fdef(getattr(SM, w).func) for w in WRITERS}
  parts = [
    '"""GENERATED by /verif/bin/gens_sensor.py from /repo/mujoco_warp/_src/sensor.py -- do not edit."""',
    "import warp as wp",
    "from typing import Any, Tuple",
    "import mujoco_warp._src.sensor as _SM",
    "globals().update({k: v for k, v in vars(_SM).items() if not k.startswith('__')})",
    "",
    "class _F:",
    "  def __init__(self, f):",
    "    self.func, self.key = f, f.__name__",
    "",
  ]
  stats = {}
  for fn in PATCHED_FUNCS:
    fd = _fdef(getattr(SM, fn).func)
    fd.decorator_list = [ast.Name(id="_F", ctx=ast.Load())]
    fd = _Identity().visit(fd)
    ast.fix_missing_locations(fd)
    parts += [ast.unparse(fd), ""]
  for kn in KERNELS:
    fd = _fdef(getattr(SM, kn).func)
    fd.decorator_list = [ast.Name(id="_F", ctx=ast.Load())]
    inl = _Inliner(writers)
    fd.body = inl._block(_unalias(fd, _strip_doc(fd.body)))
    for k, line in enumerate(INIT.get(kn, ())):
      fd.body.insert(1 + k, ast.parse(line).body[0])
    fd = _Identity().visit(fd)
    ast.fix_missing_locations(fd)
    stats[kn] = inl.count
    parts += [ast.unparse(fd), ""]
  return "\n".join(parts), stats


LIFT = ("_sensor_pos", "_sensor_vel", "_sensor_acc")
LIFT_TYPES = {"writes__": "(list (write S))", "contact_forcetorque": "(list S)"}  # every other lifted local is an integer


def lift_body(text, name):
  """Coq-level lambda lifting of the leading one-line `let x := e in` chain of kernel `name`:
       Definition name params := let x1 := e1 in .. let xn := en in BODY.
   becomes
       Definition name_body params x1 .. xn := BODY.
       Definition name params := let x1 := e1 in .. let xn := en in name_body params x1 .. xn.
   so that Proof/Sensor.v can reason about BODY with the sensor type as a variable.  The rewritten
   text is what Coq compiles and what the kernel validation runs, so the step is covered by it."""
  import re

  lines = text.split("\n")
  start = next(i for i, l in enumerate(lines) if l.startswith(f"Definition {name} "))
  head = lines[start]
  m = re.match(r"Definition (\S+) (.*) : \(list \(write S\)\) :=$", head)
  params = m.group(2)
  pnames = re.findall(r"\((\w+) : ", params)
  lets = []
  i = start + 1
  while True:
    mm = re.match(r"  let (\w+) := (.*) in$", lines[i])
    if not mm or mm.group(2).count("(") != mm.group(2).count(")"):
      break
    lets.append((mm.group(1), mm.group(2)))
    i += 1
  end = next(j for j in range(i, len(lines)) if lines[j].endswith(".") and not lines[j].startswith("(*") and (j + 1 >= len(lines) or lines[j + 1] == ""))
  body = lines[i : end + 1]
  names = []
  for n, _ in lets:  # a name bound twice keeps its last binding as the parameter
    if n in names:
      raise ValueError(f"{name}: local {n} rebound in the lifted prefix")
    names.append(n)
  lifted = " ".join(f"({n} : {LIFT_TYPES.get(n, 'Z')})" for n in names)
  out = [f"Definition {name}_body {params} {lifted} : (list (write S)) :="] + body + [""]
  out += [head] + [f"  let {n} := {e} in" for n, e in lets] + [f"  ({name}_body {' '.join(pnames)} {' '.join(names)})."]
  return "\n".join(lines[:start] + out + lines[end + 1 :])


def outline_branch(text, defname, newname, cond_prefix, rettype="(list (write S))"):
  """Move the `then` branch of the `if <cond_prefix>..` of definition `defname` into its own
  definition `newname` with the same parameters (all variables in scope are parameters of
  `defname`).  Used for the geom-distance search of `_sensor_pos` (nested loops): keeping it
  out of line keeps the terms Proof/Sensor.v manipulates small."""
  import re

  lines = text.split("\n")
  start = next(i for i, l in enumerate(lines) if l.startswith(f"Definition {defname} "))
  head = lines[start]
  m = re.match(r"Definition (\S+) (.*) : \(list \(write S\)\) :=$", head)
  params = m.group(2)
  pnames = re.findall(r"\((\w+) : ", params)
  end = next(j for j in range(start, len(lines)) if lines[j] == "")
  i = next(j for j in range(start, end) if lines[j].strip().startswith("if " + cond_prefix) and lines[j].rstrip().endswith("then"))
  ind = len(lines[i]) - len(lines[i].lstrip())
  j = next(k for k in range(i + 1, end) if lines[k] == " " * ind + "else")
  branch = [l[ind:] if l.startswith(" " * ind) else l for l in lines[i + 1 : j]]
  # a branch that used a local of the enclosing definition does not compile (fail closed)
  new = [f"Definition {newname} {params} : {rettype} :="] + branch
  new[-1] = new[-1] + "."
  call = " " * (ind + 2) + f"({newname} {' '.join(pnames)})"
  return "\n".join(lines[:start] + new + [""] + lines[start : i + 1] + [call] + lines[j:])


def split_geom(text, name):
  """k__sensor_pos_geom = search loops producing (dist, (pnts, flip)), then the writes.  Split at
  the last top-level `let flip := snd (snd p__N) in` into `<name>_search` (the tuple) and
  `<name>_write params dist pnts flip`; `<name>` becomes their composition."""
  import re

  lines = text.split("\n")
  start = next(i for i, l in enumerate(lines) if l.startswith(f"Definition {name} "))
  head = lines[start]
  m = re.match(r"Definition (\S+) (.*) : \(list \(write S\)\) :=$", head)
  params = m.group(2)
  pnames = re.findall(r"\((\w+) : ", params)
  end = next(j for j in range(start, len(lines)) if lines[j] == "")
  k = max(j for j in range(start, end) if re.match(r"^  let flip := snd \(snd (p__\d+)\) in$", lines[j]))
  pn = re.match(r"^  let flip := snd \(snd (p__\d+)\) in$", lines[k]).group(1)
  if lines[k - 2] != f"  let dist := fst {pn} in" or lines[k - 1] != f"  let pnts := fst (snd {pn}) in":
    raise ValueError(f"{name}: unexpected shape before the writes")
  search = [f"Definition {name}_search {params} : (S * ((list S) * bool)) :="] + lines[start + 1 : k - 2] + [f"  {pn}.", ""]
  write = [f"Definition {name}_write {params} (dist : S) (pnts : (list S)) (flip : bool) : (list (write S)) :="] + lines[k + 1 : end] + [""]
  args = " ".join(pnames)
  comp = [head, f"  let p__s := ({name}_search {args}) in", f"  ({name}_write {args} (fst p__s) (fst (snd p__s)) (snd (snd p__s))).", ""]
  return "\n".join(lines[:start] + search + write + comp + lines[end + 1 :])


def _module():
  if "mod" in _cache:
    return _cache["mod"]
  import tvalid

  import mujoco_warp._src.sensor as SM

  src, stats = build_source(SM)
  os.makedirs(tvalid.WRAP_DIR, exist_ok=True)
  path = os.path.join(tvalid.WRAP_DIR, MODNAME + ".py")
  vlib.write_if_changed(path, src)
  if tvalid.WRAP_DIR not in sys.path:
    sys.path.insert(0, tvalid.WRAP_DIR)
  importlib.invalidate_caches()
  if MODNAME in sys.modules:
    mod = importlib.reload(sys.modules[MODNAME])
  else:
    mod = importlib.import_module(MODNAME)
  _cache["mod"] = (mod, stats)
  return mod, stats


def _make(tag, kernels, outfile):
  def gen():
    if tag in _cache:
      return _cache[tag]
    import translate as T

    mod, stats = _module()
    tr = T.Translator()
    tr.kernels = {}
    tr.inlined = {k: stats[k] for k in kernels}
    for kn in kernels:
      try:
        fi = tr.want_kernel(getattr(mod, kn))
      except Exception as e:  # translator crash = fail closed for that kernel
        tr.errors[f"kernel:{kn}"] = f"CRASH {type(e).__name__}: {e}"
        fi = None
      if fi is not None:
        tr.kernels[kn] = fi
    text = tr.emit(None)
    for kn in kernels:
      if kn in LIFT and kn in tr.kernels:
        text = lift_body(text, "k_" + kn)
    if "_sensor_pos" in kernels and "_sensor_pos" in tr.kernels:
      text = outline_branch(text, "k__sensor_pos_body", "k__sensor_pos_geom", "((Z.eqb sensortype (39)%Z)")
      text = split_geom(text, "k__sensor_pos_geom")
    if "_sensor_acc" in kernels and "_sensor_acc" in tr.kernels:
      # the contact-sensor branch out of line: coqc needs ~30 s instead of ~150 s for the file
      # (the branch yields the pair (contact_forcetorque, writes__): the local is threaded through the if-chain)
      text = outline_branch(text, "k__sensor_acc_body", "k__sensor_acc_contact", "(Z.eqb sensortype (42)%Z)", "((list S) * (list (write S)))")
    vlib.write_if_changed(os.path.join(vlib.COQ, "Gen", outfile), text)
    _cache[tag] = tr
    return tr

  return gen


# `_sensor_acc` (contact-sensor slots: ~1300 generated lines, ~30 s of coqc) lives in its own file so
# that the theorems (Props/C07.v imports Gen.K_sensor only) do not wait for it; it is built in parallel
# and used by the kernel validation.
GENS = {
  "K_sensor": _make("k", [k for k in KERNELS if k != "_sensor_acc"], "K_sensor.v"),
  "K_sensor_acc": _make("kacc", ["_sensor_acc"], "K_sensor_acc.v"),
}
