"""Merge /verif/findings/*.json into known_findings.json, skipping keys listed in FIXED (fixed by commits in /repo)."""
import glob, json, subprocess, sys
FIXED = {  # key -> (property, commit subject prefix)
  "C08:rk4:filterexact-stage-activation": ("C08", "fix: rungekutta4 perturbs stage activations by plain Euler"),
  "C17:exception:ZeroDivisionError:njmax=0:sleep": ("C17", "fix: dense Newton Hessian kernels accept njmax == 0"),
  "C13:reset_data:stale-nan-efc-J-rows": ("C13", "fix: reset_data clears the constraint Jacobian"),
  "C40:flex_geom_vertex:normal-reversed": ("C40", "fix: 1D flex vertex contacts point from the geom"),
  "C07:TOUCH:cutoff-ignored": ("C07", "fix: touch sensors apply their cutoff"),
  "C07:LIMITSENSOR:joint-tendon-id-collision": ("C07", "fix: joint-limit sensors read joint-limit rows only"),
  "C07:GEOMDIST:capsule-capsule-beyond-margin": ("C07", "fix: capsule-capsule reports the distance of pairs beyond"),
  "C07:RK4:sensordata-of-last-stage": ("C07", "fix: rungekutta4 leaves sensordata"),
  "C07:ENERGY:zeroed-with-energy-sensors": ("C07", "fix: energy computed by energy sensors"),
  "C32:solver.solve:sleep-enabled-island-disabled-crash": ("C32", "fix: solve takes the sleep path only when islands"),
  "C32:deriv_smooth_vel:fluid-derivative-with-passive-disabled": ("C32", "fix: deriv_smooth_vel skips the fluid derivative"),
  "C26:discrete_acc:implicitfast:fluid-derivative-with-passive-disabled": ("C26", "fix: deriv_smooth_vel skips the fluid derivative"),
  "C32:_energy_pos:energy-zeroed-after-energy-sensor": ("C32", "fix: energy computed by energy sensors"),
  "C32:put_model:several-unsupported-bits-raise-ValueError": ("C32", "fix: put_model reports several unsupported"),
  "C34:ray_mesh:non-unit-direction": ("C34", "fix: mesh and hfield rays accept non-unit directions"),
  "C34:bvh:flex-stride-multiworld": ("C34", "fix: BVH ray query uses the per-world stride"),
  "C34:bvh:mesh-bounds-not-centred": ("C34", "fix: mesh BVH bounds cover meshes not centred"),
  "C35:render:mesh-clipped-by-off-centre-bounds": ("C35", "fix: mesh BVH bounds cover meshes not centred"),
  "C35:render:orthographic-all-pixels-same-ray": ("C35", "fix: orthographic cameras cast parallel rays"),
  "C33:set_length_range:nworld>1-writes-out-of-bounds": ("C33", "fix: set_length_range launches over the rows"),
  "C33:_compute_cam_pos0:mixed-batch-rows": ("C33", "fix: camera/light reference kernels index each output"),
  "C33:set_const_0:camlight-evaluated-in-tracking-mode": ("C33", "fix: set_const_0 evaluates cameras and lights in fixed mode"),
  "C33:invweight0:body_simple-2-slider-bodies": ("C33", "fix: set_const invweight0 of slider-only bodies"),
  "C33:_finalize_body_invweight0:zero-component-fallback": ("C33", "fix: body_invweight0 keeps a vanishing component"),
  "C05:make_data:default-njmax_nnz-omits-slide-hinge-limits": ("C05", "fix: default njmax_nnz counts limited slide"),
  "C22:dense-vs-sparse:default-njmax_nnz-drops-rows": ("C22", "fix: default njmax_nnz counts limited slide"),
  "C05:_efc_row:mixed-solref": ("C05", "fix: constraint rows follow MuJoCo for mixed solref"),
  "C05:_efc_row:solimp-width-below-minval": ("C05", "fix: constraint rows follow MuJoCo for mixed solref"),
  "C05:_efc_row:solimp-dmin-above-dmax": ("C05", "fix: constraint rows follow MuJoCo for mixed solref"),
  "C05:_efc_contact_update:elliptic-friction-row-margin": ("C05", "fix: elliptic friction rows carry zero margin"),
  "C05:_equality_connect_weld:both-bodies-without-dofs": ("C05", "fix: connect/weld between two static bodies"),
  "C16:jtdaj-block-exceeds-allocation:_equality_flexstrain": ("C16", "fix: flex strain equality registers one-row"),
  "C01:zero-quaternion-normalize": ("C01", "fix: kinematics normalises a zero quaternion"),
  "C02:passive._fluid_force:ellipsoid-force-moment-dropped": ("C02", "fix: ellipsoid fluid force"),
  "C02:passive._spring_damper_dof_passive:joint-damping-read-from-first-dof": ("C02", "fix: joint damping is read per dof"),
  "C13:make_data:awake-counters-zero": ("C13", "fix: make_data initialises the awake counters"),
  "C13:reset_data:act-na>nu": ("C13", "fix: reset_data zeroes all na activations"),
  "C13:reset_data:body_awake-mocap-child": ("C13", "fix: reset_sleep classifies bodies"),
  "C13:reset_data:history": ("C13", "fix: make_data initialises and reset_data restores the delay history"),
  "C13:reset_data:stale-cvel-cdof_dot": ("C13", "fix: reset_data clears cvel and cdof_dot"),
  "C15:sig_range:negative-signature-accepted": ("C15", "fix: get_state/set_state reject negative"),
  "C18:sap:same-type-pair-emitted-in-sort-order": ("C18", "fix: SAP broadphase emits same-type"),
  "C20:plane_capsule:frame-fallback-not-orthogonal": ("C20", "fix: plane-capsule contact frame"),
  "C29:sleep:cycle-relinked-while-asleep": ("C29", "fix: islands that contain a sleeping tree"),
  "C30:make_data:history-init": ("C30", "fix: make_data initialises and reset_data restores the delay history"),
  "C30:reset_data:history-not-reset": ("C30", "fix: make_data initialises and reset_data restores the delay history"),
  "C10:flex-narrowphase:ccd_tolerance-world0": ("C10", "fix: flex narrowphase reads the CCD tolerance"),
  "C36:process-history:primitive-dispatch-registry": ("C36", "fix: rebuild the primitive narrowphase dispatch"),
  "C16:exact-fit-dropped:_equality_connect": ("C16", "fix: equality connect/weld rows that fit exactly"),
  "C16:exact-fit-dropped:_equality_weld": ("C16", "fix: equality connect/weld rows that fit exactly"),
  "C08:implicit:rne-derivative-sign": ("C08", "fix: implicit integrator adds the RNE velocity derivative"),
  "C08:rk4:stage-time-not-advanced": ("C08", "fix: rungekutta4 advances d.time"),
  "C12:constraint:stale-cvel:connect-weld": ("C12", "fix: com_vel runs before make_constraint"),
  "C37:forward:not-idempotent:equality-jdot-stale-cvel": ("C37", "fix: com_vel runs before make_constraint"),
  "C20:plane_cylinder:degenerate-axis-world-x": ("C20", "fix: plane-cylinder uses the cylinder's local x axis"),
  "C03:_actuator_force:dyntype-user-actearly-unassigned-act": ("C03", "fix: actearly with dyntype=user"),
  "C03:fwd_actuation:actuatorgroupdisable-ignored": ("C03", "fix: put_model rejects models that disable actuator groups"),
  "C03:next_act:dyntype-user-skips-actlimited-clamp": ("C03", "fix: next_act clamps user-dynamics activations"),
  "C38:compact-nefc0-reads-unwritten-workspace": ("C38", "fix: compact solve zeroes qfrc_constraint"),
  "C38:compact-vs-full:runtime-tolerance-ignored": ("C38", "fix: compact solve rescales the current opt.tolerance"),
  "C04:contact_material_params:priority-direct-solref": ("C04", "fix: the higher-priority geom's solref"),
  "C04:plane_box:upper-corners-and-more-than-4-contacts": ("C04", "fix: plane-box constraint contacts are limited"),
  "C17:exception:naconmax=0:ZeroDivisionError": ("C17", "fix: Newton solver does not divide by zero"),
  "C16:exception-before-overflow-flag:naconmax=0:ZeroDivisionError": ("C16", "fix: Newton solver does not divide by zero"),
  "C06:forward:efc_D-vs-mujoco:type0:sparse": ("C06", "fix: sparse connect/weld rows take their impedance weights"),
  "C17:crash:sparse-small-njmax_nnz": ("C17", "fix: njmax_nnz overflow is flagged"),
  "C16:crash-before-overflow-flag:sparse-njmax_nnz=0": ("C16", "fix: njmax_nnz overflow is flagged"),
  "C16:crash-before-overflow-flag:sparse-small-njmax_nnz": ("C16", "fix: njmax_nnz overflow is flagged"),
  "C16:nnz-overflow-unflagged:_efc_contact_init": ("C16", "fix: njmax_nnz overflow is flagged"),
  "C16:nnz-overflow-unflagged:_equality_connect": ("C16", "fix: njmax_nnz overflow is flagged"),
  "C16:nnz-overflow-unflagged:_equality_joint": ("C16", "fix: njmax_nnz overflow is flagged"),
  "C16:nnz-overflow-unflagged:_equality_tendon": ("C16", "fix: njmax_nnz overflow is flagged"),
  "C16:nnz-overflow-unflagged:_equality_weld": ("C16", "fix: njmax_nnz overflow is flagged"),
  "C16:nnz-overflow-unflagged:_friction_dof": ("C16", "fix: njmax_nnz overflow is flagged"),
  "C16:nnz-overflow-unflagged:_friction_tendon": ("C16", "fix: njmax_nnz overflow is flagged"),
  "C16:nnz-overflow-unflagged:_limit_ball": ("C16", "fix: njmax_nnz overflow is flagged"),
  "C16:nnz-overflow-unflagged:_limit_slide_hinge": ("C16", "fix: njmax_nnz overflow is flagged"),
  "C16:nnz-overflow-unflagged:_limit_tendon": ("C16", "fix: njmax_nnz overflow is flagged"),
  "C31:get_data_into:rowless-contact-efc-address": ("C31", "fix: get_data_into skips contacts without constraint rows"),
  "C31:get_data_into:efc-id-global-contact-index": ("C31", "fix: get_data_into reports contact rows' efc_id"),
  "C31:put_data:efc-state-island-not-copied": ("C31", "fix: put_data copies efc_state"),
  "C31:put_data:island-arrays-uninitialised": ("C31", "fix: put_data copies efc_state"),
  "C27:_qderiv_actuator_passive_vel:ctrl-not-clamped": ("C27", "fix: actuator velocity derivative uses the clamped control"),
  "C27:_qderiv_actuator_passive_vel:muscle-gain-velocity-ignored": ("C27", "fix: actuator velocity derivative includes the muscle gain"),
  "C04:capsule_capsule:in-gap-contact-dropped": ("C04", "fix: capsule-capsule keeps contacts inside the gap"),
  "C04:broadphase:explicit-pair-margin-ignored": ("C04", "fix: the broadphase filter does not reject explicit contact pairs"),
  "C18:filter:explicit-pair-margin-ignored": ("C18", "fix: the broadphase filter does not reject explicit contact pairs"),
  "C19:explicit-pair:pair-margin-ignored-by-broadphase-filter": ("C19", "fix: the broadphase filter does not reject explicit contact pairs"),
}
log = subprocess.check_output(["git", "-C", "/repo", "log", "--format=%h %s"]).decode().splitlines()
def sha_for(prefix):
  for l in log:
    if l.split(" ", 1)[1].startswith(prefix):
      return l.split(" ", 1)[0]
  return None
known = {"findings": [], "fixed": []}
whats = {}
for p in sorted(glob.glob("/verif/findings/*.json")):
  d = json.load(open(p))
  items = d if isinstance(d, list) else d.get("findings", d.get("entries", [d]))
  for it in items:
    if not isinstance(it, dict) or "key" not in it:
      continue
    whats[it["key"]] = it
    if it["key"] in FIXED and sha_for(FIXED[it["key"]][1]):
      continue
    known["findings"].append({"property": it["property"], "key": it["key"], "what": it.get("what", ""), "replay": it.get("replay")})
extra = {
  "C10:flex-narrowphase:ccd_tolerance-world0": "collision_flex._flex_narrowphase read opt_ccd_tolerance[0 % n]: with per-world ccd_tolerance [1e-6, 0.05] both worlds of a tet-tet flex scene used world 0's tolerance",
  "C36:process-history:primitive-dispatch-registry": "collision_primitive.primitive_narrowphase kept a process-wide only-growing dispatch list: a NATIVECCD-disabled two-box model followed by a native-CCD one gave 12 contacts instead of 8",
}
for key, (prop, prefix) in FIXED.items():
  sha = sha_for(prefix)
  if sha is None:
    continue
  what = whats.get(key, {}).get("what") or extra.get(key, "")
  known["fixed"].append(f"fixed: property={prop} {sha} {key}: {what[:300]}")
json.dump(known, open("/verif/known_findings.json", "w"), indent=1)
print(len(known["findings"]), "findings,", len(known["fixed"]), "fixed")
