"""T: translate Warp @wp.func functions of /repo into Gallina (fail-closed).

Every function is emitted as one Definition, polymorphic in a `Scalar S`
(coq/Base/Scalar.v).  Vectors / quaternions / matrices are flat lists
(coq/Base/Vec.v).  Integer `//` `%` use C semantics (Z.quot / Z.rem).
Anything outside the supported subset raises TranslateError for *that function*;
callers treat it as a broken obligation, never as a silent skip.

Usage (library):  tr = Translator(); tr.want('mujoco_warp._src.math', 'mul_quat'); tr.emit(path, modname)
"""

from __future__ import annotations

import ast
import importlib
import inspect
import re
import textwrap
from fractions import Fraction

import warp as wp


class TranslateError(Exception):
  pass


# ---- types -------------------------------------------------------------------
S = ("S",)
Z = ("Z",)
B = ("B",)


def V(n):
  return ("V", n)


Q = ("Q",)  # quaternion: a V4 whose wp.normalize has the (0,0,0,1) zero case


def M(r, c):
  return ("M", r, c)


def T(ts):
  return ("T", tuple(ts))


def A(elt, ndim):
  return ("A", elt, ndim)


def VI(n):
  return ("VI", n)


def is_vec(t):
  return t[0] in ("V", "Q")


def vlen(t):
  return 4 if t[0] == "Q" else t[1]


def coq_type(t):
  k = t[0]
  if k == "S":
    return "S"
  if k == "Z":
    return "Z"
  if k == "B":
    return "bool"
  if k in ("V", "Q", "M"):
    return "(list S)"
  if k == "VI":
    return "(list Z)"
  if k == "T":
    return "(" + " * ".join(coq_type(x) for x in t[1]) + ")"
  if k == "A":
    return "(" + " -> ".join(["Z"] * t[2] + [coq_type(t[1])]) + ")"
  if k == "W":
    return "(list (write S))"
  if k == "O":
    return "(nat -> Z)"
  raise TranslateError(f"type {t}")


def wp_type_to_t(tp):
  """Map a runtime Warp/Python annotation object to a translator type."""
  if tp is float or tp is wp.float32 or tp is wp.float64:
    return S
  if tp is int or tp in (wp.int32, wp.int64, wp.uint32, wp.int8, wp.uint8, wp.int16):
    return Z
  if tp is bool or tp is wp.bool:
    return B
  if isinstance(tp, wp.array) or type(tp).__name__ in ("array", "_ArrayAnnotation"):
    return A(wp_type_to_t(tp.dtype), tp.ndim)
  if hasattr(tp, "_wp_generic_type_hint_") or hasattr(tp, "_shape_"):
    shape = getattr(tp, "_shape_", None)
    name = getattr(tp, "__name__", "")
    if name.startswith("quat"):
      return Q
    st = getattr(tp, "_wp_scalar_type_", None)
    if shape is not None and len(shape) == 1 and st in (wp.int32, wp.int64, int, wp.int16, wp.int8, wp.uint8, wp.uint32):
      return VI(shape[0])
    if shape is not None and len(shape) == 1:
      return V(shape[0])
    if shape is not None and len(shape) == 2:
      return M(shape[0], shape[1])
  raise TranslateError(f"unsupported annotation {tp!r}")


def _is_any(a):
  import typing

  return a is typing.Any or str(a) == "typing.Any"


def lit_float(x: float, src: str | None = None):
  fr = Fraction(src) if src is not None else Fraction(repr(float(x)))
  n, d = fr.numerator, fr.denominator
  if d == 1:
    return f"(sofZ ({n})%Z)"
  return f"(slit ({n})%Z ({d})%Z)"


CMP_S = {ast.Lt: "sltb", ast.LtE: "sleb", ast.Gt: "sgtb", ast.GtE: "sgeb", ast.Eq: "seqb", ast.NotEq: "sneb"}
CMP_Z = {ast.Lt: "Z.ltb", ast.LtE: "Z.leb", ast.Gt: "Z.gtb", ast.GtE: "Z.geb", ast.Eq: "Z.eqb", ast.NotEq: "Zneb"}

UNARY_S = {
  "sqrt": "ssqrt", "abs": "sabs", "sin": "ssin", "cos": "scos", "tan": "stan", "exp": "sexp", "log": "slog",
  "acos": "sacos", "asin": "sasin", "tanh": "stanh", "floor": "sfloor", "sign": "ssign",
}  # fmt: skip

COQ_RESERVED = {
  "at", "as", "in", "end", "fun", "fix", "let", "match", "with", "return", "then", "else", "if", "forall", "exists",
  "Type", "Set", "Prop", "using", "where", "for", "S", "Z", "B", "dir", "vec", "quat", "T", "N", "D", "H", "M", "Q", "R",
  "I", "O", "pos", "eq", "le", "lt", "max", "min", "id", "fst", "snd", "length", "map", "nth", "rev", "seq", "sum", "mod",
  "nil", "cons", "true", "false", "tt", "None", "Some", "pair", "inl", "inr", "left", "right", "e", "pi", "force", "state",
}  # fmt: skip


def cname(n):
  return n + "_" if n in COQ_RESERVED else n


class FuncInfo:
  def __init__(self, coqname, argnames, argtypes, rettype, body, pyqual, deps, shape_params=()):
    self.coqname, self.argnames, self.argtypes, self.rettype = coqname, argnames, argtypes, rettype
    self.body, self.pyqual, self.deps = body, pyqual, deps
    self.shape_params = list(shape_params)
    self.notes = []
    self.ntid = 0


class Translator:
  def __init__(self):
    self.funcs: dict[tuple, FuncInfo] = {}  # key = (pyqual, argtypes)
    self.order: list[tuple] = []
    self.in_progress = set()
    self.errors: dict[str, str] = {}

  # -- public ---------------------------------------------------------------
  def want(self, modname, fname, argtypes=None):
    mod = importlib.import_module(modname)
    f = getattr(mod, fname)
    try:
      return self._get(f, argtypes)
    except TranslateError as e:
      if "array write" in str(e) or "bare return" in str(e) or "expression statement" in str(e):
        try:  # a function that writes arrays: translate it as a procedure (list of writes)
          return self._get_proc(f)
        except TranslateError as e2:
          self.errors[f"{modname}.{fname}"] = f"{e} | as procedure: {e2}"
          return None
      self.errors[f"{modname}.{fname}"] = str(e)
      return None

  def want_kernel(self, kernel, coqname=None):
    """Translate a wp.Kernel object (or module attribute) into `k_<name> : tids -> params -> atomic_old -> list write`."""
    try:
      return self._get_kernel(kernel, coqname)
    except TranslateError as e:
      self.errors[f"kernel:{getattr(kernel, 'key', kernel)}"] = str(e)
      return None

  def _get_kernel(self, kernel, coqname=None):
    pyf = kernel.func
    pyqual = f"{pyf.__module__}.{pyf.__qualname__}"
    key = ("K", pyqual, coqname)
    if key in self.funcs:
      return self.funcs[key]
    sig = inspect.signature(pyf)
    names = list(sig.parameters)
    ann = dict(getattr(pyf, "__annotations__", {}))
    decl = []
    for n in names:
      a = ann.get(n)
      if isinstance(a, str):
        a = eval(a, pyf.__globals__)
      if a is None:
        raise TranslateError(f"{pyqual}: kernel parameter {n} has no annotation")
      decl.append(wp_type_to_t(a))
    src = textwrap.dedent(inspect.getsource(pyf))
    fdef = ast.parse(src).body[0]
    fn = _KernelTr(self, pyf, names, decl, pyqual)
    body, rett = fn.run(fdef)
    tids = [f"tid{i}" for i in range(fn.ntid)]
    cn = coqname or ("k_" + pyf.__name__)
    fi = FuncInfo(cn, tids + names + ["atomic_old"], [Z] * fn.ntid + decl + [("O",)], ("W",), body, pyqual, fn.deps, fn.shape_params)
    fi.notes = fn.notes
    fi.ntid = fn.ntid
    fi.written = sorted(fn.written)
    self.funcs[key] = fi
    self.order.append(key)
    return fi

  def emit(self, path, header=""):
    out = [
      "(* GENERATED by /verif/bin/translate.py from /repo -- do not edit *)",
      "From Coq Require Import ZArith List Bool String.",
      "From VF Require Import Base.Scalar Base.Vec Base.Loop Base.Kernel Base.KernelRd.",
      "Import ListNotations.",
      "Local Open Scope Z_scope.",
      header,
      "Section Gen.",
      "Context {S : Type} `{Scalar S}.",
      "",
    ]
    for key in self.order:
      fi = self.funcs[key]
      args = " ".join(f"({cname(a)} : {coq_type(t)})" for a, t in zip(fi.argnames, fi.argtypes))
      args += "".join(f" ({cname(r)}__shape{k} : Z)" for r, k in fi.shape_params)
      out.append(f"(* {fi.pyqual} *)")
      out.append(f"Definition {fi.coqname} {args} : {coq_type(fi.rettype)} :=\n{fi.body}.\n")
    out.append("End Gen.")
    text = "\n".join(out) + "\n"
    if path is not None:
      import vlib

      vlib.write_if_changed(path, text)
    return text

  def signatures(self):
    return {
      fi.coqname: {"py": fi.pyqual, "args": list(zip(fi.argnames, fi.argtypes)), "ret": fi.rettype, "shape_params": list(fi.shape_params)}
      for fi in (self.funcs[k] for k in self.order)
    }

  # -- function level ---------------------------------------------------------
  def _get(self, wpfunc, argtypes=None):
    if not isinstance(wpfunc, wp.Function) and not hasattr(wpfunc, "func"):
      raise TranslateError(f"not a wp.func: {wpfunc!r}")
    pyf = wpfunc.func
    pyqual = f"{pyf.__module__}.{pyf.__qualname__}"
    sig = inspect.signature(pyf)
    names = list(sig.parameters)
    ann = dict(getattr(pyf, "__annotations__", {}))
    decl = []
    for i, n in enumerate(names):
      a = ann.get(n, None)
      generic = a is None or _is_any(a)
      if generic:
        if argtypes is None:
          raise TranslateError(f"{pyqual}: generic parameter {n} needs call-site types")
        decl.append(argtypes[i])
      else:
        if isinstance(a, str):
          a = eval(a, pyf.__globals__)
        decl.append(wp_type_to_t(a))
    key = (pyqual, tuple(decl))
    if key in self.funcs:
      return self.funcs[key]
    if key in self.in_progress:
      raise TranslateError(f"recursion in {pyqual}")
    self.in_progress.add(key)
    try:
      src = textwrap.dedent(inspect.getsource(pyf))
      tree = ast.parse(src)
      fdef = tree.body[0]
      base = pyf.__name__
      mono = any((ann.get(n) is None or _is_any(ann.get(n))) for n in names)
      coqname = base + ("__" + "_".join(self._tname(t) for t in decl) if mono else "")
      if any(f.coqname == coqname for f in self.funcs.values()):
        coqname = pyf.__module__.split(".")[-1] + "__" + coqname
      fn = _FnTr(self, pyf, names, decl, pyqual)
      body, rett = fn.run(fdef)
      fi = FuncInfo(coqname, names, decl, rett, body, pyqual, fn.deps, fn.shape_params)
      self.funcs[key] = fi
      self.order.append(key)
      return fi
    finally:
      self.in_progress.discard(key)

  def _get_proc(self, wpfunc):
    """A wp.func WITHOUT return value that writes arrays ("procedure"): translated like a kernel body into
    `p_<name> params.. atomic_old shapes.. : list (write S)`, the writes it performs in program order, named
    by its own parameters (the caller rebases them onto its arrays, see Base/KernelRd.v rebase)."""
    pyf = wpfunc.func
    pyqual = f"{pyf.__module__}.{pyf.__qualname__}"
    key = ("P", pyqual)
    if key in self.funcs:
      return self.funcs[key]
    if key in self.in_progress:
      raise TranslateError(f"recursion in {pyqual}")
    sig = inspect.signature(pyf)
    # a returned value is dropped: procedures are only reached through call STATEMENTS
    names = list(sig.parameters)
    ann = dict(getattr(pyf, "__annotations__", {}))
    decl = []
    for n in names:
      a = ann.get(n)
      if isinstance(a, str):
        a = eval(a, pyf.__globals__)
      if a is None or _is_any(a):
        raise TranslateError(f"{pyqual}: procedure parameter {n} is generic")
      decl.append(wp_type_to_t(a))
    self.in_progress.add(key)
    try:
      src = textwrap.dedent(inspect.getsource(pyf))
      fdef = ast.parse(src).body[0]
      fn = _KernelTr(self, pyf, names, decl, pyqual)
      fn.proc_mode = True
      body, rett = fn.run(fdef)
      if fn.ntid:
        raise TranslateError(f"{pyqual}: wp.tid() inside a procedure")
      if fn.natomic:
        raise TranslateError(f"{pyqual}: value-returning atomic inside a procedure")
      cn = "p_" + pyf.__name__
      if any(f.coqname == cn for f in self.funcs.values()):
        cn = "p_" + pyf.__module__.split(".")[-1] + "__" + pyf.__name__
      fi = FuncInfo(cn, names + ["atomic_old"], decl + [("O",)], ("W",), body, pyqual, fn.deps, fn.shape_params)
      fi.notes = fn.notes
      fi.ntid = 0
      fi.written = sorted(fn.written)
      self.funcs[key] = fi
      self.order.append(key)
      return fi
    finally:
      self.in_progress.discard(key)

  @staticmethod
  def _tname(t):
    return "".join(str(x) for x in t).replace("(", "").replace(")", "").replace(",", "").replace(" ", "").replace("'", "")


class _Ret(Exception):
  pass


def _contains(stmts, kinds, into_loops=False):
  for s in stmts:
    if isinstance(s, kinds):
      return True
    if isinstance(s, ast.If) and (_contains(s.body, kinds, into_loops) or _contains(s.orelse, kinds, into_loops)):
      return True
    if into_loops and isinstance(s, (ast.For, ast.While)) and _contains(s.body, kinds, True):
      return True
  return False


def _assign_flag(name, val, ln):
  return ast.Assign(targets=[ast.Name(id=name, ctx=ast.Store())], value=ast.Constant(value=val), lineno=ln)


def _not_flags(names):
  test = ast.Name(id=names[0], ctx=ast.Load())
  for n in names[1:]:
    test = ast.BoolOp(op=ast.Or(), values=[test, ast.Name(id=n, ctx=ast.Load())])
  return ast.UnaryOp(op=ast.Not(), operand=test)


def _default_ast(ann):
  """A constant expression of the annotated return type (bool/int/float/wp.vecN/wp.quat/Tuple of those)."""
  if ann is None:
    return None
  t = ast.unparse(ann)
  if t == "bool":
    return ast.Constant(value=False)
  if t in ("int", "wp.int32"):
    return ast.Constant(value=0)
  if t in ("float", "wp.float32"):
    return ast.Constant(value=0.0)
  m = re.match(r"^wp\.(vec([234])|quat)$", t)
  if m:
    n = int(m.group(2)) if m.group(2) else 4
    return ast.parse(f"{t}({', '.join(['0.0'] * n)})", mode="eval").body
  if isinstance(ann, ast.Subscript) and ast.unparse(ann.value) in ("Tuple", "tuple", "typing.Tuple"):
    elts = ann.slice.elts if isinstance(ann.slice, ast.Tuple) else [ann.slice]
    ds = [_default_ast(e) for e in elts]
    if any(d is None for d in ds):
      return None
    return ast.Tuple(elts=ds, ctx=ast.Load())
  return None


class _LoopFlags:
  """Rewrite loops so that break / continue / (bare or valued) return inside them become flag
  assignments; statements after a possible exit are guarded.  Semantics preserving: the fold
  simply does nothing for the remaining iterations."""

  def __init__(self, kernel_mode):
    self.n = 0
    self.kernel_mode = kernel_mode
    self.ret_flag = None  # name of the function-level return flag if a loop contains return

  def block(self, stmts, brk=None, cnt=None, ret=None):
    """Rewrite a statement list inside a loop body (brk/cnt/ret are flag names or None)."""
    out = []
    for i, s in enumerate(stmts):
      ln = getattr(s, "lineno", 0)
      if isinstance(s, ast.Break):
        out.append(_assign_flag(brk, True, ln))
        return out
      if isinstance(s, ast.Continue):
        out.append(_assign_flag(cnt, True, ln))
        return out
      if isinstance(s, ast.Return) and ret is not None:
        if s.value is not None and not self.kernel_mode:
          out.append(ast.Assign(targets=[ast.Name(id="retval__", ctx=ast.Store())], value=s.value, lineno=ln))
        out.append(_assign_flag(ret, True, ln))
        if brk is not None:
          out.append(_assign_flag(brk, True, ln))
        return out
      if isinstance(s, ast.If):
        kinds = (ast.Break, ast.Continue) + ((ast.Return,) if ret is not None else ())
        exits = _contains([s], kinds)
        s2 = ast.If(test=s.test, body=self.block(s.body, brk, cnt, ret) or [ast.Pass()], orelse=self.block(s.orelse, brk, cnt, ret), lineno=ln)
        out.append(s2)
        if exits and i + 1 < len(stmts):
          flags = [f for f in (brk, cnt, ret) if f is not None]
          rest = self.block(stmts[i + 1 :], brk, cnt, ret)
          out.append(ast.If(test=_not_flags(flags), body=rest or [ast.Pass()], orelse=[], lineno=ln))
          return out
        continue
      if isinstance(s, (ast.For, ast.While)):
        out.extend(self.loop(s, ret))
        if ret is not None and _contains(s.body, (ast.Return,), True) and i + 1 < len(stmts):
          flags = [f for f in (brk, cnt, ret) if f is not None]
          rest = self.block(stmts[i + 1 :], brk, cnt, ret)
          out.append(ast.If(test=_not_flags([ret] if ret else flags), body=rest or [ast.Pass()], orelse=[], lineno=ln))
          return out
        continue
      out.append(s)
    return out

  def loop(self, s, outer_ret):
    """Rewrite one loop; returns [flag inits..., loop]."""
    ln = s.lineno
    has_b = _contains(s.body, (ast.Break,))
    has_c = _contains(s.body, (ast.Continue,))
    has_r = _contains(s.body, (ast.Return,), True)
    self.n += 1
    brk = f"brk__{self.n}" if (has_b or has_r) else None
    cnt = f"cnt__{self.n}" if has_c else None
    ret = outer_ret
    if has_r and ret is None:
      ret = "ret__"
      self.ret_flag = ret
    pre = []
    if brk:
      pre.append(_assign_flag(brk, False, ln))
    body = []
    if cnt:
      body.append(_assign_flag(cnt, False, ln))
    inner = self.block(s.body, brk, cnt, ret if has_r else None)
    if brk:
      body.append(ast.If(test=_not_flags([brk]), body=inner or [ast.Pass()], orelse=[], lineno=ln))
    else:
      body.extend(inner)
    if isinstance(s, ast.For):
      new = ast.For(target=s.target, iter=s.iter, body=body, orelse=[], lineno=ln)
    else:
      test = s.test if not brk else ast.BoolOp(op=ast.And(), values=[ast.UnaryOp(op=ast.Not(), operand=ast.Name(id=brk, ctx=ast.Load())), s.test])
      new = ast.While(test=test, body=body, orelse=[], lineno=ln)
    return pre + [new]

  def function(self, stmts):
    """Top level of a function body: loops with returns get a function-level flag."""
    out = []
    for i, s in enumerate(stmts):
      ln = getattr(s, "lineno", 0)
      if isinstance(s, (ast.For, ast.While)):
        has_r = _contains(s.body, (ast.Return,), True)
        new = self.loop(s, None)
        if has_r:
          out.append(_assign_flag("ret__", False, ln))
          out.extend(new)
          rest = self.function(stmts[i + 1 :])
          if self.kernel_mode:
            out.append(ast.If(test=ast.Name(id="ret__", ctx=ast.Load()), body=[ast.Return(value=None, lineno=ln)], orelse=rest or [ast.Pass()], lineno=ln))
          else:
            out.append(ast.If(test=ast.Name(id="ret__", ctx=ast.Load()), body=[ast.Return(value=ast.Name(id="retval__", ctx=ast.Load()), lineno=ln)], orelse=rest or [ast.Pass()], lineno=ln))
          return out
        out.extend(new)
      elif isinstance(s, ast.If):
        out.append(ast.If(test=s.test, body=self.function(s.body) or [ast.Pass()], orelse=self.function(s.orelse), lineno=ln))
      else:
        out.append(s)
    return out


class _FnTr:
  """Translate one function body."""

  def __init__(self, tr, pyf, names, types_, pyqual):
    self.tr, self.pyf, self.pyqual = tr, pyf, pyqual
    self.globals = pyf.__globals__
    self.closure = {}
    if pyf.__closure__:
      for n, c in zip(pyf.__code__.co_freevars, pyf.__closure__):
        try:
          self.closure[n] = c.cell_contents
        except ValueError:
          pass
    self.env0 = dict(zip(names, types_))
    self.rettype = None
    self.deps = []
    self.tmp = 0
    self.shape_params = []  # (array param, dim) used as p.shape[dim]

  def err(self, node, msg):
    raise TranslateError(f"{self.pyqual}:{getattr(node, 'lineno', '?')}: {msg}")

  def shape_param(self, name, k, env):
    """Name of the integer parameter standing for <root array>.shape[k + consumed dims]."""
    al = env.get("@alias", {})
    root, consumed = (al[name][0], len(al[name][1])) if name in al else (name, 0)
    key = (root, k + consumed)
    if key not in self.shape_params:
      self.shape_params.append(key)
    return f"{cname(root)}__shape{k + consumed}"

  def prepass(self, body, kernel_mode, returns=None):
    lf = _LoopFlags(kernel_mode)
    body = lf.function(body)
    if lf.ret_flag and not kernel_mode:
      # the value returned from inside a loop is carried in retval__, which needs a typed initial
      # value (never observed: it is read only under ret__) - taken from the return annotation
      dflt = _default_ast(returns)
      if dflt is None:
        self.err(body[0], "valued return inside a loop (needs a typed default)")
      body = [ast.Assign(targets=[ast.Name(id="retval__", ctx=ast.Store())], value=dflt, lineno=getattr(body[0], "lineno", 0))] + body
    for st in body:
      ast.fix_missing_locations(st)
    return body

  def run(self, fdef):
    body = [s for s in fdef.body if not (isinstance(s, ast.Expr) and isinstance(getattr(s, "value", None), ast.Constant))]
    body = self.prepass(body, False, fdef.returns)
    code = self.block(body, dict(self.env0), None, 1)
    return code, self.rettype

  # -- static evaluation ------------------------------------------------------
  def static_value(self, node, env):
    """Try to evaluate a closed Python expression (module constants, enums)."""
    names = {n.id for n in ast.walk(node) if isinstance(n, ast.Name)}
    if any(n in env for n in names):
      raise _Ret()
    try:
      code = compile(ast.Expression(body=node), "<static>", "eval")
      g = dict(self.globals)
      g.update(self.closure)
      return eval(code, g)
    except Exception:
      raise _Ret()

  def try_static(self, node, env):
    try:
      return True, self.static_value(node, env)
    except _Ret:
      return False, None

  def const_to_coq(self, v, node):
    import enum

    if isinstance(v, enum.Enum):
      v = v.value
    if isinstance(v, bool):
      return ("true" if v else "false"), B
    if isinstance(v, int):
      return f"({v})%Z", Z
    if isinstance(v, float):
      if v != v or v in (float("inf"), float("-inf")):
        self.err(node, "non-finite constant")
      import math as _m

      if v == _m.pi:
        return "spi", S
      return lit_float(v), S
    if hasattr(v, "_shape_") or hasattr(v, "_length_"):
      try:
        vals = [float(x) for x in v]
        return "[" + "; ".join(lit_float(x) for x in vals) + "]", V(len(vals))
      except Exception:
        pass
    self.err(node, f"unsupported constant {v!r}")

  # -- statements -------------------------------------------------------------
  def returns(self, stmts):
    """'never' | 'always' | 'maybe'"""
    for s in stmts:
      if isinstance(s, ast.Return):
        return "always"
      if isinstance(s, ast.If):
        a, b = self.returns(s.body), self.returns(s.orelse)
        if a == "always" and b == "always":
          return "always"
        if a != "never" or b != "never":
          rest = self.returns(stmts[stmts.index(s) + 1 :])
          return "always" if rest == "always" else "maybe"
      if isinstance(s, (ast.For, ast.While)):
        if self.returns(s.body) != "never":
          return "maybe"
    return "never"

  def assigned(self, stmts):
    out = []

    def add(t):
      if isinstance(t, ast.Name):
        if t.id not in out:
          out.append(t.id)
      elif isinstance(t, (ast.Tuple, ast.List)):
        for e in t.elts:
          add(e)
      elif isinstance(t, ast.Subscript):
        add(t.value)
      elif isinstance(t, ast.Attribute):
        add(t.value)

    for s in stmts:
      if isinstance(s, ast.Assign):
        for t in s.targets:
          add(t)
      elif isinstance(s, (ast.AugAssign, ast.AnnAssign)):
        add(s.target)
      elif isinstance(s, ast.If):
        for n in self.assigned(s.body) + self.assigned(s.orelse):
          if n not in out:
            out.append(n)
      elif isinstance(s, (ast.For, ast.While)):
        for n in self.assigned(s.body):
          if n not in out:
            out.append(n)
    return out

  def ind(self, d):
    return "  " * d

  # tuples of carried / merged variables: right-nested pairs bound through projections
  # (deep `let '(a,b,c,..)` patterns elaborate very slowly in Coq)
  def tup_expr(self, names):
    names = [cname(n) for n in names]
    if len(names) == 1:
      return names[0]
    out = names[-1]
    for n in reversed(names[:-1]):
      out = f"({n}, {out})"
    return out

  def tup_bind(self, names, src, I):
    names = [cname(n) for n in names]
    if len(names) == 1:
      return f"{I}let {names[0]} := {src} in\n"
    self.tmp += 1
    p = f"p__{self.tmp}"
    code = f"{I}let {p} := {src} in\n"
    path = p
    for i, n in enumerate(names):
      if i < len(names) - 1:
        code += f"{I}let {n} := fst {path} in\n"
        path = f"(snd {path})"
      else:
        code += f"{I}let {n} := {path[1:-1] if path.startswith('(') else path} in\n"
    return code

  def block(self, stmts, env, k, d):
    """Translate stmts; k(env, depth) gives the continuation code (None => must return)."""
    if not stmts:
      if k is None:
        raise TranslateError(f"{self.pyqual}: control reaches end of function without return")
      return k(env, d)
    s, rest = stmts[0], stmts[1:]
    I = self.ind(d)

    def cont(env2, d2=d):
      return self.block(rest, env2, k, d2)

    if isinstance(s, ast.Return):
      if s.value is None:
        self.err(s, "bare return")
      code, t = self.expr(s.value, env)
      if self.rettype is None:
        self.rettype = t
      elif self.rettype != t:
        if is_vec(self.rettype) and is_vec(t) and vlen(self.rettype) == vlen(t):
          pass
        else:
          self.err(s, f"return type mismatch {self.rettype} vs {t}")
      return I + code
    if isinstance(s, ast.Pass):
      return cont(env)
    if isinstance(s, ast.Expr):
      if isinstance(s.value, ast.Constant):
        return cont(env)
      self.err(s, "expression statement (side effect?)")
    if isinstance(s, ast.AnnAssign):
      s = ast.Assign(targets=[s.target], value=s.value, lineno=s.lineno)
    if isinstance(s, ast.Assign):
      if len(s.targets) != 1:
        self.err(s, "chained assignment")
      return self.assign(s.targets[0], s.value, env, cont, d, s)
    if isinstance(s, ast.AugAssign):
      val = ast.BinOp(left=self._load(s.target), op=s.op, right=s.value, lineno=s.lineno)
      return self.assign(s.target, val, env, cont, d, s)
    if isinstance(s, ast.If):
      return self.if_stmt(s, rest, env, k, d)
    if isinstance(s, ast.For):
      return self.for_stmt(s, rest, env, k, d)
    if isinstance(s, ast.While):
      return self.while_stmt(s, rest, env, k, d)
    self.err(s, f"unsupported statement {type(s).__name__}")

  def _load(self, t):
    import copy

    t2 = copy.deepcopy(t)
    for n in ast.walk(t2):
      if hasattr(n, "ctx"):
        n.ctx = ast.Load()
    return t2

  def assign(self, target, value, env, cont, d, node):
    I = self.ind(d)
    if isinstance(target, ast.Name):
      code, t = self.expr(value, env)
      env2 = dict(env)
      env2[target.id] = t
      return f"{I}let {cname(target.id)} := {code} in\n" + cont(env2)
    if isinstance(target, (ast.Tuple, ast.List)):
      # a, b = e1, e2   or   a, b = f(x)
      names = []
      for e in target.elts:
        if not isinstance(e, ast.Name):
          self.err(node, "tuple target must be names")
        names.append(e.id)
      if isinstance(value, ast.Tuple):
        codes = [self.expr(v, env) for v in value.elts]
        if len(codes) != len(names):
          self.err(node, "tuple arity")
        env2 = dict(env)
        pat = ", ".join("_" if n == "_" else cname(n) for n in names)
        for n, (_, t) in zip(names, codes):
          env2[n] = t
        return f"{I}let '({pat}) := ({', '.join(c for c, _ in codes)}) in\n" + cont(env2)
      code, t = self.expr(value, env)
      if t[0] != "T" or len(t[1]) != len(names):
        self.err(node, f"cannot destructure {t}")
      env2 = dict(env)
      for n, ti in zip(names, t[1]):
        env2[n] = ti
      pat = ", ".join("_" if n == "_" else cname(n) for n in names)
      return f"{I}let '({pat}) := {code} in\n" + cont(env2)
    if isinstance(target, ast.Subscript) and isinstance(target.value, ast.Name):
      vn = target.value.id
      if vn not in env:
        self.err(node, f"element assignment to unknown {vn}")
      vt = env[vn]
      code, t = self.expr(value, env)
      if is_vec(vt):
        ic, it = self.expr(target.slice, env)
        if it != Z or t != S:
          self.err(node, "vector element assignment types")
        return f"{I}let {cname(vn)} := vset {cname(vn)} {ic} {code} in\n" + cont(env)
      if vt[0] == "M" and isinstance(target.slice, ast.Tuple) and len(target.slice.elts) == 2:
        rc, rt = self.expr(target.slice.elts[0], env)
        cc, ct = self.expr(target.slice.elts[1], env)
        if rt != Z or ct != Z or t != S:
          self.err(node, "matrix element assignment types")
        return f"{I}let {cname(vn)} := mset {vt[2]} {cname(vn)} {rc} {cc} {code} in\n" + cont(env)
      self.err(node, f"array write / unsupported element assignment on {vt}")
    if isinstance(target, ast.Attribute) and isinstance(target.value, ast.Name) and target.attr in "xyzw":
      vn = target.value.id
      code, t = self.expr(value, env)
      if vn in env and is_vec(env[vn]) and t == S:
        return f"{I}let {cname(vn)} := vset {cname(vn)} {'xyzw'.index(target.attr)} {code} in\n" + cont(env)
    self.err(node, "unsupported assignment target")

  def if_stmt(self, s, rest, env, k, d):
    I = self.ind(d)
    ok, cv = self.try_static(s.test, env)
    if ok and isinstance(cv, (bool, int)):
      return self.block((s.body if cv else s.orelse) + rest, env, k, d)
    cc, ct = self.expr(s.test, env)
    cc, ct = self.truthy(cc, ct, s), B
    ra, rb = self.returns(s.body), self.returns(s.orelse)
    if ra == "never" and rb == "never":
      names = self.assigned(s.body + s.orelse)
      # translate both branches to discover types of assigned vars
      envs = []

      def capture(e, dd):
        envs.append(e)
        return "@@TUPLE@@"

      ca = self.block(s.body, dict(env), capture, d + 1)
      cb = self.block(s.orelse, dict(env), capture, d + 1)
      ea, eb = envs[0], envs[1]
      live = [n for n in names if n in ea and n in eb]
      for n in live:
        if ea[n] != eb[n]:
          if is_vec(ea[n]) and is_vec(eb[n]) and vlen(ea[n]) == vlen(eb[n]):
            continue
          self.err(s, f"variable {n} has different types in branches: {ea[n]} vs {eb[n]}")
      env2 = dict(env)
      for n in live:
        env2[n] = ea[n]
      if not live:
        return self.block(rest, env2, k, d)
      tup = self.tup_expr(live)
      II = self.ind(d + 1)
      ca = ca.replace("@@TUPLE@@", II + tup)
      cb = cb.replace("@@TUPLE@@", II + tup)
      src = f"(\n{I}  if {cc} then\n{ca}\n{I}  else\n{cb})"
      return self.tup_bind(live, src, I) + self.block(rest, env2, k, d)

    # some branch returns: push the continuation into the branches
    def kk(e, dd):
      return self.block(rest, e, k, dd)

    ca = self.block(s.body, dict(env), kk, d + 1)
    cb = self.block(s.orelse, dict(env), kk, d + 1)
    return f"{I}if {cc} then\n{ca}\n{I}else\n{cb}"

  def for_stmt(self, s, rest, env, k, d):
    I = self.ind(d)
    if s.orelse:
      self.err(s, "for-else")
    if not (isinstance(s.iter, ast.Call) and isinstance(s.iter.func, ast.Name) and s.iter.func.id == "range"):
      self.err(s, "for over non-range")
    if not isinstance(s.target, ast.Name):
      self.err(s, "for target")
    if self.returns(s.body) != "never":
      self.err(s, "return inside for loop")
    args = s.iter.args
    statics = [self.try_static(a, env) for a in args]
    if all(ok for ok, _ in statics):
      vals = [v for _, v in statics]
      rng = list(range(*[int(v) for v in vals]))
      if len(rng) > 32:
        self.err(s, "static loop too long")
      stmts = []
      for i in rng:
        stmts.append(ast.Assign(targets=[ast.Name(id=s.target.id, ctx=ast.Store())], value=ast.Constant(value=i), lineno=s.lineno))
        stmts.extend(s.body)
      return self.block(stmts + rest, env, k, d)
    # dynamic range: fold over loop-carried variables
    if len(args) == 1:
      lo, hi = "0", self.expr(args[0], env)
    elif len(args) == 2:
      lo, hi = self.expr(args[0], env), self.expr(args[1], env)
      if lo[1] != Z:
        self.err(s, "range bound type")
      lo = lo[0]
    else:
      self.err(s, "range with step")
    if hi[1] != Z:
      self.err(s, "range bound type")
    carried = [n for n in self.assigned(s.body) if n in env and n != s.target.id]
    if not carried:
      self.err(s, "loop without carried variables")
    tup = self.tup_expr(carried)
    env_b = dict(env)
    env_b[s.target.id] = Z

    def kend(e, dd):
      for n in carried:
        if e[n] != env[n]:
          raise TranslateError(f"{self.pyqual}:{s.lineno}: loop-carried {n} changes type")
      return self.ind(dd) + tup

    body = self.block(s.body, env_b, kend, d + 2)
    iv = cname(s.target.id)
    src = f"(for_range {lo} {hi[0]} {tup} (fun {iv} acc__ =>\n" + self.tup_bind(carried, "acc__", I + "    ") + f"{body}))"
    return self.tup_bind(carried, src, I) + self.block(rest, env, k, d)

  def while_stmt(self, s, rest, env, k, d):
    """while c: body  ->  while_fuel WHILE_FUEL (fun vars => c) (fun vars => body) vars.
    Exhausting the fuel returns the current variables (theorems must bound the iteration count)."""
    I = self.ind(d)
    if s.orelse:
      self.err(s, "while-else")
    if self.returns(s.body) != "never":
      self.err(s, "return inside while loop")
    carried = [n for n in self.assigned(s.body) if n in env]
    if not carried:
      self.err(s, "while loop without carried variables")
    tup = self.tup_expr(carried)
    cc, ct = self.expr(s.test, env)
    cc = self.truthy(cc, ct, s)

    def kend(e, dd):
      for n in carried:
        if e[n] != env[n]:
          raise TranslateError(f"{self.pyqual}:{s.lineno}: loop-carried {n} changes type")
      return self.ind(dd) + tup

    body = self.block(s.body, dict(env), kend, d + 2)
    src = (
      "(while_fuel WHILE_FUEL (fun acc__ =>\n" + self.tup_bind(carried, "acc__", I + "    ") + f"{I}    {cc})\n"
      f"{I}    (fun acc__ =>\n" + self.tup_bind(carried, "acc__", I + "    ") + f"{body}) {tup})"
    )
    return self.tup_bind(carried, src, I) + self.block(rest, env, k, d)

  # -- expressions ------------------------------------------------------------
  def expr(self, e, env):
    m = getattr(self, "e_" + type(e).__name__, None)
    if m is None:
      self.err(e, f"unsupported expression {type(e).__name__}")
    return m(e, env)

  def e_Constant(self, e, env):
    v = e.value
    if isinstance(v, bool):
      return ("true" if v else "false"), B
    if isinstance(v, int):
      return f"({v})%Z", Z
    if isinstance(v, float):
      seg = None
      return lit_float(v, seg), S
    self.err(e, f"constant {v!r}")

  def e_Name(self, e, env):
    if e.id in env:
      return cname(e.id), env[e.id]
    ok, v = self.try_static(e, env)
    if ok:
      return self.const_to_coq(v, e)
    self.err(e, f"unknown name {e.id}")

  def e_Attribute(self, e, env):
    if e.attr in ("x", "y", "z", "w") and isinstance(e.value, (ast.Name, ast.Subscript, ast.Call)):
      try:
        code, t = self.expr(e.value, env)
      except TranslateError:
        code, t = None, None
      if t is not None and is_vec(t):
        return f"(vget {code} {'xyzw'.index(e.attr)})", S
      if t is not None and t[0] == "VI":
        return f"(zget {code} {'xyzw'.index(e.attr)})", Z
    ok, v = self.try_static(e, env)
    if ok:
      return self.const_to_coq(v, e)
    self.err(e, f"attribute {ast.unparse(e)}")

  def e_Tuple(self, e, env):
    cs = [self.expr(x, env) for x in e.elts]
    return "(" + ", ".join(c for c, _ in cs) + ")", T([t for _, t in cs])

  def e_UnaryOp(self, e, env):
    c, t = self.expr(e.operand, env)
    if isinstance(e.op, ast.USub):
      if t == S:
        return f"(sneg {c})", S
      if t == Z:
        return f"(- {c})", Z
      if is_vec(t) or t[0] == "M":
        return f"(vneg {c})", t
    if isinstance(e.op, ast.Not):
      return f"(negb {self.truthy(c, t, e)})", B
    if isinstance(e.op, ast.UAdd):
      return c, t
    self.err(e, "unary op")

  def truthy(self, c, t, node):
    if t == B:
      return c
    if t == Z:
      return f"(Zneb {c} 0)"
    if t == S:
      return f"(sneb {c} s0)"
    self.err(node, f"value of type {t} used as a condition")

  def e_BoolOp(self, e, env):
    cs = [self.expr(x, env) for x in e.values]
    cs = [(self.truthy(c, t, e), B) for c, t in cs]
    if any(t != B for _, t in cs):
      self.err(e, "bool op on non-bool")
    op = " && " if isinstance(e.op, ast.And) else " || "
    return "(" + op.join(c for c, _ in cs) + ")", B

  def e_Compare(self, e, env):
    parts = []
    left = e.left
    for op, right in zip(e.ops, e.comparators):
      lc, lt = self.expr(left, env)
      rc, rt = self.expr(right, env)
      lc, lt, rc, rt = self.coerce(lc, lt, rc, rt, left, right)
      if lt == S and rt == S:
        parts.append(f"({CMP_S[type(op)]} {lc} {rc})")
      elif lt == Z and rt == Z:
        parts.append(f"({CMP_Z[type(op)]} {lc} {rc})")
      elif lt == B and rt == B and isinstance(op, (ast.Eq, ast.NotEq)):
        parts.append(f"(Bool.eqb {lc} {rc})" if isinstance(op, ast.Eq) else f"(negb (Bool.eqb {lc} {rc}))")
      else:
        self.err(e, f"compare {lt} with {rt}")
      left = right
    return (parts[0] if len(parts) == 1 else "(" + " && ".join(parts) + ")"), B

  def coerce(self, lc, lt, rc, rt, ln, rn):
    """Warp lets an int *literal* meet a float."""
    if lt == S and rt == Z and self._is_int_literal(rn):
      return lc, lt, f"(sofZ {rc})", S
    if lt == Z and rt == S and self._is_int_literal(ln):
      return f"(sofZ {lc})", S, rc, rt
    return lc, lt, rc, rt

  def _is_int_literal(self, n):
    if isinstance(n, ast.Constant) and isinstance(n.value, int):
      return True
    if isinstance(n, ast.UnaryOp) and isinstance(n.op, ast.USub):
      return self._is_int_literal(n.operand)
    return False

  def e_IfExp(self, e, env):
    c, ct = self.expr(e.test, env)
    a, at = self.expr(e.body, env)
    b, bt = self.expr(e.orelse, env)
    if ct != B or at != bt:
      self.err(e, "conditional expression types")
    return f"(if {c} then {a} else {b})", at

  def e_BinOp(self, e, env):
    lc, lt = self.expr(e.left, env)
    rc, rt = self.expr(e.right, env)
    lc, lt, rc, rt = self.coerce(lc, lt, rc, rt, e.left, e.right)
    op = type(e.op)
    if lt == S and rt == S:
      f = {ast.Add: "sadd", ast.Sub: "ssub", ast.Mult: "smul", ast.Div: "sdiv", ast.Pow: "spow"}.get(op)
      if f:
        return f"({f} {lc} {rc})", S
    if lt == Z and rt == Z:
      f = {
        ast.Add: "Z.add", ast.Sub: "Z.sub", ast.Mult: "Z.mul", ast.FloorDiv: "Z.quot", ast.Mod: "Z.rem",
        ast.RShift: "Z.shiftr", ast.LShift: "Z.shiftl", ast.BitAnd: "Z.land", ast.BitOr: "Z.lor", ast.BitXor: "Z.lxor",
      }.get(op)  # fmt: skip
      if f:
        return f"({f} {lc} {rc})", Z
    if (is_vec(lt) or lt[0] == "M") and lt == rt or (is_vec(lt) and is_vec(rt) and vlen(lt) == vlen(rt)):
      f = {ast.Add: "vadd", ast.Sub: "vsub"}.get(op)
      if f:
        return f"({f} {lc} {rc})", lt
    if lt == S and (is_vec(rt) or rt[0] == "M") and op is ast.Mult:
      return f"(vscale {lc} {rc})", rt
    if (is_vec(lt) or lt[0] == "M") and rt == S and op is ast.Mult:
      return f"(vscaler {lc} {rc})", lt
    if (is_vec(lt) or lt[0] == "M") and rt == S and op is ast.Div:
      return f"(vdivs {lc} {rc})", lt
    if op is ast.MatMult or (op is ast.Mult and lt[0] == "M"):
      if lt[0] == "M" and rt[0] == "V" and lt[2] == rt[1]:
        return f"(mat_vec {lt[1]} {lt[2]} {lc} {rc})", V(lt[1])
      if lt[0] == "V" and rt[0] == "M" and lt[1] == rt[1]:
        return f"(vec_mat {rt[1]} {rt[2]} {lc} {rc})", V(rt[2])
      if lt[0] == "M" and rt[0] == "M" and lt[2] == rt[1]:
        return f"(mat_mat {lt[1]} {lt[2]} {rt[2]} {lc} {rc})", M(lt[1], rt[2])
    self.err(e, f"binary op {op.__name__} on {lt}, {rt}")

  def e_Subscript(self, e, env):
    # p.shape[k] of an array parameter / view -> a fresh integer parameter p__shape<k>
    if (
      isinstance(e.value, ast.Attribute)
      and e.value.attr == "shape"
      and isinstance(e.value.value, ast.Name)
      and e.value.value.id in env
      and env[e.value.value.id][0] == "A"
      and isinstance(e.slice, ast.Constant)
    ):
      return self.shape_param(e.value.value.id, int(e.slice.value), env), Z
    bc, bt = self.expr(e.value, env)
    idx = e.slice.elts if isinstance(e.slice, ast.Tuple) else [e.slice]
    ics = [self.expr(i, env) for i in idx]
    if any(t != Z for _, t in ics):
      self.err(e, "non-integer subscript")
    if bt[0] == "A":
      if len(ics) > bt[2]:
        self.err(e, "too many array indices")
      rest = bt[2] - len(ics)
      rt = bt[1] if rest == 0 else A(bt[1], rest)
      return "(" + bc + " " + " ".join(c for c, _ in ics) + ")", rt
    if is_vec(bt) and len(ics) == 1:
      return f"(vget {bc} {ics[0][0]})", S
    if bt[0] == "VI" and len(ics) == 1:
      return f"(zget {bc} {ics[0][0]})", Z
    if bt[0] == "M" and len(ics) == 2:
      return f"(mget {bt[2]} {bc} {ics[0][0]} {ics[1][0]})", S
    if bt[0] == "M" and len(ics) == 1:
      ok, v = self.try_static(idx[0], env)
      if ok:
        return f"(mrow {bt[2]} {bc} {int(v)})", V(bt[2])
      return f"(mrow {bt[2]} {bc} (Z.to_nat {ics[0][0]}))", V(bt[2])
    self.err(e, f"subscript on {bt}")

  # -- calls --------------------------------------------------------------------
  def resolve(self, fnode, env):
    """Return ('wp', name) | ('user', wp.Function) | ('py', obj)."""
    ok, v = self.try_static(fnode, env)
    if not ok:
      self.err(fnode, f"cannot resolve callee {ast.unparse(fnode)}")
    if isinstance(v, wp.Function) or (hasattr(v, "func") and hasattr(v, "key")):
      mod = getattr(getattr(v, "func", None), "__module__", "") or ""
      if v.func is not None and not mod.startswith("warp"):
        return "user", v
      return "wp", v.key
    if v in (float, int, bool):
      return "wp", v.__name__
    if hasattr(v, "_shape_") or hasattr(v, "_wp_generic_type_hint_"):
      return "ctor", v
    self.err(fnode, f"unsupported callee {ast.unparse(fnode)} = {v!r}")

  def e_Call(self, e, env):
    if e.keywords:
      if not (isinstance(e.func, ast.Attribute) and e.func.attr in ("static",)):
        self.err(e, "keyword arguments")
    # wp.static(expr): evaluate now
    if isinstance(e.func, ast.Attribute) and e.func.attr == "static" and len(e.args) == 1:
      ok, v = self.try_static(e.args[0], env)
      if not ok:
        self.err(e, "wp.static of non-closed expression")
      if callable(v):
        self.err(e, "wp.static function value")
      return self.const_to_coq(v, e)
    kind, f = self.resolve(e.func, env)
    args = [self.expr(a, env) for a in e.args]
    ac = [c for c, _ in args]
    at = [t for _, t in args]
    if kind == "user":
      fi = self.tr._get(f, at)
      want = list(fi.argtypes)
      if len(want) != len(at):
        self.err(e, f"arity of {fi.coqname}")
      for i, (w, g) in enumerate(zip(want, at)):
        if w != g:
          if is_vec(w) and is_vec(g) and vlen(w) == vlen(g):
            continue
          if w == S and g == Z and self._is_int_literal(e.args[i]):
            ac[i] = f"(sofZ {ac[i]})"
            continue
          self.err(e, f"argument {i} of {fi.coqname}: {g} for {w}")
      if fi.coqname not in self.deps:
        self.deps.append(fi.coqname)
      extra = []
      for r, kdim in fi.shape_params:
        pos = fi.argnames.index(r)
        an = e.args[pos]
        base = an
        nsub = 0
        while isinstance(base, ast.Subscript):
          nsub += len(base.slice.elts) if isinstance(base.slice, ast.Tuple) else 1
          base = base.value
        if not (isinstance(base, ast.Name) and base.id in env and env[base.id][0] == "A"):
          self.err(e, f"cannot pass the shape of argument {pos} of {fi.coqname}")
        extra.append(self.shape_param(base.id, kdim + nsub, env))
      return "(" + fi.coqname + " " + " ".join(ac + extra) + ")", fi.rettype
    if kind == "ctor":
      return self.ctor(f, e, ac, at)
    return self.builtin(f, e, ac, at)

  def ctor(self, tp, e, ac, at):
    t = wp_type_to_t(tp)
    if t[0] == "VI":
      if all(x == Z for x in at) and len(ac) == t[1]:
        return "[" + "; ".join(ac) + "]", t
      if len(ac) == 1 and at == [Z]:
        return f"(repeat {ac[0]} {t[1]})", t
      self.err(e, f"int-vector constructor with {at}")
    n = vlen(t) if is_vec(t) else t[1] * t[2]
    if not ac:
      return "(vconst " + str(n) + " s0)", t
    # int literals allowed in constructors
    ac = [f"(sofZ {c})" if tt == Z else c for c, tt in zip(ac, at)]
    at = [S if tt == Z else tt for tt in at]
    if all(x == S for x in at):
      if len(ac) == 1 and n > 1:
        return f"(vconst {n} {ac[0]})", t
      if len(ac) == n:
        return "[" + "; ".join(ac) + "]", t
    if all(is_vec(x) for x in at) and sum(vlen(x) for x in at) == n and t[0] != "M":
      return "(" + " ++ ".join(ac) + ")", t
    if len(at) == 1 and (is_vec(at[0]) and is_vec(t) and vlen(at[0]) == n):
      return ac[0], t
    self.err(e, f"constructor {tp.__name__} with {at}")

  def builtin(self, name, e, ac, at):
    n = name
    if n == "float":
      if at == [Z]:
        return f"(sofZ {ac[0]})", S
      if at == [S]:
        return ac[0], S
      if at == [B]:
        return f"(if {ac[0]} then s1 else s0)", S
    if n == "int":
      if at == [S]:
        return f"(strunc {ac[0]})", Z
      if at == [Z]:
        return ac[0], Z
      if at == [B]:
        return f"(if {ac[0]} then 1 else 0)", Z
    if n == "bool" and at == [B]:
      return ac[0], B
    if n == "ceil" and at == [S]:
      return f"(sneg (sfloor (sneg {ac[0]})))", S
    if n in UNARY_S and at == [S]:
      return f"({UNARY_S[n]} {ac[0]})", S
    if n == "abs" and at == [Z]:
      return f"(Z.abs {ac[0]})", Z
    if n in ("min", "max") and at == [S, S]:
      return f"(s{n} {ac[0]} {ac[1]})", S
    if n in ("min", "max") and len(at) == 2 and at[0] == at[1] and at[0][0] == "V":
      return f"(vmap2 s{n} {ac[0]} {ac[1]})", at[0]
    if n == "abs" and len(at) == 1 and at[0][0] == "V":
      return f"(map sabs {ac[0]})", at[0]
    if n == "round" and at == [S]:
      return f"(sfloor (sadd {ac[0]} (slit 1 2)))", S
    if n in ("min", "max") and at == [Z, Z]:
      return f"(Z.{n} {ac[0]} {ac[1]})", Z
    if n == "clamp" and at == [S, S, S]:
      return f"(sclamp {ac[0]} {ac[1]} {ac[2]})", S
    if n == "clamp" and at == [Z, Z, Z]:
      return f"(Z.min (Z.max {ac[0]} {ac[1]}) {ac[2]})", Z
    if n == "atan2" and at == [S, S]:
      return f"(satan2 {ac[0]} {ac[1]})", S
    if n == "pow" and at == [S, S]:
      return f"(spow {ac[0]} {ac[1]})", S
    if n in ("where", "select"):
      if len(at) == 3 and at[0] == B:
        a, b = (ac[1], ac[2]) if n == "where" else (ac[2], ac[1])
        ta, tb = (at[1], at[2])
        if ta != tb:
          if ta == S and tb == Z and self._is_int_literal(e.args[2]):
            b = f"(sofZ {b})"
          elif ta == Z and tb == S and self._is_int_literal(e.args[1]):
            a, ta = f"(sofZ {a})", S
          elif not (is_vec(ta) and is_vec(tb) and vlen(ta) == vlen(tb)):
            self.err(e, f"where branches {ta} vs {tb}")
        return f"(if {ac[0]} then {a} else {b})", ta
    if n == "dot" and len(at) == 2 and is_vec(at[0]) and is_vec(at[1]):
      return f"(vdot {ac[0]} {ac[1]})", S
    if n == "cross" and at == [V(3), V(3)]:
      return f"(vcross {ac[0]} {ac[1]})", V(3)
    if n in ("length", "norm_l2") and len(at) == 1 and is_vec(at[0]):
      return f"(vlen {ac[0]})", S
    if n == "length_sq" and len(at) == 1 and is_vec(at[0]):
      return f"(vlen_sq {ac[0]})", S
    if n == "normalize" and len(at) == 1 and at[0][0] == "V":
      return f"(vnormalize {ac[0]})", at[0]
    if n == "normalize" and at == [Q]:
      return f"(qnormalize {ac[0]})", Q
    if n == "transpose" and len(at) == 1 and at[0][0] == "M":
      return f"(mtranspose {at[0][1]} {at[0][2]} {ac[0]})", M(at[0][2], at[0][1])
    if n == "cw_mul" and len(at) == 2 and at[0] == at[1]:
      return f"(vmulc {ac[0]} {ac[1]})", at[0]
    if n == "cw_div" and len(at) == 2 and at[0] == at[1]:
      return f"(vdivc {ac[0]} {ac[1]})", at[0]
    if n == "outer" and len(at) == 2 and at[0][0] == "V" and at[1][0] == "V":
      return f"(vouter {ac[0]} {ac[1]})", M(at[0][1], at[1][1])
    if n == "spatial_top" and at == [V(6)]:
      return f"(firstn 3 {ac[0]})", V(3)
    if n == "spatial_bottom" and at == [V(6)]:
      return f"(skipn 3 {ac[0]})", V(3)
    if n == "trace" and len(at) == 1 and at[0][0] == "M":
      return f"(mtrace {at[0][1]} {ac[0]})", S
    if n == "determinant" and at == [M(3, 3)]:
      return f"(mdet3 {ac[0]})", S
    if n == "diag" and len(at) == 1 and at[0][0] == "V":
      return f"(mdiag {ac[0]})", M(at[0][1], at[0][1])
    if n == "matrix_from_rows" and all(t[0] == "V" for t in at) and len({t for t in at}) == 1:
      return "(" + " ++ ".join(ac) + ")", M(len(at), at[0][1])
    if n == "matrix_from_cols" and all(t[0] == "V" for t in at) and len({t for t in at}) == 1:
      r = at[0][1]
      return f"(mtranspose {len(at)} {r} (" + " ++ ".join(ac) + "))", M(r, len(at))
    if n in ("mul", "add", "sub"):
      pass
    self.err(e, f"unsupported builtin wp.{n} on {at}")


class _KernelTr(_FnTr):
  """Translate a kernel body into the list of array writes of one task."""

  def __init__(self, tr, pyf, names, types_, pyqual):
    super().__init__(tr, pyf, names, types_, pyqual)
    self.ntid = 0
    self.natomic = 0
    self.notes = []
    self.array_names = {n for n, t in zip(names, types_) if t[0] == "A"}
    self.written = set()
    self.env0["writes__"] = ("W",)
    self.env0["@alias"] = {}
    self.rettype = ("W",)

  def run(self, fdef):
    body = [s for s in fdef.body if not (isinstance(s, ast.Expr) and isinstance(getattr(s, "value", None), ast.Constant))]
    body = self.prepass(body, True)
    self.maybe_written = self._prescan_written(body)
    code = "  let writes__ := (@nil (write S)) in\n" + self.block(body, dict(self.env0), lambda e, d: self.ind(d) + "writes__", 1)
    return code, ("W",)

  def _prescan_written(self, body):
    """Array parameters this kernel may write (through row views too): reads of those must see
    the task's own earlier writes."""
    alias = {}
    out = set()

    def root(n):
      while isinstance(n, ast.Subscript):
        n = n.value
      if isinstance(n, ast.Name):
        return alias.get(n.id, n.id)
      return None

    for _ in range(2):
      for st in body:
        for n in ast.walk(st):
          if isinstance(n, ast.Assign) and len(n.targets) == 1 and isinstance(n.targets[0], ast.Name):
            r = root(n.value) if isinstance(n.value, (ast.Subscript, ast.Name)) else None
            if r in self.array_names:
              alias[n.targets[0].id] = r
          if isinstance(n, (ast.Assign, ast.AugAssign)):
            for t in n.targets if isinstance(n, ast.Assign) else [n.target]:
              if isinstance(t, ast.Subscript):
                r = root(t)
                if r in self.array_names:
                  out.add(r)
          if isinstance(n, ast.Call) and ast.unparse(n.func).startswith("wp.atomic_") and n.args:
            r = root(n.args[0])
            if r in self.array_names:
              out.add(r)
          if isinstance(n, ast.Expr) and isinstance(n.value, ast.Call) and not ast.unparse(n.value.func).startswith("wp."):
            # call statement of a (possibly writing) user function: every array handed to it may be written
            for a in n.value.args:
              r = root(a) if isinstance(a, (ast.Name, ast.Subscript)) else None
              if r in self.array_names:
                out.add(r)
    return out

  def e_Subscript(self, e, env):
    code, t = super().e_Subscript(e, env)
    if t[0] != "A" and getattr(self, "maybe_written", None):
      r = self.root_of(e, env) if not (isinstance(e.value, ast.Attribute)) else None
      if r is not None and r[0] in self.maybe_written:
        root, idxcodes = r
        f = {"S": "rdS", "Z": "rdZ", "B": "rdB", "VI": "rdZs"}.get(t[0], "rdV")
        return f'({f} writes__ "{root}"%string [{"; ".join(idxcodes)}] {code})', t
    return code, t

  # arrays written anywhere inside stmts (so that writes__ is treated as assigned)
  def _has_write(self, stmts):
    for s in stmts:
      for n in ast.walk(s):
        if isinstance(n, (ast.Assign, ast.AugAssign)):
          ts = n.targets if isinstance(n, ast.Assign) else [n.target]
          for t in ts:
            if isinstance(t, ast.Subscript):
              return True
        if isinstance(n, ast.Call) and ast.unparse(n.func).startswith("wp.atomic_"):
          return True
        if isinstance(n, ast.Expr) and isinstance(n.value, ast.Call) and not ast.unparse(n.value.func).startswith("wp."):
          return True
    return False

  def assigned(self, stmts):
    out = [n for n in super().assigned(stmts) if n not in self.array_names]
    if self._has_write(stmts) and "writes__" not in out:
      out.append("writes__")
    return out

  def returns(self, stmts):
    return super().returns(stmts)

  def root_of(self, node, env):
    """(root array param, [index codes so far]) for a Name/Subscript chain that denotes an array or a view."""
    idx = []
    cur = node
    while isinstance(cur, ast.Subscript):
      sl = cur.slice.elts if isinstance(cur.slice, ast.Tuple) else [cur.slice]
      idx = list(sl) + idx
      cur = cur.value
    if not isinstance(cur, ast.Name):
      return None
    name = cur.id
    al = env.get("@alias", {})
    if name in al:
      root, pre = al[name]
    elif name in self.array_names:
      root, pre = name, []
    else:
      return None
    codes = []
    for i in idx:
      c, t = self.expr(i, env)
      if t != Z:
        self.err(node, "non-integer array index")
      codes.append(c)
    return root, pre + codes

  def wval(self, code, t, node):
    if t == S:
      return f"(VS {code})"
    if t == Z:
      return f"(VZ {code})"
    if t == B:
      return f"(VB {code})"
    if is_vec(t) or t[0] == "M":
      return f"(VV {code})"
    if t[0] == "VI":
      return f"(VZs {code})"
    self.err(node, f"cannot store value of type {t}")

  def emit_write(self, root, idxcodes, kind, vcode, env, cont, d):
    I = self.ind(d)
    self.written.add(root)
    w = f'(mkW "{root}"%string [{"; ".join(idxcodes)}] {kind} {vcode})'
    return f"{I}let writes__ := (writes__ ++ [{w}])%list in\n" + cont(env)

  def block(self, stmts, env, k, d):
    if not stmts:
      return super().block(stmts, env, k, d)
    s, rest = stmts[0], stmts[1:]

    def cont(env2, d2=d):
      return self.block(rest, env2, k, d2)

    I = self.ind(d)
    if isinstance(s, ast.Return) and (s.value is None or getattr(self, "proc_mode", False)):
      return I + "writes__"
    # tid
    if isinstance(s, ast.Assign) and isinstance(s.value, ast.Call) and ast.unparse(s.value.func) == "wp.tid":
      t = s.targets[0]
      names = [e.id for e in t.elts] if isinstance(t, ast.Tuple) else [t.id]
      self.ntid = max(self.ntid, len(names))
      env2 = dict(env)
      code = ""
      for i, n in enumerate(names):
        env2[n] = Z
        code += f"{I}let {cname(n)} := tid{i} in\n"
      return code + cont(env2)
    # alias of an array row:  row = arr[worldid]
    if isinstance(s, ast.Assign) and len(s.targets) == 1 and isinstance(s.targets[0], ast.Name) and isinstance(s.value, (ast.Subscript, ast.Name)):
      r = self.root_of(s.value, env)
      if r is not None:
        code, t = self.expr(s.value, env)
        if t[0] == "A":
          env2 = dict(env)
          al = dict(env.get("@alias", {}))
          al[s.targets[0].id] = r
          env2["@alias"] = al
          env2[s.targets[0].id] = t
          return f"{I}let {cname(s.targets[0].id)} := {code} in\n" + cont(env2)
    # array element store
    if isinstance(s, (ast.Assign, ast.AugAssign)):
      tgt = s.targets[0] if isinstance(s, ast.Assign) else s.target
      if isinstance(tgt, ast.Subscript):
        r = self.root_of(tgt, env)
        base_local = isinstance(tgt.value, ast.Name) and tgt.value.id in env and env[tgt.value.id][0] != "A"
        if r is not None and not base_local:
          root, idxcodes = r
          if isinstance(s, ast.AugAssign):
            val = ast.BinOp(left=self._load(tgt), op=s.op, right=s.value, lineno=s.lineno)
            self.notes.append(f"line {s.lineno}: read-modify-write of {root} (reads the pre-task value)")
          else:
            val = s.value
          vc, vt = self.expr(val, env)
          return self.emit_write(root, idxcodes, "KSet", self.wval(vc, vt, s), env, cont, d)
      # x = wp.atomic_*(arr, idx, val): the returned old value comes from the oracle
      if isinstance(s, ast.Assign) and isinstance(s.value, ast.Call) and ast.unparse(s.value.func).startswith("wp.atomic_") and isinstance(tgt, ast.Name):
        root, idxcodes, kind, vcode = self.atomic(s.value, env)
        kidx = self.natomic
        self.natomic += 1
        env2 = dict(env)
        env2[tgt.id] = Z
        I2 = self.ind(d)
        self.written.add(root)
        w = f'(mkW "{root}"%string [{"; ".join(idxcodes)}] (KAtomRet {kind} {kidx}) {vcode})'
        return f"{I2}let writes__ := (writes__ ++ [{w}])%list in\n{I2}let {cname(tgt.id)} := atomic_old {kidx}%nat in\n" + cont(env2)
    if isinstance(s, ast.Expr) and isinstance(s.value, ast.Call) and ast.unparse(s.value.func).startswith("wp.atomic_"):
      root, idxcodes, kind, vcode = self.atomic(s.value, env)
      return self.emit_write(root, idxcodes, kind, vcode, env, cont, d)
    if isinstance(s, ast.Expr) and isinstance(s.value, ast.Call) and ast.unparse(s.value.func) in ("wp.printf", "print"):
      return cont(env)
    if isinstance(s, ast.Expr) and isinstance(s.value, ast.Call) and not s.value.keywords:
      kind, f = self.resolve(s.value.func, env)
      if kind == "user":
        return self.proc_call(s.value, f, env, cont, d)
    return super().block(stmts, env, k, d)

  def proc_call(self, e, f, env, cont, d):
    """Statement `g(args)` where g is a wp.func without return value: append g's writes, rebased from g's
    parameter names onto this kernel's arrays; arrays this task may already have written are handed over
    wrapped in the read-through of the writes so far."""
    fi = self.tr._get_proc(f)
    want = list(fi.argtypes[:-1])
    if len(want) != len(e.args):
      self.err(e, f"arity of {fi.coqname}")
    ac, rebase = [], []
    for i, (a, w) in enumerate(zip(e.args, want)):
      c, g = self.expr(a, env)
      if w != g:
        if is_vec(w) and is_vec(g) and vlen(w) == vlen(g):
          pass
        elif w == S and g == Z and self._is_int_literal(a):
          c = f"(sofZ {c})"
        else:
          self.err(e, f"argument {i} of {fi.coqname}: {g} for {w}")
      if w[0] == "A":
        r = self.root_of(a, env) if isinstance(a, (ast.Name, ast.Subscript)) else None
        if r is None:
          self.err(e, f"argument {i} of {fi.coqname}: not an array parameter or a view of one")
        root, pre = r
        pname = fi.argnames[i]
        if pname in fi.written:
          self.written.add(root)
        rebase.append(f'("{pname}"%string, ("{root}"%string, [{"; ".join(pre)}]))')
        if root in getattr(self, "maybe_written", ()):
          nd = w[2]
          vs = [f"i{j}__" for j in range(nd)]
          elt = w[1]
          rd = {"S": "rdS", "Z": "rdZ", "B": "rdB", "VI": "rdZs"}.get(elt[0], "rdV")
          c = f'(fun {" ".join(vs)} => {rd} writes__ "{root}"%string ([{"; ".join(pre)}] ++ [{"; ".join(vs)}])%list ({c} {" ".join(vs)}))'
      ac.append(c)
    extra = []
    for r0, kdim in fi.shape_params:
      pos = fi.argnames.index(r0)
      base, nsub = e.args[pos], 0
      while isinstance(base, ast.Subscript):
        nsub += len(base.slice.elts) if isinstance(base.slice, ast.Tuple) else 1
        base = base.value
      if not (isinstance(base, ast.Name) and base.id in env and env[base.id][0] == "A"):
        self.err(e, f"cannot pass the shape of argument {pos} of {fi.coqname}")
      extra.append(self.shape_param(base.id, kdim + nsub, env))
    if fi.coqname not in self.deps:
      self.deps.append(fi.coqname)
    I = self.ind(d)
    call = "(" + " ".join([fi.coqname] + ac + ["atomic_old"] + extra) + ")"
    return f"{I}let writes__ := (writes__ ++ rebase [{'; '.join(rebase)}] {call})%list in\n" + cont(env)

  def atomic(self, c, env):
    op = ast.unparse(c.func).split("_", 1)[1]
    kind = {"add": "KAdd", "sub": "KSub", "min": "KMin", "max": "KMax", "or": "KOr", "and": "KAnd"}.get(op)
    if kind is None:
      self.err(c, f"unsupported atomic {op}")
    if len(c.args) < 3:
      self.err(c, "atomic arity")
    r = self.root_of(c.args[0], env)
    if r is None:
      self.err(c, "atomic on non-parameter array")
    root, pre = r
    idxcodes = list(pre)
    for a in c.args[1:-1]:
      ic, it = self.expr(a, env)
      if it != Z:
        self.err(c, "atomic index type")
      idxcodes.append(ic)
    vc, vt = self.expr(c.args[-1], env)
    return root, idxcodes, kind, self.wval(vc, vt, c)
