"""S generator: allocation skeleton (bin/extract_alloc.py) -> coq/Gen/Skel_alloc.v."""

from __future__ import annotations

import os

import vlib

_cache = {}


class Skel:
  def __init__(self, builders, probes, host):
    self.builders, self.probes, self.host = builders, probes, host
    self.errors = {}

  def by_name(self):
    return {b["name"]: b for b in self.builders}


def gen_skel_alloc():
  import extract_alloc as X

  if "skel" in _cache:
    return _cache["skel"]
  builders, probes, host = X.extract()  # raises ExtractError on an unknown shape (fail closed)
  vlib.write_if_changed(os.path.join(vlib.COQ, "Gen", "Skel_alloc.v"), X.to_coq(builders, probes, host))
  _cache["skel"] = Skel(builders, probes, host)
  return _cache["skel"]


GENS = {"Skel_alloc": gen_skel_alloc}
