"""usage: record_fixed.py <property> <sha> <text>   -> appends a 'fixed:' line to known_findings.json"""
import json, sys
p = "/verif/known_findings.json"
k = json.load(open(p))
k["fixed"].append(f"fixed: property={sys.argv[1]} {sys.argv[2]} {sys.argv[3]}")
json.dump(k, open(p, "w"), indent=1)
