"""T generators for actuation (C03).

"support_act" -> coq/Gen/support_act.v : support.py `next_act` (activation integration).
"util_misc"   -> coq/Gen/util_misc.v   : every pure @wp.func of util_misc.py.  Functions the
   translator rejects (while loops: halton, wrap_inside and its caller wrap) are recorded in
   `tr.errors` - fail-closed: a property that lists one of them in `required_funcs` gets a broken
   obligation, nobody silently skips it."""

from __future__ import annotations

import os

import vlib

_cache = {}

# functions of util_misc.py that the actuation model needs (C03 lists these as required)
ACT_FUNCS = [
  "muscle_gain_length",
  "muscle_gain",
  "muscle_bias",
  "_sigmoid",
  "muscle_dynamics_timescale",
  "muscle_dynamics",
  "dcmotor_slots",
  "lugre_stribeck",
  "dcmotor_voltage",
]


def _emit(tr, name, imports=()):
  header = "".join(f"From VF Require Import {i}.\n" for i in imports)
  tr.emit(os.path.join(vlib.COQ, "Gen", name + ".v"), header)
  return tr


def _module_funcs(mod):
  import warp as wp

  return [n for n, v in vars(mod).items() if isinstance(v, wp.Function) and v.func is not None and v.func.__module__ == mod.__name__]


def gen_support_act():
  """support.py next_act -> Gen/support_act.v."""
  import translate as T

  if "support_act" in _cache:
    return _cache["support_act"]
  import mujoco_warp._src.support as sp

  tr = T.Translator()
  if hasattr(sp, "next_act"):
    tr.want(sp.__name__, "next_act")
  else:
    tr.errors[f"{sp.__name__}.next_act"] = "function no longer exists in support.py"
  _emit(tr, "support_act")
  _cache["support_act"] = tr
  return tr


def gen_util_misc():
  """All @wp.func of util_misc.py -> Gen/util_misc.v (untranslatable ones are left in tr.errors)."""
  import translate as T

  if "util_misc" in _cache:
    return _cache["util_misc"]
  import mujoco_warp._src.util_misc as um

  tr = T.Translator()
  present = _module_funcs(um)
  for n in present:
    tr.want(um.__name__, n)
  for n in ACT_FUNCS:
    if n not in present:
      tr.errors[f"{um.__name__}.{n}"] = "function no longer exists in util_misc.py"
  _emit(tr, "util_misc")
  _cache["util_misc"] = tr
  return tr


GENS = {"support_act": gen_support_act, "util_misc": gen_util_misc}
