"""./check dispatcher."""

from __future__ import annotations

import argparse
import importlib
import os
import sys
import time
import traceback

import vlib


def quiet_warp():
  import warnings

  import warp as wp

  warnings.filterwarnings("ignore", category=UserWarning)

  try:
    wp.config.log_level = 30  # warnings only
  except Exception:
    pass
  wp.config.quiet = True


def setup():
  """Regenerate every Gen file, build the whole Coq development, warm kernel caches."""
  import gens

  vlib.ensure_dirs()
  quiet_warp()
  t = time.time()
  for name in gens.GENS:
    try:
      gens.GENS[name]()
    except Exception as e:  # noqa
      vlib.log(f"setup: generator {name} failed: {e}")
  vlib.coq_project()
  # build what the claimed checks need; other files (work in progress) are built best-effort
  ready = open(os.path.join(vlib.VERIF, "ready.txt")).read().split()
  targets = [f"Props/{p}.vo" for p in ready if os.path.exists(os.path.join(vlib.COQ, "Props", p + ".v"))]
  rc, out, dt = vlib.run(["make", "-j16", "-k"] + targets, timeout=3000, cwd=vlib.COQ)
  vlib.log(out[-3000:] if rc != 0 else f"setup: coq build of {len(targets)} property files ok in {dt:.0f}s")
  rc2, out2, dt2 = vlib.run(["make", "-j16", "-k"], timeout=3000, cwd=vlib.COQ)
  if rc2 != 0:
    vlib.log("setup: note: some files outside the claimed checks did not build (work in progress)")
  vlib.log(f"setup done in {time.time() - t:.0f}s")
  return 0 if rc == 0 else 1


def main():
  ap = argparse.ArgumentParser()
  ap.add_argument("prop", nargs="?")
  ap.add_argument("--tier", default=os.environ.get("VERIF_TIER", "quick"))
  ap.add_argument("--replay")
  ap.add_argument("--setup", action="store_true")
  a = ap.parse_args()
  if a.setup:
    sys.exit(setup())
  pid = a.prop
  tier = "thorough" if a.tier == "thorough" else "quick"
  vlib.ensure_dirs()
  quiet_warp()
  res = vlib.Result(pid, tier)
  try:
    mod = importlib.import_module(f"props.{pid}")
    if a.replay:
      rc = mod.replay(res, a.replay)
      sys.exit(rc)
    mod.run(res)
  except Exception as e:  # machinery failure: report as an unproved obligation, never swallow
    traceback.print_exc()
    res.obligation("check-machinery", False, f"{type(e).__name__}: {e}")
    res.violation("machinery:" + type(e).__name__, f"check machinery failed: {e}", {"traceback": traceback.format_exc()}, found_input=False)
  sys.exit(vlib.finish(res))


if __name__ == "__main__":
  main()
