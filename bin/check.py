"""./check dispatcher."""

from __future__ import annotations

import argparse
import importlib
import os
import sys
import time
import traceback

import vlib


def quiet_warp():
  import warnings

  import warp as wp

  warnings.filterwarnings("ignore", category=UserWarning)

  try:
    wp.config.log_level = 30  # warnings only
  except Exception:
    pass
  wp.config.quiet = True


def setup():
  """Regenerate every Gen file, build the whole Coq development, warm kernel caches."""
  import gens

  vlib.ensure_dirs()
  quiet_warp()
  t = time.time()
  for name in gens.GENS:
    try:
      gens.GENS[name]()
    except Exception as e:  # noqa
      vlib.log(f"setup: generator {name} failed: {e}")
  vlib.coq_project()
  # build what the claimed checks need; other files (work in progress) are built best-effort
  ready = open(os.path.join(vlib.VERIF, "ready.txt")).read().split()
  targets = [f"Props/{p}.vo" for p in ready if os.path.exists(os.path.join(vlib.COQ, "Props", p + ".v"))]
  rc, out, dt = vlib.run(["make", "-j16", "-k"] + targets, timeout=3000, cwd=vlib.COQ)
  vlib.log(out[-3000:] if rc != 0 else f"setup: coq build of {len(targets)} property files ok in {dt:.0f}s")
  rc2, out2, dt2 = vlib.run(["make", "-j16", "-k"], timeout=3000, cwd=vlib.COQ)
  if rc2 != 0:
    vlib.log("setup: note: some files outside the claimed checks did not build (work in progress)")
  vlib.log(f"setup done in {time.time() - t:.0f}s")
  return 0 if rc == 0 else 1


def supervise(pid, tier):
  """Run the check in a child process.  The implementation under test is native code: an out-of-bounds
  access can kill the interpreter (SIGSEGV / abort) before any VIOLATION line is printed.  A child that
  does not end with exit code 0 or 1 is therefore reported here as a violation (crash under the check's
  inputs), with the tail of its stderr as the replay record."""
  import collections
  import subprocess
  import threading

  env = dict(os.environ)
  env["VERIF_CHILD"] = "1"
  p = subprocess.Popen([sys.executable, "-u", os.path.abspath(__file__), pid, "--tier", tier], env=env, stderr=subprocess.PIPE, text=True, errors="replace")
  tail = collections.deque(maxlen=60)

  def pump():
    for line in p.stderr:
      tail.append(line.rstrip("\n"))
      sys.stderr.write(line)
      sys.stderr.flush()

  th = threading.Thread(target=pump, daemon=True)
  th.start()
  rc = p.wait()
  th.join(timeout=5)
  if rc in (0, 1):
    return rc
  res = vlib.Result(pid, tier)
  res.obligation("the check process ran to completion", False, f"exit status {rc}")
  res.violation(f"crash:exit-status-{rc}", f"the check process died with exit status {rc} (negative = signal) while driving the implementation: a crash or abort inside /repo's native kernels on the check's inputs", {"exit_status": rc, "stderr_tail": list(tail)}, found_input=False)
  return vlib.finish(res)


def main():
  ap = argparse.ArgumentParser()
  ap.add_argument("prop", nargs="?")
  ap.add_argument("--tier", default=os.environ.get("VERIF_TIER", "quick"))
  ap.add_argument("--replay")
  ap.add_argument("--setup", action="store_true")
  a = ap.parse_args()
  if a.setup:
    sys.exit(setup())
  pid = a.prop
  tier = "thorough" if a.tier == "thorough" else "quick"
  vlib.ensure_dirs()
  if not a.replay and os.environ.get("VERIF_CHILD") != "1":
    sys.exit(supervise(pid, tier))
  quiet_warp()
  res = vlib.Result(pid, tier)
  try:
    mod = importlib.import_module(f"props.{pid}")
    if a.replay:
      rc = mod.replay(res, a.replay)
      sys.exit(rc)
    mod.run(res)
  except Exception as e:  # machinery failure: report as an unproved obligation, never swallow
    traceback.print_exc()
    res.obligation("check-machinery", False, f"{type(e).__name__}: {e}")
    res.violation("machinery:" + type(e).__name__, f"check machinery failed: {e}", {"traceback": traceback.format_exc()}, found_input=False)
  sys.exit(vlib.finish(res))


if __name__ == "__main__":
  main()
