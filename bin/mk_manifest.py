"""Regenerate /verif/MANIFEST.json from the property modules that exist (bin/props/Cxx.py).

Each module may define MANIFEST = dict(text=..., note=..., technique=..., engine=..., design_ref=...)."""

from __future__ import annotations

import importlib
import json
import os
import sys

HERE = os.path.dirname(os.path.abspath(__file__))
VERIF = os.path.dirname(HERE)
sys.path.insert(0, HERE)

NOT_BUILT = "not claimed (yet): no model/theorem tied to the code has been built for it; see DESIGN.md section 6 for the intended design"


def main():
  ids = [json.loads(l)["id"] for l in open(os.path.join(VERIF, "properties.jsonl"))]
  checks, na = [], []
  extra_na = {}
  p = os.path.join(VERIF, "not_applicable.json")
  if os.path.exists(p):
    extra_na = json.load(open(p))
  ready = set(open(os.path.join(VERIF, "ready.txt")).read().split())
  for pid in ids:
    path = os.path.join(HERE, "props", pid + ".py")
    if not os.path.exists(path) or pid in extra_na or pid not in ready:
      na.append({"property_id": pid, "reason": extra_na.get(pid, NOT_BUILT)})
      continue
    src = open(path).read()
    meta = {}
    if "MANIFEST = " in src or "MANIFEST=" in src:
      # evaluate only the MANIFEST literal, without importing warp etc.
      import ast

      tree = ast.parse(src)
      for node in tree.body:
        if isinstance(node, ast.Assign) and any(isinstance(t, ast.Name) and t.id == "MANIFEST" for t in node.targets):
          meta = ast.literal_eval(node.value)
    checks.append(
      {
        "property_id": pid,
        "quick_cmd": f"./check {pid} --tier quick",
        "thorough_cmd": f"./check {pid} --tier thorough",
        "evidence_file": f"/verif/evidence/{pid}.json",
        "replay_cmd_template": f"./check {pid} --replay {{path}}",
        "engine": meta.get("engine", "coq"),
        "level_claimed": {
          "category": "proof",
          "text": meta.get("text", "machine-checked theorems about a model tied to the source, see DESIGN.md"),
          "design_ref": meta.get("design_ref", f"DESIGN.md section 6, {pid}"),
        },
        "level_note": meta.get("note", "trusted base: Coq kernel, translator/extractors, correspondence harness; see DESIGN.md section 5"),
        "technique": meta.get("technique", "Rocq (Coq 8.16) proof over a model tied to the source"),
      }
    )
  man = {
    "version": 1,
    "setup_cmd": "./check --setup",
    "hooks": {
      "guard": "MJWARP_VERIF",
      "enable": "export MJWARP_VERIF=1 (no hook is currently needed: checks drive the unmodified public and private API of /repo)",
      "baseline_off_cmd": "cd /repo && /venv/bin/python -m pytest -ra -q -p no:cacheprovider --timeout=900 --continue-on-collection-errors",
      "source_commits": [],
      "add_only": True,
    },
    "engines": [
      {"name": "coq", "path": "/verif/coq", "serves_properties": [c["property_id"] for c in checks], "kind_free_text": "Coq 8.16.1 development: Base (library), Gen (regenerated from /repo each run), Model, Proof, Props"},
      {"name": "harness", "path": "/verif/bin", "serves_properties": [c["property_id"] for c in checks], "kind_free_text": "Python: translator T, extractors S, correspondence C, implementation-level oracles"},
    ],
    "checks": checks,
    "not_applicable": na,
    "notes": "Entry point ./check <id> --tier quick|thorough. Known findings: /verif/known_findings.json. Design: /verif/DESIGN.md.",
  }
  with open(os.path.join(VERIF, "MANIFEST.json"), "w") as fh:
    json.dump(man, fh, indent=1)
  print(f"MANIFEST: {len(checks)} checks, {len(na)} not_applicable")


if __name__ == "__main__":
  main()
