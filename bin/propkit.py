"""Steps shared by the per-property modules."""

from __future__ import annotations

import json
import os

import vlib


def prove(res: vlib.Result, props_file: str, gen_names=(), required_funcs=()):
  """Regenerate Gen, build Props/<id>.vo, record one obligation per theorem.

  Returns (ok, translators).  On failure records broken obligations (caller searches)."""
  import gens

  trs = {}
  ok_all = True
  with vlib.Lock():
    for g in gen_names:
      try:
        trs[g] = gens.GENS[g]()
      except Exception as e:  # extractor/translator crashed: fail closed
        res.obligation(f"regenerate:{g}", False, f"{type(e).__name__}: {e}")
        ok_all = False
    for g, tr in trs.items():
      errs = getattr(tr, "errors", {})
      for fn in required_funcs:
        for k, v in errs.items():
          if k.endswith("." + fn):
            res.obligation(f"translate:{fn}", False, v)
            ok_all = False
    target = props_file[:-2] + ".vo"
    ok, out, failing = vlib.coq_make([target])
    bad = vlib.scan_forbidden()
    res.obligation("no-Admitted/Axiom/Parameter/unchecked in development", not bad, "; ".join(bad))
    if bad:
      ok_all = False
    if not ok:
      res.obligation(f"build:{target}", False, f"first failure at {failing}")
      res.extra["coq_log_tail"] = out[-2500:]
      return False, trs, failing
    okp, ax, pout = vlib.print_assumptions(props_file)
  if not okp or not ax:
    res.obligation(f"print-assumptions:{props_file}", False, pout[-500:])
    return False, trs, props_file
  for thm, axioms in ax.items():
    res.obligation(thm, True, "axioms: " + (", ".join(axioms) if axioms else "none"))
    res.axioms[thm] = axioms
  allowed = (
    "ClassicalDedekindReals.sig_not_dec", "ClassicalDedekindReals.sig_forall_dec",
    "FunctionalExtensionality.functional_extensionality_dep", "Classical_Prop.classic",
    "Eqdep.Eq_rect_eq.eq_rect_eq", "JMeq.JMeq_eq", "ProofIrrelevance.proof_irrelevance",
    "ClassicalEpsilon.constructive_indefinite_description", "PropExtensionality.propositional_extensionality",
  )  # fmt: skip
  for thm, axioms in ax.items():
    for a in axioms:
      if a not in allowed and not a.startswith(("PrimFloat.", "Uint63.", "PrimInt63.", "FloatAxioms.", "Uint63Axioms.", "PrimString.")):
        res.obligation(f"axiom-allowed:{thm}:{a}", False, "axiom outside the standard-library list")
        ok_all = False
  return ok_all, trs, None


def broken_proof_violation(res, what, failing, data=None):
  """A proof/regeneration obligation broke and the search found no failing input."""
  res.violation(
    f"proof-broken:{failing}",
    f"{what}: obligation no longer checks ({failing}); search found no failing input",
    {"broken": failing, "detail": data, "log": res.extra.get("coq_log_tail", "")},
    found_input=False,
  )


def load_replay(path):
  with open(path) as fh:
    return json.load(fh)
