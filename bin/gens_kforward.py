"""T generator for KERNELS of forward.py -> Gen/kforward.v (translated task functions)."""

from __future__ import annotations

import os

import vlib

_cache = {}

KERNELS = ["_next_position", "_next_velocity", "_compute_damping_deriv", "_euler_damp_qfrc", "_actuator_velocity", "_tendon_velocity", "_tendon_actuator_force_clamp", "_qfrc_actuator_gravcomp_limits"]


def gen_kforward():
  if "k" in _cache:
    return _cache["k"]
  import translate as T

  import mujoco_warp._src.forward as F

  tr = T.Translator()
  tr.kernels = {}
  for k in KERNELS:
    fi = tr.want_kernel(getattr(F, k))
    if fi is not None:
      tr.kernels[k] = fi
  for name, factory, args in (("k_qfrc_smooth", F._qfrc_smooth, (False,)), ("k_qfrc_smooth_sleep", F._qfrc_smooth, (True,))):
    fi = tr.want_kernel(factory(*args), name)
    if fi is not None:
      tr.kernels[name] = fi
  tr.emit(os.path.join(vlib.COQ, "Gen", "kforward.v"))
  _cache["k"] = tr
  return tr


GENS = {"kforward": gen_kforward}
