"""S: extract the host-side stage structure (launch sequences, calls, flag guards)
from /repo's Python source with `ast` and emit it as Coq data (Gen/Skel_pipeline.v).

IR (JSON-able): a program is {qualified function name: [stmt]}, stmt is one of
  {"k":"launch","kernel":str,"factory_args":[str],"dim":str,"ins":[str],"outs":[str],"line":int}
  {"k":"call","f":str,"args":[str],"kwargs":{str:str},"line":int}
  {"k":"if","cond":str,"then":[stmt],"else":[stmt],"line":int}
  {"k":"zero","field":str} {"k":"copy","dst":str,"src":str} {"k":"fill","field":str,"value":str}
  {"k":"assign","name":str,"expr":str} {"k":"loop","kind":str,"head":str,"body":[stmt]}
  {"k":"return"} {"k":"raise","text":str} {"k":"other","text":str}
Fail-closed: a `wp.launch` whose inputs/outputs are not literal lists raises ExtractError."""

from __future__ import annotations

import ast
import os

SRC = "mujoco_warp/_src"
MODULES = [
  "forward", "smooth", "collision_driver", "constraint", "solver", "sensor", "passive", "island", "sleep", "history",
  "support", "derivative", "inverse", "io", "collision_primitive", "collision_convex", "collision_sdf", "collision_flex",
  "collision_core", "ray", "render", "bvh", "set_const", "block_cholesky", "util_misc",
]  # fmt: skip


class ExtractError(Exception):
  pass


def _txt(n):
  return ast.unparse(n) if n is not None else ""


class _Fn:
  def __init__(self, modname, aliases, local_funcs):
    self.mod, self.aliases, self.local_funcs = modname, aliases, local_funcs
    self.lists = {}
    self.errors = []

  def callee(self, f):
    if isinstance(f, ast.Name):
      if f.id in self.local_funcs:
        return f"{self.mod}.{f.id}"
      if f.id in self.aliases and "." in self.aliases[f.id]:
        return self.aliases[f.id]
      return f.id
    if isinstance(f, ast.Attribute) and isinstance(f.value, ast.Name) and f.value.id in self.aliases:
      return f"{self.aliases[f.value.id]}.{f.attr}"
    return _txt(f)

  def stmts(self, body):
    out = []
    for s in body:
      out.extend(self.stmt(s))
    return out

  def stmt(self, s):
    ln = getattr(s, "lineno", 0)
    if isinstance(s, ast.Expr) and isinstance(s.value, ast.Constant):
      return []
    if isinstance(s, ast.Expr) and isinstance(s.value, ast.Call):
      return [self.call(s.value, ln)]
    if isinstance(s, ast.If):
      return [{"k": "if", "cond": _txt(s.test), "then": self.stmts(s.body), "else": self.stmts(s.orelse), "line": ln}]
    if isinstance(s, (ast.For, ast.While)):
      head = _txt(s.iter) if isinstance(s, ast.For) else _txt(s.test)
      return [{"k": "loop", "kind": type(s).__name__.lower(), "head": head, "body": self.stmts(s.body), "line": ln}]
    if isinstance(s, ast.Assign):
      v = s.value
      if isinstance(v, (ast.List, ast.Tuple)) and len(s.targets) == 1 and isinstance(s.targets[0], ast.Name):
        self.lists[s.targets[0].id] = v
      if isinstance(v, ast.Call):
        c = self.call(v, ln)
        if c["k"] in ("launch", "call") and not c.get("f", "").startswith(("wp.", "bool", "int", "float", "min", "max", "len", "np.")):
          c["assign_to"] = _txt(s.targets[0])
          return [c]
      return [{"k": "assign", "name": _txt(s.targets[0]), "expr": _txt(v), "line": ln}]
    if isinstance(s, ast.AugAssign):
      return [{"k": "assign", "name": _txt(s.target), "expr": _txt(s), "line": ln}]
    if isinstance(s, ast.Return):
      return [{"k": "return", "expr": _txt(s.value), "line": ln}]
    if isinstance(s, ast.Raise):
      return [{"k": "raise", "text": _txt(s.exc), "line": ln}]
    if isinstance(s, ast.With):
      return [{"k": "loop", "kind": "with", "head": ", ".join(_txt(i) for i in s.items), "body": self.stmts(s.body), "line": ln}]
    if isinstance(s, (ast.Pass, ast.Import, ast.ImportFrom, ast.Global, ast.Nonlocal, ast.Assert, ast.AnnAssign, ast.Delete)):
      return []
    if isinstance(s, ast.Try):
      return self.stmts(s.body)
    if isinstance(s, (ast.FunctionDef, ast.ClassDef)):
      return []
    return [{"k": "other", "text": _txt(s)[:200], "line": ln}]

  def call(self, c, ln):
    name = self.callee(c.func)
    if name == "wp.launch" or name == "wp.launch_tiled":
      kw = {k.arg: k.value for k in c.keywords}
      kern = c.args[0] if c.args else kw.get("kernel")
      ins = kw.get("inputs")
      outs = kw.get("outputs")
      if ins is None and len(c.args) >= 3:
        ins = c.args[2]
      if isinstance(ins, ast.Name) and ins.id in self.lists:
        ins = self.lists[ins.id]
      if isinstance(outs, ast.Name) and outs.id in self.lists:
        outs = self.lists[outs.id]
      for lst, what in ((ins, "inputs"), (outs, "outputs")):
        if lst is not None and not isinstance(lst, (ast.List, ast.Tuple)):
          self.errors.append(f"{self.mod}:{ln}: wp.launch {what} is not a literal list")
          if what == "inputs":
            ins = ast.List(elts=[ast.Constant(value="?unresolved")])
          else:
            outs = ast.List(elts=[ast.Constant(value="?unresolved")])
      fa = []
      if isinstance(kern, ast.Call):
        fa = [_txt(a) for a in kern.args] + [f"{k.arg}={_txt(k.value)}" for k in kern.keywords]
        kname = self.callee(kern.func)
      else:
        kname = self.callee(kern)
      if "." not in kname:
        kname = f"{self.mod}.{kname}"
      return {
        "k": "launch", "kernel": kname, "factory_args": fa, "dim": _txt(kw.get("dim", c.args[1] if len(c.args) > 1 else None)),
        "ins": [_txt(e) for e in (ins.elts if ins is not None else [])],
        "outs": [_txt(e) for e in (outs.elts if outs is not None else [])],
        "tiled": name.endswith("tiled"), "line": ln,
      }  # fmt: skip
    if isinstance(c.func, ast.Attribute) and c.func.attr == "zero_" and not c.args:
      return {"k": "zero", "field": _txt(c.func.value), "line": ln}
    if isinstance(c.func, ast.Attribute) and c.func.attr == "fill_" and len(c.args) == 1:
      return {"k": "fill", "field": _txt(c.func.value), "value": _txt(c.args[0]), "line": ln}
    if name == "wp.copy" and len(c.args) >= 2:
      return {"k": "copy", "dst": _txt(c.args[0]), "src": _txt(c.args[1]), "line": ln}
    return {"k": "call", "f": name, "args": [_txt(a) for a in c.args], "kwargs": {k.arg: _txt(k.value) for k in c.keywords if k.arg}, "line": ln}


def extract_module(repo, modname):
  path = os.path.join(repo, SRC, modname + ".py")
  tree = ast.parse(open(path).read())
  aliases = {}
  for n in tree.body:
    if isinstance(n, ast.ImportFrom) and n.module and n.module.startswith("mujoco_warp._src"):
      for a in n.names:
        if n.module == "mujoco_warp._src":
          aliases[a.asname or a.name] = a.name
        else:
          aliases[a.asname or a.name] = n.module.split(".")[-1] + "." + a.name
    if isinstance(n, ast.Import):
      for a in n.names:
        if a.name == "warp":
          aliases[a.asname or "warp"] = "wp"
  local = {n.name for n in tree.body if isinstance(n, ast.FunctionDef)}
  prog = {}
  kernels = {}
  for n in tree.body:
    if not isinstance(n, ast.FunctionDef):
      continue
    decos = [_txt(d) for d in n.decorator_list]
    is_kernel = any(d.startswith("wp.kernel") or d.startswith("wp.func") for d in decos)
    is_factory = any("cache_kernel" in d for d in decos)
    if is_kernel or is_factory:
      kernels[f"{modname}.{n.name}"] = {"factory": is_factory, "line": n.lineno}
      continue
    fn = _Fn(modname, aliases, local)
    body = fn.stmts(n.body)
    nd = len(n.args.defaults)
    dfl = [""] * (len(n.args.args) - nd) + [_txt(x) for x in n.args.defaults]
    prog[f"{modname}.{n.name}"] = {"args": [a.arg for a in n.args.args], "defaults": dfl, "body": body, "line": n.lineno, "errors": fn.errors}
  return prog, kernels


def extract_all(repo="/repo"):
  prog, kernels = {}, {}
  for m in MODULES:
    p, k = extract_module(repo, m)
    prog.update(p)
    kernels.update(k)
  return prog, kernels


# ---- Coq emission ------------------------------------------------------------
def _s(x):
  return '"' + x.replace("\\", "\\\\").replace('"', "'").replace("\n", " ") + '"'


def _lst(xs):
  return "[" + "; ".join(xs) + "]"


def coq_stmt(s):
  k = s["k"]
  if k == "launch":
    return f"Launch {_s(s['kernel'])} {_lst(_s(a) for a in s['factory_args'])} {_lst(_s(a) for a in s['ins'])} {_lst(_s(a) for a in s['outs'])}"
  if k == "call":
    kw = _lst(f"({_s(a)}, {_s(b)})" for a, b in sorted(s["kwargs"].items()))
    return f"Call {_s(s['f'])} {_lst(_s(a) for a in s['args'])} {kw}"
  if k == "if":
    return f"If {_s(s['cond'])} {_lst(coq_stmt(x) for x in s['then'])} {_lst(coq_stmt(x) for x in s['else'])}"
  if k == "zero":
    return f"Zero {_s(s['field'])}"
  if k == "fill":
    return f"Fill {_s(s['field'])} {_s(s['value'])}"
  if k == "copy":
    return f"Copy {_s(s['dst'])} {_s(s['src'])}"
  if k == "assign":
    return f"Assign {_s(s['name'])} {_s(s['expr'])}"
  if k == "loop":
    return f"Loop {_s(s['kind'] + ' ' + s['head'])} {_lst(coq_stmt(x) for x in s['body'])}"
  if k == "return":
    return f"Return {_s(s.get('expr', ''))}"
  if k == "raise":
    return f"Raise {_s(s['text'])}"
  return f"Other {_s(s.get('text', ''))}"


def emit_coq(prog, names=None, defname="program"):
  names = sorted(prog) if names is None else names
  lines = [
    "(* GENERATED by /verif/bin/extract_launch.py from /repo -- do not edit *)",
    "From Coq Require Import String List.",
    "From VF Require Import Model.Pipeline.",
    "Import ListNotations.",
    "Local Open Scope string_scope.",
    "",
  ]
  defs = []
  for i, n in enumerate(names):
    if n not in prog:
      raise ExtractError(f"host function {n} not found")
    body = _lst(coq_stmt(s) for s in prog[n]["body"])
    params = _lst(f"({_s(a)}, {_s(d)})" for a, d in zip(prog[n]["args"], prog[n]["defaults"]))
    lines.append(f"Definition fn_{i} : fn := {{| fname := {_s(n)}; params := {params};\n  body := {body} |}}.")
    defs.append(f"fn_{i}")
  lines.append(f"Definition {defname} : prog := {_lst(defs)}.")
  errs = [e for n in names for e in prog[n].get("errors", [])]
  lines.append(f"Definition {defname}_errors : list string := {_lst(_s(e) for e in errs)}.")
  return "\n".join(lines) + "\n"


if __name__ == "__main__":
  import json
  import sys

  p, k = extract_all(sys.argv[1] if len(sys.argv) > 1 else "/repo")
  print(json.dumps({"functions": len(p), "kernels": len(k)}))
  for f in ("forward.step", "forward.step1", "forward.step2", "forward.forward"):
    print(f, json.dumps(p[f]["body"], indent=1)[:3000])
