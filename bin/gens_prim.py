"""T generator for collision_primitive_core.py (C20): generator "primitive_core" -> coq/Gen/primitive_core.v.

Every pure @wp.func of collision_primitive_core.py is requested.  The ones bin/translate.py accepts are
emitted; the others are recorded (with the translator's error text) in `tr.errors` (fail-closed for
whoever lists them in required_funcs) and are covered by the implementation-level oracle of C20 only.

Functions of math.py that the primitives call (closest_segment_point, normalize_with_norm, safe_div, ...)
are NOT re-emitted: the translator is seeded with the function table of generator "math", and the
generated file imports Gen.math, so that a lemma about `closest_segment_point` is a lemma about the one
definition both files use."""

from __future__ import annotations

import os

import vlib

_cache = {}

# requested, in source order; whatever the translator rejects today is listed in tr.errors (currently
# capsule_capsule: wp.inf constant, plane_box/box_triangle: wp.where on int condition, plane_cylinder: row
# assignment on a local matrix, box_box: return inside a loop, sphere_box/capsule_box: wp.int32 cast / vector wp.min)
WANTED = (
  "plane_sphere", "sphere_sphere", "sphere_capsule", "capsule_capsule", "plane_capsule", "plane_ellipsoid",
  "plane_box", "sphere_cylinder", "plane_cylinder", "_compute_rotmore", "box_box", "sphere_box", "capsule_box",
  "_tri_area_sign", "_tri_point_segment", "sphere_triangle", "box_triangle", "capsule_triangle", "cylinder_triangle",
)  # fmt: skip


def gen_primitive_core():
  import translate as T

  if "primitive_core" in _cache:
    return _cache["primitive_core"]
  import gens_math
  import mujoco_warp._src.collision_primitive_core as pc

  base = gens_math.gen_math()
  tr = T.Translator()
  tr.funcs.update(base.funcs)  # callee table of math.py (already emitted in Gen/math.v); `order` stays empty
  for n in WANTED:
    if hasattr(pc, n):
      tr.want(pc.__name__, n)
    else:
      tr.errors[f"{pc.__name__}.{n}"] = "function no longer exists in collision_primitive_core.py"
  tr.emit(os.path.join(vlib.COQ, "Gen", "primitive_core.v"), "From VF Require Import Gen.math.\n")
  tr.translated = [tr.funcs[k].coqname for k in tr.order]
  _cache["primitive_core"] = tr
  return tr


GENS = {"primitive_core": gen_primitive_core}
