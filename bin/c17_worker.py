"""Worker for the C17 crash oracle: run cases in this process, print BEGIN/DONE markers so that the
parent can attribute a process death (segfault / abort) to a case.  usage: c17_worker.py <cases.json> <start>"""

import json
import sys
import warnings

import numpy as np

warnings.filterwarnings("ignore")


def run_case(c):
  import mujoco
  import warp as wp

  import mujoco_warp as mjw

  if c.get("debug"):
    wp.config.mode = "debug"
  m = mujoco.MjModel.from_xml_string(c["xml"])
  for k, v in c.get("opt", {}).items():
    setattr(m.opt, k, v)
  if c.get("enableflags") is not None:
    m.opt.enableflags = c["enableflags"]
  if c.get("disableflags") is not None:
    m.opt.disableflags = c["disableflags"]
  d = mujoco.MjData(m)
  rng = np.random.default_rng(c["seed"])
  d.qpos[:] = m.qpos0 + rng.normal(0, 0.05, m.nq)
  d.qvel[:] = rng.normal(0, c.get("vel", 1.0), m.nv)
  if m.nu:
    d.ctrl[:] = rng.normal(0, 1, m.nu)
  try:
    mm = mjw.put_model(m)
    dd = mjw.make_data(m, **c["caps"])
  except (ValueError, NotImplementedError) as e:
    return "rejected:" + type(e).__name__
  dd.qpos.assign(np.tile(d.qpos.astype(np.float32), (dd.nworld, 1)))
  dd.qvel.assign(np.tile(d.qvel.astype(np.float32), (dd.nworld, 1)))
  try:
    for _ in range(c.get("steps", 2)):
      mjw.step(mm, dd)
    mjw.forward(mm, dd)
    ov = int(np.bitwise_or.reduce(dd.overflow.numpy()))
  except Exception as e:  # an exception out of step() on an accepted configuration
    return "exception:" + type(e).__name__ + ":" + str(e)[:80]
  return f"ok:overflow={ov}"


if __name__ == "__main__":
  import warp as wp

  wp.config.quiet = True
  cases = json.load(open(sys.argv[1]))
  start = int(sys.argv[2])
  for i in range(start, len(cases)):
    print(f"BEGIN {i}", flush=True)
    r = run_case(cases[i])
    print(f"DONE {i} {r}", flush=True)
