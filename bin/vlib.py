"""Shared harness for /verif checks: Coq build, case files, evidence, violations."""

from __future__ import annotations

import fcntl
import hashlib
import json
import os
import re
import subprocess
import sys
import time

VERIF = os.path.dirname(os.path.dirname(os.path.abspath(__file__)))
COQ = os.path.join(VERIF, "coq")
REPO = os.environ.get("VERIF_REPO", "/repo")
BUILD = os.path.join(VERIF, "build")
REPLAYS = os.path.join(VERIF, "replays")
EVIDENCE = os.path.join(VERIF, "evidence")
PY = "/venv/bin/python"

TRUSTED_BASE_COMMON = [
  "Coq 8.16.1 kernel + vm_compute (no native_compute)",
  "translator /verif/bin/translate.py and extractors /verif/bin/extract_*.py (Python ast -> Gallina/Coq data)",
  "correspondence harness (generators, runners, tolerances) under /verif/bin",
  "Warp 1.17 CPU code generation, LLVM, numpy, mujoco 3.13 binary (oracle)",
]


def seed():
  try:
    return int(os.environ.get("VERIF_SEED", "0"))
  except ValueError:
    return 0


def log(*a):
  print(*a, file=sys.stderr, flush=True)


def ensure_dirs():
  for d in (BUILD, REPLAYS, EVIDENCE, os.path.join(COQ, "Gen"), os.path.join(COQ, "Corr")):
    os.makedirs(d, exist_ok=True)


class Lock:
  """Serialise Coq builds between concurrently running checks."""

  def __init__(self, name="coq"):
    ensure_dirs()
    self.path = os.path.join(BUILD, name + ".lock")

  def __enter__(self):
    self.fh = open(self.path, "w")
    fcntl.flock(self.fh, fcntl.LOCK_EX)
    return self

  def __exit__(self, *a):
    fcntl.flock(self.fh, fcntl.LOCK_UN)
    self.fh.close()


def write_if_changed(path, text):
  try:
    with open(path) as fh:
      if fh.read() == text:
        return False
  except FileNotFoundError:
    pass
  os.makedirs(os.path.dirname(path), exist_ok=True)
  tmp = path + ".tmp%d" % os.getpid()
  with open(tmp, "w") as fh:
    fh.write(text)
  os.replace(tmp, path)
  return True


def run(cmd, timeout=600, cwd=None, env=None):
  t = time.time()
  try:
    p = subprocess.run(cmd, cwd=cwd, env=env, capture_output=True, text=True, timeout=timeout)
    out = "\n".join(l for l in (p.stdout + p.stderr).splitlines() if "conda" not in l)
    return p.returncode, out, time.time() - t
  except subprocess.TimeoutExpired as e:
    out = (e.stdout or b"").decode(errors="replace") if isinstance(e.stdout, bytes) else (e.stdout or "")
    return 124, out + "\nTIMEOUT", time.time() - t


# ---- Coq ---------------------------------------------------------------------
def coq_project():
  """(Re)write _CoqProject + Makefile listing every .v present (Gen included)."""
  files = []
  for sub in ("Base", "Gen", "Model", "Proof", "Props"):
    d = os.path.join(COQ, sub)
    if os.path.isdir(d):
      for f in sorted(os.listdir(d)):
        if f.endswith(".v"):
          files.append(f"{sub}/{f}")
  text = "-Q . VF\n-arg -w -arg -notation-overridden,-inexact-float,-deprecated-hint-without-locality,-deprecated-instance-without-locality\n" + "\n".join(files) + "\n"
  changed = write_if_changed(os.path.join(COQ, "_CoqProject"), text)
  if changed or not os.path.exists(os.path.join(COQ, "Makefile")):
    rc, out, _ = run(["coq_makefile", "-f", "_CoqProject", "-o", "Makefile"], cwd=COQ)
    if rc != 0:
      raise RuntimeError("coq_makefile failed: " + out)


def coq_make(targets, timeout=900, jobs=16):
  """make the given .vo targets. Returns (ok, log, failing_file)."""
  coq_project()
  rc, out, dt = run(["make", f"-j{jobs}", "-k"] + list(targets), timeout=timeout, cwd=COQ)
  failing = None
  if rc != 0:
    m = re.search(r'File "\./([^"]+)", line (\d+)', out)
    if m:
      failing = f"{m.group(1)}:{m.group(2)}"
    else:
      m = re.search(r"\*\*\* \[[^\]]*?([A-Za-z]+/[A-Za-z0-9_]+)\.vo", out)
      failing = m.group(1) + ".v" if m else "unknown"
  return rc == 0, out, failing


def coqc(path, timeout=600):
  """Compile one file (relative to coq/), returning (ok, stdout)."""
  rc, out, dt = run(
    ["coqc", "-Q", ".", "VF", "-w", "-notation-overridden,-inexact-float,-deprecated-hint-without-locality,-deprecated-instance-without-locality", path],
    timeout=timeout,
    cwd=COQ,
  )
  return rc == 0, out


FORBIDDEN = re.compile(r"\b(Admitted|admit|Axiom|Parameter|Conjecture|Admit Obligations)\b|Unset Guard|bypass_check|type-in-type|impredicative-set")


def scan_forbidden():
  bad = []
  for sub in ("Base", "Gen", "Model", "Proof", "Props"):
    d = os.path.join(COQ, sub)
    if not os.path.isdir(d):
      continue
    for f in sorted(os.listdir(d)):
      if f.endswith(".v"):
        with open(os.path.join(d, f)) as fh:
          txt = re.sub(r"\(\*.*?\*\)", "", fh.read(), flags=re.S)
          for m in FORBIDDEN.finditer(txt):
            bad.append(f"{sub}/{f}: {m.group(0)}")
  return bad


def print_assumptions(props_file):
  """Re-run coqc on a Props file; map each `Print Assumptions X.` to the axioms printed."""
  with open(os.path.join(COQ, props_file)) as fh:
    names = re.findall(r"Print Assumptions\s+([A-Za-z0-9_.']+)\s*\.", re.sub(r"\(\*.*?\*\)", "", fh.read(), flags=re.S))
  ok, out = coqc(props_file)
  res = {}
  if not ok:
    return ok, res, out
  blocks = []
  cur = None
  for line in out.splitlines():
    if line.startswith("Closed under the global context"):
      blocks.append([])
      cur = None
    elif line.startswith("Axioms:"):
      cur = []
      blocks.append(cur)
    elif cur is not None and re.match(r"^[A-Za-z_][A-Za-z0-9_.']*(\s*:|\s*$)", line) and not line.startswith(("Warning", "File ", "COQC", "COQDEP")):
      cur.append(line.split(":")[0].strip())
  for n, b in zip(names, blocks):
    res[n] = b
  if len(blocks) != len(names):
    ok = False
  return ok, res, out


def parse_nat_list(out, marker):
  """Find `marker` line then the next `= [ ... ]` list of naturals."""
  i = out.find(marker)
  if i < 0:
    return None
  m = re.search(r"=\s*(\[.*?\]|nil)", out[i:], flags=re.S)
  if not m:
    return None
  return [int(x) for x in re.findall(r"\d+", re.sub(r"%\w+", "", m.group(1)))]


def fhex(x):
  """PrimFloat literal for a Python float."""
  import math

  x = float(x)
  if math.isnan(x):
    return "nan"
  if math.isinf(x):
    return "infinity" if x > 0 else "neg_infinity"
  if x == 0:
    return "0" if math.copysign(1, x) > 0 else "(-0)"
  h = x.hex()
  return f"({h})" if x < 0 else h


def flist(xs):
  return "[" + "; ".join(fhex(x) for x in xs) + "]"


def zlist(xs):
  return "[" + "; ".join(f"({int(x)})" if int(x) < 0 else str(int(x)) for x in xs) + "]%Z"


# ---- results -------------------------------------------------------------------
class Result:
  """Accumulates what a check run did and found."""

  def __init__(self, pid, tier):
    self.pid, self.tier = pid, tier
    self.t0 = time.time()
    self.obligations = []  # (name, ok, detail)
    self.evaluations = 0
    self.distinct = set()
    self.samples = []
    self.violations = []  # dict(key, what, replay_data, found_input)
    self.notes = []
    self.assumptions = []
    self.trusted = list(TRUSTED_BASE_COMMON)
    self.axioms = {}
    self.rule = ""
    self.extra = {}
    self.checker_cmd = f"cd /verif/coq && make Props/{pid}.vo"

  def obligation(self, name, ok, detail=""):
    self.obligations.append((name, bool(ok), detail))

  def count(self, n=1):
    self.evaluations += n

  def nontrivial(self, key):
    self.distinct.add(key if isinstance(key, (str, int, tuple)) else json.dumps(key, sort_keys=True, default=str))

  def sample(self, s, cap=6):
    if len(self.samples) < cap:
      self.samples.append(s)

  def known(self, key):
    """Is (this property, key) a recorded known finding?  Obligations that summarise an oracle must stay
    discharged when only recorded classes disagree (each is still reported through violation())."""
    if not hasattr(self, "_known"):
      self._known = {(k["property"], k["key"]) for k in load_known().get("findings", [])}
    return (self.pid, key) in self._known

  def violation(self, key, what, data=None, found_input=True):
    v = {"key": key, "what": what, "data": data, "found_input": found_input}
    self.violations.append(v)
    # reported at once (not only in finish): a later crash of the native code under test must not lose it
    emit_violation(self, v)


def load_known():
  p = os.path.join(VERIF, "known_findings.json")
  try:
    with open(p) as fh:
      return json.load(fh)
  except FileNotFoundError:
    return {"findings": [], "fixed": []}


def emit_violation(res, v):
  """Print one violation (once per key): KNOWN-FINDING line, or replay file + VIOLATION line."""
  if not hasattr(res, "_emitted"):
    res._emitted = {}
  if v["key"] in res._emitted:
    return None if res._emitted[v["key"]] is not v else res._emitted_kind[v["key"]]
  ensure_dirs()
  res._emitted[v["key"]] = v
  if not hasattr(res, "_emitted_kind"):
    res._emitted_kind = {}
  if res.known(v["key"]):
    print(f"KNOWN-FINDING: property={res.pid} {v['key']}: {v['what']}", flush=True)
    res._emitted_kind[v["key"]] = "known"
    return "known"
  h = hashlib.sha1((v["key"] + json.dumps(v["data"], sort_keys=True, default=str)).encode()).hexdigest()[:10]
  path = os.path.join(REPLAYS, f"{res.pid}_{h}.json")
  with open(path, "w") as fh:
    json.dump({"property": res.pid, "key": v["key"], "what": v["what"], "found_input": v["found_input"], "replay": v["data"]}, fh, indent=1, default=str)
  tail = "" if v["found_input"] else " no-failing-input-found"
  print(f"VIOLATION property={res.pid} replay={path}{tail}", flush=True)
  log(f"  -> {v['key']}: {v['what']}")
  res._emitted_kind[v["key"]] = "violation"
  return "violation"


def finish(res: Result):
  """Write evidence, print VIOLATION / KNOWN-FINDING lines, return exit code."""
  ensure_dirs()
  known = load_known()
  known_keys = {(k["property"], k["key"]): k for k in known.get("findings", [])}
  code = 0
  nviol = 0
  seen = set()
  # fail closed: an obligation (proof, regeneration, correspondence) that no longer checks is a violation
  # even when the property module did not report one - unless a violation that is NOT a known finding
  # (a concrete new failing input) already explains it.  Known findings never excuse a broken obligation.
  failed = [n for n, ok, _ in res.obligations if not ok]
  if failed and not any((res.pid, v["key"]) not in known_keys for v in res.violations):
    res.violations.append({"key": "obligation-failed:" + failed[0][:80], "what": f"{len(failed)} obligation(s) no longer check ({'; '.join(f[:100] for f in failed[:4])}); no failing input found", "data": {"failed_obligations": [(n, d) for n, ok, d in res.obligations if not ok][:10]}, "found_input": False})
  for v in res.violations:
    r = emit_violation(res, v)
    if r == "violation":
      nviol += 1
      code = 1
  nob = len(res.obligations)
  ndis = sum(1 for _, ok, _ in res.obligations if ok)
  ev = {
    "property_id": res.pid,
    "tier": res.tier,
    "seed": seed(),
    "level": "proof",
    "coverage": {
      "obligations": nob,
      "discharged": ndis,
      "checker_cmd": res.checker_cmd,
      "trusted_base": res.trusted + [f"axioms under {k}: {', '.join(v) if v else 'Closed under the global context'}" for k, v in sorted(res.axioms.items())],
      "obligation_list": [{"name": n, "discharged": ok, "detail": d} for n, ok, d in res.obligations],
      "evaluations": res.evaluations,
      "distinct_nontrivial": len(res.distinct),
      "rule": res.rule,
      "samples": res.samples if res.samples else [{"obligations": [n for n, _, _ in res.obligations][:5]}],
      **res.extra,
    },
    "assumptions": res.assumptions,
    "wall_s": round(time.time() - res.t0, 2),
    "violations": nviol,
    "notes": res.notes,
  }
  with open(os.path.join(EVIDENCE, f"{res.pid}.json"), "w") as fh:
    json.dump(ev, fh, indent=1, default=str)
  log(f"[{res.pid}] obligations {ndis}/{nob}, evaluations {res.evaluations}, distinct {len(res.distinct)}, violations {nviol}, {ev['wall_s']} s")
  return code
