"""Shared pieces of the C09 / C10 dynamic experiments."""

from __future__ import annotations

import numpy as np

RICH_XML = """
<mujoco>
  <option timestep="0.004" wind="0.3 0 0" density="1.2" viscosity="0.01" magnetic="0 -0.5 0"/>
  <visual><global offwidth="64" offheight="64"/></visual>
  <default><geom friction="0.8 0.01 0.002"/></default>
  <worldbody>
    <light name="l0" pos="0 0 3" dir="0 0 -1"/>
    <camera name="c0" pos="0 -2 1" xyaxes="1 0 0 0 0.4 1"/>
    <geom name="floor" type="plane" size="5 5 .1" margin="0.002" solref="0.015 1.1"/>
    <body name="mc" mocap="true" pos="0.5 0.5 0.5"><geom type="sphere" size="0.03" contype="0" conaffinity="0"/></body>
    <body name="box" pos="0 0 0.12"><freejoint/><geom name="gbox" type="box" size="0.1 0.08 0.06" solimp="0.92 0.96 0.002 0.5 2"/><site name="sb" pos="0 0 0.05"/></body>
    <body name="ball" pos="0.35 0 0.08"><freejoint/><geom name="gball" type="sphere" size="0.07" solmix="2" priority="0" gap="0.001"/></body>
    <body name="cap" pos="-0.35 0.1 0.06" euler="0 90 0"><freejoint/><geom name="gcap" type="capsule" size="0.04 0.1" friction="0.5 0.02 0.001"/></body>
    <body name="arm" pos="0 0.5 0.6">
      <joint name="h0" type="hinge" axis="0 1 0" damping="0.3" stiffness="2" springref="0.1" armature="0.02" frictionloss="0.05" limited="true" range="-0.6 0.7" margin="0.01" solreflimit="0.03 1" actuatorfrclimited="true" actuatorfrcrange="-3 3"/>
      <geom name="ga0" type="capsule" fromto="0 0 0 0.3 0 0" size="0.03" contype="0" conaffinity="0" fluidshape="ellipsoid"/>
      <body name="arm1" pos="0.3 0 0" gravcomp="0.5">
        <joint name="h1" type="hinge" axis="0 1 0" damping="0.2" range="-1 1"/>
        <joint name="s1" type="slide" axis="1 0 0" stiffness="20" damping="1"/>
        <geom name="ga1" type="capsule" fromto="0 0 0 0.25 0 0" size="0.025" contype="0" conaffinity="0"/>
        <site name="s1e" pos="0.25 0 0"/>
        <body name="arm2" pos="0.25 0 0"><joint name="b2" type="ball" damping="0.05"/><geom name="ga2" type="ellipsoid" size="0.05 0.03 0.02" contype="0" conaffinity="0"/><site name="s2e" pos="0.05 0 0"/></body>
      </body>
    </body>
    <body name="pend" pos="0.6 -0.5 0.7"><joint name="hp" type="hinge" axis="1 0 0" damping="0.1"/><geom type="sphere" size="0.05" pos="0 0 -0.3" contype="0" conaffinity="0"/><site name="sp" pos="0 0 -0.3"/></body>
  </worldbody>
  <contact><pair name="p0" geom1="gbox" geom2="gball" margin="0.003" gap="0.0005" friction="0.7 0.7 0.01 0.001 0.001" solref="0.012 0.9" solreffriction="0.02 1" solimp="0.9 0.95 0.001 0.5 2"/></contact>
  <tendon>
    <fixed name="tf" limited="true" range="-0.5 0.5" stiffness="3" damping="0.4" frictionloss="0.02" margin="0.01" springlength="0.05 0.1" armature="0.01"><joint joint="h0" coef="1"/><joint joint="h1" coef="-0.7"/></fixed>
    <spatial name="ts" stiffness="5" damping="0.2" actuatorfrclimited="true" actuatorfrcrange="-2 2"><site site="s1e"/><site site="sp"/></spatial>
  </tendon>
  <equality>
    <connect name="ec" body1="arm2" body2="pend" anchor="0.05 0 0" solref="0.03 1" active="true"/>
    <joint name="ej" joint1="h1" joint2="hp" polycoef="0 0.5 0 0 0" solimp="0.9 0.95 0.001 0.5 2"/>
  </equality>
  <actuator>
    <position name="ap" joint="h0" kp="8" kv="0.5" ctrllimited="true" ctrlrange="-0.5 0.5" forcelimited="true" forcerange="-4 4"/>
    <general name="ag" joint="h1" dyntype="filter" dynprm="0.05 0 0" gainprm="3 0 0" biastype="affine" biasprm="0.1 -0.5 -0.05" actlimited="true" actrange="-1 1" gear="1.5"/>
    <motor name="at" tendon="ts" gear="0.8"/>
    <motor name="ab" joint="b2" gear="0.3 0.2 -0.4 0 0 0"/>
  </actuator>
  <sensor>
    <jointpos joint="h0"/><jointvel joint="h1"/><framepos objtype="site" objname="s2e"/><actuatorfrc actuator="ap"/><tendonpos tendon="ts"/><accelerometer site="s1e"/><touch site="sb"/>
  </sensor>
</mujoco>
"""

STATE_FIELDS = ("qpos", "qvel", "act", "ctrl", "mocap_pos", "mocap_quat", "qfrc_applied", "xfrc_applied", "time")
OUT_FIELDS = ("qpos", "qvel", "act", "time", "qacc", "sensordata", "qacc_warmstart", "xpos", "xquat", "qfrc_smooth", "qfrc_constraint", "actuator_force")


def random_states(rng, m, k, settle=True):
  """k MjData with distinct random states near the settled pose."""
  import mujoco

  import models

  out = []
  for _ in range(k):
    d = mujoco.MjData(m)
    mujoco.mj_resetData(m, d)
    d.qpos[:] = (m.qpos0 + rng.normal(0, 0.03, m.nq)).astype(np.float32)
    for j in range(m.njnt):
      a = m.jnt_qposadr[j]
      if m.jnt_type[j] == 0:
        q = d.qpos[a + 3 : a + 7]
        d.qpos[a + 3 : a + 7] = (q / np.linalg.norm(q)).astype(np.float32)
      elif m.jnt_type[j] == 1:
        q = d.qpos[a : a + 4]
        d.qpos[a : a + 4] = (q / np.linalg.norm(q)).astype(np.float32)
    d.qvel[:] = rng.normal(0, 0.3, m.nv).astype(np.float32)
    if m.nu:
      d.ctrl[:] = rng.normal(0, 0.5, m.nu).astype(np.float32)
    if m.na:
      d.act[:] = rng.normal(0, 0.3, m.na).astype(np.float32)
    d.qfrc_applied[:] = rng.normal(0, 0.1, m.nv).astype(np.float32)
    out.append(d)
  return out


def load_states(mjw, m, dd, ds, idx):
  """Write MjData states ds[idx[i]] into world i of dd."""
  for name in ("qpos", "qvel", "ctrl", "act", "qfrc_applied", "mocap_pos", "mocap_quat"):
    arr = getattr(dd, name).numpy()
    if arr.size == 0:
      continue
    for i, k in enumerate(idx):
      arr[i] = np.asarray(getattr(ds[k], name)).reshape(arr[i].shape)
    getattr(dd, name).assign(arr)


def snapshot(dd, world):
  out = {}
  for f in OUT_FIELDS:
    a = getattr(dd, f).numpy()
    out[f] = np.array(a[world]) if a.shape[0] > world else np.array(a)
  return out


def first_diff(a, b):
  for f in OUT_FIELDS:
    x, y = a[f], b[f]
    if x.shape != y.shape or not np.array_equal(x, y, equal_nan=True):
      return f, float(np.nanmax(np.abs(x.astype(np.float64) - y.astype(np.float64)))) if x.shape == y.shape and x.size else -1.0
  return None


def first_diff_tol(a, b, rtol):
  """Like first_diff but tolerating round-off: |x-y| <= rtol * (1 + max|x|) per field."""
  for f in OUT_FIELDS:
    x, y = a[f].astype(np.float64), b[f].astype(np.float64)
    if x.shape != y.shape:
      return f, -1.0
    if x.size == 0:
      continue
    if np.isnan(x).any() != np.isnan(y).any():
      return f, float("nan")
    err = float(np.nanmax(np.abs(x - y)))
    if err > rtol * (1.0 + float(np.nanmax(np.abs(x)))):
      return f, err
  return None
