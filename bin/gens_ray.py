"""Shared helpers of the ray / render checks (C34, C35): random MJCF scenes of every ray-castable
geom type, numpy reference of the pixel directions, and encoders of Model/Data arrays as Gallina
terms for the kernel-level correspondence.  No generator of its own (T_ray, T_render_util and T_bvh
come from gens_all.py); `GENS` is empty so that bin/gens.py can load this module."""

from __future__ import annotations

import numpy as np

GENS = {}

PLANE, HFIELD, SPHERE, CAPSULE, ELLIPSOID, CYLINDER, BOX, MESH = 0, 1, 2, 3, 4, 5, 6, 7
TYPE_NAME = {0: "plane", 1: "hfield", 2: "sphere", 3: "capsule", 4: "ellipsoid", 5: "cylinder", 6: "box", 7: "mesh"}
PRIMS = ("plane", "sphere", "capsule", "ellipsoid", "cylinder", "box")

# a centred cube and an octahedron: convex, the geom frame is the AABB centre (so that the scene BVH
# box, which is centred on the geom position, contains them); "pyr" is deliberately off-centre.
MESH_ASSETS = {
  "cube": '<mesh name="cube" vertex="-.1 -.1 -.1  .1 -.1 -.1  -.1 .1 -.1  .1 .1 -.1  -.1 -.1 .1  .1 -.1 .1  -.1 .1 .1  .1 .1 .1"/>',
  "octa": '<mesh name="octa" vertex=".2 0 0  -.2 0 0  0 .15 0  0 -.15 0  0 0 .1  0 0 -.1"/>',
  "pyr": '<mesh name="pyr" vertex="0 -.2 -.2  0 .2 -.2  0 -.2 .2  0 .2 .2  1 0 0"/>',
}


def fmt(x):
  return " ".join(f"{float(v):.6g}" for v in np.atleast_1d(x))


def scene(rng, ngeom=(3, 8), types=PRIMS + ("mesh", "hfield"), meshes=("cube", "octa"), alpha0=0.12, mats=True, groups=6,
          plane_infinite=0.5, nbody=(1, 3), cameras="", hf_n=4):  # fmt: skip
  """Random scene: geoms of the given types on the world body and on 1..3 moving/welded bodies, random
  groups, some invisible geoms (alpha 0 via rgba or material).  Returns the MJCF string."""
  n = int(rng.integers(ngeom[0], ngeom[1] + 1))
  assets = []
  if mats:
    assets += ['<material name="m0" rgba="0.2 0.3 0.4 1"/>', '<material name="m1" rgba="0.2 0.3 0.4 0"/>']
  if "mesh" in types:
    assets += [MESH_ASSETS[k] for k in meshes]
  if "hfield" in types:
    el = rng.uniform(0, 1, hf_n * hf_n)
    assets.append(f'<hfield name="hf" nrow="{hf_n}" ncol="{hf_n}" size="0.4 0.3 0.2 0.05" elevation="{fmt(el)}"/>')
  nb = int(rng.integers(nbody[0], nbody[1] + 1))
  per = [[] for _ in range(nb + 1)]
  for g in range(n):
    t = str(rng.choice(types))
    pos = rng.normal(0, 0.5, 3)
    quat = rng.normal(0, 1, 4)
    if rng.random() < 0.25:
      quat = np.array([1.0, 0, 0, 0])
    a = f'name="g{g}" type="{t}" pos="{fmt(pos)}" quat="{fmt(quat)}" group="{int(rng.integers(0, groups))}"'
    if t == "plane":
      sz = [0 if rng.random() < plane_infinite else rng.uniform(0.3, 1), 0 if rng.random() < plane_infinite else rng.uniform(0.3, 1), 0.1]
      a += f' size="{fmt(sz)}"'
    elif t == "sphere":
      a += f' size="{fmt([rng.uniform(0.05, 0.4)])}"'
    elif t in ("capsule", "cylinder"):
      a += f' size="{fmt([rng.uniform(0.05, 0.3), rng.uniform(0.05, 0.4)])}"'
    elif t in ("ellipsoid", "box"):
      a += f' size="{fmt(rng.uniform(0.05, 0.4, 3))}"'
    elif t == "mesh":
      a += f' mesh="{rng.choice(list(meshes))}"'
    elif t == "hfield":
      a += ' hfield="hf"'
    r = rng.random()
    if mats and r < 0.15:
      a += ' material="m0"'
    elif mats and 0.15 <= r < 0.15 + alpha0 / 2:
      a += ' material="m1"'
    elif 0.15 <= r < 0.15 + alpha0:
      a += ' rgba="0.5 0.5 0.5 0"'
    else:
      a += f' rgba="{fmt(rng.uniform(0.1, 1, 4))}"'
    b = 0 if t in ("plane", "hfield") else int(rng.integers(0, nb + 1))
    per[b].append(f"<geom {a}/>")
  body_xml = ""
  for b in range(1, nb + 1):
    jt = str(rng.choice(["free", "hinge", "none"]))
    j = {"free": "<freejoint/>", "hinge": '<joint type="hinge" axis="0 0 1"/>', "none": ""}[jt]
    if not per[b]:
      per[b].append(f'<geom name="bg{b}" type="sphere" size="0.05" pos="{fmt(rng.normal(0, 0.5, 3))}"/>')
    body_xml += f'<body name="b{b}" pos="{fmt(rng.normal(0, 0.3, 3))}">{j}{"".join(per[b])}</body>'
  return f'<mujoco><visual><map znear="0.01"/></visual><asset>{"".join(assets)}</asset><worldbody>{cameras}{"".join(per[0])}{body_xml}</worldbody></mujoco>'


def random_rays(rng, n, scales=(1.0,), spread=1.0, target=0.4, centers=None, aimed=0.6):
  """Origins around the scene; directions aimed at points near the scene centre or (fraction `aimed`) near
  one of `centers` (geom positions): hits, near misses and grazing rays; |vec| in `scales`."""
  pnt = rng.normal(0, spread, (n, 3))
  tgt = rng.normal(0, target, (n, 3))
  if centers is not None and len(centers):
    c = np.asarray(centers, dtype=np.float64)[rng.integers(0, len(centers), n)] + rng.normal(0, 0.12, (n, 3))
    k = rng.random(n) < aimed
    tgt[k] = c[k]
  vec = tgt - pnt
  vec /= np.linalg.norm(vec, axis=1, keepdims=True)
  vec *= rng.choice(list(scales), (n, 1))
  return pnt.astype(np.float32), vec.astype(np.float32)


def inside_local(rng, kind, size, n):
  """n points strictly inside a geom of type `kind` (name) with MuJoCo size vector `size`, in the geom frame,
  spread over the WHOLE interior (capsule: cylindrical section and both cap regions; cylinder/box: up to the
  faces; ellipsoid/sphere: the full ball).  size may be (3,) or (n,3)."""
  size = np.broadcast_to(np.asarray(size, dtype=np.float64), (n, 3))
  u = rng.standard_normal((n, 3))
  u /= np.linalg.norm(u, axis=1, keepdims=True)
  ball = u * (rng.random((n, 1)) ** (1 / 3)) * 0.97
  if kind == "sphere":
    return ball * size[:, :1]
  if kind == "ellipsoid":
    return ball * size
  if kind == "box":
    return rng.uniform(-0.97, 0.97, (n, 3)) * size
  if kind in ("capsule", "cylinder"):
    r, h = size[:, 0], size[:, 1]
    a = rng.uniform(0, 2 * np.pi, n)
    rho = np.sqrt(rng.random(n)) * 0.97 * r
    p = np.stack([rho * np.cos(a), rho * np.sin(a), rng.uniform(-0.97, 0.97, n) * h], axis=1)
    if kind == "capsule":
      k = rng.random(n) < 0.25  # inside one of the cap hemispheres, beyond the flat limit
      c = ball * r[:, None]
      c[:, 2] = np.abs(c[:, 2]) * rng.choice([-1.0, 1.0], n)
      c[:, 2] += np.sign(c[:, 2]) * h
      p[k] = c[k]
    return p
  if kind == "cube":
    return rng.uniform(-0.09, 0.09, (n, 3))
  if kind == "octa":
    return ball * np.array([0.05, 0.04, 0.03])
  raise KeyError(kind)


def exit_dirs(rng, n, axis_frac=0.35):
  """unit directions in the geom frame: random (leaving through any face) and, for a fraction, along +-x/y/z
  (leaving through the caps / flat faces head-on)"""
  v = rng.standard_normal((n, 3))
  v /= np.linalg.norm(v, axis=1, keepdims=True)
  k = rng.random(n) < axis_frac
  e = np.zeros((n, 3))
  e[np.arange(n), rng.choice([0, 1, 2, 2], n)] = rng.choice([-1.0, 1.0], n)
  # slightly tilted off the axis as well: leaves through a cap, not head-on
  t = e + 0.25 * v
  t /= np.linalg.norm(t, axis=1, keepdims=True)
  pick = rng.random(n) < 0.5
  v[k & pick] = e[k & pick]
  v[k & ~pick] = t[k & ~pick]
  return v


def inside_rays(rng, mjm, mjd, n, scales=(1.0,)):
  """n rays starting INSIDE geoms of the scene (every castable closed type present: sphere, capsule, cylinder,
  box, ellipsoid, cube/octa meshes), leaving in random / axis directions.  float32 (pnt, vec); fewer than n
  (possibly 0) if the scene has no such geom."""
  names = {2: "sphere", 3: "capsule", 4: "ellipsoid", 5: "cylinder", 6: "box"}
  cand = []
  for g in range(mjm.ngeom):
    t = int(mjm.geom_type[g])
    if t in names:
      cand.append((g, names[t]))
    elif t == 7:
      import mujoco

      mn = mujoco.mj_id2name(mjm, mujoco.mjtObj.mjOBJ_MESH, int(mjm.geom_dataid[g]))
      if mn in ("cube", "octa"):
        cand.append((g, mn))
  if not cand:
    return np.zeros((0, 3), np.float32), np.zeros((0, 3), np.float32)
  pnt, vec = np.zeros((n, 3)), np.zeros((n, 3))
  dirs = exit_dirs(rng, n)
  for i in range(n):
    g, kind = cand[int(rng.integers(0, len(cand)))]
    lp = inside_local(rng, kind, mjm.geom_size[g], 1)[0]
    R = mjd.geom_xmat[g].reshape(3, 3)
    pnt[i] = mjd.geom_xpos[g] + R @ lp
    vec[i] = R @ dirs[i]
  vec *= rng.choice(list(scales), (n, 1))
  return pnt.astype(np.float32), vec.astype(np.float32)


# ------------------------------------------------------------------ structured height fields
TERRAINS = ("profile_x", "profile_y", "stairs_x", "stairs_y", "ridge_x", "ridge_y", "diag", "const_rows", "bump", "flat", "roof_xy", "mixed")


def terrain(rng, nrow, ncol, kind=None):
  """piecewise-planar elevation grid (nrow, ncol), values >= 0, not all equal unless kind == 'flat' (then one
  corner is raised by a hair so that MuJoCo's normalisation is defined): flat / ramp / plateau profiles along x
  or y, stairs, ridges, diagonal ramps, rows of constant height, a single bump, a roof, and mixtures.  Adjacent
  PLANAR cells of DIFFERENT slope are the point: this is what a greedy coplanar-cell merger must keep apart."""
  kind = kind or str(rng.choice(TERRAINS))
  r, c = np.meshgrid(np.arange(nrow), np.arange(ncol), indexing="ij")

  def profile(n):
    # random walk of segments: flat (0), up ramp (+1), down ramp (-1), steps of 1
    z, out = int(rng.integers(0, 3)), []
    seg = 0
    while len(out) < n:
      ln = int(rng.integers(1, 4))
      for _ in range(ln):
        out.append(z)
        z = max(0, z + seg)
      seg = int(rng.choice([0, 0, 1, -1, 2]))
    return np.array(out[:n], dtype=np.float64)

  if kind == "profile_x":
    e = np.tile(profile(ncol), (nrow, 1))
  elif kind == "profile_y":
    e = np.tile(profile(nrow)[:, None], (1, ncol))
  elif kind == "stairs_x":
    e = np.tile(np.floor(np.arange(ncol) / max(1, int(rng.integers(1, 3)))), (nrow, 1))
  elif kind == "stairs_y":
    e = np.tile(np.floor(np.arange(nrow) / max(1, int(rng.integers(1, 3))))[:, None], (1, ncol))
  elif kind == "ridge_x":
    k = int(rng.integers(1, max(2, ncol - 1)))
    e = np.tile(np.maximum(0, 3 - np.abs(np.arange(ncol) - k)).astype(float), (nrow, 1))
  elif kind == "ridge_y":
    k = int(rng.integers(1, max(2, nrow - 1)))
    e = np.tile(np.maximum(0, 3 - np.abs(np.arange(nrow) - k)).astype(float)[:, None], (1, ncol))
  elif kind == "diag":
    e = np.clip((r + c).astype(float) - int(rng.integers(0, 3)), 0, int(rng.integers(2, 5)))
  elif kind == "const_rows":
    e = np.tile(rng.integers(0, 4, nrow).astype(float)[:, None], (1, ncol))
  elif kind == "bump":
    e = np.zeros((nrow, ncol))
    e[int(rng.integers(0, nrow)), int(rng.integers(0, ncol))] = 2.0
  elif kind == "roof_xy":
    e = np.minimum(np.minimum(r, nrow - 1 - r), np.minimum(c, ncol - 1 - c)).astype(float)
  elif kind == "mixed":
    e = np.tile(profile(ncol), (nrow, 1)) + np.tile(profile(nrow)[:, None], (1, ncol))
  else:
    e = np.zeros((nrow, ncol))
  if np.ptp(e) == 0:
    e = e.copy()
    e[0, 0] += 1e-3 if kind == "flat" else 1.0
  return e, kind


def terrain_scene(rng, nrow, ncol, kind=None, cameras="", extra_geoms=True):
  """MJCF with one tilted / lifted structured height field (+ a few primitives on a free body)"""
  e, kind = terrain(rng, nrow, ncol, kind)
  sx, sy, sz, sb = rng.uniform(0.4, 1.0), rng.uniform(0.4, 1.0), rng.uniform(0.15, 0.5), 0.1
  quat = np.array([1.0, 0, 0, 0]) + rng.normal(0, 0.12, 4)
  hf = f'<hfield name="hf" nrow="{nrow}" ncol="{ncol}" size="{fmt([sx, sy, sz, sb])}" elevation="{fmt(e.reshape(-1))}"/>'
  hpos = rng.normal(0, 0.1, 3)
  geoms = f'<geom name="terrain" type="hfield" hfield="hf" pos="{fmt(hpos)}" quat="{fmt(quat)}"/>'
  body = ""
  if extra_geoms:
    body = (f'<body name="b" pos="{fmt([rng.uniform(-sx, sx), rng.uniform(-sy, sy), sz + 0.5])}"><freejoint/>'
            f'<geom type="sphere" size="0.08"/><geom type="box" size="0.06 0.05 0.04" pos="0.25 0 0"/></body>')  # fmt: skip
  if callable(cameras):  # cameras placed relative to the field: cameras(pos, R, sx, sy, sz) -> MJCF
    q = quat / np.linalg.norm(quat)
    w, x, y, z = q
    Rm = np.array([[1 - 2 * (y * y + z * z), 2 * (x * y - w * z), 2 * (x * z + w * y)], [2 * (x * y + w * z), 1 - 2 * (x * x + z * z), 2 * (y * z - w * x)],
                   [2 * (x * z - w * y), 2 * (y * z + w * x), 1 - 2 * (x * x + y * y)]])  # fmt: skip
    cameras = cameras(hpos, Rm, sx, sy, sz)
  return f'<mujoco><visual><map znear="0.01"/></visual><asset>{hf}</asset><worldbody>{cameras}{geoms}{body}</worldbody></mujoco>', kind


def rays_from_above(rng, mjm, mjd, gid, n_u, n_v, tilts=(0.0, 0.25, 0.5)):
  """dense grid of rays onto the TOP surface of hfield geom `gid`: targets on an n_u x n_v grid over the footprint
  (kept off the cell lines), directions: down the geom's -z and tilted by the given tangents in random azimuths;
  origins above the highest elevation and inside the footprint, so the first hfield hit is on the top surface."""
  hid = int(mjm.geom_dataid[gid])
  sx, sy, sz, _ = mjm.hfield_size[hid]
  R = mjd.geom_xmat[gid].reshape(3, 3)
  p0 = mjd.geom_xpos[gid]
  P, V = [], []
  for iu in range(n_u):
    for iv in range(n_v):
      x = -sx + 2 * sx * (iu + 0.37) / n_u
      y = -sy + 2 * sy * (iv + 0.41) / n_v
      for t in tilts:
        az = rng.uniform(0, 2 * np.pi)
        d = np.array([t * np.cos(az), t * np.sin(az), -1.0])
        d /= np.linalg.norm(d)
        tgt = np.array([x, y, rng.uniform(0, sz)])
        o = tgt - d * ((sz * 1.3 + 0.3 - tgt[2]) / -d[2])
        if abs(o[0]) >= sx or abs(o[1]) >= sy:
          continue
        P.append(p0 + R @ o)
        V.append(R @ d)
  return np.array(P, dtype=np.float32), np.array(V, dtype=np.float32)


def hfield_mesh_exact(points, indices, data, nr, nc, sx, sy, sz, tol=2e-5):
  """Is the triangle mesh (points, indices) produced by bvh._optimize_hfield_mesh the SAME surface as the height
  field's own triangulation (cell (r,c): triangles (r,c),(r,c+1),(r+1,c+1) and (r,c),(r+1,c+1),(r+1,c))?
  Checks at every grid node and at the centroid of every original triangle that exactly the mesh height equals
  the original height (so a merged quad lies on the original surface everywhere, not only at its corners) and
  that the point is covered.  Returns a list of discrepancies (empty = exact)."""
  pts = np.asarray(points, dtype=np.float64)
  tri = np.asarray(indices).reshape(-1, 3)
  dx, dy = 2 * sx / (nc - 1), 2 * sy / (nr - 1)
  z = np.asarray(data, dtype=np.float64).reshape(nr, nc) * sz

  def node(r, c):
    return np.array([c * dx - sx, r * dy - sy, z[r, c]])

  samples = []
  for r in range(nr):
    for c in range(nc):
      samples.append(node(r, c))
  for r in range(nr - 1):
    for c in range(nc - 1):
      samples.append((node(r, c) + node(r, c + 1) + node(r + 1, c + 1)) / 3)
      samples.append((node(r, c) + node(r + 1, c + 1) + node(r + 1, c)) / 3)
  A, B, C = pts[tri[:, 0]], pts[tri[:, 1]], pts[tri[:, 2]]
  bad = []
  for s in samples:
    # barycentric coordinates of s.xy in every mesh triangle
    v0, v1, v2 = (B - A)[:, :2], (C - A)[:, :2], (s[None, :2] - A[:, :2])
    den = v0[:, 0] * v1[:, 1] - v1[:, 0] * v0[:, 1]
    ok = np.abs(den) > 1e-14
    u = np.where(ok, (v2[:, 0] * v1[:, 1] - v1[:, 0] * v2[:, 1]) / np.where(ok, den, 1), -1)
    v = np.where(ok, (v0[:, 0] * v2[:, 1] - v2[:, 0] * v0[:, 1]) / np.where(ok, den, 1), -1)
    inside = ok & (u >= -1e-6) & (v >= -1e-6) & (u + v <= 1 + 1e-6)  # float32 mesh points vs float64 samples
    if not inside.any():
      bad.append(dict(kind="uncovered", xy=s[:2].tolist()))
      continue
    h = A[inside, 2] + u[inside] * (B - A)[inside, 2] + v[inside] * (C - A)[inside, 2]
    err = float(np.abs(h - s[2]).max())
    if err > tol * (1 + abs(s[2])):
      bad.append(dict(kind="height", xy=s[:2].tolist(), original=float(s[2]), mesh=h.tolist()))
  return bad


def random_cameras(rng, ncam, W, H, ortho=0.0):
  """MJCF cameras looking at the scene: fovy, intrinsic (sensorsize/focal/principal) or orthographic."""
  s = ""
  for c in range(ncam):
    pos = rng.normal(0, 1.5, 3)
    while np.linalg.norm(pos) < 1.2:
      pos = rng.normal(0, 1.5, 3)
    z = pos - rng.normal(0, 0.3, 3)
    z /= np.linalg.norm(z)
    x = np.cross(rng.normal(0, 1, 3), z)
    x /= np.linalg.norm(x)
    y = np.cross(z, x)
    k = rng.random()
    base = f'<camera name="c{c}" pos="{fmt(pos)}" xyaxes="{fmt(x)} {fmt(y)}"'
    if k < ortho:
      s += base + f' projection="orthographic" fovy="{fmt([rng.uniform(1, 3)])}"/>'
    elif k < ortho + (1 - ortho) * 0.5:
      sw, sh = rng.uniform(0.002, 0.006, 2)
      s += base + f' resolution="{W} {H}" sensorsize="{fmt([sw, sh])}" focal="{fmt(rng.uniform(0.002, 0.006, 2))}" principal="{fmt(rng.normal(0, 0.0003, 2))}"/>'
    else:
      s += base + f' fovy="{fmt([rng.uniform(20, 100)])}"/>'
  return s


def pixel_dirs(mjm, cam, W, H, znear):
  """float64 reference of the property's pixel ray: unit direction (camera frame) through the centre of
  pixel (px,py) of the near-plane window; orthographic: the optical axis."""
  out = np.zeros((H, W, 3))
  if mjm.cam_projection[cam] == 1:
    out[:] = [0, 0, -1]
    return out
  sw, sh = (float(v) for v in mjm.cam_sensorsize[cam])
  if sh != 0:
    fx, fy, cx, cy = (float(v) for v in mjm.cam_intrinsic[cam])
    ta, sa = W / H, sw / sh
    if ta > sa:
      sh = sw / ta
    elif ta < sa:
      sw = sh * ta
    l, r, t, b = -znear / fx * (sw / 2 - cx), znear / fx * (sw / 2 + cx), znear / fy * (sh / 2 - cy), -znear / fy * (sh / 2 + cy)
  else:
    hh = znear * np.tan(0.5 * float(mjm.cam_fovy[cam]) * np.pi / 180)
    hw = hh * W / H
    l, r, t, b = -hw, hw, hh, -hh
  for py in range(H):
    for px in range(W):
      u, v = (px + 0.5) / W, (py + 0.5) / H
      p = np.array([l + (r - l) * u, t + (b - t) * v, -znear])
      out[py, px] = p / np.linalg.norm(p)
  return out


# ------------------------------------------------------------------ Gallina encoders
COQ_ARRAY_DEFS = """
Definition az (l : list Z) (i : Z) : Z := nth (Z.to_nat i) l 0%Z.
Definition af (l : list float) (i : Z) : float := nth (Z.to_nat i) l 0.
Definition avf (l : list (list float)) (i : Z) : list float := nth (Z.to_nat i) l nil.
Definition avz (l : list (list Z)) (i : Z) : list Z := nth (Z.to_nat i) l nil.
Definition a2z (l : list (list Z)) (w i : Z) : Z := nth (Z.to_nat i) (nth (Z.to_nat w) l nil) 0%Z.
Definition a2vf (l : list (list (list float))) (w i : Z) : list float := nth (Z.to_nat i) (nth (Z.to_nat w) l nil) nil.
"""


def zl(xs):
  return "[" + "; ".join(f"({int(x)})%Z" for x in xs) + "]"


def fl(xs):
  import vlib

  return vlib.flist(np.asarray(xs, dtype=np.float64).reshape(-1))


def enc(t, a):
  """Encode numpy array `a` for a translator argument type `t` (('A', elem, ndim) or scalar/vector)."""
  import vlib

  k = t[0]
  if k == "A":
    el, nd = t[1], t[2]
    a = np.asarray(a)
    if a.size == 0:  # empty model array (no mesh / hfield / material): never indexed
      return {"Z": "(az nil)", "S": "(af nil)", "VI": "(avz nil)"}.get(el[0], "(avf nil)") if nd == 1 else ("(a2z nil)" if el[0] == "Z" else "(a2vf nil)")
    if el[0] == "Z":
      return f"(az {zl(a)})" if nd == 1 else "(a2z [" + "; ".join(zl(r) for r in a) + "])"
    if el[0] == "S":
      assert nd == 1
      return f"(af {fl(a)})"
    if el[0] == "VI":
      assert nd == 1
      return "(avz [" + "; ".join(zl(r) for r in a.reshape(len(a), -1)) + "])"
    # float vectors / matrices
    if nd == 1:
      return "(avf [" + "; ".join(fl(r) for r in a.reshape(len(a), -1)) + "])"
    return "(a2vf [" + "; ".join("[" + "; ".join(fl(r) for r in w.reshape(len(w), -1)) + "]" for w in a) + "])"
  if k == "Z":
    return f"({int(a)})%Z"
  if k == "B":
    return "true" if bool(a) else "false"
  if k == "S":
    return vlib.fhex(float(a))
  return fl(a)
