"""S: every syntactic use of a DisableBit / EnableBit in /repo's source (host code AND kernels /
@wp.func / @cache_kernel factories), extracted with `ast` over all non-test modules of
mujoco_warp/_src, plus the enum tables of types.py and the put_model rejection loop.

For every mention `DisableBit.X` / `types.EnableBit.X` / `mujoco.mjtDisableBit.mjDSBL_X` the
extractor records (enum, flag, module, function, line, kind of function, how it is used, polarity,
expression text).  The *expression* is the maximal expression the mention sits in (an `if`/`elif`/
`while`/conditional-expression test, the right-hand side of an assignment, one element of a
wp.launch inputs list, one argument of a call, a return value).  Local names assigned from a flag
expression are tracked per function (`gravity_enabled = not (flags & GRAVITY)`), so that later
tests / kernel arguments that only mention the local name are attributed to the flag as well.

Polarity and truth tables are computed by a small three-valued (Kleene) evaluator over the Python
AST: the flag words are replaced by concrete integers for every assignment of the mentioned bits,
every other atom is Unknown.  `pos` = the expression is (can only become) true when the bit is
set, `neg` = when it is clear, `mixed`, `constant` = the value never depends on the bit (a
suspicious test), `unknown`.

Fail-closed: a mention in a syntactic position the extractor does not understand raises FlagsError."""

from __future__ import annotations

import ast
import itertools
import os

SRC = "mujoco_warp/_src"
ENUMS = ("DisableBit", "EnableBit")
MJ_ENUM = {"mjtDisableBit": ("DisableBit", "mjDSBL_"), "mjtEnableBit": ("EnableBit", "mjENBL_")}
WORD_ATTR = {"disableflags": "DisableBit", "enableflags": "EnableBit"}
U = "U"  # unknown truth value / unknown integer


class FlagsError(Exception):
  pass


def _txt(n):
  return ast.unparse(n)


def modules(repo):
  d = os.path.join(repo, SRC)
  return sorted(f[:-3] for f in os.listdir(d) if f.endswith(".py") and not f.endswith("_test.py") and f != "__init__.py")


# ---- enum tables ---------------------------------------------------------------------------
def enum_tables(repo):
  """({enum: [(NAME, value, mujoco member name)]}, {enum: [(mujoco member, value)]})."""
  import mujoco

  tree = ast.parse(open(os.path.join(repo, SRC, "types.py")).read())
  ours = {}
  for n in tree.body:
    if isinstance(n, ast.ClassDef) and n.name in ENUMS:
      rows = []
      for s in n.body:
        if isinstance(s, ast.Assign) and len(s.targets) == 1 and isinstance(s.targets[0], ast.Name):
          v = s.value
          # NAME = mujoco.mjtDisableBit.mjDSBL_NAME
          if not (isinstance(v, ast.Attribute) and isinstance(v.value, ast.Attribute) and v.value.attr in MJ_ENUM):
            raise FlagsError(f"types.{n.name}.{s.targets[0].id}: value is not a mujoco enum member: {_txt(v)}")
          if MJ_ENUM[v.value.attr][0] != n.name:
            raise FlagsError(f"types.{n.name}.{s.targets[0].id}: member of the wrong mujoco enum: {_txt(v)}")
          val = int(getattr(getattr(mujoco, v.value.attr), v.attr))
          rows.append((s.targets[0].id, val, v.attr))
      ours[n.name] = rows
  if set(ours) != set(ENUMS):
    raise FlagsError("types.py: DisableBit / EnableBit class not found")
  theirs = {}
  for mjname, (en, prefix) in MJ_ENUM.items():
    theirs[en] = sorted(((k, int(v)) for k, v in getattr(mujoco, mjname).__members__.items() if k.startswith(prefix)), key=lambda q: q[1])
  return ours, theirs


# ---- three-valued evaluation ---------------------------------------------------------------------
def _truth(v):
  if v is U:
    return U
  return bool(v)


class _Eval:
  """Evaluate an expression AST under an assignment {(enum, flag): bool}; everything that is
  not built from flag words / flag members / integer literals / tracked locals is Unknown."""

  def __init__(self, values, assign, locals_):
    self.values, self.assign, self.locals = values, assign, locals_  # values: {(enum, NAME): int}

  def word(self, enum):
    return sum(self.values[(enum, f)] for (e, f), on in self.assign.items() if e == enum and on)

  def ev(self, n, depth=0):
    if depth > 40:
      return U
    m = flag_member(n)
    if m is not None:
      return self.values.get(m, U)
    w = flag_word(n)
    if w is not None:
      return self.word(w)
    if isinstance(n, ast.Constant):
      return n.value if isinstance(n.value, (int, bool)) else U
    if isinstance(n, ast.Name):
      if n.id in self.locals:
        return self.ev(self.locals[n.id], depth + 1)
      return U
    if isinstance(n, ast.UnaryOp):
      v = self.ev(n.operand, depth + 1)
      if isinstance(n.op, ast.Not):
        t = _truth(v)
        return U if t is U else (not t)
      if v is U:
        return U
      if isinstance(n.op, ast.Invert):
        return ~int(v)
      if isinstance(n.op, ast.USub):
        return -int(v)
      return U
    if isinstance(n, ast.BinOp):
      a, b = self.ev(n.left, depth + 1), self.ev(n.right, depth + 1)
      if isinstance(n.op, ast.BitAnd):
        if (a is not U and int(a) == 0) or (b is not U and int(b) == 0):
          return 0
      if a is U or b is U:
        return U
      a, b = int(a), int(b)
      if isinstance(n.op, ast.BitAnd):
        return a & b
      if isinstance(n.op, ast.BitOr):
        return a | b
      if isinstance(n.op, ast.BitXor):
        return a ^ b
      return U
    if isinstance(n, ast.BoolOp):
      vals = [_truth(self.ev(v, depth + 1)) for v in n.values]
      if isinstance(n.op, ast.And):
        if any(v is False for v in vals):
          return False
        return U if any(v is U for v in vals) else True
      if any(v is True for v in vals):
        return True
      return U if any(v is U for v in vals) else False
    if isinstance(n, ast.Compare) and len(n.ops) == 1:
      a, b = self.ev(n.left, depth + 1), self.ev(n.comparators[0], depth + 1)
      if a is U or b is U:
        return U
      if isinstance(n.ops[0], ast.Eq):
        return int(a) == int(b)
      if isinstance(n.ops[0], ast.NotEq):
        return int(a) != int(b)
      return U
    if isinstance(n, ast.Call) and isinstance(n.func, ast.Name) and n.func.id in ("bool", "int") and len(n.args) == 1:
      v = self.ev(n.args[0], depth + 1)
      if n.func.id == "bool":
        return _truth(v)
      return v
    if isinstance(n, ast.IfExp):
      c = _truth(self.ev(n.test, depth + 1))
      if c is U:
        return U
      return self.ev(n.body if c else n.orelse, depth + 1)
    return U


def flag_member(n):
  """(enum, NAME) when n is DisableBit.X / types.EnableBit.X / mujoco.mjtDisableBit.mjDSBL_X."""
  if not isinstance(n, ast.Attribute):
    return None
  v = n.value
  if isinstance(v, ast.Name) and v.id in ENUMS:
    return (v.id, n.attr)
  if isinstance(v, ast.Attribute) and v.attr in ENUMS and isinstance(v.value, ast.Name):
    return (v.attr, n.attr)
  if isinstance(v, ast.Attribute) and v.attr in MJ_ENUM and isinstance(v.value, ast.Name):
    en, prefix = MJ_ENUM[v.attr]
    if n.attr.startswith(prefix):
      return (en, n.attr[len(prefix) :])
  return None


def flag_word(n):
  """enum name when n is the whole flag word: m.opt.disableflags, mjm.opt.enableflags, opt_disableflags."""
  if isinstance(n, ast.Attribute) and n.attr in WORD_ATTR and isinstance(n.value, ast.Attribute) and n.value.attr == "opt":
    return WORD_ATTR[n.attr]
  if isinstance(n, ast.Name) and n.id in ("opt_disableflags", "opt_enableflags"):
    return WORD_ATTR[n.id[4:]]
  return None


def truth_table(expr, flags, values, locals_):
  """[(assignment tuple of bools in the order of `flags`, value in {True, False, U})]."""
  rows = []
  for bits in itertools.product((False, True), repeat=len(flags)):
    v = _truth(_Eval(values, dict(zip(flags, bits)), locals_).ev(expr))
    rows.append((bits, v))
  return rows


def polarity(table, k):
  """How the truth of the expression depends on flag number k of the table's assignment."""
  inc = dec = False
  rows = dict(table)
  unknown_only = all(v is U for v in rows.values())
  for bits, v0 in table:
    if bits[k]:
      continue
    b1 = bits[:k] + (True,) + bits[k + 1 :]
    v1 = rows[b1]
    if v0 == v1:
      continue
    # order False < U < True
    rank = {False: 0, U: 1, True: 2}
    if rank[v1] > rank[v0]:
      inc = True
    else:
      dec = True
  if unknown_only:
    return "unknown"
  if inc and dec:
    return "mixed"
  if inc:
    return "pos"
  if dec:
    return "neg"
  return "constant"


# ---- per-function walk ----------------------------------------------------------------------
def _parents(tree):
  par = {}
  for p in ast.walk(tree):
    for c in ast.iter_child_nodes(p):
      par[c] = p
  return par


def _fn_kind(fn, outer_kind):
  decos = [_txt(d) for d in fn.decorator_list]
  if any(d.startswith("wp.kernel") or d.startswith("kernel") or d.startswith("nested_kernel") for d in decos):
    return "kernel"
  if any(d.startswith("wp.func") for d in decos):
    return "func"
  if any("cache_kernel" in d for d in decos):
    return "factory"
  if outer_kind in ("kernel", "func", "factory"):
    # nested helper inside a factory: device code unless it launches
    return "factory-inner"
  return "host"


def _mentions(n):
  """All (enum, NAME) members and flag words syntactically inside n."""
  mem, words = [], []
  for x in ast.walk(n):
    m = flag_member(x)
    if m is not None:
      mem.append(m)
    w = flag_word(x)
    if w is not None:
      words.append(w)
  return mem, words


class _FnWalk:
  def __init__(self, mod, qual, kind, fn, par, values, sites, conds, locs, wordargs, callees):
    self.mod, self.qual, self.kind, self.fn, self.par, self.values = mod, qual, kind, fn, par, values
    self.sites, self.conds, self.locs, self.wordargs, self.callees = sites, conds, locs, wordargs, callees
    self.locals = {}  # name -> defining expression (flag derived)
    self.local_flags = {}  # name -> sorted list of (enum, flag)

  def own_nodes(self):
    """Nodes of this function excluding nested function definitions (walked separately)."""
    out = []

    def rec(n):
      for c in ast.iter_child_nodes(n):
        if isinstance(c, (ast.FunctionDef, ast.AsyncFunctionDef, ast.Lambda)):
          continue
        out.append(c)
        rec(c)

    rec(self.fn)
    return out

  def flags_of(self, expr):
    mem, _ = _mentions(expr)
    fl = set(mem)
    for x in ast.walk(expr):
      if isinstance(x, ast.Name) and x.id in self.local_flags:
        fl.update(self.local_flags[x.id])
    return sorted(fl)

  def context(self, node):
    """Climb from a mention to its maximal expression and classify the use."""
    cur = node
    while True:
      p = self.par.get(cur)
      if p is None:
        raise FlagsError(f"{self.mod}:{getattr(node, 'lineno', 0)}: flag mention without statement context")
      if isinstance(p, (ast.If, ast.While)) and cur is p.test:
        return "test", cur, p
      if isinstance(p, ast.IfExp) and cur is p.test:
        return "test", cur, p
      if isinstance(p, ast.Assert):
        return "test", cur, p
      if isinstance(p, (ast.Assign, ast.AnnAssign, ast.AugAssign)) and cur is p.value:
        return "assign", cur, p
      if isinstance(p, ast.Return):
        return "return", cur, p
      if isinstance(p, ast.keyword):
        cur = p
        continue
      if isinstance(p, (ast.List, ast.Tuple)):
        pp = self.par.get(p)
        if isinstance(pp, ast.keyword):
          pp2 = self.par.get(pp)
          if isinstance(pp2, ast.Call) and _txt(pp2.func) in ("wp.launch", "wp.launch_tiled") and pp.arg in ("inputs", "outputs"):
            return "launch-input", cur, pp2
        if isinstance(pp, ast.Call) and _txt(pp.func) in ("wp.launch", "wp.launch_tiled"):
          return "launch-input", cur, pp
        if isinstance(pp, (ast.For, ast.Tuple, ast.List, ast.Assign, ast.Dict)):
          return "table", cur, pp
        cur = p
        continue
      if isinstance(p, ast.Dict):
        return "table", cur, p
      if isinstance(p, ast.Call) and (cur in p.args or isinstance(cur, ast.keyword)):
        f = _txt(p.func)
        if f in ("bool", "int") and len(p.args) == 1:
          cur = p
          continue
        kern = self.par.get(p)
        # factory(args)(...) inside wp.launch: the call is the kernel argument
        if f.startswith("np.") or f.startswith("wp.") and f not in ("wp.launch", "wp.launch_tiled"):
          return "call-arg", cur, p
        return "call-arg", cur, p
      if isinstance(p, ast.Expr):
        return "other", cur, p
      if isinstance(p, ast.stmt):
        return "other", cur, p
      cur = p

  def run(self):
    nodes = self.own_nodes()
    # pass 1: local definitions (in source order), flag derived
    for n in sorted((x for x in nodes if isinstance(x, ast.Assign)), key=lambda x: (x.lineno, x.col_offset)):
      if len(n.targets) == 1 and isinstance(n.targets[0], ast.Name):
        fl = self.flags_of(n.value)
        mem, words = _mentions(n.value)
        if fl and (mem or any(isinstance(x, ast.Name) and x.id in self.local_flags for x in ast.walk(n.value))):
          name = n.targets[0].id
          self.locals[name] = n.value
          self.local_flags[name] = fl
          self.locs.append({"fn": self.qual, "name": name, "flags": [f"{e}.{f}" for e, f in fl], "expr": _txt(n.value), "line": n.lineno})
    seen_expr = set()
    for n in nodes:
      is_member = flag_member(n) is not None
      is_local = isinstance(n, ast.Name) and isinstance(n.ctx, ast.Load) and n.id in self.local_flags
      if not (is_member or is_local):
        # whole flag word passed on (not combined with a member in the same expression)
        if flag_word(n) is not None:
          use, expr, stmt = self.context(n)
          mem, _ = _mentions(expr)
          if not mem and use in ("launch-input", "call-arg"):
            self.wordargs.append({"fn": self.qual, "enum": flag_word(n), "use": use, "callee": self.callee_of(stmt), "line": n.lineno, "pos": self.argpos(stmt, expr)})
        continue
      if is_member and isinstance(self.par.get(n), ast.Attribute):
        pass
      use, expr, stmt = self.context(n)
      key = (id(expr), use)
      if key in seen_expr:
        continue
      seen_expr.add(key)
      flags = self.flags_of(expr)
      if not flags:
        continue
      table = truth_table(expr, flags, self.values, self.locals)
      via = sorted({x.id for x in ast.walk(expr) if isinstance(x, ast.Name) and x.id in self.local_flags})
      callee = self.callee_of(stmt) if use in ("launch-input", "call-arg") else ""
      if use == "call-arg" and self.in_launch_kernel(stmt):
        use = "factory-arg"
      for k, (en, fl) in enumerate(flags):
        self.sites.append({
          "enum": en, "flag": fl, "module": self.mod, "fn": self.qual, "line": getattr(expr, "lineno", 0), "kind": self.kind,
          "use": use, "polarity": polarity(table, k), "expr": _txt(expr), "via": via, "callee": callee,
        })  # fmt: skip
      if use == "test" and self.kind == "host":
        self.conds.append({"fn": self.qual, "cond": _txt(expr), "line": getattr(expr, "lineno", 0), "flags": [f"{e}.{f}" for e, f in flags], "table": [(list(b), v) for b, v in table]})

  def argpos(self, call, expr):
    if isinstance(call, ast.Call):
      for i, a in enumerate(call.args):
        if a is expr:
          return i
    return -1

  def callee_of(self, call):
    if not isinstance(call, ast.Call):
      return ""
    f = _txt(call.func)
    if f in ("wp.launch", "wp.launch_tiled"):
      kern = call.args[0] if call.args else {k.arg: k.value for k in call.keywords}.get("kernel")
      if isinstance(kern, ast.Call):
        kern = kern.func
      return _txt(kern) if kern is not None else ""
    return f

  def in_launch_kernel(self, call):
    p = self.par.get(call)
    return isinstance(p, ast.Call) and _txt(p.func) in ("wp.launch", "wp.launch_tiled") and p.args and p.args[0] is call


def extract_module(repo, mod, values):
  path = os.path.join(repo, SRC, mod + ".py")
  tree = ast.parse(open(path).read())
  par = _parents(tree)
  sites, conds, locs, wordargs, calls = [], [], [], [], {}
  fkinds = {}

  def walk_fn(fn, qual, outer_kind):
    kind = _fn_kind(fn, outer_kind)
    fkinds[qual] = kind
    w = _FnWalk(mod, qual, kind, fn, par, values, sites, conds, locs, wordargs, calls)
    w.run()
    # call graph (names only; resolved by the caller against the kernel/func table)
    cs = set()
    for n in w.own_nodes():
      if isinstance(n, ast.Call):
        cs.add(_txt(n.func))
    calls[qual] = sorted(cs)
    for c in ast.walk(fn):
      if c is not fn and isinstance(c, ast.FunctionDef) and par_fn(c) is fn:
        walk_fn(c, qual + "." + c.name, kind)

  def par_fn(n):
    p = par.get(n)
    while p is not None and not isinstance(p, ast.FunctionDef):
      p = par.get(p)
    return p

  for n in tree.body:
    if isinstance(n, ast.FunctionDef):
      walk_fn(n, f"{mod}.{n.name}", "host")
  # module level statements (tables)
  imports = {}
  for n in tree.body:
    if isinstance(n, ast.ImportFrom) and n.module and n.module.startswith("mujoco_warp._src"):
      for a in n.names:
        if n.module == "mujoco_warp._src":
          imports[a.asname or a.name] = a.name
        else:
          imports[a.asname or a.name] = n.module.split(".")[-1] + "." + a.name
  return {"sites": sites, "conds": conds, "locals": locs, "wordargs": wordargs, "calls": calls, "kinds": fkinds, "imports": imports}


def put_model_rejections(repo):
  """Enums whose unlisted bits io.put_model rejects: a `for .. in ((mjm.opt.disableflags, types.DisableBit,
  mujoco.mjtDisableBit), ..)` loop whose body raises NotImplementedError under a test of
  `field & ~np.bitwise_or.reduce(field_type)`."""
  tree = ast.parse(open(os.path.join(repo, SRC, "io.py")).read())
  out = []
  for fn in tree.body:
    if not (isinstance(fn, ast.FunctionDef) and fn.name == "put_model"):
      continue
    for n in ast.walk(fn):
      if not (isinstance(n, ast.For) and isinstance(n.iter, (ast.Tuple, ast.List))):
        continue
      body_txt = "\n".join(_txt(s) for s in n.body)
      raises = [r for s in n.body for r in ast.walk(s) if isinstance(r, ast.Raise)]
      if not raises or "NotImplementedError" not in body_txt or "bitwise_or.reduce" not in body_txt or "& ~" not in body_txt:
        continue
      for row in n.iter.elts:
        if not isinstance(row, (ast.Tuple, ast.List)):
          continue
        word = enum = None
        for e in row.elts:
          if flag_word(e) is not None:
            word = flag_word(e)
          if isinstance(e, ast.Attribute) and e.attr in ENUMS:
            enum = e.attr
        if word is not None and word == enum:
          out.append({"enum": enum, "fn": "io.put_model", "line": n.lineno})
  return out


def extract_all(repo="/repo"):
  ours, theirs = enum_tables(repo)
  values = {(en, nm): v for en, rows in ours.items() for nm, v, _ in rows}
  res = {"enums": ours, "mujoco": theirs, "rejects": put_model_rejections(repo), "sites": [], "conds": [], "locals": [], "wordargs": [], "kinds": {}, "calls": {}, "imports": {}}
  for mod in modules(repo):
    if mod == "types":
      continue
    r = extract_module(repo, mod, values)
    for k in ("sites", "conds", "locals", "wordargs"):
      res[k].extend(r[k])
    res["kinds"].update(r["kinds"])
    res["calls"].update(r["calls"])
    res["imports"][mod] = r["imports"]
  for s in res["sites"]:
    if (s["enum"], s["flag"]) not in values:
      raise FlagsError(f"{s['module']}:{s['line']}: {s['enum']}.{s['flag']} is not a member of types.{s['enum']}")
  res["kernel_bits"] = kernel_bits(res)
  return res


def kernel_bits(res):
  """For every device function (kernel / func / factory incl. its nested functions): the flag bits it
  tests itself or through the @wp.func call graph (names resolved inside the module and through
  `from mujoco_warp._src import x` aliases).  Keyed by the TOP-LEVEL qualified name."""
  own = {}
  for s in res["sites"]:
    if s["kind"] in ("kernel", "func", "factory", "factory-inner"):
      top = ".".join(s["fn"].split(".")[:2])
      own.setdefault(top, set()).add(f"{s['enum']}.{s['flag']}")
  graph = {}
  for q, cs in res["calls"].items():
    kind = res["kinds"].get(q)
    if kind not in ("kernel", "func", "factory", "factory-inner"):
      continue
    top = ".".join(q.split(".")[:2])
    mod = q.split(".")[0]
    imps = res["imports"].get(mod, {})
    for c in cs:
      parts = c.split(".")
      tgt = None
      if len(parts) == 1:
        if f"{mod}.{c}" in res["kinds"]:
          tgt = f"{mod}.{c}"
        elif c in imps and "." in imps[c]:
          tgt = imps[c]
      elif len(parts) == 2 and parts[0] in imps and "." not in imps[parts[0]]:
        tgt = f"{imps[parts[0]]}.{parts[1]}"
      if tgt is not None and res["kinds"].get(tgt) in ("kernel", "func", "factory", "factory-inner"):
        graph.setdefault(top, set()).add(tgt)
  bits = {k: set(v) for k, v in own.items()}
  changed = True
  while changed:
    changed = False
    for k, cs in graph.items():
      for c in cs:
        add = bits.get(c, set()) - bits.get(k, set())
        if add:
          bits.setdefault(k, set()).update(add)
          changed = True
  device = sorted({".".join(q.split(".")[:2]) for q, k in res["kinds"].items() if k in ("kernel", "factory")})
  return {k: sorted(bits.get(k, ())) for k in device}


if __name__ == "__main__":
  import json
  import sys

  r = extract_all(sys.argv[1] if len(sys.argv) > 1 else "/repo")
  print(json.dumps({k: len(v) for k, v in r.items() if isinstance(v, (list, dict))}))
  for s in r["sites"]:
    print(f"{s['enum']}.{s['flag']:13s} {s['fn']:55s} {s['line']:5d} {s['kind']:8s} {s['use']:13s} {s['polarity']:9s} {s['expr'][:90]}  via={s['via']} callee={s['callee']}")
  print("LOCALS", json.dumps(r["locals"], indent=0)[:3000])
  print("WORDARGS", sorted({(w["fn"], w["callee"], w["use"]) for w in r["wordargs"]}))
  print("REJECTS", r["rejects"])
  print("KBITS", {k: v for k, v in r["kernel_bits"].items() if v})
