"""Worker for the C36 experiment: run a sequence of configurations in ONE process and print a
digest per configuration.  usage: c36_worker.py <json list of config ids>"""

import hashlib
import json
import sys
import warnings

import numpy as np

warnings.filterwarnings("ignore")

BOXES = """<mujoco><option><flag nativeccd="%s"/></option><worldbody>
<geom type="plane" size="5 5 .1"/>
<body pos="0 0 0.099"><freejoint/><geom type="box" size=".1 .1 .1"/></body>
<body pos="0.05 0.02 0.295"><freejoint/><geom type="box" size=".1 .1 .1"/></body>
</worldbody></mujoco>"""

MIXED = """<mujoco><option cone="%s" jacobian="%s" solver="%s"/><worldbody>
<geom type="plane" size="5 5 .1"/>
<body pos="0 0 0.09"><freejoint/><geom type="capsule" size=".05 .1"/></body>
<body pos="0.3 0 0.069"><freejoint/><geom type="sphere" size=".07"/></body>
<body pos="0.32 0.01 0.2"><freejoint/><geom type="cylinder" size=".05 .06"/></body>
<body pos="0 0.5 0.5"><joint type="hinge" axis="0 1 0" limited="true" range="-0.2 0.2"/><geom type="capsule" fromto="0 0 0 .3 0 0" size=".03"/>
  <body pos=".3 0 0"><joint type="hinge" axis="0 1 0"/><geom type="capsule" fromto="0 0 0 .3 0 0" size=".03"/></body></body>
</worldbody></mujoco>"""

CONDIM = """<mujoco><option cone="elliptic" jacobian="sparse" solver="Newton"/><worldbody>
<geom type="plane" size="5 5 .1" condim="%d" friction="0.9 0.05 0.01"/>
<body pos="0 0 0.099"><freejoint/><geom type="box" size=".1 .08 .1" condim="%d" friction="0.9 0.05 0.01"/></body>
<body pos="0.4 0 0.069"><freejoint/><geom type="sphere" size=".07" condim="%d" friction="0.9 0.05 0.01"/></body>
<body pos="0.41 0.01 0.2"><freejoint/><geom type="sphere" size=".06" condim="%d" friction="0.9 0.05 0.01"/></body>
</worldbody></mujoco>"""

CONFIGS = {
  "ell_sparse_condim4": dict(xml=CONDIM % (4, 4, 4, 4), qvel=[0.3, 0.1, 0, 0.5, -0.4, 2.0] * 3),
  "ell_sparse_condim6": dict(xml=CONDIM % (6, 6, 6, 6), qvel=[0.3, 0.1, 0, 0.5, -0.4, 2.0] * 3),
  "ell_sparse_condim3": dict(xml=CONDIM % (3, 3, 3, 3), qvel=[0.3, 0.1, 0, 0.5, -0.4, 2.0] * 3),
  "box_ccd": dict(xml=BOXES % "enable"),
  "box_prim": dict(xml=BOXES % "disable"),
  "mixed_pyr_dense_newton": dict(xml=MIXED % ("pyramidal", "dense", "Newton")),
  "mixed_ell_sparse_newton": dict(xml=MIXED % ("elliptic", "sparse", "Newton")),
  "mixed_pyr_sparse_cg": dict(xml=MIXED % ("pyramidal", "sparse", "CG")),
  "mixed_ell_dense_cg": dict(xml=MIXED % ("elliptic", "dense", "CG")),
  "mixed_small_caps": dict(xml=MIXED % ("pyramidal", "dense", "Newton"), nconmax=16, njmax=48),
  "mixed_two_worlds": dict(xml=MIXED % ("pyramidal", "dense", "Newton"), nworld=2),
  "mixed_sap": dict(xml=MIXED % ("pyramidal", "dense", "Newton"), broadphase="SAP_TILE"),
}


def run(cfg):
  import mujoco

  import mujoco_warp as mjw

  c = CONFIGS[cfg]
  m = mujoco.MjModel.from_xml_string(c["xml"])
  d = mujoco.MjData(m)
  if "qvel" in c:
    d.qvel[:] = c["qvel"]
  mujoco.mj_forward(m, d)
  mm = mjw.put_model(m)
  if "broadphase" in c:
    mm.opt.broadphase = getattr(mjw.BroadphaseType, c["broadphase"])
  dd = mjw.put_data(m, d, nworld=c.get("nworld", 1), nconmax=c.get("nconmax", 64), njmax=c.get("njmax", 256))
  for _ in range(3):
    mjw.step(mm, dd)
  n = int(dd.nacon.numpy()[0])
  h = hashlib.sha1()
  for a in (dd.qpos.numpy(), dd.qvel.numpy(), dd.qacc.numpy(), dd.nefc.numpy(), dd.overflow.numpy()):
    h.update(np.ascontiguousarray(a).tobytes())
  con = sorted(zip(dd.contact.worldid.numpy()[:n].tolist(), map(tuple, dd.contact.geom.numpy()[:n].tolist()), np.round(dd.contact.dist.numpy()[:n], 6).tolist()))
  h.update(json.dumps(con).encode())
  return {"config": cfg, "digest": h.hexdigest(), "nacon": n, "qacc0": [float(x) for x in dd.qacc.numpy()[0][:4]]}


FACTORY_ARGS = {}  # factory -> set of offending (position, type name) seen at run time


def record_factory_arguments():
  """Wrap every @cache_kernel factory of mujoco_warp._src (module attribute whose function is
  warp_util.cache_kernel's `wrapper`) so that the run-time TYPE of each argument is checked against the
  domain of the key-soundness theorem: bool / int / IntEnum / str / None / TileSet / list,tuple of those.
  Anything else that has a `.size` attribute (numpy scalars, arrays) is hashed by its size only."""
  import enum
  import importlib
  import pkgutil

  import mujoco_warp._src as src

  def ok(a):
    if a is None or isinstance(a, (bool, int, str, enum.Enum)) and type(a).__module__ != "numpy":
      return type(a) in (bool, int, str, type(None)) or isinstance(a, enum.Enum)
    if type(a).__name__ == "TileSet":
      return True
    if type(a).__name__ == "Function" and not hasattr(a, "size"):
      return True  # module-level wp.Function objects: hashed by identity, which is injective within a process
    if isinstance(a, (list, tuple)):
      return all(ok(x) for x in a)
    return False

  for mi in pkgutil.iter_modules(src.__path__):
    if mi.name.endswith("_test"):
      continue
    try:
      mod = importlib.import_module("mujoco_warp._src." + mi.name)
    except Exception:
      continue
    for n, v in list(vars(mod).items()):
      code = getattr(v, "__code__", None)
      if code is None or code.co_name != "wrapper" or not code.co_filename.endswith("warp_util.py") or not hasattr(v, "__wrapped__"):
        continue
      if not any(getattr(c, "co_name", None) == "_hash_arg" for c in code.co_consts):
        continue  # some other decorator of warp_util (event_scope ...)

      def make(orig, qual):
        def rec(*args):
          for i, a in enumerate(args):
            if not ok(a):
              FACTORY_ARGS.setdefault(qual, set()).add((i, type(a).__module__ + "." + type(a).__name__, repr(a)[:40]))
          return orig(*args)

        rec.__wrapped__ = orig.__wrapped__
        return rec

      setattr(mod, n, make(v, f"{mi.name}.{n}"))


if __name__ == "__main__":
  import warp as wp

  wp.config.quiet = True
  record_factory_arguments()
  out = [run(c) for c in json.loads(sys.argv[1])]
  print("C36ARGS " + json.dumps({k: sorted(v) for k, v in FACTORY_ARGS.items()}))
  print("C36RESULT " + json.dumps(out))
