"""Worker for the C36 experiment: run a sequence of configurations in ONE process and print a
digest per configuration.  usage: c36_worker.py <json list of config ids>"""

import hashlib
import json
import sys
import warnings

import numpy as np

warnings.filterwarnings("ignore")

BOXES = """<mujoco><option><flag nativeccd="%s"/></option><worldbody>
<geom type="plane" size="5 5 .1"/>
<body pos="0 0 0.099"><freejoint/><geom type="box" size=".1 .1 .1"/></body>
<body pos="0.05 0.02 0.295"><freejoint/><geom type="box" size=".1 .1 .1"/></body>
</worldbody></mujoco>"""

MIXED = """<mujoco><option cone="%s" jacobian="%s" solver="%s"/><worldbody>
<geom type="plane" size="5 5 .1"/>
<body pos="0 0 0.09"><freejoint/><geom type="capsule" size=".05 .1"/></body>
<body pos="0.3 0 0.069"><freejoint/><geom type="sphere" size=".07"/></body>
<body pos="0.32 0.01 0.2"><freejoint/><geom type="cylinder" size=".05 .06"/></body>
<body pos="0 0.5 0.5"><joint type="hinge" axis="0 1 0" limited="true" range="-0.2 0.2"/><geom type="capsule" fromto="0 0 0 .3 0 0" size=".03"/>
  <body pos=".3 0 0"><joint type="hinge" axis="0 1 0"/><geom type="capsule" fromto="0 0 0 .3 0 0" size=".03"/></body></body>
</worldbody></mujoco>"""

CONFIGS = {
  "box_ccd": dict(xml=BOXES % "enable"),
  "box_prim": dict(xml=BOXES % "disable"),
  "mixed_pyr_dense_newton": dict(xml=MIXED % ("pyramidal", "dense", "Newton")),
  "mixed_ell_sparse_newton": dict(xml=MIXED % ("elliptic", "sparse", "Newton")),
  "mixed_pyr_sparse_cg": dict(xml=MIXED % ("pyramidal", "sparse", "CG")),
  "mixed_ell_dense_cg": dict(xml=MIXED % ("elliptic", "dense", "CG")),
  "mixed_small_caps": dict(xml=MIXED % ("pyramidal", "dense", "Newton"), nconmax=16, njmax=48),
  "mixed_two_worlds": dict(xml=MIXED % ("pyramidal", "dense", "Newton"), nworld=2),
  "mixed_sap": dict(xml=MIXED % ("pyramidal", "dense", "Newton"), broadphase="SAP_TILE"),
}


def run(cfg):
  import mujoco

  import mujoco_warp as mjw

  c = CONFIGS[cfg]
  m = mujoco.MjModel.from_xml_string(c["xml"])
  d = mujoco.MjData(m)
  mujoco.mj_forward(m, d)
  mm = mjw.put_model(m)
  if "broadphase" in c:
    mm.opt.broadphase = getattr(mjw.BroadphaseType, c["broadphase"])
  dd = mjw.put_data(m, d, nworld=c.get("nworld", 1), nconmax=c.get("nconmax", 64), njmax=c.get("njmax", 256))
  for _ in range(3):
    mjw.step(mm, dd)
  n = int(dd.nacon.numpy()[0])
  h = hashlib.sha1()
  for a in (dd.qpos.numpy(), dd.qvel.numpy(), dd.qacc.numpy(), dd.nefc.numpy(), dd.overflow.numpy()):
    h.update(np.ascontiguousarray(a).tobytes())
  con = sorted(zip(dd.contact.worldid.numpy()[:n].tolist(), map(tuple, dd.contact.geom.numpy()[:n].tolist()), np.round(dd.contact.dist.numpy()[:n], 6).tolist()))
  h.update(json.dumps(con).encode())
  return {"config": cfg, "digest": h.hexdigest(), "nacon": n, "qacc0": [float(x) for x in dd.qacc.numpy()[0][:4]]}


if __name__ == "__main__":
  import warp as wp

  wp.config.quiet = True
  out = [run(c) for c in json.loads(sys.argv[1])]
  print("C36RESULT " + json.dumps(out))
