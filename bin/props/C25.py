"""C25 Solver termination is correctly reported and transparent.

proof   Props/C25.v over Model/Term.v (transcription of _solve_init_efc, _solve_done,
        _solve_cg_finalize, the capture_while / fixed-for loop forms of solver._solve); the
        "tolerance met" boolean is an arbitrary oracle.
S       bin/gens_term.py: every kernel launched (transitively) in solver._solver_iteration that
        stores into a non-scratch field does so only under a test of ctx.done; joined inside Coq
        (vm_compute) with the launch list derived independently from Gen/Skel_pipeline.v.
T       solver._rescale regenerated into Gen/solver_term.v and validated against the compiled function.
C       the model, run by vm_compute on the per-round booleans recomputed (numpy float32) from the real
        solver context after every real iteration, vs the real solver_niter / ctx.done / overflow /
        nsolving / number of executed iterations.
        + the fast-path skip pin: an early return on a zero change counter that skips anything but the
        Hessian update may test ctx.state_changed_count (or d.nefc) only (iter_skip_table).
oracle  warm-started solve sequences (nv 36/48/68 friction arms under bang-bang control, generator of
        bin/props/C06.py): after every solve a world that stopped below the iteration cap satisfies the
        termination criterion recomputed in float64 from its final qacc;
        every world of a mixed batch vs a same-size batch made of copies of that world (bit-exact),
        graph_conditional on vs off (bit-exact), niter <= limit."""

from __future__ import annotations

import contextlib
import json
import time

import numpy as np

import propkit
import vlib

MANIFEST = {
  "text": "proof: for the transcribed termination kernels and both loop forms, with an arbitrary per-world per-iteration 'tolerance met' oracle: niter <= limit; ITERATIONS bit (entered clear, limit >= 1) iff the world never met the tolerance within the limit; the fast-path early returns of the iteration kernels are pinned to ctx.state_changed_count (S); nsolving counts not-done worlds and capture_while stops within `limit` rounds; a done world's (niter, done, overflow) never change again; a world's final state depends only on its own oracle column (batch independence, graph_conditional on/off transparent). iterations = 0 is excluded from the bit theorem (proved refuted there: no iteration, no bit). A done world's protected solver state (qacc, forces, ...) is proved frozen for kernels of the guarded form (C25_done_world_frozen); that the kernels of _solver_iteration HAVE that form is the source-level guard table (S, ast pass + vm_compute join with Skel_pipeline, checked every run) and is additionally tested on the real solver (batch vs copies, graph_conditional on/off, bit-exact)",
  "note": "trusted: Coq kernel; hand transcription Model/Term.v (tied by the per-run correspondence incl. the number of executed iterations); bin/gens_term.py ast pass and its scratch-field list; bin/extract_launch.py; numpy float32 re-evaluation of the termination test",
  "technique": "Rocq proof over a hand-written executable model (C) + source skeleton facts (S) + translation validation of _rescale (T) + differential oracle",
  "engine": "coq",
}

LS_BIT = 1 << 10  # OverflowType.LS_ITERATIONS: set by the linesearch kernel, outside this model


# ---- instrumentation of the real solver (process-local, nothing under /repo is modified) -----
@contextlib.contextmanager
def instrument(rec):
  from mujoco_warp._src import solver as S

  o_iter, o_solve = S._solver_iteration, S._solve

  def w_iter(m, d, ctx, nsolving, compact=False):
    before = ctx.done.numpy().copy()
    o_iter(m, d, ctx, nsolving, compact=compact)
    rec["rounds"].append({
      "done_before": before, "done": ctx.done.numpy().copy(), "imp": ctx.improvement.numpy().copy(), "gd": ctx.grad_dot.numpy().copy(),
      "nd": ctx.newton_decrement.numpy().copy(), "nsolving": int(nsolving.numpy()[0]), "niter": d.solver_niter.numpy().copy(),
    })  # fmt: skip

  def w_solve(m, d, ctx, compact=False):
    rec["entry_ovf"] = d.overflow.numpy().copy()
    rec["entry_niter"] = d.solver_niter.numpy().copy()
    o_solve(m, d, ctx, compact=compact)
    rec["final_done"] = ctx.done.numpy().copy()

  S._solver_iteration, S._solve = w_iter, w_solve
  try:
    yield
  finally:
    S._solver_iteration, S._solve = o_iter, o_solve


def tol_booleans(mm, rec, cg):
  """Per round, per world: the kernel's local `done`, recomputed in float32; None if a comparison is a near tie."""
  tol = mm.opt.tolerance.numpy().astype(np.float32)
  mi = mm.stat.meaninertia.numpy().astype(np.float32)
  nv = np.float32(mm.nv)
  rows, tie = [], False
  for r in rec["rounds"]:
    nw = len(r["done"])
    t = np.array([tol[w % len(tol)] for w in range(nw)], dtype=np.float32)
    sc = np.array([mi[w % len(mi)] for w in range(nw)], dtype=np.float32) * nv
    with np.errstate(all="ignore"):
      vals = [r["imp"].astype(np.float32) / sc, np.sqrt(r["gd"].astype(np.float32)) / sc]
      if not cg:
        vals.append((np.float32(0.5) * r["nd"].astype(np.float32)) / sc)
    b = np.zeros(nw, dtype=bool)
    for v in vals:
      b |= v < t
      live = ~r["done_before"]
      with np.errstate(all="ignore"):
        close = np.abs(v.astype(np.float64) - t.astype(np.float64)) <= 4e-7 * np.abs(t.astype(np.float64))
      if np.any(close & live) or np.any(~np.isfinite(v) & live):
        tie = True
    rows.append(b)
  return rows, tie


def case_line(rec, rows, cg, gc, L, rng, final_niter, final_ovf):
  """Gallina verdict term: model on (entry state, oracle table) vs what the real solver produced."""
  nw = len(rec["entry_ovf"])
  table = []
  for r, b in zip(rec["rounds"], rows):
    row = []
    for w in range(nw):
      # the oracle value of a world that was already done is never looked at by the real code:
      # feed the model a random one there
      row.append(bool(b[w]) if not r["done_before"][w] else bool(rng.random() < 0.5))
    table.append("[" + ";".join("true" if x else "false" for x in row) + "]")
  ws0 = "; ".join(f"mkWS ({int(rec['entry_niter'][w])})%Z {'true' if rng.random() < 0.5 else 'false'} ({int(rec['entry_ovf'][w]) & ~LS_BIT})%Z" for w in range(nw))
  exp = []
  for w in range(nw):
    o = int(final_ovf[w]) & ~LS_BIT
    exp += [int(final_niter[w]), 1 if o & 512 else 0, 1 if rec["final_done"][w] else 0, o]
  nr = len(rec["rounds"])
  b = lambda x: "true" if x else "false"
  model = f"solve {b(cg)} {b(gc)} ({L})%Z {L + 3}%nat (tol_of_table [{';'.join(table)}]) [{ws0}]"
  if nr:
    exp += [rec["rounds"][-1]["nsolving"], nr]
    return f"tvz (obs ({model})) {vlib.zlist(exp)}", exp
  exp += [nr]
  return f"tvz (obs_nons ({model})) {vlib.zlist(exp)}", exp


OUT = ("qacc", "qfrc_constraint", "solver_niter")


def snapshot(dd):
  s = {f: getattr(dd, f).numpy().copy() for f in OUT}
  s["efc_force"] = dd.efc.force.numpy().copy()
  s["efc_state"] = dd.efc.state.numpy().copy()
  s["nefc"] = dd.nefc.numpy().copy()
  s["overflow"] = dd.overflow.numpy().copy()
  return s


def world_diff(a, wa, b, wb):
  for f in ("solver_niter", "qacc", "qfrc_constraint"):
    if not np.array_equal(a[f][wa], b[f][wb], equal_nan=True):
      return f
  n = int(a["nefc"][wa])
  if int(b["nefc"][wb]) != n:
    return "nefc"
  for f in ("efc_force", "efc_state"):
    if not np.array_equal(a[f][wa][:n], b[f][wb][:n], equal_nan=True):
      return f
  if (int(a["overflow"][wa]) ^ int(b["overflow"][wb])) & 512:
    return "overflow.ITERATIONS"
  return None


STATE_F = ("qpos", "qvel", "ctrl", "act", "qfrc_applied", "mocap_pos", "mocap_quat")


def dump_states(ds, idx):
  return [{f: np.asarray(getattr(ds[i], f)).tolist() for f in STATE_F} for i in idx]


def make_models(rng, quick):
  """(label, MjModel, states) -- distinct dynamics so that worlds converge at different iterations."""
  import mujoco

  import batchkit as BK
  import models

  out = []
  specs = [("rich", BK.RICH_XML, None)]
  n_rand = 2 if quick else 8
  for k in range(n_rand):
    o = models.Opts(nbody=(3, 6), plane=True, contacts=True, actuators=2, limits=0.5, equality=1, frictionloss=0.3, tendons=k % 2)
    xml, _ = models.random_model(rng, o)
    specs.append((f"rand{k}", xml, k))
  for label, xml, k in specs:
    m = mujoco.MjModel.from_xml_string(xml)
    if k is not None and k % 2 == 1:
      m.opt.jacobian = mujoco.mjtJacobian.mjJAC_SPARSE
    ds = BK.random_states(rng, m, 5)
    # one state far above the floor (no contact rows: converges at once), one pressed into it
    for j in range(m.njnt):
      if m.jnt_type[j] == 0:
        ds[3].qpos[m.jnt_qposadr[j] + 2] += 1.0
        ds[4].qpos[m.jnt_qposadr[j] + 2] -= 0.02
    out.append((label, xml, m, ds))
  return out


def configure(mjw, m, solver, cone, L, tol):
  import mujoco

  m.opt.solver = {"newton": mujoco.mjtSolver.mjSOL_NEWTON, "cg": mujoco.mjtSolver.mjSOL_CG}[solver]
  m.opt.cone = {"pyramidal": mujoco.mjtCone.mjCONE_PYRAMIDAL, "elliptic": mujoco.mjtCone.mjCONE_ELLIPTIC}[cone]
  m.opt.iterations = L
  m.opt.tolerance = tol
  mm = mjw.put_model(m)
  mm.opt.warn_overflow = False  # no printf from the kernels (the bit is written either way)
  return mm


def run_real(mjw, mm, m, ds, idx, gc, pre_ovf, per_world_tol=None, record=True):
  import warp as wp

  import batchkit as BK

  mm.opt.graph_conditional = gc
  if per_world_tol is not None:
    mm.opt.tolerance = wp.array(np.asarray(per_world_tol, dtype=np.float32), dtype=float)
  dd = mjw.make_data(m, nworld=len(idx), nconmax=64, njmax=256)
  BK.load_states(mjw, m, dd, ds, idx)
  dd.overflow.assign(np.asarray(pre_ovf, dtype=np.int32))
  dd.solver_niter.assign(np.full(len(idx), 77, dtype=np.int32))
  rec = {"rounds": []}
  if record:
    with instrument(rec):
      mjw.forward(mm, dd)
  else:
    mjw.forward(mm, dd)
  return dd, rec


def experiments(res, quick):
  import mujoco  # noqa: F401

  import mujoco_warp as mjw
  from mujoco_warp._src import types

  assert int(types.OverflowType.ITERATIONS) == 512 and int(types.OverflowType.LS_ITERATIONS) == LS_BIT
  rng = np.random.default_rng(vlib.seed() + 25)
  lines, meta, fails = [], [], []
  ndisc = 0
  zero_report = None
  for label, xml, m, ds in make_models(rng, quick):
    combos = [("newton", "pyramidal"), ("cg", "pyramidal"), ("newton", "elliptic")]
    if not quick:
      combos.append(("cg", "elliptic"))
    for solver, cone in combos:
      cg = solver == "cg"
      limits = [0, 1, 2, 3, 5, 8] if quick else list(range(0, 11))
      if cg:
        limits = limits + [30]
      for L in limits:
        tol = float(rng.choice([1e-8, 1e-4, 1e-2, 1e-1]))
        mm = configure(mjw, m, solver, cone, L, tol)
        nw = int(rng.integers(2, 6))
        idx = [int(x) for x in rng.integers(0, len(ds), nw)]
        if rng.random() < 0.7:
          idx[0], idx[-1] = 3, 4  # the "no contact" and the "pressed" state side by side
        pre = [int(x) for x in rng.choice([0, 0, 4, 512, 516, LS_BIT], nw)]
        ptol = None
        if rng.random() < 0.4:
          ptol = [float(x) for x in rng.choice([1e-6, 1e-4, 1e-2, 3e-1], nw)]
        runs = {}
        for gc in (True, False):
          dd, rec = run_real(mjw, mm, m, ds, idx, gc, pre, ptol)
          snap = snapshot(dd)
          runs[gc] = snap
          rows, tie = tol_booleans(mm, rec, cg)
          res.count()
          if tie:
            ndisc += 1
            continue
          line, exp = case_line(rec, rows, cg, gc, L, rng, snap["solver_niter"], snap["overflow"])
          lines.append(line)
          info = {"model": label, "solver": solver, "cone": cone, "iterations": L, "graph_conditional": gc, "sparse": bool(m.opt.jacobian == 1), "tolerance": ptol or tol, "states": idx, "entry_overflow": pre, "real": exp, "rounds": len(rec["rounds"])}
          meta.append(info)
          if L == 0 and zero_report is None:
            zero_report = {"niter": snap["solver_niter"].tolist(), "overflow": snap["overflow"].tolist(), "entry_overflow": pre, "rounds": len(rec["rounds"]), "done": rec["final_done"].tolist(), "qacc_is_finite": bool(np.isfinite(snap["qacc"]).all())}
          # property, on the real code (independent of the Coq model): with the bit clear on entry and
          # iterations >= 1, the bit is set iff no tolerance test of the world succeeded while it was live
          for w in range(nw):
            if L >= 1 and not (pre[w] & 512):
              met = any(bool(rows[k][w]) for k, r in enumerate(rec["rounds"]) if not r["done_before"][w])
              bit = bool(int(snap["overflow"][w]) & 512)
              if bit == met:
                key = "C25:iter-bit-set-although-tolerance-met" if bit else "C25:iter-bit-missing-at-limit"
                fails.append((key, f"world {w}: ITERATIONS bit {int(bit)} but tolerance met = {met} (niter {int(snap['solver_niter'][w])}, iterations {L})", dict(info, xml=xml, world=w, seed=vlib.seed(), kind="bit", state_data=dump_states(ds, idx))))
          # property, on the real code: niter <= limit
          if np.any(snap["solver_niter"] > L) or np.any(snap["solver_niter"] < 0):
            fails.append(("C25:niter-exceeds-limit", f"solver_niter {snap['solver_niter'].tolist()} with iterations={L}", dict(info, xml=xml)))
        # oracle 1: graph_conditional on vs off, bit-exact per world
        for w in range(nw):
          df = world_diff(runs[True], w, runs[False], w)
          res.count()
          if df is not None:
            fails.append((f"C25:graph-conditional-on-off:{df}", f"world {w} differs between graph_conditional on/off in {df}", {"xml": xml, "model": label, "solver": solver, "cone": cone, "iterations": L, "tolerance": ptol or tol, "states": idx, "world": w, "seed": vlib.seed(), "kind": "gc", "entry_overflow": pre, "sparse": bool(m.opt.jacobian == 1), "state_data": dump_states(ds, idx)}))
        # oracle 2: world w of the mixed batch vs a same-size batch of copies of w (no other world
        # keeps the loop running / stops it early there)
        if L in (2, 5, 8, 30) or not quick:
          for w in sorted(set(range(nw)))[: (2 if quick else nw)]:
            dd1, _ = run_real(mjw, mm, m, ds, [idx[w]] * nw, True, [pre[w]] * nw, None if ptol is None else [ptol[w]] * nw, record=False)
            one = snapshot(dd1)
            df = world_diff(runs[True], w, one, w)
            res.count()
            if df is not None:
              fails.append((f"C25:batch-vs-single:{df}", f"world {w} of the mixed batch differs from the same-size batch of its copies in {df}", {"xml": xml, "model": label, "solver": solver, "cone": cone, "iterations": L, "tolerance": ptol or tol, "states": idx, "world": w, "seed": vlib.seed(), "kind": "single", "entry_overflow": pre, "sparse": bool(m.opt.jacobian == 1), "state_data": dump_states(ds, idx)}))
        res.nontrivial(("cfg", label, solver, cone, L, tuple(runs[True]["solver_niter"].tolist())))
  return lines, meta, fails, ndisc, zero_report


def termination_criterion64(m, d, mm, dd, w):
  """(scaled |gradient|, scaled half Newton decrement) of the constrained Gauss cost at the final qacc of
  world w, recomputed in float64 from MuJoCo's inertia and mjwarp's rows (pyramidal rows only)."""
  import mujoco

  from props import C24

  nv = m.nv
  M = np.zeros((nv, nv))
  for i in range(nv):
    e, c = np.zeros(nv), np.zeros(nv)
    e[i] = 1.0
    mujoco.mj_mulM(m, d, c, e)
    M[:, i] = c
  nefc, ne, nf = int(dd.nefc.numpy()[w]), int(dd.ne.numpy()[w]), int(dd.nf.numpy()[w])
  a = dd.qacc.numpy()[w].astype(np.float64)
  J = C24.efc_J_dense(mm, dd, w, nefc, nv) if nefc else np.zeros((0, nv))
  D = dd.efc.D.numpy()[w, :nefc].astype(np.float64)
  fl = dd.efc.frictionloss.numpy()[w, :nefc].astype(np.float64)
  jar = J @ a - dd.efc.aref.numpy()[w, :nefc].astype(np.float64)
  f, act = np.zeros(nefc), np.zeros(nefc)
  for r in range(nefc):
    if r < ne:
      f[r], act[r] = -D[r] * jar[r], 1.0
    elif r < ne + nf:
      rf = fl[r] / D[r]
      if jar[r] <= -rf:
        f[r] = fl[r]
      elif jar[r] >= rf:
        f[r] = -fl[r]
      else:
        f[r], act[r] = -D[r] * jar[r], 1.0
    elif jar[r] < 0:
      f[r], act[r] = -D[r] * jar[r], 1.0
  g = M @ a - dd.qfrc_smooth.numpy()[w].astype(np.float64) - J.T @ f
  H = M + J.T @ (J * (D * act)[:, None])
  dec = float(g @ np.linalg.solve(H, g))
  mi = mm.stat.meaninertia.numpy()
  sc = float(mi[w % len(mi)]) * nv
  return float(np.linalg.norm(g)) / sc, 0.5 * dec / sc


SLACK = 10.0  # float32 noise of the gradient: observed scaled |g| <= 6e-6, scaled half decrement <= 6e-10 at tol 1e-6


def sequence_check(seq, upto=None):
  """Run one warm-started sequence; list of worlds marked done below the cap whose criterion does not hold."""
  from props import C06

  bad, stats = [], {"solves": 0, "below_cap": 0, "worst_decrement_over_tol": 0.0, "niter_max": 0}

  def on_step(k, m, dl, mm, dd):
    ni, L = dd.solver_niter.numpy(), int(mm.opt.iterations)
    tol = mm.opt.tolerance.numpy()
    for w in range(dd.nworld):
      stats["solves"] += 1
      stats["niter_max"] = max(stats["niter_max"], int(ni[w]))
      if int(ni[w]) >= L:
        continue  # stopped by the iteration cap: reported through the ITERATIONS bit
      stats["below_cap"] += 1
      sg, sd = termination_criterion64(m, dl[w], mm, dd, w)
      t = float(tol[w % len(tol)])
      stats["worst_decrement_over_tol"] = max(stats["worst_decrement_over_tol"], sd / t)
      if not (sg < SLACK * t or sd < SLACK * t):
        bad.append({"step": k, "world": w, "niter": int(ni[w]), "mujoco_niter": int(dl[w].solver_niter[0]), "scaled_gradient": sg, "scaled_half_newton_decrement": sd, "tolerance": t})

  C06.run_sequence(seq, upto=upto, on_step=on_step)
  return bad, stats


def sequence_oracle(res, quick):
  fails, agg = [], []
  cfgs = [(9, "dense", 1), (9, "sparse", 2), (12, "dense", 2), (17, "sparse", 1)]
  for i, (n, j, w) in enumerate(cfgs):
    seq = {"narm": n, "jacobian": j, "nworld": w, "seed": vlib.seed() + 250 + i, "nstep": 30 if quick else 160, "period": 5}
    bad, st = sequence_check(seq)
    res.count(st["solves"])
    res.nontrivial(("sequence", 4 * n, j, w))
    agg.append({"nv": 4 * n, "jacobian": j, "nworld": w, **st, "violations": len(bad)})
    if bad:
      b = bad[0]
      fails.append((f"C25:done-without-termination-criterion:nv{4 * n}:{j}", f"warm-started solve {b['step']} of a bang-bang friction-arm sequence (nv={4 * n}, {j}): world {b['world']} marked done after {b['niter']} iteration(s) (MuJoCo: {b['mujoco_niter']}) with scaled gradient {b['scaled_gradient']:.3g} and scaled half Newton decrement {b['scaled_half_newton_decrement']:.3g} >= {SLACK:g} x tolerance {b['tolerance']:g}; {len(bad)} such solves in the sequence", {"kind": "sequence", "sequence": seq, **b}))
  res.extra["sequence_oracle"] = agg
  return fails


GUARD_DEFS = """
From Coq Require Import String.
From VF Require Import Model.Pipeline Gen.Skel_pipeline Gen.solver_term.
Local Open Scope string_scope.
Fixpoint ev_launches (e : event) : list (string * list string) :=
  let many := (fix many (l : list event) : list (string * list string) :=
                 match l with nil => nil | x :: r => app (ev_launches x) (many r) end) in
  match e with
  | ELaunch k _ _ o => [(k, o)]
  | EGroup _ _ b => many b
  | EIf _ t el => app (many t) (many el)
  | ELoop _ b => many b
  | EZero f => [("host.zero", [f])]
  | EFill f _ => [("host.fill", [f])]
  | ECopy d _ => [("host.copy", [d])]
  | _ => nil
  end.
(* no condition decided: both branches of every `if` of the host code are kept *)
Definition iter_events := flatten program (fun _ => false) (fun _ => None) 400 "solver._solver_iteration" ["m"; "d"; "ctx"; "nsolving"] [].
Definition iter_launches := flat_map ev_launches iter_events.
Definition all_scratch (o : list string) := forallb (fun f => mem f iter_scratch) o.
Definition table_ok (k : string) : bool :=
  existsb (fun r => String.eqb (fst r) k) iter_guard_table &&
  forallb (fun r => negb (String.eqb (fst r) k) || String.eqb (fst (snd r)) "ok") iter_guard_table.
Definition guard_fact : bool :=
  evs_ok iter_events && negb (Nat.eqb (List.length iter_launches) 0) &&
  forallb (fun l => all_scratch (snd l) || table_ok (fst l)) iter_launches &&
  inter_nil iter_scratch post_loop_reads &&
  forallb (fun f => String.prefix "ctx." f) iter_scratch.
(* fast-path skips: only the Hessian update may be skipped on ctx.quad_changed_count *)
Definition skip_fact : bool :=
  negb (Nat.eqb (List.length iter_skip_table) 0) &&
  forallb (fun r => forallb (fun c => mem c skip_ok_counters) (fst (snd r)) || forallb (fun f => mem f hessian_only) (snd (snd r))) iter_skip_table.
Local Close Scope string_scope.
"""


def guard_obligations(res, g):
  """One obligation per launched kernel (Python side) + the joined vm_compute fact (Coq side)."""
  import tvalid

  bad = []
  for r in g.rows:
    ok = r["verdict"] == "ok"
    how = ", ".join(r["guards"]) if r["guards"] else r["why"]
    res.obligation(f"done-guard:{r['kernel']}@{r['host']}:{r['line']}", ok, f"outs {r['outs']}; {how}" if ok else f"{r['why']} (outs {r['outs']})")
    if not ok:
      bad.append({"kernel": r["kernel"], "host": r["host"], "line": r["line"], "why": r["why"], "outs": r["outs"]})
  scratch_after = [f for f in g.post_loop_reads if f in __import__("gens_term").SCRATCH or f.startswith("?")]
  res.obligation("scratch fields are not read after the iteration loop of _solve", not scratch_after, f"post-loop reads {g.post_loop_reads}")
  if scratch_after:
    bad.append({"post_loop_reads_scratch": scratch_after})
  # fast-path skip pin
  nsk = 0
  for r in g.rows:
    for k in r.get("skips", []):
      nsk += 1
      res.obligation(f"skip-counter:{r['kernel']}@{r['host']}:{r['line']}", k["ok"], f"early return when {k['param']} (= {k['bound']}) is 0 skips stores to {k['stores_after']}" + ("" if k["ok"] else ": only ctx.state_changed_count / d.nefc may gate anything but ctx.h"))
      if not k["ok"]:
        bad.append({"kernel": r["kernel"], "host": r["host"], "line": r["line"], "why": f"fast-path skip of {k['stores_after']} tests {k['bound']}"})
  res.obligation("fast-path skip table is not empty (pin still anchored)", nsk > 0, f"{nsk} early returns on change counters")
  if nsk == 0:
    bad.append({"kernel": "skip-table-empty"})
  res.extra["fast_path_skips"] = [{"kernel": r["kernel"], **{a: b for a, b in k.items()}} for r in g.rows for k in r.get("skips", [])]
  res.extra["iteration_kernels"] = [{"kernel": r["kernel"], "outs": r["outs"], "guard": r["guards"] or r["why"], "verdict": r["verdict"]} for r in g.rows]
  try:
    v = tvalid.run_cases("C25g", [], ["if guard_fact then 0%nat else 2%nat", "if skip_fact then 0%nat else 2%nat"], extra_defs=GUARD_DEFS)
    okc = v == [0, 0]
    detail = f"verdicts {v}: Skel_pipeline flatten of _solver_iteration: every launch writes scratch only or is 'ok' in iter_guard_table; iter_skip_table: skips of anything but ctx.h test state_changed_count / d.nefc"
  except Exception as e:  # Gen file does not compile: fail closed
    okc, detail = False, f"{type(e).__name__}: {str(e)[-400:]}"
  res.obligation("vm_compute: launches of _solver_iteration (Skel_pipeline) are covered by the guard table", okc, detail)
  res.count(len(g.rows) + 1)
  if not okc and not bad:
    bad.append({"coq_guard_fact": detail})
  return bad


def rescale_gen(rng, n):
  nv = rng.integers(1, 120, n).astype(np.int32)
  mi = (10.0 ** rng.uniform(-3, 2, n)).astype(np.float32)
  x = (rng.standard_normal(n) * 10.0 ** rng.uniform(-8, 2, n)).astype(np.float32)
  return [nv, mi, x]


def run(res):
  quick = res.tier == "quick"
  res.rule = "cases: (model, solver, cone, iterations, graph_conditional, tolerance, batch composition, entry overflow word); distinct = configurations with a distinct per-world niter vector; near-tie tolerance comparisons are discarded"
  ok, trs, failing = propkit.prove(res, "Props/C25.v", gen_names=["Skel_pipeline", "solver_term"], required_funcs=["_rescale"])
  g = trs.get("solver_term")
  bad_guard = []
  tbad = []
  with vlib.Lock():  # the case files import these; Props/C25.vo does not depend on the Gen files
    okg, outg, failg = vlib.coq_make(["Gen/solver_term.vo", "Gen/Skel_pipeline.vo", "Model/Term.vo"])
  if not okg:
    res.obligation("build: Gen/solver_term.vo Gen/Skel_pipeline.vo", False, f"first failure at {failg}")
    res.extra["coq_log_tail"] = outg[-2000:]
    ok, failing = False, failing or failg
    g = None
  vlib.log(f"[C25] proofs built, {time.time() - res.t0:.0f}s")
  if g is not None:
    bad_guard = guard_obligations(res, g)
    if g.tr is not None and "_rescale" in g.signatures():
      import tvalid

      tv = tvalid.TValid("C25t", g.tr, "Gen.solver_term")
      tv.add("_rescale", gen=rescale_gen, tol=1e-5)
      tbad, _ = tv.run(res, n_per_fn=100 if quick else 1000)
      res.obligation("T-validation: translated solver._rescale agrees with compiled Warp", not tbad, f"{len(tbad)} disagreements")
  else:
    bad_guard = [{"generator": "solver_term failed"}]

  vlib.log(f"[C25] S/T done, {time.time() - res.t0:.0f}s")
  lines, meta, fails, ndisc, zero_report = experiments(res, quick)
  vlib.log(f"[C25] real-solver runs done ({len(lines)} cases), {time.time() - res.t0:.0f}s")
  fails = fails + sequence_oracle(res, quick)
  vlib.log(f"[C25] warm-started sequences done, {time.time() - res.t0:.0f}s")
  import tvalid

  verdicts = tvalid.run_cases("C25", ["Model.Term"], lines) if lines else []
  dis = [meta[i] for i, v in enumerate(verdicts) if v == 2]
  res.obligation("correspondence: Model/Term.v solve vs real solver_niter / done / overflow / nsolving / executed iterations", not dis and len(verdicts) > 0, f"{len(verdicts)} cases, {len(dis)} disagree, {ndisc} discarded (near-tie)")
  def _niters(x):
    return x["real"][0 : 4 * len(x["states"]) : 4]

  def _bits(x):
    return x["real"][1 : 4 * len(x["states"]) : 4]

  res.extra["correspondence"] = {
    "cases": len(verdicts), "disagree": len(dis), "discarded_near_tie": ndisc,
    "mixed_niter_batches": sum(1 for x in meta if len(set(_niters(x))) > 1),
    "batches_with_some_but_not_all_worlds_at_limit": sum(1 for x in meta if 0 < sum(_bits(x)) < len(x["states"])),
    "fixed_loop_ran_past_last_convergence": sum(1 for x in meta if not x["graph_conditional"] and x["rounds"] > max(_niters(x))),
    "while_loop_stopped_early": sum(1 for x in meta if x["graph_conditional"] and 0 < x["rounds"] < x["iterations"]),
    "entry_bit_already_set": sum(1 for x in meta if any(o & 512 for o in x["entry_overflow"])),
  }  # fmt: skip
  if meta:
    res.sample({"kind": "correspondence", **meta[0]})
    mixed = [x for x in meta if len(set(_niters(x))) > 1]
    if mixed:
      res.sample({"kind": "correspondence (mixed convergence)", **mixed[0]})
  if zero_report is not None:
    res.extra["iterations_zero_on_real_code"] = zero_report
    z_ok = all(n == 0 for n in zero_report["niter"]) and zero_report["rounds"] == 0 and all((a ^ b) & 512 == 0 for a, b in zip(zero_report["overflow"], zero_report["entry_overflow"])) and not any(zero_report["done"])
    res.obligation("iterations = 0 on the real code: no iteration, niter = 0, done False, ITERATIONS bit untouched (model: C25_iterations_zero)", z_ok, json.dumps(zero_report))
  seen = set()
  for key, what, data in fails:
    if key in seen:
      continue
    seen.add(key)
    res.violation(key, what, data)
  if dis and not fails:
    res.violation("C25:model-mismatch", "Model/Term.v disagrees with the real termination bookkeeping (model no longer tied to the code)", dis[:3], found_input=False)
  if tbad and not fails:
    res.violation("C25:translator-mismatch", "translated _rescale disagrees with the compiled function", tbad[:3], found_input=False)
  if bad_guard and not fails:
    propkit.broken_proof_violation(res, "C25 done-guard discipline of _solver_iteration (kernel without the guard)", "S:" + ",".join(str(b.get("kernel", b)) for b in bad_guard)[:200], bad_guard)
  elif not ok and not fails:
    propkit.broken_proof_violation(res, "C25 termination theorems", failing)
  res.assumptions += [
    "iterations >= 1 for the ITERATIONS-bit theorem; iterations = 0 runs no iteration and sets no bit (C25_iterations_zero, observed on the real code)",
    "the bit theorem is per solve, for a world entered with the bit clear: d.overflow is sticky and only reset_data clears it",
    "bit-identity of a done world's qacc/forces under extra iterations follows from the guard table (S) and is tested (batch vs copies, graph_conditional on/off), not proved from kernel semantics",
    "sequence oracle: pyramidal rows only (friction arms); criterion = scaled |gradient| or scaled half Newton decrement below 10 x tolerance in float64 (the solver's third criterion, the cost improvement of the last step, is bounded by the decrement of the previous iterate and is not recomputed)",
    "CPU back end (capture_while is a host loop); per-round booleans recomputed in numpy float32, near-tie comparisons discarded",
  ]


def replay(res, path):
  """Re-run one stored failing comparison on the real code; exit code 1 if it still fails."""
  import mujoco

  import mujoco_warp as mjw

  r = json.load(open(path))["replay"]
  if isinstance(r, dict) and r.get("kind") == "sequence":
    bad, st = sequence_check(r["sequence"], upto=int(r["step"]))
    hit = [b for b in bad if b["step"] == int(r["step"]) and b["world"] == int(r["world"])]
    print(f"sequence {r['sequence']}: solve {r['step']} world {r['world']}")
    print("failing solves up to that step:", [(b["step"], b["world"], b["niter"], round(b["scaled_half_newton_decrement"], 4)) for b in bad])
    print("FAIL reproduced" if hit else "not reproduced")
    return 1 if hit else 0
  if not isinstance(r, dict) or "xml" not in r or "state_data" not in r:
    print("no concrete input in this replay file (broken obligation / model mismatch): re-run ./check C25")
    return 1
  m = mujoco.MjModel.from_xml_string(r["xml"])
  if r.get("sparse"):
    m.opt.jacobian = mujoco.mjtJacobian.mjJAC_SPARSE
  ds = []
  for st in r["state_data"]:
    d = mujoco.MjData(m)
    for f in STATE_F:
      a = np.asarray(st[f], dtype=np.float64)
      if a.size:
        getattr(d, f)[:] = a.reshape(getattr(d, f).shape)
    ds.append(d)
  nw = len(ds)
  idx = list(range(nw))
  tolv = r["tolerance"]
  ptol = tolv if isinstance(tolv, list) else None
  L = int(r["iterations"])
  mm = configure(mjw, m, r["solver"], r["cone"], L, 1e-6 if ptol else float(tolv))
  pre = r.get("entry_overflow", [0] * nw)
  w = int(r.get("world", 0))
  kind = r.get("kind")
  print(f"replay {kind}: solver {r['solver']} cone {r['cone']} iterations {L} tolerance {tolv} world {w}")
  bad = False
  if kind == "bit":
    gc = bool(r.get("graph_conditional", True))
    dd, rec = run_real(mjw, mm, m, ds, idx, gc, pre, ptol)
    rows, tie = tol_booleans(mm, rec, r["solver"] == "cg")
    met = any(bool(rows[k][w]) for k, q in enumerate(rec["rounds"]) if not q["done_before"][w])
    bit = bool(int(dd.overflow.numpy()[w]) & 512)
    print(f"world {w}: niter {int(dd.solver_niter.numpy()[w])}, ITERATIONS bit {int(bit)}, tolerance met in a live round: {met}, near tie: {tie}")
    bad = L >= 1 and not (pre[w] & 512) and bit == met
  else:
    a, _ = run_real(mjw, mm, m, ds, idx, True, pre, ptol, record=False)
    if kind == "gc":
      b, _ = run_real(mjw, mm, m, ds, idx, False, pre, ptol, record=False)
      wb = w
    else:
      b, _ = run_real(mjw, mm, m, ds, [w] * nw, True, [pre[w]] * nw, None if ptol is None else [ptol[w]] * nw, record=False)
      wb = w
    sa, sb = snapshot(a), snapshot(b)
    df = world_diff(sa, w, sb, wb)
    print("solver_niter:", sa["solver_niter"].tolist(), "vs", sb["solver_niter"].tolist())
    print("qacc world", w, ":", sa["qacc"][w].tolist(), "vs", sb["qacc"][wb].tolist())
    print("first differing field:", df)
    bad = df is not None
  print("FAIL reproduced" if bad else "not reproduced")
  return 1 if bad else 0
