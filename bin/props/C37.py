"""C37 Pipeline stages compose consistently.

Proof (S-tied): Props/C37.v over the host program regenerated from /repo by extract_launch
(Gen/Skel_pipeline.v): step1;step2 == step for Euler and implicit/implicitfast (verified
normaliser + footprint semantics), forward() state frame (with the d.history exception,
stated as a _refuted theorem).  Oracles on the real code: step vs step1;step2 bit-exact,
factor_m;solve_m vs factor_solve_i (the semantic hypothesis of the theorem), forward()
leaves the integration state untouched and is idempotent."""

from __future__ import annotations

import json

import numpy as np

import propkit
import vlib

MANIFEST = {
  "text": "proof: for the host-side stage sequences regenerated from forward.py/smooth.py/... on every run, flatten(step1)++flatten(step2) and flatten(step) have the same meaning in an abstract footprint semantics (any interpretation of launches that respects the extracted inputs/outputs lists), for Euler and for implicit/implicitfast, sleep disabled, no user callbacks, RK4 excluded; forward() writes no integration-state field except d.history (refutation witness: history._insert_sensor_history_stage); tested only: that the fused factor_solve_i equals factor_m;solve_m numerically (hypothesis of the theorem), bit-exact step vs step1;step2 on random models, forward idempotence",
  "note": "trusted: Coq kernel; extractor bin/extract_launch.py (Python ast -> stage language; textual field names, two convex-narrowphase launches with an unresolved output list); the abstract semantics Model/Pipeline.v (field-granular footprints, kernels uninterpreted); numerical equality of fused and split factor/solve is an oracle result, not a theorem",
  "technique": "Rocq proof over a stage program machine-extracted from the source (S): verified normaliser + decidable equality by vm_compute, plus differential oracle on the implementation",
  "engine": "coq",
}

PROPS = "Props/C37.v"
STATE = ["time", "qpos", "qvel", "act", "history", "qacc_warmstart", "ctrl", "qfrc_applied", "xfrc_applied", "eq_active", "mocap_pos", "mocap_quat", "userdata"]
OUT = ["qpos", "qvel", "act", "time", "qacc_warmstart", "history", "sensordata", "qacc", "qacc_smooth", "qLD", "qLDiagInv"]
# Tolerance.  The fused factor_solve_i kernel and factor_m;solve_m are two backward-stable Cholesky solves of the same
# system; they are NOT bit-identical on the real code (the fused kernel keeps the factor in registers): measured
# |x1-x2|/max|x| <= 5e-7 (4 float32 ulps) on the random models.  Their difference is bounded by c*cond(M)*2^-24, so
# 1e-4 (cond(M) up to ~1e3) is the violation threshold for the solve and for everything downstream of it; the
# measured worst values and the number of bit-identical cases are recorded in the evidence.
TOL = 1e-4
FWD_OUT = ["efc.aref", "efc.force", "qfrc_constraint", "qacc", "sensordata", "qacc_smooth", "qfrc_smooth", "actuator_force"]

HISTORY_XML = """<mujoco><option timestep="0.002"/><worldbody><body><joint name="j" type="hinge" axis="0 1 0"/><geom size="0.1" pos="0.3 0 0"/></body></worldbody>
<sensor><jointpos joint="j" delay="{delay}" nsample="{nsample}"/><jointvel joint="j" interval="0.004" nsample="3"/></sensor></mujoco>"""


def _get(dd, name):
  o = dd
  for p in name.split("."):
    o = getattr(o, p)
  return o.numpy().copy()


def _snap(dd, names):
  return {n: _get(dd, n) for n in names}


def _diff(a, b):
  return [n for n in a if not np.array_equal(a[n], b[n], equal_nan=True)]


def _config(k):
  integ = ["Euler", "implicitfast", "implicit"][k % 3]
  jac = ["dense", "sparse"][(k // 3) % 2]
  solver = ["Newton", "CG"][(k // 6) % 2]
  return integ, jac, solver


VARIANTS = ["plain", "cg_low_iter", "njmax0_noeulerdamp"]


def make_case(k, equality=None):
  """Random model k.  Every second model has fixed + spatial tendons with armature > 0 (so that d.M has writers other
  than crb); variants: CG with an iteration budget of 2 and frequent active limits, and njmax=0 (qacc := qacc_smooth)
  with eulerdamp disabled, which carry an inconsistent factorisation through to qvel/qpos."""
  import mujoco

  import models

  rng = np.random.default_rng(vlib.seed() + 3700 + k)
  integ, jac, solver = _config(k)
  variant = VARIANTS[(k // 2) % 3] if k % 2 == 1 else "plain"
  eq = int(rng.integers(0, 2)) if equality is None else equality
  opt = f'integrator="{integ}" jacobian="{jac}" solver="{solver}"'
  if variant == "cg_low_iter":
    opt = f'integrator="{integ}" jacobian="{jac}" solver="CG" iterations="2"'
  tend = k % 2 == 1
  o = models.Opts(
    nbody=(3, 6) if tend else (2, 6), plane=True, contacts=True, actuators=int(rng.integers(0, 4)), equality=eq,
    limits=0.8 if variant == "cg_low_iter" else 0.3, tendons=2 if tend else 0, sites=1.0 if tend else 0.5,
    joint_types=("hinge", "slide", "hinge", "ball") if tend else ("hinge", "slide", "ball", "free"), option=opt,
  )  # fmt: skip
  xml, info = models.random_model(rng, o)
  if tend:
    for t in info.get("tendons", []):
      tag = "spatial" if t == "ts" else "fixed"
      xml = xml.replace(f'<{tag} name="{t}"', f'<{tag} name="{t}" armature="{rng.uniform(0.05, 0.5):.3g}"')
  if variant == "njmax0_noeulerdamp":
    xml = xml.replace("<mujoco>", '<mujoco><option><flag eulerdamp="disable"/></option>', 1)
  # sensors of the three stages (position / velocity / acceleration) so that a stage dropped from step1/step2 shows
  sens = ""
  for jn, jt, _b in info["joints"]:
    if jt in ("hinge", "slide"):
      sens += f'<jointpos joint="{jn}"/><jointvel joint="{jn}"/>'
  sens += '<framepos objtype="body" objname="b0"/><framelinvel objtype="body" objname="b0"/><framelinacc objtype="body" objname="b0"/>'
  sens += "".join(f'<actuatorfrc actuator="{a}"/>' for a in info.get("actuators", []))
  xml = xml.replace("</mujoco>", f"<sensor>{sens}</sensor></mujoco>")
  m = mujoco.MjModel.from_xml_string(xml)
  d = mujoco.MjData(m)
  models.random_state(rng, m, d, vel_scale=1.0, unnormalized=False)
  return xml, m, d, (integ, jac, "CG" if variant == "cg_low_iter" else solver, variant, int(m.ntendon), float(np.sum(m.tendon_armature)))


def put(m, d, cfg, nworld=2):
  import mujoco_warp as mjw

  if cfg[3] == "njmax0_noeulerdamp":
    return mjw.put_data(m, d, nworld=nworld, njmax=0)
  return mjw.put_data(m, d, nworld=nworld)


def has_connect_weld(m):
  import mujoco

  return bool(np.any((m.eq_type == mujoco.mjtEq.mjEQ_CONNECT) | (m.eq_type == mujoco.mjtEq.mjEQ_WELD)))


def split_case(mm, m, d, nsteps, cfg=("", "", "", "plain")):
  """step vs step1;step2 on identical Data copies; returns (differing fields, max relative diff, Data, qLD check)."""
  import mujoco_warp as mjw

  from mujoco_warp._src import smooth

  da = put(m, d, cfg)
  db = put(m, d, cfg)
  bad, worst = [], 0.0
  for s in range(nsteps):
    mjw.step(mm, da)
    mjw.step1(mm, db)
    mjw.step2(mm, db)
    a, b = _snap(da, OUT), _snap(db, OUT)
    for n in _diff(a, b):
      bad.append(f"{n}@{s}")
      with np.errstate(invalid="ignore"):
        x, y = a[n].astype(np.float64), b[n].astype(np.float64)
        if np.isnan(x).any() != np.isnan(y).any():
          worst = float("inf")
        else:
          worst = max(worst, float(np.nanmax(np.abs(x - y)) / (1e-30 + np.nanmax(np.abs(x)))))
  # the factorisation step1 hands to step2 must be the factorisation of the d.M it leaves (same kernel, same
  # input: bit-identical on a consistent tree)
  dc = put(m, d, cfg)
  mjw.step1(mm, dc)
  l1, di1 = dc.qLD.numpy().copy(), dc.qLDiagInv.numpy().copy()
  smooth.factor_m(mm, dc)
  l2, di2 = dc.qLD.numpy(), dc.qLDiagInv.numpy()
  with np.errstate(invalid="ignore"):
    qld = max(float(np.nanmax(np.abs(l1 - l2), initial=0.0)), float(np.nanmax(np.abs(di1 - di2), initial=0.0)))
  return bad, worst, da, qld


def fused_case(mm, dd):
  """The theorem's hypothesis on the real kernels: factor_m;solve_m vs factor_solve_i."""
  import warp as wp

  from mujoco_warp._src import smooth

  y = dd.qfrc_smooth
  dd.qLD.zero_()
  dd.qLDiagInv.zero_()
  x1 = wp.zeros_like(dd.qacc_smooth)
  smooth.factor_m(mm, dd)
  smooth.solve_m(mm, dd, x1, y)
  L1, D1 = dd.qLD.numpy().copy(), dd.qLDiagInv.numpy().copy()
  L2, D2, x2 = wp.zeros_like(dd.qLD), wp.zeros_like(dd.qLDiagInv), wp.zeros_like(x1)
  smooth.factor_solve_i(mm, dd, dd.M, L2, D2, x2, y)
  out = {}
  for nm, a, b in (("qLD", L1, L2.numpy()), ("qLDiagInv", D1, D2.numpy()), ("x", x1.numpy(), x2.numpy())):
    if not np.array_equal(a, b, equal_nan=True):
      with np.errstate(invalid="ignore", divide="ignore"):
        out[nm] = float(np.nanmax(np.abs(a - b)) / (1e-30 + np.nanmax(np.abs(a))))
  return out


def forward_case(mm, dd):
  """forward(): state frame and idempotence on a Data that has just been stepped."""
  import mujoco_warp as mjw

  s0 = _snap(dd, STATE)
  mjw.forward(mm, dd)
  s1, f1 = _snap(dd, STATE), _snap(dd, FWD_OUT)
  mjw.forward(mm, dd)
  f2 = _snap(dd, FWD_OUT)
  return _diff(s0, s1), _diff(f1, f2)


CVEL_XML = """<mujoco><option gravity="0 0 -9.81"/><worldbody>
<body name="a" pos="0 0 1"><joint type="hinge" axis="0 1 0"/><geom size="0.05" pos="0.3 0 0"/>
 <body name="b" pos="0.3 0 0"><joint type="hinge" axis="0 1 0"/><geom size="0.05" pos="0.3 0 0"/></body></body>
</worldbody><equality><connect body1="b" body2="world" anchor="0.3 0 0"/></equality></mujoco>"""


def cvel_case():
  """Directed regression (finding C37:forward:not-idempotent:equality-jdot-stale-cvel, repaired in /repo):
  forward() twice on a FRESH Data with a connect constraint and non-zero velocity."""
  import mujoco

  import mujoco_warp as mjw

  m = mujoco.MjModel.from_xml_string(CVEL_XML)
  mm = mjw.put_model(m)
  dd = mjw.make_data(m)
  dd.qpos.assign(np.array([[0.3, -0.2]], dtype=np.float32))
  dd.qvel.assign(np.array([[2.0, -1.0]], dtype=np.float32))
  mjw.forward(mm, dd)
  q1 = dd.qacc.numpy()[0].copy()
  mjw.forward(mm, dd)
  q2 = dd.qacc.numpy()[0].copy()
  d = mujoco.MjData(m)
  d.qpos[:], d.qvel[:] = [0.3, -0.2], [2.0, -1.0]
  mujoco.mj_forward(m, d)
  return {"xml": CVEL_XML, "qpos0": [0.3, -0.2], "qvel0": [2.0, -1.0], "qacc_forward1": q1.tolist(), "qacc_forward2": q2.tolist(),
          "qacc_mujoco": d.qacc.tolist(), "differs": not np.array_equal(q1, q2)}  # fmt: skip


def history_case(delay, nsample, nstep=3):
  """Directed: sensor with delay (history buffer).  Returns dict of observations."""
  import mujoco

  import mujoco_warp as mjw

  xml = HISTORY_XML.format(delay=delay, nsample=nsample)
  m = mujoco.MjModel.from_xml_string(xml)
  d = mujoco.MjData(m)
  d.qpos[0], d.qvel[0] = 0.3, 1.0
  mm, dd = mjw.put_model(m), mjw.put_data(m, d)
  for _ in range(nstep):
    mjw.step(mm, dd)
  h0 = dd.history.numpy().copy()
  mjw.forward(mm, dd)
  h1, s1 = dd.history.numpy().copy(), dd.sensordata.numpy().copy()
  mjw.forward(mm, dd)
  h2, s2 = dd.history.numpy().copy(), dd.sensordata.numpy().copy()
  # MuJoCo reference: mj_forward leaves history alone
  for _ in range(nstep):
    mujoco.mj_step(m, d)
  c0 = d.history.copy()
  mujoco.mj_forward(m, d)
  return {
    "xml": xml, "nstep": nstep, "history_changed_by_forward": not np.array_equal(h0, h1),
    "sensordata_forward1": s1[0].tolist(), "sensordata_forward2": s2[0].tolist(), "sensordata_differs": not np.array_equal(s1, s2),
    "history_before": h0[0].tolist(), "history_after": h1[0].tolist(), "mujoco_history_changed_by_mj_forward": not np.array_equal(c0, d.history),
  }  # fmt: skip


def run(res):
  import mujoco_warp as mjw

  quick = res.tier == "quick"
  res.rule = "oracle cases: distinct random MJCF models (plane contacts, actuators with activation, optional equality, limits) x integrator {Euler, implicitfast, implicit} x jacobian {dense, sparse} x solver {Newton, CG}; every second model has fixed and spatial tendons with armature > 0, in the variants plain / CG with 2 iterations and frequent active limits / njmax=0 with eulerdamp disabled; each compared (step vs step1;step2 with relative tolerance 1e-4 and bit-identity counted over several steps, fused vs split factor/solve, forward state frame, forward twice); plus directed delayed-sensor models"
  ok, trs, failing = propkit.prove(res, PROPS, gen_names=["Skel_pipeline"])
  sk = trs.get("Skel_pipeline")
  if sk is not None:
    errs = [e for f in sk.prog.values() for e in f.get("errors", [])]
    res.assumptions.append("extractor: launches with an unresolved inputs/outputs list (footprint hole, convex narrowphase contact writers): " + ("; ".join(errs) or "none"))

  nmodels = 18 if quick else 120
  nsteps = 4 if quick else 12
  found = False
  split_bad, fused_bad, fused_worst, split_inexact, split_worst = [], [], 0.0, 0, 0.0
  for k in range(nmodels):
    xml, m, d, cfg = make_case(k)
    mm = mjw.put_model(m)
    bad, worst, da, qld = split_case(mm, m, d, nsteps, cfg)
    res.count()
    if np.all(np.isfinite(da.qpos.numpy())):
      res.nontrivial(("split", xml))
    if bad:
      split_inexact += 1
      split_worst = max(split_worst, worst)
    if qld > 0.0:
      found = True
      res.violation(
        "C37:split:step1-qLD-not-factorisation-of-M",
        f"after step1 d.qLD/d.qLDiagInv differ from factor_m of the d.M it leaves (max abs {qld:.3g}): step2's solve_m uses a factorisation of an unfinished inertia matrix",
        {"case": k, "xml": xml, "config": cfg, "qpos0": d.qpos.tolist(), "qvel0": d.qvel.tolist(), "nsteps": nsteps, "qLD_max_abs_diff": qld},
      )
    if bad and worst > TOL:
      split_bad.append({"case": k, "xml": xml, "config": cfg, "fields": bad[:8], "max_abs_diff": worst, "qpos0": d.qpos.tolist(), "qvel0": d.qvel.tolist(), "nsteps": nsteps})
    # the semantic hypothesis of the theorem (fused == factor then solve), measured
    fd = fused_case(mm, da)
    res.count()
    if fd:
      fused_worst = max(fused_worst, max(fd.values()))
      fused_bad.append({"case": k, "xml": xml, "config": cfg, "rel_diff": fd})
    # forward(): state frame + idempotence
    st_changed, fwd_diff = forward_case(mm, da)
    res.count()
    res.nontrivial(("forward", xml))
    if k == 0:
      res.sample({"kind": "oracle", "config": cfg, "nv": int(m.nv), "nacon": int(da.nacon.numpy()[0]), "split_diff": bad, "fused_rel_diff": fd, "forward_state_changed": st_changed, "forward_twice_diff": fwd_diff})
    data = {"case": k, "xml": xml, "config": cfg, "qpos0": d.qpos.tolist(), "qvel0": d.qvel.tolist(), "steps_before": nsteps}
    if st_changed:
      found = True
      res.violation("C37:forward:changes-state:" + st_changed[0], f"forward() changed integration-state field(s) {st_changed}", data)
    if fwd_diff:
      found = True
      if has_connect_weld(m) and "efc.aref" in fwd_diff:
        res.violation(
          "C37:forward:not-idempotent:equality-jdot-stale-cvel",
          f"forward() twice on the same state gives different {fwd_diff}: connect/weld rows subtract Jdot*qvel computed from d.cvel/d.cdof_dot of the PREVIOUS velocity stage",
          data,
        )
      else:
        res.violation("C37:forward:not-idempotent:" + fwd_diff[0], f"forward() twice on the same state gives different {fwd_diff}", data)
  for f in split_bad[:3]:
    found = True
    res.violation(f"C37:split:step1-step2-differs-from-step:{f['config'][0]}", f"step vs step1;step2 differ in {f['fields']} (max relative {f['max_abs_diff']:.3g} > {TOL})", f)
  res.obligation(
    "oracle: step == step1;step2 on random models (state, sensordata, qacc, qacc_smooth)",
    not split_bad,
    f"{len(split_bad)} of {nmodels} models beyond {TOL}; {nmodels - split_inexact} bit-identical in every compared field, worst relative diff {split_worst:.3g}",
  )
  res.extra["split_worst_rel_diff"] = split_worst
  res.obligation("hypothesis fused_eq_split validated on the real kernels (factor_m;solve_m vs factor_solve_i)", fused_worst <= TOL, f"{len(fused_bad)} of {nmodels} models not bit-identical, worst relative diff {fused_worst:.3g}")
  if fused_worst > TOL:
    found = True
    res.violation("C37:fused-factor-solve-differs-from-split", f"factor_solve_i vs factor_m;solve_m relative difference {fused_worst:.3g}", fused_bad[:2])
  res.extra["fused_vs_split_worst_rel_diff"] = fused_worst

  # directed regression: connect constraint, forward() twice on a fresh Data (repaired finding, same key)
  c = cvel_case()
  res.count()
  res.nontrivial(("cvel-directed",))
  res.sample({"kind": "directed-cvel", **{k2: c[k2] for k2 in ("qacc_forward1", "qacc_forward2", "qacc_mujoco", "differs")}})
  if c["differs"]:
    found = True
    res.violation("C37:forward:not-idempotent:equality-jdot-stale-cvel", "forward() twice on a fresh Data with a connect constraint gives different qacc: make_constraint reads d.cvel/d.cdof_dot of the previous velocity stage", c)
  # directed: delayed / interval sensors (history buffers)
  for delay, nsample in ((0.004, 2), (0.01, 4)) if quick else ((0.004, 2), (0.01, 4), (0.002, 1), (0.02, 6)):
    h = history_case(delay, nsample)
    res.count()
    res.nontrivial(("history", delay, nsample))
    if delay == 0.004:
      res.sample({"kind": "history", **{k2: h[k2] for k2 in ("history_changed_by_forward", "sensordata_differs", "mujoco_history_changed_by_mj_forward")}})
    if h["history_changed_by_forward"] or h["sensordata_differs"]:
      found = True
      res.violation(
        "C37:forward:writes-history:sensor-delay",
        "forward() inserts the fresh sensor sample into d.history (State.HISTORY): integration state changed by forward(), and a second forward() returns different delayed sensordata when the insert evicts the sample being read; mujoco.mj_forward leaves d.history untouched",
        h,
      )
      break
  # a broken proof needs a NEW failing input: inputs of findings already recorded in known_findings.json do not count
  known = {f["key"] for f in vlib.load_known().get("findings", []) if f.get("property") == "C37"}
  new_input = any(v["found_input"] and v["key"] not in known for v in res.violations)
  if not ok and not new_input:
    propkit.broken_proof_violation(res, "C37 theorems over the regenerated host program", failing)
  res.assumptions += [
    "kernels are uninterpreted: the theorem is over every interpretation that respects the wp.launch inputs/outputs lists extracted from the source; field names are text (aliasing through slices/locals is guarded only for the events the factorisation is moved across)",
    "fused factor_solve_i == factor_m;solve_m is a hypothesis of the theorem; on the real kernels it holds only up to float32 rounding (measured <= 5e-7 relative, threshold 1e-4), so the real step and step1;step2 agree up to rounding in qacc_smooth and downstream; state outputs were bit-identical in the tested models",
    "sleep disabled, no user callbacks, RK4 excluded (step2 integrates RK4 models with Euler by design)",
    "forward idempotence is tested, not proved (field-granular def-before-use cannot show it; see C12)",
  ]


def replay(res, path):
  import mujoco

  import mujoco_warp as mjw

  r = json.load(open(path))["replay"]
  if isinstance(r, list):
    r = r[0] if r else {}
  if "xml" not in r:
    print("replay: no concrete input in this file (proof breakage); re-run the check")
    return 1
  if "history_changed_by_forward" in r:
    h = history_case(0.004, 2, r.get("nstep", 3)) if "delay=\"0.004\"" in r["xml"] else None
    print(json.dumps(h or r, indent=1)[:1500])
    return 0
  m = mujoco.MjModel.from_xml_string(r["xml"])
  d = mujoco.MjData(m)
  d.qpos[:] = r["qpos0"]
  d.qvel[:] = r["qvel0"]
  mm = mjw.put_model(m)
  cfg = tuple(r.get("config", ("", "", "", "plain")))
  bad, worst, da, qld = split_case(mm, m, d, r.get("nsteps", r.get("steps_before", 4)), cfg if len(cfg) > 3 else ("", "", "", "plain"))
  print("step vs step1;step2 differing fields:", bad, "max relative", worst, "| qLD after step1 vs factor_m(d.M):", qld)
  print("fused vs split:", fused_case(mm, da))
  print("forward state changed / forward twice differs:", forward_case(mm, da))
  return 0
