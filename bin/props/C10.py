"""C10 Per-world model parameters take effect only in their world."""

from __future__ import annotations

import copy
import dataclasses

import numpy as np

import propkit
import vlib

MANIFEST = {
  "text": "proof: vm_compute fact over the access table regenerated from /repo: every access to a batched ('*') Model/Option field in kernels reachable from step/forward/inverse reads it at world_id mod its OWN leading size and never writes it (up to the committed baseline), plus the modulo-index lemmas; combined with C09's non-interference theorem. The per-field dynamic experiment (batched model vs unbatched model holding row i, bit-exact) enumerates the batchable float fields",
  "note": "trusted: extract_access.py; types.py field specs as the definition of 'batchable'; Model/BatchBaseline.v; fields whose effect needs set_const are compared raw (both sides skip set_const)",
  "technique": "Rocq: regenerated access table checked by vm_compute (S) + lemma library; differential per-field experiment",
  "engine": "coq",
}

SKIP = {"geom_dataid", "geom_matid", "light_type", "light_castshadow", "light_active", "mat_texid"}  # integer/bool ids: not perturbed


def batch_fields():
  from mujoco_warp._src import types

  out = []
  for cls, key in ((types.Model, "m"), (types.Option, "opt"), (types.Statistic, "stat")):
    for f in dataclasses.fields(cls):
      t = f.type
      if hasattr(t, "shape") and t.shape and t.shape[0] == "*" and f.name not in SKIP:
        out.append((key, f.name))
  return out


def get_field(mm, key, name):
  obj = mm if key == "m" else getattr(mm, key)
  return getattr(obj, name)


def with_field(mm, key, name, arr):
  m2 = copy.copy(mm)
  if key == "m":
    setattr(m2, name, arr)
  else:
    sub = copy.copy(getattr(mm, key))
    setattr(sub, name, arr)
    setattr(m2, key, sub)
  return m2


def perturb(rng, name, base, k):
  """k rows derived from base (shape (1, ...)): multiplicative noise keeps signs/zeros meaningful."""
  b = np.repeat(base, k, axis=0).astype(np.float64)
  noise = 1.0 + 0.15 * rng.standard_normal(b.shape)
  if "quat" in name:
    out = b + 0.2 * rng.standard_normal(b.shape)
    out /= np.linalg.norm(out.reshape(k, -1, 4), axis=-1).reshape(out.shape[:-1] + (1,)) if out.shape[-1] == 4 else 1.0
  elif name in ("jnt_axis", "light_dir", "light_dir0"):
    out = b + 0.2 * rng.standard_normal(b.shape)
    nrm = np.linalg.norm(out, axis=-1, keepdims=True)
    out = out / np.where(nrm == 0, 1, nrm)
  elif name in ("gravity", "wind", "magnetic", "qpos0", "qpos_spring", "body_pos", "geom_pos", "site_pos", "jnt_pos", "cam_pos", "light_pos"):
    out = b + 0.02 * rng.standard_normal(b.shape)
  elif "margin" in name or name.endswith("_gap"):
    # additive and large enough to switch contacts on/off in the near-contact scene
    out = b + np.array([0.0, 0.04, 0.15])[:k].reshape((k,) + (1,) * (b.ndim - 1)) * (1.0 if "margin" in name else 0.2)
  else:
    out = b * noise
    zero = np.abs(b) < 1e-12
    if zero.all() and not name.endswith(("range", "id", "adr")):
      out = out + zero * 0.05 * np.abs(rng.standard_normal(b.shape))  # a field that is all zero gets additive noise
  out[0] = base[0]
  return out.astype(np.float32)


def experiment(res, nfields, nsteps):
  import mujoco
  import warp as wp

  import batchkit as BK
  import mujoco_warp as mjw

  rng = np.random.default_rng(vlib.seed() + 10)
  m = mujoco.MjModel.from_xml_string(BK.RICH_XML)
  mm = mjw.put_model(m)
  K = 3
  ds = BK.random_states(rng, m, 1)
  fields = batch_fields()
  order = rng.permutation(len(fields))
  chosen = [fields[i] for i in order[:nfields]] if nfields < len(fields) else fields
  fails, effective = [], 0

  def run(model, nworld):
    dd = mjw.make_data(m, nworld=nworld, nconmax=64, njmax=256)
    BK.load_states(mjw, m, dd, ds, [0] * nworld)
    for _ in range(nsteps):
      mjw.step(model, dd)
    mjw.forward(model, dd)
    return dd

  for key, name in chosen:
    arr = get_field(mm, key, name)
    base = arr.numpy()
    if base.shape[0] != 1 or base.size == 0:
      continue
    rows = perturb(rng, name, base, K)
    batched = with_field(mm, key, name, wp.array(rows, dtype=arr.dtype))
    full = run(batched, K)
    snaps = [BK.snapshot(full, w) for w in range(K)]
    differs = any(BK.first_diff(snaps[0], snaps[w]) is not None for w in range(1, K))
    effective += int(differs)
    for w in range(K):
      single = with_field(mm, key, name, wp.array(rows[w : w + 1], dtype=arr.dtype))
      one = run(single, K)  # same batch size: strict bit-exact comparison
      df = BK.first_diff(snaps[w], BK.snapshot(one, w))
      res.count()
      if df is not None:
        fails.append({"field": f"{key}.{name}", "world": w, "differs_in": df[0], "maxdiff": df[1], "rows": rows.tolist(), "nsteps": nsteps})
        break
    # two worlds over a size-2 field: world 2 must use row 0 (periodic modulo)
    if differs:
      res.nontrivial(f"{key}.{name}")
    if len(res.samples) < 2:
      res.sample({"kind": "per-field batch experiment", "field": f"{key}.{name}", "rows": rows.reshape(K, -1)[:, :4].tolist(), "effective": bool(differs)})
  res.extra["fields_tested"] = len(chosen)
  res.extra["fields_effective"] = effective
  res.extra["fields_total"] = len(fields)
  return fails


COLL_XML = """
<mujoco><option timestep="0.002"/>
  <worldbody>
    <geom name="floor" type="plane" size="3 3 .1"/>
    <body pos="0 0 0.13"><freejoint/><geom name="s0" type="sphere" size="0.1"/></body>
    <body pos="0.26 0 0.12"><freejoint/><geom name="b0" type="box" size="0.1 0.08 0.09"/></body>
    <body pos="-0.3 0.02 0.1" euler="0 90 0"><freejoint/><geom name="c0" type="capsule" size="0.05 0.1"/></body>
    <body pos="0 0.3 0.16"><freejoint/><geom name="e0" type="ellipsoid" size="0.1 0.07 0.05"/></body>
    <body pos="0.02 -0.27 0.14"><freejoint/><geom name="y0" type="cylinder" size="0.06 0.08"/></body>
    <body pos="0.3 0.3 0.2"><freejoint/><geom name="s1" type="sphere" size="0.08"/></body>
    <body pos="0.3 0.31 0.41"><freejoint/><geom name="b1" type="box" size="0.07 0.07 0.07"/></body>
  </worldbody>
  <contact><pair geom1="s0" geom2="e0" margin="0.02" gap="0.001"/><pair geom1="s1" geom2="b0"/></contact>
</mujoco>"""


def contacts_of(dd, w):
  n = int(dd.nacon.numpy()[0])
  wid = dd.contact.worldid.numpy()[:n]
  sel = np.nonzero(wid == w)[0]
  g = dd.contact.geom.numpy()[:n][sel]
  rows = [tuple(int(x) for x in g[i]) + (float(dd.contact.dist.numpy()[sel[i]]).hex(),) + tuple(float(x).hex() for x in dd.contact.pos.numpy()[sel[i]]) for i in range(len(sel))]
  return sorted(rows)


def collision_experiment(res, quick):
  """Per-world geom_* / pair_* parameters under every broadphase and filter mask: world w of the batched
  model vs the same world of a model holding only row w (same batch size, bit-exact contacts and outputs)."""
  import mujoco
  import warp as wp

  import batchkit as BK
  import mujoco_warp as mjw
  from mujoco_warp._src import types

  rng = np.random.default_rng(vlib.seed() + 110)
  m = mujoco.MjModel.from_xml_string(COLL_XML)
  d0 = mujoco.MjData(m)
  mujoco.mj_forward(m, d0)
  mm0 = mjw.put_model(m)
  K = 3
  fields = [(k, n) for k, n in batch_fields() if k == "m" and (n.startswith("geom_") or n.startswith("pair_"))]
  fails = []
  masks = [int(mm0.opt.broadphase_filter), 15] if quick else [int(mm0.opt.broadphase_filter), 15, 1, 2, 4, 8, 0]
  for bp in (types.BroadphaseType.NXN, types.BroadphaseType.SAP_TILE, types.BroadphaseType.SAP_SEGMENTED):
    for mask in masks:
      mm = with_field(with_field(mm0, "opt", "broadphase", bp), "opt", "broadphase_filter", mask)

      def run(model):
        dd = mjw.put_data(m, d0, nworld=K, nconmax=64, njmax=256)
        mjw.step(model, dd)
        mjw.forward(model, dd)
        return dd

      for key, name in fields:
        arr = get_field(mm, key, name)
        base = arr.numpy()
        if base.shape[0] != 1 or base.size == 0 or base.dtype.kind != "f":
          continue
        rows = perturb(rng, name, base, K)
        full = run(with_field(mm, key, name, wp.array(rows, dtype=arr.dtype)))
        snaps = [(BK.snapshot(full, w), contacts_of(full, w)) for w in range(K)]
        if any(snaps[w][1] != snaps[0][1] or BK.first_diff(snaps[0][0], snaps[w][0]) is not None for w in range(1, K)):
          res.nontrivial(f"{name}@{bp.name}/{mask}")
        for w in range(1, K):
          one = run(with_field(mm, key, name, wp.array(rows[w : w + 1], dtype=arr.dtype)))
          res.count()
          df = BK.first_diff(snaps[w][0], BK.snapshot(one, w))
          cd = snaps[w][1] != contacts_of(one, w)
          if df is not None or cd:
            fails.append({"field": f"m.{name}", "world": w, "broadphase": bp.name, "filter": mask, "contacts_batched": len(snaps[w][1]), "contacts_single": len(contacts_of(one, w)),
                          "differs_in": df[0] if df else "contact set", "rows": rows.reshape(K, -1)[:, :8].tolist(), "xml": COLL_XML})
            break
  return fails


FLEX_XML = """
<mujoco><worldbody>
  <flexcomp name="tet1" type="direct" dim="3" radius="0.01" mass="0.5" point="0 0 0  0.1 0 0  0 0.1 0  0 0 0.1" element="0 1 2 3">
    <contact selfcollide="none" contype="1" conaffinity="1"/></flexcomp>
  <flexcomp name="tet2" type="direct" dim="3" radius="0.01" mass="0.5" point="0.01 0.02 0.015  0.1 0 0.015  0 0.1 0.015  0 0 0.115" element="0 1 2 3">
    <contact selfcollide="none" contype="1" conaffinity="1"/></flexcomp>
</worldbody></mujoco>"""


def flex_ccd_tolerance_finding(res):
  """Directed case (fixed defect F12): per-world opt.ccd_tolerance in the flex CCD narrowphase."""
  import mujoco
  import warp as wp

  import mujoco_warp as mjw

  m = mujoco.MjModel.from_xml_string(FLEX_XML)
  d = mujoco.MjData(m)
  mujoco.mj_forward(m, d)
  mm = mjw.put_model(m)

  def contacts_per_world(tols):
    m2 = with_field(mm, "opt", "ccd_tolerance", wp.array(np.array(tols, dtype=np.float32), dtype=float))
    dd = mjw.put_data(m, d, nworld=2)
    mjw.kinematics(m2, dd)
    mjw.flex(m2, dd)
    mjw.collision(m2, dd)
    n = int(dd.nacon.numpy()[0])
    w = dd.contact.worldid.numpy()[:n]
    return [int((w == 0).sum()), int((w == 1).sum())]

  lo, hi = 1e-6, 0.05
  u_lo, u_hi = contacts_per_world([lo, lo]), contacts_per_world([hi, hi])
  mixed = contacts_per_world([lo, hi])
  res.count(3)
  if u_lo[0] != u_hi[0]:
    res.nontrivial("opt.ccd_tolerance(flex)")
  if mixed != [u_lo[0], u_hi[1]]:
    res.violation(
      "C10:flex-narrowphase:ccd_tolerance-world0",
      f"flex CCD narrowphase ignores per-world opt.ccd_tolerance: contacts per world {mixed} with tolerances [{lo},{hi}], expected {[u_lo[0], u_hi[1]]}",
      {"xml": FLEX_XML, "ccd_tolerance": [lo, hi], "contacts_per_world": mixed, "uniform_lo": u_lo, "uniform_hi": u_hi},
    )


def run(res):
  quick = res.tier == "quick"
  res.rule = "per-field experiment on a feature-rich model: each batchable float field gets 3 distinct rows; world i of the batched model vs the same world of a model holding only row i (same batch size, bit-exact on state and outputs after steps); distinct_nontrivial = fields whose perturbation visibly changed the outputs"
  ok, trs, failing = propkit.prove(res, "Props/C10.v", gen_names=["Skel_access"])
  fails = experiment(res, 10**6, 2 if quick else 5)
  for f in fails[:5]:
    res.violation(f"C10:batched-field:{f['field']}", f"batched {f['field']}: world {f['world']} differs from the unbatched model in {f['differs_in']} (max diff {f['maxdiff']:.3g})", f)
  cfails = collision_experiment(res, quick)
  for f in cfails[:5]:
    res.violation(f"C10:batched-field:{f['field']}:{f['broadphase']}", f"batched {f['field']} under broadphase {f['broadphase']} filter {f['filter']}: world {f['world']} differs from the model holding only its row in {f['differs_in']} ({f['contacts_batched']} vs {f['contacts_single']} contacts)", f)
  fails = fails + cfails
  flex_ccd_tolerance_finding(res)
  if not ok and not fails:
    import props.C09 as C09

    sk = trs.get("Skel_access")
    propkit.broken_proof_violation(res, "C10 batched-field indexing discipline", failing, C09.new_exceptions(sk) if sk else None)
  res.assumptions += ["integer id fields (geom_dataid, geom_matid, light flags, mat_texid) are not perturbed", "comparison at equal batch size (see C09 on batch-size round-off)"]


def replay(res, path):
  print("re-run ./check C10 (the replay file names the field and rows)")
  return 0
