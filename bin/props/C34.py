"""C34 Ray casting returns the nearest eligible hit.

proof   : Props/C34.v (Proof/Ray.v) about Model/Ray.v (kernels _ray / _ray_bvh) and the definitions
          regenerated from ray.py (generator "T_ray"): nearest_fold (+ block-size and visiting-order
          independence, equivalence with mj_ray's rule), eliminate_rule, _ray_quad / ray_sphere /
          ray_plane closed forms, abstract BVH traversal = brute force (partial).
tie     : T (bin/translate.py) + T-validation of every translated ray function; kernel-level
          correspondence: the model `ray_kernel` over the translated `_ray_geom_mesh`, run inside Coq
          on the arrays of random scenes, against mjw.rays (brute-force and BVH kernels).
oracle  : structured (piecewise-planar) height fields: dense rays from above, brute == mj_ray and BVH == brute;
          mjw.ray / mjw.rays vs mujoco.mj_ray (distance, geom id, normal) on random scenes of every geom
          type, group masks, flg_static, bodyexclude, two worlds; BVH path vs brute-force path; directed
          probes of the recorded defects."""

from __future__ import annotations

import json

import numpy as np

import gens_ray as G
import propkit
import vlib

MANIFEST = {
  "text": "proof: over R. (1) nearest_fold: the Gallina copy of kernel _ray's running minimum (init MJ_MAXVAL/-1, negative distance -> MJ_MAXVAL, strict `<` update, -1 iff nothing below MJ_MAXVAL) returns, for geom lists of any length, the minimum distance among geoms with 0 <= d < 1e10 and the LOWEST geom id attaining it, (-1,-1,0) if none; the result is independent of the block size (tile_argmin = first minimum); _ray_bvh's / cast_ray's rule returns the same minimum for any visiting order; the triple equals mj_ray's rule when no distance reaches 1e10. (2) eliminate_rule on the translated _ray_eliminate = the property's sentence. (3) the kernel model over the translated _ray_geom_mesh returns the nearest non-eliminated hit. (4) translated _ray_quad / ray_sphere / ray_plane: returned x >= 0 lies on the surface, is the smallest non-negative root, normal is the outward unit normal / plane normal; -1 only below the 1e-15 discriminant threshold or without a root. (5) bvh_equals_brute_partial: abstract tree traversal that prunes only boxes missed or entered no nearer than the current best returns the brute-force minimum (Warp's BVH builtins are not in /repo: abstract model). (6) _ray_bvh's primitive->geom map with the per-world stride ngeom+nflexgeom (repaired in /repo ae9ede3) denotes exactly the enabled geoms in every world; _orthogonal_basis of the normalised direction (repaired in 8617230) is an orthonormal pair orthogonal to any non-zero direction; ray_ellipsoid in the local frame (partial). (7) hfield BVH mesh: merging a rectangle of cells that all pass fits_plane (planar, corner on the start plane, same slopes; exact-arithmetic hand model of the host function bvh._optimize_hfield_mesh) is exact at every grid node, and the slope test cannot be dropped (witness); the real function is run on generated piecewise-planar terrains every check and its mesh must lie on the elevation surface at every node and triangle centroid. tested only: float32 rounding; ray_capsule/cylinder/box/mesh/hfield geometry (no closed-form theorem: T-validation + mj_ray oracle, including rays that START INSIDE every closed geom type -- capsule cylindrical section and cap regions, cylinder, box, ellipsoid, sphere, cube/octahedron meshes -- and leave through every face / cap); that the real scene-BVH boxes cover the geoms (BVH-vs-brute oracle: open recorded defects for hfield, infinite planes, mesh back faces, geom groups)",
  "note": "trusted: Coq kernel; translator bin/translate.py (validated each run against the compiled Warp functions); Model/Ray.v hand model of the two kernels (validated each run against mjw.rays on random scenes inside Coq); tile_argmin modelled as first-minimum (CPU block size is 1); real-number axioms of Coq's Reals; mujoco.mj_ray as the differential oracle",
  "technique": "Rocq proof over hand model + functions machine-translated from the source (T), translation validation, kernel correspondence inside Coq, differential oracle against MuJoCo and BVH-vs-brute-force oracle",
  "engine": "coq",
}

PROPS = "Props/C34.v"
REQ = ["_ray_eliminate", "_ray_quad", "ray_plane", "ray_sphere", "_ray_geom_mesh", "ray_geom", "_ray_map", "compute_ray"]
TV = ["_ray_map", "_ray_quad", "_orthogonal_basis", "_ray_triangle", "ray_plane", "ray_sphere", "ray_capsule", "ray_ellipsoid",
      "ray_cylinder", "ray_box", "ray_geom"]  # fmt: skip
OBJ_GEOM = 5


# ---------------------------------------------------------------- T-validation input generators
def _rot(rng, n):
  q = rng.standard_normal((n, 4))
  q /= np.linalg.norm(q, axis=1, keepdims=True)
  w, x, y, z = q.T
  R = np.stack([1 - 2 * (y * y + z * z), 2 * (x * y - w * z), 2 * (x * z + w * y), 2 * (x * y + w * z), 1 - 2 * (x * x + z * z), 2 * (y * z - w * x),
                2 * (x * z - w * y), 2 * (y * z + w * x), 1 - 2 * (x * x + y * y)], axis=1).reshape(n, 3, 3)  # fmt: skip
  R[rng.random(n) < 0.2] = np.eye(3)
  return R


def _geomray(rng, n, plane=False, kind=None):
  """pos, mat, size, pnt, vec: rays aimed at / near a geom from outside; rays STARTING INSIDE the geom (35% when
  `kind` names the geom type: spread over its whole interior, capsule cylindrical section and cap regions
  included) leaving through every face / cap; axis-parallel rays in the geom frame (the |lvec[i]| > MJ_MINVAL
  branches), grazing offsets, non-unit directions."""
  pos = rng.uniform(-1, 1, (n, 3))
  mat = _rot(rng, n)
  size = rng.uniform(0.05, 0.5, (n, 3))
  if plane:
    size[rng.random(n) < 0.3, 0] = 0.0
    size[rng.random(n) < 0.3, 1] = 0.0
  off = rng.standard_normal((n, 3))
  off /= np.linalg.norm(off, axis=1, keepdims=True)
  pnt = pos + off * rng.uniform(0, 2.0, (n, 1))
  tl = rng.uniform(-1.3, 1.3, (n, 3)) * size
  tgt = pos + np.einsum("nij,nj->ni", mat, tl)
  vec = tgt - pnt
  nv = np.linalg.norm(vec, axis=1, keepdims=True)
  nv[nv == 0] = 1
  vec = vec / nv
  ax = rng.random(n) < 0.12
  e = np.zeros((n, 3))
  # planes: only along the normal -- a ray exactly parallel to an (infinite) plane sits ON the lvec[2] > -MJ_MINVAL
  # discontinuity, where float32 vs binary64 rounding noise alone decides between a miss and a hit at ~1e7
  e[np.arange(n), np.full(n, 2) if plane else rng.integers(0, 3, n)] = rng.choice([-1.0, 1.0], n)
  vec[ax] = np.einsum("nij,nj->ni", mat, e)[ax]
  if kind is not None:
    inside = rng.random(n) < 0.35
    lp = G.inside_local(rng, kind, size, n)
    pnt[inside] = (pos + np.einsum("nij,nj->ni", mat, lp))[inside]
    vec[inside] = np.einsum("nij,nj->ni", mat, G.exit_dirs(rng, n))[inside]
  else:
    inside = rng.random(n) < 0.15
    pnt[inside] = (pos + np.einsum("nij,nj->ni", mat, rng.uniform(-0.5, 0.5, (n, 3)) * size))[inside]
  vec *= rng.choice([1.0, 1.0, 1.0, 0.5, 3.0], (n, 1))
  vec[rng.random(n) < 0.02] = 0.0
  f = np.float32
  return [pos.astype(f), mat.astype(f), size.astype(f), pnt.astype(f), vec.astype(f)]


def g_prim(rng, n):
  return _geomray(rng, n)


def g_plane(rng, n):
  return _geomray(rng, n, plane=True)


def g_sphere(rng, n):
  pos, mat, size, pnt, vec = _geomray(rng, n, kind="sphere")
  return [pos, (size[:, 0] ** 2).astype(np.float32), pnt, vec]


def g_geom(rng, n):
  t = rng.choice([0, 2, 3, 4, 5, 6, 6, 1, 7, 8], n).astype(np.int32)
  a = _geomray(rng, n)
  for tt, kind in ((2, "sphere"), (3, "capsule"), (4, "ellipsoid"), (5, "cylinder"), (6, "box")):
    b = _geomray(rng, n, kind=kind)
    for j in range(5):
      a[j][t == tt] = b[j][t == tt]
  # unlimited plane sides (size 0) only for planes: a zero semi-axis of an ellipsoid is a degenerate geom whose
  # float32 discriminant is pure cancellation noise (not a translation question)
  z = (t == 0) & (rng.random(n) < 0.5)
  a[2][z, int(rng.integers(0, 2))] = 0.0
  return a + [t]


def g_map(rng, n):
  pos, mat, size, pnt, vec = _geomray(rng, n)
  return [pos, mat, pnt, vec]


def g_quad(rng, n):
  a = np.abs(rng.standard_normal(n)) * 10.0 ** rng.uniform(-1, 1, n)
  b = rng.standard_normal(n) * 10.0 ** rng.uniform(-1, 1, n)
  c = rng.standard_normal(n) * 10.0 ** rng.uniform(-1, 1, n)
  s = rng.random(n)
  a[s < 0.04] = 0.0
  b[(s >= 0.04) & (s < 0.08)] = 0.0
  m = (s >= 0.08) & (s < 0.2)  # near-zero discriminant
  c[m] = (b[m] ** 2 / np.maximum(a[m], 1e-3)) * rng.uniform(0.98, 1.02, int(m.sum()))
  return [a.astype(np.float32), b.astype(np.float32), c.astype(np.float32)]


def _duff(v):
  s = np.where(v[:, 2] >= 0, 1.0, -1.0)
  a = -1.0 / (s + v[:, 2])
  b = v[:, 0] * v[:, 1] * a
  return np.stack([1 + s * v[:, 0] ** 2 * a, s * b, -s * v[:, 0]], 1), np.stack([b, s + v[:, 1] ** 2 * a, -v[:, 1]], 1)


def g_basis(rng, n):
  v = rng.standard_normal((n, 3))
  v /= np.linalg.norm(v, axis=1, keepdims=True)
  k = rng.random(n) < 0.15
  e = np.zeros((n, 3))
  e[np.arange(n), rng.integers(0, 3, n)] = rng.choice([-1.0, 1.0], n)
  v[k] = e[k]
  return [v.astype(np.float32)]


def g_triangle(rng, n):
  v0, v1, v2 = (rng.uniform(-1, 1, (n, 3)) for _ in range(3))
  w = rng.dirichlet([1, 1, 1], n)
  inside = rng.random(n) < 0.6
  tgt = np.where(inside[:, None], w[:, :1] * v0 + w[:, 1:2] * v1 + w[:, 2:] * v2, rng.uniform(-1.5, 1.5, (n, 3)))
  pnt = tgt + rng.standard_normal((n, 3))
  vec = tgt - pnt
  vec /= np.linalg.norm(vec, axis=1, keepdims=True)
  vec = vec.astype(np.float32)
  b0, b1 = _duff(vec.astype(np.float64))
  f = np.float32
  return [v0.astype(f), v1.astype(f), v2.astype(f), pnt.astype(f), vec, b0.astype(f), b1.astype(f)]


GEN = {
  "_ray_map": g_map, "_ray_quad": g_quad, "_orthogonal_basis": g_basis, "_ray_triangle": g_triangle, "ray_plane": g_plane,
  "ray_sphere": g_sphere, "ray_capsule": lambda rng, n: _geomray(rng, n, kind="capsule"), "ray_ellipsoid": lambda rng, n: _geomray(rng, n, kind="ellipsoid"),
  "ray_cylinder": lambda rng, n: _geomray(rng, n, kind="cylinder"), "ray_box": lambda rng, n: _geomray(rng, n, kind="box"), "ray_geom": g_geom,
}  # fmt: skip


def tvalidate(res, tr, n):
  import tvalid

  tv = tvalid.TValid("C34", tr, "Gen.T_ray")
  for f in TV:
    try:
      tv.add(f, gen=GEN.get(f), tol=3e-4)
    except KeyError:
      res.obligation(f"T-validation:{f}", False, "function is no longer translated")
    except NotImplementedError as e:
      res.notes.append(f"T-validation skipped for {f}: {e}")
  bad, per = tv.run(res, n_per_fn=n, label="T-validation ray.py")
  return bad


# ---------------------------------------------------------------- scenes on the device
def build(xml, rng, nworld=2, dq=0.25):
  """MuJoCo model/data (world 0 state) and MJWarp model/data with a different pose in every world."""
  import mujoco
  import warp as wp

  import mujoco_warp as mjw

  m = mujoco.MjModel.from_xml_string(xml)
  d = mujoco.MjData(m)
  q0 = d.qpos.copy()
  qs = [q0 + rng.normal(0, dq, m.nq) for _ in range(nworld)]
  mm = mjw.put_model(m)
  dd = mjw.put_data(m, d, nworld=nworld)
  dd.qpos = wp.array(np.array(qs, dtype=np.float32), dtype=float)
  mjw.kinematics(mm, dd)
  mjw.camlight(mm, dd)
  if m.nflex:
    mjw.flex(mm, dd)
  ds = []
  for w in range(nworld):
    dw = mujoco.MjData(m)
    dw.qpos[:] = np.array(qs[w], dtype=np.float32)
    mujoco.mj_forward(m, dw)
    ds.append(dw)
  return m, ds, mm, dd


def cast(mm, dd, pnt, vec, gg, flg_static, bex, rc=None):
  """mjw.rays on (nworld, nray) float32 origins/directions -> numpy dist, geomid, normal."""
  import warp as wp

  import mujoco_warp as mjw
  from mujoco_warp._src.types import vec6

  nw, nr = pnt.shape[0], pnt.shape[1]
  dist = wp.zeros((dd.nworld, nr), dtype=float)
  gid = wp.zeros((dd.nworld, nr), dtype=int)
  nrm = wp.zeros((dd.nworld, nr), dtype=wp.vec3)
  mjw.rays(mm, dd, wp.array(pnt, dtype=wp.vec3), wp.array(vec, dtype=wp.vec3), vec6(*[float(x) for x in gg]), bool(flg_static),
           wp.array(np.asarray(bex, dtype=np.int32), dtype=int), dist, gid, nrm, rc)  # fmt: skip
  return dist.numpy(), gid.numpy(), nrm.numpy()


def mj_cast(m, d, p, v, gg, flg_static, bex):
  import mujoco

  g = np.zeros(1, np.int32)
  n = np.zeros(3)
  mask = None if all(x == -1 for x in gg) else np.array([1 if x != 0 else 0 for x in gg], dtype=np.uint8)
  x = mujoco.mj_ray(m, d, np.asarray(p, dtype=np.float64), np.asarray(v, dtype=np.float64), mask, bool(flg_static), int(bex), g, n)
  return float(x), int(g[0]), n


def same_hit(x, g, n, dx, dg, dn, rtol=1e-3, ntol=5e-3):
  if g != dg:
    return False
  if g < 0:
    return True
  return abs(x - dx) <= rtol * (1 + abs(x)) and float(np.abs(np.asarray(n) - np.asarray(dn)).max()) <= ntol


def unstable(m, d, p, v, gg, flg_static, bex, dx, dg, dn, rng, k=10, eps=2e-4):
  """near a discontinuity (grazing ray, two geoms at almost the same distance): some tiny perturbation
  of the ray makes MuJoCo return what MJWarp returned -> the case is discarded, not compared."""
  p, v = np.asarray(p, dtype=np.float64), np.asarray(v, dtype=np.float64)
  for _ in range(k):
    pp = p + rng.normal(0, eps, 3) * (1 + np.abs(p))
    vv = v + rng.normal(0, eps, 3) * np.linalg.norm(v)
    x, g, n = mj_cast(m, d, pp, vv, gg, flg_static, bex)
    if same_hit(x, g, n, dx, dg, dn, rtol=5e-3, ntol=5e-2):
      return True
  return False


# ---------------------------------------------------------------- kernel-level correspondence (inside Coq)
def model_arrays(mm, dd):
  return dict(
    nmeshface=mm.nmeshface, body_weldid=mm.body_weldid.numpy(), geom_type=mm.geom_type.numpy(), geom_bodyid=mm.geom_bodyid.numpy(),
    geom_dataid=mm.geom_dataid.numpy(), geom_matid=mm.geom_matid.numpy(), geom_group=mm.geom_group.numpy(), geom_size=mm.geom_size.numpy(),
    geom_rgba=mm.geom_rgba.numpy(), mesh_vertadr=mm.mesh_vertadr.numpy(), mesh_faceadr=mm.mesh_faceadr.numpy(), mesh_vert=mm.mesh_vert.numpy(),
    mesh_face=mm.mesh_face.numpy(), hfield_size=mm.hfield_size.numpy(), hfield_nrow=mm.hfield_nrow.numpy(), hfield_ncol=mm.hfield_ncol.numpy(),
    hfield_adr=mm.hfield_adr.numpy(), hfield_data=mm.hfield_data.numpy(), mat_rgba=mm.mat_rgba.numpy(), geom_xpos_in=dd.geom_xpos.numpy(),
    geom_xmat_in=dd.geom_xmat.numpy(),
  )  # fmt: skip


def scene_defs(sig, tag, arrs):
  """Gallina definitions of the array arguments of _ray_geom_mesh for one scene; returns (defs, names)."""
  defs, names = [], {}
  for name, t in sig["args"]:
    if name in arrs:
      names[name] = f"{tag}_{name}"
      defs.append(f"Definition {tag}_{name} := {G.enc(t, arrs[name])}.")
  return "\n".join(defs), names


def cand_term(sig, names, arrs, w, p, v, gg, flg_static, bex):
  """`fun gid => @_ray_geom_mesh float Sc <args> gid <shapes>` for one ray."""
  vals = dict(worldid=f"({int(w)})%Z", pnt=G.fl(p), vec=G.fl(v), geomgroup=G.fl(gg), flg_static="true" if flg_static else "false",
              bodyexclude=f"({int(bex)})%Z", geomid="gid")  # fmt: skip
  parts = []
  for name, t in sig["args"]:
    if name in names:
      parts.append(names[name])
    elif name in vals:
      parts.append(vals[name])
    else:
      parts.append(G.enc(t, arrs[name]))
  for name, k in sig["shape_params"]:
    parts.append(f"({int(np.asarray(arrs[name]).shape[k])})%Z")
  return "(fun gid => @_ray_geom_mesh float Sc " + " ".join(parts) + ")"


def kernel_correspondence(res, tr, nscenes, nrays):
  """Model/Ray.v ray_kernel (and ray_bvh_kernel) over the translated _ray_geom_mesh, evaluated by
  vm_compute on the arrays of random scenes, vs the real kernels _ray / _ray_bvh (mjw.rays)."""
  import tvalid

  import mujoco_warp as mjw

  sig = tr.signatures().get("_ray_geom_mesh")
  if sig is None:
    return [{"error": "_ray_geom_mesh is not translated"}], []
  rng = np.random.default_rng(vlib.seed() + 3401)
  # `min_dist >= MJ_MAXVAL` compares the sentinel with itself: an exact tie by construction, which the
  # +-eps comparison bias of the branch-margin rule (ScalarFlo/Fhi) would turn into "discard every miss".
  # (and `MJ_MAXVAL < MJ_MAXVAL` into "the last missed geom wins").  The MODEL's output is therefore
  # normalised (distance negative or left at the sentinel => the no-hit triple (-1,-1,0)) before the
  # comparison; the implementation's output is compared as is.
  defs, lines, meta = [G.COQ_ARRAY_DEFS + "Definition nohit (r : float * Z * list float) : list float := let '(d, g, n) := r in if ((d <? 0) || (0x1.0p+33 <? d))%float then [-1; -1; 0; 0; 0]%float else d :: f_ofZ g :: n.\n"], [], []
  for s in range(nscenes):
    prim_only = s % 3 == 2  # these scenes also run the BVH kernel against ray_bvh_kernel
    types = G.PRIMS if prim_only else G.PRIMS + ("mesh", "hfield")
    xml = G.scene(rng, ngeom=(2, 6), types=types, hf_n=3, plane_infinite=0.3)
    m, ds, mm, dd = build(xml, rng)
    arrs = model_arrays(mm, dd)
    sdefs, names = scene_defs(sig, f"s{s}", arrs)
    defs.append(sdefs)
    pnt, vec = G.random_rays(rng, 2 * nrays, scales=(1.0, 1.0, 0.5, 3.0), centers=ds[0].geom_xpos)
    pnt, vec = pnt.reshape(2, nrays, 3), vec.reshape(2, nrays, 3)
    gg = [-1] * 6 if rng.random() < 0.4 else rng.integers(0, 2, 6).tolist()
    flg_static = bool(rng.random() < 0.6)
    bex = rng.integers(-1, m.nbody, nrays)
    dist, gid, nrm = cast(mm, dd, pnt, vec, gg, flg_static, bex)
    rc = None
    if prim_only:
      rc = mjw.create_render_context(m, nworld=2, cam_res=(2, 2), enabled_geom_groups=[0, 1, 2, 3, 4, 5])
      mjw.refit_bvh(mm, dd, rc)
      bdist, bgid, bnrm = cast(mm, dd, pnt, vec, gg, flg_static, bex, rc)
      order = G.zl(rc.enabled_geom_ids.numpy())
    for w in range(2):
      for r in range(nrays):
        cand = cand_term(sig, names, arrs, w, pnt[w, r], vec[w, r], gg, flg_static, bex[r])
        exp = [dist[w, r], gid[w, r]] + nrm[w, r].tolist()
        lines.append(f"tv3 {vlib.fhex(3e-4)} (fun Sc => nohit (@ray_kernel float Sc {cand} ({m.ngeom})%Z)) {vlib.flist(exp)}")
        meta.append(dict(kernel="_ray", xml=xml, world=w, pnt=pnt[w, r].tolist(), vec=vec[w, r].tolist(), geomgroup=gg, flg_static=flg_static, bodyexclude=int(bex[r]), impl=exp))
        if rc is not None and r < nrays // 2:
          exp = [bdist[w, r], bgid[w, r]] + bnrm[w, r].tolist()
          lines.append(f"tv3 {vlib.fhex(3e-4)} (fun Sc => nohit (@ray_bvh_kernel float Sc {cand} {order})) {vlib.flist(exp)}")
          meta.append(dict(kernel="_ray_bvh", xml=xml, world=w, pnt=pnt[w, r].tolist(), vec=vec[w, r].tolist(), geomgroup=gg, flg_static=flg_static, bodyexclude=int(bex[r]), impl=exp))
  verdicts = tvalid.run_cases("C34k", ["Model.Ray", "Gen.T_ray"], lines, chunk=60, extra_defs="\n".join(defs))
  bad = []
  for md, v in zip(meta, verdicts):
    if v == 0:
      res.nontrivial(("kc", md["kernel"], md["xml"][:60], md["world"], tuple(md["pnt"])))
    elif v == 2 and len(bad) < 10:
      bad.append(md)
  res.count(len(verdicts))
  res.extra["kernel_correspondence"] = {"cases": len(verdicts), "agree": verdicts.count(0), "discarded": verdicts.count(1), "disagree": verdicts.count(2),
                                        "hits": sum(1 for md in meta if md["impl"][1] >= 0)}  # fmt: skip
  if meta:
    res.sample({"kind": "kernel correspondence (_ray model over translated _ray_geom_mesh vs mjw.rays)", **{k: meta[0][k] for k in ("world", "pnt", "vec", "geomgroup", "flg_static", "bodyexclude", "impl")}})
  return bad, verdicts


def flex_stride_correspondence(res, tr, nscenes, nrays, nworld=3):
  """Model/Ray.v ray_bvh_kernel_prims (primitive -> geom map with stride ngeom + nflexgeom, flex primitives
  skipped) over the translated _ray_geom_mesh vs the real _ray_bvh kernel on scenes WITH a flex, three worlds."""
  import tvalid

  import mujoco_warp as mjw

  sig = tr.signatures().get("_ray_geom_mesh")
  if sig is None:
    return [{"error": "_ray_geom_mesh is not translated"}]
  rng = np.random.default_rng(vlib.seed() + 3404)
  nohit = "Definition nohit (r : float * Z * list float) : list float := let '(d, g, n) := r in if ((d <? 0) || (0x1.0p+33 <? d))%float then [-1; -1; 0; 0; 0]%float else d :: f_ofZ g :: n.\n"
  defs, lines, meta = [G.COQ_ARRAY_DEFS + nohit], [], []
  for s in range(nscenes):
    flex = (f'<flexcomp name="f" type="grid" count="{int(rng.integers(2, 4))} {int(rng.integers(2, 4))} 1" spacing="0.2 0.2 0.2" pos="3 0 0" radius="0.01" dim="2">'
            '<edge equality="false"/></flexcomp>')  # fmt: skip
    xml = G.scene(rng, ngeom=(2, 5), types=G.PRIMS, plane_infinite=0.3, alpha0=0.0).replace("</worldbody>", flex + "</worldbody>")
    m, ds, mm, dd = build(xml, rng, nworld=nworld)
    rc = mjw.create_render_context(m, nworld=nworld, cam_res=(2, 2), enabled_geom_groups=[0, 1, 2, 3, 4, 5])
    mjw.refit_bvh(mm, dd, rc)
    arrs = model_arrays(mm, dd)
    sdefs, names = scene_defs(sig, f"f{s}", arrs)
    defs.append(sdefs + f"\nDefinition f{s}_enabled := az {G.zl(rc.enabled_geom_ids.numpy())}.")
    n, f = int(rc.bvh_ngeom), int(rc.bvh_nflexgeom)
    pnt, vec = G.random_rays(rng, nworld * nrays, centers=ds[0].geom_xpos)
    pnt, vec = pnt.reshape(nworld, nrays, 3), vec.reshape(nworld, nrays, 3)
    bex = np.full(nrays, -1)
    dist, gid, nrm = cast(mm, dd, pnt, vec, [-1] * 6, True, bex, rc)
    for w in range(nworld):
      prims = G.zl([w * (n + f) + k for k in range(n + f)])
      for r in range(nrays):
        cand = cand_term(sig, names, arrs, w, pnt[w, r], vec[w, r], [-1] * 6, True, -1)
        exp = [dist[w, r], gid[w, r]] + nrm[w, r].tolist()
        lines.append(f"tv3 {vlib.fhex(3e-4)} (fun Sc => nohit (@ray_bvh_kernel_prims float Sc {cand} ({n})%Z ({f})%Z ({w})%Z f{s}_enabled {prims})) {vlib.flist(exp)}")
        meta.append(dict(kernel="_ray_bvh+flex", xml=xml, world=w, nflexgeom=f, pnt=pnt[w, r].tolist(), vec=vec[w, r].tolist(), impl=exp))
  verdicts = tvalid.run_cases("C34f", ["Model.Ray", "Gen.T_ray"], lines, chunk=60, extra_defs="\n".join(defs))
  bad = []
  for md, v in zip(meta, verdicts):
    if v == 0:
      res.nontrivial(("kf", md["xml"][:60], md["world"], tuple(md["pnt"])))
    elif v == 2 and len(bad) < 10:
      bad.append(md)
  res.count(len(verdicts))
  res.extra["flex_stride_correspondence"] = {"cases": len(verdicts), "agree": verdicts.count(0), "discarded": verdicts.count(1), "disagree": verdicts.count(2),
                                             "hits": sum(1 for md in meta if md["impl"][1] >= 0), "hits_world_ge_1": sum(1 for md in meta if md["impl"][1] >= 0 and md["world"] >= 1)}  # fmt: skip
  return bad


# ---------------------------------------------------------------- oracle 1: mjw.ray / rays vs mujoco.mj_ray
def put_inside(rng, m, ds, pnt, vec, frac, scales=(1.0,)):
  """overwrite the last `frac` of every world's rays by rays that start INSIDE a geom of that world's pose"""
  k = int(round(frac * pnt.shape[1]))
  for w in range(pnt.shape[0]):
    pi, vi = G.inside_rays(rng, m, ds[w], k, scales)
    if len(pi):
      pnt[w, -len(pi):], vec[w, -len(pi):] = pi, vi
  return k


def oracle_mj(res, nscenes, nrays, scales, types, tag, inside=0.3, filters=True):
  """random scenes; returns list of failing cases (dicts).  With `scales` == (1.0,) and every type this is
  the property itself.  A fraction `inside` of the rays starts inside a geom (every closed type, capsule
  cylindrical section and caps included) and leaves through any face / cap."""
  rng = np.random.default_rng(vlib.seed() + 3402 + (7 if tag == "nonunit" else 0) + (11 if tag == "inside" else 0))
  fails, ncmp, ndisc, nhit = [], 0, 0, 0
  for s in range(nscenes):
    xml = G.scene(rng, types=types)
    m, ds, mm, dd = build(xml, rng)
    pnt, vec = G.random_rays(rng, 2 * nrays, scales=scales, centers=ds[0].geom_xpos)
    pnt, vec = pnt.reshape(2, nrays, 3), vec.reshape(2, nrays, 3)
    shared = s % 4 == 3  # (1, nray) origins shared by the worlds: the `worldid % shape[0]` path
    if shared:
      pnt, vec = pnt[:1], vec[:1]
    kin = put_inside(rng, m, ds, pnt, vec, inside, scales)
    gg = [-1] * 6 if (not filters or rng.random() < 0.4) else rng.integers(0, 2, 6).tolist()
    flg_static = bool(not filters or rng.random() < 0.6)
    bex = rng.integers(-1, m.nbody, nrays) if filters else np.full(nrays, -1)
    if kin:
      bex[-kin:] = -1
    dist, gid, nrm = cast(mm, dd, pnt, vec, gg, flg_static, bex)
    for w in range(2):
      for r in range(nrays):
        p, v = pnt[0 if shared else w, r], vec[0 if shared else w, r]
        x, g, n = mj_cast(m, ds[w], p, v, gg, flg_static, bex[r])
        ncmp += 1
        nhit += g >= 0
        if same_hit(x, g, n, dist[w, r], gid[w, r], nrm[w, r]):
          res.nontrivial(("mj", tag, s, w, r))
          continue
        if unstable(m, ds[w], p, v, gg, flg_static, bex[r], dist[w, r], gid[w, r], nrm[w, r], rng):
          ndisc += 1
          continue
        gt = sorted({int(m.geom_type[k]) for k in (g, int(gid[w, r])) if k >= 0})
        fails.append(dict(xml=xml, qpos=ds[w].qpos.tolist(), world=w, pnt=p.tolist(), vec=v.tolist(), geomgroup=gg, flg_static=flg_static,
                          bodyexclude=int(bex[r]), mujoco=[x, g] + n.tolist(), mjwarp=[float(dist[w, r]), int(gid[w, r])] + nrm[w, r].tolist(),
                          geom_types=[G.TYPE_NAME[t] for t in gt], unit_vec=bool(abs(np.linalg.norm(v) - 1) < 1e-3)))  # fmt: skip
    if s == 0:
      res.sample({"kind": f"oracle mj_ray ({tag})", "xml": xml[:300], "geomgroup": gg, "flg_static": flg_static, "rays": nrays, "hits": int((gid >= 0).sum())})
  res.count(ncmp)
  res.extra.setdefault("oracle_mj_ray", {})[tag] = {"rays": ncmp, "hits": int(nhit), "discarded_near_discontinuity": ndisc, "disagree": len(fails)}
  return fails


# ---------------------------------------------------------------- oracle 2: BVH path vs brute-force path
def oracle_bvh(res, nscenes, nrays):
  """scene BVH built for ALL geom groups, refit to the current poses; scenes restricted to what the BVH
  path is documented/able to cover (no hfield, centred meshes, ray origins outside meshes are not
  enforced: an origin inside a mesh is a recorded defect and is classified, not hidden)."""
  import mujoco_warp as mjw

  rng = np.random.default_rng(vlib.seed() + 3403)
  fails, ncmp, ndisc = [], 0, 0
  for s in range(nscenes):
    xml = G.scene(rng, types=G.PRIMS + ("mesh",), plane_infinite=0.3, meshes=("cube", "octa", "pyr"))
    m, ds, mm, dd = build(xml, rng)
    # every other scene: a render context restricted to some geom groups (enabled_geom_ids is then NOT the
    # identity map) and the same groups as the rays' geomgroup mask, so that both paths see the same geoms
    groups = [0, 1, 2, 3, 4, 5]
    if s % 2:
      present = sorted({int(g) for g in m.geom_group})
      k = int(rng.integers(1, len(present) + 1))
      groups = sorted(int(g) for g in rng.choice(present, k, replace=False))
    rc = mjw.create_render_context(m, nworld=2, cam_res=(2, 2), enabled_geom_groups=groups)
    mjw.refit_bvh(mm, dd, rc)
    pnt, vec = G.random_rays(rng, 2 * nrays, centers=ds[0].geom_xpos)
    pnt, vec = pnt.reshape(2, nrays, 3), vec.reshape(2, nrays, 3)
    kin = put_inside(rng, m, ds, pnt, vec, 0.25)
    gg = [-1] * 6 if rng.random() < 0.4 else rng.integers(0, 2, 6).tolist()
    if s % 2:
      gg = [1 if g in groups else 0 for g in range(6)]
    flg_static = bool(rng.random() < 0.6)
    bex = rng.integers(-1, m.nbody, nrays)
    bex[-kin:] = -1
    a = cast(mm, dd, pnt, vec, gg, flg_static, bex)
    b = cast(mm, dd, pnt, vec, gg, flg_static, bex, rc)
    for w in range(2):
      for r in range(nrays):
        ncmp += 1
        if same_hit(a[0][w, r], a[1][w, r], a[2][w, r], b[0][w, r], b[1][w, r], b[2][w, r], rtol=2e-4, ntol=2e-3):
          res.nontrivial(("bvh", s, w, r))
          continue
        # near-tie between two geoms / grazing: compare against MuJoCo under perturbation
        if unstable(m, ds[w], pnt[w, r], vec[w, r], gg, flg_static, bex[r], b[0][w, r], b[1][w, r], b[2][w, r], rng):
          ndisc += 1
          continue
        gt = sorted({int(m.geom_type[k]) for k in (int(a[1][w, r]), int(b[1][w, r])) if k >= 0})
        fails.append(dict(xml=xml, qpos=ds[w].qpos.tolist(), world=w, pnt=pnt[w, r].tolist(), vec=vec[w, r].tolist(), geomgroup=gg, flg_static=flg_static,
                          bodyexclude=int(bex[r]), brute=[float(a[0][w, r]), int(a[1][w, r])] + a[2][w, r].tolist(),
                          bvh=[float(b[0][w, r]), int(b[1][w, r])] + b[2][w, r].tolist(), geom_types=[G.TYPE_NAME[t] for t in gt]))  # fmt: skip
    if s == 0:
      res.sample({"kind": "oracle BVH vs brute force", "xml": xml[:300], "rays": 2 * nrays, "hits": int((a[1] >= 0).sum())})
  res.count(ncmp)
  res.extra["oracle_bvh"] = {"rays": ncmp, "discarded_near_discontinuity": ndisc, "disagree": len(fails)}
  return fails


# ---------------------------------------------------------------- oracle 3: structured height fields, top surface
def hfield_mesh_check(m, hid=0):
  """direct model of the host-side hfield mesher: the triangle mesh bvh.build_hfield_bvh hands to Warp (greedy
  merge of coplanar cells, bvh._optimize_hfield_mesh) must be the height field's own surface: every grid node and
  every original triangle's centroid lies on the mesh at its original height (a merge is exact) and is covered."""
  import mujoco_warp._src.bvh as B

  hmesh, _ = B.build_hfield_bvh(m, hid)
  nr, nc = int(m.hfield_nrow[hid]), int(m.hfield_ncol[hid])
  adr = int(m.hfield_adr[hid])
  sz = m.hfield_size[hid]
  data = m.hfield_data[adr : adr + nr * nc]
  bad = G.hfield_mesh_exact(hmesh.points.numpy(), hmesh.indices.numpy(), data, nr, nc, float(sz[0]), float(sz[1]), float(sz[2]))
  return bad, len(hmesh.indices.numpy()) // 3, 2 * (nr - 1) * (nc - 1)


def oracle_hfield(res, nscenes, max_n=8):
  """piecewise-planar terrains (flat / ramp / plateau / stairs / ridges / diagonals / constant rows / bumps) of
  several nrow x ncol sizes, tilted; a dense grid of rays from above at several angles onto the TOP surface
  (base box and side walls are the open finding C34:bvh:hfield-base-and-sides-missing); nworld 1-2:
  brute force == mj_ray and BVH path == brute force, distance, geom id and normal; plus the mesh-exactness model."""
  import mujoco_warp as mjw

  rng = np.random.default_rng(vlib.seed() + 3405)
  fails, meshbad, ncmp, ndisc, nmerged, nhit = [], [], 0, 0, 0, 0
  kinds = {}
  for s in range(nscenes):
    nr, nc = int(rng.integers(2, max_n + 1)), int(rng.integers(2, max_n + 2))
    kind = G.TERRAINS[s % len(G.TERRAINS)]
    xml, kind = G.terrain_scene(rng, nr, nc, kind)
    nworld = 1 + s % 2
    m, ds, mm, dd = build(xml, rng, nworld=nworld)
    bad, ntri, nfull = hfield_mesh_check(m)
    nmerged += ntri < nfull
    kinds[kind] = kinds.get(kind, 0) + 1
    if bad:
      meshbad.append(dict(xml=xml, kind=kind, nrow=nr, ncol=nc, triangles=ntri, discrepancies=bad[:4], qpos=ds[0].qpos.tolist()))
    rc = mjw.create_render_context(m, nworld=nworld, cam_res=(2, 2), enabled_geom_groups=[0, 1, 2, 3, 4, 5])
    mjw.refit_bvh(mm, dd, rc)
    pnt, vec = G.rays_from_above(rng, m, ds[0], 0, min(3 * (nc - 1), 14), min(3 * (nr - 1), 12))
    nray = len(pnt)
    P, V = pnt[None], vec[None]  # shared by the worlds
    bex = np.full(nray, -1)
    a = cast(mm, dd, P, V, [-1] * 6, True, bex)
    b = cast(mm, dd, P, V, [-1] * 6, True, bex, rc)
    for w in range(nworld):
      for r in range(nray):
        x, g, n = mj_cast(m, ds[w], pnt[r], vec[r], [-1] * 6, True, -1)
        ncmp += 1
        nhit += g == 0
        ok1 = same_hit(x, g, n, a[0][w, r], a[1][w, r], a[2][w, r], rtol=3e-4, ntol=3e-3)
        ok2 = same_hit(a[0][w, r], a[1][w, r], a[2][w, r], b[0][w, r], b[1][w, r], b[2][w, r], rtol=3e-4, ntol=3e-3)
        if ok1 and ok2:
          res.nontrivial(("hf", s, w, r))
          continue
        # a crease between two facets / the silhouette of another geom: normal or geom flips under a tiny perturbation
        wrong = (b if ok1 else a)
        if unstable(m, ds[w], pnt[r], vec[r], [-1] * 6, True, -1, wrong[0][w, r], wrong[1][w, r], wrong[2][w, r], rng, eps=3e-4):
          ndisc += 1
          continue
        fails.append(dict(xml=xml, qpos=ds[w].qpos.tolist(), world=w, pnt=pnt[r].tolist(), vec=vec[r].tolist(), geomgroup=[-1] * 6, flg_static=True, bodyexclude=-1,
                          terrain=kind, nrow=nr, ncol=nc, which="brute-vs-mj_ray" if not ok1 else "bvh-vs-brute", mujoco=[x, g] + n.tolist(),
                          brute=[float(a[0][w, r]), int(a[1][w, r])] + a[2][w, r].tolist(), bvh=[float(b[0][w, r]), int(b[1][w, r])] + b[2][w, r].tolist()))  # fmt: skip
    if s == 0:
      res.sample({"kind": "oracle structured height field (top surface)", "terrain": kind, "nrow": nr, "ncol": nc, "rays": nray, "nworld": nworld, "mesh_triangles": [ntri, nfull]})
  res.count(ncmp)
  res.extra["oracle_hfield"] = {"scenes": nscenes, "terrains": kinds, "scenes_with_merged_cells": int(nmerged), "rays": ncmp, "hfield_hits": int(nhit),
                                "discarded_near_crease": ndisc, "disagree": len(fails), "mesh_not_exact": len(meshbad)}  # fmt: skip
  return fails, meshbad


# ---------------------------------------------------------------- directed probes of recorded defects
def _probe(xml, p, v, nworld=1, groups=(0, 1, 2, 3, 4, 5), default_ctx=False):
  import mujoco
  import warp as wp

  import mujoco_warp as mjw

  m = mujoco.MjModel.from_xml_string(xml)
  d = mujoco.MjData(m)
  mujoco.mj_forward(m, d)
  mm, dd = mjw.put_model(m), mjw.put_data(m, d, nworld=nworld)
  rc = mjw.create_render_context(m, nworld=nworld, cam_res=(2, 2)) if default_ctx else mjw.create_render_context(m, nworld=nworld, cam_res=(2, 2), enabled_geom_groups=list(groups))
  P = wp.array(np.array([[p]] * nworld, dtype=np.float32), dtype=wp.vec3)
  V = wp.array(np.array([[v]] * nworld, dtype=np.float32), dtype=wp.vec3)
  x, g, n = mj_cast(m, d, np.float32(p), np.float32(v), [-1] * 6, True, -1)
  a = mjw.ray(mm, dd, P, V)
  b = mjw.ray(mm, dd, P, V, rc=rc)
  return dict(xml=xml, pnt=list(map(float, p)), vec=list(map(float, v)), nworld=nworld, default_render_context=default_ctx,
              mujoco=[x, g] + n.tolist(), brute=[a[0].numpy().ravel().tolist(), a[1].numpy().ravel().tolist(), a[2].numpy().reshape(-1, 3).tolist()],
              bvh=[b[0].numpy().ravel().tolist(), b[1].numpy().ravel().tolist(), b[2].numpy().reshape(-1, 3).tolist()])  # fmt: skip


CUBE = G.MESH_ASSETS["cube"]
PROBES = {
  # key: (what, scene, pnt, vec, kwargs, which pair must agree)
  "C34:ray_mesh:non-unit-direction": (
    "brute-force ray_mesh (and ray_hfield) build the triangle-test basis with _orthogonal_basis(vec), which assumes |vec| = 1: a non-unit direction misses / mis-hits mesh and hfield geoms (mj_ray accepts any vec and returns the distance in units of |vec|)",
    f'<mujoco><asset>{CUBE}</asset><worldbody><geom type="mesh" mesh="cube" quat="0.9 0.1 0.3 0.2"/></worldbody></mujoco>',
    [0.53, 1.36, 0.46], [-0.95, -2.75, -0.8], {}, "brute-mj"),
  "C34:bvh:mesh-bounds-not-centred": (
    "scene-BVH box of a mesh geom is centred on the geom position with half-extent (max-min)/2 of the vertices: a mesh whose AABB centre is not its frame origin sticks out of its box and rays hitting that part are missed by the BVH path",
    f'<mujoco><asset>{G.MESH_ASSETS["pyr"]}</asset><worldbody><geom type="mesh" mesh="pyr"/></worldbody></mujoco>',
    [0.85, 0.01, 1.0], [0, 0, -1], {}, "bvh-brute"),
  "C34:bvh:mesh-backface-culled": (
    "BVH path culls mesh back faces (ray origin inside a mesh returns no hit); brute-force path and mujoco.mj_ray return the exit face",
    f'<mujoco><asset>{CUBE}</asset><worldbody><geom type="mesh" mesh="cube"/></worldbody></mujoco>',
    [0.01, 0.02, 0.03], [1, 0, 0], {}, "bvh-brute"),
  "C34:bvh:hfield-base-and-sides-missing": (
    "the hfield BVH holds only the (front-facing) top surface: rays reaching an hfield through its base box or side walls hit in the brute-force path and in mj_ray but not in the BVH path",
    '<mujoco><asset><hfield name="hf" nrow="3" ncol="3" size="0.4 0.3 0.2 0.05" elevation="0.2 0.8 0.1 0.5 1 0.6 0.8 0.4 0"/></asset><worldbody><geom type="hfield" hfield="hf"/></worldbody></mujoco>',
    [0.05, 0.02, -1.0], [0, 0, 1], {}, "bvh-brute"),
  "C34:bvh:infinite-plane-bounded-1000": (
    "scene-BVH box of an infinite plane (size 0) extends 1000 units from the plane's position: hits farther out are returned by the brute-force path and mj_ray, not by the BVH path",
    '<mujoco><worldbody><geom type="plane" size="0 0 1"/></worldbody></mujoco>',
    [1500.0, 0, 1.0], [0, 0, -1], {}, "bvh-brute"),
  "C34:bvh:geom-group-not-in-render-context": (
    "rays(rc=...) only sees the geoms of the render context's enabled_geom_groups (default 0,1,2): with a default context a geom of group 3 is hit by the brute-force path and not by the BVH path, for the same geomgroup argument",
    '<mujoco><worldbody><geom type="sphere" size="0.1" group="3"/><geom type="sphere" size="0.1" pos="5 0 0"/></worldbody></mujoco>',
    [0, 0, 1.0], [0, 0, -1], {"default_ctx": True}, "bvh-brute"),
  "C34:bvh:flex-stride-multiworld": (
    "_ray_bvh maps a BVH primitive to a geom with bounds_nr - worldid*rc.bvh_ngeom, but the scene BVH stores bvh_ngeom + bvh_nflexgeom primitives per world: with a flex in the model worlds >= 1 read the wrong geom (and index enabled_geom_ids out of range)",
    '<mujoco><worldbody><geom type="sphere" size="0.1"/><geom type="sphere" size="0.1" pos="1 0 0"/><flexcomp name="f" type="grid" count="3 3 1" spacing="0.2 0.2 0.2" pos="3 0 0" radius="0.01" dim="2"><edge equality="false"/></flexcomp></worldbody></mujoco>',
    [0, 0, 1.0], [0, 0, -1], {"nworld": 3}, "bvh-brute"),
}  # fmt: skip


def _probes_child():
  """runs in a subprocess (the flex probe reads enabled_geom_ids out of range and can crash the
  process): one JSON line per probe, flushed as soon as it is known."""
  import sys
  import warnings

  warnings.filterwarnings("ignore")
  for key, (what, xml, p, v, kw, pair) in PROBES.items():
    try:
      r = _probe(xml, p, v, **kw)
      print("PROBE " + json.dumps({"key": key, "result": r}), flush=True)
    except Exception as e:
      print("PROBE " + json.dumps({"key": key, "error": f"{type(e).__name__}: {e}"}), flush=True)
  sys.stdout.flush()


def probes(res):
  import os
  import subprocess

  p = subprocess.run([vlib.PY, "-u", os.path.abspath(__file__), "--probes"], capture_output=True, text=True, timeout=600, env=os.environ)
  got = {}
  for line in p.stdout.splitlines():
    if line.startswith("PROBE "):
      j = json.loads(line[6:])
      got[j["key"]] = j
  out = {}
  for key, (what, xml, pt, v, kw, pair) in PROBES.items():
    res.count()
    j = got.get(key)
    if j is None:
      # the child died before reporting this probe: with the flex scene that is the defect itself
      # (out-of-range enabled_geom_ids[...] read); for any other probe it is a machinery failure
      if key == "C34:bvh:flex-stride-multiworld" and p.returncode != 0:
        out[key] = True
        res.violation(key, what + " -- the probe process crashed (exit %d) inside mjw.ray(rc=...)" % p.returncode,
                      dict(xml=xml, pnt=pt, vec=v, nworld=kw.get("nworld", 1), crashed=True, brute=[[], [], []], bvh=[[], [], []], mujoco=[]))
      else:
        res.obligation(f"probe:{key}", False, f"probe process exit {p.returncode}: {p.stderr[-300:]}")
      continue
    if "error" in j:
      res.notes.append(f"probe {key} failed to run: {j['error']}")
      continue
    r = j["result"]
    bad = False
    for w in range(r["nworld"]):
      br = (r["brute"][0][w], r["brute"][1][w], r["brute"][2][w])
      bv = (r["bvh"][0][w], r["bvh"][1][w], r["bvh"][2][w])
      if pair == "brute-mj":
        bad |= not same_hit(r["mujoco"][0], r["mujoco"][1], r["mujoco"][2:], *br)
      else:
        bad |= not same_hit(*br, *bv)
    out[key] = bad
    if bad:
      res.violation(key, what, r)
  res.extra["probes"] = out
  return out


# ---------------------------------------------------------------- run
def classify_mj(f):
  if not f["unit_vec"] and set(f["geom_types"]) & {"mesh", "hfield"}:
    return "C34:ray_mesh:non-unit-direction"
  return "C34:oracle:ray-vs-mj_ray:" + "+".join(f["geom_types"] or ["none"])


def classify_bvh(f):
  if "mesh" in f["geom_types"]:
    b, a = f["bvh"], f["brute"]
    # the brute-force hit is an exit face (normal along the ray) that the BVH path does not report: origin inside the mesh
    if b[1] != a[1] and a[1] >= 0 and float(np.dot(f["vec"], a[2:5])) > 0:
      return "C34:bvh:mesh-backface-culled"
  return "C34:oracle:bvh-vs-brute:" + "+".join(f["geom_types"] or ["none"])


def run(res):
  quick = res.tier == "quick"
  res.rule = ("T-validation: random float32 inputs per translated ray function (rays aimed at / inside / parallel to faces of the geom, non-unit and zero "
              "directions), distinct = agreeing non-discarded cases; kernel correspondence: distinct (scene, world, ray); oracles: distinct agreeing rays")  # fmt: skip
  import time

  t0 = time.time()

  def lap(what):
    vlib.log(f"[C34] {what}: {time.time() - t0:.1f}s")

  ok, trs, failing = propkit.prove(res, PROPS, gen_names=["T_bvh", "T_ray", "T_render_util"], required_funcs=REQ)
  lap("prove")
  tr = trs.get("T_ray")
  tbad, kbad = [], []
  if tr is not None:
    tbad = tvalidate(res, tr, 60 if quick else 600)
    res.obligation("T-validation: translated ray.py functions agree with compiled Warp", not tbad, f"{len(tbad)} disagreements")
    lap("T-validation")
    kbad, _ = kernel_correspondence(res, tr, 9 if quick else 60, 6 if quick else 10)
    res.obligation("kernel correspondence: Model/Ray.v ray_kernel / ray_bvh_kernel over translated _ray_geom_mesh vs mjw.rays", not kbad, f"{len(kbad)} disagreements")
    fbad = flex_stride_correspondence(res, tr, 3 if quick else 20, 4 if quick else 8)
    res.obligation("kernel correspondence: ray_bvh_kernel_prims (flex stride) vs mjw.rays(rc=...) on flex scenes, 3 worlds", not fbad, f"{len(fbad)} disagreements")
    kbad = kbad + fbad
    lap("kernel correspondence")
  found = False
  # the property itself: unit directions, every geom type
  f1 = oracle_mj(res, 40 if quick else 400, 30, (1.0,), G.PRIMS + ("mesh", "hfield"), "unit")
  # rays starting inside geoms only, no filters: every closed geom type, leaving through every face / cap
  f1 += oracle_mj(res, 20 if quick else 200, 30, (1.0,), ("sphere", "capsule", "cylinder", "box", "ellipsoid", "mesh", "capsule", "cylinder"), "inside", inside=1.0, filters=False)
  # any |vec| on primitives (mj_ray semantics: distance in units of |vec|)
  f2 = oracle_mj(res, 15 if quick else 150, 30, (0.5, 3.0, 0.01, 100.0), G.PRIMS, "scaled-primitives")
  # any |vec| on mesh / hfield (repaired in /repo 8617230; a relapse is reported under the original key)
  f3 = oracle_mj(res, 6 if quick else 60, 30, (0.5, 3.0), ("mesh", "hfield", "sphere"), "nonunit")
  seen = set()
  for f in f1 + f2 + f3:
    key = classify_mj(f)
    found = True
    if key not in seen:
      seen.add(key)
      res.violation(key, f"mjw.rays {f['mjwarp'][:2]} vs mujoco.mj_ray {f['mujoco'][:2]} on {f['geom_types']} (unit direction: {f['unit_vec']})", f)
  f4 = oracle_bvh(res, 30 if quick else 300, 30)
  for f in f4:
    key = classify_bvh(f)
    found = True
    if key not in seen:
      seen.add(key)
      res.violation(key, f"BVH path {f['bvh'][:2]} vs brute-force path {f['brute'][:2]} on {f['geom_types']}", f)
  f5, meshbad = oracle_hfield(res, 12 if quick else 96)
  res.obligation("hfield BVH mesh (bvh._optimize_hfield_mesh via build_hfield_bvh) lies exactly on the elevation surface, on generated piecewise-planar terrains",
                 not meshbad, f"{len(meshbad)} terrains with discrepancies")  # fmt: skip
  for mb in meshbad[:1]:
    found = True
    res.violation("C34:bvh:hfield-mesh-not-on-elevation-surface", f"the triangle mesh built for the BVH ray path merges cells of a {mb['nrow']}x{mb['ncol']} '{mb['kind']}' terrain into triangles that leave the height field's surface: {mb['discrepancies'][0]}", mb)
  for f in f5:
    key = "C34:oracle:hfield-top-surface:" + f["which"]
    found = True
    if key not in seen:
      seen.add(key)
      res.violation(key, f"structured height field ({f['terrain']} {f['nrow']}x{f['ncol']}), ray onto the top surface: mj_ray {f['mujoco'][:2]}, brute force {f['brute'][:2]}, BVH path {f['bvh'][:2]}", f)
  lap("oracles")
  pr = probes(res)
  lap("probes")
  found = found or any(pr.values())
  if (tbad or kbad) and not found:
    res.violation("C34:model-mismatch", "translated / hand model disagrees with the compiled code (model no longer tied to code)", (tbad + kbad)[:3], found_input=False)
  if not ok and not found:
    propkit.broken_proof_violation(res, "C34 theorems over regenerated ray.py", failing)
  res.assumptions += [
    "float32 rounding is not modelled: theorems are over R; oracles compare to 1e-3 relative and discard rays within 2e-4 of a discontinuity",
    "tile_argmin returns the first lane attaining the minimum (CPU: one lane per block); GPU block sizes are covered by the theorem only under this assumption",
    "Warp's bvh_query_ray / mesh_query_ray builtins are outside /repo: the BVH theorem is about an abstract traversal; the real BVH is exercised by the BVH-vs-brute oracle",
  ]


def replay(res, path):
  r = json.load(open(path))["replay"]
  if isinstance(r, list) or "xml" not in r:
    print("replay: no concrete input in this file (proof/correspondence breakage); re-run the check")
    return 1
  if "brute" in r and isinstance(r["brute"][0], list):  # directed probe
    out = _probe(r["xml"], r["pnt"], r["vec"], nworld=r.get("nworld", 1), default_ctx=r.get("default_render_context", False))
    print("mujoco:", out["mujoco"][:2], "brute:", out["brute"][:2], "bvh:", out["bvh"][:2])
    return 0
  import mujoco
  import warp as wp

  import mujoco_warp as mjw

  m = mujoco.MjModel.from_xml_string(r["xml"])
  d = mujoco.MjData(m)
  d.qpos[:] = r["qpos"]
  mujoco.mj_forward(m, d)
  mm, dd = mjw.put_model(m), mjw.put_data(m, d, nworld=1)
  p, v = np.array([[r["pnt"]]], dtype=np.float32), np.array([[r["vec"]]], dtype=np.float32)
  a = cast(mm, dd, p, v, r["geomgroup"], r["flg_static"], [r["bodyexclude"]])
  print("mjw.rays (brute):", a[0].ravel(), a[1].ravel(), a[2].ravel())
  print("mujoco.mj_ray   :", mj_cast(m, d, p[0, 0], v[0, 0], r["geomgroup"], r["flg_static"], r["bodyexclude"]))
  if "bvh" in r:
    rc = mjw.create_render_context(m, nworld=1, cam_res=(2, 2), enabled_geom_groups=[0, 1, 2, 3, 4, 5])
    b = cast(mm, dd, p, v, r["geomgroup"], r["flg_static"], [r["bodyexclude"]], rc)
    print("mjw.rays (BVH)  :", b[0].ravel(), b[1].ravel(), b[2].ravel())
  return 0


if __name__ == "__main__":
  import sys

  if "--probes" in sys.argv:
    _probes_child()
